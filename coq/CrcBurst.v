(** CRC32 / CRC64 detect every error burst of at most 32 / 64 bits:
    two equal-length messages whose difference is confined to a window of
    at most deg(poly) consecutive bits never have the same CRC. *)
From XZ Require Import Base Crc CrcProofs CrcSlice.
Local Open Scope N_scope.

Lemma xval_lt d : bytes_ok d -> xval d < 2 ^ (8 * lenN d).
Proof.
  induction 1 as [|b r Hb Hr IH]; [cbn; lia|].
  cbn [xval]. unfold lenN in *. cbn [length]. rewrite Nat2N.inj_succ.
  replace (8 * N.succ (N.of_nat (length r))) with (8 * N.of_nat (length r) + 8) by lia.
  apply lxor_lt.
  - unfold byte_ok in Hb. eapply N.lt_le_trans; [exact Hb|].
    change 256 with (2 ^ 8). apply N.pow_le_mono_r; lia.
  - eapply shiftl_lt; [exact IH|lia].
Qed.

Lemma lxor_cancel_l c x y : N.lxor (N.lxor c x) (N.lxor c y) = N.lxor x y.
Proof.
  rewrite N.lxor_assoc. rewrite <- (N.lxor_assoc x c y). rewrite (N.lxor_comm x c).
  rewrite N.lxor_assoc. rewrite <- N.lxor_assoc. rewrite N.lxor_nilpotent. apply N.lxor_0_l.
Qed.

Section B.
Variable poly : N.
Variable n : N.
Hypothesis n_pos : 1 <= n.
Hypothesis poly_hi : 2 ^ (n - 1) <= poly.
Hypothesis poly_lt : poly < 2 ^ n.

Lemma step_zero c : c < 2 ^ n -> crc_step poly c = 0 -> c = 0.
Proof.
  intros Hc H. unfold crc_step in H.
  assert (Hhalf : N.shiftr c 1 < 2 ^ (n - 1)).
  { rewrite N.shiftr_div_pow2. change (2 ^ 1) with 2.
    apply N.div_lt_upper_bound; [lia|].
    replace (2 * 2 ^ (n - 1)) with (2 ^ n); [exact Hc|].
    replace n with (N.succ (n - 1)) at 1 by lia. rewrite N.pow_succ_r'. reflexivity. }
  destruct (N.odd c) eqn:E.
  - apply N.lxor_eq in H. lia.
  - rewrite N.shiftr_div_pow2 in H. change (2 ^ 1) with 2 in H.
    pose proof (N.div_mod c 2 ltac:(lia)) as D. rewrite H in D.
    assert (c mod 2 = 0).
    { rewrite <- N.bit0_mod. rewrite N.bit0_odd. rewrite E. reflexivity. }
    lia.
Qed.

Lemma steps_zero k : forall c, c < 2 ^ n -> steps poly k c = 0 -> c = 0.
Proof.
  induction k as [|k IH]; intros c Hc H; [exact H|].
  rewrite steps_S in H. apply IH in H; [|apply step_lt; assumption].
  apply step_zero; assumption.
Qed.

Theorem burst_detected c m m' w k :
  bytes_ok m -> bytes_ok m' -> length m = length m' ->
  N.lxor (xval m) (xval m') = N.shiftl w k -> 0 < w -> w < 2 ^ n ->
  crc_update poly c m <> crc_update poly c m'.
Proof.
  intros Hm Hm' Hlen HE Hw0 Hw Heq.
  rewrite (crc_update_steps poly 4 ltac:(lia) m c) in Heq.
  rewrite (crc_update_steps poly 4 ltac:(lia) m' c) in Heq.
  rewrite <- Hlen in Heq.
  assert (Z : N.lxor (steps poly (8 * length m) (N.lxor c (xval m)))
                     (steps poly (8 * length m) (N.lxor c (xval m'))) = 0)
    by (rewrite Heq; apply N.lxor_nilpotent).
  rewrite <- steps_lxor in Z. rewrite lxor_cancel_l in Z. rewrite HE in Z.
  (* the burst lies inside the message *)
  assert (Hk : k < 8 * lenN m).
  { pose proof (xval_lt m Hm) as B1. pose proof (xval_lt m' Hm') as B2.
    assert (lenN m' = lenN m) by (unfold lenN; rewrite Hlen; reflexivity).
    rewrite H in B2.
    pose proof (lxor_lt _ _ _ B1 B2) as B. rewrite HE in B.
    rewrite N.shiftl_mul_pow2 in B.
    destruct (N.lt_ge_cases k (8 * lenN m)) as [L|L]; [exact L|exfalso].
    assert (2 ^ (8 * lenN m) <= 2 ^ k) by (apply N.pow_le_mono_r; lia).
    assert (2 ^ k <= w * 2 ^ k) by nia. lia. }
  set (kn := N.to_nat k).
  assert (Hsplit : (8 * length m = (8 * length m - kn) + kn)%nat).
  { subst kn. unfold lenN in Hk. lia. }
  rewrite Hsplit in Z. rewrite steps_add in Z.
  replace k with (N.of_nat kn) in Z by (subst kn; apply N2Nat.id).
  rewrite steps_shiftl in Z.
  apply steps_zero in Z; [lia|exact Hw].
Qed.
End B.

Lemma lxor_inj_r a b c : N.lxor a c = N.lxor b c -> a = b.
Proof.
  intro H. apply (f_equal (fun x => N.lxor x c)) in H.
  rewrite !N.lxor_assoc, N.lxor_nilpotent, !N.lxor_0_r in H. exact H.
Qed.

Theorem crc32_detects_burst32 init m m' w k :
  bytes_ok m -> bytes_ok m' -> length m = length m' ->
  N.lxor (xval m) (xval m') = N.shiftl w k -> 0 < w -> w < 2 ^ 32 ->
  crc32 m init <> crc32 m' init.
Proof.
  intros Hm Hm' Hl HE Hw0 Hw H. unfold crc32, not32 in H. apply lxor_inj_r in H.
  revert H. apply (burst_detected poly32 32) with (w := w) (k := k); auto; vm_compute; try discriminate; reflexivity.
Qed.

Theorem crc64_detects_burst64 init m m' w k :
  bytes_ok m -> bytes_ok m' -> length m = length m' ->
  N.lxor (xval m) (xval m') = N.shiftl w k -> 0 < w -> w < 2 ^ 64 ->
  crc64 m init <> crc64 m' init.
Proof.
  intros Hm Hm' Hl HE Hw0 Hw H. unfold crc64, not64 in H. apply lxor_inj_r in H.
  revert H. apply (burst_detected poly64 64) with (w := w) (k := k); auto; vm_compute; try discriminate; reflexivity.
Qed.
