(** C02 — encoder output is a valid instance of the published formats;
    bound functions are sufficient.  The independent decoder is the Coq
    specification (strict dictionary mode); it recomputes every size field,
    CRC32, Check, padding and the Index from the primary data, so acceptance
    means the stored metadata is truthful.  Proved here: the integer
    encoding is canonical, and the output-size bounds are sound and
    wrap-free for every n; the model of the bound functions is tied to the
    library by a table regenerated on every run. *)
From XZ Require Import Base Xz VliProofs Bound C02Lemmas.
From XZ.Gen Require Import Bounds Consts.
Local Open Scope N_scope.

Theorem vli_encoding_is_decodable_and_canonical :
  (forall v rest, v <= VLI_MAX -> vli_decode (vli_encode v ++ rest) = Some (v, rest)) /\
  (forall l v rest, bytes_ok l -> vli_decode l = Some (v, rest) -> l = vli_encode v ++ rest /\ v <= VLI_MAX).
Proof. split; [exact vli_decode_encode|exact vli_accepted_is_canonical]. Qed.
Print Assumptions vli_encoding_is_decodable_and_canonical.

Theorem bound_model_reproduces_library :
  forallb (fun r => let '(n, b, s) := r in (block_bound n =? b) && (stream_bound n =? s)) bound_table = true.
Proof. exact bound_table_ok. Qed.
Print Assumptions bound_model_reproduces_library.

Theorem bound_constants_are_the_sources :
  COMPRESSED_SIZE_MAX = c_COMPRESSED_SIZE_MAX /\ c_LZMA2_CHUNK_MAX = 65536
  /\ c_LZMA2_HEADER_UNCOMPRESSED = 3 /\ c_LZMA_CHECK_SIZE_MAX = 64 /\ c_LZMA_VLI_BYTES_MAX = 9
  /\ (20 <? lenN bound_table) = true.
Proof. exact bound_consts_ok. Qed.
Print Assumptions bound_constants_are_the_sources.

Theorem lzma2_bound_is_exact_uncompressed_size : forall n, lzma2_bound n <> 0 ->
  lzma2_bound n = n + 3 * ((n + 65535) / 65536) + 1 /\ lzma2_bound n <= COMPRESSED_SIZE_MAX.
Proof. exact lzma2_bound_exact. Qed.
Print Assumptions lzma2_bound_is_exact_uncompressed_size.

Theorem uncompressed_chunk_encoding_size : forall fuel n, n <= 65536 * N.of_nat fuel ->
  uncomp_size fuel n = n + 3 * ((n + 65535) / 65536) + 1.
Proof. exact uncomp_size_closed. Qed.
Print Assumptions uncompressed_chunk_encoding_size.

Theorem block_bound_is_sufficient : forall n hs cs, block_bound n <> 0 -> hs <= 28 -> cs <= 64 ->
  hs + ceil4 (n + 3 * ((n + 65535) / 65536) + 1) + cs <= block_bound n.
Proof. exact block_bound_sound. Qed.
Print Assumptions block_bound_is_sufficient.

Theorem stream_bound_is_sufficient : forall n hs cs isz, stream_bound n <> 0 -> hs <= 28 -> cs <= 64 -> isz <= 24 ->
  12 + (hs + ceil4 (n + 3 * ((n + 65535) / 65536) + 1) + cs) + isz + 12 <= stream_bound n
  /\ stream_bound n <= VLI_MAX.
Proof. exact stream_bound_sound. Qed.
Print Assumptions stream_bound_is_sufficient.

Theorem bounds_are_wrap_free : forall n, n < 2 ^ 64 ->
  lzma2_bound n < 2 ^ 63 /\ block_bound n < 2 ^ 63 /\ stream_bound n < 2 ^ 63 /\ n + 65536 - 1 < 2 ^ 64 + 65536.
Proof. exact bounds_no_wrap. Qed.
Print Assumptions bounds_are_wrap_free.

Example bound_nonzero_somewhere : block_bound 100000 = 92 + 100008 /\ stream_bound 100000 <> 0.
Proof. vm_compute. split; [reflexivity|discriminate]. Qed.

(** The container.  [stream_bytes] is the model of what the single-threaded
    Stream encoder writes for the LZMA2 chain, optionally with a Delta filter in front (Stream Header, Blocks with
    header / LZMA2 payload / padding / Check, Index, Stream Footer; every CRC32,
    size field and padding computed from the data); [stream_decode] is the
    decoder specification written from doc/xz-file-format.txt.  The
    specification accepts every such Stream, consumes exactly its bytes and
    returns the concatenated Block contents - so all the metadata the model
    encoder writes is truthful.  Checks None, CRC32, CRC64 and SHA-256.  That the real encoder writes exactly
    these bytes is checked per run (xzsyms). *)
From XZ Require Import Lzma Lzma2 LzmaEnc LzmaRun Lzma2Enc XzEnc.
Theorem xz_stream_is_valid_and_lossless :
  forall fuel strict check, check_ok check ->
  forall bs rest,
  Forall (block_ok fuel strict) bs ->
  Forall rec_ok (recs_of check bs) -> lenN (recs_of check bs) <= VLI_MAX ->
  lenN (index_bytes (recs_of check bs)) <= 17179869184 ->
  (length bs < Pos.to_nat fuel)%nat ->
  let x := stream_decode fuel strict true (xz_init (stream_bytes check bs ++ rest)) in
  xstatus x = Finished /\ xin x = rest /\ xused x = lenN (stream_bytes check bs) /\
  xz_output x = concat (map b_data bs).
Proof. exact stream_decode_encoded. Qed.
Print Assumptions xz_stream_is_valid_and_lossless.

(* non-vacuity: a two-Block Stream with CRC64, computed *)
Definition ex_block1 : blockspec :=
  {| b_delta := None; b_db := 0; b_chunks := [KL 3 93 [SLit 97; SLit 98; SLit 99; SMatch 2 5; SShortRep]; KU false [1; 2; 3; 4]] |}.
Definition ex_block2 : blockspec := {| b_delta := Some 0; b_db := 8; b_chunks := [KU true [7; 7; 7]] |}.   (* Delta, distance 1 *)
Example xz_example_decodes :
  xz_decode_single 64 true (stream_bytes 4 [ex_block1; ex_block2] ++ [9; 9]) =
  (Finished, [97; 98; 99; 97; 98; 99; 97; 98; 99; 1; 2; 3; 4; 7; 14; 21], lenN (stream_bytes 4 [ex_block1; ex_block2])).
Proof. vm_compute. reflexivity. Qed.

(** with a Delta filter: if the chunks expand to the delta-encoded data, the Block holds the data *)
From XZ Require Import Bcj BcjProofs.
Theorem delta_block_holds_the_original : forall b dm1 d,
  b_delta b = Some dm1 -> bytes_ok d -> b_raw b = delta_encode (dm1 + 1) d -> b_data b = d.
Proof. intros b dm1 d H Hd E. unfold b_data. rewrite H, E. apply delta_roundtrip. exact Hd. Qed.
Print Assumptions delta_block_holds_the_original.
