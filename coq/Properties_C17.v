(** C17 — xz never loses user data when I/O fails.  PARTIAL: proved is the
    ordering logic of io_close for every combination of step outcomes (a
    finite but exhaustive fault oracle): the source is removed only after the
    complete target has been written, synchronised (unless disabled) and
    closed without error; any failure removes the target and keeps the
    source.  The transcription is tied to the binary by system-call fault
    injection (LD_PRELOAD) on every write/close/fsync/lseek/unlink call and
    by kill points; kernel durability semantics and signal timing finer than
    system-call boundaries are outside. *)
From XZ Require Import Base XzIo.

Theorem source_removed_only_after_complete_synced_closed_target : forall f,
  src_unlinked (io_close_model f) = true ->
  coding_ok f = true /\ dest_complete (io_close_model f) = true /\
  (has_tail f = true -> tail_seek_ok f = true /\ tail_write_ok f = true) /\
  (sync_enabled f = true -> fsync_file_ok f = true /\ fsync_dir_ok f = true) /\
  close_dest_ok f = true /\ dest_unlinked (io_close_model f) = false /\ keep f = false.
Proof.
  intros [c h ts tw se ff fd cd k]. unfold io_close_model. cbn.
  destruct c, h, ts, tw, se, ff, fd, cd, k; cbn; intro H; try discriminate H; repeat split; auto; discriminate.
Qed.
Print Assumptions source_removed_only_after_complete_synced_closed_target.

Theorem any_failure_removes_target_and_keeps_source : forall f,
  failure_reported (io_close_model f) = true ->
  dest_unlinked (io_close_model f) = true /\ src_unlinked (io_close_model f) = false.
Proof.
  intros [c h ts tw se ff fd cd k]. unfold io_close_model. cbn.
  destruct c, h, ts, tw, se, ff, fd, cd, k; cbn; intro H; try discriminate H; split; reflexivity.
Qed.
Print Assumptions any_failure_removes_target_and_keeps_source.

Theorem keep_never_unlinks_source : forall f, keep f = true -> src_unlinked (io_close_model f) = false.
Proof.
  intros [c h ts tw se ff fd cd k]. unfold io_close_model. cbn. intro H. cbn in H. subst k.
  destruct c, h, ts, tw, se, ff, fd, cd; reflexivity.
Qed.
Print Assumptions keep_never_unlinks_source.

Example clean_run_replaces_file :
  let r := io_close_model {| coding_ok := true; has_tail := true; tail_seek_ok := true; tail_write_ok := true; sync_enabled := true;
                             fsync_file_ok := true; fsync_dir_ok := true; close_dest_ok := true; keep := false |} in
  src_unlinked r = true /\ dest_unlinked r = false /\ failure_reported r = false.
Proof. vm_compute. repeat split; reflexivity. Qed.
