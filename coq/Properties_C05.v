(** C05 — corruption and truncation are never reported as success with
    different data.  Proved: the CRC burst theorems and one end-to-end
    instance on the container specification.  The "different data" clause
    for arbitrary damage is necessarily modulo check collisions; it and the
    truncation clause are decided by exhaustive single-fault enumeration on
    the real decoders (see evidence). *)
From XZ Require Import Base Crc CrcProofs CrcSlice CrcBurst C05Lemmas Lzma Lzma2 Xz.
Local Open Scope N_scope.

Theorem crc32_detects_every_burst_up_to_32_bits : forall init m m' w k,
  bytes_ok m -> bytes_ok m' -> length m = length m' ->
  N.lxor (xval m) (xval m') = N.shiftl w k -> 0 < w -> w < 2 ^ 32 ->
  crc32 m init <> crc32 m' init.
Proof. exact crc32_detects_burst32. Qed.
Print Assumptions crc32_detects_every_burst_up_to_32_bits.

Theorem crc64_detects_every_burst_up_to_64_bits : forall init m m' w k,
  bytes_ok m -> bytes_ok m' -> length m = length m' ->
  N.lxor (xval m) (xval m') = N.shiftl w k -> 0 < w -> w < 2 ^ 64 ->
  crc64 m init <> crc64 m' init.
Proof. exact crc64_detects_burst64. Qed.
Print Assumptions crc64_detects_every_burst_up_to_64_bits.

Theorem damaged_stream_flags_are_rejected : forall fuel f0 f1 g0 g1 rest,
  byte_ok f0 -> byte_ok f1 -> byte_ok g0 -> byte_ok g1 -> [g0; g1] <> [f0; f1] ->
  xstatus (stream_decode fuel false true
     (xz_init (HEADER_MAGIC ++ [g0; g1] ++ le_bytes 4 (crc32 [f0; f1] 0) ++ rest))) = DataError.
Proof. exact stream_header_flags_damage_rejected. Qed.
Print Assumptions damaged_stream_flags_are_rejected.

(** non-vacuity: a 20-bit burst straddling three bytes *)
Example burst_example :
  N.lxor (xval [1;2;3;4;5]) (xval [1;2 + 0xA0;3 + 0x5F;4 + 0x0B;5]) = N.shiftl 0xB61A 12 /\ 0xB61A < 2 ^ 32.
Proof. vm_compute. split; reflexivity. Qed.
