(** BCJ filters and the delta filter: transcriptions of
    src/liblzma/simple/{arm,armthumb,arm64,powerpc,sparc,ia64,x86,riscv}.c
    and src/liblzma/delta/*.c.  uint32_t arithmetic is written with the wrap
    explicit ([w32]); bit packing is written arithmetically (div/mod by
    powers of two) wherever the C code uses shifts and masks of known
    fields, so that [lia] can reason about it. *)
From XZ Require Import Base.
Local Open Scope N_scope.

Definition w32 (x : N) : N := x mod 4294967296.
Definition sub32' (a b : N) : N := w32 (a + 4294967296 - w32 b).

(** dest = is_encoder ? pc + src : src - pc   (all uint32_t) *)
Definition conv_addr (enc : bool) (pc src : N) : N :=
  if enc then w32 (pc + src) else sub32' src pc.

(** -------- generic drivers -------- *)
(** fixed 4-byte stride: for (i = 0; i < (size & ~3); i += 4) *)
Fixpoint stride4 (f : N -> N -> N -> N -> N -> list N) (pos : N) (l : list N) : list N :=
  match l with
  | a :: b :: c :: d :: r => f pos a b c d ++ stride4 f (w32 (pos + 4)) r
  | _ => l
  end.
Definition processed4 (l : list N) : N := 4 * (lenN l / 4).

(** -------- ARM -------- *)
Definition arm_word (enc : bool) (pos b0 b1 b2 b3 : N) : list N :=
  if b3 =? 0xEB then
    let src := w32 ((b0 + 256 * b1 + 65536 * b2) * 4) in
    let dest := conv_addr enc (w32 (pos + 8)) src / 4 in
    [dest mod 256; (dest / 256) mod 256; (dest / 65536) mod 256; b3]
  else [b0; b1; b2; b3].
Definition arm_code (enc : bool) (now_pos : N) (l : list N) : list N * N :=
  (stride4 (arm_word enc) (w32 now_pos) l, processed4 l).

(** -------- PowerPC -------- *)
Definition ppc_word (enc : bool) (pos b0 b1 b2 b3 : N) : list N :=
  if (b0 / 4 =? 0x12) && (b3 mod 4 =? 1) then
    let src := (b0 mod 4) * 16777216 + b1 * 65536 + b2 * 256 + (b3 - b3 mod 4) in
    let dest := conv_addr enc pos src in
    [0x48 + (dest / 16777216) mod 4; (dest / 65536) mod 256; (dest / 256) mod 256;
     N.lor (b3 mod 4) (dest mod 256)]
  else [b0; b1; b2; b3].
Definition powerpc_code (enc : bool) (now_pos : N) (l : list N) : list N * N :=
  (stride4 (ppc_word enc) (w32 now_pos) l, processed4 l).

(** -------- SPARC -------- *)
Definition sparc_word (enc : bool) (pos b0 b1 b2 b3 : N) : list N :=
  if ((b0 =? 0x40) && (b1 / 64 =? 0)) || ((b0 =? 0x7F) && (b1 / 64 =? 3)) then
    let src := w32 ((b0 * 16777216 + b1 * 65536 + b2 * 256 + b3) * 4) in
    let d := conv_addr enc pos src / 4 in
    let dest := (if (d / 4194304) mod 2 =? 1 then 0x3FC00000 else 0)
                + d mod 4194304 + 0x40000000 in
    [(dest / 16777216) mod 256; (dest / 65536) mod 256; (dest / 256) mod 256; dest mod 256]
  else [b0; b1; b2; b3].
Definition sparc_code (enc : bool) (now_pos : N) (l : list N) : list N * N :=
  (stride4 (sparc_word enc) (w32 now_pos) l, processed4 l).

(** -------- ARM64 -------- *)
Definition le32 (b0 b1 b2 b3 : N) : N := b0 + 256 * b1 + 65536 * b2 + 16777216 * b3.
Definition put32le (v : N) : list N :=
  [v mod 256; (v / 256) mod 256; (v / 65536) mod 256; (v / 16777216) mod 256].
Definition put32be (v : N) : list N := rev (put32le v).
Definition neg32 (x : N) : N := w32 (4294967296 - w32 x).

Definition arm64_word (enc : bool) (pos b0 b1 b2 b3 : N) : list N :=
  let instr := le32 b0 b1 b2 b3 in
  if instr / 67108864 =? 0x25 then
    let pc := pos / 4 in
    let pc := if enc then pc else neg32 pc in
    put32le (0x94000000 + (w32 (instr + pc)) mod 67108864)
  else if (instr / 2147483648 =? 1) && ((instr / 16777216) mod 32 =? 16) then
    let src := (instr / 536870912) mod 4 + ((instr / 32) mod 524288) * 4 in
    if negb (((src + 0x20000) / 262144) mod 8 =? 0) then [b0; b1; b2; b3]
    else
      let pc := pos / 4096 in
      let pc := if enc then pc else neg32 pc in
      let dest := w32 (src + pc) in
      put32le (0x90000000 + instr mod 32
               + (dest mod 4) * 536870912
               + ((dest / 4) mod 65536) * 32
               + (if (dest / 131072) mod 2 =? 1 then 0xE00000 else 0))
  else [b0; b1; b2; b3].
Definition arm64_code (enc : bool) (now_pos : N) (l : list N) : list N * N :=
  (stride4 (arm64_word enc) (w32 now_pos) l, processed4 l).

(** -------- ARM-Thumb: for (i = 0; i <= size - 4; i += 2), i += 2 more after a hit -------- *)
Definition thumb_hit (b1 b3 : N) : bool := (b1 / 8 =? 30) && (b3 / 8 =? 31).
Definition thumb_conv (enc : bool) (pos b0 b1 b2 b3 : N) : list N :=
  let src := w32 (((b1 mod 8) * 524288 + b0 * 2048 + (b3 mod 8) * 256 + b2) * 2) in
  let dest := conv_addr enc (w32 (pos + 4)) src / 2 in
  [(dest / 2048) mod 256; 0xF0 + (dest / 524288) mod 8; dest mod 256; 0xF8 + (dest / 256) mod 8].
Fixpoint thumb_go (enc : bool) (pos : N) (l : list N) {struct l} : list N * N :=
  match l with
  | b0 :: rest =>
    match rest with
    | b1 :: rest2 =>
      match rest2 with
      | b2 :: b3 :: r =>
        if thumb_hit b1 b3 then
          let '(o, n) := thumb_go enc (w32 (pos + 4)) r in (thumb_conv enc pos b0 b1 b2 b3 ++ o, n + 4)
        else
          let '(o, n) := thumb_go enc (w32 (pos + 2)) rest2 in (b0 :: b1 :: o, n + 2)
      | _ => (l, 0)
      end
    | _ => (l, 0)
    end
  | [] => ([], 0)
  end.
Definition armthumb_code (enc : bool) (now_pos : N) (l : list N) : list N * N :=
  if lenN l <? 4 then (l, 0) else thumb_go enc (w32 now_pos) l.

(** -------- IA-64 -------- *)
Section IA64.
Variable branch_table : list N.
Definition splice (l : list N) (at_ : nat) (new : list N) : list N :=
  firstn at_ l ++ new ++ skipn (at_ + length new) l.
Definition ia64_slot (enc : bool) (pos : N) (bundle : list N) (slot : N) : list N :=
  let bit_pos := 5 + 41 * slot in
  let byte_pos := N.to_nat (bit_pos / 8) in
  let bit_res := bit_pos mod 8 in
  let instruction := le_val (firstn 6 (skipn byte_pos bundle)) in
  let inst_norm := instruction / 2 ^ bit_res in
  if ((inst_norm / 2 ^ 37) mod 16 =? 5) && ((inst_norm / 512) mod 8 =? 0) then
    let src := w32 (((inst_norm / 8192) mod 1048576 + ((inst_norm / 2 ^ 36) mod 2) * 1048576) * 16) in
    let dest := conv_addr enc pos src / 16 in
    (* inst_norm &= ~(0x8FFFFF << 13): clear bits 13..32 and bit 36 *)
    let cleared := inst_norm mod 8192
                   + ((inst_norm / 2 ^ 33) mod 8) * 2 ^ 33
                   + (inst_norm / 2 ^ 37) * 2 ^ 37 in
    let inst_norm' := cleared + (dest mod 1048576) * 8192 + ((dest / 1048576) mod 2) * 2 ^ 36 in
    let instruction' := instruction mod 2 ^ bit_res + inst_norm' * 2 ^ bit_res in
    splice bundle byte_pos (le_bytes 6 instruction')
  else bundle.
Definition ia64_bundle (enc : bool) (pos : N) (bundle : list N) : list N :=
  let mask := nth (N.to_nat (nth 0 bundle 0 mod 32)) branch_table 0 in
  fold_left (fun b slot => if (mask / 2 ^ slot) mod 2 =? 1 then ia64_slot enc pos b slot else b)
            [0; 1; 2] bundle.
Fixpoint ia64_go (enc : bool) (fuel : nat) (pos : N) (l : list N) : list N :=
  match fuel with
  | O => l
  | S f => if lenN l <? 16 then l
           else ia64_bundle enc pos (firstn 16 l) ++ ia64_go enc f (w32 (pos + 16)) (skipn 16 l)
  end.
Definition ia64_code (enc : bool) (now_pos : N) (l : list N) : list N * N :=
  (ia64_go enc (length l) (w32 now_pos) l, 16 * (lenN l / 16)).
End IA64.

(** -------- x86 -------- *)
Section X86.
Variable mask_to_bit : list N.
Definition test86 (b : N) : bool := (b =? 0) || (b =? 255).
Fixpoint x86_inner (fuel : nat) (enc : bool) (pm pc5 src : N) : N :=
  let dest := if enc then w32 (src + pc5) else sub32' src pc5 in
  match fuel with
  | O => dest
  | S f =>
    if pm =? 0 then dest else
    let i := nth (N.to_nat (pm / 2)) mask_to_bit 0 in
    let b := (dest / 2 ^ (24 - i * 8)) mod 256 in
    if negb (test86 b) then dest
    else x86_inner f enc pm pc5 (N.lxor dest (2 ^ (32 - i * 8) - 1))
  end.
Fixpoint shift_mask (k : nat) (pm : N) : N :=
  match k with O => pm | S j => shift_mask j (w32 (N.land pm 0x77 * 2)) end.

Record x86res := { xo : list N; xpm : N; xpp : N; xn : N }.
Fixpoint x86_go (enc : bool) (pm pp pos : N) (l : list N) {struct l} : x86res :=
  match l with
  | b :: rest =>
    match rest with
    | b1 :: b2 :: b3 :: b4 :: r =>
      if negb ((b =? 0xE8) || (b =? 0xE9)) then
        let x := x86_go enc pm pp (w32 (pos + 1)) rest in
        {| xo := b :: xo x; xpm := xpm x; xpp := xpp x; xn := xn x + 1 |}
      else
        let offset := sub32' pos pp in
        let pp := pos in
        let pm := if 5 <? offset then 0 else shift_mask (N.to_nat offset) pm in
        if test86 b4 && (pm / 2 <=? 4) && negb (pm / 2 =? 3) then
          let src := b4 * 16777216 + b3 * 65536 + b2 * 256 + b1 in
          let dest := x86_inner 16 enc pm (w32 (pos + 5)) src in
          let x := x86_go enc 0 pp (w32 (pos + 5)) r in
          {| xo := b :: dest mod 256 :: (dest / 256) mod 256 :: (dest / 65536) mod 256
                   :: (if (dest / 16777216) mod 2 =? 1 then 255 else 0) :: xo x;
             xpm := xpm x; xpp := xpp x; xn := xn x + 5 |}
        else
          let pm := N.lor pm 1 in
          let pm := if test86 b4 then N.lor pm 0x10 else pm in
          let x := x86_go enc pm pp (w32 (pos + 1)) rest in
          {| xo := b :: xo x; xpm := xpm x; xpp := xpp x; xn := xn x + 1 |}
    | _ => {| xo := l; xpm := pm; xpp := pp; xn := 0 |}
    end
  | [] => {| xo := []; xpm := pm; xpp := pp; xn := 0 |}
  end.
(** one call of x86_code(simple, now_pos, is_encoder, buffer, size) *)
Definition x86_code (enc : bool) (pm pp now_pos : N) (l : list N) : x86res :=
  if lenN l <? 5 then {| xo := l; xpm := pm; xpp := pp; xn := 0 |}
  else
    let now_pos := w32 now_pos in
    let pp := if 5 <? sub32' now_pos pp then sub32' now_pos 5 else pp in
    x86_go enc pm pp now_pos l.
End X86.

(** -------- RISC-V -------- *)
Definition rd32le (l : list N) : N :=
  match l with a :: b :: c :: d :: _ => le32 a b c d | _ => 0 end.
Definition rd32be (l : list N) : N :=
  match l with a :: b :: c :: d :: _ => le32 d c b a | _ => 0 end.
Definition shl32' (x k : N) : N := w32 (x * 2 ^ k).
Definition not_auipc_pair (auipc inst2 : N) : bool :=
  negb (N.land (N.lxor (shl32' auipc 8) (sub32' inst2 3)) 0xF8003 =? 0).
Definition not_special_auipc (auipc rs1 : N) : bool :=
  N.land rs1 0x1D <=? shl32' (sub32' auipc 0x3117) 18.

Inductive rv_act := RvSkip (n : nat) | RvOut (bytes : list N).

Definition riscv_enc_at (pc : N) (l : list N) : rv_act :=
  match l with
  | i0 :: b1 :: b2 :: b3 :: tl =>
    if i0 =? 0xEF then
      if negb (N.land b1 0x0D =? 0) then RvSkip 2
      else
        let addr := N.lor (N.lor (N.lor (N.lor (N.lor
                     (N.land b1 0xF0 * 256) (N.land b2 0x0F * 65536))
                     (N.land b2 0x10 * 128)) (N.land b2 0xE0 / 16))
                     (N.land b3 0x7F * 16)) (N.land b3 0x80 * 8192) in
        let addr := w32 (addr + pc) in
        RvOut [i0; N.lor (N.land b1 0x0F) (N.land (addr / 8192) 0xF0);
               (addr / 512) mod 256; (addr / 2) mod 256]
    else if N.land i0 0x7F =? 0x17 then
      let inst := le32 i0 b1 b2 b3 in
      if negb (N.land inst 0xE80 =? 0) then
        let inst2 := rd32le tl in
        if not_auipc_pair inst inst2 then RvSkip 6
        else
          let addr := N.land inst 0xFFFFF000 in
          let addr := w32 (addr + sub32' (inst2 / 1048576) (N.land (inst2 / 524288) 0x1000)) in
          let addr := w32 (addr + pc) in
          let inst' := N.lor (N.lor 0x17 256) (shl32' inst2 12) in
          RvOut (put32le inst' ++ put32be addr)
      else
        let fake_rs1 := inst / 134217728 in
        if not_special_auipc inst fake_rs1 then RvSkip 4
        else
          let fake_addr := rd32le tl in
          let fake_inst2 := N.lor (inst / 4096) (shl32' fake_addr 20) in
          let inst' := N.lor (N.lor 0x17 (fake_rs1 * 128)) (N.land fake_addr 0xFFFFF000) in
          RvOut (put32le inst' ++ put32le fake_inst2)
    else RvSkip 2
  | _ => RvSkip 2
  end.

Definition riscv_dec_at (pc : N) (l : list N) : rv_act :=
  match l with
  | i0 :: b1 :: b2 :: b3 :: tl =>
    if i0 =? 0xEF then
      if negb (N.land b1 0x0D =? 0) then RvSkip 2
      else
        let addr := N.lor (N.lor (N.land b1 0xF0 * 8192) (b2 * 512)) (b3 * 2) in
        let addr := sub32' addr pc in
        RvOut [i0; N.lor (N.land b1 0x0F) (N.land (addr / 256) 0xF0);
               N.lor (N.lor (N.land (addr / 65536) 0x0F) (N.land (addr / 128) 0x10))
                     (N.land (shl32' addr 4) 0xE0);
               N.lor (N.land (addr / 16) 0x7F) (N.land (addr / 8192) 0x80)]
    else if N.land i0 0x7F =? 0x17 then
      let inst := le32 i0 b1 b2 b3 in
      if negb (N.land inst 0xE80 =? 0) then
        let inst2 := rd32le tl in
        if not_auipc_pair inst inst2 then RvSkip 6
        else
          let addr := w32 (N.land inst 0xFFFFF000 + inst2 / 1048576) in
          let inst' := N.lor (N.lor 0x17 256) (shl32' inst2 12) in
          RvOut (put32le inst' ++ put32le addr)
      else
        let rs1 := inst / 134217728 in
        if not_special_auipc inst rs1 then RvSkip 4
        else
          let addr := sub32' (rd32be tl) pc in
          let inst2 := N.lor (inst / 4096) (shl32' addr 20) in
          let inst' := N.lor (N.lor 0x17 (rs1 * 128)) (N.land (w32 (addr + 0x800)) 0xFFFFF000) in
          RvOut (put32le inst' ++ put32le inst2)
    else RvSkip 2
  | _ => RvSkip 2
  end.

(** for (i = 0; i <= size - 8; i += 2) with the various skips *)
Fixpoint riscv_go (enc : bool) (fuel : nat) (pos : N) (l : list N) : list N * N :=
  match fuel with
  | O => (l, 0)
  | S f =>
    if lenN l <? 8 then (l, 0)
    else match (if enc then riscv_enc_at pos l else riscv_dec_at pos l) with
         | RvSkip n => let '(o, c) := riscv_go enc f (w32 (pos + N.of_nat n)) (skipn n l) in
                       (firstn n l ++ o, c + N.of_nat n)
         | RvOut bs => let n := length bs in
                       let '(o, c) := riscv_go enc f (w32 (pos + N.of_nat n)) (skipn n l) in
                       (bs ++ o, c + N.of_nat n)
         end
  end.
Definition riscv_code (enc : bool) (now_pos : N) (l : list N) : list N * N :=
  riscv_go enc (length l) (w32 now_pos) l.

(** -------- Delta -------- *)
Record delta_state := { dhist : list N (* 256 entries *); dpos : N (* uint8_t *) }.
Definition delta_init : delta_state := {| dhist := repeatN 0 256; dpos := 0 |}.
Fixpoint set_nth (l : list N) (i : nat) (v : N) : list N :=
  match l, i with
  | [], _ => []
  | _ :: r, O => v :: r
  | x :: r, S j => x :: set_nth r j v
  end.
Definition delta_enc_byte (dist : N) (s : delta_state) (b : N) : delta_state * N :=
  let tmp := nth (N.to_nat ((dist + dpos s) mod 256)) (dhist s) 0 in
  ({| dhist := set_nth (dhist s) (N.to_nat (dpos s mod 256)) b;
      dpos := (dpos s + 255) mod 256 |},
   (b + 256 - tmp) mod 256).
Definition delta_dec_byte (dist : N) (s : delta_state) (c : N) : delta_state * N :=
  let b := (c + nth (N.to_nat ((dist + dpos s) mod 256)) (dhist s) 0) mod 256 in
  ({| dhist := set_nth (dhist s) (N.to_nat (dpos s mod 256)) b;
      dpos := (dpos s + 255) mod 256 |}, b).
Fixpoint delta_run (f : delta_state -> N -> delta_state * N) (s : delta_state) (l : list N)
  : delta_state * list N :=
  match l with
  | [] => (s, [])
  | b :: r => let '(s1, o) := f s b in let '(s2, os) := delta_run f s1 r in (s2, o :: os)
  end.
Definition delta_encode (dist : N) (l : list N) := snd (delta_run (delta_enc_byte dist) delta_init l).
Definition delta_decode (dist : N) (l : list N) := snd (delta_run (delta_dec_byte dist) delta_init l).
