(** Clause-by-clause theorems about the lzma_code() model, for arbitrary
    inner coders and arbitrary call histories. *)
From XZ Require Import Base CodeWrap.
Local Open Scope N_scope.

Definition flushing (q : N) : bool :=
  (q =? ISEQ_SYNC_FLUSH) || (q =? ISEQ_FULL_FLUSH) || (q =? ISEQ_FINISH) || (q =? ISEQ_FULL_BARRIER).
Definition nonfatal (x : N) : bool :=
  (x =? R_OK) || (x =? R_TIMED_OUT) || (x =? R_SEEK_NEEDED) || (x =? R_STREAM_END) || (x =? R_NO_CHECK)
  || (x =? R_UNSUPPORTED_CHECK) || (x =? R_GET_CHECK) || (x =? R_MEMLIMIT_ERROR).

(** ---- facts about [post] (the part after the coder returned) ---- *)
Ltac post_cases :=
  unfold post;
  repeat match goal with
  | |- context [if ?b then _ else _] => let E := fresh "E" in destruct b eqn:E
  end; cbn [ret st called din dout sq saved_avail_in supported allow_buf_error total_in total_out].

Ltac fatal_contra Hn :=
  exfalso; unfold nonfatal in Hn;
  repeat match goal with E : (_ || _) = false |- _ => apply orb_false_iff in E; destruct E end;
  repeat match goal with E : (_ =? _) = false |- _ => rewrite E in Hn; clear E end;
  discriminate Hn.

Lemma post_called s q c r : called (post s q c r) = true.
Proof. post_cases; reflexivity. Qed.

Lemma post_accounting s q c r :
  din (post s q c r) = iin r /\ dout (post s q c r) = iout r /\
  total_in (st (post s q c r)) = total_in s + iin r /\ total_out (st (post s q c r)) = total_out s + iout r /\
  saved_avail_in (st (post s q c r)) = avail_in c - iin r /\ supported (st (post s q c r)) = supported s.
Proof. post_cases; auto 10. Qed.

Lemma post_buf_error s q c r : ret (post s q c r) = R_BUF_ERROR -> iret r <> R_BUF_ERROR ->
  allow_buf_error s = true /\ iin r = 0 /\ iout r = 0 /\ iret r = R_OK /\ sq (st (post s q c r)) = q.
Proof.
  post_cases; intros H Hn; try discriminate H;
    repeat match goal with E : (_ =? _) = true |- _ => apply N.eqb_eq in E end; try congruence.
  apply negb_false_iff in E0. apply andb_true_iff in E0 as [A B].
  apply N.eqb_eq in A, B. auto.
Qed.

Lemma post_flag_set s q c r : allow_buf_error s = false -> allow_buf_error (st (post s q c r)) = true ->
  iin r = 0 /\ iout r = 0 /\ iret r = R_OK /\ ret (post s q c r) = R_OK.
Proof.
  intro Ha. post_cases; intro H; try discriminate H; try congruence.
  apply negb_false_iff in E0. apply andb_true_iff in E0 as [A B].
  apply N.eqb_eq in A, B, E. auto.
Qed.

Lemma post_flag_true s q c r : allow_buf_error (st (post s q c r)) = true -> nonfatal (iret r) = true ->
  iin r = 0 /\ iout r = 0 /\ (ret (post s q c r) = R_OK \/ ret (post s q c r) = R_BUF_ERROR).
Proof.
  unfold nonfatal. post_cases; intros H Hn; try discriminate H; auto.
  - apply negb_false_iff in E0. apply andb_true_iff in E0 as [A B]. apply N.eqb_eq in A, B. auto.
  - apply negb_false_iff in E0. apply andb_true_iff in E0 as [A B]. apply N.eqb_eq in A, B. auto.
  - fatal_contra Hn.
Qed.

Lemma post_progress s q c r : (iin r <> 0 \/ iout r <> 0) -> iret r = R_OK ->
  allow_buf_error (st (post s q c r)) = false /\ ret (post s q c r) = R_OK /\ sq (st (post s q c r)) = q.
Proof.
  intros Hp Hr. unfold post. rewrite Hr. cbn [N.eqb R_OK].
  assert (X : negb ((iin r =? 0) && (iout r =? 0)) = true).
  { destruct Hp as [Hp|Hp]; apply N.eqb_neq in Hp; rewrite Hp; rewrite ?andb_false_r; reflexivity. }
  rewrite X. cbn. auto.
Qed.

Lemma post_timed_out s q c r : iret r = R_TIMED_OUT ->
  ret (post s q c r) = R_OK /\ allow_buf_error (st (post s q c r)) = false /\ sq (st (post s q c r)) = q.
Proof. intro Hr. unfold post. rewrite Hr. cbn. auto. Qed.

Lemma post_fatal s q c r : nonfatal (iret r) = false ->
  sq (st (post s q c r)) = ISEQ_ERROR /\ ret (post s q c r) = iret r.
Proof.
  intro Hn. unfold nonfatal in Hn.
  repeat (apply orb_false_iff in Hn; destruct Hn as [Hn ?]).
  unfold post.
  repeat match goal with E : (_ =? _) = false |- _ => rewrite E; clear E end.
  cbn. auto.
Qed.

Lemma post_nonfatal_keeps_running s q c r : nonfatal (iret r) = true -> q <> ISEQ_ERROR ->
  sq (st (post s q c r)) <> ISEQ_ERROR.
Proof.
  intros Hn Hq. post_cases; try assumption; try discriminate; fatal_contra Hn.
Qed.

Lemma post_stream_end s q c r : iret r = R_STREAM_END ->
  ret (post s q c r) = R_STREAM_END /\
  sq (st (post s q c r)) = (if (q =? ISEQ_SYNC_FLUSH) || (q =? ISEQ_FULL_FLUSH) || (q =? ISEQ_FULL_BARRIER) then ISEQ_RUN else ISEQ_END).
Proof. intro Hr. unfold post. rewrite Hr. cbn. auto. Qed.

Lemma post_seek_needed s q c r : iret r = R_SEEK_NEEDED ->
  ret (post s q c r) = R_SEEK_NEEDED /\ sq (st (post s q c r)) = (if q =? ISEQ_FINISH then ISEQ_RUN else q).
Proof. intro Hr. unfold post. rewrite Hr. cbn. auto. Qed.

(** ---- one call ---- *)
Section P.
Variable inner : call -> inner_res.

Lemma step_rejected s c : rejected s c = true -> code_step inner s c = nochange s R_PROG_ERROR.
Proof. unfold code_step. intros ->. reflexivity. Qed.

Lemma prog_error_action_out_of_range s c :
  ACTION_MAX < action c -> code_step inner s c = nochange s R_PROG_ERROR.
Proof.
  intro H. apply step_rejected. unfold rejected.
  apply N.ltb_lt in H. rewrite H. rewrite !orb_true_r. reflexivity.
Qed.

Lemma prog_error_unsupported_action s c :
  supp s (action c) = false -> code_step inner s c = nochange s R_PROG_ERROR.
Proof. intro H. apply step_rejected. unfold rejected. rewrite H. cbn [negb]. rewrite !orb_true_r. reflexivity. Qed.

Lemma prog_error_null_in s c :
  in_null c = true -> avail_in c <> 0 -> code_step inner s c = nochange s R_PROG_ERROR.
Proof.
  intros H1 H2. apply step_rejected. unfold rejected. rewrite H1.
  apply N.eqb_neq in H2. rewrite H2. reflexivity.
Qed.

Lemma prog_error_null_out s c :
  out_null c = true -> avail_out c <> 0 -> code_step inner s c = nochange s R_PROG_ERROR.
Proof.
  intros H1 H2. apply step_rejected. unfold rejected. rewrite H1.
  apply N.eqb_neq in H2. rewrite H2. cbn [negb andb]. rewrite orb_true_r. reflexivity.
Qed.

Lemma prog_error_uninitialised s c :
  initialised c = false -> code_step inner s c = nochange s R_PROG_ERROR.
Proof. intro H. apply step_rejected. unfold rejected. rewrite H. cbn [negb]. rewrite !orb_true_r. reflexivity. Qed.

(** inversion: either nothing happened, or the coder ran and [post] applies *)
Lemma step_inv s c :
  (exists r, code_step inner s c = nochange s r) \/
  (exists q, rejected s c = false /\ reserved_bad c = false /\ pre_switch s c = inl q /\
             code_step inner s c = post s q c (inner c)).
Proof.
  unfold code_step. destruct (rejected s c); [left; eauto|].
  destruct (reserved_bad c); [left; eauto|].
  destruct (pre_switch s c) as [q|r]; [right; exists q; auto|left; eauto].
Qed.

Lemma not_called_unchanged s c :
  called (code_step inner s c) = false ->
  st (code_step inner s c) = s /\ din (code_step inner s c) = 0 /\ dout (code_step inner s c) = 0.
Proof.
  destruct (step_inv s c) as [[r ->]|[q [_ [_ [_ ->]]]]]; [cbn; auto|].
  rewrite post_called. discriminate.
Qed.

Lemma prog_error_change_after_flush_started s c :
  rejected s c = false -> reserved_bad c = false -> flushing (sq s) = true ->
  (action c <> sq s \/ saved_avail_in s <> avail_in c) ->
  code_step inner s c = nochange s R_PROG_ERROR.
Proof.
  intros Hp Hr Hf Hc. unfold code_step. rewrite Hp, Hr.
  unfold pre_switch. unfold flushing in Hf.
  destruct (sq s =? ISEQ_RUN) eqn:E0.
  { apply N.eqb_eq in E0. rewrite E0 in Hf. discriminate Hf. }
  rewrite Hf.
  assert (X : negb (action c =? sq s) || negb (saved_avail_in s =? avail_in c) = true).
  { destruct Hc as [Hc|Hc]; apply N.eqb_neq in Hc; rewrite Hc; cbn [negb]; rewrite ?orb_true_r; reflexivity. }
  rewrite X. reflexivity.
Qed.

Lemma sticky_error s c : sq s = ISEQ_ERROR ->
  called (code_step inner s c) = false /\ st (code_step inner s c) = s /\
  (ret (code_step inner s c) = R_PROG_ERROR \/ ret (code_step inner s c) = R_OPTIONS_ERROR).
Proof.
  intro H. unfold code_step.
  destruct (rejected s c); [cbn; auto|].
  destruct (reserved_bad c); [cbn; auto|].
  unfold pre_switch. rewrite H. cbn. auto.
Qed.

Lemma sticky_end s c : sq s = ISEQ_END -> rejected s c = false -> reserved_bad c = false ->
  code_step inner s c = nochange s R_STREAM_END.
Proof.
  intros H Hp Hr. unfold code_step. rewrite Hp, Hr. unfold pre_switch. rewrite H. reflexivity.
Qed.

Lemma accounting_exact s c : called (code_step inner s c) = true ->
  let o := code_step inner s c in let r := inner c in
  din o = iin r /\ dout o = iout r /\
  total_in (st o) = total_in s + iin r /\ total_out (st o) = total_out s + iout r /\
  saved_avail_in (st o) = avail_in c - iin r /\ supported (st o) = supported s.
Proof.
  destruct (step_inv s c) as [[r ->]|[q [_ [_ [_ ->]]]]]; [cbn; discriminate|].
  intros _. apply post_accounting.
Qed.

Lemma pre_switch_not_error s c q : pre_switch s c = inl q -> q <> ISEQ_ERROR /\ q <> ISEQ_END.
Proof.
  unfold pre_switch.
  destruct (sq s =? ISEQ_RUN) eqn:E0.
  - intro H; inversion H; subst; clear H.
    repeat match goal with |- context [if ?b then _ else _] => destruct b end; split; discriminate.
  - destruct (_ || _ || _ || _) eqn:Ef.
    + destruct (negb _ || negb _); [discriminate|]. intro H; inversion H; subst.
      split; intro Hq; rewrite Hq in Ef; discriminate Ef.
    + destruct (sq s =? ISEQ_END); discriminate.
Qed.

Lemma step_nochange_ret s c r : code_step inner s c = nochange s r ->
  r = R_PROG_ERROR \/ r = R_OPTIONS_ERROR \/ r = R_STREAM_END.
Proof.
  unfold code_step.
  destruct (rejected s c); [intro H; inversion H; auto|].
  destruct (reserved_bad c); [intro H; inversion H; auto|].
  destruct (pre_switch s c) as [q|r0] eqn:Hp.
  - intro H. pose proof (post_called s q c (inner c)) as X. rewrite H in X. discriminate X.
  - intro H; inversion H; subst. unfold pre_switch in Hp.
    repeat match type of Hp with context [if ?b then _ else _] => destruct b end; inversion Hp; auto.
Qed.

Lemma buf_error_only_when s c : ret (code_step inner s c) = R_BUF_ERROR ->
  iret (inner c) <> R_BUF_ERROR ->
  called (code_step inner s c) = true /\ allow_buf_error s = true /\
  iin (inner c) = 0 /\ iout (inner c) = 0 /\ iret (inner c) = R_OK /\
  sq (st (code_step inner s c)) <> ISEQ_ERROR.
Proof.
  destruct (step_inv s c) as [[r E]|[q [_ [_ [Hq E]]]]]; rewrite E.
  - intro H. cbn [nochange ret] in H. destruct (step_nochange_ret s c r E) as [X|[X|X]]; rewrite X in H; discriminate H.
  - intros H Hn. destruct (post_buf_error s q c (inner c) H Hn) as [A [B [C [D F]]]].
    rewrite post_called. repeat split; auto. rewrite F. apply (pre_switch_not_error s c q Hq).
Qed.

Lemma progress_clears_flag s c : called (code_step inner s c) = true ->
  (iin (inner c) <> 0 \/ iout (inner c) <> 0) -> iret (inner c) = R_OK ->
  allow_buf_error (st (code_step inner s c)) = false /\ ret (code_step inner s c) = R_OK.
Proof.
  destruct (step_inv s c) as [[r ->]|[q [_ [_ [_ ->]]]]]; [cbn; discriminate|].
  intros _ Hp Hr. destruct (post_progress s q c (inner c) Hp Hr) as [A [B _]]. auto.
Qed.

Lemma timed_out_is_ok s c : called (code_step inner s c) = true -> iret (inner c) = R_TIMED_OUT ->
  ret (code_step inner s c) = R_OK /\ allow_buf_error (st (code_step inner s c)) = false.
Proof.
  destruct (step_inv s c) as [[r ->]|[q [_ [_ [_ ->]]]]]; [cbn; discriminate|].
  intros _ Hr. destruct (post_timed_out s q c (inner c) Hr) as [A [B _]]. auto.
Qed.

Lemma fatal_makes_error_state s c : called (code_step inner s c) = true ->
  nonfatal (iret (inner c)) = false -> sq (st (code_step inner s c)) = ISEQ_ERROR
  /\ ret (code_step inner s c) = iret (inner c).
Proof.
  destruct (step_inv s c) as [[r ->]|[q [_ [_ [_ ->]]]]]; [cbn; discriminate|].
  intros _ Hn. apply post_fatal; exact Hn.
Qed.

Lemma flush_end_returns_to_run s c : called (code_step inner s c) = true ->
  iret (inner c) = R_STREAM_END ->
  (action c = A_SYNC_FLUSH \/ action c = A_FULL_FLUSH \/ action c = A_FULL_BARRIER) ->
  ret (code_step inner s c) = R_STREAM_END /\ sq (st (code_step inner s c)) = ISEQ_RUN.
Proof.
  destruct (step_inv s c) as [[r ->]|[q [_ [_ [Hq ->]]]]]; [cbn; discriminate|].
  intros _ Hr Ha. destruct (post_stream_end s q c (inner c) Hr) as [A B]. split; [exact A|].
  rewrite B. clear A B.
  assert (Hqa : q = action c).
  { revert Hq. unfold pre_switch. destruct (sq s =? ISEQ_RUN).
    - intro H; inversion H. destruct Ha as [Ha|[Ha|Ha]]; rewrite Ha; reflexivity.
    - destruct (_ || _ || _ || _); [|destruct (sq s =? ISEQ_END); discriminate].
      destruct (negb (action c =? sq s) || negb (saved_avail_in s =? avail_in c)) eqn:Ec; [discriminate|].
      intro H; inversion H; subst. apply orb_false_iff in Ec as [Ec _]. apply negb_false_iff in Ec.
      apply N.eqb_eq in Ec. congruence. }
  rewrite Hqa. destruct Ha as [Ha|[Ha|Ha]]; rewrite Ha; reflexivity.
Qed.

Lemma finish_end_is_final s c : called (code_step inner s c) = true ->
  iret (inner c) = R_STREAM_END -> (action c = A_RUN \/ action c = A_FINISH) ->
  sq (st (code_step inner s c)) = ISEQ_END.
Proof.
  destruct (step_inv s c) as [[r ->]|[q [_ [_ [Hq ->]]]]]; [cbn; discriminate|].
  intros _ Hr Ha. destruct (post_stream_end s q c (inner c) Hr) as [_ B]. rewrite B. clear B.
  assert (Hqa : q = action c).
  { revert Hq. unfold pre_switch. destruct (sq s =? ISEQ_RUN).
    - intro H; inversion H. destruct Ha as [Ha|Ha]; rewrite Ha; reflexivity.
    - destruct (_ || _ || _ || _); [|destruct (sq s =? ISEQ_END); discriminate].
      destruct (negb (action c =? sq s) || negb (saved_avail_in s =? avail_in c)) eqn:Ec; [discriminate|].
      intro H; inversion H; subst. apply orb_false_iff in Ec as [Ec _]. apply negb_false_iff in Ec.
      apply N.eqb_eq in Ec. congruence. }
  rewrite Hqa. destruct Ha as [Ha|Ha]; rewrite Ha; reflexivity.
Qed.

End P.

(** ---- whole histories ---- *)
Fixpoint last_called (os : list outcome) : option outcome :=
  match os with
  | [] => None
  | o :: r => match last_called r with Some x => Some x | None => if called o then Some o else None end
  end.
Fixpoint final_state (s : cstate) (os : list outcome) : cstate :=
  match os with [] => s | o :: r => final_state (st o) r end.

Lemma final_state_app s0 a b : final_state s0 (a ++ b) = final_state (final_state s0 a) b.
Proof. revert s0; induction a; intros; cbn; auto. Qed.

Lemma run_app inner k s a b :
  run inner k s (a ++ b) = run inner k s a ++ run inner (length a + k) (final_state s (run inner k s a)) b.
Proof.
  revert k s; induction a as [|c a IH]; intros k s; [reflexivity|].
  cbn [app run final_state length]. rewrite IH. f_equal. f_equal. f_equal. lia.
Qed.

Lemma last_called_app a b : last_called (a ++ b) =
  match last_called b with Some x => Some x | None => last_called a end.
Proof.
  induction a as [|o a IH]; cbn [app last_called]; [destruct (last_called b); reflexivity|].
  rewrite IH. destruct (last_called b); reflexivity.
Qed.

(** Over every history from a fresh initialisation and every inner coder
    that never itself returns BUF_ERROR: whenever the no-progress flag is
    set while the handle is still usable, the most recent call that reached
    the coder moved nothing (and returned OK or BUF_ERROR). *)
Theorem flag_means_last_invocation_stalled inner sup cs :
  let os := run inner 0 (strm_init sup) cs in
  let s := final_state (strm_init sup) os in
  allow_buf_error s = true -> sq s <> ISEQ_ERROR ->
  exists o, last_called os = Some o /\ din o = 0 /\ dout o = 0 /\ (ret o = R_OK \/ ret o = R_BUF_ERROR).
Proof.
  induction cs as [|c cs IH] using rev_ind; cbn zeta.
  - cbn. discriminate.
  - rewrite run_app. cbn [run]. set (os := run inner 0 (strm_init sup) cs) in *.
    rewrite final_state_app. cbn [final_state].
    set (s := final_state (strm_init sup) os) in *.
    set (o := code_step (inner (length cs + 0)%nat) s c).
    intros Hflag Hne.
    rewrite last_called_app. cbn [last_called].
    destruct (step_inv (inner (length cs + 0)%nat) s c) as [[r E]|[q [_ [_ [Hq E]]]]]; fold o in E.
    + rewrite E in Hflag, Hne |- *. cbn [nochange called st] in *. apply IH; assumption.
    + rewrite E in Hflag, Hne |- *. rewrite post_called.
      exists (post s q c (inner (length cs + 0)%nat c)). split; [reflexivity|].
      destruct (nonfatal (iret (inner (length cs + 0)%nat c))) eqn:Hnf.
      * destruct (post_flag_true _ _ _ _ Hflag Hnf) as [A [B C]].
        destruct (post_accounting s q c (inner (length cs + 0)%nat c)) as [D1 [D2 _]].
        rewrite D1, D2. auto.
      * exfalso. apply Hne. apply post_fatal. exact Hnf.
Qed.

(** Hence: BUF_ERROR is returned only on the second consecutive invocation
    that moves nothing (calls rejected without reaching the coder do not
    count), and it is not fatal. *)
Theorem buf_error_only_second_noprogress inner sup cs c :
  let os := run inner 0 (strm_init sup) cs in
  let s := final_state (strm_init sup) os in
  let o := code_step (inner (length cs)) s c in
  ret o = R_BUF_ERROR -> iret (inner (length cs) c) <> R_BUF_ERROR ->
  (exists p, last_called os = Some p /\ din p = 0 /\ dout p = 0 /\ (ret p = R_OK \/ ret p = R_BUF_ERROR))
  /\ din o = 0 /\ dout o = 0 /\ sq (st o) <> ISEQ_ERROR.
Proof.
  cbn zeta. intros H Hn.
  destruct (buf_error_only_when _ _ _ H Hn) as [Hc [Ha [Hi [Ho [Hr Hs]]]]].
  destruct (accounting_exact _ _ _ Hc) as [D1 [D2 _]].
  split; [|rewrite D1, D2; auto].
  apply flag_means_last_invocation_stalled; [exact Ha|].
  (* the handle was usable: a call reached the coder *)
  intro He. destruct (sticky_error (inner (length cs)) _ c He) as [X _]. congruence.
Qed.

(** after a fatal error, every later call of every history is rejected *)
Theorem error_is_sticky inner k s cs : sq s = ISEQ_ERROR ->
  Forall (fun o => called o = false /\ (ret o = R_PROG_ERROR \/ ret o = R_OPTIONS_ERROR)) (run inner k s cs).
Proof.
  revert k s; induction cs as [|c cs IH]; intros k s H; [constructor|].
  cbn [run]. destruct (sticky_error (inner k) s c H) as [A [B C]].
  constructor; [auto|]. apply IH. rewrite B. exact H.
Qed.

(** after end of stream, the state never changes again *)
Theorem end_is_sticky inner k s cs : sq s = ISEQ_END ->
  Forall (fun o => called o = false /\ st o = s) (run inner k s cs).
Proof.
  revert k; induction cs as [|c cs IH]; intros k H; [constructor|].
  cbn [run].
  assert (X : called (code_step (inner k) s c) = false /\ st (code_step (inner k) s c) = s).
  { unfold code_step. destruct (rejected s c); [cbn; auto|]. destruct (reserved_bad c); [cbn; auto|].
    unfold pre_switch. rewrite H. cbn. auto. }
  destruct X as [A B]. constructor; [auto|]. rewrite B. apply IH. exact H.
Qed.

(** totals are exact sums of what the coder consumed/produced *)
Theorem totals_are_sums inner k s cs :
  let os := run inner k s cs in
  total_in (final_state s os) = total_in s + fold_right (fun o a => din o + a) 0 os /\
  total_out (final_state s os) = total_out s + fold_right (fun o a => dout o + a) 0 os.
Proof.
  revert k s; induction cs as [|c cs IH]; intros k s; cbn zeta; [cbn; lia|].
  cbn [run final_state fold_right].
  specialize (IH (S k) (st (code_step (inner k) s c))). cbn zeta in IH. destruct IH as [I1 I2].
  rewrite I1, I2.
  destruct (called (code_step (inner k) s c)) eqn:Hc.
  - destruct (accounting_exact _ _ _ Hc) as [D1 [D2 [T1 [T2 _]]]]. rewrite T1, T2, D1, D2. lia.
  - destruct (not_called_unchanged _ _ _ Hc) as [S1 [S2 S3]]. rewrite S1, S2, S3. lia.
Qed.
