(** LZMA symbol encoder (model of the bit-level part of lzma_encoder.c:
    literal(), length(), match(), rep_match(), encode_eopm(); the choice of
    symbols - match finder and optimiser - is not part of it) and the proof
    that each piece is decoded by the corresponding piece of the decoder
    specification in Lzma.v. *)
From XZ Require Import Base Lzma RcAbs RcDec RcRoundtrip RcCodes.
Require Import ZifyBool ZifyN ZifyNat.
Local Open Scope N_scope.

Definition encoder := probs -> list decision * probs.
Definition enc_nil : encoder := fun ps => ([], ps).
Definition enc_bit (i : N) (b : bool) : encoder :=
  fun ps => ([DBit (pget ps i) b], pset ps i (prob_update (pget ps i) b)).
Definition seq2 (e1 e2 : encoder) : encoder :=
  fun ps => let r1 := e1 ps in let r2 := e2 (snd r1) in (fst r1 ++ fst r2, snd r2).
Definition enc_tree (n : nat) (base sym v : N) : encoder := fun ps => enc_bittree n ps base sym v.
Definition enc_tree_rev (n : nat) (base sym v : N) : encoder := fun ps => enc_bittree_rev n ps base sym v.
Definition enc_dir (n : nat) (v : N) : encoder := fun ps => (enc_direct n v, ps).

Definition dist_slot (d : N) : N :=
  if d <? 4 then d else let n := N.log2 d in 2 * n + (d / 2 ^ (n - 1)) mod 2.

Lemma dist_slot_spec d : 4 <= d < 4294967296 ->
  let slot := dist_slot d in
  let nb := slot / 2 - 1 in
  let d0 := (2 + slot mod 2) * 2 ^ nb in
  4 <= slot < 64 /\ 1 <= nb <= 30 /\ d0 <= d < d0 + 2 ^ nb.
Proof.
  intros Hd. unfold dist_slot. destruct (d <? 4) eqn:E; [apply N.ltb_lt in E; lia|]. clear E.
  cbv zeta. set (n := N.log2 d).
  destruct (N.log2_spec d ltac:(lia)) as [L1 L2]. fold n in L1, L2.
  assert (Hn2 : 2 <= n).
  { destruct (N.le_gt_cases 2 n) as [H|H]; [exact H|].
    assert (N.succ n <= 2) by lia.
    pose proof (N.pow_le_mono_r 2 (N.succ n) 2 ltac:(lia) H0). change (2 ^ 2) with 4 in *. lia. }
  assert (Hn31 : n <= 31).
  { destruct (N.le_gt_cases n 31) as [H|H]; [exact H|].
    pose proof (N.pow_le_mono_r 2 32 n ltac:(lia) ltac:(lia)). change (2 ^ 32) with 4294967296 in *. lia. }
  set (q := 2 ^ (n - 1)).
  assert (Hq : 0 < q) by (apply N.neq_0_lt_0; apply N.pow_nonzero; lia).
  assert (E1 : 2 ^ n = 2 * q) by (unfold q; rewrite <- N.pow_succ_r'; f_equal; lia).
  assert (E2 : 2 ^ N.succ n = 4 * q) by (rewrite N.pow_succ_r', E1; lia).
  rewrite E1 in L1. rewrite E2 in L2.
  assert (Hdq : d / q = 2 \/ d / q = 3).
  { assert (2 <= d / q) by (apply N.div_le_lower_bound; lia).
    assert (d / q < 4) by (apply N.div_lt_upper_bound; lia). lia. }
  set (x := (d / q) mod 2).
  assert (Hx : x = d / q - 2) by (unfold x; destruct Hdq as [H|H]; rewrite H; reflexivity).
  assert (Hx1 : x <= 1) by lia.
  assert (S2 : (2 * n + x) / 2 = n).
  { symmetry. apply N.div_unique with (r := x); lia. }
  assert (S3 : (2 * n + x) mod 2 = x).
  { symmetry. apply N.mod_unique with (q := n); lia. }
  rewrite S2, S3. fold q.
  pose proof (N.div_mod d q ltac:(lia)) as DM. pose proof (N.mod_lt d q ltac:(lia)) as ML.
  split; [lia|]. split; [lia|]. nia.
Qed.

Section Pieces.
Variable f : astate.
Variable rest : list N.
Hypothesis Rf : 0 < aR f.

Definition Codes {A} (D : rc -> probs -> A * rc * probs) (e : encoder) (a : A) : Prop :=
  forall ps, codes f rest D ps a (fst (e ps)) (snd (e ps)).

Lemma Codes_ret {A} (a : A) : Codes (fun r ps => (a, r, ps)) enc_nil a.
Proof. intro ps. apply codes_ret. Qed.

Lemma Codes_bit i b : Codes (fun r ps => rc_bit r ps i) (enc_bit i b) b.
Proof. intro ps. apply codes_bit. exact Rf. Qed.

Lemma Codes_bind {A B} (D1 : rc -> probs -> A * rc * probs) (D2 : A -> rc -> probs -> B * rc * probs) e1 e2 a b :
  Codes D1 e1 a -> Codes (D2 a) e2 b ->
  Codes (fun r ps => let '(x, r, ps) := D1 r ps in D2 x r ps) (seq2 e1 e2) b.
Proof. intros H1 H2 ps. unfold seq2. cbn [fst snd]. eapply codes_bind; [apply H1|apply H2]. Qed.

Lemma Codes_ext {A} (D D' : rc -> probs -> A * rc * probs) e a :
  (forall r ps, D' r ps = D r ps) -> Codes D e a -> Codes D' e a.
Proof. intros E H ps. eapply codes_ext; [intro r; apply E|apply H]. Qed.

Lemma Codes_map {A B} (g : A -> B) (D : rc -> probs -> A * rc * probs) e a :
  Codes D e a -> Codes (fun r ps => let '(x, r, ps) := D r ps in (g x, r, ps)) e (g a).
Proof. intros H ps. apply codes_map. apply H. Qed.

Lemma Codes_eq {A} (D : rc -> probs -> A * rc * probs) e (a a' : A) : a = a' -> Codes D e a -> Codes D e a'.
Proof. intros -> H. exact H. Qed.

Lemma Codes_tree n base sym v : Codes (fun r ps => bittree n r ps base sym) (enc_tree n base sym v) (tree_val n sym v).
Proof. intro ps. apply codes_bittree. exact Rf. Qed.

Lemma Codes_tree_rev n base sym v w acc :
  Codes (fun r ps => bittree_rev n r ps base sym w acc) (enc_tree_rev n base sym v) (acc + w * (v mod 2 ^ N.of_nat n)).
Proof. intro ps. apply codes_bittree_rev. exact Rf. Qed.

Lemma Codes_dir n acc v :
  Codes (fun r ps => let '(x, r) := direct_bits n r acc in (x, r, ps)) (enc_dir n v) (tree_val n acc v).
Proof. intro ps. apply codes_direct_bits. exact Rf. Qed.

(** ---------- match / rep length ---------- *)
Definition enc_len (base pos_state len : N) : encoder :=
  if len <? 10 then
    seq2 (enc_bit base false) (enc_tree 3 (base + 2 + pos_state * 8) 1 (len - 2))
  else if len <? 18 then
    seq2 (enc_bit base true) (seq2 (enc_bit (base + 1) false) (enc_tree 3 (base + 130 + pos_state * 8) 1 (len - 10)))
  else
    seq2 (enc_bit base true) (seq2 (enc_bit (base + 1) true) (enc_tree 8 (base + 258) 1 (len - 18))).

Lemma Codes_len base pos_state len :
  2 <= len <= 273 -> Codes (fun r ps => len_decode r ps base pos_state) (enc_len base pos_state len) len.
Proof.
  intro Hl. unfold enc_len, len_decode.
  destruct (len <? 10) eqn:E1; [|destruct (len <? 18) eqn:E2].
  - apply N.ltb_lt in E1.
    eapply (Codes_bind _ (fun c r ps => if negb c then _ else _) _ _ false len (Codes_bit base false)).
    cbn [negb].
    replace len with (tree_val 3 1 (len - 2) - 8 + 2) at 2.
    + apply (Codes_map (fun s => s - 8 + 2)). apply Codes_tree.
    + rewrite tree_val_spec. change (2 ^ N.of_nat 3) with 8. rewrite N.mod_small by lia. lia.
  - apply N.ltb_ge in E1. apply N.ltb_lt in E2.
    eapply (Codes_bind _ (fun c r ps => if negb c then _ else _) _ _ true len (Codes_bit base true)).
    cbn [negb].
    eapply (Codes_bind _ (fun c r ps => if negb c then _ else _) _ _ false len (Codes_bit (base + 1) false)).
    cbn [negb].
    replace len with (tree_val 3 1 (len - 10) - 8 + 10) at 2.
    + apply (Codes_map (fun s => s - 8 + 10)). apply Codes_tree.
    + rewrite tree_val_spec. change (2 ^ N.of_nat 3) with 8. rewrite N.mod_small by lia. lia.
  - apply N.ltb_ge in E1. apply N.ltb_ge in E2.
    eapply (Codes_bind _ (fun c r ps => if negb c then _ else _) _ _ true len (Codes_bit base true)).
    cbn [negb].
    eapply (Codes_bind _ (fun c r ps => if negb c then _ else _) _ _ true len (Codes_bit (base + 1) true)).
    cbn [negb].
    replace len with (tree_val 8 1 (len - 18) - 256 + 18) at 2.
    + apply (Codes_map (fun s => s - 256 + 18)). apply Codes_tree.
    + rewrite tree_val_spec. change (2 ^ N.of_nat 8) with 256. rewrite N.mod_small by lia. lia.
Qed.

(** ---------- literals ---------- *)
Fixpoint enc_lit_matched (n : nat) (base mb sym byte : N) (matched : bool) : encoder :=
  match n with
  | O => enc_nil
  | S k =>
    let b := bit_of byte k in
    if matched then
      let mbit := (mb / 128) mod 2 in
      seq2 (enc_bit (base + 256 * (1 + mbit) + sym) b)
           (enc_lit_matched k base ((mb * 2) mod 256) (2 * sym + b2n b) byte (mbit =? b2n b))
    else
      seq2 (enc_bit (base + sym) b) (enc_lit_matched k base mb (2 * sym + b2n b) byte false)
  end.

Lemma Codes_lit_matched n : forall base mb sym byte matched,
  Codes (fun r ps => lit_matched n r ps base mb sym matched) (enc_lit_matched n base mb sym byte matched)
        (tree_val n sym byte).
Proof.
  induction n as [|k IH]; intros base mb sym byte matched; cbn [lit_matched enc_lit_matched tree_val].
  - apply Codes_ret.
  - destruct matched.
    + cbv zeta.
      apply (Codes_bind (fun r ps => rc_bit r ps (base + 256 * (1 + (mb / 128) mod 2) + sym))
               (fun b r ps => lit_matched k r ps base ((mb * 2) mod 256) (2 * sym + (if b then 1 else 0))
                                ((mb / 128) mod 2 =? (if b then 1 else 0)))
               _ _ (bit_of byte k) _ (Codes_bit _ _)).
      apply IH.
    + apply (Codes_bind (fun r ps => rc_bit r ps (base + sym))
               (fun b r ps => lit_matched k r ps base mb (2 * sym + (if b then 1 else 0)) false)
               _ _ (bit_of byte k) _ (Codes_bit _ _)).
      apply IH.
Qed.

(** ---------- distances ---------- *)
Definition enc_dist (len d : N) : encoder :=
  let slot := dist_slot d in
  seq2 (enc_tree 6 (P_DIST_SLOT (dist_state len)) 1 slot)
    (if slot <? 4 then enc_nil
     else
       let nb := slot / 2 - 1 in
       let d0 := (2 + slot mod 2) * 2 ^ nb in
       let red := d - d0 in
       if slot <? 14 then enc_tree_rev (N.to_nat nb) (P_POS_SPECIAL + d0 - slot - 1) 1 red
       else seq2 (enc_dir (N.to_nat (nb - 4)) (red / 16)) (enc_tree_rev 4 P_ALIGN 1 (red mod 16))).


Lemma Codes_dist len d :
  d < 4294967296 ->
  Codes (fun r ps => dist_decode r ps len) (enc_dist len d) (dist_slot d, d).
Proof.
  intro Hd. unfold enc_dist, dist_decode. cbv zeta.
  assert (Hslot : dist_slot d < 64).
  { destruct (N.lt_ge_cases d 4) as [H|H].
    - unfold dist_slot. rewrite (proj2 (N.ltb_lt d 4) H). lia.
    - pose proof (dist_slot_spec d ltac:(lia)) as K. cbv zeta in K. lia. }
  assert (TV : tree_val 6 1 (dist_slot d) - 64 = dist_slot d).
  { rewrite tree_val_spec. change (2 ^ N.of_nat 6) with 64. rewrite N.mod_small by exact Hslot. lia. }
  eapply (Codes_bind _ (fun slot r ps => let slot := slot - 64 in
                                         let '(d, r, ps) := (if slot <? 4 then _ else _) in ((slot, d), r, ps))
                     _ _ _ (dist_slot d, d) (Codes_tree 6 _ 1 (dist_slot d))).
  cbv zeta. rewrite TV.
  apply (Codes_map (fun x => (dist_slot d, x))).
  destruct (dist_slot d <? 4) eqn:E4.
  - assert (dist_slot d = d).
    { unfold dist_slot in *. destruct (d <? 4) eqn:E; [reflexivity|].
      apply N.ltb_lt in E4. apply N.ltb_ge in E. pose proof (dist_slot_spec d ltac:(lia)) as K.
      unfold dist_slot in K. rewrite (proj2 (N.ltb_ge d 4) E) in K. cbv zeta in K. lia. }
    rewrite H. apply Codes_ret.
  - assert (Hd4 : 4 <= d).
    { unfold dist_slot in E4. destruct (d <? 4) eqn:E; [rewrite E in E4; discriminate|apply N.ltb_ge in E; exact E]. }
    pose proof (dist_slot_spec d ltac:(lia)) as [Hs [Hnb Hdd]]. cbv zeta in Hs, Hnb, Hdd.
    set (slot := dist_slot d) in *. set (nb := slot / 2 - 1) in *. set (d0 := (2 + slot mod 2) * 2 ^ nb) in *.
    assert (Hred : d - d0 < 2 ^ nb) by lia.
    destruct (slot <? 14) eqn:E14.
    + apply (Codes_eq _ _ (d0 + (0 + 1 * ((d - d0) mod 2 ^ N.of_nat (N.to_nat nb))))).
      * rewrite N2Nat.id, N.mod_small by exact Hred. lia.
      * apply (Codes_map (fun x => d0 + x)). apply Codes_tree_rev.
    + apply N.ltb_ge in E14.
      assert (Hnb4 : 4 <= nb).
      { unfold nb. assert (7 <= slot / 2) by (apply N.div_le_lower_bound; lia). lia. }
      assert (P16 : 2 ^ nb = 16 * 2 ^ (nb - 4)).
      { replace nb with (4 + (nb - 4)) at 1 by lia. rewrite N.pow_add_r. reflexivity. }
      assert (P30 : 2 ^ nb <= 2 ^ 30) by (apply N.pow_le_mono_r; lia). change (2 ^ 30) with 1073741824 in P30.
      set (red := d - d0) in *.
      pose proof (N.div_mod red 16 ltac:(lia)) as DM. pose proof (N.mod_lt red 16 ltac:(lia)) as ML.
      assert (Hhi : red / 16 < 2 ^ (nb - 4)) by (apply N.div_lt_upper_bound; lia).
      apply (Codes_eq _ _ ((d0 + tree_val (N.to_nat (nb - 4)) 0 (red / 16) * 16
                       + (0 + 1 * ((red mod 16) mod 2 ^ N.of_nat 4))) mod 4294967296)).
      * rewrite tree_val_spec, N2Nat.id. change (2 ^ N.of_nat 4) with 16.
        rewrite (N.mod_small (red / 16)) by exact Hhi. rewrite N.mod_mod by lia.
        rewrite N.mod_small; lia.
      * apply (Codes_ext
                 (fun r ps => let '(x, r, ps) := (let '(x, r) := direct_bits (N.to_nat (nb - 4)) r 0 in (x, r, ps)) in
                              let '(a, r, ps) := bittree_rev 4 r ps P_ALIGN 1 1 0 in
                              ((d0 + x * 16 + a) mod 4294967296, r, ps))).
        { intros r ps. destruct (direct_bits (N.to_nat (nb - 4)) r 0) as [x r1]. reflexivity. }
        eapply (Codes_bind _ (fun x r ps => let '(a, r, ps) := bittree_rev 4 r ps P_ALIGN 1 1 0 in
                                            ((d0 + x * 16 + a) mod 4294967296, r, ps))
                           _ _ _ _ (Codes_dir _ 0 (red / 16))).
        apply (Codes_map (fun a => (d0 + tree_val (N.to_nat (nb - 4)) 0 (red / 16) * 16 + a) mod 4294967296)).
        apply Codes_tree_rev.
Qed.

End Pieces.

(** ---------- whole symbols ---------- *)
Inductive lsym :=
| SLit (b : N)
| SMatch (d len : N)            (* d = distance - 1 *)
| SShortRep
| SLongRep (idx len : N).       (* idx 0..3 *)

Definition lit_base (pr : props) (h : hist) : N :=
  let pos := hlen h in
  let prev := if pos =? 0 then 0 else hget h 0 in
  P_LITERAL ((pos mod 2 ^ lp pr) * 2 ^ lc pr + prev / 2 ^ (8 - lc pr)).

Definition enc_literal (pr : props) (z : lz) (b : N) : encoder :=
  let base := lit_base pr (zhist z) in
  if is_lit_state (zstate z) then enc_tree 8 base 1 b
  else enc_lit_matched 8 base (hget (zhist z) (rep0 z)) 1 b true.

Definition enc_sym (pr : props) (z : lz) (sym : lsym) : encoder :=
  let pos_state := hlen (zhist z) mod 2 ^ pb pr in
  let st := zstate z in
  match sym with
  | SLit b => seq2 (enc_bit (P_IS_MATCH st pos_state) false) (enc_literal pr z b)
  | SMatch d len =>
      seq2 (enc_bit (P_IS_MATCH st pos_state) true)
     (seq2 (enc_bit (P_IS_REP st) false)
     (seq2 (enc_len P_MATCH_LEN pos_state len) (enc_dist len d)))
  | SShortRep =>
      seq2 (enc_bit (P_IS_MATCH st pos_state) true)
     (seq2 (enc_bit (P_IS_REP st) true)
     (seq2 (enc_bit (P_IS_REP0 st) false) (enc_bit (P_IS_REP0_LONG st pos_state) false)))
  | SLongRep idx len =>
      let elen := enc_len P_REP_LEN pos_state len in
      seq2 (enc_bit (P_IS_MATCH st pos_state) true)
     (seq2 (enc_bit (P_IS_REP st) true)
       (if idx =? 0 then seq2 (enc_bit (P_IS_REP0 st) false) (seq2 (enc_bit (P_IS_REP0_LONG st pos_state) true) elen)
        else seq2 (enc_bit (P_IS_REP0 st) true)
               (if idx =? 1 then seq2 (enc_bit (P_IS_REP1 st) false) elen
                else seq2 (enc_bit (P_IS_REP1 st) true) (seq2 (enc_bit (P_IS_REP2 st) (negb (idx =? 2))) elen))))
  end.

(** end-of-payload marker: a match of minimal length with distance 2^32 *)
Definition enc_eopm (pr : props) (z : lz) : encoder :=
  let pos_state := hlen (zhist z) mod 2 ^ pb pr in
  let st := zstate z in
  seq2 (enc_bit (P_IS_MATCH st pos_state) true)
 (seq2 (enc_bit (P_IS_REP st) false)
 (seq2 (enc_len P_MATCH_LEN pos_state 2) (enc_dist 2 4294967295))).

(** what the decoder state becomes (the LZ77 expansion is the decoder's own [emit]/[copy_match]) *)
Definition after_sym (z : lz) (sym : lsym) (r : rc) (ps : probs) : lz :=
  let st := zstate z in
  match sym with
  | SLit b => emit z b r ps (st_literal st)
  | SMatch d len => copy_match (N.to_nat len) (set_reps z r ps (st_match st) d (rep0 z) (rep1 z) (rep2 z))
  | SShortRep => copy_match 1 (set_reps z r ps (st_shortrep st) (rep0 z) (rep1 z) (rep2 z) (rep3 z))
  | SLongRep idx len =>
      let z' := if idx =? 0 then set_reps z r ps (st_longrep st) (rep0 z) (rep1 z) (rep2 z) (rep3 z)
                else if idx =? 1 then set_reps z r ps (st_longrep st) (rep1 z) (rep0 z) (rep2 z) (rep3 z)
                else if idx =? 2 then set_reps z r ps (st_longrep st) (rep2 z) (rep0 z) (rep1 z) (rep3 z)
                else set_reps z r ps (st_longrep st) (rep3 z) (rep0 z) (rep1 z) (rep2 z) in
      copy_match (N.to_nat len) z'
  end.

Definition not_at_end (z : lz) : Prop := match zleft z with Some 0 => False | _ => True end.

Definition sym_valid (dict_size : N) (z : lz) (sym : lsym) : Prop :=
  not_at_end z /\
  match sym with
  | SLit b => b < 256
  | SMatch d len => 2 <= len <= 273 /\ d < hlen (zhist z) /\ d < dict_size /\ d < 4294967295
  | SShortRep => 0 < hlen (zhist z) /\ 0 < dict_size
  | SLongRep idx len =>
      2 <= len <= 273 /\ idx <= 3 /\ 0 < hlen (zhist z) /\ 0 < dict_size /\
      (idx = 0 \/
       let a := if idx =? 1 then rep1 z else if idx =? 2 then rep2 z else rep3 z in
       a < hlen (zhist z) /\ a < dict_size)
  end.

Section Symbols.
Variable f : astate.
Variable rest : list N.
Hypothesis Rf : 0 < aR f.
Variable pr : props.
Variable dict_size : N.
Variable allow_eopm : bool.

(** the decoder is at [s]; the encoder is still going to emit [more] *)
Definition ctx (s : astate) (r : rc) (ps : probs) (more : list decision) : Prop :=
  rgood s /\ sync f rest s r /\ all_ok ps /\ Forall dec_ok more /\ inside (arun s more) f.

Lemma step {A} (D : rc -> probs -> A * rc * probs) (e : encoder) (a : A) s r ps more :
  Codes f rest D e a -> ctx s r ps (fst (e ps) ++ more) ->
  exists r', D r ps = (a, r', snd (e ps)) /\ ctx (arun s (fst (e ps))) r' (snd (e ps)) more.
Proof.
  intros HC [Hg [Hs [Hok [Hd Hin]]]].
  destruct (HC ps Hok) as [Hok' [Hd1 K]].
  apply Forall_app in Hd. destruct Hd as [_ Hd2].
  rewrite arun_app in Hin.
  destruct (arun_good (fst (e ps)) s Hg Hd1) as [Hg1 _].
  destruct (arun_good more _ Hg1 Hd2) as [_ Hin2].
  destruct (K s r Hg (inside_trans _ _ _ Hin2 Hin) Hs) as [r' [E S']].
  exists r'. split; [exact E|]. unfold ctx. split; [exact Hg1|]. split; [exact S'|]. split; [exact Hok'|]. split; [exact Hd2|exact Hin].
Qed.

Lemma ctx_nofail s r ps more : ctx s r ps more -> rfail r = false.
Proof. intros [_ [Hs _]]. destruct Hs. assumption. Qed.

End Symbols.
