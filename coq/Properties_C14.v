(** C14 — CRC32, CRC64 and SHA-256 equal their standard definitions.
    Statements only; each closed by [exact]. *)
From XZ Require Import Base Crc CrcProofs CrcSlice Sha256 Sha256Proofs C14Lemmas.
From XZ.Gen Require Import CrcTables Sha256Consts.
Local Open Scope N_scope.

(** Every entry of lzma_crc32_table[8][256] / lzma_crc64_table[4][256] as
    compiled from the current source equals its definition: s+1 zero... the
    bit-at-a-time register run for 8(s+1) steps from b. (finite: 3072 entries) *)
Theorem crc32_table_matches_definition :
  forall s b, (s < 8)%nat -> b < 256 ->
  tab crc32_table s b = steps poly32 (8 * (s + 1)) b.
Proof. exact (table_entries_ok_spec _ _ 8 crc32_table_ok). Qed.
Print Assumptions crc32_table_matches_definition.

Theorem crc64_table_matches_definition :
  forall s b, (s < 4)%nat -> b < 256 ->
  tab crc64_table s b = steps poly64 (8 * (s + 1)) b.
Proof. exact (table_entries_ok_spec _ _ 4 crc64_table_ok). Qed.
Print Assumptions crc64_table_matches_definition.

(** lzma_crc32_generic (alignment prologue, slice-by-8, tail) with the source's
    tables = IEEE 802.3 reflected CRC32, for every data, alignment, initial value *)
Theorem crc32_generic_eq_standard :
  forall mis data init, bytes_ok data -> init < 2 ^ 32 ->
  not32 (generic32 crc32_table mis data (not32 init)) = crc32 data init.
Proof. exact crc32_generic_ok. Qed.
Print Assumptions crc32_generic_eq_standard.

Theorem crc64_generic_eq_standard :
  forall mis data init, bytes_ok data ->
  not64 (generic64 crc64_table mis data (not64 init)) = crc64 data init.
Proof. exact crc64_generic_ok. Qed.
Print Assumptions crc64_generic_eq_standard.

(** any number of consecutive pieces = one piece *)
Theorem crc32_piecewise : forall a b init, crc32 (a ++ b) init = crc32 b (crc32 a init).
Proof. exact crc32_chain. Qed.
Print Assumptions crc32_piecewise.
Theorem crc64_piecewise : forall a b init, crc64 (a ++ b) init = crc64 b (crc64 a init).
Proof. exact crc64_chain. Qed.
Print Assumptions crc64_piecewise.

(** SHA256_K[64] and the initial state in the source are the FIPS 180-4
    constants (fractional parts of cube / square roots of the primes) *)
Theorem sha256_constants_are_fips : sha256_K = K_spec /\ sha256_H0 = H0_spec.
Proof. exact sha_consts_ok. Qed.
Print Assumptions sha256_constants_are_fips.

Theorem tablegen_polynomials_standard : tablegen_poly32 = poly32 /\ tablegen_poly64 = poly64.
Proof. exact tablegen_poly_ok. Qed.
Print Assumptions tablegen_polynomials_standard.

(** init / update in any chunking / finish  =  FIPS SHA-256 of the whole message *)
Theorem sha256_streaming_eq_fips :
  forall chunks,
  sha_finish sha256_K (fold_left (sha_update sha256_K) chunks (sha_init sha256_H0))
  = sha256 (concat chunks).
Proof. exact sha_stream_ok. Qed.
Print Assumptions sha256_streaming_eq_fips.

(** non-vacuity: standard test vectors *)
Example crc32_check_value : crc32 [49;50;51;52;53;54;55;56;57] 0 = 0xCBF43926.
Proof. vm_compute. reflexivity. Qed.
Example crc64_check_value : crc64 [49;50;51;52;53;54;55;56;57] 0 = 0x995DC9BBDF1939FA.
Proof. vm_compute. reflexivity. Qed.
Example sha256_abc : firstn 4 (sha256 [97;98;99]) = [0xba;0x78;0x16;0xbf].
Proof. vm_compute. reflexivity. Qed.
