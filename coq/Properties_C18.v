(** C18 — the command-line tools deliver exactly the library's decoding,
    whatever the sink.  PARTIAL: proved is the sparse-file output logic of
    xz (io_write/io_close) on a POSIX file model for every sequence of output
    buffers; that the tools write exactly what the library produced and report
    failure exactly when the library does is decided by differential CLI runs. *)
From XZ Require Import Base XzSparse XzSparseProofs.

Theorem sparse_output_reproduces_every_byte_and_the_exact_size :
  forall BUF pending_max initial bufs,
  let f0 := {| fdata := initial; fpos := length initial; pending := 0 |} in
  let f := run BUF pending_max f0 bufs in
  fdata f = initial ++ concat bufs /\ fpos f = length (initial ++ concat bufs) /\ pending f = 0.
Proof. exact sparse_write_exact. Qed.
Print Assumptions sparse_output_reproduces_every_byte_and_the_exact_size.

(** non-vacuity: leading hole, data, trailing hole (block size 4 for readability) *)
Example sparse_example :
  fdata (run 4 100 {| fdata := [9%N]; fpos := 1; pending := 0 |} [[0;0;0;0]; [1;0;0;0]; [0;0;0;0]; [0;0;0;0]; []]%N)
  = [9;0;0;0;0;1;0;0;0;0;0;0;0;0;0;0;0]%N.
Proof. vm_compute. reflexivity. Qed.
