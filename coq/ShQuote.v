(** xzgrep: the shell-quoting of operands/patterns/options ("escape" sed
    program + surrounding quotes) and the exit-status accumulation.
    Strings are byte lists without NUL. *)
From XZ Require Import Base.
Local Open Scope N_scope.

Definition SQ : N := 39.       (* single quote *)
Definition BS : N := 92.       (* backslash *)
Definition NL : N := 10.

(** net effect of the opening quote followed by the output of the escape sed program on
    the string with X and a newline appended: every single quote becomes the four
    characters quote-backslash-quote-quote, the X on the last line becomes the closing
    quote, and command substitution strips the final newline that printf added *)
Definition quote (s : list N) : list N :=
  SQ :: flat_map (fun c => if c =? SQ then [SQ; BS; SQ; SQ] else [c]) s ++ [SQ].

(** POSIX sh word parsing restricted to what eval sees here: a word is a
    concatenation of single-quoted segments (everything literal up to the next
    single quote), backslash-escaped characters and plain characters; unquoted
    blanks and newlines separate words; any other unquoted shell metacharacter
    is reported (it would be interpreted by eval). *)
Definition is_meta (c : N) : bool :=
  existsb (N.eqb c) [36; 96; 59; 38; 124; 60; 62; 40; 41; 42; 63; 91; 35; 126; 34; 123; 125; 33].   (* dollar backquote semicolon ampersand bar lt gt parens star question bracket hash tilde dquote braces bang *)
Definition is_blank (c : N) : bool := (c =? 32) || (c =? 9) || (c =? NL).

Inductive pstate := Unq | InSQ | Esc.
Record pres := { words : list (list N) (* finished, newest first *); cur : option (list N) (* reversed *); meta_seen : bool; st : pstate }.

Definition push (cur : option (list N)) (c : N) : option (list N) :=
  match cur with Some w => Some (c :: w) | None => Some [c] end.
Definition start (cur : option (list N)) : option (list N) := match cur with Some w => Some w | None => Some [] end.

Definition pstep (p : pres) (c : N) : pres :=
  match st p with
  | InSQ => if c =? SQ then {| words := words p; cur := cur p; meta_seen := meta_seen p; st := Unq |}
            else {| words := words p; cur := push (cur p) c; meta_seen := meta_seen p; st := InSQ |}
  | Esc => {| words := words p; cur := push (cur p) c; meta_seen := meta_seen p; st := Unq |}
  | Unq =>
    if c =? SQ then {| words := words p; cur := start (cur p); meta_seen := meta_seen p; st := InSQ |}
    else if c =? BS then {| words := words p; cur := start (cur p); meta_seen := meta_seen p; st := Esc |}
    else if is_blank c then
      match cur p with
      | Some w => {| words := rev w :: words p; cur := None; meta_seen := meta_seen p; st := Unq |}
      | None => p
      end
    else {| words := words p; cur := push (cur p) c; meta_seen := meta_seen p || is_meta c; st := Unq |}
  end.

Definition parse (l : list N) : option (list (list N)) * bool :=
  let p := fold_left pstep l {| words := []; cur := None; meta_seen := false; st := Unq |} in
  match st p with
  | Unq => (Some (rev (match cur p with Some w => rev w :: words p | None => words p end)), meta_seen p)
  | _ => (None, meta_seen p)       (* unterminated quote *)
  end.

(** exit status accumulation over the files (r = status of grep/sed stage, xs = decompressor status;
    both < 128 here: signal cases exit immediately and are not modelled) *)
Definition file_status (r xs : N) : N := if (0 <? xs) && (r <? 2) then 2 else r.
Definition res_step (res : N) (rx : N * N) : N :=
  let r := file_status (fst rx) (snd rx) in
  if 2 <=? r then (if res <? r then r else res)
  else if r =? 0 then (if res =? 1 then 0 else res) else res.
Definition final_res (l : list (N * N)) : N := fold_left res_step l 1.
