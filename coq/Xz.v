(** The .xz container (doc/xz-file-format.txt) as a one-shot specification
    decoder: Stream Header, Blocks (header, filter chain, padding, Check),
    Index, Stream Footer, Stream Padding and concatenation. *)
From XZ Require Import Base Crc Sha256 Bcj BcjInst Lzma Lzma2.
Local Open Scope N_scope.

Definition VLI_MAX : N := 9223372036854775807.
Definition UNPADDED_MAX : N := VLI_MAX - 3.   (* LZMA_VLI_MAX & ~3 *)

(** single-call lzma_vli_decode on a bounded region: None = DATA_ERROR *)
Fixpoint vli_go (fuel : nat) (pos : N) (acc : N) (l : list N) : option (N * list N) :=
  match fuel with
  | O => None
  | S f =>
    match l with
    | [] => None
    | b :: r =>
      let acc := acc + (b mod 128) * 2 ^ (7 * pos) in
      if b <? 128 then (if (b =? 0) && (0 <? pos) then None else Some (acc, r))
      else if pos =? 8 then None else vli_go f (pos + 1) acc r
    end
  end.
Definition vli_decode (l : list N) : option (N * list N) := vli_go 9 0 0 l.

Fixpoint vli_encode_go (fuel : nat) (v : N) : list N :=
  match fuel with
  | O => []
  | S f => if v <? 128 then [v] else (v mod 128 + 128) :: vli_encode_go f (v / 128)
  end.
Definition vli_encode (v : N) : list N := vli_encode_go 9 v.
Definition vli_size (v : N) : N := lenN (vli_encode v).

Definition check_size (id : N) : N :=
  if id =? 0 then 0 else if id <=? 3 then 4 else if id <=? 6 then 8
  else if id <=? 9 then 16 else if id <=? 12 then 32 else 64.
Definition check_supported (id : N) : bool := (id =? 0) || (id =? 1) || (id =? 4) || (id =? 10).
Definition check_value (id : N) (data : list N) : list N :=
  if id =? 1 then le_bytes 4 (crc32 data 0)
  else if id =? 4 then le_bytes 8 (crc64 data 0)
  else if id =? 10 then sha256 data
  else [].

Definition HEADER_MAGIC : list N := [0xFD; 0x37; 0x7A; 0x58; 0x5A; 0x00].
Definition FOOTER_MAGIC : list N := [0x59; 0x5A].

(** ---- filters ---- *)
Inductive filter :=
| F_LZMA2 (dict : N)
| F_DELTA (dist : N)
| F_BCJ (arch : N) (start : N).     (* arch numbering as Bcj: 0 x86 .. 7 riscv *)

(** filter id -> Bcj arch index *)
Definition bcj_arch_of_id (id : N) : option N :=
  if id =? 4 then Some 0 else if id =? 5 then Some 4 else if id =? 6 then Some 5
  else if id =? 7 then Some 1 else if id =? 8 then Some 2 else if id =? 9 then Some 6
  else if id =? 10 then Some 3 else if id =? 11 then Some 7 else None.
Definition bcj_alignment (arch : N) : N :=
  if arch =? 0 then 1 else if arch =? 1 then 4 else if arch =? 2 then 2 else if arch =? 3 then 4
  else if arch =? 4 then 4 else if arch =? 5 then 16 else if arch =? 6 then 4 else 2.

(** result of parsing something: value or error status *)
Inductive res (A : Type) := Ok (a : A) | Err (s : status).
Arguments Ok {A}. Arguments Err {A}.

Definition filter_props_decode (id : N) (props : list N) : res filter :=
  if id =? 0x21 then
    match props with
    | [b] => if 40 <? b then Err OptionsError (* also covers b & 0xC0 *) else
             match lzma2_dict_of_byte b with Some d => Ok (F_LZMA2 d) | None => Err OptionsError end
    | _ => Err OptionsError
    end
  else if id =? 3 then
    match props with [b] => Ok (F_DELTA (b + 1)) | _ => Err OptionsError end
  else match bcj_arch_of_id id with
  | Some a =>
    match props with
    | [] => Ok (F_BCJ a 0)
    | [b0; b1; b2; b3] => Ok (F_BCJ a (le32 b0 b1 b2 b3))
    | _ => Err OptionsError
    end
  | None => Err OptionsError
  end.

(** filter flags inside a block header region *)
Definition filter_flags_decode (l : list N) : res (filter * list N) :=
  match vli_decode l with
  | None => Err DataError
  | Some (id, r) =>
    if 4611686018427387904 <=? id then Err DataError else
    match vli_decode r with
    | None => Err DataError
    | Some (psz, r2) =>
      if lenN r2 <? psz then Err DataError else
      match filter_props_decode id (firstn (N.to_nat psz) r2) with
      | Ok f => Ok (f, skipn (N.to_nat psz) r2)
      | Err e => Err e
      end
    end
  end.

Fixpoint filters_decode (n : nat) (l : list N) : res (list filter * list N) :=
  match n with
  | O => Ok ([], l)
  | S k => match filter_flags_decode l with
           | Err e => Err e
           | Ok (f, r) => match filters_decode k r with
                          | Err e => Err e
                          | Ok (fs, r2) => Ok (f :: fs, r2)
                          end
           end
  end.

(** lzma_validate_chain + per-filter init checks *)
Fixpoint chain_ok (fs : list filter) : bool :=
  match fs with
  | [] => false
  | [F_LZMA2 _] => true
  | F_DELTA _ :: r => chain_ok r
  | F_BCJ a st :: r => (st mod bcj_alignment a =? 0) && chain_ok r
  | _ => false
  end.

Record block_header := {
  bh_size : N; bh_comp : option N; bh_uncomp : option N; bh_filters : list filter
}.

Definition all_zero (l : list N) : bool := forallb (fun b => b =? 0) l.

(** [hdr] = the header_size bytes of the Block Header *)
Definition block_header_decode (check : N) (hdr : list N) : res block_header :=
  let hsize := lenN hdr in
  let body := firstn (N.to_nat (hsize - 4)) hdr in
  let crc := skipn (N.to_nat (hsize - 4)) hdr in
  if negb (le_val crc =? crc32 body 0) then Err DataError else
  match body with
  | _ :: flags :: r =>
    if negb ((flags / 4) mod 16 =? 0) then Err OptionsError else
    let r1 : res (option N * list N) :=
      if (flags / 64) mod 2 =? 1 then
        match vli_decode r with
        | None => Err DataError
        | Some (c, r') =>
          if (c =? 0) || (UNPADDED_MAX <? c + hsize + check_size check) then Err DataError
          else Ok (Some c, r')
        end
      else Ok (None, r) in
    match r1 with
    | Err e => Err e
    | Ok (comp, r) =>
      let r2 : res (option N * list N) :=
        if (flags / 128) mod 2 =? 1 then
          match vli_decode r with None => Err DataError | Some (u, r') => Ok (Some u, r') end
        else Ok (None, r) in
      match r2 with
      | Err e => Err e
      | Ok (uncomp, r) =>
        match filters_decode (N.to_nat (flags mod 4 + 1)) r with
        | Err e => Err e
        | Ok (fs, pad) =>
          if negb (all_zero pad) then Err OptionsError
          else if negb (chain_ok fs) then Err OptionsError
          else Ok {| bh_size := hsize; bh_comp := comp; bh_uncomp := uncomp; bh_filters := fs |}
        end
      end
    end
  | _ => Err DataError
  end.

(** apply the non-last filters of a chain (decoder direction) to the LZMA2 output *)
Fixpoint unfilter (fs : list filter) (data : list N) : list N :=
  match fs with
  | [] => data
  | F_LZMA2 _ :: _ => data
  | F_DELTA d :: r => delta_decode d (unfilter r data)
  | F_BCJ a st :: r => bcj_whole a false st (unfilter r data)
  end.
Fixpoint chain_dict (fs : list filter) : N :=
  match fs with
  | [] => 0
  | F_LZMA2 d :: _ => d
  | _ :: r => chain_dict r
  end.

(** ---- decoding state over the whole file ---- *)
Record xz := {
  xin : list N; xused : N;
  xout : list (list N);               (* outputs of finished blocks, newest first *)
  xrecords : list (N * N);            (* (unpadded, uncompressed), newest first *)
  xcheck : N;
  xstatus : status;
  xpartial : list N                   (* output of a block that failed *)
}.

Definition xz_fail (x : xz) (s : status) : xz :=
  {| xin := xin x; xused := xused x; xout := xout x; xrecords := xrecords x; xcheck := xcheck x;
     xstatus := s; xpartial := xpartial x |}.

Definition take (n : N) (l : list N) : option (list N * list N) :=
  if lenN l <? n then None else Some (firstn (N.to_nat n) l, skipn (N.to_nat n) l).

Section XZ.
Variable fuel : positive.
Variable strict : bool.   (* true: distances must be below the declared dictionary size exactly *)

(** one Block starting at [xin x] (its first byte is not 0x00) *)
Definition block_decode (x : xz) : xz :=
  match xin x with
  | [] => xz_fail x Truncated
  | b0 :: _ =>
    let hsize := (b0 + 1) * 4 in
    match take hsize (xin x) with
    | None => xz_fail x Truncated
    | Some (hdr, rest) =>
      match block_header_decode (xcheck x) hdr with
      | Err e => xz_fail x e
      | Ok bh =>
        let s := l2_run (if strict then chain_dict (bh_filters bh) else eff_dict (chain_dict (bh_filters bh))) fuel (l2_init rest []) in
        let raw := rev_append (l2out s) [] in
        let out := unfilter (bh_filters bh) raw in
        let used := l2used s in
        let fail st := {| xin := l2in s; xused := xused x + hsize + used; xout := xout x; xrecords := xrecords x;
                          xcheck := xcheck x; xstatus := st; xpartial := out |} in
        match l2status s with
        | Finished =>
          let comp_ok := match bh_comp bh with Some c => c =? used | None => true end in
          let unc_ok := match bh_uncomp bh with Some u => u =? lenN out | None => true end in
          if negb (comp_ok && unc_ok) then fail DataError else
          let padn := (4 - used mod 4) mod 4 in
          match take padn (l2in s) with
          | None => fail (if all_zero (l2in s) then Truncated else DataError)
          | Some (pad, r2) =>
            if negb (all_zero pad) then fail DataError else
            let csz := check_size (xcheck x) in
            match take csz r2 with
            | None => fail Truncated
            | Some (chk, r3) =>
              if check_supported (xcheck x) && negb (list_eqb chk (check_value (xcheck x) out))
              then fail DataError
              else {| xin := r3; xused := xused x + hsize + used + padn + csz;
                      xout := out :: xout x;
                      xrecords := (hsize + used + csz, lenN out) :: xrecords x;
                      xcheck := xcheck x; xstatus := Running; xpartial := [] |}
            end
          end
        | Truncated =>
          (* LZMA2 wants more input: a declared compressed size that is already exhausted is an error *)
          match bh_comp bh with
          | Some c => if c <=? used then fail DataError else fail Truncated
          | None => fail Truncated
          end
        | st => fail st
        end
      end
    end
  end.

Definition blocks_done (x : xz) : bool :=
  match xstatus x with
  | Running => match xin x with 0 :: _ => true | [] => true | _ => false end
  | _ => true
  end.

Fixpoint records_decode (n : nat) (l : list N) (acc : list (N * N)) : res (list (N * N) * list N) :=
  match n with
  | O => Ok (rev_append acc [], l)
  | S k =>
    match l with [] => Err Truncated | _ =>
    match vli_decode l with
    | None => if lenN l <? 9 then (if forallb (fun b => 128 <=? b) l then Err Truncated else Err DataError) else Err DataError
    | Some (unp, r) =>
      if (unp <? 5) || (UNPADDED_MAX <? unp) then Err DataError else
      match r with [] => Err Truncated | _ =>
      match vli_decode r with
      | None => if lenN r <? 9 then (if forallb (fun b => 128 <=? b) r then Err Truncated else Err DataError) else Err DataError
      | Some (unc, r2) => records_decode k r2 ((unp, unc) :: acc)
      end end
    end end
  end.

Fixpoint records_eqb (a b : list (N * N)) : bool :=
  match a, b with
  | [], [] => true
  | (x1, y1) :: a', (x2, y2) :: b' => (x1 =? x2) && (y1 =? y2) && records_eqb a' b'
  | _, _ => false
  end.

(** Index + Stream Footer; [x] is positioned at the index indicator *)
Definition index_footer_decode (x : xz) : xz :=
  let recs := rev_append (xrecords x) [] in
  match xin x with
  | [] => xz_fail x Truncated
  | ind :: r0 =>
    if negb (ind =? 0) then xz_fail x DataError else
    match r0 with [] => xz_fail x Truncated | _ =>
    match vli_decode r0 with
    | None => xz_fail x (if (lenN r0 <? 9) && forallb (fun b => 128 <=? b) r0 then Truncated else DataError)
    | Some (count, r1) =>
      if negb (count =? lenN recs) then xz_fail x DataError else
      match records_decode (N.to_nat count) r1 [] with
      | Err e => xz_fail x e
      | Ok (got, r2) =>
        (* liblzma detects a record prefix that can no longer match as soon as it is read;
           the final verdict is list equality *)
        let isize_unpadded := lenN (xin x) - lenN r2 in
        let padn := (4 - isize_unpadded mod 4) mod 4 in
        match take padn r2 with
        | None => xz_fail x (if negb (records_eqb got recs) then DataError else if all_zero r2 then Truncated else DataError)
        | Some (pad, r3) =>
          if negb (records_eqb got recs) then xz_fail x DataError else
          if negb (all_zero pad) then xz_fail x DataError else
          let idx := firstn (N.to_nat (isize_unpadded + padn)) (xin x) in
          match take 4 r3 with
          | None => xz_fail x Truncated   (* refined below for a wrong partial CRC *)
          | Some (crc, r4) =>
            if negb (le_val crc =? crc32 idx 0) then xz_fail x DataError else
            let index_size := isize_unpadded + padn + 4 in
            match take 12 r4 with
            | None => xz_fail x Truncated
            | Some (ft, r5) =>
              let fcrc := firstn 4 ft in
              let fbody := firstn 6 (skipn 4 ft) in
              let magic := skipn 10 ft in
              if negb (list_eqb magic FOOTER_MAGIC) then xz_fail x DataError
              else if negb (le_val fcrc =? crc32 fbody 0) then xz_fail x DataError
              else
                let bsize := (le_val (firstn 4 fbody) + 1) * 4 in
                let f0 := nth 4 fbody 0 in let f1 := nth 5 fbody 0 in
                if negb (f0 =? 0) || negb (f1 / 16 =? 0) then xz_fail x OptionsError
                else if negb (bsize =? index_size) then xz_fail x DataError
                else if negb (f1 =? xcheck x) then xz_fail x DataError
                else {| xin := r5; xused := xused x + index_size + 12; xout := xout x; xrecords := [];
                        xcheck := xcheck x; xstatus := Finished; xpartial := [] |}
            end
          end
        end
      end
    end end
  end.

(** one whole Stream from the current position *)
Definition stream_decode (first : bool) (x : xz) : xz :=
  match take 12 (xin x) with
  | None => xz_fail x Truncated
  | Some (h, rest) =>
    let magic := firstn 6 h in
    let flags := firstn 2 (skipn 6 h) in
    let crc := skipn 8 h in
    if negb (list_eqb magic HEADER_MAGIC) then xz_fail x (if first then FormatError else DataError)
    else if negb (le_val crc =? crc32 flags 0) then xz_fail x DataError
    else
      let f0 := nth 0 flags 0 in let f1 := nth 1 flags 0 in
      if negb (f0 =? 0) || negb (f1 / 16 =? 0) then xz_fail x OptionsError
      else
        let x1 := {| xin := rest; xused := xused x + 12; xout := xout x; xrecords := []; xcheck := f1;
                     xstatus := Running; xpartial := [] |} in
        let x2 := ploop blocks_done block_decode fuel x1 in
        match xstatus x2 with
        | Running => (match xin x2 with [] => xz_fail x2 Truncated | _ => index_footer_decode x2 end)
        | _ => x2
        end
  end.

(** Stream Padding + further Streams (LZMA_CONCATENATED, input complete = LZMA_FINISH) *)
Fixpoint skip_zeros (l : list N) (n : N) : list N * N :=
  match l with
  | 0 :: r => skip_zeros r (n + 1)
  | _ => (l, n)
  end.

Definition concat_step (x : xz) : xz :=
  (* x is Finished after a stream; look at padding *)
  let '(r, n) := skip_zeros (xin x) 0 in
  match r with
  | [] => if n mod 4 =? 0
          then {| xin := []; xused := xused x + n; xout := xout x; xrecords := []; xcheck := xcheck x;
                  xstatus := Finished; xpartial := [] |}
          else {| xin := []; xused := xused x + n; xout := xout x; xrecords := []; xcheck := xcheck x;
                  xstatus := DataError; xpartial := [] |}
  | _ :: _ =>
    if negb (n mod 4 =? 0)
    then {| xin := r; xused := xused x + n + 1; xout := xout x; xrecords := []; xcheck := xcheck x;
            xstatus := DataError; xpartial := [] |}
    else stream_decode false {| xin := r; xused := xused x + n; xout := xout x; xrecords := [];
                                xcheck := xcheck x; xstatus := Running; xpartial := [] |}
  end.

Definition concat_done (x : xz) : bool :=
  match xstatus x with
  | Finished => match xin x with [] => true | _ => false end
  | _ => true
  end.

Definition xz_init (inp : list N) : xz :=
  {| xin := inp; xused := 0; xout := []; xrecords := []; xcheck := 0; xstatus := Running; xpartial := [] |}.

Definition xz_output (x : xz) : list N := concat (rev_append (xout x) [xpartial x]).

(** single Stream (no LZMA_CONCATENATED): stops right after the footer *)
Definition xz_decode_single (inp : list N) : status * list N * N :=
  let x := stream_decode true (xz_init inp) in
  (xstatus x, xz_output x, xused x).

(** concatenated Streams with Stream Padding, whole input given (FINISH) *)
Definition xz_decode_concat (inp : list N) : status * list N * N :=
  let x := stream_decode true (xz_init inp) in
  let x := match xstatus x with
           | Finished =>
             (* the loop below must run at least once to validate trailing padding *)
             let x1 := concat_step x in ploop concat_done concat_step fuel x1
           | _ => x end in
  (xstatus x, xz_output x, xused x).
End XZ.
