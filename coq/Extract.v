(** Extraction of the executable models to OCaml (oracle for the
    correspondence checks).  ExtrOcamlBasic only; N/positive/nat stay the
    extracted inductive types. *)
From XZ Require Import Base Crc Sha256 Bcj BcjInst CodeWrap CodeWrapHist Lzma Lzma2 Xz Formats IndexModel XzNames Outq RcAbs RcDec RcEnc LzmaEnc LzmaRun Lzma2Enc XzEnc.
Require Extraction.
Require Import ExtrOcamlBasic.
Extraction Language OCaml.
Set Extraction KeepSingleton.
Extraction "xzmodel"
  Crc.crc32 Crc.crc64 Sha256.sha256
  BcjInst.bcj_code BcjInst.bcj_whole Bcj.delta_encode Bcj.delta_decode
  CodeWrapHist.hist_run CodeWrapHist.hist_start
  Lzma2.lzma2_decode Xz.xz_decode_single Xz.xz_decode_concat Formats.alone_decode Formats.lzip_decode Formats.auto_decode
  Formats.lzma1_decode Xz.vli_encode Xz.vli_decode
  IndexModel.m_init IndexModel.m_append IndexModel.m_stream_flags IndexModel.m_stream_padding IndexModel.m_cat
  IndexModel.block_count IndexModel.stream_count IndexModel.m_index_size IndexModel.stream_size IndexModel.total_size
  IndexModel.file_size IndexModel.uncompressed_size IndexModel.checks IndexModel.all_blocks IndexModel.nonempty_blocks
  IndexModel.locate IndexModel.index_encode
  XzNames.compressed_name XzNames.uncompressed_name XzNames.dest_mode XzNames.final_status
  Outq.run Outq.step Outq.outq0
  RcEnc.encode Lzma.prob_update Lzma.rc_init Lzma.rc_decode_bit Lzma.rc_direct1 Lzma.rc_normalize
  LzmaRun.enc_run LzmaRun.z_init LzmaEnc.enc_eopm Lzma.symbol Lzma.lz_start Lzma.rc_bit
  XzEnc.stream_bytes XzEnc.b_data Lzma2Enc.kl_start Lzma2Enc.kl_props Lzma2Enc.chunk_after Lzma2Enc.chunks_bytes Lzma2Enc.norm Lzma2.l2_init
  Lzma.P_IS_MATCH Lzma.P_IS_REP Lzma.P_IS_REP0 Lzma.P_IS_REP0_LONG Lzma.P_IS_REP1 Lzma.P_IS_REP2.
