(** LZMA (LZMA1) stream specification: range decoder, probability model,
    symbol grammar, history.  Written from doc/lzma-file-format.txt, the
    LZMA SDK reference decoder and src/liblzma/lzma/lzma_decoder.c /
    rangecoder/range_decoder.h.  One-shot: the whole input is a list. *)
From XZ Require Import Base.
From Coq Require Import FMapPositive.
Local Open Scope N_scope.

Module PM := PositiveMap.

(** ---------- fuel: up to [p] iterations with early exit ---------- *)
Section Loop.
Context {S : Type} (done : S -> bool) (step : S -> S).
Fixpoint ploop (p : positive) (s : S) : S :=
  if done s then s else
  match p with
  | xH => step s
  | xO q => ploop q (ploop q s)
  | xI q => ploop q (ploop q (step s))
  end.
End Loop.

(** ---------- range decoder ---------- *)
Record rc := { rrange : N; rcode : N; rin : list N; rused : N; rfail : bool (* ran out of input *) }.
Definition TOP : N := 16777216.        (* 2^24, RC_TOP_VALUE *)
Definition BITMODEL_TOTAL : N := 2048. (* RC_BIT_MODEL_TOTAL *)
Definition PROB_INIT : N := 1024.
Definition MOVE_BITS : N := 5.

Definition rc_init (inp : list N) : option rc :=
  match inp with
  | b0 :: b1 :: b2 :: b3 :: b4 :: r =>
      if b0 =? 0 then
        Some {| rrange := 4294967295; rcode := ((b1 * 256 + b2) * 256 + b3) * 256 + b4;
                rin := r; rused := 5; rfail := false |}
      else None
  | _ => None
  end.

Definition rc_normalize (r : rc) : rc :=
  if rrange r <? TOP then
    match rin r with
    | b :: t => {| rrange := rrange r * 256; rcode := (rcode r * 256 + b) mod 4294967296;
                   rin := t; rused := rused r + 1; rfail := rfail r |}
    | [] => {| rrange := rrange r * 256; rcode := (rcode r * 256) mod 4294967296;
               rin := []; rused := rused r; rfail := true |}
    end
  else r.

Definition probs := PM.t N.
Definition pkey (i : N) : positive := N.succ_pos i.
Definition pget (ps : probs) (i : N) : N :=
  match PM.find (pkey i) ps with Some p => p | None => PROB_INIT end.
Definition pset (ps : probs) (i : N) (v : N) : probs := PM.add (pkey i) v ps.

(** decode one bit with probability [p] (of the bit being 0, scaled by 2^11) *)
Definition rc_decode_bit (r : rc) (p : N) : bool * rc :=
  let r := rc_normalize r in
  let bound := (rrange r / BITMODEL_TOTAL) * p in
  if rcode r <? bound then
    (false, {| rrange := bound; rcode := rcode r; rin := rin r; rused := rused r; rfail := rfail r |})
  else
    (true, {| rrange := rrange r - bound; rcode := rcode r - bound; rin := rin r; rused := rused r; rfail := rfail r |}).

(** adaptive probability update *)
Definition prob_update (p : N) (b : bool) : N := if b then p - p / 32 else p + (BITMODEL_TOTAL - p) / 32.

(** decode one adaptive bit: returns (bit, rc', probs') *)
Definition rc_bit (r : rc) (ps : probs) (i : N) : bool * rc * probs :=
  let p := pget ps i in
  let '(b, r') := rc_decode_bit r p in
  (b, r', pset ps i (prob_update p b)).

Definition rc_direct1 (r : rc) : bool * rc :=
  let r := rc_normalize r in
  let rg := rrange r / 2 in
  if rcode r <? rg then (false, {| rrange := rg; rcode := rcode r; rin := rin r; rused := rused r; rfail := rfail r |})
  else (true, {| rrange := rg; rcode := rcode r - rg; rin := rin r; rused := rused r; rfail := rfail r |}).

(** bit tree, MSB first: n bits below [base] *)
Fixpoint bittree (n : nat) (r : rc) (ps : probs) (base sym : N) : N * rc * probs :=
  match n with
  | O => (sym, r, ps)
  | S k => let '(b, r, ps) := rc_bit r ps (base + sym) in
           bittree k r ps base (2 * sym + (if b then 1 else 0))
  end.
(** reverse bit tree: returns the value with bit i = i-th decoded bit *)
Fixpoint bittree_rev (n : nat) (r : rc) (ps : probs) (base sym : N) (w acc : N) : N * rc * probs :=
  match n with
  | O => (acc, r, ps)
  | S k => let '(b, r, ps) := rc_bit r ps (base + sym) in
           bittree_rev k r ps base (2 * sym + (if b then 1 else 0)) (2 * w) (if b then acc + w else acc)
  end.
Fixpoint direct_bits (n : nat) (r : rc) (acc : N) : N * rc :=
  match n with
  | O => (acc, r)
  | S k => let '(b, r) := rc_direct1 r in direct_bits k r (2 * acc + (if b then 1 else 0))
  end.

(** ---------- probability layout ---------- *)
Definition P_IS_MATCH (state ps : N) := state * 16 + ps.
Definition P_IS_REP (state : N) := 192 + state.
Definition P_IS_REP0 (state : N) := 204 + state.
Definition P_IS_REP1 (state : N) := 216 + state.
Definition P_IS_REP2 (state : N) := 228 + state.
Definition P_IS_REP0_LONG (state ps : N) := 240 + state * 16 + ps.
Definition P_DIST_SLOT (ds : N) := 432 + ds * 64.
Definition P_POS_SPECIAL := 688.
Definition P_ALIGN := 816.
Definition P_MATCH_LEN := 832.
Definition P_REP_LEN := 1856.
Definition P_LITERAL (lit_state : N) := 2880 + lit_state * 768.

(** ---------- history (dictionary as specification: all bytes since reset) ---------- *)
Record hist := { hmap : PM.t N; hlen : N }.
Definition hist_empty : hist := {| hmap := PM.empty N; hlen := 0 |}.
Definition hput (h : hist) (b : N) : hist := {| hmap := PM.add (pkey (hlen h)) b (hmap h); hlen := hlen h + 1 |}.
Definition hget (h : hist) (dist : N) : N :=
  match PM.find (pkey (hlen h - dist - 1)) (hmap h) with Some b => b | None => 0 end.
Fixpoint hist_of_list (l : list N) (h : hist) : hist :=
  match l with [] => h | b :: r => hist_of_list r (hput h b) end.

(** ---------- LZMA state machine (lzma_common.h macros) ---------- *)
Definition st_literal (st : N) : N := if st <? 4 then 0 else if st <? 10 then st - 3 else st - 6.
Definition st_match (st : N) : N := if st <? 7 then 7 else 10.
Definition st_longrep (st : N) : N := if st <? 7 then 8 else 11.
Definition st_shortrep (st : N) : N := if st <? 7 then 9 else 11.
Definition is_lit_state (st : N) : bool := st <? 7.
Definition dist_state (len : N) : N := if len <? 6 then len - 2 else 3.

(** ---------- decoder state ---------- *)
Record props := { lc : N; lp : N; pb : N }.
Definition props_ok (p : props) : bool := (lc p + lp p <=? 4) && (pb p <=? 4).
(** byte -> (lc, lp, pb); None if > 224 or lc+lp > 4 (liblzma's limit) *)
Definition lclppb_decode (b : N) : option props :=
  if 224 <? b then None else
  let p := {| lc := b mod 9; lp := (b / 9) mod 5; pb := b / 45 |} in
  if lc p + lp p <=? 4 then Some p else None.

Inductive status := Running | Finished | DataError | Truncated | OutOfFuel | FormatError | OptionsError.

Record lz := {
  zrc : rc; zps : probs; zstate : N;
  rep0 : N; rep1 : N; rep2 : N; rep3 : N;
  zhist : hist;
  zout : list N;            (* produced by this run, newest first *)
  zoutn : N;                (* length of zout *)
  zleft : option N;         (* remaining uncompressed size if known *)
  zstatus : status
}.

Section Decode.
Variable pr : props.
Variable dict_size : N.       (* effective: distances must be < min(hist len, dict_size) *)
Variable allow_eopm : bool.

Definition with_status (z : lz) (s : status) : lz :=
  {| zrc := zrc z; zps := zps z; zstate := zstate z; rep0 := rep0 z; rep1 := rep1 z; rep2 := rep2 z;
     rep3 := rep3 z; zhist := zhist z; zout := zout z; zoutn := zoutn z; zleft := zleft z; zstatus := s |}.

Definition dist_valid (z : lz) (d : N) : bool := (d <? hlen (zhist z)) && (d <? dict_size).
Definition room (z : lz) : bool := match zleft z with Some 0 => false | _ => true end.

Definition emit (z : lz) (b : N) (r : rc) (ps : probs) (st : N) : lz :=
  {| zrc := r; zps := ps; zstate := st; rep0 := rep0 z; rep1 := rep1 z; rep2 := rep2 z; rep3 := rep3 z;
     zhist := hput (zhist z) b; zout := b :: zout z; zoutn := zoutn z + 1;
     zleft := match zleft z with Some n => Some (n - 1) | None => None end; zstatus := zstatus z |}.

(** copy [len] bytes from distance rep0; stops with DataError if the size limit is hit first *)
Fixpoint copy_match (len : nat) (z : lz) : lz :=
  match len with
  | O => z
  | S k =>
    if room z then
      copy_match k (emit z (hget (zhist z) (rep0 z)) (zrc z) (zps z) (zstate z))
    else with_status z DataError
  end.

Definition len_decode (r : rc) (ps : probs) (base pos_state : N) : N * rc * probs :=
  let '(c, r, ps) := rc_bit r ps base in
  if negb c then
    let '(s, r, ps) := bittree 3 r ps (base + 2 + pos_state * 8) 1 in (s - 8 + 2, r, ps)
  else
    let '(c2, r, ps) := rc_bit r ps (base + 1) in
    if negb c2 then
      let '(s, r, ps) := bittree 3 r ps (base + 130 + pos_state * 8) 1 in (s - 8 + 10, r, ps)
    else
      let '(s, r, ps) := bittree 8 r ps (base + 258) 1 in (s - 256 + 18, r, ps).

(** distance of a new match: slot, then footer bits (reverse bit tree, or direct bits + align) *)
Definition dist_decode (r : rc) (ps : probs) (len : N) : (N * N) * rc * probs :=
  let '(slot, r, ps) := bittree 6 r ps (P_DIST_SLOT (dist_state len)) 1 in
  let slot := slot - 64 in
  let '(d, r, ps) :=
    if slot <? 4 then (slot, r, ps)
    else
      let nb := slot / 2 - 1 in
      let d0 := (2 + slot mod 2) * 2 ^ nb in
      if slot <? 14 then
        let '(x, r, ps) := bittree_rev (N.to_nat nb) r ps (P_POS_SPECIAL + d0 - slot - 1) 1 1 0 in (d0 + x, r, ps)
      else
        let '(x, r) := direct_bits (N.to_nat (nb - 4)) r 0 in
        let '(a, r, ps) := bittree_rev 4 r ps P_ALIGN 1 1 0 in
        ((d0 + x * 16 + a) mod 4294967296, r, ps) in
  ((slot, d), r, ps).

(** matched literal: 8 bits, using the match byte while bits agree *)
Fixpoint lit_matched (n : nat) (r : rc) (ps : probs) (base : N) (mb sym : N) (matched : bool) : N * rc * probs :=
  match n with
  | O => (sym, r, ps)
  | S k =>
    if matched then
      let mbit := (mb / 128) mod 2 in
      let '(b, r, ps) := rc_bit r ps (base + 256 * (1 + mbit) + sym) in
      let bit := if b then 1 else 0 in
      lit_matched k r ps base ((mb * 2) mod 256) (2 * sym + bit) (mbit =? bit)
    else
      let '(b, r, ps) := rc_bit r ps (base + sym) in
      lit_matched k r ps base mb (2 * sym + (if b then 1 else 0)) false
  end.

Definition set_reps (z : lz) (r : rc) (ps : probs) (st a b c d : N) : lz :=
  {| zrc := r; zps := ps; zstate := st; rep0 := a; rep1 := b; rep2 := c; rep3 := d;
     zhist := zhist z; zout := zout z; zoutn := zoutn z; zleft := zleft z; zstatus := zstatus z |}.

(** end of the payload: normalise, the code register must be zero *)
Definition finish (z : lz) (r : rc) (ps : probs) : lz :=
  let r := rc_normalize r in
  let z := set_reps z r ps (zstate z) (rep0 z) (rep1 z) (rep2 z) (rep3 z) in
  if rfail r then with_status z Truncated
  else if rcode r =? 0 then with_status z Finished else with_status z DataError.

(** one LZMA symbol *)
Definition symbol (z : lz) : lz :=
  let pos := hlen (zhist z) in
  (* known size reached? *)
  let at_end := match zleft z with Some 0 => true | _ => false end in
  let z0 := z in
  let pre : option lz :=   (* Some = stop here *)
    if at_end then
      let r := rc_normalize (zrc z) in
      if rfail r then Some (with_status (set_reps z r (zps z) (zstate z) (rep0 z) (rep1 z) (rep2 z) (rep3 z)) Truncated)
      else if rcode r =? 0 then Some (with_status (set_reps z r (zps z) (zstate z) (rep0 z) (rep1 z) (rep2 z) (rep3 z)) Finished)
      else if negb allow_eopm then Some (with_status (set_reps z r (zps z) (zstate z) (rep0 z) (rep1 z) (rep2 z) (rep3 z)) DataError)
      else None
    else None in
  match pre with
  | Some z' => z'
  | None =>
  let eopm_valid := match zleft z with None => true | Some _ => at_end end in
  let pos_state := pos mod 2 ^ pb pr in
  let st := zstate z in
  let '(m, r, ps) := rc_bit (zrc z) (zps z) (P_IS_MATCH st pos_state) in
  if negb m then
    (* literal *)
    let prev := if pos =? 0 then 0 else hget (zhist z) 0 in
    let lit_state := (pos mod 2 ^ lp pr) * 2 ^ lc pr + prev / 2 ^ (8 - lc pr) in
    let base := P_LITERAL lit_state in
    let '(s, r, ps) :=
      if is_lit_state st then bittree 8 r ps base 1
      else lit_matched 8 r ps base (hget (zhist z) (rep0 z)) 1 true in
    let st' := st_literal st in
    if rfail r then with_status (set_reps z r ps st (rep0 z) (rep1 z) (rep2 z) (rep3 z)) Truncated
    else if room z then emit z (s - 256) r ps st'
    else with_status (set_reps z r ps st' (rep0 z) (rep1 z) (rep2 z) (rep3 z)) DataError
  else
    let '(isrep, r, ps) := rc_bit r ps (P_IS_REP st) in
    if negb isrep then
      (* match with new distance *)
      let '(len, r, ps) := len_decode r ps P_MATCH_LEN pos_state in
      let st' := st_match st in
      let '((slot, d), r, ps) := dist_decode r ps len in
      if rfail r then with_status (set_reps z r ps st (rep0 z) (rep1 z) (rep2 z) (rep3 z)) Truncated
      else if (14 <=? slot) && (d =? 4294967295) then
        (* end of payload marker *)
        if eopm_valid then finish (set_reps z r ps st' d (rep0 z) (rep1 z) (rep2 z)) r ps
        else with_status (set_reps z r ps st' d (rep0 z) (rep1 z) (rep2 z)) DataError
      else
        let z := set_reps z r ps st' d (rep0 z) (rep1 z) (rep2 z) in
        if dist_valid z d then copy_match (N.to_nat len) z else with_status z DataError
    else
      if negb (dist_valid z 0) then
        (if rfail r then with_status (set_reps z r ps st (rep0 z) (rep1 z) (rep2 z) (rep3 z)) Truncated
         else with_status (set_reps z r ps st (rep0 z) (rep1 z) (rep2 z) (rep3 z)) DataError)
      else
      let '(r0, r, ps) := rc_bit r ps (P_IS_REP0 st) in
      if negb r0 then
        let '(lg, r, ps) := rc_bit r ps (P_IS_REP0_LONG st pos_state) in
        if negb lg then
          (* short rep *)
          let st' := st_shortrep st in
          if rfail r then with_status (set_reps z r ps st (rep0 z) (rep1 z) (rep2 z) (rep3 z)) Truncated
          else
          let z := set_reps z r ps st' (rep0 z) (rep1 z) (rep2 z) (rep3 z) in
          copy_match 1 z
        else
          let '(len, r, ps) := len_decode r ps P_REP_LEN pos_state in
          let st' := st_longrep st in
          if rfail r then with_status (set_reps z r ps st (rep0 z) (rep1 z) (rep2 z) (rep3 z)) Truncated
          else copy_match (N.to_nat len) (set_reps z r ps st' (rep0 z) (rep1 z) (rep2 z) (rep3 z))
      else
        let '(r1, r, ps) := rc_bit r ps (P_IS_REP1 st) in
        let '(a, b, c, d, r, ps) :=
          if negb r1 then (rep1 z, rep0 z, rep2 z, rep3 z, r, ps)
          else
            let '(r2, r, ps) := rc_bit r ps (P_IS_REP2 st) in
            if negb r2 then (rep2 z, rep0 z, rep1 z, rep3 z, r, ps)
            else (rep3 z, rep0 z, rep1 z, rep2 z, r, ps) in
        let '(len, r, ps) := len_decode r ps P_REP_LEN pos_state in
        let st' := st_longrep st in
        if rfail r then with_status (set_reps z r ps st (rep0 z) (rep1 z) (rep2 z) (rep3 z)) Truncated
        else
        let z := set_reps z r ps st' a b c d in
        if dist_valid z a then copy_match (N.to_nat len) z else with_status z DataError
  end.

Definition lz_done (z : lz) : bool := match zstatus z with Running => false | _ => true end.
Definition lz_run (fuel : positive) (z : lz) : lz :=
  let z := ploop lz_done symbol fuel z in
  match zstatus z with Running => with_status z OutOfFuel | _ => z end.
End Decode.

(** start a range-coded segment: 5 init bytes *)
Definition lz_start (inp : list N) (ps : probs) (state r0 r1 r2 r3 : N) (h : hist) (left : option N) : lz + status :=
  match rc_init inp with
  | Some r => inl {| zrc := r; zps := ps; zstate := state; rep0 := r0; rep1 := r1; rep2 := r2; rep3 := r3;
                     zhist := h; zout := []; zoutn := 0; zleft := left; zstatus := Running |}
  | None => inr (if (length inp <? 5)%nat then
                   (match inp with b :: _ => if b =? 0 then Truncated else DataError | [] => Truncated end)
                 else DataError)
  end.
