(** The decoder specification's [symbol] step undoes the symbol encoder of
    LzmaEnc.v: one lemma per symbol kind, then runs of symbols. *)
From XZ Require Import Base Lzma RcAbs RcDec RcRoundtrip RcCodes LzmaEnc.
Require Import ZifyBool ZifyN ZifyNat.
Local Open Scope N_scope.

Section Sym.
Variable f : astate.
Variable rest : list N.
Hypothesis Rf : 0 < aR f.
Variable pr : props.
Variable dict_size : N.
Variable allow_eopm : bool.

Notation ctx := (ctx f rest).
Notation Codes := (Codes f rest).

Lemma step2 {A} (D : rc -> probs -> A * rc * probs) (e1 e2 : encoder) (a : A) s r ps more :
  Codes D e1 a -> ctx s r ps (fst (seq2 e1 e2 ps) ++ more) ->
  exists r', D r ps = (a, r', snd (e1 ps)) /\
             ctx (arun s (fst (e1 ps))) r' (snd (e1 ps)) (fst (e2 (snd (e1 ps))) ++ more).
Proof.
  intros HC H. unfold seq2 in H. cbn [fst snd] in H. rewrite <- app_assoc in H.
  apply (step f rest D e1 a s r ps _ HC H).
Qed.

Lemma not_at_end_false z : not_at_end z -> match zleft z with Some 0 => true | _ => false end = false.
Proof. unfold not_at_end. destruct (zleft z) as [[|p]|]; intro H; [contradiction|reflexivity|reflexivity]. Qed.

Lemma not_at_end_room z : not_at_end z -> room z = true.
Proof. unfold not_at_end, room. destruct (zleft z) as [[|p]|]; intro H; [contradiction|reflexivity|reflexivity]. Qed.

Definition sym_spec (z : lz) (sym : lsym) : Prop :=
  forall s more,
    sym_valid dict_size z sym ->
    ctx s (zrc z) (zps z) (fst (enc_sym pr z sym (zps z)) ++ more) ->
    exists r',
      symbol pr dict_size allow_eopm z = after_sym z sym r' (snd (enc_sym pr z sym (zps z))) /\
      ctx (arun s (fst (enc_sym pr z sym (zps z)))) r' (snd (enc_sym pr z sym (zps z))) more.

Lemma symbol_lit z b : sym_spec z (SLit b).
Proof.
  intros s more [Hne Hb] Hc.
  unfold enc_sym in *. cbv zeta in *.
  set (pos_state := hlen (zhist z) mod 2 ^ pb pr) in *.
  destruct (step2 _ _ _ false _ _ _ _ (Codes_bit f rest Rf (P_IS_MATCH (zstate z) pos_state) false) Hc) as [r1 [E1 C1]].
  set (ps1 := snd (enc_bit (P_IS_MATCH (zstate z) pos_state) false (zps z))) in *.
  set (s1 := arun s (fst (enc_bit (P_IS_MATCH (zstate z) pos_state) false (zps z)))) in *.
  (* the literal itself *)
  assert (HL : exists r2, (if is_lit_state (zstate z) then bittree 8 r1 ps1 (lit_base pr (zhist z)) 1
                           else lit_matched 8 r1 ps1 (lit_base pr (zhist z)) (hget (zhist z) (rep0 z)) 1 true)
                          = (256 + b, r2, snd (enc_literal pr z b ps1)) /\
                          ctx (arun s1 (fst (enc_literal pr z b ps1))) r2 (snd (enc_literal pr z b ps1)) more).
  { assert (TV : tree_val 8 1 b = 256 + b).
    { rewrite tree_val_spec. change (2 ^ N.of_nat 8) with 256. rewrite N.mod_small by exact Hb. lia. }
    unfold enc_literal in *. cbv zeta in *. destruct (is_lit_state (zstate z)).
    - destruct (step f rest _ _ _ _ _ _ _ (Codes_tree f rest Rf 8 (lit_base pr (zhist z)) 1 b) C1) as [r2 [E2 C2]].
      exists r2. rewrite <- TV. split; assumption.
    - destruct (step f rest _ _ _ _ _ _ _ (Codes_lit_matched f rest Rf 8 (lit_base pr (zhist z)) (hget (zhist z) (rep0 z)) 1 b true) C1) as [r2 [E2 C2]].
      exists r2. rewrite <- TV. split; assumption. }
  destruct HL as [r2 [E2 C2]].
  exists r2. split.
  - unfold symbol. rewrite (not_at_end_false z Hne). cbv zeta. fold pos_state.
    rewrite E1. cbn [negb]. unfold lit_base in E2. cbv zeta in E2. rewrite E2.
    rewrite (ctx_nofail f rest _ _ _ _ C2), (not_at_end_room z Hne).
    unfold after_sym. f_equal. lia.
  - unfold seq2. cbn [fst snd]. rewrite arun_app. exact C2.
Qed.


Lemma symbol_match z d len : sym_spec z (SMatch d len).
Proof.
  intros s more [Hne [Hl [Hd1 [Hd2 Hd3]]]] Hc.
  unfold enc_sym in *. cbv zeta in *.
  set (pos_state := hlen (zhist z) mod 2 ^ pb pr) in *.
  destruct (step2 _ _ _ true _ _ _ _ (Codes_bit f rest Rf (P_IS_MATCH (zstate z) pos_state) true) Hc) as [r1 [E1 C1]].
  destruct (step2 _ _ _ false _ _ _ _ (Codes_bit f rest Rf (P_IS_REP (zstate z)) false) C1) as [r2 [E2 C2]].
  destruct (step2 _ _ _ len _ _ _ _ (Codes_len f rest Rf P_MATCH_LEN pos_state len Hl) C2) as [r3 [E3 C3]].
  destruct (step f rest _ _ _ _ _ _ _ (Codes_dist f rest Rf len d ltac:(lia)) C3) as [r4 [E4 C4]].
  exists r4. split.
  - unfold symbol. rewrite (not_at_end_false z Hne). cbv zeta. fold pos_state.
    rewrite E1. cbn [negb]. rewrite E2. cbn [negb]. cbv beta in E3. rewrite E3.
    cbv beta in E4. rewrite E4.
    rewrite (ctx_nofail f rest _ _ _ _ C4).
    replace (d =? 4294967295) with false by (symmetry; apply N.eqb_neq; lia).
    rewrite andb_false_r.
    unfold dist_valid. cbn [zhist set_reps].
    rewrite (proj2 (N.ltb_lt _ _) Hd1), (proj2 (N.ltb_lt _ _) Hd2). cbn [andb].
    unfold after_sym. reflexivity.
  - unfold seq2. cbn [fst snd]. rewrite !arun_app. exact C4.
Qed.

Lemma symbol_shortrep z : sym_spec z SShortRep.
Proof.
  intros s more [Hne [Hh Hds]] Hc.
  unfold enc_sym in *. cbv zeta in *.
  set (pos_state := hlen (zhist z) mod 2 ^ pb pr) in *.
  destruct (step2 _ _ _ true _ _ _ _ (Codes_bit f rest Rf (P_IS_MATCH (zstate z) pos_state) true) Hc) as [r1 [E1 C1]].
  destruct (step2 _ _ _ true _ _ _ _ (Codes_bit f rest Rf (P_IS_REP (zstate z)) true) C1) as [r2 [E2 C2]].
  destruct (step2 _ _ _ false _ _ _ _ (Codes_bit f rest Rf (P_IS_REP0 (zstate z)) false) C2) as [r3 [E3 C3]].
  destruct (step f rest _ _ _ _ _ _ _ (Codes_bit f rest Rf (P_IS_REP0_LONG (zstate z) pos_state) false) C3) as [r4 [E4 C4]].
  exists r4. split.
  - unfold symbol. rewrite (not_at_end_false z Hne). cbv zeta. fold pos_state.
    rewrite E1. cbn [negb]. rewrite E2. cbn [negb].
    unfold dist_valid. rewrite (proj2 (N.ltb_lt _ _) Hh), (proj2 (N.ltb_lt _ _) Hds). cbn [andb negb].
    rewrite E3. cbn [negb]. cbv beta in E4. rewrite E4. cbn [negb].
    rewrite (ctx_nofail f rest _ _ _ _ C4).
    unfold after_sym. reflexivity.
  - unfold seq2. cbn [fst snd]. rewrite !arun_app. exact C4.
Qed.

Lemma symbol_longrep z idx len : sym_spec z (SLongRep idx len).
Proof.
  intros s more [Hne [Hl [Hi [Hh [Hds Hv]]]]] Hc.
  unfold after_sym. unfold enc_sym in *. cbv zeta in *.
  set (pos_state := hlen (zhist z) mod 2 ^ pb pr) in *.
  destruct (step2 _ _ _ true _ _ _ _ (Codes_bit f rest Rf (P_IS_MATCH (zstate z) pos_state) true) Hc) as [r1 [E1 C1]].
  destruct (step2 _ _ _ true _ _ _ _ (Codes_bit f rest Rf (P_IS_REP (zstate z)) true) C1) as [r2 [E2 C2]].
  assert (Hpre : symbol pr dict_size allow_eopm z =
    (let st := zstate z in let r := r2 in let ps := snd (enc_bit (P_IS_REP st) true (snd (enc_bit (P_IS_MATCH st pos_state) true (zps z)))) in
      let '(r0, r, ps) := rc_bit r ps (P_IS_REP0 st) in
      if negb r0 then
        let '(lg, r, ps) := rc_bit r ps (P_IS_REP0_LONG st pos_state) in
        if negb lg then
          let st' := st_shortrep st in
          if rfail r then with_status (set_reps z r ps st (rep0 z) (rep1 z) (rep2 z) (rep3 z)) Truncated
          else
          let z := set_reps z r ps st' (rep0 z) (rep1 z) (rep2 z) (rep3 z) in
          copy_match 1 z
        else
          let '(len, r, ps) := len_decode r ps P_REP_LEN pos_state in
          let st' := st_longrep st in
          if rfail r then with_status (set_reps z r ps st (rep0 z) (rep1 z) (rep2 z) (rep3 z)) Truncated
          else copy_match (N.to_nat len) (set_reps z r ps st' (rep0 z) (rep1 z) (rep2 z) (rep3 z))
      else
        let '(r1, r, ps) := rc_bit r ps (P_IS_REP1 st) in
        let '(a, b, c, d, r, ps) :=
          if negb r1 then (rep1 z, rep0 z, rep2 z, rep3 z, r, ps)
          else
            let '(r2, r, ps) := rc_bit r ps (P_IS_REP2 st) in
            if negb r2 then (rep2 z, rep0 z, rep1 z, rep3 z, r, ps)
            else (rep3 z, rep0 z, rep1 z, rep2 z, r, ps) in
        let '(len, r, ps) := len_decode r ps P_REP_LEN pos_state in
        let st' := st_longrep st in
        if rfail r then with_status (set_reps z r ps st (rep0 z) (rep1 z) (rep2 z) (rep3 z)) Truncated
        else
        let z := set_reps z r ps st' a b c d in
        if dist_valid dict_size z a then copy_match (N.to_nat len) z else with_status z DataError)).
  { unfold symbol. rewrite (not_at_end_false z Hne). cbv zeta. fold pos_state.
    rewrite E1. cbn [negb]. rewrite E2. cbn [negb].
    unfold dist_valid at 1. rewrite (proj2 (N.ltb_lt _ _) Hh), (proj2 (N.ltb_lt _ _) Hds). cbn [andb negb].
    reflexivity. }
  rewrite Hpre. clear Hpre. cbv zeta.
  destruct (N.eqb_spec idx 0) as [I0|I0].
  - (* rep0, long *)
    cbv iota in C2.
    destruct (step2 _ _ _ false _ _ _ _ (Codes_bit f rest Rf (P_IS_REP0 (zstate z)) false) C2) as [r3 [E3 C3]].
    destruct (step2 _ _ _ true _ _ _ _ (Codes_bit f rest Rf (P_IS_REP0_LONG (zstate z) pos_state) true) C3) as [r4 [E4 C4]].
    destruct (step f rest _ _ _ _ _ _ _ (Codes_len f rest Rf P_REP_LEN pos_state len Hl) C4) as [r5 [E5 C5]].
    exists r5. split.
    + rewrite E3. cbn [negb]. rewrite E4. cbn [negb]. cbv beta in E5. rewrite E5.
      rewrite (ctx_nofail f rest _ _ _ _ C5). reflexivity.
    + unfold seq2. cbn [fst snd]. rewrite !arun_app. exact C5.
  - cbv iota in C2.
    destruct Hv as [Hv|Hv]; [contradiction|]. cbv zeta in Hv.
    destruct (N.eqb_spec idx 1) as [I1|I1]; cbv iota in C2;
      destruct (step2 _ _ _ true _ _ _ _ (Codes_bit f rest Rf (P_IS_REP0 (zstate z)) true) C2) as [r3 [E3 C3]].
    + destruct (step2 _ _ _ false _ _ _ _ (Codes_bit f rest Rf (P_IS_REP1 (zstate z)) false) C3) as [r4 [E4 C4]].
      destruct (step f rest _ _ _ _ _ _ _ (Codes_len f rest Rf P_REP_LEN pos_state len Hl) C4) as [r5 [E5 C5]].
      exists r5. split.
      * rewrite E3. cbn [negb]. rewrite E4. cbn [negb]. cbv beta in E5. rewrite E5.
        rewrite (ctx_nofail f rest _ _ _ _ C5). unfold dist_valid. cbn [zhist set_reps].
        destruct Hv as [Hv1 Hv2].
        rewrite (proj2 (N.ltb_lt _ _) Hv1), (proj2 (N.ltb_lt _ _) Hv2). cbn [andb].
        reflexivity.
      * unfold seq2. cbn [fst snd]. rewrite !arun_app. exact C5.
    + destruct (step2 _ _ _ true _ _ _ _ (Codes_bit f rest Rf (P_IS_REP1 (zstate z)) true) C3) as [r4 [E4 C4]].
      destruct (step2 _ _ _ (negb (idx =? 2)) _ _ _ _ (Codes_bit f rest Rf (P_IS_REP2 (zstate z)) (negb (idx =? 2))) C4) as [r5 [E5 C5]].
      destruct (step f rest _ _ _ _ _ _ _ (Codes_len f rest Rf P_REP_LEN pos_state len Hl) C5) as [r6 [E6 C6]].
      exists r6. split.
      * rewrite E3. cbn [negb]. rewrite E4. cbn [negb]. rewrite E5. cbv beta in E6.
        destruct Hv as [Hv1 Hv2].
        destruct (N.eqb_spec idx 2) as [I2|I2]; cbn [negb] in *; rewrite E6;
          rewrite (ctx_nofail f rest _ _ _ _ C6); unfold dist_valid; cbn [zhist set_reps];
          rewrite (proj2 (N.ltb_lt _ _) Hv1), (proj2 (N.ltb_lt _ _) Hv2); cbn [andb]; reflexivity.
      * unfold seq2. cbn [fst snd]. rewrite !arun_app. exact C6.
Qed.

End Sym.

(** ---------- every symbol ---------- *)
Section Sym2.
Variable f : astate.
Variable rest : list N.
Hypothesis Rf : 0 < aR f.
Variable pr : props.
Variable dict_size : N.
Variable allow_eopm : bool.

Lemma symbol_any z sym : sym_spec f rest pr dict_size allow_eopm z sym.
Proof.
  destruct sym as [b|d len| |idx len].
  - apply symbol_lit; exact Rf.
  - apply symbol_match; exact Rf.
  - apply symbol_shortrep; exact Rf.
  - apply symbol_longrep; exact Rf.
Qed.

(** the flush: the decoder's closing normalisation ends with code = 0 *)
Lemma sync_final s r ps :
  ctx f rest s r ps [] -> f = anorm s ->
  let rz := rc_normalize r in
  rcode rz = 0 /\ rfail rz = false /\ rin rz = rest /\ rused rz = 5 + aJ f.
Proof.
  intros [Hg [Hs _]] Hf. cbv zeta.
  assert (S2 : sync f rest (anorm s) (rc_normalize r)).
  { apply (sync_normalize f rest Rf s r Hg); [rewrite <- Hf; apply inside_refl|exact Hs]. }
  rewrite <- Hf in S2. destruct S2 as [_ Hc Hi Hu Hfl].
  unfold seen in Hc. rewrite N.sub_diag in Hc, Hi. cbn in Hc, Hi. rewrite N.div_1_r in Hc.
  repeat split; try assumption. lia.
Qed.

Lemma symbol_eopm z s :
  zleft z = None ->
  ctx f rest s (zrc z) (zps z) (fst (enc_eopm pr z (zps z)) ++ []) ->
  f = anorm (arun s (fst (enc_eopm pr z (zps z)))) ->
  let z' := symbol pr dict_size allow_eopm z in
  zstatus z' = Finished /\ zout z' = zout z /\ zoutn z' = zoutn z /\ zhist z' = zhist z /\
  rin (zrc z') = rest /\ rused (zrc z') = 5 + aJ f.
Proof.
  intros Hleft Hc Hf.
  assert (Hne : not_at_end z) by (unfold not_at_end; rewrite Hleft; exact I).
  unfold enc_eopm in *. cbv zeta in *.
  set (pos_state := hlen (zhist z) mod 2 ^ pb pr) in *.
  destruct (step2 f rest _ _ _ true _ _ _ _ (Codes_bit f rest Rf (P_IS_MATCH (zstate z) pos_state) true) Hc) as [r1 [E1 C1]].
  destruct (step2 f rest _ _ _ false _ _ _ _ (Codes_bit f rest Rf (P_IS_REP (zstate z)) false) C1) as [r2 [E2 C2]].
  destruct (step2 f rest _ _ _ 2 _ _ _ _ (Codes_len f rest Rf P_MATCH_LEN pos_state 2 ltac:(lia)) C2) as [r3 [E3 C3]].
  destruct (step f rest _ _ _ _ _ _ _ (Codes_dist f rest Rf 2 4294967295 ltac:(lia)) C3) as [r4 [E4 C4]].
  unfold seq2 in Hf. cbn [fst snd] in Hf. rewrite !arun_app in Hf.
  pose proof (sync_final _ _ _ C4 Hf) as [Z1 [Z2 [Z3 Z4]]].
  cbv zeta. unfold symbol. rewrite (not_at_end_false z Hne). cbv zeta. fold pos_state.
  rewrite E1. cbn [negb]. rewrite E2. cbn [negb]. cbv beta in E3. rewrite E3.
  cbv beta in E4. rewrite E4.
  rewrite (ctx_nofail f rest _ _ _ _ C4).
  change ((14 <=? dist_slot 4294967295) && (4294967295 =? 4294967295)) with true. cbv iota.
  rewrite Hleft. unfold finish. cbv zeta.
  rewrite Z2, Z1. cbn [N.eqb]. cbn [with_status set_reps zstatus zout zoutn zhist zrc].
  repeat split; assumption.
Qed.

(** known uncompressed size (LZMA2 chunks, .lzma with a size field): the decoder stops by itself *)
Lemma symbol_known_end z s :
  zleft z = Some 0 ->
  ctx f rest s (zrc z) (zps z) [] -> f = anorm s ->
  let z' := symbol pr dict_size allow_eopm z in
  z' = with_status (set_reps z (rc_normalize (zrc z)) (zps z) (zstate z) (rep0 z) (rep1 z) (rep2 z) (rep3 z)) Finished /\
  zstatus z' = Finished /\ zout z' = zout z /\ zoutn z' = zoutn z /\ zhist z' = zhist z /\
  rin (zrc z') = rest /\ rused (zrc z') = 5 + aJ f.
Proof.
  intros Hleft Hc Hf.
  pose proof (sync_final _ _ _ Hc Hf) as [Z1 [Z2 [Z3 Z4]]].
  cbv zeta. unfold symbol. rewrite Hleft. cbv zeta.
  rewrite Z2, Z1. cbn [N.eqb]. cbn [with_status set_reps zstatus zout zoutn zhist zrc].
  repeat split; assumption.
Qed.

End Sym2.
