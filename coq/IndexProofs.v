(** Theorems about the list-of-records Index model. *)
From XZ Require Import Base Xz IndexModel.
Require Import ZifyBool ZifyN.
Local Open Scope N_scope.

(** refused operations leave the index unchanged *)
Lemma append_refused_unchanged i u v : fst (m_append i u v) <> 0 -> snd (m_append i u v) = i.
Proof.
  unfold m_append.
  repeat match goal with |- context [if ?b then _ else _] => destruct b end; cbn [fst snd]; auto.
  intro H; exfalso; apply H; reflexivity.
Qed.
Lemma padding_refused_unchanged i p : fst (m_stream_padding i p) <> 0 -> snd (m_stream_padding i p) = i.
Proof.
  unfold m_stream_padding.
  repeat match goal with |- context [if ?b then _ else _] => destruct b end; cbn [fst snd]; auto.
  intro H; exfalso; apply H; reflexivity.
Qed.
Lemma flags_refused_unchanged i c : fst (m_stream_flags i c) <> 0 -> snd (m_stream_flags i c) = i.
Proof.
  unfold m_stream_flags. destruct (15 <? c); cbn [fst snd]; auto. intro H; exfalso; apply H; reflexivity.
Qed.
Lemma cat_refused_unchanged a b : fst (m_cat a b) <> 0 -> snd (m_cat a b) = a.
Proof.
  unfold m_cat.
  repeat match goal with |- context [if ?b then _ else _] => destruct b end; cbn [fst snd]; auto.
  intro H; exfalso; apply H; reflexivity.
Qed.
Lemma cat_ok_is_concatenation a b : fst (m_cat a b) = 0 -> snd (m_cat a b) = a ++ b.
Proof.
  unfold m_cat.
  repeat match goal with |- context [if ?b then _ else _] => destruct b end; cbn [fst snd]; auto; discriminate.
Qed.

(** accepted appends keep every format limit *)
Lemma append_ok_limits i u v : fst (m_append i u v) = 0 ->
  5 <= u <= UNPADDED_MAX /\ v <= VLI_MAX /\
  uncomp_total (recs (last_stream i)) + v <= VLI_MAX /\
  blocks_size (recs (last_stream i)) + u <= UNPADDED_MAX.
Proof.
  unfold m_append.
  destruct ((u <? 5) || (UNPADDED_MAX <? u) || (VLI_MAX <? v)) eqn:E1; [cbn; discriminate|].
  destruct (VLI_MAX <? _ + v) eqn:E2; [cbn; discriminate|].
  destruct (UNPADDED_MAX <? _ + u) eqn:E3; [cbn; discriminate|].
  intros _. lia.
Qed.

(** totals are additive over concatenation *)
Lemma all_recs_app a b : all_recs (a ++ b) = all_recs a ++ all_recs b.
Proof. unfold all_recs. apply flat_map_app. Qed.
Lemma fold_sum_app {A} (f : A -> N) (l1 l2 : list A) :
  fold_right (fun r a => f r + a) 0 (l1 ++ l2) = fold_right (fun r a => f r + a) 0 l1 + fold_right (fun r a => f r + a) 0 l2.
Proof. induction l1 as [|x l IH]; cbn [app fold_right]; [reflexivity|]. rewrite IH. lia. Qed.

Theorem cat_totals a b :
  block_count (a ++ b) = block_count a + block_count b /\
  stream_count (a ++ b) = stream_count a + stream_count b /\
  uncompressed_size (a ++ b) = uncompressed_size a + uncompressed_size b /\
  total_size (a ++ b) = total_size a + total_size b /\
  file_size (a ++ b) = file_size a + file_size b.
Proof.
  unfold block_count, stream_count, uncompressed_size, total_size, file_size, lenN.
  rewrite all_recs_app, !app_length.
  unfold uncomp_total, blocks_size.
  rewrite (fold_sum_app (fun r => snd r)), (fold_sum_app (fun r => ceil4 (fst r))),
          (fold_sum_app (fun s => one_stream_size s + spad s)).
  repeat split; lia.
Qed.

(** iteration visits every Block exactly once, in order *)
Lemma blocks_of_stream_length snum cf uf ks kf co uo rs :
  length (blocks_of_stream snum cf uf ks kf co uo rs) = length rs.
Proof.
  revert ks kf co uo; induction rs as [|[u v] r IH]; intros; cbn [blocks_of_stream length]; [reflexivity|].
  rewrite IH. reflexivity.
Qed.
Lemma all_blocks_go_length i : forall snum cf uf kf,
  length (all_blocks_go i snum cf uf kf) = length (all_recs i).
Proof.
  induction i as [|s r IH]; intros; cbn [all_blocks_go all_recs flat_map length]; [reflexivity|].
  rewrite !app_length, blocks_of_stream_length, IH. reflexivity.
Qed.
Theorem iteration_visits_every_block_once i : lenN (all_blocks i) = block_count i.
Proof. unfold all_blocks, block_count, lenN. rewrite all_blocks_go_length. reflexivity. Qed.

Lemma blocks_of_stream_map snum cf uf : forall rs ks kf co uo,
  map (fun b => (b_unpadded b, b_uncomp b)) (blocks_of_stream snum cf uf ks kf co uo rs) = rs.
Proof.
  induction rs as [|[u v] r IH]; intros; cbn [blocks_of_stream map]; [reflexivity|].
  cbn [b_unpadded b_uncomp]. rewrite IH. reflexivity.
Qed.
Lemma all_blocks_go_map i : forall snum cf uf kf,
  map (fun b => (b_unpadded b, b_uncomp b)) (all_blocks_go i snum cf uf kf) = all_recs i.
Proof.
  induction i as [|s r IH]; intros; cbn [all_blocks_go all_recs flat_map map]; [reflexivity|].
  rewrite map_app, blocks_of_stream_map, IH. reflexivity.
Qed.
Theorem iteration_yields_the_records_in_order i :
  map (fun b => (b_unpadded b, b_uncomp b)) (all_blocks i) = all_recs i.
Proof. apply all_blocks_go_map. Qed.

(** locate: sound ... *)
Definition contains (t : N) (b : blockinfo) : bool :=
  (b_uncomp_file_off b <=? t) && (t <? b_uncomp_file_off b + b_uncomp b).

Theorem locate_sound i t b : locate i t = Some b ->
  In b (all_blocks i) /\ b_uncomp_file_off b <= t < b_uncomp_file_off b + b_uncomp b /\ 0 < b_uncomp b.
Proof.
  unfold locate. intro H. apply find_some in H as [Hin Hc].
  split; [exact Hin|]. apply andb_true_iff in Hc as [A B].
  apply N.leb_le in A. apply N.ltb_lt in B. lia.
Qed.

(** ... and complete: every offset below the total uncompressed size is found *)
Lemma find_stream_blocks t snum cf uf : forall rs ks kf co uo,
  uf + uo <= t < uf + uo + uncomp_total rs ->
  exists b, find (contains t) (blocks_of_stream snum cf uf ks kf co uo rs) = Some b.
Proof.
  induction rs as [|[u v] r IH]; intros ks kf co uo H.
  - cbn in H. lia.
  - cbn [blocks_of_stream find]. unfold contains at 1. cbn [b_uncomp_file_off b_uncomp].
    destruct ((uf + uo <=? t) && (t <? uf + uo + v)) eqn:E; [eauto|].
    apply IH. cbn [uncomp_total fold_right snd] in H. unfold uncomp_total.
    apply andb_false_iff in E. destruct E as [E|E]; [apply N.leb_gt in E; lia|apply N.ltb_ge in E; lia].
Qed.

Lemma find_none_stream t snum cf uf : forall rs ks kf co uo,
  ~ (uf + uo <= t < uf + uo + uncomp_total rs) -> uf + uo <= t ->
  find (contains t) (blocks_of_stream snum cf uf ks kf co uo rs) = None.
Proof.
  induction rs as [|[u v] r IH]; intros ks kf co uo H Hle; [reflexivity|].
  cbn [blocks_of_stream find]. unfold contains at 1. cbn [b_uncomp_file_off b_uncomp].
  cbn [uncomp_total fold_right snd] in H. fold (uncomp_total r) in H.
  assert (E : (uf + uo <=? t) && (t <? uf + uo + v) = false).
  { apply andb_false_iff. right. apply N.ltb_ge. lia. }
  rewrite E. apply IH; lia.
Qed.

Lemma find_app_l {A} (P : A -> bool) l1 l2 x : find P l1 = Some x -> find P (l1 ++ l2) = Some x.
Proof. induction l1 as [|y l IH]; cbn; [discriminate|]. destruct (P y); auto. Qed.
Lemma find_app_r {A} (P : A -> bool) l1 l2 : find P l1 = None -> find P (l1 ++ l2) = find P l2.
Proof. induction l1 as [|y l IH]; cbn; [reflexivity|]. destruct (P y); [discriminate|auto]. Qed.

Lemma find_all_blocks t : forall i snum cf uf kf,
  uf <= t < uf + uncomp_total (all_recs i) ->
  exists b, find (contains t) (all_blocks_go i snum cf uf kf) = Some b.
Proof.
  induction i as [|s r IH]; intros snum cf uf kf H.
  - cbn in H. lia.
  - cbn [all_blocks_go]. cbn [all_recs flat_map] in H. unfold uncomp_total in H.
    rewrite (fold_sum_app (fun r => snd r)) in H. fold (uncomp_total (recs s)) in H. fold (all_recs r) in H.
    fold (uncomp_total (all_recs r)) in H.
    destruct (N.lt_ge_cases t (uf + uncomp_total (recs s))) as [L|L].
    + destruct (find_stream_blocks t snum cf uf (recs s) 1 kf 0 0) as [b Hb]; [lia|].
      exists b. apply find_app_l. exact Hb.
    + rewrite find_app_r.
      * apply IH. lia.
      * apply find_none_stream; lia.
Qed.

Theorem locate_complete i t : t < uncompressed_size i -> exists b, locate i t = Some b.
Proof.
  intro H. unfold locate, all_blocks. apply (find_all_blocks t i 1 0 0 1).
  unfold uncompressed_size in H. lia.
Qed.

