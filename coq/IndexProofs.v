(** Theorems about the list-of-records Index model. *)
From XZ Require Import Base Xz IndexModel.
Require Import ZifyBool ZifyN.
Local Open Scope N_scope.

(** refused operations leave the index unchanged *)
Lemma append_refused_unchanged i u v : fst (m_append i u v) <> 0 -> snd (m_append i u v) = i.
Proof.
  unfold m_append.
  repeat match goal with |- context [if ?b then _ else _] => destruct b end; cbn [fst snd]; auto.
  intro H; exfalso; apply H; reflexivity.
Qed.
Lemma padding_refused_unchanged i p : fst (m_stream_padding i p) <> 0 -> snd (m_stream_padding i p) = i.
Proof.
  unfold m_stream_padding.
  repeat match goal with |- context [if ?b then _ else _] => destruct b end; cbn [fst snd]; auto.
  intro H; exfalso; apply H; reflexivity.
Qed.
Lemma flags_refused_unchanged i c : fst (m_stream_flags i c) <> 0 -> snd (m_stream_flags i c) = i.
Proof.
  unfold m_stream_flags. destruct (15 <? c); cbn [fst snd]; auto. intro H; exfalso; apply H; reflexivity.
Qed.
Lemma cat_refused_unchanged a b : fst (m_cat a b) <> 0 -> snd (m_cat a b) = a.
Proof.
  unfold m_cat.
  repeat match goal with |- context [if ?b then _ else _] => destruct b end; cbn [fst snd]; auto.
  intro H; exfalso; apply H; reflexivity.
Qed.
Lemma cat_ok_is_concatenation a b : fst (m_cat a b) = 0 -> snd (m_cat a b) = a ++ b.
Proof.
  unfold m_cat.
  repeat match goal with |- context [if ?b then _ else _] => destruct b end; cbn [fst snd]; auto; discriminate.
Qed.

(** accepted appends keep every format limit *)
Lemma append_ok_limits i u v : fst (m_append i u v) = 0 ->
  5 <= u <= UNPADDED_MAX /\ v <= VLI_MAX /\
  uncompressed_size i + v <= VLI_MAX /\
  blocks_size (recs (last_stream i)) + u <= UNPADDED_MAX.
Proof.
  unfold m_append.
  destruct ((u <? 5) || (UNPADDED_MAX <? u) || (VLI_MAX <? v)) eqn:E1; [cbn; discriminate|].
  destruct (VLI_MAX <? _ + v) eqn:E2; [cbn; discriminate|].
  destruct (UNPADDED_MAX <? _ + u) eqn:E3; [cbn; discriminate|].
  intros _. lia.
Qed.

(** totals are additive over concatenation *)
Lemma all_recs_app a b : all_recs (a ++ b) = all_recs a ++ all_recs b.
Proof. unfold all_recs. apply flat_map_app. Qed.
Lemma fold_sum_app {A} (f : A -> N) (l1 l2 : list A) :
  fold_right (fun r a => f r + a) 0 (l1 ++ l2) = fold_right (fun r a => f r + a) 0 l1 + fold_right (fun r a => f r + a) 0 l2.
Proof. induction l1 as [|x l IH]; cbn [app fold_right]; [reflexivity|]. rewrite IH. lia. Qed.

Theorem cat_totals a b :
  block_count (a ++ b) = block_count a + block_count b /\
  stream_count (a ++ b) = stream_count a + stream_count b /\
  uncompressed_size (a ++ b) = uncompressed_size a + uncompressed_size b /\
  total_size (a ++ b) = total_size a + total_size b /\
  file_size (a ++ b) = file_size a + file_size b.
Proof.
  unfold block_count, stream_count, uncompressed_size, total_size, file_size, lenN.
  rewrite all_recs_app, !app_length.
  unfold uncomp_total, blocks_size.
  rewrite (fold_sum_app (fun r => snd r)), (fold_sum_app (fun r => ceil4 (fst r))),
          (fold_sum_app (fun s => one_stream_size s + spad s)).
  repeat split; lia.
Qed.

(** iteration visits every Block exactly once, in order *)
Lemma blocks_of_stream_length snum cf uf ks kf co uo rs :
  length (blocks_of_stream snum cf uf ks kf co uo rs) = length rs.
Proof.
  revert ks kf co uo; induction rs as [|[u v] r IH]; intros; cbn [blocks_of_stream length]; [reflexivity|].
  rewrite IH. reflexivity.
Qed.
Lemma all_blocks_go_length i : forall snum cf uf kf,
  length (all_blocks_go i snum cf uf kf) = length (all_recs i).
Proof.
  induction i as [|s r IH]; intros; cbn [all_blocks_go all_recs flat_map length]; [reflexivity|].
  rewrite !app_length, blocks_of_stream_length, IH. reflexivity.
Qed.
Theorem iteration_visits_every_block_once i : lenN (all_blocks i) = block_count i.
Proof. unfold all_blocks, block_count, lenN. rewrite all_blocks_go_length. reflexivity. Qed.

Lemma blocks_of_stream_map snum cf uf : forall rs ks kf co uo,
  map (fun b => (b_unpadded b, b_uncomp b)) (blocks_of_stream snum cf uf ks kf co uo rs) = rs.
Proof.
  induction rs as [|[u v] r IH]; intros; cbn [blocks_of_stream map]; [reflexivity|].
  cbn [b_unpadded b_uncomp]. rewrite IH. reflexivity.
Qed.
Lemma all_blocks_go_map i : forall snum cf uf kf,
  map (fun b => (b_unpadded b, b_uncomp b)) (all_blocks_go i snum cf uf kf) = all_recs i.
Proof.
  induction i as [|s r IH]; intros; cbn [all_blocks_go all_recs flat_map map]; [reflexivity|].
  rewrite map_app, blocks_of_stream_map, IH. reflexivity.
Qed.
Theorem iteration_yields_the_records_in_order i :
  map (fun b => (b_unpadded b, b_uncomp b)) (all_blocks i) = all_recs i.
Proof. apply all_blocks_go_map. Qed.

(** locate: sound ... *)
Definition contains (t : N) (b : blockinfo) : bool :=
  (b_uncomp_file_off b <=? t) && (t <? b_uncomp_file_off b + b_uncomp b).

Theorem locate_sound i t b : locate i t = Some b ->
  In b (all_blocks i) /\ b_uncomp_file_off b <= t < b_uncomp_file_off b + b_uncomp b /\ 0 < b_uncomp b.
Proof.
  unfold locate. intro H. apply find_some in H as [Hin Hc].
  split; [exact Hin|]. apply andb_true_iff in Hc as [A B].
  apply N.leb_le in A. apply N.ltb_lt in B. lia.
Qed.

(** ... and complete: every offset below the total uncompressed size is found *)
Lemma find_stream_blocks t snum cf uf : forall rs ks kf co uo,
  uf + uo <= t < uf + uo + uncomp_total rs ->
  exists b, find (contains t) (blocks_of_stream snum cf uf ks kf co uo rs) = Some b.
Proof.
  induction rs as [|[u v] r IH]; intros ks kf co uo H.
  - cbn in H. lia.
  - cbn [blocks_of_stream find]. unfold contains at 1. cbn [b_uncomp_file_off b_uncomp].
    destruct ((uf + uo <=? t) && (t <? uf + uo + v)) eqn:E; [eauto|].
    apply IH. cbn [uncomp_total fold_right snd] in H. unfold uncomp_total.
    apply andb_false_iff in E. destruct E as [E|E]; [apply N.leb_gt in E; lia|apply N.ltb_ge in E; lia].
Qed.

Lemma find_none_stream t snum cf uf : forall rs ks kf co uo,
  ~ (uf + uo <= t < uf + uo + uncomp_total rs) -> uf + uo <= t ->
  find (contains t) (blocks_of_stream snum cf uf ks kf co uo rs) = None.
Proof.
  induction rs as [|[u v] r IH]; intros ks kf co uo H Hle; [reflexivity|].
  cbn [blocks_of_stream find]. unfold contains at 1. cbn [b_uncomp_file_off b_uncomp].
  cbn [uncomp_total fold_right snd] in H. fold (uncomp_total r) in H.
  assert (E : (uf + uo <=? t) && (t <? uf + uo + v) = false).
  { apply andb_false_iff. right. apply N.ltb_ge. lia. }
  rewrite E. apply IH; lia.
Qed.

Lemma find_app_l {A} (P : A -> bool) l1 l2 x : find P l1 = Some x -> find P (l1 ++ l2) = Some x.
Proof. induction l1 as [|y l IH]; cbn; [discriminate|]. destruct (P y); auto. Qed.
Lemma find_app_r {A} (P : A -> bool) l1 l2 : find P l1 = None -> find P (l1 ++ l2) = find P l2.
Proof. induction l1 as [|y l IH]; cbn; [reflexivity|]. destruct (P y); [discriminate|auto]. Qed.

Lemma find_all_blocks t : forall i snum cf uf kf,
  uf <= t < uf + uncomp_total (all_recs i) ->
  exists b, find (contains t) (all_blocks_go i snum cf uf kf) = Some b.
Proof.
  induction i as [|s r IH]; intros snum cf uf kf H.
  - cbn in H. lia.
  - cbn [all_blocks_go]. cbn [all_recs flat_map] in H. unfold uncomp_total in H.
    rewrite (fold_sum_app (fun r => snd r)) in H. fold (uncomp_total (recs s)) in H. fold (all_recs r) in H.
    fold (uncomp_total (all_recs r)) in H.
    destruct (N.lt_ge_cases t (uf + uncomp_total (recs s))) as [L|L].
    + destruct (find_stream_blocks t snum cf uf (recs s) 1 kf 0 0) as [b Hb]; [lia|].
      exists b. apply find_app_l. exact Hb.
    + rewrite find_app_r.
      * apply IH. lia.
      * apply find_none_stream; lia.
Qed.

Theorem locate_complete i t : t < uncompressed_size i -> exists b, locate i t = Some b.
Proof.
  intro H. unfold locate, all_blocks. apply (find_all_blocks t i 1 0 0 1).
  unfold uncompressed_size in H. lia.
Qed.


(** ---------- the total uncompressed size of every index that can be built is a valid VLI ---------- *)
Lemma uncomp_total_app a b : uncomp_total (a ++ b) = uncomp_total a + uncomp_total b.
Proof. unfold uncomp_total. induction a as [|r a IH]; cbn [app fold_right]; [reflexivity|rewrite IH; lia]. Qed.

Lemma all_recs_set_last i f :
  i <> [] -> all_recs (set_last i f) = all_recs (removelast i) ++ recs (f (last_stream i)).
Proof.
  intro Hne. unfold set_last, last_stream.
  destruct (rev i) as [|s r] eqn:E.
  - exfalso. apply Hne. rewrite <- (rev_involutive i), E. reflexivity.
  - assert (Ei : i = rev r ++ [s]) by (rewrite <- (rev_involutive i), E; reflexivity).
    cbn [rev]. rewrite Ei, removelast_last. unfold all_recs. rewrite flat_map_app. cbn. rewrite app_nil_r. reflexivity.
Qed.

Lemma all_recs_split i : i <> [] -> all_recs i = all_recs (removelast i) ++ recs (last_stream i).
Proof.
  intro Hne. unfold last_stream.
  destruct (rev i) as [|s r] eqn:E.
  - exfalso. apply Hne. rewrite <- (rev_involutive i), E. reflexivity.
  - assert (Ei : i = rev r ++ [s]) by (rewrite <- (rev_involutive i), E; reflexivity).
    rewrite Ei at 1 2. rewrite removelast_last. unfold all_recs. rewrite flat_map_app. cbn. rewrite app_nil_r. reflexivity.
Qed.

Inductive reachable : mindex -> Prop :=
| R_init : reachable m_init
| R_append i u v : reachable i -> reachable (snd (m_append i u v))
| R_flags i c : reachable i -> reachable (snd (m_stream_flags i c))
| R_padding i p : reachable i -> reachable (snd (m_stream_padding i p))
| R_cat a b : reachable a -> reachable b -> reachable (snd (m_cat a b)).

Lemma set_last_nonempty i f : i <> [] -> set_last i f <> [].
Proof.
  intro H. unfold set_last. destruct (rev i) as [|s r] eqn:E.
  - exact H.
  - cbn [rev]. intro K. apply app_eq_nil in K. destruct K as [_ K]. discriminate K.
Qed.

Lemma set_last_same_recs i f : i <> [] -> (forall s, recs (f s) = recs s) ->
  all_recs (set_last i f) = all_recs i.
Proof.
  intros Hne Hf. rewrite (all_recs_set_last i f Hne), Hf. symmetry. apply all_recs_split. exact Hne.
Qed.

Theorem reachable_total_is_vli i : reachable i -> i <> [] /\ uncompressed_size i <= VLI_MAX.
Proof.
  induction 1 as [|i u v Hr [Hne IH]|i c Hr [Hne IH]|i p Hr [Hne IH]|a b Ha [Hna IHa] Hb [Hnb IHb]].
  - split; [discriminate|]. cbn. unfold VLI_MAX. lia.
  - destruct (N.eq_dec (fst (m_append i u v)) 0) as [E|E].
    + pose proof (append_ok_limits i u v E) as [_ [_ [HL _]]].
      unfold m_append in *.
      destruct ((u <? 5) || (UNPADDED_MAX <? u) || (VLI_MAX <? v)); [cbn in E; discriminate|].
      repeat match goal with |- context [if ?b then _ else _] => destruct b; [cbn in E; try discriminate|] end.
      cbn [snd]. split; [apply set_last_nonempty; exact Hne|].
      unfold uncompressed_size in *. rewrite (all_recs_set_last i _ Hne). cbn [recs].
      rewrite app_assoc, <- (all_recs_split i Hne), uncomp_total_app. cbn. lia.
    + rewrite (append_refused_unchanged i u v E). split; assumption.
  - unfold m_stream_flags. destruct (15 <? c); cbn [snd]; [split; assumption|].
    split; [apply set_last_nonempty; exact Hne|].
    unfold uncompressed_size. rewrite set_last_same_recs; [exact IH|exact Hne|reflexivity].
  - unfold m_stream_padding. destruct ((VLI_MAX <? p) || negb (p mod 4 =? 0)); cbn [snd]; [split; assumption|].
    destruct (VLI_MAX <? _); cbn [snd]; [split; assumption|].
    split; [apply set_last_nonempty; exact Hne|].
    unfold uncompressed_size. rewrite set_last_same_recs; [exact IH|exact Hne|reflexivity].
  - destruct (N.eq_dec (fst (m_cat a b)) 0) as [E|E].
    + rewrite (cat_ok_is_concatenation a b E).
      split; [intro K; apply app_eq_nil in K; destruct K; contradiction|].
      unfold m_cat in E.
      destruct ((VLI_MAX <? file_size a + file_size b) || (VLI_MAX <? uncompressed_size a + uncompressed_size b)) eqn:C;
        [cbn in E; discriminate|].
      apply orb_false_iff in C. destruct C as [_ C]. apply N.ltb_ge in C.
      unfold uncompressed_size in *. rewrite all_recs_app, uncomp_total_app. exact C.
    + rewrite (cat_refused_unchanged a b E). split; assumption.
Qed.
