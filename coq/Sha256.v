(** SHA-256 per FIPS 180-4 (the standard definition), with K and H0
    *defined* from the cube/square roots of the primes, and the streaming
    model of lzma_sha256_init/update/finish (64-byte buffer + byte count).
    Anchor: src/liblzma/check/sha256.c, check.c. *)
From XZ Require Import Base.
Local Open Scope N_scope.

Definition w32 (x : N) := x mod 4294967296.
Definition rotr (x n : N) : N := w32 (N.lor (N.shiftr x n) (N.shiftl x (32 - n))).
Definition shr (x n : N) : N := N.shiftr x n.
Definition Ch x y z := N.lxor (N.land x y) (N.land (not32 x) z).
Definition Maj x y z := N.lxor (N.lxor (N.land x y) (N.land x z)) (N.land y z).
Definition BSig0 x := N.lxor (N.lxor (rotr x 2) (rotr x 13)) (rotr x 22).
Definition BSig1 x := N.lxor (N.lxor (rotr x 6) (rotr x 11)) (rotr x 25).
Definition SSig0 x := N.lxor (N.lxor (rotr x 7) (rotr x 18)) (shr x 3).
Definition SSig1 x := N.lxor (N.lxor (rotr x 17) (rotr x 19)) (shr x 10).

(** integer k-th roots by bisection on [0, 2^bits) *)
Fixpoint root_bisect (fuel : nat) (pw : N -> N) (target lo hi : N) : N :=
  match fuel with
  | O => lo
  | S f => if hi <=? lo + 1 then lo else
           let mid := (lo + hi) / 2 in
           if pw mid <=? target then root_bisect f pw target mid hi
           else root_bisect f pw target lo mid
  end.
Definition primes64 : list N :=
  [2;3;5;7;11;13;17;19;23;29;31;37;41;43;47;53;59;61;67;71;73;79;83;89;97;101;103;107;109;113;
   127;131;137;139;149;151;157;163;167;173;179;181;191;193;197;199;211;223;227;229;233;239;241;
   251;257;263;269;271;277;281;283;293;307;311].
(** first 32 bits of the fractional part of the cube root of p *)
Definition k_of_prime (p : N) : N :=
  w32 (root_bisect 200 (fun x => x * x * x) (p * 2 ^ 96) 0 (2 ^ 40)).
(** first 32 bits of the fractional part of the square root of p *)
Definition h_of_prime (p : N) : N :=
  w32 (root_bisect 200 (fun x => x * x) (p * 2 ^ 64) 0 (2 ^ 40)).
Definition K_spec : list N := map k_of_prime primes64.
Definition H0_spec : list N := map h_of_prime (firstn 8 primes64).

Section WithK.
Variable K : list N.

(** message schedule: list of W_0.. built incrementally, newest last *)
Definition sched_next (W : list N) : N :=
  let n := length W in
  let g i := nth (n - i) W 0 in
  w32 (SSig1 (g 2%nat) + g 7%nat + SSig0 (g 15%nat) + g 16%nat).
Fixpoint sched_ext (k : nat) (W : list N) : list N :=
  match k with O => W | S j => sched_ext j (W ++ [sched_next W]) end.

Fixpoint words_be (bs : list N) : list N :=
  match bs with
  | a :: b :: c :: d :: r => (((a * 256 + b) * 256 + c) * 256 + d) :: words_be r
  | _ => []
  end.

Record regs := { ra : N; rb : N; rc : N; rd : N; re : N; rf : N; rg : N; rh : N }.

Definition round (r : regs) (kw : N * N) : regs :=
  let t1 := w32 (rh r + BSig1 (re r) + Ch (re r) (rf r) (rg r) + fst kw + snd kw) in
  let t2 := w32 (BSig0 (ra r) + Maj (ra r) (rb r) (rc r)) in
  {| ra := w32 (t1 + t2); rb := ra r; rc := rb r; rd := rc r;
     re := w32 (rd r + t1); rf := re r; rg := rf r; rh := rg r |}.

Definition regs_of (h : list N) : regs :=
  let g i := nth i h 0 in
  {| ra := g 0%nat; rb := g 1%nat; rc := g 2%nat; rd := g 3%nat;
     re := g 4%nat; rf := g 5%nat; rg := g 6%nat; rh := g 7%nat |}.
Definition list_of (r : regs) : list N := [ra r; rb r; rc r; rd r; re r; rf r; rg r; rh r].

(** compress one 64-byte block *)
Definition transform (h : list N) (block : list N) : list N :=
  let W := sched_ext 48 (words_be block) in
  let r := fold_left round (combine K W) (regs_of h) in
  map (fun p => w32 (fst p + snd p)) (combine h (list_of r)).

(** fold [transform] over consecutive 64-byte blocks; fuel = length *)
Fixpoint blocks (fuel : nat) (h : list N) (bs : list N) : list N :=
  match fuel with
  | O => h
  | S f => match bs with
           | [] => h
           | _ => blocks f (transform h (firstn 64 bs)) (skipn 64 bs)
           end
  end.

Definition pad_zeros (len : N) : nat :=
  N.to_nat ((64 + 56 - (len + 1) mod 64) mod 64).
Definition padding (len : N) : list N :=
  128 :: repeatN 0 (pad_zeros len) ++ be_bytes 8 (len * 8).

(** FIPS 180-4: SHA-256 of a byte string (H0 given) *)
Definition sha256_from (h0 : list N) (msg : list N) : list N :=
  let m := msg ++ padding (lenN msg) in
  flat_map (be_bytes 4) (blocks (length m) h0 m).

(** ---- streaming model of sha256.c ---- *)
Record sha_state := { sh : list N; sbuf : list N (* < 64 pending bytes *); ssize : N }.
Definition sha_init (h0 : list N) : sha_state := {| sh := h0; sbuf := []; ssize := 0 |}.
Definition sha_byte (s : sha_state) (b : N) : sha_state :=
  let buf := sbuf s ++ [b] in
  if (length buf =? 64)%nat
  then {| sh := transform (sh s) buf; sbuf := []; ssize := ssize s + 1 |}
  else {| sh := sh s; sbuf := buf; ssize := ssize s + 1 |}.
Definition sha_update (s : sha_state) (data : list N) : sha_state := fold_left sha_byte data s.
Definition sha_finish (s : sha_state) : list N :=
  let s' := sha_update s (padding (ssize s)) in
  flat_map (be_bytes 4) (sh s').

End WithK.

Definition sha256 (msg : list N) : list N := sha256_from K_spec H0_spec msg.
