(** Slicing independence of resumable machines that are simple enough to
    prove outright: the multi-call VLI decoder (vli_decoder.c with vli_pos)
    and the delta coder. *)
From XZ Require Import Base Bcj Lzma Lzma2 Xz VliProofs.
Local Open Scope N_scope.

(** lzma_vli_decode() in multi-call mode: state = the pair vli, vli_pos *)
Inductive vst := VGo (acc pos : N) | VDone (v : N) | VErr.

Definition vli_step (acc pos b : N) : vst :=
  let acc := acc + (b mod 128) * 2 ^ (7 * pos) in
  if b <? 128 then (if (b =? 0) && (0 <? pos) then VErr else VDone acc)
  else if pos =? 8 then VErr else VGo acc (pos + 1).

(** feed bytes; returns the state and the bytes not consumed *)
Fixpoint vli_run (s : vst) (l : list N) : vst * list N :=
  match s with
  | VGo acc pos => match l with [] => (s, []) | b :: r => vli_run (vli_step acc pos b) r end
  | _ => (s, l)
  end.

(** any split of the input: feeding a then b = feeding a ++ b *)
Theorem vli_run_app s a b :
  vli_run s (a ++ b) = let '(s1, ra) := vli_run s a in
                       match s1 with VGo _ _ => vli_run s1 b | _ => (s1, ra ++ b) end.
Proof.
  revert s; induction a as [|x a IH]; intro s.
  - cbn [app]. destruct s; cbn; try reflexivity; destruct b; reflexivity.
  - destruct s as [acc pos|v|]; cbn [vli_run app]; try reflexivity. apply IH.
Qed.

(** the resumable machine computes the one-shot decoder *)
Lemma vli_run_go : forall fuel pos acc l, (N.of_nat (S fuel) + pos = 9) ->
  match vli_go (S fuel) pos acc l with
  | Some (v, r) => vli_run (VGo acc pos) l = (VDone v, r)
  | None => match vli_run (VGo acc pos) l with (VDone _, _) => False | _ => True end
  end.
Proof.
  induction fuel as [|fuel IH]; intros pos acc l Hf.
  - cbn [vli_go]. destruct l as [|b r]; [cbn; exact I|].
    cbn [vli_run]. unfold vli_step.
    destruct (b <? 128).
    + destruct ((b =? 0) && (0 <? pos)); [destruct r; cbn; exact I|]. destruct r; reflexivity.
    + assert (E8 : (pos =? 8) = true) by (apply N.eqb_eq; lia). rewrite E8. destruct r; cbn; exact I.
  - change (vli_go (S (S fuel)) pos acc l) with
      (match l with [] => None | b :: r =>
         let acc := acc + (b mod 128) * 2 ^ (7 * pos) in
         if b <? 128 then (if (b =? 0) && (0 <? pos) then None else Some (acc, r))
         else if pos =? 8 then None else vli_go (S fuel) (pos + 1) acc r end).
    destruct l as [|b r]; [cbn; exact I|].
    cbn [vli_run]. unfold vli_step. cbn zeta.
    destruct (b <? 128).
    + destruct ((b =? 0) && (0 <? pos)); [destruct r; cbn; exact I|]. destruct r; reflexivity.
    + destruct (pos =? 8) eqn:E8; [destruct r; cbn; exact I|].
      apply IH. apply N.eqb_neq in E8. lia.
Qed.

Theorem vli_resumable_eq_oneshot l v r :
  vli_decode l = Some (v, r) -> vli_run (VGo 0 0) l = (VDone v, r).
Proof.
  intro H. pose proof (vli_run_go 8 0 0 l eq_refl) as G. unfold vli_decode in H. rewrite H in G. exact G.
Qed.

(** delta coder: coding a ++ b = coding a, then b from the saved state *)
Theorem delta_run_app f s a b :
  delta_run f s (a ++ b) =
  let '(s1, o1) := delta_run f s a in let '(s2, o2) := delta_run f s1 b in (s2, o1 ++ o2).
Proof.
  revert s; induction a as [|x a IH]; intro s.
  - cbn [app delta_run]. destruct (delta_run f s b); reflexivity.
  - cbn [app delta_run]. destruct (f s x) as [s1 o]. rewrite IH.
    destruct (delta_run f s1 a) as [s2 os]. destruct (delta_run f s2 b) as [s3 os2]. reflexivity.
Qed.
