(** Variable-length integers: decode(encode v) = v, and accepted encodings are canonical. *)
From XZ Require Import Base Lzma Lzma2 Xz.
Require Import ZifyBool ZifyN.
Local Open Scope N_scope.
Ltac Zify.zify_post_hook ::= Z.div_mod_to_equations.

Lemma vli_go_encode : forall fuel v pos acc rest,
  v < 128 ^ N.of_nat fuel -> (0 < pos -> 0 < v) -> (N.of_nat fuel + pos = 9) ->
  vli_go fuel pos acc (vli_encode_go fuel v ++ rest) = Some (acc + v * 2 ^ (7 * pos), rest).
Proof.
  induction fuel as [|fuel IH]; intros v pos acc rest Hv Hnz Hf.
  - cbn in Hv. lia.
  - cbn [vli_encode_go vli_go].
    destruct (v <? 128) eqn:E.
    + cbn [app]. apply N.ltb_lt in E. rewrite (proj2 (N.ltb_lt v 128) E).
      replace (v mod 128) with v by (symmetry; apply N.mod_small; exact E).
      destruct ((v =? 0) && (0 <? pos)) eqn:Z; [|reflexivity].
      apply andb_true_iff in Z as [Z1 Z2]. apply N.eqb_eq in Z1. apply N.ltb_lt in Z2.
      specialize (Hnz Z2). lia.
    + cbn [app]. apply N.ltb_ge in E.
      assert (Hb : v mod 128 + 128 <? 128 = false) by (apply N.ltb_ge; lia).
      rewrite Hb.
      assert (Hp8 : (pos =? 8) = false).
      { apply N.eqb_neq. intro. subst pos. destruct fuel; [|lia]. cbn in Hv. lia. }
      rewrite Hp8.
      replace ((v mod 128 + 128) mod 128) with (v mod 128).
      2:{ apply N.mod_unique with (q := 1); [apply N.mod_lt; lia|lia]. }
      rewrite IH.
      * f_equal. f_equal.
        replace (7 * (pos + 1)) with (7 * pos + 7) by lia. rewrite N.pow_add_r.
        change (2 ^ 7) with 128.
        pose proof (N.div_mod v 128). nia.
      * rewrite Nat2N.inj_succ, N.pow_succ_r' in Hv.
        apply N.div_lt_upper_bound; lia.
      * intros _. apply N.div_str_pos. lia.
      * lia.
Qed.

Theorem vli_decode_encode v rest : v <= VLI_MAX -> vli_decode (vli_encode v ++ rest) = Some (v, rest).
Proof.
  intro H. unfold vli_decode, vli_encode.
  rewrite vli_go_encode; [f_equal; f_equal; cbn; lia| | lia | reflexivity].
  unfold VLI_MAX in H. change (128 ^ N.of_nat 9) with 9223372036854775808. lia.
Qed.

(** whatever the decoder accepts is the unique shortest encoding of the value *)
Lemma vli_go_canonical : forall fuel pos acc l v rest,
  (N.of_nat fuel + pos = 9) -> bytes_ok l ->
  vli_go fuel pos acc l = Some (v, rest) ->
  exists w, v = acc + w * 2 ^ (7 * pos) /\ w < 128 ^ N.of_nat fuel /\ (0 < pos -> 0 < w) /\
            l = vli_encode_go fuel w ++ rest.
Proof.
  induction fuel as [|fuel IH]; intros pos acc l v rest Hf Hl H; [discriminate|].
  cbn [vli_go] in H. destruct l as [|b r]; [discriminate|].
  inversion Hl as [|? ? Hb Hr]; subst. unfold byte_ok in Hb.
  destruct (b <? 128) eqn:E.
  - apply N.ltb_lt in E.
    destruct ((b =? 0) && (0 <? pos)) eqn:Z; [discriminate|].
    inversion H; subst. exists b. 
    replace (b mod 128) with b by (symmetry; apply N.mod_small; exact E).
    split; [reflexivity|]. split.
    + rewrite Nat2N.inj_succ, N.pow_succ_r'. pose proof (N.pow_nonzero 128 (N.of_nat fuel)). nia.
    + split.
      * intro Hp. apply andb_false_iff in Z. destruct Z as [Z|Z].
        -- apply N.eqb_neq in Z. lia.
        -- apply N.ltb_ge in Z. lia.
      * cbn [vli_encode_go]. rewrite (proj2 (N.ltb_lt b 128) E). reflexivity.
  - apply N.ltb_ge in E.
    destruct (pos =? 8) eqn:E8; [discriminate|]. apply N.eqb_neq in E8.
    destruct (IH (pos + 1) (acc + b mod 128 * 2 ^ (7 * pos)) r v rest ltac:(lia) Hr H) as [w [Hv [Hw [Hnz Hl']]]].
    exists (b mod 128 + 128 * w).
    assert (Hw0 : 0 < w) by (apply Hnz; lia).
    split.
    + rewrite Hv. replace (7 * (pos + 1)) with (7 * pos + 7) by lia. rewrite N.pow_add_r.
      change (2 ^ 7) with 128. nia.
    + split.
      * rewrite Nat2N.inj_succ, N.pow_succ_r'. pose proof (N.mod_lt b 128). nia.
      * split; [intros _; lia|].
        cbn [vli_encode_go].
        assert (X : b mod 128 + 128 * w <? 128 = false) by (apply N.ltb_ge; lia). rewrite X.
        replace ((b mod 128 + 128 * w) mod 128) with (b mod 128).
        2:{ apply N.mod_unique with (q := w); [apply N.mod_lt; lia|lia]. }
        replace ((b mod 128 + 128 * w) / 128) with w.
        2:{ apply N.div_unique with (r := b mod 128); [apply N.mod_lt; lia|lia]. }
        replace (b mod 128 + 128) with b by (pose proof (N.div_mod b 128); lia).
        cbn [app]. f_equal. exact Hl'.
Qed.

Theorem vli_accepted_is_canonical l v rest : bytes_ok l ->
  vli_decode l = Some (v, rest) -> l = vli_encode v ++ rest /\ v <= VLI_MAX.
Proof.
  intros Hl H. unfold vli_decode in H.
  destruct (vli_go_canonical 9 0 0 l v rest eq_refl Hl H) as [w [Hv [Hw [_ Hl']]]].
  replace v with w by (rewrite Hv; cbn; lia).
  split; [exact Hl'|].
  change (128 ^ N.of_nat 9) with 9223372036854775808 in Hw. unfold VLI_MAX. lia.
Qed.

(** ---- property bytes ---- *)
Definition lclppb_encode (p : props) : N := (pb p * 5 + lp p) * 9 + lc p.

Lemma lclppb_roundtrip_all :
  forallb (fun b => match lclppb_decode (N.of_nat b) with
                    | Some p => (lclppb_encode p =? N.of_nat b) && props_ok p
                    | None => true end) (seq 0 256) = true.
Proof. vm_compute. reflexivity. Qed.

Lemma lclppb_accepts_exactly :
  forallb (fun b => let n := N.of_nat b in
     Bool.eqb (match lclppb_decode n with Some _ => true | None => false end)
              ((n <=? 224) && ((n mod 9) + ((n / 9) mod 5) <=? 4))) (seq 0 256) = true.
Proof. vm_compute. reflexivity. Qed.

(** LZMA2 dictionary size byte: 2^n or 2^n + 2^(n-1), monotone, 4 KiB .. 4 GiB-1 *)
Lemma lzma2_dict_bytes :
  forallb (fun b => let n := N.of_nat b in
    match lzma2_dict_of_byte n with
    | Some d => (n <=? 40) && (4096 <=? d) && (d <=? 4294967295)
                && (if n =? 40 then true else d =? (2 + n mod 2) * 2 ^ (n / 2 + 11))
                && (match lzma2_dict_of_byte (n + 1) with Some d' => d <? d' | None => n =? 40 end)
    | None => 40 <? n
    end) (seq 0 256) = true.
Proof. vm_compute. reflexivity. Qed.

Lemma eff_dict_bounds d : d <= eff_dict d /\ 4096 <= eff_dict d /\ eff_dict d mod 16 = 0 /\ eff_dict d < N.max d 4096 + 16.
Proof. unfold eff_dict. destruct (d <? 4096) eqn:E; lia. Qed.
