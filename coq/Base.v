(** Base definitions shared by all models: bytes as [N], little/big-endian
    words, explicit machine-width wrapping. *)
From Coq Require Export List NArith ZArith Lia Bool.
Export ListNotations.
Local Open Scope N_scope.

Definition byte_ok (b : N) : Prop := b < 256.
Definition bytes_ok (l : list N) : Prop := Forall byte_ok l.
Definition byte_okb (b : N) : bool := b <? 256.
Definition bytes_okb (l : list N) : bool := forallb byte_okb l.

Definition two32 : N := 4294967296.
Definition two64 : N := 18446744073709551616.
Definition wrap32 (x : N) : N := x mod two32.
Definition wrap64 (x : N) : N := x mod two64.
Definition add32 a b := wrap32 (a + b).
Definition sub32 a b := wrap32 (a + two32 - b mod two32).
Definition add64 a b := wrap64 (a + b).
Definition sub64 a b := wrap64 (a + two64 - b mod two64).
Definition shl32 a n := wrap32 (N.shiftl a n).
Definition not32 a := N.lxor a 4294967295.
Definition not64 a := N.lxor a 18446744073709551615.

(** little-endian decoding of a byte list *)
Fixpoint le_val (l : list N) : N :=
  match l with [] => 0 | b :: r => b + 256 * le_val r end.
Fixpoint be_val_acc (acc : N) (l : list N) : N :=
  match l with [] => acc | b :: r => be_val_acc (acc * 256 + b) r end.
Definition be_val := be_val_acc 0.

Fixpoint le_bytes (n : nat) (v : N) : list N :=
  match n with O => [] | S k => (v mod 256) :: le_bytes k (v / 256) end.
Definition be_bytes (n : nat) (v : N) : list N := rev (le_bytes n v).

Fixpoint repeatN {A} (x : A) (n : nat) : list A :=
  match n with O => [] | S k => x :: repeatN x k end.

Definition nthN {A} (l : list A) (i : N) : option A := nth_error l (N.to_nat i).
Definition lenN {A} (l : list A) : N := N.of_nat (length l).

Fixpoint list_eqb (a b : list N) : bool :=
  match a, b with
  | [], [] => true
  | x :: a', y :: b' => (x =? y) && list_eqb a' b'
  | _, _ => false
  end.

Lemma list_eqb_eq a b : list_eqb a b = true <-> a = b.
Proof.
  revert b; induction a as [|x a IH]; destruct b as [|y b]; simpl; split; try congruence; intro H.
  - apply andb_true_iff in H as [H1 H2]. apply N.eqb_eq in H1. apply IH in H2. congruence.
  - inversion H; subst. rewrite N.eqb_refl. simpl. apply IH. reflexivity.
Qed.

Lemma le_bytes_length n v : length (le_bytes n v) = n.
Proof. revert v; induction n; simpl; intros; auto. Qed.

Lemma le_val_le_bytes n v : v < 256 ^ N.of_nat n -> le_val (le_bytes n v) = v.
Proof.
  revert v; induction n as [|n IH]; intros v H.
  - simpl in *. lia.
  - cbn [le_bytes le_val]. rewrite IH.
    + pose proof (N.div_mod v 256). lia.
    + rewrite Nat2N.inj_succ, N.pow_succ_r' in H.
      apply N.div_lt_upper_bound; lia.
Qed.

Lemma le_bytes_ok n v : bytes_ok (le_bytes n v).
Proof.
  revert v; induction n as [|n IH]; simpl; intros v; constructor.
  - unfold byte_ok. apply N.mod_lt. lia.
  - apply IH.
Qed.

Lemma le_bytes_le_val l : bytes_ok l -> le_bytes (length l) (le_val l) = l.
Proof.
  induction 1 as [|b l Hb Hl IH]; [reflexivity|]. cbn [length le_val le_bytes].
  unfold byte_ok in Hb.
  replace ((b + 256 * le_val l) mod 256) with b.
  2:{ apply N.mod_unique with (q := le_val l); lia. }
  replace ((b + 256 * le_val l) / 256) with (le_val l).
  2:{ apply N.div_unique with (r := b); lia. }
  rewrite IH; auto.
Qed.
