(** LZMA2 chunk encoder (model of lzma2_encoder.c's chunk framing around the
    LZMA symbol encoder) and the proof that the LZMA2 decoder specification
    (Lzma2.v) inverts it chunk by chunk. *)
From XZ Require Import Base Lzma Lzma2 RcAbs RcDec RcEnc RcRoundtrip RcCodes LzmaEnc LzmaSym LzmaRun.
Require Import ZifyBool ZifyN ZifyNat.
Local Open Scope N_scope.

Definition symlen (s : lsym) : N :=
  match s with SLit _ => 1 | SMatch _ len => len | SShortRep => 1 | SLongRep _ len => len end.
Definition syms_len (l : list lsym) : N := fold_right (fun s a => symlen s + a) 0 l.

Inductive l2chunk :=
| KU (dreset : bool) (data : list N)            (* stored as is; dreset = dictionary reset *)
| KL (mode : N) (pbyte : N) (syms : list lsym). (* mode 0: continue, 1: state reset, 2: + new properties, 3: + dictionary reset *)

(** the part of the decoder state that persists between chunks *)
Definition l2_next (s : l2) (inp : list N) (used : N) (np ndr : bool) (p : props) (ps : probs) (st a b c d : N)
           (h : hist) (out : list N) (stt : status) : l2 :=
  {| l2in := inp; l2used := used; need_props := np; need_dict_reset := ndr; l2props := p; l2ps := ps;
     l2state := st; l2r0 := a; l2r1 := b; l2r2 := c; l2r3 := d; l2hist := h; l2out := out; l2status := stt |}.

Section Chunk.
Variable dict_size : N.
Variable fuel : positive.

(** the LZMA state a chunk of mode [m] starts from *)
Definition kl_start (s : l2) (m : N) (usize : N) : lz :=
  let reset := 1 <=? m in
  z_start (if reset then PM.empty N else l2ps s) (if reset then 0 else l2state s)
          (if reset then 0 else l2r0 s) (if reset then 0 else l2r1 s)
          (if reset then 0 else l2r2 s) (if reset then 0 else l2r3 s)
          (if m =? 3 then hist_empty else l2hist s) (Some usize).

Definition kl_props (s : l2) (m pbyte : N) : option props :=
  if 2 <=? m then lclppb_decode pbyte else Some (l2props s).

Record kl_ok (s : l2) (m pbyte : N) (syms : list lsym) (p : props) : Prop := {
  k_mode : m <= 3;
  k_props : kl_props s m pbyte = Some p;
  k_np : m < 2 -> need_props s = false;
  k_ndr : m < 3 -> need_dict_reset s = false;
  k_ps : all_ok (l2ps s);
  k_usize : 1 <= syms_len syms <= 2097152;
  k_valid : valid_run p dict_size (kl_start s m (syms_len syms)) syms;
  k_left : zleft (snd (enc_run p (kl_start s m (syms_len syms)) syms)) = Some 0;
  k_csize : 1 <= N.of_nat (length (encode (fst (enc_run p (kl_start s m (syms_len syms)) syms)))) <= 65536;
  k_fuel : (length syms < Pos.to_nat fuel)%nat }.

Definition kl_bytes (s : l2) (m pbyte : N) (syms : list lsym) (p : props) : list N :=
  let usize := syms_len syms in
  let payload := encode (fst (enc_run p (kl_start s m usize) syms)) in
  let csize := N.of_nat (length payload) in
  [128 + m * 32 + (usize - 1) / 65536; ((usize - 1) / 256) mod 256; (usize - 1) mod 256;
   (csize - 1) / 256; (csize - 1) mod 256] ++ (if 2 <=? m then [pbyte] else []) ++ payload.

Definition kl_after (s : l2) (m pbyte : N) (syms : list lsym) (p : props) (rest : list N) : l2 :=
  let zf := snd (enc_run p (kl_start s m (syms_len syms)) syms) in
  l2_next s rest (l2used s + N.of_nat (length (kl_bytes s m pbyte syms p))) false false p
          (zps zf) (zstate zf) (rep0 zf) (rep1 zf) (rep2 zf) (rep3 zf) (zhist zf) (zout zf ++ l2out s) Running.

Lemma firstn_app_exact {A} (l r : list A) : firstn (length l) (l ++ r) = l.
Proof. induction l; cbn; congruence. Qed.
Lemma skipn_app_exact {A} (l r : list A) : skipn (length l) (l ++ r) = r.
Proof. induction l; cbn; congruence. Qed.

Lemma all_ok_start s m : all_ok (l2ps s) -> all_ok (if 1 <=? m then PM.empty N else l2ps s).
Proof. intro H. destruct (1 <=? m); [apply all_ok_empty|exact H]. Qed.

Lemma mod32_off k x : x < 32 -> (32 * k + x) mod 32 = x.
Proof. intro H. symmetry. apply (N.mod_unique (32 * k + x) 32 k x H). reflexivity. Qed.

Ltac decide_cmp :=
  repeat match goal with
  | |- context [?a <=? ?b] =>
      first [replace (a <=? b) with true by (symmetry; apply N.leb_le; lia)
            |replace (a <=? b) with false by (symmetry; apply N.leb_gt; lia)]
  | |- context [?a <? ?b] =>
      first [replace (a <? b) with true by (symmetry; apply N.ltb_lt; lia)
            |replace (a <? b) with false by (symmetry; apply N.ltb_ge; lia)]
  | |- context [?a =? ?b] =>
      first [replace (a =? b) with true by (symmetry; apply N.eqb_eq; lia)
            |replace (a =? b) with false by (symmetry; apply N.eqb_neq; lia)]
  end.

Local Strategy 1000 [encode enc_run lz_run z_start kl_start syms_len].
Lemma l2_chunk_kl s m pbyte syms p rest :
  kl_ok s m pbyte syms p ->
  l2in s = kl_bytes s m pbyte syms p ++ rest ->
  l2_chunk dict_size fuel s = kl_after s m pbyte syms p rest.
Proof.
  intros [Hm Hp Hnp Hndr Hps Hus Hval Hleft Hcs Hfuel] Hin.
  set (usize := syms_len syms) in *.
  set (z0 := kl_start s m usize) in *.
  set (er := enc_run p z0 syms) in *.
  set (payload := encode (fst er)) in *.
  set (csize := N.of_nat (length payload)) in *.
  (* what the LZMA layer does with the payload *)
  pose proof (lzma_roundtrip_known_size p dict_size false
                (if 1 <=? m then PM.empty N else l2ps s) (if 1 <=? m then 0 else l2state s)
                (if 1 <=? m then 0 else l2r0 s) (if 1 <=? m then 0 else l2r1 s)
                (if 1 <=? m then 0 else l2r2 s) (if 1 <=? m then 0 else l2r3 s)
                (if m =? 3 then hist_empty else l2hist s) (all_ok_start s m Hps)
                syms usize [] fuel Hval Hfuel Hleft) as RT.
  cbv zeta in RT.
  change (z_start (if 1 <=? m then PM.empty N else l2ps s) (if 1 <=? m then 0 else l2state s)
            (if 1 <=? m then 0 else l2r0 s) (if 1 <=? m then 0 else l2r1 s)
            (if 1 <=? m then 0 else l2r2 s) (if 1 <=? m then 0 else l2r3 s)
            (if m =? 3 then hist_empty else l2hist s) (Some usize)) with z0 in RT.
  fold er in RT. fold payload in RT. rewrite app_nil_r in RT.
  destruct RT as [zs [Estart [Hsame [Hfin [Hout [Hhist [Hrin Hused]]]]]]].
  set (zr := lz_run p dict_size false fuel zs) in *. fold csize in Hused.
  pose proof Hsame as [S1 S2 S3 S4 S5 S6 S7 S8 S9 S10 S11]. cbn [with_status zps zstate rep0 rep1 rep2 rep3 zhist zout] in *.
  assert (Hq : (usize - 1) / 65536 < 32) by (apply N.div_lt_upper_bound; lia).
  set (q := (usize - 1) / 65536) in *.
  assert (EU : q * 65536 + ((usize - 1) / 256) mod 256 * 256 + (usize - 1) mod 256 + 1 = usize).
  { unfold q. pose proof (N.div_mod (usize - 1) 256 ltac:(lia)). pose proof (N.div_mod ((usize - 1) / 256) 256 ltac:(lia)).
    assert ((usize - 1) / 256 / 256 = (usize - 1) / 65536) by (rewrite N.div_div by lia; reflexivity).
    pose proof (N.mod_lt (usize - 1) 256 ltac:(lia)). pose proof (N.mod_lt ((usize - 1) / 256) 256 ltac:(lia)). lia. }
  assert (EC : (csize - 1) / 256 * 256 + (csize - 1) mod 256 + 1 = csize).
  { pose proof (N.div_mod (csize - 1) 256 ltac:(lia)). lia. }
  assert (Efirst : firstn (N.to_nat csize) (payload ++ rest) = payload)
    by (unfold csize; rewrite Nat2N.id; apply firstn_app_exact).
  assert (Eskip : skipn (N.to_nat csize) (payload ++ rest) = rest)
    by (unfold csize; rewrite Nat2N.id; apply skipn_app_exact).
  assert (Elen : lenN payload = csize) by reflexivity.
  unfold kl_after, l2_next. fold usize z0 er.
  assert (Eblen : N.of_nat (length (kl_bytes s m pbyte syms p)) = (if 2 <=? m then 6 else 5) + csize).
  { unfold kl_bytes. fold usize z0 er payload. cbv zeta. cbn [length app]. rewrite app_length.
    destruct (2 <=? m); cbn [length]; unfold csize; lia. }
  rewrite Eblen.
  unfold l2_chunk. rewrite Hin. unfold kl_bytes. fold usize z0 er payload csize q. cbv zeta. cbn [app].
  unfold kl_props in Hp.
  clearbody csize. clearbody payload. clearbody er. clearbody z0. clearbody q. clearbody usize.
  assert (m = 0 \/ m = 1 \/ m = 2 \/ m = 3) as [M|[M|[M|M]]] by lia; subst m.
  - (* plain continuation *)
    cbn [N.leb N.eqb N.compare Pos.compare Pos.compare_cont Pos.eqb] in *.
    specialize (Hnp ltac:(lia)). specialize (Hndr ltac:(lia)). injection Hp as Hp'. subst p.
    change (128 + 0 * 32 + q) with (128 + q).
    decide_cmp. rewrite Hndr, Hnp. cbn [negb andb orb].
    replace ((128 + q) mod 32) with q by (symmetry; exact (mod32_off 4 q Hq)).
    rewrite EU, EC. cbn [app]. rewrite Efirst, Eskip, Estart. fold zr.
    rewrite Hfin, Hused, N.eqb_refl.
    rewrite <- S1, <- S2, <- S3, <- S4, <- S5, <- S6, <- S7, <- S8. f_equal. lia.
  - cbn [N.leb N.eqb N.compare Pos.compare Pos.compare_cont Pos.eqb] in *.
    specialize (Hnp ltac:(lia)). specialize (Hndr ltac:(lia)). injection Hp as Hp'. subst p.
    change (128 + 1 * 32 + q) with (160 + q).
    decide_cmp. rewrite Hndr, Hnp. cbn [negb andb orb].
    replace ((160 + q) mod 32) with q by (symmetry; exact (mod32_off 5 q Hq)).
    rewrite EU, EC. cbn [app]. rewrite Efirst, Eskip, Estart. fold zr.
    rewrite Hfin, Hused, N.eqb_refl.
    rewrite <- S1, <- S2, <- S3, <- S4, <- S5, <- S6, <- S7, <- S8. f_equal. lia.
  - cbn [N.leb N.eqb N.compare Pos.compare Pos.compare_cont Pos.eqb] in *.
    specialize (Hndr ltac:(lia)).
    change (128 + 2 * 32 + q) with (192 + q).
    decide_cmp. rewrite Hndr. cbn [negb andb orb].
    replace ((192 + q) mod 32) with q by (symmetry; exact (mod32_off 6 q Hq)).
    rewrite EU, EC. cbn [app]. rewrite Hp. rewrite Efirst, Eskip, Estart. fold zr.
    rewrite Hfin, Hused, N.eqb_refl.
    rewrite <- S1, <- S2, <- S3, <- S4, <- S5, <- S6, <- S7, <- S8. f_equal. lia.
  - cbn [N.leb N.eqb N.compare Pos.compare Pos.compare_cont Pos.eqb] in *.
    change (128 + 3 * 32 + q) with (224 + q).
    decide_cmp. cbn [negb andb orb].
    replace ((224 + q) mod 32) with q by (symmetry; exact (mod32_off 7 q Hq)).
    rewrite EU, EC. cbn [app]. rewrite Hp. rewrite Efirst, Eskip, Estart. fold zr.
    rewrite Hfin, Hused, N.eqb_refl.
    rewrite <- S1, <- S2, <- S3, <- S4, <- S5, <- S6, <- S7, <- S8. f_equal. lia.
Qed.

(** ---------- uncompressed chunks ---------- *)
Definition ku_bytes (dreset : bool) (data : list N) : list N :=
  [if dreset then 1 else 2; (lenN data - 1) / 256; (lenN data - 1) mod 256] ++ data.

Definition ku_after (s : l2) (dreset : bool) (data rest : list N) : l2 :=
  let h := if dreset then hist_empty else l2hist s in
  let r := push_bytes data h (l2out s) in
  l2_next s rest (l2used s + 3 + lenN data) (if dreset then true else need_props s) false
          (l2props s) (l2ps s) (l2state s) (l2r0 s) (l2r1 s) (l2r2 s) (l2r3 s) (fst r) (snd r) Running.

Definition ku_ok (s : l2) (dreset : bool) (data : list N) : Prop :=
  1 <= lenN data <= 65536 /\ (dreset = false -> need_dict_reset s = false).

Lemma l2_chunk_ku s dreset data rest :
  ku_ok s dreset data -> l2in s = ku_bytes dreset data ++ rest ->
  l2_chunk dict_size fuel s = ku_after s dreset data rest.
Proof.
  intros [Hn Hdr] Hin. unfold l2_chunk. rewrite Hin. unfold ku_bytes. cbn [app].
  set (n := lenN data) in *.
  assert (EC : (n - 1) / 256 * 256 + (n - 1) mod 256 + 1 = n).
  { pose proof (N.div_mod (n - 1) 256 ltac:(lia)). lia. }
  assert (Efirst : firstn (N.to_nat n) (data ++ rest) = data)
    by (unfold n, lenN; rewrite Nat2N.id; apply firstn_app_exact).
  assert (Eskip : skipn (N.to_nat n) (data ++ rest) = rest)
    by (unfold n, lenN; rewrite Nat2N.id; apply skipn_app_exact).
  unfold ku_after, l2_next. fold n.
  destruct dreset.
  - cbn [N.eqb N.leb N.ltb N.compare Pos.compare Pos.compare_cont Pos.eqb orb negb andb].
    rewrite EC, Efirst, Eskip. fold n.
    destruct (push_bytes data hist_empty (l2out s)) as [h' o'] eqn:EP. cbn [fst snd].
    rewrite N.eqb_refl. reflexivity.
  - specialize (Hdr eq_refl).
    cbn [N.eqb N.leb N.ltb N.compare Pos.compare Pos.compare_cont Pos.eqb orb negb andb].
    rewrite Hdr. cbn [andb]. rewrite EC, Efirst, Eskip. fold n.
    destruct (push_bytes data (l2hist s) (l2out s)) as [h' o'] eqn:EP. cbn [fst snd].
    rewrite N.eqb_refl. reflexivity.
Qed.

(** ---------- end of the LZMA2 stream ---------- *)
Lemma l2_chunk_end s rest :
  l2in s = 0 :: rest ->
  l2_chunk dict_size fuel s =
  l2_next s rest (l2used s + 1) (need_props s) (need_dict_reset s) (l2props s) (l2ps s) (l2state s)
          (l2r0 s) (l2r1 s) (l2r2 s) (l2r3 s) (l2hist s) (l2out s) Finished.
Proof. intro Hin. unfold l2_chunk. rewrite Hin. reflexivity. Qed.

(** ---------- sequences of chunks ---------- *)
Definition norm (s : l2) : l2 :=
  l2_next s [] 0 (need_props s) (need_dict_reset s) (l2props s) (l2ps s) (l2state s)
          (l2r0 s) (l2r1 s) (l2r2 s) (l2r3 s) (l2hist s) (l2out s) Running.

Definition chunk_ok (s : l2) (c : l2chunk) : Prop :=
  match c with
  | KU dr data => ku_ok s dr data
  | KL m pb syms => match kl_props s m pb with Some p => kl_ok s m pb syms p | None => False end
  end.
Definition chunk_bytes (s : l2) (c : l2chunk) : list N :=
  match c with
  | KU dr data => ku_bytes dr data
  | KL m pb syms => match kl_props s m pb with Some p => kl_bytes s m pb syms p | None => [] end
  end.
Definition chunk_after (s : l2) (c : l2chunk) (rest : list N) : l2 :=
  match c with
  | KU dr data => ku_after s dr data rest
  | KL m pb syms => match kl_props s m pb with Some p => kl_after s m pb syms p rest | None => s end
  end.

Lemma l2_chunk_step s c rest :
  chunk_ok s c -> l2in s = chunk_bytes s c ++ rest -> l2_chunk dict_size fuel s = chunk_after s c rest.
Proof.
  destruct c as [dr data|m pb syms]; cbn [chunk_ok chunk_bytes chunk_after].
  - apply l2_chunk_ku.
  - destruct (kl_props s m pb) as [p|]; [apply l2_chunk_kl|contradiction].
Qed.

Fixpoint chunks_ok (s : l2) (cs : list l2chunk) : Prop :=
  match cs with [] => True | c :: t => chunk_ok s c /\ chunks_ok (norm (chunk_after s c [])) t end.
Fixpoint chunks_bytes (s : l2) (cs : list l2chunk) : list N :=
  match cs with [] => [] | c :: t => chunk_bytes s c ++ chunks_bytes (norm (chunk_after s c [])) t end.
Fixpoint chunks_final (s : l2) (cs : list l2chunk) : l2 :=
  match cs with [] => s | c :: t => chunks_final (norm (chunk_after s c [])) t end.

Lemma chunk_bytes_norm s c : chunk_bytes (norm s) c = chunk_bytes s c.
Proof. destruct c; reflexivity. Qed.
Lemma chunk_ok_norm s c : chunk_ok (norm s) c -> chunk_ok s c.
Proof.
  destruct c as [dr data|m pb syms]; cbn [chunk_ok]; [exact (fun H => H)|].
  change (kl_props (norm s) m pb) with (kl_props s m pb).
  destruct (kl_props s m pb) as [p|]; [|exact (fun H => H)].
  intros [H1 H2 H3 H4 H5 H6 H7 H8 H9 H10]. constructor; assumption.
Qed.
Lemma norm_after s c rest : norm (chunk_after s c rest) = norm (chunk_after (norm s) c []).
Proof.
  destruct c as [dr data|m pb syms]; cbn [chunk_after]; [reflexivity|].
  change (kl_props (norm s) m pb) with (kl_props s m pb).
  destruct (kl_props s m pb) as [p|]; reflexivity.
Qed.

Definition l2step := l2_chunk dict_size fuel.

Lemma chunks_run : forall cs s rest,
  l2status s = Running ->
  chunks_ok (norm s) cs ->
  l2in s = chunks_bytes (norm s) cs ++ rest ->
  exists s', nloop l2_done l2step (length cs) s = s' /\
             l2status s' = Running /\ l2in s' = rest /\
             norm s' = chunks_final (norm s) cs /\
             l2used s' = l2used s + lenN (chunks_bytes (norm s) cs).
Proof.
  induction cs as [|c t IH]; intros s rest Hrun Hok Hin; cbn [chunks_ok chunks_bytes chunks_final length nloop] in *.
  - exists s. split; [reflexivity|]. split; [exact Hrun|]. split; [exact Hin|]. split; [reflexivity|]. unfold lenN. cbn. lia.
  - destruct Hok as [Hc Ht].
    rewrite chunk_bytes_norm in *. rewrite <- app_assoc in Hin.
    pose proof (l2_chunk_step s c _ (chunk_ok_norm s c Hc) Hin) as Estep.
    unfold l2_done at 1. rewrite Hrun. fold l2step in Estep. rewrite Estep.
    set (s1 := chunk_after s c (chunks_bytes (norm (chunk_after (norm s) c [])) t ++ rest)) in *.
    assert (N1 : norm s1 = norm (chunk_after (norm s) c [])) by apply norm_after.
    assert (R1 : l2status s1 = Running /\ l2in s1 = chunks_bytes (norm (chunk_after (norm s) c [])) t ++ rest
                 /\ l2used s1 = l2used s + lenN (chunk_bytes s c)).
    { unfold s1. pose proof (chunk_ok_norm s c Hc) as Hc'.
      destruct c as [dr data|m pb syms]; cbn [chunk_after chunk_bytes chunk_ok] in *.
      - split; [reflexivity|]. split; [reflexivity|]. cbn [ku_after l2_next l2used]. unfold ku_bytes, lenN. cbn [length app]. lia.
      - destruct (kl_props s m pb) as [p|]; [|contradiction].
        split; [reflexivity|]. split; [reflexivity|]. reflexivity. }
    destruct R1 as [Hrun1 [Hin1 Hused1]].
    rewrite <- N1 in Ht, Hin1.
    destruct (IH s1 rest Hrun1 Ht Hin1) as [s' [E [A [B [C D]]]]].
    exists s'. split; [exact E|]. split; [exact A|]. split; [exact B|]. split.
    + rewrite C, N1. reflexivity.
    + rewrite D, Hused1, N1. unfold lenN. rewrite app_length. lia.
Qed.

(** Whole LZMA2 stream: chunks, then the end byte.  The decoder specification
    returns Finished, has rebuilt the concatenated expansions (l2out is kept
    newest first), and has consumed exactly the encoder's bytes. *)
Theorem lzma2_stream_roundtrip cs s rest :
  l2status s = Running ->
  chunks_ok (norm s) cs ->
  l2in s = chunks_bytes (norm s) cs ++ 0 :: rest ->
  (length cs < Pos.to_nat fuel)%nat ->
  let r := l2_run dict_size fuel s in
  l2status r = Finished /\ l2in r = rest /\
  l2out r = l2out (chunks_final (norm s) cs) /\
  l2used r = l2used s + lenN (chunks_bytes (norm s) cs) + 1.
Proof.
  intros Hrun Hok Hin Hfuel.
  destruct (chunks_run cs s (0 :: rest) Hrun Hok Hin) as [s' [E [A [B [C D]]]]].
  cbv zeta. unfold l2_run. rewrite ploop_nloop.
  replace (Pos.to_nat fuel) with (length cs + S (Pos.to_nat fuel - length cs - 1))%nat by lia.
  rewrite nloop_add. fold l2step. rewrite E. cbn [nloop].
  assert (D0 : l2_done s' = false) by (unfold l2_done; rewrite A; reflexivity).
  rewrite D0. unfold l2step. rewrite (l2_chunk_end s' rest B).
  rewrite nloop_done by reflexivity.
  cbn [l2status l2_next l2in l2out l2used].
  split; [reflexivity|]. split; [reflexivity|]. split.
  - rewrite <- C. reflexivity.
  - rewrite D. reflexivity.
Qed.

End Chunk.
