(** .lzma (LZMA_Alone), .lz (lzip) and auto-detection, as one-shot specs.
    From doc/lzma-file-format.txt, the lzip manual's file format section and
    alone_decoder.c / lzip_decoder.c / auto_decoder.c. *)
From XZ Require Import Base Crc Lzma Lzma2 Xz.
Local Open Scope N_scope.

(** raw LZMA1 stream: props, dictionary size, optional known size, EOPM allowed? *)
Definition lzma1_decode (fuel : positive) (p : props) (dict : N) (usize : option N) (allow_eopm : bool)
  (inp : list N) : status * list N * N :=
  match lz_start inp (PM.empty N) 0 0 0 0 0 hist_empty usize with
  | inr e => (e, [], 0)
  | inl z0 =>
    let z := lz_run p (eff_dict dict) allow_eopm fuel z0 in
    (zstatus z, rev_append (zout z) [], rused (zrc z))
  end.

(** picky dictionary-size test of the .lzma auto-detection: 2^n or 2^n + 2^(n-1), or 2^32-1 *)
Definition picky_dict_ok (d : N) : bool :=
  if d =? 4294967295 then true else
  if d =? 0 then false (* 0 - 1 wraps: d' = 2^32-1, +1 wraps to 0 = d ... see lemma *) else
  let x := d - 1 in
  let x := N.lor x (x / 4) in
  let x := N.lor x (x / 8) in
  let x := N.lor x (x / 16) in
  let x := N.lor x (x / 256) in
  let x := N.lor x (x / 65536) in
  (x + 1) mod 4294967296 =? d.

Definition alone_decode (fuel : positive) (picky : bool) (inp : list N) : status * list N * N :=
  match inp with
  | [] => (Truncated, [], 0)
  | pb_ :: r =>
    match lclppb_decode pb_ with
    | None => (FormatError, [], 0)
    | Some p =>
      match take 4 r with
      | None => (Truncated, [], 0)   (* picky check happens when the 4th byte arrives *)
      | Some (db, r2) =>
        let d := le_val db in
        if picky && negb (if d =? 0 then true else picky_dict_ok d) then (FormatError, [], 0) else
        match take 8 r2 with
        | None => (Truncated, [], 0)
        | Some (ub, r3) =>
          let u := le_val ub in
          let known := negb (u =? 18446744073709551615) in
          if picky && known && (274877906944 <=? u) then (FormatError, [], 0) else
          let '(st, out, used) := lzma1_decode fuel p d (if known then Some u else None) true r3 in
          (st, out, used + 13)
        end
      end
    end
  end.

(** ---- lzip ---- *)
Definition LZIP_MAGIC : list N := [0x4C; 0x5A; 0x49; 0x50].
Definition lzip_props : props := {| lc := 3; lp := 0; pb := 2 |}.

Fixpoint match_prefix (magic l : list N) (n : N) : N * bool * bool (* matched count, full match, input ended *) :=
  match magic with
  | [] => (n, true, false)
  | m :: mr => match l with
               | [] => (n, false, true)
               | b :: r => if b =? m then match_prefix mr r (n + 1) else (n, false, false)
               end
  end.

Record lzs := { zin : list N; zused : N; zo : list (list N); zst : status; zfirst : bool }.

Section LZIP.
Variable fuel : positive.
Variable concatenated : bool.

Definition lzip_member (s : lzs) : lzs :=
  let fail st used := {| zin := []; zused := zused s + used; zo := zo s; zst := st; zfirst := zfirst s |} in
  let '(n, full, ended) := match_prefix LZIP_MAGIC (zin s) 0 in
  if negb full then
    if ended then fail (if zfirst s then Truncated else Finished) n
    else fail (if zfirst s then FormatError else Finished) n
  else
  match skipn 4 (zin s) with
  | [] => fail Truncated 4
  | ver :: r =>
    if 1 <? ver then fail OptionsError 5 else
    match r with
    | [] => fail Truncated 5
    | ds :: r2 =>
      let b2log := ds mod 32 in let frac := ds / 32 in
      if (b2log <? 12) || (29 <? b2log) || ((b2log =? 12) && (0 <? frac)) then fail DataError 6 else
      let dict := 2 ^ b2log - frac * 2 ^ (b2log - 4) in
      let '(st, out, used) := lzma1_decode fuel lzip_props dict None true r2 in
      match st with
      | Finished =>
        let r3 := skipn (N.to_nat used) r2 in
        let fsz := if ver =? 0 then 12 else 20 in
        match take fsz r3 with
        | None => {| zin := []; zused := zused s + 6 + used + lenN r3; zo := out :: zo s; zst := Truncated; zfirst := zfirst s |}
        | Some (ft, r4) =>
          let msize := 6 + used + fsz in
          let bad := negb (le_val (firstn 4 ft) =? crc32 out 0)
                     || negb (le_val (firstn 8 (skipn 4 ft)) =? lenN out)
                     || ((0 <? ver) && negb (le_val (skipn 12 ft) =? msize)) in
          {| zin := r4; zused := zused s + msize; zo := out :: zo s;
             zst := if bad then DataError else if concatenated then Running else Finished; zfirst := false |}
        end
      | _ => {| zin := []; zused := zused s + 6 + used; zo := out :: zo s; zst := st; zfirst := zfirst s |}
      end
    end
  end.

Definition lzs_done (s : lzs) : bool := match zst s with Running => false | _ => true end.
Definition lzip_decode (inp : list N) : status * list N * N :=
  let s := ploop lzs_done lzip_member fuel {| zin := inp; zused := 0; zo := []; zst := Running; zfirst := true |} in
  ((match zst s with Running => OutOfFuel | x => x end), concat (rev_append (zo s) []), zused s).
End LZIP.

(** ---- auto-detection (lzma_auto_decoder), whole input given ---- *)
Definition auto_decode (fuel : positive) (concatenated : bool) (inp : list N) : status * list N * N :=
  match inp with
  | [] => (Truncated, [], 0)
  | b :: _ =>
    if b =? 0xFD then
      (if concatenated then xz_decode_concat fuel false inp else xz_decode_single fuel false inp)
    else if b =? 0x4C then
      (* the .lz decoder handles LZMA_CONCATENATED itself (trailing data ends the decoding, it is not an error) *)
      lzip_decode fuel concatenated inp
    else
      let '(st, out, used) := alone_decode fuel true inp in
      match st with
      | Finished => if concatenated && (used <? lenN inp) then (DataError, out, used) else (st, out, used)
      | _ => (st, out, used)
      end
  end.
