(** The output queue of the threaded coders (src/liblzma/common/outqueue.c)
    as a pure structure: workers append to their own buffer in any
    interleaving; the reader takes bytes from the head only and pops it when
    it is finished and fully read. *)
From XZ Require Import Base.
Local Open Scope nat_scope.

Record obuf := { odata : list N; ofin : bool }.
Record outq := { bufs : list obuf; rpos : nat; popped : list (list N); delivered : list N }.
Definition outq0 : outq := {| bufs := []; rpos := 0; popped := []; delivered := [] |}.

(** [Reinit] is lzma_outq_init() on a queue that is in use (a coder re-initialised
    on the same lzma_stream): every buffer is dropped and a new epoch starts. *)
Inductive op := Get | Write (i : nat) (bs : list N) | Finish (i : nat) | Read (n : nat) | Reinit.

Fixpoint upd {A} (l : list A) (i : nat) (f : A -> A) : list A :=
  match l, i with
  | [], _ => []
  | x :: r, O => f x :: r
  | x :: r, S j => x :: upd r j f
  end.

Definition step (q : outq) (o : op) : outq :=
  match o with
  | Get => {| bufs := bufs q ++ [{| odata := []; ofin := false |}]; rpos := rpos q; popped := popped q; delivered := delivered q |}
  | Write i bs =>
      {| bufs := upd (bufs q) i (fun b => if ofin b then b else {| odata := odata b ++ bs; ofin := false |});
         rpos := rpos q; popped := popped q; delivered := delivered q |}
  | Finish i => {| bufs := upd (bufs q) i (fun b => {| odata := odata b; ofin := true |});
                   rpos := rpos q; popped := popped q; delivered := delivered q |}
  | Read n =>
      match bufs q with
      | [] => q
      | h :: t =>
        let avail := skipn (rpos q) (odata h) in
        let got := firstn n avail in
        let rp := rpos q + length got in
        if ofin h && (length (odata h) <=? rp)
        then {| bufs := t; rpos := 0; popped := popped q ++ [odata h]; delivered := delivered q ++ got |}
        else {| bufs := h :: t; rpos := rp; popped := popped q; delivered := delivered q ++ got |}
      end
  | Reinit => outq0
  end.

Definition run (ops : list op) : outq := fold_left step ops outq0.

(** everything that is or was in the queue, in the order the buffers were obtained *)
Definition in_order (q : outq) : list N := concat (popped q) ++ concat (map odata (bufs q)).
Definition head_read (q : outq) : list N := match bufs q with [] => [] | h :: _ => firstn (rpos q) (odata h) end.
