From XZ Require Import Base Outq.
Local Open Scope nat_scope.

Definition inv (q : outq) : Prop :=
  delivered q = concat (popped q) ++ head_read q /\
  match bufs q with [] => rpos q = 0 | h :: _ => rpos q <= length (odata h) end.

Lemma upd_head {A} (l : list A) i f : match upd l i f with [] => l = [] | h :: _ => exists h0 t, l = h0 :: t /\ (h = h0 \/ (i = 0 /\ h = f h0)) end.
Proof.
  destruct l as [|x r]; [reflexivity|]. destruct i; cbn; eauto 6.
Qed.

Lemma firstn_plus {A} (l : list A) : forall a b, firstn (a + b) l = firstn a l ++ firstn b (skipn a l).
Proof.
  induction l as [|x l IH]; intros a b.
  - rewrite !firstn_nil, skipn_nil, firstn_nil. reflexivity.
  - destruct a; cbn [plus firstn skipn app]; [reflexivity|]. rewrite IH. reflexivity.
Qed.
Lemma firstn_len_firstn {A} (X : list A) : forall n, firstn (length (firstn n X)) X = firstn n X.
Proof.
  induction X as [|x X IH]; intro n; [rewrite !firstn_nil; reflexivity|].
  destruct n; cbn [firstn length]; [reflexivity|]. rewrite IH. reflexivity.
Qed.

Lemma step_inv q o : inv q -> inv (step q o).
Proof.
  intros [Hd Hp]. destruct o as [|i bs|i|n|]; unfold step.
  - (* Get *)
    unfold inv, head_read in *. cbn [bufs rpos popped delivered].
    destruct (bufs q) as [|h t]; cbn [app].
    + rewrite Hp. cbn. split; [rewrite Hd; cbn; reflexivity|lia].
    + split; assumption.
  - (* Write: data only grows at the end, what was read stays read *)
    unfold inv, head_read in *. cbn [bufs rpos popped delivered].
    destruct (bufs q) as [|h t]; [cbn; auto|].
    destruct i as [|j]; cbn [upd].
    + destruct (ofin h); [split; assumption|]. cbn [odata].
      split; [|rewrite app_length; lia].
      rewrite Hd. f_equal. rewrite firstn_app. replace (rpos q - length (odata h)) with 0 by lia.
      cbn [firstn]. rewrite app_nil_r. reflexivity.
    + split; assumption.
  - (* Finish *)
    unfold inv, head_read in *. cbn [bufs rpos popped delivered].
    destruct (bufs q) as [|h t]; [cbn; auto|].
    destruct i as [|j]; cbn [upd odata]; split; assumption.
  - (* Read *)
    unfold inv, head_read in *.
    destruct (bufs q) as [|h t] eqn:E; [rewrite E; split; assumption|].
    set (avail := skipn (rpos q) (odata h)). set (got := firstn n avail).
    assert (Hg : firstn (rpos q) (odata h) ++ got = firstn (rpos q + length got) (odata h)).
    { subst got avail. rewrite firstn_plus, firstn_len_firstn. reflexivity. }
    assert (Hl : rpos q + length got <= length (odata h)).
    { subst got avail. rewrite firstn_length, skipn_length. lia. }
    destruct (ofin h && (length (odata h) <=? rpos q + length got)) eqn:C; cbn [bufs rpos popped delivered].
    + apply andb_true_iff in C as [_ C]. apply Nat.leb_le in C.
      split.
      * rewrite Hd, concat_app. cbn [concat]. rewrite app_nil_r, <- !app_assoc. f_equal.
        rewrite Hg. rewrite firstn_all2 by lia.
        destruct t; cbn; rewrite ?app_nil_r; reflexivity.
      * destruct t; [reflexivity|lia].
    + split; [|exact Hl].
      rewrite Hd, <- app_assoc. f_equal. exact Hg.
  - (* Reinit: a fresh queue *)
    unfold inv, head_read, outq0. cbn. auto.
Qed.

Theorem run_inv ops : inv (run ops).
Proof.
  unfold run. assert (G : forall ops q, inv q -> inv (fold_left step ops q)).
  { induction ops0 as [|o r IH]; intros q H; [exact H|]. cbn [fold_left]. apply IH. apply step_inv. exact H. }
  apply G. split; reflexivity.
Qed.

(** Whatever the interleaving of worker writes, finishes and reads: the bytes delivered so far are a
    prefix of the buffers' contents concatenated in the order the buffers were obtained *)
Theorem delivered_is_prefix_in_buffer_order ops :
  exists rest, in_order (run ops) = delivered (run ops) ++ rest.
Proof.
  destruct (run_inv ops) as [Hd Hp]. unfold in_order, head_read in *.
  destruct (bufs (run ops)) as [|h t].
  - exists []. rewrite Hd. cbn. rewrite !app_nil_r. reflexivity.
  - exists (skipn (rpos (run ops)) (odata h) ++ concat (map odata t)).
    rewrite Hd. cbn [map concat]. rewrite <- !app_assoc. f_equal.
    rewrite app_assoc, firstn_skipn. reflexivity.
Qed.

(** and once the queue has drained, exactly everything was delivered, in that order *)
Theorem drained_queue_delivered_everything ops :
  bufs (run ops) = [] -> delivered (run ops) = concat (popped (run ops)).
Proof.
  intro E. destruct (run_inv ops) as [Hd _]. unfold head_read in Hd. rewrite E in Hd. rewrite Hd. apply app_nil_r.
Qed.
