(** History runner for the lzma_code wrapper model, used by the correspondence check through the
    extracted oracle.  Kept apart from C11Lemmas.v: that file re-checks the transition table regenerated
    from the source, and when it fails the oracle must still build so that the failing history can be found. *)
From XZ Require Import Base CodeWrap.
Local Open Scope N_scope.

(** history runner used by the correspondence (events: re-init or call with
    the observed inner result) *)
Inductive event := EvInit (sup : list bool) | EvCall (c : call) (r : inner_res).
Fixpoint hist_run (s : cstate) (evs : list event) : list (list N) :=
  match evs with
  | [] => []
  | EvInit sup :: r => [] :: hist_run (strm_init sup) r
  | EvCall c ir :: r =>
      let o := code_step (fun _ => ir) s c in
      [ret o; din o; dout o; total_in (st o); total_out (st o)] :: hist_run (st o) r
  end.
Definition hist_start : cstate := strm_init [false; false; false; false; false].
