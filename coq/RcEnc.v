(** Range encoder, concrete: a transcription of rc_shift_low / rc_encode /
    rc_flush of rangecoder/range_encoder.h with the C integer widths
    (uint64_t low, uint32_t range, uint8_t cache) written out as explicit
    [mod]s, and the proof that it refines the abstract encoder of RcAbs.v:
    the bytes it writes are exactly the big-endian digits of the abstract
    final low value.  The carry propagation through the pending 0xFF bytes
    is the heart of it (invariants K and M below). *)
From XZ Require Import Base Lzma RcAbs RcDec.
Require Import ZifyBool ZifyN ZifyNat.
Local Open Scope N_scope.

Record enc := { elow : N; ecs : nat; erange : N; ecache : N; eor : list N (* bytes written, latest first *) }.
Definition e0 : enc := {| elow := 0; ecs := 1; erange := 4294967295; ecache := 0; eor := [] |}.   (* rc_reset *)
Definition eout (c : enc) : list N := rev (eor c).

Definition U32 : N := 4294967296.
Definition U64 : N := 18446744073709551616.

Definition shift_low (c : enc) : enc :=
  let lo32 := elow c mod U32 in                 (* (uint32_t)(rc->low) *)
  let hi32 := (elow c / U32) mod U32 in         (* (uint32_t)(rc->low >> 32) *)
  let low' := ((elow c mod 16777216) * 256) mod U64 in   (* (rc->low & 0x00FFFFFF) << RC_SHIFT_BITS *)
  if (lo32 <? 4278190080) || negb (hi32 =? 0) then
    let carry := (elow c / U32) mod 256 in      (* (uint8_t)(rc->low >> 32) *)
    {| elow := low'; ecs := 1; erange := erange c;
       ecache := (elow c / 16777216) mod 256;
       eor := repeat ((255 + carry) mod 256) (ecs c - 1) ++ ((ecache c + carry) mod 256) :: eor c |}
  else
    {| elow := low'; ecs := S (ecs c); erange := erange c; ecache := ecache c; eor := eor c |}.

Definition enorm (c : enc) : enc :=
  if erange c <? TOPV then
    let c1 := shift_low c in
    {| elow := elow c1; ecs := ecs c1; erange := (erange c * 256) mod U32; ecache := ecache c1; eor := eor c1 |}
  else c.

Definition with_lr (c : enc) (l r : N) : enc :=
  {| elow := l; ecs := ecs c; erange := r; ecache := ecache c; eor := eor c |}.

Definition estep (c : enc) (d : decision) : enc :=
  let c := enorm c in
  match d with
  | DBit p false => with_lr c (elow c) (((erange c / 2048) * p) mod U32)
  | DBit p true => let bound := (p * (erange c / 2048)) mod U32 in
                   with_lr c ((elow c + bound) mod U64) ((erange c + U32 - bound) mod U32)
  | DDirect false => with_lr c (elow c) (erange c / 2)
  | DDirect true => let r := erange c / 2 in with_lr c ((elow c + r) mod U64) r
  end.

(** five RC_FLUSH symbols: one normalisation at the loop head, then five shifts *)
Definition eflush (c : enc) : enc :=
  shift_low (shift_low (shift_low (shift_low (shift_low (enorm c))))).

Definition encode (ds : list decision) : list N := eout (eflush (fold_left estep ds e0)).

Lemma rev_repeat_N (x : N) k : rev (repeat x k) = repeat x k.
Proof.
  induction k as [|k IH]; [reflexivity|].
  cbn [repeat rev]. rewrite IH. symmetry. apply repeat_cons.
Qed.

(** ---------- big-endian value of a byte list ---------- *)
Definition val (l : list N) : N := fold_left (fun a b => a * 256 + b) l 0.

Lemma fl_acc m : forall a, fold_left (fun a b => a * 256 + b) m a
                         = a * 256 ^ N.of_nat (length m) + fold_left (fun a b => a * 256 + b) m 0.
Proof.
  induction m as [|b m IH]; intro a; cbn [fold_left length].
  - cbn. lia.
  - rewrite IH. rewrite (IH (0 * 256 + b)). rewrite Nat2N.inj_succ, N.pow_succ_r'. lia.
Qed.

Lemma val_app l m : val (l ++ m) = val l * 256 ^ N.of_nat (length m) + val m.
Proof. unfold val. rewrite fold_left_app. apply fl_acc. Qed.

Lemma val_cons a l : val (a :: l) = a * 256 ^ N.of_nat (length l) + val l.
Proof. change (a :: l) with ([a] ++ l). rewrite val_app. cbn. lia. Qed.

Lemma val_repeat255 k : val (repeat 255 k) = 256 ^ N.of_nat k - 1.
Proof.
  induction k as [|k IH]; [reflexivity|].
  cbn [repeat]. rewrite val_cons, repeat_length, IH, Nat2N.inj_succ, N.pow_succ_r'.
  pose proof (pow256_pos (N.of_nat k)). lia.
Qed.

Lemma val_repeat0 k : val (repeat 0 k) = 0.
Proof.
  induction k as [|k IH]; [reflexivity|].
  cbn [repeat]. rewrite val_cons, IH. lia.
Qed.

Lemma val_lt l : Forall (fun b => b < 256) l -> val l < 256 ^ N.of_nat (length l).
Proof.
  induction 1 as [|a l Ha Hl IH]; [cbn; lia|].
  rewrite val_cons. cbn [length]. rewrite Nat2N.inj_succ, N.pow_succ_r'.
  pose proof (pow256_pos (N.of_nat (length l))). nia.
Qed.

Lemma be_bytes_add n : forall A B, be_bytes n (A * 256 ^ N.of_nat n + B) = be_bytes n B.
Proof.
  induction n as [|n IH]; intros A B; [reflexivity|].
  cbn [be_bytes]. rewrite Nat2N.inj_succ, N.pow_succ_r'.
  replace (A * (256 * 256 ^ N.of_nat n)) with (A * 256 * 256 ^ N.of_nat n) by lia.
  rewrite IH. f_equal.
  rewrite N.div_add_l by (apply N.pow_nonzero; lia).
  rewrite N.add_comm, N.mod_add by lia. reflexivity.
Qed.

Lemma be_bytes_val l : Forall (fun b => b < 256) l -> be_bytes (length l) (val l) = l.
Proof.
  induction 1 as [|a l Ha Hl IH]; [reflexivity|].
  cbn [length be_bytes]. rewrite val_cons, be_bytes_add, IH. f_equal.
  rewrite N.div_add_l by (apply N.pow_nonzero; lia).
  rewrite (N.div_small (val l)) by (apply val_lt; exact Hl).
  rewrite N.add_0_r. apply N.mod_small. exact Ha.
Qed.

(** ---------- the refinement relation ---------- *)
(** pending bytes: the cache byte followed by cs-1 bytes 0xFF *)
Definition pend (c : enc) : N :=
  ecache c * 256 ^ N.of_nat (ecs c - 1) + (256 ^ N.of_nat (ecs c - 1) - 1).

(** [rho] is the width that may still be added to the low value *)
Record rel (c : enc) (L J rho : N) : Prop := {
  r_cs : (1 <= ecs c)%nat;
  r_cache : ecache c < 256;
  r_bytes : Forall (fun b => b < 256) (eor c);
  r_count : N.of_nat (length (eor c)) + N.of_nat (ecs c) = J + 1;
  r_val : L = (val (eout c) * 256 ^ N.of_nat (ecs c) + pend c) * U32 + elow c;
  r_K : pend c * U32 + elow c + rho <= 256 ^ N.of_nat (ecs c) * U32;
  r_M : elow c + rho < 2 * U32;
  r_rho : 0 < rho }.

Lemma rel_weaken c L J rho rho' : rel c L J rho -> 0 < rho' <= rho -> rel c L J rho'.
Proof. intros [] H. constructor; try assumption; lia. Qed.

Lemma rel_e0 : rel e0 0 0 4294967295.
Proof. constructor; cbn; unfold U32; try lia. constructor. Qed.

Lemma shift_low_rel c L J rho :
  rel c L J rho -> rho < TOPV -> rel (shift_low c) (L * 256) (J + 1) (rho * 256).
Proof.
  intros [Hcs Hca Hby Hcnt Hval HK HM Hrho] Hlt.
  unfold shift_low, pend, eout, U32, U64, TOPV in *.
  set (cs1 := (ecs c - 1)%nat) in *.
  assert (Ecs : ecs c = S cs1) by lia.
  pose proof (pow256_pos (N.of_nat cs1)) as HQ.
  assert (EQ : 256 ^ N.of_nat (ecs c) = 256 * 256 ^ N.of_nat cs1).
  { rewrite Ecs, Nat2N.inj_succ, N.pow_succ_r'. reflexivity. }
  rewrite EQ in *.
  set (Q := 256 ^ N.of_nat cs1) in *.
  set (O := val (rev (eor c))) in *.
  set (low := elow c) in *. set (cache := ecache c) in *.
  (* carry is 0 or 1 *)
  assert (Hlow : low < 8589934592) by lia.
  assert (Elow' : (low mod 16777216 * 256) mod 18446744073709551616 = low mod 16777216 * 256).
  { apply N.mod_small. pose proof (N.mod_lt low 16777216 ltac:(lia)). lia. }
  rewrite Elow'.
  assert (Ehi : (low / 4294967296) mod 4294967296 = low / 4294967296).
  { apply N.mod_small. apply N.div_lt_upper_bound; lia. }
  rewrite Ehi.
  assert (Ec8 : (low / 4294967296) mod 256 = low / 4294967296).
  { apply N.mod_small. apply N.div_lt_upper_bound; lia. }
  rewrite Ec8.
  set (carry := low / 4294967296) in *.
  assert (Hcarry : carry <= 1) by (unfold carry; apply N.lt_succ_r; apply N.div_lt_upper_bound; lia).
  pose proof (N.div_mod low 4294967296 ltac:(lia)) as DM. fold carry in DM.
  pose proof (N.mod_lt low 4294967296 ltac:(lia)) as ML.
  set (lo32 := low mod 4294967296) in *.
  (* split low32 into top byte and the rest *)
  assert (E24 : low mod 16777216 = lo32 mod 16777216).
  { unfold lo32. rewrite <- (N.mod_mod low 16777216) at 1 by lia.
    change 4294967296 with (16777216 * 256). rewrite N.mod_mul_r by lia.
    rewrite N.mul_comm, N.mod_add by lia. rewrite N.mod_mod by lia. reflexivity. }
  assert (Etop : (low / 16777216) mod 256 = lo32 / 16777216).
  { unfold lo32. change 4294967296 with (16777216 * 256). rewrite N.mod_mul_r by lia.
    rewrite N.mul_comm, N.div_add by lia.
    rewrite (N.div_small (low mod 16777216)) by (apply N.mod_lt; lia). reflexivity. }
  pose proof (N.div_mod lo32 16777216 ltac:(lia)) as DM2.
  pose proof (N.mod_lt lo32 16777216 ltac:(lia)) as ML2.
  destruct ((lo32 <? 4278190080) || negb (carry =? 0)) eqn:Eemit.
  - (* the cache byte and the pending 0xFF bytes are written, plus carry *)
    assert (Hsum : (cache + carry) * Q < 256 * Q).
    { assert (carry = 0 \/ carry = 1) as [C|C] by lia; rewrite C in *; lia. }
    assert (Hc1 : cache + carry < 256) by (apply (N.mul_lt_mono_pos_r Q); [exact HQ|exact Hsum]).
    assert (Eb0 : (cache + carry) mod 256 = cache + carry) by (apply N.mod_small; exact Hc1).
    set (x := (255 + carry) mod 256).
    assert (Hx : x < 256) by (apply N.mod_lt; lia).
    assert (Vx : val (repeat x cs1) + carry * Q = Q - 1 + carry).
    { assert (carry = 0 \/ carry = 1) as [C|C] by lia; unfold x; rewrite C.
      - change ((255 + 0) mod 256) with 255. rewrite val_repeat255. fold Q. clear - HQ. lia.
      - change ((255 + 1) mod 256) with 0. rewrite val_repeat0. clear. lia. }
    constructor; unfold eout, pend, U32; cbn [elow ecs erange ecache eor];
      change (N.of_nat (1 - 1)) with 0; change (N.of_nat 1) with 1; rewrite ?N.pow_0_r, ?N.pow_1_r.
    + clear. lia.
    + rewrite Etop. apply N.div_lt_upper_bound; [clear; lia|clear - ML; lia].
    + apply Forall_app. split.
      * apply Forall_forall. intros y Hy. apply repeat_spec in Hy. subst y. exact Hx.
      * constructor; [rewrite Eb0; exact Hc1|exact Hby].
    + rewrite app_length, repeat_length. cbn [length]. clear - Hcnt Ecs. lia.
    + rewrite rev_app_distr. cbn [rev]. rewrite <- app_assoc. cbn [app].
      rewrite rev_repeat_N, val_app. cbn [length]. rewrite repeat_length, val_cons, repeat_length.
      fold O. fold Q. rewrite Eb0, Etop, E24.
      replace (256 ^ N.of_nat (S cs1)) with (256 * Q) by (rewrite Nat2N.inj_succ, N.pow_succ_r'; reflexivity).
      clearbody O Q x lo32 carry low cache. clear - Hval Vx DM DM2 HQ. lia.
    + rewrite Etop, E24.
      assert (lo32 + rho <= 4294967296).
      { apply orb_true_iff in Eemit. destruct Eemit as [E|E].
        - apply N.ltb_lt in E. assert (carry = 0 \/ carry = 1) as [C|C] by (clear - Hcarry; lia); clear - E C DM HM Hlt; lia.
        - assert (carry = 1) by (clear - E Hcarry; lia). clear - H DM HM. lia. }
      clear - H DM2. lia.
    + rewrite E24. clear - ML2 Hlt. lia.
    + clear - Hrho. lia.
  - (* one more pending 0xFF byte *)
    apply orb_false_iff in Eemit. destruct Eemit as [E1 E2].
    apply N.ltb_ge in E1. assert (C : carry = 0) by lia.
    assert (Etopv : lo32 / 16777216 = 255).
    { symmetry. apply N.div_unique with (r := lo32 - 4278190080); clear - E1 ML; lia. }
    constructor; unfold eout, pend, U32; cbn [elow ecs erange ecache eor];
      replace (S (ecs c) - 1)%nat with (ecs c) by (clear; lia);
      replace (256 ^ N.of_nat (S (ecs c))) with (256 * (256 * Q)) by (rewrite Nat2N.inj_succ, N.pow_succ_r', EQ; reflexivity);
      rewrite ?EQ, ?E24.
    + clear. lia.
    + exact Hca.
    + exact Hby.
    + clear - Hcnt. lia.
    + fold O. clearbody O Q lo32 carry low cache. clear - Hval DM DM2 HQ C Etopv. lia.
    + clearbody O Q lo32 carry low cache. clear - HK DM DM2 HQ C Etopv. lia.
    + clear - ML2 Hlt. lia.
    + clear - Hrho. lia.
Qed.

Lemma rel_ext c c' L J rho :
  rel c L J rho -> elow c' = elow c -> ecs c' = ecs c -> ecache c' = ecache c -> eor c' = eor c ->
  rel c' L J rho.
Proof.
  intros [] E1 E2 E3 E4. constructor; unfold eout, pend in *; rewrite ?E1, ?E2, ?E3, ?E4; assumption.
Qed.

Lemma rel_add c L J rho b r' :
  rel c L J rho -> b < rho -> rel (with_lr c (elow c + b) r') (L + b) J (rho - b).
Proof.
  intros [] Hb. constructor; unfold eout, pend, with_lr in *; cbn [elow ecs erange ecache eor]; try assumption; lia.
Qed.

(** the concrete encoder state refines the abstract one *)
Definition Rel (c : enc) (s : astate) : Prop := rel c (aL s) (aJ s) (aR s) /\ erange c = aR s.

Lemma Rel_e0 : Rel e0 a0.
Proof. split; [exact rel_e0|reflexivity]. Qed.

Lemma enorm_Rel c s : rgood s -> Rel c s -> Rel (enorm c) (anorm s).
Proof.
  intros Hg [Hr He]. unfold enorm, anorm. rewrite He.
  destruct (aR s <? TOPV) eqn:E; [|split; assumption].
  apply N.ltb_lt in E. cbn [aL aR aJ]. split.
  - eapply rel_ext; [apply (shift_low_rel c _ _ _ Hr E)|reflexivity..].
  - cbn [erange aR]. unfold U32, TOPV in *. apply N.mod_small. lia.
Qed.

Lemma estep_Rel c s d : rgood s -> dec_ok d -> Rel c s -> Rel (estep c d) (astep s d).
Proof.
  intros Hg Hd HR. pose proof (enorm_Rel c s Hg HR) as [Hr He].
  pose proof (anorm_range s Hg) as A. unfold estep, astep.
  set (c1 := enorm c) in *. set (t := anorm s) in *. rewrite He.
  assert (HM : elow c1 + aR t < 2 * U32) by (destruct Hr; assumption).
  unfold TOPV, R32, U32, U64 in *.
  assert (8192 <= aR t / 2048) by (apply N.div_le_lower_bound; lia).
  assert (aR t / 2048 < 2097152) by (apply N.div_lt_upper_bound; lia).
  pose proof (N.div_mod (aR t) 2048 ltac:(lia)) as DM. pose proof (N.mod_lt (aR t) 2048 ltac:(lia)) as ML.
  destruct d as [p [|]|[|]]; cbn [aL aR aJ]; cbn in Hd; unfold prob_ok in *.
  - (* bit 1 *)
    set (bound := aR t / 2048 * p).
    assert (Hb : bound < aR t) by (unfold bound; nia).
    rewrite (N.mul_comm p). fold bound.
    rewrite (N.mod_small bound) by lia.
    rewrite (N.mod_small (elow c1 + bound)) by lia.
    replace ((aR t + 4294967296 - bound) mod 4294967296) with (aR t - bound).
    2:{ replace (aR t + 4294967296 - bound) with (aR t - bound + 1 * 4294967296) by lia.
        rewrite N.mod_add by lia. symmetry. apply N.mod_small. lia. }
    split; [|reflexivity]. apply rel_add; assumption.
  - (* bit 0 *)
    set (bound := aR t / 2048 * p).
    assert (Hb : 0 < bound <= aR t) by (unfold bound; nia).
    rewrite (N.mod_small bound) by lia.
    split; [|reflexivity].
    eapply rel_ext; [apply (rel_weaken c1 _ _ _ bound Hr Hb)|reflexivity..].
  - (* direct 1 *)
    pose proof (N.div_mod (aR t) 2 ltac:(lia)). pose proof (N.mod_lt (aR t) 2 ltac:(lia)).
    rewrite (N.mod_small (elow c1 + aR t / 2)) by lia.
    split; [|reflexivity].
    assert (Hr2 : rel (with_lr c1 (elow c1 + aR t / 2) (aR t / 2)) (aL t + aR t / 2) (aJ t) (aR t - aR t / 2))
      by (apply rel_add; [assumption|lia]).
    apply (rel_weaken _ _ _ _ (aR t / 2) Hr2). lia.
  - pose proof (N.div_mod (aR t) 2 ltac:(lia)). pose proof (N.mod_lt (aR t) 2 ltac:(lia)).
    split; [|reflexivity].
    eapply rel_ext; [apply (rel_weaken c1 _ _ _ (aR t / 2) Hr)|reflexivity..]. lia.
Qed.

Lemma run_Rel ds : forall c s, rgood s -> Forall dec_ok ds -> Rel c s ->
  Rel (fold_left estep ds c) (arun s ds) /\ rgood (arun s ds).
Proof.
  induction ds as [|d ds IH]; intros c s Hg Hok HR; cbn [fold_left arun].
  - split; assumption.
  - inversion Hok as [|? ? Hd Hrest]; subst.
    apply IH; [apply astep_rgood; assumption|exact Hrest|apply estep_Rel; assumption].
Qed.

(** ---------- the flush ---------- *)
Lemma elow_shift c : elow (shift_low c) = ((elow c mod 16777216) * 256) mod U64.
Proof. unfold shift_low. destruct (_ || _); reflexivity. Qed.

Lemma four_shifts_zero x :
  let g := fun y => ((y mod 16777216) * 256) mod U64 in g (g (g (g x))) = 0.
Proof.
  cbv zeta. unfold U64.
  assert (G : forall y, (y mod 16777216 * 256) mod 18446744073709551616 = y mod 16777216 * 256).
  { intro y. apply N.mod_small. pose proof (N.mod_lt y 16777216 ltac:(lia)). lia. }
  rewrite !G. clear G.
  set (a := x mod 16777216). clearbody a.
  pose proof (N.div_mod (a * 256) 16777216 ltac:(lia)) as D1.
  pose proof (N.mod_lt (a * 256) 16777216 ltac:(lia)) as L1.
  set (m1 := (a * 256) mod 16777216) in *. set (q1 := a * 256 / 16777216) in *. clearbody m1 q1.
  pose proof (N.div_mod (m1 * 256) 16777216 ltac:(lia)) as D2.
  pose proof (N.mod_lt (m1 * 256) 16777216 ltac:(lia)) as L2.
  set (m2 := (m1 * 256) mod 16777216) in *. set (q2 := m1 * 256 / 16777216) in *. clearbody m2 q2.
  pose proof (N.div_mod (m2 * 256) 16777216 ltac:(lia)) as D3.
  pose proof (N.mod_lt (m2 * 256) 16777216 ltac:(lia)) as L3.
  set (m3 := (m2 * 256) mod 16777216) in *. set (q3 := m2 * 256 / 16777216) in *. clearbody m3 q3.
  lia.
Qed.

Theorem encode_is_final_low ds :
  Forall dec_ok ds ->
  let f := afinal ds in encode ds = be_bytes (N.to_nat (aJ f) + 5) (aL f).
Proof.
  intros Hok f. unfold encode, eflush.
  destruct (run_Rel ds e0 a0 a0_good Hok Rel_e0) as [HR Hg].
  set (c := fold_left estep ds e0) in *.
  pose proof (enorm_Rel c _ Hg HR) as [Hr _]. fold (afinal ds) in Hr. fold f in Hr.
  set (c0 := enorm c) in *.
  pose proof (anorm_range _ Hg) as A. fold (afinal ds) in A. fold f in A. unfold TOPV in A.
  assert (W : forall c L J rho, rel c L J rho -> rel (shift_low c) (L * 256) (J + 1) 1).
  { intros c' L J rho H. apply (rel_weaken _ _ _ 256 1); [|lia].
    apply (shift_low_rel c' L J 1); [apply (rel_weaken _ _ _ _ 1 H); destruct H; lia|unfold TOPV; lia]. }
  pose proof (W _ _ _ _ Hr) as H1. pose proof (W _ _ _ _ H1) as H2. pose proof (W _ _ _ _ H2) as H3.
  pose proof (W _ _ _ _ H3) as H4.
  set (c4 := shift_low (shift_low (shift_low (shift_low c0)))) in *.
  assert (Z4 : elow c4 = 0).
  { unfold c4. rewrite !elow_shift. apply four_shifts_zero. }
  assert (E5 : shift_low c4 = {| elow := 0; ecs := 1; erange := erange c4; ecache := 0;
                                 eor := repeat 255 (ecs c4 - 1) ++ ecache c4 mod 256 :: eor c4 |}).
  { unfold shift_low. rewrite Z4. cbn. rewrite N.add_0_r. reflexivity. }
  pose proof (W _ _ _ _ H4) as H5. rewrite E5 in *.
  set (c5 := {| elow := 0; ecs := 1; erange := erange c4; ecache := 0;
                eor := repeat 255 (ecs c4 - 1) ++ ecache c4 mod 256 :: eor c4 |}) in *.
  destruct H5 as [_ _ Hby Hcnt Hval _ _ _].
  unfold pend, U32 in Hval. change (ecs c5) with 1%nat in *. change (ecache c5) with 0 in Hval. change (elow c5) with 0 in Hval.
  change (N.of_nat (1 - 1)) with 0 in Hval. change (N.of_nat 1) with 1 in *. rewrite N.pow_0_r, N.pow_1_r in Hval.
  assert (V : val (eout c5) = aL f) by lia.
  assert (Ln : length (eout c5) = (N.to_nat (aJ f) + 5)%nat) by (unfold eout; rewrite rev_length; lia).
  rewrite <- V, <- Ln. symmetry. apply be_bytes_val. unfold eout. apply Forall_rev. exact Hby.
Qed.
