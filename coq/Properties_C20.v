(** C20 — xzgrep/xzdiff: names are data; exit status follows grep.
    PARTIAL: proved are (1) the quoting used before eval — every string,
    whatever it contains, parses back as exactly one shell word equal to
    itself with no unquoted metacharacter left — and (2) the exit-status
    accumulation rule, both on a model whose source text is checked to be
    identical to the current script on every run.  That the output equals
    grep's / diff's output on the decompressed data is decided by
    differential runs with hostile names only. *)
From XZ Require Import Base ShQuote ShQuoteProofs C20Lemmas.
From XZ.Gen Require Import Scripts.
Local Open Scope N_scope.

Theorem modelled_script_text_is_current :
  xzgrep_escape_program = expected_escape_program /\ xzgrep_status_block = expected_status_block.
Proof. exact script_text_is_the_modelled_one. Qed.
Print Assumptions modelled_script_text_is_current.

Theorem quoted_string_is_one_literal_word : forall s, parse (quote s) = (Some [s], false).
Proof. exact quote_roundtrip. Qed.
Print Assumptions quoted_string_is_one_literal_word.

Theorem exit_status_rule : forall l,
  let res := final_res l in
  (2 <= res <-> existsb is_err l = true) /\
  (existsb is_err l = false -> res = if existsb is_match l then 0 else 1).
Proof. exact status_rule. Qed.
Print Assumptions exit_status_rule.

(** non-vacuity: a hostile name *)
Example hostile_name :
  parse (quote [36; 40; 116; 111; 117; 99; 104; 32; 120; 41; 39; 59; 10; 96; 105; 100; 96; 10]) =
  (Some [[36; 40; 116; 111; 117; 99; 104; 32; 120; 41; 39; 59; 10; 96; 105; 100; 96; 10]], false)
  /\ final_res [(2, 0); (0, 0)] = 2 /\ final_res [(0, 1); (0, 0)] = 2 /\ final_res [(1, 0); (0, 0)] = 0.
Proof. vm_compute. repeat split; reflexivity. Qed.
