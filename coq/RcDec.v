(** Range decoder follows the abstract encoder (RcAbs.v): fed the big-endian
    bytes of the encoder's final low value, the decoder of Lzma.v (the
    model of rc_read_init / rc_normalize / rc_bit / rc_direct in
    range_decoder.h) returns exactly the encoded decisions, whatever the
    probabilities are (as long as they stay inside the range the adaptive
    update keeps them in) and whatever program chooses them from the bits
    decoded so far. *)
From XZ Require Import Base Lzma RcAbs.
Require Import ZifyBool ZifyN.
Local Open Scope N_scope.

(** [n] big-endian base-256 digits of [V] (most significant first) *)
Fixpoint be_bytes (n : nat) (V : N) : list N :=
  match n with O => [] | S m => (V / 256 ^ N.of_nat m) mod 256 :: be_bytes m V end.

Lemma be_bytes_length n V : length (be_bytes n V) = n.
Proof. induction n as [|n IH]; cbn [be_bytes length]; congruence. Qed.

Lemma be_bytes_byte n V : Forall (fun b => b < 256) (be_bytes n V).
Proof.
  induction n as [|n IH]; cbn [be_bytes]; constructor; [|exact IH].
  apply N.mod_lt. lia.
Qed.

Lemma pow256_pos n : 0 < 256 ^ n.
Proof. apply N.neq_0_lt_0. apply N.pow_nonzero. lia. Qed.

Lemma div_pow_succ V n : V / 256 ^ N.succ n = V / 256 ^ n / 256.
Proof. rewrite N.pow_succ_r', N.mul_comm. rewrite N.div_div; [reflexivity|apply N.pow_nonzero; lia|lia]. Qed.

(** the value the decoder has consumed so far, relative to the final state *)
Definition seen (f s : astate) : N := aL f / 256 ^ (aJ f - aJ s).

Lemma seen_bounds f s : 0 < aR f -> inside s f -> aL s <= seen f s < aL s + aR s.
Proof.
  unfold inside, seen. intros Hr [HJ [Hlo Hhi]].
  pose proof (pow256_pos (aJ f - aJ s)) as HP. set (P := 256 ^ (aJ f - aJ s)) in *.
  split.
  - apply N.div_le_lower_bound; lia.
  - apply N.div_lt_upper_bound; lia.
Qed.

Section Sync.
Variable f : astate.       (* the encoder's final state *)
Variable rest : list N.    (* whatever follows the range-coded bytes *)
Hypothesis Rf_pos : 0 < aR f.

Record sync (s : astate) (r : rc) : Prop := {
  sy_range : rrange r = aR s;
  sy_code : rcode r = seen f s - aL s;
  sy_in : rin r = be_bytes (N.to_nat (aJ f - aJ s)) (aL f) ++ rest;
  sy_used : rused r = 5 + aJ s;
  sy_fail : rfail r = false }.

Lemma sync_normalize s r :
  rgood s -> inside (anorm s) f -> sync s r -> sync (anorm s) (rc_normalize r).
Proof.
  intros Hg Hin [Hr Hc Hi Hu Hf].
  pose proof (inside_trans _ _ _ (anorm_inside s) Hin) as Hin0.
  pose proof (seen_bounds f s Rf_pos Hin0) as B0.
  pose proof (seen_bounds f _ Rf_pos Hin) as B1.
  unfold rc_normalize, anorm in *. rewrite Hr. change TOP with TOPV.
  destruct (aR s <? TOPV) eqn:E; [|constructor; assumption].
  apply N.ltb_lt in E.
  destruct Hin as [HJ _]. cbn [aL aR aJ] in *.
  assert (Em : N.to_nat (aJ f - aJ s) = S (N.to_nat (aJ f - (aJ s + 1)))) by lia.
  rewrite Em in Hi. cbn [be_bytes app] in Hi. rewrite Hi.
  rewrite N2Nat.id in *.
  unfold seen in *. cbn [aJ] in *.
  set (X1 := aL f / 256 ^ (aJ f - (aJ s + 1))) in *.
  assert (EX : aL f / 256 ^ (aJ f - aJ s) = X1 / 256).
  { replace (aJ f - aJ s) with (N.succ (aJ f - (aJ s + 1))) by lia. apply div_pow_succ. }
  rewrite EX in *.
  pose proof (N.div_mod X1 256 ltac:(lia)) as DM.
  pose proof (N.mod_lt X1 256 ltac:(lia)) as ML.
  unfold rgood, R32, TOPV in *.
  constructor; cbn [rrange rcode rin rused rfail aL aR aJ].
  - lia.
  - unfold seen. cbn [aL aR aJ]. fold X1. rewrite Hc. rewrite N.mod_small; lia.
  - reflexivity.
  - lia.
  - exact Hf.
Qed.

Lemma sync_bit s r p b :
  rgood s -> prob_ok p -> inside (astep s (DBit p b)) f -> sync s r ->
  exists r', rc_decode_bit r p = (b, r') /\ sync (astep s (DBit p b)) r'.
Proof.
  intros Hg Hp Hin Hs.
  pose proof (astep_inside_norm s (DBit p b) Hg Hp) as Hn.
  pose proof (inside_trans _ _ _ Hn Hin) as Hin1.
  pose proof (sync_normalize s r Hg Hin1 Hs) as [Hr Hc Hi Hu Hf].
  pose proof (seen_bounds f _ Rf_pos Hin1) as B1.
  pose proof (seen_bounds f _ Rf_pos Hin) as B2.
  unfold rc_decode_bit. set (r1 := rc_normalize r) in *.
  unfold seen in *. rewrite astep_aJ in B2.
  unfold astep in *. set (t := anorm s) in *.
  change BITMODEL_TOTAL with 2048. rewrite Hr, Hc.
  set (X := aL f / 256 ^ (aJ f - aJ t)) in *.
  destruct b; cbn [aL aR aJ] in *.
  - (* encoded a one: the code is not below the bound *)
    destruct (X - aL t <? aR t / 2048 * p) eqn:E.
    + apply N.ltb_lt in E. lia.
    + eexists; split; [reflexivity|].
      constructor; cbn [rrange rcode rin rused rfail aL aR aJ]; unfold seen; cbn [aJ]; fold X; try assumption; lia.
  - destruct (X - aL t <? aR t / 2048 * p) eqn:E.
    + eexists; split; [reflexivity|].
      constructor; cbn [rrange rcode rin rused rfail aL aR aJ]; unfold seen; cbn [aJ]; fold X; try assumption; lia.
    + apply N.ltb_ge in E. lia.
Qed.

Lemma sync_direct s r b :
  rgood s -> inside (astep s (DDirect b)) f -> sync s r ->
  exists r', rc_direct1 r = (b, r') /\ sync (astep s (DDirect b)) r'.
Proof.
  intros Hg Hin Hs.
  pose proof (astep_inside_norm s (DDirect b) Hg I) as Hn.
  pose proof (inside_trans _ _ _ Hn Hin) as Hin1.
  pose proof (sync_normalize s r Hg Hin1 Hs) as [Hr Hc Hi Hu Hf].
  pose proof (seen_bounds f _ Rf_pos Hin1) as B1.
  pose proof (seen_bounds f _ Rf_pos Hin) as B2.
  unfold rc_direct1. set (r1 := rc_normalize r) in *.
  unfold seen in *. rewrite astep_aJ in B2.
  unfold astep in *. set (t := anorm s) in *.
  rewrite Hr, Hc.
  set (X := aL f / 256 ^ (aJ f - aJ t)) in *.
  destruct b; cbn [aL aR aJ] in *.
  - destruct (X - aL t <? aR t / 2) eqn:E.
    + apply N.ltb_lt in E. lia.
    + eexists; split; [reflexivity|].
      constructor; cbn [rrange rcode rin rused rfail aL aR aJ]; unfold seen; cbn [aJ]; fold X; try assumption; lia.
  - destruct (X - aL t <? aR t / 2) eqn:E.
    + eexists; split; [reflexivity|].
      constructor; cbn [rrange rcode rin rused rfail aL aR aJ]; unfold seen; cbn [aJ]; fold X; try assumption; lia.
    + apply N.ltb_ge in E. lia.
Qed.

(** rc_read_init: five bytes, the first one zero *)
Lemma sync_init :
  inside a0 f ->
  exists r0, rc_init (be_bytes (N.to_nat (aJ f) + 5) (aL f) ++ rest) = Some r0 /\ sync a0 r0.
Proof.
  intros Hin. pose proof (seen_bounds f a0 Rf_pos Hin) as B.
  destruct Hin as [_ [_ Hhi]]. unfold seen in B. cbn [a0 aL aR aJ] in *. rewrite N.sub_0_r in *.
  set (n := N.to_nat (aJ f)). assert (En : N.of_nat n = aJ f) by (unfold n; lia).
  replace (n + 5)%nat with (S (S (S (S (S n))))) by lia.
  cbn [be_bytes app]. rewrite !Nat2N.inj_succ, !div_pow_succ, En.
  set (X := aL f / 256 ^ aJ f) in *.
  assert (E0 : (X / 256 / 256 / 256 / 256) mod 256 = 0).
  { rewrite N.mod_small.
    - rewrite !N.div_div by lia. apply N.div_small. lia.
    - rewrite !N.div_div by lia. apply N.div_lt_upper_bound; lia. }
  unfold rc_init. rewrite E0. cbn [N.eqb].
  eexists; split; [reflexivity|].
  constructor; cbn [rrange rcode rin rused rfail a0 aL aR aJ]; unfold seen; cbn [a0 aJ aL];
    rewrite ?N.sub_0_r; fold X; fold n; try reflexivity.
  assert (X / 256 / 256 / 256 < 256) by (rewrite !N.div_div by lia; apply N.div_lt_upper_bound; lia).
  rewrite (N.mod_small (X / 256 / 256 / 256)) by assumption.
  pose proof (N.div_mod X 256 ltac:(lia)).
  pose proof (N.div_mod (X / 256) 256 ltac:(lia)).
  pose proof (N.div_mod (X / 256 / 256) 256 ltac:(lia)).
  lia.
Qed.

End Sync.

(** ---------- programs: which probability comes next is a function of the bits so far ---------- *)
Inductive kind := KBit (p : N) | KDirect.
Definition mk (k : kind) (b : bool) : decision := match k with KBit p => DBit p b | KDirect => DDirect b end.
Definition dec1 (r : rc) (k : kind) : bool * rc :=
  match k with KBit p => rc_decode_bit r p | KDirect => rc_direct1 r end.

(** history is kept most recent first *)
Fixpoint enc_trace (strat : list bool -> kind) (hist : list bool) (bs : list bool) : list decision :=
  match bs with
  | [] => []
  | b :: bs' => mk (strat hist) b :: enc_trace strat (b :: hist) bs'
  end.

Fixpoint dec_run (strat : list bool -> kind) (hist : list bool) (n : nat) (r : rc) : list bool * rc :=
  match n with
  | O => ([], r)
  | S n' => let '(b, r1) := dec1 r (strat hist) in
            let '(bs, r2) := dec_run strat (b :: hist) n' r1 in (b :: bs, r2)
  end.

Lemma sync_run f rest strat :
  0 < aR f ->
  forall bs hist s r,
    rgood s -> Forall dec_ok (enc_trace strat hist bs) ->
    inside (arun s (enc_trace strat hist bs)) f -> sync f rest s r ->
    exists r', dec_run strat hist (length bs) r = (bs, r') /\
               sync f rest (arun s (enc_trace strat hist bs)) r'.
Proof.
  intros Rf. induction bs as [|b bs IH]; intros hist s r Hg Hok Hin Hs; cbn [enc_trace length dec_run arun fold_left] in *.
  - eexists; split; [reflexivity|exact Hs].
  - inversion Hok as [|? ? Hd Hrest]; subst.
    set (d := mk (strat hist) b) in *.
    pose proof (astep_rgood s d Hg Hd) as Hg1.
    destruct (arun_good (enc_trace strat (b :: hist) bs) (astep s d) Hg1 Hrest) as [_ Hin1].
    pose proof (inside_trans _ _ _ Hin1 Hin) as Hind.
    assert (exists r1, dec1 r (strat hist) = (b, r1) /\ sync f rest (astep s d) r1) as [r1 [E1 S1]].
    { unfold d in *. destruct (strat hist) as [p|]; cbn [mk dec1] in *.
      - apply sync_bit; assumption.
      - apply sync_direct; assumption. }
    rewrite E1.
    destruct (IH (b :: hist) (astep s d) r1 Hg1 Hrest Hin S1) as [r' [E2 S2]].
    rewrite E2. eexists; split; [reflexivity|exact S2].
Qed.

(** The decoder, fed the encoder's bytes followed by anything, returns the
    encoded bits, has consumed 5 + (number of normalisations) bytes, never
    ran out of input, and after the closing normalisation its code is zero
    (what rc_is_finished tests). *)
Theorem rc_decode_encoded strat bs rest :
  let ds := enc_trace strat [] bs in
  let f := afinal ds in
  Forall dec_ok ds ->
  exists r0 r',
    rc_init (be_bytes (N.to_nat (aJ f) + 5) (aL f) ++ rest) = Some r0 /\
    dec_run strat [] (length bs) r0 = (bs, r') /\
    rfail r' = false /\ rused r' = 5 + aJ (arun a0 ds) /\
    let rz := rc_normalize r' in
    rcode rz = 0 /\ rin rz = rest /\ rfail rz = false /\ rused rz = 5 + aJ f.
Proof.
  intros ds f Hok.
  destruct (afinal_bound ds Hok) as [_ HR]. fold f in HR. cbv zeta in HR.
  assert (Rf : 0 < aR f) by (unfold TOPV in HR; lia).
  destruct (arun_good ds a0 a0_good Hok) as [Hg Hin].
  pose proof (anorm_inside (arun a0 ds)) as Hn. fold (afinal ds) in Hn. fold f in Hn.
  pose proof (inside_trans _ _ _ Hin Hn) as Hin0.
  destruct (sync_init f rest Rf Hin0) as [r0 [E0 S0]].
  destruct (sync_run f rest strat Rf bs [] a0 r0 a0_good Hok Hn S0) as [r' [E1 S1]].
  exists r0, r'. split; [exact E0|]. split; [exact E1|].
  destruct S1 as [? ? ? Hu Hf]. split; [exact Hf|]. split; [exact Hu|].
  assert (S2 : sync f rest f (rc_normalize r')).
  { apply (sync_normalize f rest Rf (arun a0 ds) r' Hg).
    - apply inside_refl.
    - constructor; assumption. }
  destruct S2 as [_ Hc Hi Hu2 Hf2]. cbv zeta.
  unfold seen in Hc. rewrite N.sub_diag in Hc, Hi. cbn in Hc, Hi.
  rewrite N.div_1_r in Hc. repeat split; try assumption; lia.
Qed.

(** the adaptive update keeps probabilities inside the range the bounds above need *)
Lemma prob_update_ok p b : prob_ok p -> prob_ok (prob_update p b).
Proof.
  unfold prob_ok, prob_update. change BITMODEL_TOTAL with 2048. intros H.
  destruct b.
  - pose proof (N.div_mod p 32 ltac:(lia)). pose proof (N.mod_lt p 32 ltac:(lia)). lia.
  - pose proof (N.div_mod (2048 - p) 32 ltac:(lia)). pose proof (N.mod_lt (2048 - p) 32 ltac:(lia)). lia.
Qed.

Lemma prob_init_ok : prob_ok PROB_INIT.
Proof. unfold prob_ok, PROB_INIT. lia. Qed.
