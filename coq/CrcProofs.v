(** Proofs about Crc.v: linearity of the LFSR, table update = bitwise
    definition, chaining (piecewise = whole). *)
From XZ Require Import Base Crc.
Local Open Scope N_scope.

Section P.
Variable poly : N.
Notation step := (crc_step poly).
Notation steps := (steps poly).

Lemma odd_lxor a b : N.odd (N.lxor a b) = xorb (N.odd a) (N.odd b).
Proof. rewrite <- !N.bit0_odd. apply N.lxor_spec. Qed.

Lemma step_lxor a b : step (N.lxor a b) = N.lxor (step a) (step b).
Proof.
  unfold crc_step. rewrite odd_lxor, N.shiftr_lxor.
  destruct (N.odd a), (N.odd b); cbn [xorb];
    apply N.bits_inj; intro i; rewrite ?N.lxor_spec;
    destruct (N.testbit (N.shiftr a 1) i), (N.testbit (N.shiftr b 1) i), (N.testbit poly i); reflexivity.
Qed.

Lemma step_0 : step 0 = 0.
Proof. reflexivity. Qed.

Lemma steps_Sr k c : steps (S k) c = step (steps k c).
Proof. reflexivity. Qed.

Lemma steps_lxor k a b : steps k (N.lxor a b) = N.lxor (steps k a) (steps k b).
Proof.
  induction k as [|k IH]; [reflexivity|].
  rewrite !steps_Sr, IH. apply step_lxor.
Qed.

Lemma steps_0 k : steps k 0 = 0.
Proof. induction k as [|k IH]; [reflexivity|]. rewrite steps_Sr, IH. reflexivity. Qed.

Lemma steps_S k c : steps (S k) c = steps k (step c).
Proof.
  induction k as [|k IH]; [reflexivity|].
  rewrite steps_Sr, IH. reflexivity.
Qed.

(** shifting in zeros: a value whose low k bits are clear just shifts *)
Lemma steps_shiftl k h : steps k (N.shiftl h (N.of_nat k)) = h.
Proof.
  revert h; induction k as [|k IH]; intro h.
  - cbn. apply N.shiftl_0_r.
  - rewrite steps_S. unfold crc_step.
    replace (N.odd (N.shiftl h (N.of_nat (S k)))) with false.
    2:{ rewrite <- N.bit0_odd, N.shiftl_spec_low; [reflexivity|lia]. }
    replace (N.shiftr (N.shiftl h (N.of_nat (S k))) 1) with (N.shiftl h (N.of_nat k)).
    2:{ rewrite Nat2N.inj_succ. rewrite <- N.add_1_r.
        rewrite <- N.shiftl_shiftl. rewrite N.shiftr_shiftl_l by lia.
        rewrite N.sub_diag. symmetry; apply N.shiftl_0_r. }
    apply IH.
Qed.

Lemma split_byte x : x = N.lxor (N.land x 255) (N.shiftl (N.shiftr x 8) 8).
Proof.
  apply N.bits_inj; intro i. rewrite N.lxor_spec, N.land_spec.
  destruct (N.ltb_spec i 8) as [Hi|Hi].
  - rewrite N.shiftl_spec_low by assumption.
    change 255 with (N.ones 8). rewrite N.ones_spec_low by assumption.
    rewrite andb_true_r, xorb_false_r. reflexivity.
  - rewrite N.shiftl_spec_high' by assumption. rewrite N.shiftr_spec'.
    change 255 with (N.ones 8). rewrite N.ones_spec_high by assumption.
    rewrite andb_false_r, xorb_false_l. f_equal. lia.
Qed.

(** the heart of every table-driven CRC: eight steps of x are the table
    entry of its low byte xor its high part *)
Lemma steps8_split x :
  steps 8 x = N.lxor (steps 8 (N.land x 255)) (N.shiftr x 8).
Proof.
  rewrite (split_byte x) at 1. rewrite steps_lxor.
  f_equal. exact (steps_shiftl 8 (N.shiftr x 8)).
Qed.

Lemma land255_lt x : N.land x 255 < 256.
Proof.
  change 255 with (N.ones 8). rewrite N.land_ones. apply N.mod_lt. cbn; lia.
Qed.

Lemma t0_spec i : i < 256 -> t0 poly i = steps 8 i.
Proof.
  intro Hi. unfold t0, table0.
  rewrite nth_indep with (d' := steps 8 (N.of_nat 256)).
  2:{ rewrite map_length, seq_length. lia. }
  change (steps 8 (N.of_nat 256)) with ((fun b => steps 8 (N.of_nat b)) 256%nat).
  rewrite map_nth. rewrite seq_nth by lia. cbn [plus]. rewrite N2Nat.id. reflexivity.
Qed.

Theorem crc_byte_tab_eq c b : b < 256 -> crc_byte_tab poly c b = crc_byte poly c b.
Proof.
  intro Hb. unfold crc_byte_tab, crc_byte.
  rewrite steps8_split. rewrite t0_spec by apply land255_lt.
  f_equal. rewrite N.shiftr_lxor.
  replace (N.shiftr b 8) with 0; [symmetry; apply N.lxor_0_r|].
  symmetry. rewrite N.shiftr_div_pow2. apply N.div_small. exact Hb.
Qed.

Theorem crc_update_tab_eq data c :
  bytes_ok data -> crc_update_tab poly c data = crc_update poly c data.
Proof.
  intro H; revert c; induction H as [|b l Hb Hl IH]; intro c; [reflexivity|].
  unfold crc_update_tab, crc_update in *. cbn [fold_left].
  rewrite crc_byte_tab_eq by exact Hb. apply IH.
Qed.

Lemma crc_update_app c a b :
  crc_update poly c (a ++ b) = crc_update poly (crc_update poly c a) b.
Proof. unfold crc_update. apply fold_left_app. Qed.

End P.

Lemma not32_invol x : not32 (not32 x) = x.
Proof. unfold not32. rewrite N.lxor_assoc, N.lxor_nilpotent. apply N.lxor_0_r. Qed.
Lemma not64_invol x : not64 (not64 x) = x.
Proof. unfold not64. rewrite N.lxor_assoc, N.lxor_nilpotent. apply N.lxor_0_r. Qed.

(** computing over consecutive pieces = computing over the whole *)
Theorem crc32_chain a b init : crc32 (a ++ b) init = crc32 b (crc32 a init).
Proof. unfold crc32. rewrite crc_update_app, not32_invol. reflexivity. Qed.
Theorem crc64_chain a b init : crc64 (a ++ b) init = crc64 b (crc64 a init).
Proof. unfold crc64. rewrite crc_update_app, not64_invol. reflexivity. Qed.

Theorem crc32_tab_eq data init : bytes_ok data -> crc32_tab data init = crc32 data init.
Proof. intro H. unfold crc32_tab, crc32. rewrite crc_update_tab_eq by exact H. reflexivity. Qed.
Theorem crc64_tab_eq data init : bytes_ok data -> crc64_tab data init = crc64 data init.
Proof. intro H. unfold crc64_tab, crc64. rewrite crc_update_tab_eq by exact H. reflexivity. Qed.
