(** C07 / C08 share the output-queue model.  PARTIAL.  Proved (for every
    interleaving of worker writes, finishes and reads - i.e. every schedule
    of the abstract operations): bytes delivered so far are always a prefix
    of the Blocks' contents concatenated in the order the Blocks were started,
    and a drained queue has delivered exactly everything in that order.
    NOT proved: the worker/main-thread protocol (mutexes, condition variables,
    wake-ups, time-outs), absence of deadlock, data races and use-after-free
    in the C text; these are explored with randomised schedule perturbation
    around every synchronisation call, comparison with the single-threaded
    coder, watchdogs and (for races) the sanitizer builds. *)
From XZ Require Import Base Outq OutqProofs.

Theorem delivery_order_is_schedule_independent : forall ops,
  exists rest, in_order (run ops) = delivered (run ops) ++ rest.
Proof. exact delivered_is_prefix_in_buffer_order. Qed.
Print Assumptions delivery_order_is_schedule_independent.

Theorem drained_queue_has_delivered_everything_in_order : forall ops,
  bufs (run ops) = [] -> delivered (run ops) = concat (popped (run ops)).
Proof. exact drained_queue_delivered_everything. Qed.
Print Assumptions drained_queue_has_delivered_everything_in_order.

Theorem queue_invariant_holds_in_every_reachable_state : forall ops, inv (run ops).
Proof. exact run_inv. Qed.
Print Assumptions queue_invariant_holds_in_every_reachable_state.

(** non-vacuity: the second Block finishes first, yet output order is Block order *)
Example out_of_order_completion :
  delivered (run [Get; Get; Write 1 [7;8]%N; Finish 1; Read 10; Write 0 [1]%N; Read 10; Write 0 [2]%N; Finish 0; Read 10; Read 10])
  = [1; 2; 7; 8]%N.
Proof. vm_compute. reflexivity. Qed.
