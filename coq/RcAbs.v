(** Range coder, abstract view: the encoder's state as unbounded integers
    (L, R, j): low value, range, number of normalisations so far.  The
    concrete encoder (RcEnc.v) refines it; the decoder (RcDec.v) follows it. *)
From XZ Require Import Base.
Require Import ZifyBool ZifyN.
Local Open Scope N_scope.

Inductive decision := DBit (p : N) (b : bool) | DDirect (b : bool).

Definition TOPV : N := 16777216.      (* 2^24 *)
Definition R32 : N := 4294967296.     (* 2^32 *)

Definition prob_ok (p : N) : Prop := 31 <= p <= 2017.
Definition dec_ok (d : decision) : Prop := match d with DBit p _ => prob_ok p | DDirect _ => True end.

Record astate := { aL : N; aR : N; aJ : N }.

Definition anorm (s : astate) : astate :=
  if aR s <? TOPV then {| aL := aL s * 256; aR := aR s * 256; aJ := aJ s + 1 |} else s.

Definition astep (s : astate) (d : decision) : astate :=
  let s := anorm s in
  match d with
  | DBit p false => {| aL := aL s; aR := (aR s / 2048) * p; aJ := aJ s |}
  | DBit p true => let bound := (aR s / 2048) * p in {| aL := aL s + bound; aR := aR s - bound; aJ := aJ s |}
  | DDirect false => {| aL := aL s; aR := aR s / 2; aJ := aJ s |}
  | DDirect true => {| aL := aL s + aR s / 2; aR := aR s / 2; aJ := aJ s |}
  end.

Definition arun (s : astate) (ds : list decision) : astate := fold_left astep ds s.
Definition a0 : astate := {| aL := 0; aR := 4294967295; aJ := 0 |}.
(** the encoder normalises once more before the flush *)
Definition afinal (ds : list decision) : astate := anorm (arun a0 ds).

(** range stays "large": one normalisation always restores R >= 2^24 *)
Definition rgood (s : astate) : Prop := 65536 <= aR s < R32.

Lemma anorm_range s : rgood s -> TOPV <= aR (anorm s) < R32.
Proof.
  unfold rgood, anorm, TOPV, R32. intro H. destruct (aR s <? 16777216) eqn:E; cbn [aR].
  - apply N.ltb_lt in E. lia.
  - apply N.ltb_ge in E. lia.
Qed.

Lemma astep_rgood s d : rgood s -> dec_ok d -> rgood (astep s d).
Proof.
  intros H Hd. pose proof (anorm_range s H) as A. unfold astep.
  set (t := anorm s) in *. unfold rgood, TOPV, R32 in *.
  destruct d as [p [|]|[|]]; cbn [aR]; cbn in Hd; unfold prob_ok in *.
  - (* bit 1: R - bound >= R * 31/2048 *)
    assert (B : aR t / 2048 * p <= aR t / 2048 * 2017) by nia.
    pose proof (N.div_mod (aR t) 2048 ltac:(lia)). pose proof (N.mod_lt (aR t) 2048 ltac:(lia)).
    assert (8192 <= aR t / 2048) by (apply N.div_le_lower_bound; lia).
    nia.
  - assert (8192 <= aR t / 2048) by (apply N.div_le_lower_bound; lia).
    assert (aR t / 2048 < 2097152) by (apply N.div_lt_upper_bound; lia).
    nia.
  - assert (8388608 <= aR t / 2) by (apply N.div_le_lower_bound; lia).
    assert (aR t / 2 < 2147483648) by (apply N.div_lt_upper_bound; lia). lia.
  - assert (8388608 <= aR t / 2) by (apply N.div_le_lower_bound; lia).
    assert (aR t / 2 < 2147483648) by (apply N.div_lt_upper_bound; lia). lia.
Qed.

(** interval nesting: [L', L'+R') (scaled) stays inside [L, L+R) *)
Definition inside (s s' : astate) : Prop :=
  aJ s <= aJ s' /\
  aL s * 256 ^ (aJ s' - aJ s) <= aL s' /\
  aL s' + aR s' <= (aL s + aR s) * 256 ^ (aJ s' - aJ s).

Lemma inside_refl s : inside s s.
Proof. unfold inside. rewrite N.sub_diag. cbn. lia. Qed.

Lemma inside_trans a b c : inside a b -> inside b c -> inside a c.
Proof.
  unfold inside. intros [H1 [H2 H3]] [G1 [G2 G3]].
  split; [lia|].
  replace (aJ c - aJ a) with ((aJ b - aJ a) + (aJ c - aJ b)) by lia.
  rewrite N.pow_add_r.
  set (x := 256 ^ (aJ b - aJ a)) in *. set (y := 256 ^ (aJ c - aJ b)) in *.
  split; nia.
Qed.

Lemma anorm_inside s : inside s (anorm s).
Proof.
  unfold anorm. destruct (aR s <? TOPV); [|apply inside_refl].
  unfold inside. cbn [aL aR aJ]. replace (aJ s + 1 - aJ s) with 1 by lia. cbn. lia.
Qed.

Lemma astep_inside_norm s d : rgood s -> dec_ok d -> inside (anorm s) (astep s d).
Proof.
  intros H Hd.
  pose proof (anorm_range s H) as A. unfold astep. set (t := anorm s) in *.
  unfold inside, TOPV, R32 in *.
  destruct d as [p [|]|[|]]; cbn [aL aR aJ]; rewrite N.sub_diag; cbn [N.pow]; cbn in Hd; unfold prob_ok in *.
  - assert (aR t / 2048 * p <= aR t).
    { pose proof (N.div_mod (aR t) 2048 ltac:(lia)). nia. }
    lia.
  - assert (aR t / 2048 * p <= aR t).
    { pose proof (N.div_mod (aR t) 2048 ltac:(lia)). nia. }
    lia.
  - pose proof (N.div_mod (aR t) 2 ltac:(lia)). lia.
  - pose proof (N.div_mod (aR t) 2 ltac:(lia)). lia.
Qed.

Lemma astep_inside s d : rgood s -> dec_ok d -> inside s (astep s d).
Proof.
  intros H Hd. eapply inside_trans; [apply anorm_inside|apply astep_inside_norm; assumption].
Qed.

Lemma astep_aJ s d : aJ (astep s d) = aJ (anorm s).
Proof. unfold astep. destruct d as [p [|]|[|]]; reflexivity. Qed.

Lemma arun_good ds : forall s, rgood s -> Forall dec_ok ds -> rgood (arun s ds) /\ inside s (arun s ds).
Proof.
  induction ds as [|d ds IH]; intros s H Hd; cbn [arun fold_left].
  - split; [exact H|apply inside_refl].
  - inversion Hd as [|? ? Hd1 Hd2]; subst.
    destruct (IH (astep s d) (astep_rgood s d H Hd1) Hd2) as [G I].
    split; [exact G|]. apply (inside_trans s (astep s d) _ (astep_inside s d H Hd1) I).
Qed.

Lemma a0_good : rgood a0.
Proof. unfold rgood, a0, R32. cbn. lia. Qed.

(** the final low value fits below 2^32 * 256^j: the first output byte is zero *)
Lemma afinal_bound ds : Forall dec_ok ds ->
  let f := afinal ds in aL f + aR f <= 4294967295 * 256 ^ aJ f /\ TOPV <= aR f < R32.
Proof.
  intro Hd. cbv zeta. unfold afinal.
  destruct (arun_good ds a0 a0_good Hd) as [G I].
  pose proof (anorm_inside (arun a0 ds)) as I2.
  pose proof (inside_trans _ _ _ I I2) as [_ [_ B]]. cbn [a0 aL aR aJ] in B.
  rewrite N.sub_0_r in B. split; [lia|apply anorm_range; exact G].
Qed.
