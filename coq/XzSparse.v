(** Sparse-file output of xz (io_write / io_close in src/xz/file_io.c) over a
    simple POSIX file model: a byte list plus a position; writing beyond the
    end fills the gap with zeros (a hole reads as zeros). *)
From XZ Require Import Base.
Local Open Scope nat_scope.

Record fstate := { fdata : list N; fpos : nat; pending : nat }.

Definition zeros (n : nat) : list N := repeatN 0%N n.
Definition f_lseek_cur (f : fstate) (n : nat) : fstate := {| fdata := fdata f; fpos := fpos f + n; pending := pending f |}.
Definition f_write (f : fstate) (bs : list N) : fstate :=
  let base := fdata f ++ zeros (fpos f - length (fdata f)) in
  {| fdata := firstn (fpos f) base ++ bs ++ skipn (fpos f + length bs) base;
     fpos := fpos f + length bs; pending := pending f |}.

Section S.
Variable BUF : nat.            (* IO_BUFFER_SIZE *)
Variable pending_max : nat.

Definition all_zero (l : list N) : bool := forallb (fun b => N.eqb b 0) l.

(** io_write with dest_try_sparse = true *)
Definition io_write (f : fstate) (buf : list N) : fstate :=
  let size := length buf in
  if (size =? BUF) && all_zero buf && (pending f <? pending_max) then
    {| fdata := fdata f; fpos := fpos f; pending := pending f + size |}
  else if negb (size =? BUF) && (size =? 0) then f
  else
    let f := if 0 <? pending f then {| fdata := fdata f; fpos := fpos f + pending f; pending := 0 |} else f in
    f_write f buf.

(** io_close: the pending hole at the end *)
Definition io_close (f : fstate) : fstate :=
  if 0 <? pending f then
    f_write {| fdata := fdata f; fpos := fpos f + (pending f - 1); pending := 0 |} [0%N]
  else f.

Definition run (f : fstate) (bufs : list (list N)) : fstate := io_close (fold_left io_write bufs f).
End S.
