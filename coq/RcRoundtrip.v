(** Range coder round trip: the concrete encoder (RcEnc.v, transcription of
    range_encoder.h) followed by the decoder of Lzma.v (model of
    range_decoder.h) returns the encoded bits, for every bit sequence, every
    context-selection program and with the adaptive probabilities both sides
    maintain. *)
From XZ Require Import Base Lzma RcAbs RcDec RcEnc.
Require Import ZifyBool ZifyN ZifyNat.
Local Open Scope N_scope.

Theorem rc_roundtrip strat bs rest :
  let ds := enc_trace strat [] bs in
  Forall dec_ok ds ->
  exists r0 r',
    rc_init (encode ds ++ rest) = Some r0 /\
    dec_run strat [] (length bs) r0 = (bs, r') /\
    rfail r' = false /\
    let rz := rc_normalize r' in
    rcode rz = 0 /\ rin rz = rest /\ rfail rz = false /\ rused rz = N.of_nat (length (encode ds)).
Proof.
  intros ds Hok.
  destruct (rc_decode_encoded strat bs rest Hok) as [r0 [r' [E0 [E1 [Hf [Hu Hz]]]]]].
  fold ds in E0, E1, Hu, Hz.
  pose proof (encode_is_final_low ds Hok) as EE. cbv zeta in EE.
  exists r0, r'. rewrite EE. split; [exact E0|]. split; [exact E1|]. split; [exact Hf|].
  cbv zeta in *. destruct Hz as [Z1 [Z2 [Z3 Z4]]].
  repeat split; try assumption. rewrite be_bytes_length. lia.
Qed.

(** ---------- adaptive probabilities ---------- *)
(** [sel] chooses, from the bits coded so far (most recent first), which
    probability variable codes the next bit, or a direct bit. *)
Definition sel_t := list bool -> option N.

Fixpoint probs_of (sel : sel_t) (hist : list bool) : probs :=
  match hist with
  | [] => PM.empty N
  | b :: h => let ps := probs_of sel h in
              match sel h with
              | Some i => pset ps i (prob_update (pget ps i) b)
              | None => ps
              end
  end.

Definition adaptive (sel : sel_t) : list bool -> kind :=
  fun h => match sel h with Some i => KBit (pget (probs_of sel h) i) | None => KDirect end.

Lemma pkey_inj i j : pkey i = pkey j -> i = j.
Proof. unfold pkey. intro H. apply (f_equal Pos.pred_N) in H. rewrite !N.pos_pred_succ in H. exact H. Qed.

Lemma pget_pset_same ps i v : pget (pset ps i v) i = v.
Proof. unfold pget, pset. rewrite PM.gss. reflexivity. Qed.

Lemma pget_pset_other ps i j v : i <> j -> pget (pset ps i v) j = pget ps j.
Proof.
  intro H. unfold pget, pset. rewrite PM.gso; [reflexivity|].
  intro E. apply H. symmetry. apply pkey_inj. exact E.
Qed.

Lemma pget_empty i : pget (PM.empty N) i = PROB_INIT.
Proof. unfold pget. rewrite PM.gempty. reflexivity. Qed.

Definition all_ok (ps : probs) : Prop := forall i, prob_ok (pget ps i).

Lemma probs_of_ok sel h : all_ok (probs_of sel h).
Proof.
  induction h as [|b h IH]; cbn [probs_of]; intro i.
  - rewrite pget_empty. exact prob_init_ok.
  - destruct (sel h) as [k|]; [|apply IH].
    destruct (N.eq_dec k i) as [->|Hne].
    + rewrite pget_pset_same. apply prob_update_ok. apply IH.
    + rewrite pget_pset_other by exact Hne. apply IH.
Qed.

Lemma adaptive_ok sel bs : forall hist, Forall dec_ok (enc_trace (adaptive sel) hist bs).
Proof.
  induction bs as [|b bs IH]; intro hist; cbn [enc_trace]; constructor; [|apply IH].
  unfold adaptive. destruct (sel hist) as [i|]; cbn [mk dec_ok]; [apply probs_of_ok|exact I].
Qed.

(** the decoder as the LZMA decoder drives it: rc_bit threads the probability
    table, updating the variable it used *)
Fixpoint dec_adaptive (sel : sel_t) (hist : list bool) (n : nat) (r : rc) (ps : probs)
  : list bool * rc * probs :=
  match n with
  | O => ([], r, ps)
  | S n' =>
      match sel hist with
      | Some i => let '(b, r1, ps1) := rc_bit r ps i in
                  let '(bs, r2, ps2) := dec_adaptive sel (b :: hist) n' r1 ps1 in (b :: bs, r2, ps2)
      | None => let '(b, r1) := rc_direct1 r in
                let '(bs, r2, ps2) := dec_adaptive sel (b :: hist) n' r1 ps in (b :: bs, r2, ps2)
      end
  end.

Lemma dec_adaptive_run sel n : forall hist r,
  dec_adaptive sel hist n r (probs_of sel hist) =
  let '(bs, r') := dec_run (adaptive sel) hist n r in (bs, r', probs_of sel (rev bs ++ hist)).
Proof.
  induction n as [|n IH]; intros hist r; cbn [dec_adaptive dec_run]; [reflexivity|].
  unfold adaptive at 1. destruct (sel hist) as [i|] eqn:Es; cbn [dec1].
  - unfold rc_bit. destruct (rc_decode_bit r (pget (probs_of sel hist) i)) as [b r1].
    assert (EP : pset (probs_of sel hist) i (prob_update (pget (probs_of sel hist) i) b) = probs_of sel (b :: hist)).
    { cbn [probs_of]. rewrite Es. reflexivity. }
    rewrite EP, IH. destruct (dec_run (adaptive sel) (b :: hist) n r1) as [bs r2].
    cbn [rev]. rewrite <- app_assoc. reflexivity.
  - destruct (rc_direct1 r) as [b r1].
    assert (EP : probs_of sel hist = probs_of sel (b :: hist)).
    { cbn [probs_of]. rewrite Es. reflexivity. }
    rewrite EP, IH. destruct (dec_run (adaptive sel) (b :: hist) n r1) as [bs r2].
    cbn [rev]. rewrite <- app_assoc. reflexivity.
Qed.

(** Full statement: with adaptive probabilities there is no side condition. *)
Theorem rc_roundtrip_adaptive (sel : sel_t) (bs : list bool) (rest : list N) :
  let out := encode (enc_trace (adaptive sel) [] bs) in
  exists r0 r' ps',
    rc_init (out ++ rest) = Some r0 /\
    dec_adaptive sel [] (length bs) r0 (PM.empty N) = (bs, r', ps') /\
    rfail r' = false /\
    let rz := rc_normalize r' in
    rcode rz = 0 /\ rin rz = rest /\ rfail rz = false /\ rused rz = N.of_nat (length out).
Proof.
  intro out.
  destruct (rc_roundtrip (adaptive sel) bs rest (adaptive_ok sel bs [])) as [r0 [r' [E0 [E1 [Hf Hz]]]]].
  exists r0, r', (probs_of sel (rev bs ++ [])).
  split; [exact E0|]. split; [|split; [exact Hf|exact Hz]].
  change (PM.empty N) with (probs_of sel []). rewrite dec_adaptive_run, E1. reflexivity.
Qed.

(** the encoder never writes anything but bytes, and the first one is zero *)
Lemma encode_bytes ds : Forall dec_ok ds -> Forall (fun b => b < 256) (encode ds).
Proof. intro H. rewrite (encode_is_final_low ds H). apply be_bytes_byte. Qed.
