(** Consequences of burst detection for the container specification. *)
From XZ Require Import Base Crc CrcProofs CrcSlice CrcBurst Lzma Lzma2 Xz.
Local Open Scope N_scope.

Lemma shiftr8_small x : x < 256 -> N.shiftr x 8 = 0.
Proof. intro H. rewrite N.shiftr_div_pow2. apply N.div_small. exact H. Qed.

Lemma xval2_inj a0 a1 b0 b1 : a0 < 256 -> b0 < 256 ->
  xval [a0; a1] = xval [b0; b1] -> a0 = b0 /\ a1 = b1.
Proof.
  intros Ha Hb Z. cbn [xval] in Z. rewrite N.shiftl_0_l, !N.lxor_0_r in Z.
  assert (E1 : a1 = b1).
  { apply (f_equal (fun v => N.shiftr v 8)) in Z. rewrite !N.shiftr_lxor in Z.
    rewrite (shiftr8_small a0 Ha), (shiftr8_small b0 Hb) in Z.
    rewrite !N.shiftr_shiftl_l in Z by lia. rewrite N.sub_diag, !N.shiftl_0_r, !N.lxor_0_l in Z. exact Z. }
  subst b1. split; [|reflexivity]. apply lxor_inj_r in Z. exact Z.
Qed.

(** two different 2-byte fields (Stream Flags) never have the same CRC32 *)
Lemma two_bytes_crc_differs a0 a1 b0 b1 :
  byte_ok a0 -> byte_ok a1 -> byte_ok b0 -> byte_ok b1 -> [a0; a1] <> [b0; b1] ->
  crc32 [a0; a1] 0 <> crc32 [b0; b1] 0.
Proof.
  intros H0 H1 H2 H3 Hne.
  apply (crc32_detects_burst32 0 [a0; a1] [b0; b1] (N.lxor (xval [a0; a1]) (xval [b0; b1])) 0).
  - repeat constructor; assumption.
  - repeat constructor; assumption.
  - reflexivity.
  - symmetry. apply N.shiftl_0_r.
  - apply N.neq_0_lt_0. intro Z. apply N.lxor_eq in Z. apply Hne.
    destruct (xval2_inj a0 a1 b0 b1 H0 H2 Z) as [-> ->]. reflexivity.
  - apply (lxor_lt _ _ 32); (eapply N.lt_le_trans; [apply (xval_lt [_; _]); repeat constructor; assumption|]);
      cbn; lia.
Qed.

Lemma take_app a r : take (lenN a) (a ++ r) = Some (a, r).
Proof.
  unfold take, lenN. rewrite app_length.
  assert (E : (N.of_nat (length a + length r) <? N.of_nat (length a)) = false) by (apply N.ltb_ge; lia).
  rewrite E. rewrite Nat2N.id.
  rewrite firstn_app, Nat.sub_diag, firstn_all. cbn [firstn]. rewrite app_nil_r.
  rewrite skipn_app, Nat.sub_diag, skipn_all. reflexivity.
Qed.

Lemma crc32_lt d init : bytes_ok d -> init < 2 ^ 32 -> crc32 d init < 2 ^ 32.
Proof.
  intros Hd Hi. unfold crc32, not32.
  apply lxor_lt; [|vm_compute; reflexivity].
  apply (crc_update_lt poly32 4 ltac:(lia) 32); [vm_compute; reflexivity|lia|exact Hd|].
  apply lxor_lt; [exact Hi|vm_compute; reflexivity].
Qed.

(** Any damage to the Stream Flags of a Stream Header (stored CRC32 intact) is rejected *)
Theorem stream_header_flags_damage_rejected fuel f0 f1 g0 g1 rest :
  byte_ok f0 -> byte_ok f1 -> byte_ok g0 -> byte_ok g1 -> [g0; g1] <> [f0; f1] ->
  xstatus (stream_decode fuel false true
     (xz_init (HEADER_MAGIC ++ [g0; g1] ++ le_bytes 4 (crc32 [f0; f1] 0) ++ rest))) = DataError.
Proof.
  intros Hf0 Hf1 Hg0 Hg1 Hne.
  unfold stream_decode, xz_init. cbn [xin].
  set (hdr := HEADER_MAGIC ++ [g0; g1] ++ le_bytes 4 (crc32 [f0; f1] 0)).
  replace (HEADER_MAGIC ++ [g0; g1] ++ le_bytes 4 (crc32 [f0; f1] 0) ++ rest) with (hdr ++ rest)
    by (subst hdr; rewrite <- !app_assoc; reflexivity).
  assert (Hlen : lenN hdr = 12) by (subst hdr; unfold lenN; rewrite !app_length, le_bytes_length; reflexivity).
  rewrite <- Hlen. rewrite take_app.
  subst hdr. unfold HEADER_MAGIC. cbn [app firstn skipn le_bytes].
  rewrite (proj2 (list_eqb_eq _ _) eq_refl). cbn [negb].
  set (v := crc32 [f0; f1] 0).
  assert (Hv : v < 2 ^ 32) by (apply crc32_lt; [repeat constructor; assumption|cbn; lia]).
  change [v mod 256; v / 256 mod 256; v / 256 / 256 mod 256; v / 256 / 256 / 256 mod 256] with (le_bytes 4 v).
  rewrite le_val_le_bytes by (cbn; lia).
  assert (E : (v =? crc32 [g0; g1] 0) = false).
  { apply N.eqb_neq. subst v. intro Z. symmetry in Z. revert Z. apply two_bytes_crc_differs; assumption. }
  rewrite E. reflexivity.
Qed.
