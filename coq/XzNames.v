(** xz file naming (src/xz/suffix.c, non-DOS build), destination mode
    computation (io_copy_attrs in file_io.c) and exit-status accumulation
    (main.c).  File names are byte lists. *)
From XZ Require Import Base.
Local Open Scope N_scope.

Definition SLASH : N := 47.
Definition str (s : list N) := s.
Definition S_XZ : list N := [46; 120; 122].          (* ".xz" *)
Definition S_TXZ : list N := [46; 116; 120; 122].    (* ".txz" *)
Definition S_LZMA : list N := [46; 108; 122; 109; 97].
Definition S_TLZ : list N := [46; 116; 108; 122].
Definition S_LZ : list N := [46; 108; 122].
Definition S_TAR : list N := [46; 116; 97; 114].

(** test_suffix: Some prefix if name = prefix ++ suffix, prefix non-empty and not ending in '/' *)
Definition test_suffix (suffix name : list N) : option (list N) :=
  let n := length name in let k := length suffix in
  if (n <=? k)%nat then None else
  let prefix := firstn (n - k) name in
  if nth (n - k - 1) name 0 =? SLASH then None
  else if list_eqb (skipn (n - k) name) suffix then Some prefix else None.

Inductive format := F_XZ | F_LZMA | F_RAW.

Definition uncompressed_name (raw : bool) (custom : option (list N)) (name : list N) : option (list N) :=
  let builtin := [(S_XZ, []); (S_TXZ, S_TAR); (S_LZMA, []); (S_TLZ, S_TAR); (S_LZ, [])] in
  let fix go (l : list (list N * list N)) : option (list N) :=
    match l with
    | [] => None
    | (c, u) :: r => match test_suffix c name with Some p => Some (p ++ u) | None => go r end
    end in
  match (if raw then None else go builtin) with
  | Some r => Some r
  | None => match custom with
            | Some s => test_suffix s name
            | None => None
            end
  end.

Definition format_suffixes (f : format) : list (list N) :=
  match f with F_XZ => [S_XZ; S_TXZ] | F_LZMA => [S_LZMA; S_TLZ] | F_RAW => [] end.

Definition compressed_name (f : format) (custom : option (list N)) (name : list N) : option (list N) :=
  if existsb (fun s => match test_suffix s name with Some _ => true | None => false end) (format_suffixes f) then None
  else match custom with
  | Some s => match test_suffix s name with Some _ => None | None => Some (name ++ s) end
  | None => match format_suffixes f with
            | s :: _ => Some (name ++ s)
            | [] => None      (* raw format needs --suffix; xz refuses earlier *)
            end
  end.

(** io_copy_attrs: destination permission bits from the source mode *)
Definition dest_mode (src_mode : N) (group_set : bool) : N :=
  if group_set then N.land src_mode 511            (* & 0777 *)
  else let m := N.land (N.land src_mode 56 / 8) (N.land src_mode 7) in
       N.lor (N.lor (N.land src_mode 448) (m * 8)) m.

(** exit status: E_SUCCESS 0, E_ERROR 1, E_WARNING 2; an error is never downgraded *)
Definition set_exit_status (cur new : N) : N := if cur =? 1 then cur else new.
Definition final_status (events : list N) (no_warn : bool) : N :=
  let s := fold_left set_exit_status events 0 in
  if no_warn && (s =? 2) then 0 else s.
