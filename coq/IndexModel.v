(** The Index as a straightforward list-of-records model: a file is a list
    of Streams, a Stream a list of (Unpadded Size, Uncompressed Size) records
    plus optional Stream Flags and Stream Padding.  Every query of
    src/liblzma/api/lzma/index.h is a fold over the lists. *)
From XZ Require Import Base Crc Xz.
Local Open Scope N_scope.

Record mstream := { recs : list (N * N); sflags : option N; spad : N }.
Definition mindex := list mstream.     (* leftmost first; the last one is the current Stream *)

Definition BACKWARD_SIZE_MAX : N := 17179869184.   (* 1 << 34 *)
Definition ceil4 (x : N) : N := ((x + 3) / 4) * 4.

Definition list_size (rs : list (N * N)) : N :=
  fold_right (fun r a => vli_size (fst r) + vli_size (snd r) + a) 0 rs.
Definition blocks_size (rs : list (N * N)) : N := fold_right (fun r a => ceil4 (fst r) + a) 0 rs.
Definition uncomp_total (rs : list (N * N)) : N := fold_right (fun r a => snd r + a) 0 rs.
Definition index_size_unpadded (count ils : N) : N := 1 + vli_size count + ils.
Definition index_size (count ils : N) : N := ceil4 (index_size_unpadded count ils + 4).

Definition all_recs (i : mindex) : list (N * N) := flat_map recs i.
Definition block_count (i : mindex) : N := lenN (all_recs i).
Definition stream_count (i : mindex) : N := lenN i.
Definition m_index_size (i : mindex) : N := index_size (block_count i) (list_size (all_recs i)).
Definition total_size (i : mindex) : N := blocks_size (all_recs i).
Definition stream_size (i : mindex) : N := 12 + total_size i + m_index_size i + 12.
Definition uncompressed_size (i : mindex) : N := uncomp_total (all_recs i).
Definition one_stream_size (s : mstream) : N :=
  24 + blocks_size (recs s) + index_size (lenN (recs s)) (list_size (recs s)).
Definition file_size (i : mindex) : N := fold_right (fun s a => one_stream_size s + spad s + a) 0 i.
Definition checks (i : mindex) : N :=
  fold_right (fun s a => match sflags s with Some c => N.lor (2 ^ c) a | None => a end) 0 i.

(** ---- operations (None = refused, index unchanged) ---- *)
Definition m_init : mindex := [{| recs := []; sflags := None; spad := 0 |}].

Definition set_last (i : mindex) (f : mstream -> mstream) : mindex :=
  match rev i with [] => i | s :: r => rev (f s :: r) end.
Definition last_stream (i : mindex) : mstream :=
  match rev i with [] => {| recs := []; sflags := None; spad := 0 |} | s :: _ => s end.
Definition file_size_before_last (i : mindex) : N := file_size (removelast i).

(** lzma_ret codes: 0 OK, 9 DATA_ERROR, 11 PROG_ERROR *)
Definition m_append (i : mindex) (unp unc : N) : N * mindex :=
  if (unp <? 5) || (UNPADDED_MAX <? unp) || (VLI_MAX <? unc) then (11, i) else
  let s := last_stream i in
  let cbase := blocks_size (recs s) in
  let ubase := uncomp_total (recs s) in
  let add := vli_size unp + vli_size unc in
  if VLI_MAX <? uncompressed_size i + unc then (9, i)      (* the total over all Streams *)
  else if UNPADDED_MAX <? cbase + unp then (9, i)
  else
    let fs1 := file_size_before_last i + 24 + spad s + ceil4 (cbase + unp) in
    if VLI_MAX <? fs1 then (9, i)
    else if VLI_MAX <? fs1 + index_size (lenN (recs s) + 1) (list_size (recs s) + add) then (9, i)
    else if BACKWARD_SIZE_MAX <? index_size (block_count i + 1) (list_size (all_recs i) + add) then (9, i)
    else (0, set_last i (fun s => {| recs := recs s ++ [(unp, unc)]; sflags := sflags s; spad := spad s |})).

Definition m_stream_flags (i : mindex) (chk : N) : N * mindex :=
  if 15 <? chk then (11, i)   (* lzma_stream_flags_compare: PROG_ERROR for a check id out of range *)
  else (0, set_last i (fun s => {| recs := recs s; sflags := Some chk; spad := spad s |})).

Definition m_stream_padding (i : mindex) (p : N) : N * mindex :=
  if (VLI_MAX <? p) || negb (p mod 4 =? 0) then (11, i) else
  let i0 := set_last i (fun s => {| recs := recs s; sflags := sflags s; spad := 0 |}) in
  if VLI_MAX <? file_size i0 + p then (9, i)
  else (0, set_last i (fun s => {| recs := recs s; sflags := sflags s; spad := p |})).

Definition m_cat (dest src : mindex) : N * mindex :=
  if (VLI_MAX <? file_size dest + file_size src) || (VLI_MAX <? uncompressed_size dest + uncompressed_size src) then (9, dest)
  else if BACKWARD_SIZE_MAX <? ceil4 (index_size_unpadded (block_count dest) (list_size (all_recs dest))
                                      + index_size_unpadded (block_count src) (list_size (all_recs src))) then (9, dest)
  else (0, dest ++ src).

(** ---- iteration: every Block with its offsets ---- *)
Record blockinfo := {
  b_stream : N; b_in_stream : N; b_in_file : N;
  b_comp_file_off : N; b_uncomp_file_off : N;
  b_unpadded : N; b_uncomp : N; b_total : N
}.

Fixpoint blocks_of_stream (snum : N) (cfile ufile : N) (k_in_stream k_in_file : N) (coff uoff : N) (rs : list (N * N)) : list blockinfo :=
  match rs with
  | [] => []
  | (u, v) :: r =>
    {| b_stream := snum; b_in_stream := k_in_stream; b_in_file := k_in_file;
       b_comp_file_off := cfile + 12 + coff; b_uncomp_file_off := ufile + uoff;
       b_unpadded := u; b_uncomp := v; b_total := ceil4 u |}
    :: blocks_of_stream snum cfile ufile (k_in_stream + 1) (k_in_file + 1) (coff + ceil4 u) (uoff + v) r
  end.

Fixpoint all_blocks_go (i : mindex) (snum cfile ufile kfile : N) : list blockinfo :=
  match i with
  | [] => []
  | s :: r =>
    blocks_of_stream snum cfile ufile 1 kfile 0 0 (recs s)
    ++ all_blocks_go r (snum + 1) (cfile + one_stream_size s + spad s) (ufile + uncomp_total (recs s)) (kfile + lenN (recs s))
  end.
Definition all_blocks (i : mindex) : list blockinfo := all_blocks_go i 1 0 0 1.
Definition nonempty_blocks (i : mindex) : list blockinfo := List.filter (fun b => negb (b_uncomp b =? 0)) (all_blocks i).

(** lzma_index_iter_locate: the first non-empty Block whose range contains target *)
Definition locate (i : mindex) (target : N) : option blockinfo :=
  find (fun b => (b_uncomp_file_off b <=? target) && (target <? b_uncomp_file_off b + b_uncomp b)) (all_blocks i).

(** Index field as lzma_index_encoder writes it (all Streams' records in order) *)
Definition index_encode (i : mindex) : list N :=
  let body := 0 :: vli_encode (block_count i) ++ flat_map (fun r => vli_encode (fst r) ++ vli_encode (snd r)) (all_recs i) in
  let body := body ++ repeatN 0 (N.to_nat ((4 - lenN body mod 4) mod 4)) in
  body ++ le_bytes 4 (crc32 body 0).
