(** The streaming implementation model (any chunking) computes the FIPS
    definition. *)
From XZ Require Import Base Sha256.
Local Open Scope nat_scope.

Section P.
Variable K : list N.
Notation transform := (transform K).
Notation blocks := (blocks K).
Notation sha_byte := (sha_byte K).
Notation sha_update := (sha_update K).

Lemma sha_update_app s a b : sha_update (sha_update s a) b = sha_update s (a ++ b).
Proof. unfold Sha256.sha_update. symmetry. apply fold_left_app. Qed.

Lemma sha_update_chunks s chunks :
  fold_left sha_update chunks s = sha_update s (concat chunks).
Proof.
  revert s; induction chunks as [|c cs IH]; intro s; [reflexivity|].
  cbn [fold_left concat]. rewrite IH. apply sha_update_app.
Qed.

Lemma update_small data : forall s,
  length (sbuf s) + length data < 64 ->
  sha_update s data = {| sh := sh s; sbuf := sbuf s ++ data; ssize := (ssize s + N.of_nat (length data))%N |}.
Proof.
  induction data as [|b data IH]; intros s H.
  - cbn. rewrite app_nil_r, N.add_0_r. destruct s; reflexivity.
  - unfold Sha256.sha_update in *. cbn [fold_left]. cbn [length] in H.
    rewrite IH.
    + unfold Sha256.sha_byte. rewrite app_length. cbn [length].
      destruct (Nat.eqb_spec (length (sbuf s) + 1) 64) as [E|E]; [lia|].
      cbn [sh sbuf ssize]. rewrite <- app_assoc. cbn [app]. f_equal. lia.
    + unfold Sha256.sha_byte. rewrite app_length. cbn [length].
      destruct (Nat.eqb_spec (length (sbuf s) + 1) 64) as [E|E]; [lia|].
      cbn [sbuf]. rewrite app_length. cbn [length]. lia.
Qed.

Lemma update_block s blk :
  sbuf s = [] -> length blk = 64 ->
  sha_update s blk = {| sh := transform (sh s) blk; sbuf := []; ssize := (ssize s + 64)%N |}.
Proof.
  intros Hs Hl.
  destruct (exists_last (l := blk)) as [d [b E]]; [intro E; subst; discriminate|].
  subst blk. rewrite app_length in Hl. cbn [length] in Hl.
  rewrite <- sha_update_app. rewrite (update_small d s) by (rewrite Hs; cbn [length]; lia).
  unfold Sha256.sha_update. cbn [fold_left]. unfold Sha256.sha_byte. cbn [sbuf sh ssize].
  rewrite Hs. cbn [app]. rewrite app_length. cbn [length].
  destruct (Nat.eqb_spec (length d + 1) 64) as [E|E]; [|lia].
  f_equal. lia.
Qed.

Lemma blocks_enough : forall f f' bs h,
  length bs <= f -> length bs <= f' -> blocks f h bs = blocks f' h bs.
Proof.
  induction f as [|f IH]; intros f' bs h H1 H2.
  - destruct bs; [|cbn in H1; lia]. destruct f'; reflexivity.
  - destruct f' as [|f'].
    + destruct bs; [reflexivity|cbn in H2; lia].
    + cbn [Sha256.blocks]. destruct bs as [|x bs]; [reflexivity|].
      apply IH; rewrite skipn_length; cbn [length] in *; lia.
Qed.

Lemma update_blocks : forall n m s,
  length m = 64 * n -> sbuf s = [] ->
  sha_update s m = {| sh := blocks (length m) (sh s) m; sbuf := [];
                      ssize := (ssize s + N.of_nat (length m))%N |}.
Proof.
  induction n as [|n IH]; intros m s Hl Hs.
  - destruct m; [|cbn in Hl; lia]. cbn. rewrite N.add_0_r. destruct s; cbn in *; subst; reflexivity.
  - rewrite <- (firstn_skipn 64 m) at 1. rewrite <- sha_update_app.
    assert (H64 : length (firstn 64 m) = 64) by (rewrite firstn_length; lia).
    rewrite (update_block s (firstn 64 m) Hs H64).
    rewrite (IH (skipn 64 m)); [|rewrite skipn_length; lia|reflexivity].
    cbn [sh ssize]. destruct m as [|x m']; [cbn in Hl; lia|].
    set (m := x :: m') in *.
    assert (Hlen : length m = S (length m')) by reflexivity.
    f_equal.
    + rewrite Hlen. cbn [Sha256.blocks]. fold m.
      apply blocks_enough; rewrite skipn_length; lia.
    + rewrite skipn_length. lia.
Qed.

Lemma padding_length len :
  exists n, N.to_nat len + length (padding len) = 64 * n.
Proof.
  unfold padding. cbn [length]. rewrite app_length.
  assert (Hr : forall k, length (repeatN 0%N k) = k) by (induction k; cbn; auto).
  rewrite Hr. unfold be_bytes. rewrite rev_length, le_bytes_length.
  unfold pad_zeros.
  exists ((N.to_nat len + 1 + N.to_nat ((64 + 56 - (len + 1) mod 64) mod 64) + 8) / 64).
  set (z := ((64 + 56 - (len + 1) mod 64) mod 64)%N).
  assert (Hz : ((len + 1 + z + 8) mod 64 = 0)%N).
  { subst z. 
    pose proof (N.mod_lt (len + 1) 64) as A. 
    pose proof (N.div_mod (len + 1) 64) as B.
    set (r := ((len + 1) mod 64)%N) in *. set (q := ((len + 1) / 64)%N) in *.
    assert (r < 64)%N by (apply A; lia). clear A.
    destruct (N.le_gt_cases r 56) as [C|C].
    - replace ((64 + 56 - r) mod 64)%N with (56 - r)%N.
      2:{ apply N.mod_unique with (q := 1%N); lia. }
      replace (len + 1 + (56 - r) + 8)%N with (0 + (q + 1) * 64)%N by lia.
      rewrite N.mod_add by lia. reflexivity.
    - replace ((64 + 56 - r) mod 64)%N with (120 - r)%N.
      2:{ apply N.mod_unique with (q := 0%N); lia. }
      replace (len + 1 + (120 - r) + 8)%N with (0 + (q + 2) * 64)%N by lia.
      rewrite N.mod_add by lia. reflexivity. }
  assert (Hz' : (N.to_nat len + 1 + N.to_nat z + 8) mod 64 = 0).
  { replace (N.to_nat len + 1 + N.to_nat z + 8) with (N.to_nat (len + 1 + z + 8)) by lia.
    change 64 with (N.to_nat 64%N). rewrite <- N2Nat.inj_mod by lia. rewrite Hz. reflexivity. }
  pose proof (Nat.div_mod (N.to_nat len + 1 + N.to_nat z + 8) 64). lia.
Qed.

(** Main theorem: the streaming interface, fed the message in any pieces,
    returns the FIPS 180-4 digest. *)
Theorem sha_stream_eq_spec h0 chunks :
  sha_finish K (fold_left sha_update chunks (sha_init h0)) = sha256_from K h0 (concat chunks).
Proof.
  rewrite sha_update_chunks. set (msg := concat chunks).
  unfold sha_finish, sha256_from.
  assert (Hsz : forall d s, ssize (sha_update s d) = (ssize s + lenN d)%N).
  { clear. induction d as [|b d IH]; intro s.
    - cbn. unfold lenN. cbn. lia.
    - unfold Sha256.sha_update in *. cbn [fold_left]. rewrite IH.
      unfold lenN. cbn [length]. unfold Sha256.sha_byte.
      destruct (Nat.eqb _ 64); cbn [ssize]; lia. }
  rewrite Hsz. cbn [sha_init ssize]. rewrite N.add_0_l.
  rewrite sha_update_app.
  destruct (padding_length (lenN msg)) as [n Hn].
  assert (Hlen : length (msg ++ padding (lenN msg)) = 64 * n).
  { rewrite app_length. unfold lenN in Hn. rewrite Nat2N.id in Hn. exact Hn. }
  rewrite (update_blocks n) by (auto using Hlen).
  reflexivity.
Qed.
End P.
