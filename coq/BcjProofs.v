(** Round-trip and length theorems for the BCJ and delta models. *)
From XZ Require Import Base Bcj.
Require Import ZifyBool ZifyN.
Local Open Scope N_scope.
Ltac Zify.zify_post_hook ::= Z.div_mod_to_equations.

(** ---------- delta ---------- *)
Lemma nth_byte l i : Forall byte_ok l -> nth i l 0 < 256.
Proof.
  intro H. revert i; induction H as [|x l Hx Hl IH]; intro i; destruct i; cbn; try lia.
  - exact Hx.
  - apply IH.
Qed.
Lemma set_nth_ok l i v : Forall byte_ok l -> byte_ok v -> Forall byte_ok (set_nth l i v).
Proof.
  intros H Hv. revert i; induction H as [|x l Hx Hl IH]; intro i; destruct i; cbn; constructor; auto.
Qed.

Lemma delta_step_inv dist s b : b < 256 -> Forall byte_ok (dhist s) ->
  delta_dec_byte dist s (snd (delta_enc_byte dist s b)) = (fst (delta_enc_byte dist s b), b)
  /\ Forall byte_ok (dhist (fst (delta_enc_byte dist s b))).
Proof.
  intros Hb Hh. unfold delta_enc_byte, delta_dec_byte. cbn [fst snd dhist dpos].
  set (tmp := nth (N.to_nat ((dist + dpos s) mod 256)) (dhist s) 0).
  assert (Ht : tmp < 256) by (apply nth_byte; exact Hh).
  assert (E : ((b + 256 - tmp) mod 256 + tmp) mod 256 = b) by lia.
  rewrite E. split; [reflexivity|]. apply set_nth_ok; assumption.
Qed.

Lemma delta_run_inv dist l : bytes_ok l -> forall s, Forall byte_ok (dhist s) ->
  delta_run (delta_dec_byte dist) s (snd (delta_run (delta_enc_byte dist) s l))
  = (fst (delta_run (delta_enc_byte dist) s l), l).
Proof.
  induction 1 as [|b l Hb Hl IH]; intros s Hs; [reflexivity|].
  cbn [delta_run].
  destruct (delta_step_inv dist s b Hb Hs) as [E Hh].
  destruct (delta_enc_byte dist s b) as [s1 c] eqn:E1. cbn [fst snd] in *.
  specialize (IH s1 Hh).
  destruct (delta_run (delta_enc_byte dist) s1 l) as [s2 cs] eqn:E2. cbn [fst snd] in *.
  cbn [delta_run]. rewrite E. rewrite IH. reflexivity.
Qed.

Lemma repeatN_ok n : Forall byte_ok (repeatN 0 n).
Proof. induction n; cbn; constructor; auto. unfold byte_ok; lia. Qed.

Theorem delta_roundtrip dist l : bytes_ok l -> delta_decode dist (delta_encode dist l) = l.
Proof.
  intro H. unfold delta_decode, delta_encode.
  rewrite delta_run_inv; [reflexivity|exact H|apply repeatN_ok].
Qed.

Lemma delta_run_length f s l : length (snd (delta_run f s l)) = length l.
Proof.
  revert s; induction l as [|b l IH]; intro s; [reflexivity|].
  cbn [delta_run]. destruct (f s b) as [s1 o]. specialize (IH s1).
  destruct (delta_run f s1 l) as [s2 os]. cbn [snd length] in *. lia.
Qed.
Theorem delta_length dist l : length (delta_encode dist l) = length l /\ length (delta_decode dist l) = length l.
Proof. split; apply delta_run_length. Qed.

(** ---------- stride-4 lifting ---------- *)
Definition app4 (g : N -> N -> N -> N -> N -> list N) (pos : N) (w : list N) : list N :=
  match w with [a; b; c; d] => g pos a b c d | _ => w end.
Definition aligned4 (pos : N) := pos < 4294967296 /\ pos mod 4 = 0.

Lemma aligned4_next pos : aligned4 pos -> aligned4 (w32 (pos + 4)).
Proof. unfold aligned4, w32. lia. Qed.

Section Stride.
Variables f g : N -> N -> N -> N -> N -> list N.
Hypothesis f_len : forall pos a b c d, length (f pos a b c d) = 4%nat.
Hypothesis f_ok : forall pos a b c d, byte_ok a -> byte_ok b -> byte_ok c -> byte_ok d -> bytes_ok (f pos a b c d).
Hypothesis gf : forall pos a b c d, aligned4 pos -> byte_ok a -> byte_ok b -> byte_ok c -> byte_ok d ->
  app4 g pos (f pos a b c d) = [a; b; c; d].

Lemma stride4_length : forall l pos, length (stride4 f pos l) = length l.
Proof.
  fix IH 1. intros l pos.
  destruct l as [|a [|b [|c [|d r]]]]; try reflexivity.
  cbn [stride4]. rewrite app_length, f_len, IH. reflexivity.
Qed.

Lemma stride4_roundtrip : forall l pos, aligned4 pos -> bytes_ok l ->
  stride4 g pos (stride4 f pos l) = l.
Proof.
  fix IH 1. intros l pos Hp Hl.
  destruct l as [|a [|b [|c [|d r]]]]; try reflexivity.
  cbn [stride4].
  inversion Hl as [|? ? Ha Hl1]; subst. inversion Hl1 as [|? ? Hb Hl2]; subst.
  inversion Hl2 as [|? ? Hc Hl3]; subst. inversion Hl3 as [|? ? Hd Hr]; subst.
  pose proof (gf pos a b c d Hp Ha Hb Hc Hd) as G.
  pose proof (f_len pos a b c d) as L.
  destruct (f pos a b c d) as [|a' [|b' [|c' [|d' [|? ?]]]]]; try discriminate L.
  cbn [app]. cbn [stride4]. cbn [app4] in G. rewrite G. cbn [app].
  rewrite IH; [reflexivity|apply aligned4_next; exact Hp|exact Hr].
Qed.
End Stride.

(** ---------- shared arithmetic ---------- *)
Lemma bytes_of_mod24 x a b c : a < 256 -> b < 256 -> c < 256 ->
  x mod 16777216 = a + 256 * b + 65536 * c ->
  x mod 256 = a /\ (x / 256) mod 256 = b /\ (x / 65536) mod 256 = c.
Proof. intros. lia. Qed.

Lemma pack3 D : (D mod 256) + 256 * ((D / 256) mod 256) + 65536 * ((D / 65536) mod 256) = D mod 16777216.
Proof. lia. Qed.

Lemma field_rt_4_24 P s : P < 4294967296 -> P mod 4 = 0 -> s < 16777216 ->
  (((4 * ((((P + 4 * s) mod 4294967296) / 4) mod 16777216) + 4294967296 - P mod 4294967296) mod 4294967296) / 4) mod 16777216 = s.
Proof. intros. lia. Qed.

(** ---------- ARM ---------- *)
Lemma arm_word_len enc pos a b c d : length (arm_word enc pos a b c d) = 4%nat.
Proof. unfold arm_word. destruct (d =? 235); reflexivity. Qed.

Lemma arm_word_rt pos a b c d : aligned4 pos -> byte_ok a -> byte_ok b -> byte_ok c -> byte_ok d ->
  app4 (arm_word false) pos (arm_word true pos a b c d) = [a; b; c; d].
Proof.
  unfold aligned4, byte_ok. intros [Hp Hal] Ha Hb Hc Hd. unfold arm_word.
  destruct (d =? 235) eqn:E; cbn [app4]; rewrite E; [|reflexivity].
  unfold conv_addr, sub32'.
  set (P := w32 (pos + 8)).
  assert (HP : P < 4294967296 /\ P mod 4 = 0) by (subst P; unfold w32; lia).
  set (s := a + 256 * b + 65536 * c).
  assert (Hs : s < 16777216) by (subst s; lia).
  replace (w32 (s * 4)) with (4 * s) by (unfold w32; lia).
  set (D := w32 (P + 4 * s) / 4).
  rewrite pack3.
  replace (w32 (D mod 16777216 * 4)) with (4 * (D mod 16777216)) by (unfold w32; lia).
  pose proof (field_rt_4_24 P s (proj1 HP) (proj2 HP) Hs) as F.
  unfold w32 in *. fold D in F.
  set (Y := (4 * (D mod 16777216) + 4294967296 - P mod 4294967296) mod 4294967296) in *.
  destruct (bytes_of_mod24 (Y / 4) a b c Ha Hb Hc F) as [E1 [E2 E3]].
  rewrite E1, E2, E3. reflexivity.
Qed.

Lemma arm_word_ok enc pos a b c d : byte_ok a -> byte_ok b -> byte_ok c -> byte_ok d ->
  bytes_ok (arm_word enc pos a b c d).
Proof.
  unfold byte_ok, bytes_ok, arm_word. intros. destruct (d =? 235); repeat constructor; unfold byte_ok; try assumption; lia.
Qed.

Theorem arm_roundtrip start l : aligned4 (w32 start) -> bytes_ok l ->
  fst (arm_code false start (fst (arm_code true start l))) = l.
Proof.
  intros Hs Hl. unfold arm_code. cbn [fst].
  apply stride4_roundtrip; auto using arm_word_len, arm_word_rt.
Qed.

Theorem arm_length enc start l : length (fst (arm_code enc start l)) = length l.
Proof. unfold arm_code. cbn [fst]. apply stride4_length. apply arm_word_len. Qed.

Lemma ppc_word_len enc pos a b c d : length (ppc_word enc pos a b c d) = 4%nat.
Proof. unfold ppc_word. destruct (_ && _); reflexivity. Qed.
Lemma sparc_word_len enc pos a b c d : length (sparc_word enc pos a b c d) = 4%nat.
Proof. unfold sparc_word. destruct (_ || _); reflexivity. Qed.
Lemma arm64_word_len enc pos a b c d : length (arm64_word enc pos a b c d) = 4%nat.
Proof.
  unfold arm64_word. destruct (_ =? 37); [reflexivity|].
  destruct (_ && _); [|reflexivity]. destruct (negb _); reflexivity.
Qed.

Theorem stride_filters_length enc start l :
  length (fst (powerpc_code enc start l)) = length l /\
  length (fst (sparc_code enc start l)) = length l /\
  length (fst (arm64_code enc start l)) = length l.
Proof.
  unfold powerpc_code, sparc_code, arm64_code. cbn [fst].
  repeat split; apply stride4_length; auto using ppc_word_len, sparc_word_len, arm64_word_len.
Qed.

(** an unaligned start offset really breaks invertibility (why init rejects it) *)
Lemma arm_unaligned_breaks :
  exists start l, w32 start mod 4 <> 0 /\ bytes_ok l /\
    fst (arm_code false start (fst (arm_code true start l))) <> l.
Proof.
  exists 1, [0; 0; 0; 235]. split; [vm_compute; discriminate|]. split.
  - repeat constructor; unfold byte_ok; lia.
  - vm_compute. discriminate.
Qed.
