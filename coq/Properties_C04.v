(** C04 — no input can make a decoder or parser misbehave.  PARTIAL by
    nature: memory safety / UB / leaks of the C text are runtime behaviours a
    Gallina model cannot exhibit; they are explored under ASan+UBSan with
    assertions enabled.  Proved: the index arithmetic of the decoder's
    circular dictionary stays inside the allocation for every distance the
    decoder lets through (incl. the 32-byte SIMD over-copy and the wrap step),
    with the constants regenerated from the source; and, at the lzma_code
    level, a stalled caller is told after two calls, never an internal code. *)
From XZ Require Import Base LzDict CodeWrap CodeWrapProofs.
From XZ.Gen Require Import Consts.
Local Open Scope N_scope.

Theorem dictionary_constants_are_the_sources :
  RM = 288 /\ INIT_POS = 2 * RM /\ EXTRA = 32 /\ RM mod 32 = 0 /\ c_MATCH_LEN_MAX <= RM.
Proof. exact dict_constants. Qed.
Print Assumptions dictionary_constants_are_the_sources.

Theorem match_copy_stays_inside_the_allocation : forall d distance len simd left,
  left = N.min (limit d - pos d) len ->
  dict_inv d -> distance < full d -> 0 < len -> len <= c_MATCH_LEN_MAX ->
  (simd = true -> left <= distance) ->
  (distance <? pos d = false -> distance + 1 <= pos d + (size d - RM)) /\
  back_index d distance + copied left simd <= size d + EXTRA /\
  pos d + copied left simd <= size d + EXTRA /\
  back_index d distance + left <= size d /\ pos d + left <= limit d.
Proof. intros d distance len simd left. exact (dict_repeat_in_bounds d distance len simd left). Qed.
Print Assumptions match_copy_stays_inside_the_allocation.

Theorem literal_write_stays_inside : forall d, dict_inv d -> pos d < limit d -> pos d < size d /\ 1 <= pos d.
Proof. exact dict_put_in_bounds. Qed.
Print Assumptions literal_write_stays_inside.

Theorem wrap_step_keeps_the_invariant : forall d, dict_inv d -> pos d = size d -> dict_inv (wrap d).
Proof. exact wrap_keeps_invariant. Qed.
Print Assumptions wrap_step_keeps_the_invariant.

Theorem valid_distances_never_exceed_the_dictionary : forall d, dict_inv d -> full d <= size d - INIT_POS.
Proof. exact full_le_dict_size. Qed.
Print Assumptions valid_distances_never_exceed_the_dictionary.

(** a caller that supplies nothing is told so on the second call (for every inner coder) *)
Theorem stalled_caller_is_told : forall inner s c,
  called (code_step inner s c) = true -> iret (inner c) = R_OK -> iin (inner c) = 0 -> iout (inner c) = 0 ->
  allow_buf_error s = true -> ret (code_step inner s c) = R_BUF_ERROR.
Proof.
  intros inner s c Hc Hr Hi Ho Ha.
  destruct (step_inv inner s c) as [[r E]|[q [_ [_ [_ E]]]]]; rewrite E in *; [cbn in Hc; discriminate|].
  unfold post. rewrite Hr, Hi, Ho, Ha. reflexivity.
Qed.
Print Assumptions stalled_caller_is_told.

Theorem internal_timeout_code_never_returned : forall inner s c,
  called (code_step inner s c) = true -> iret (inner c) = R_TIMED_OUT ->
  ret (code_step inner s c) = R_OK /\ allow_buf_error (st (code_step inner s c)) = false.
Proof. exact timed_out_is_ok. Qed.
Print Assumptions internal_timeout_code_never_returned.

Example dict_inv_nonvacuous : dict_inv {| pos := 600; full := 24; limit := 700; size := 4096 + 576; wrapped := false |}.
Proof. unfold dict_inv. vm_compute. repeat split; try discriminate; reflexivity. Qed.
