(** C06 — results do not depend on buffer slicing; encoder output is
    deterministic.  PARTIAL: proved for the resumable machines below; the
    LZMA1/LZMA2/Block/Stream/simple_coder machines and the encoders are
    decided by the differential slicing runs only (see evidence). *)
From XZ Require Import Base Crc CrcProofs Sha256 Sha256Proofs C14Lemmas Bcj Xz VliProofs Slicing CodeWrap CodeWrapProofs.
From XZ.Gen Require Import Sha256Consts.
Local Open Scope N_scope.

Theorem vli_decoder_any_split : forall s a b,
  vli_run s (a ++ b) = let '(s1, ra) := vli_run s a in
                       match s1 with VGo _ _ => vli_run s1 b | _ => (s1, ra ++ b) end.
Proof. exact vli_run_app. Qed.
Print Assumptions vli_decoder_any_split.

Theorem vli_decoder_resumable_is_oneshot : forall l v r,
  vli_decode l = Some (v, r) -> vli_run (VGo 0 0) l = (VDone v, r).
Proof. exact vli_resumable_eq_oneshot. Qed.
Print Assumptions vli_decoder_resumable_is_oneshot.

Theorem delta_coder_any_split : forall f s a b,
  delta_run f s (a ++ b) =
  let '(s1, o1) := delta_run f s a in let '(s2, o2) := delta_run f s1 b in (s2, o1 ++ o2).
Proof. exact delta_run_app. Qed.
Print Assumptions delta_coder_any_split.

Theorem crc32_any_split : forall a b init, crc32 (a ++ b) init = crc32 b (crc32 a init).
Proof. exact crc32_chain. Qed.
Print Assumptions crc32_any_split.

Theorem crc64_any_split : forall a b init, crc64 (a ++ b) init = crc64 b (crc64 a init).
Proof. exact crc64_chain. Qed.
Print Assumptions crc64_any_split.

Theorem sha256_any_chunking : forall chunks,
  sha_finish sha256_K (fold_left (sha_update sha256_K) chunks (sha_init sha256_H0)) = sha256 (concat chunks).
Proof. exact sha_stream_ok. Qed.
Print Assumptions sha256_any_chunking.

(** total_in / total_out are the exact sums over any call history (any slicing) *)
Theorem totals_independent_of_call_pattern : forall inner k s cs,
  let os := run inner k s cs in
  total_in (final_state s os) = total_in s + fold_right (fun o a => din o + a) 0 os /\
  total_out (final_state s os) = total_out s + fold_right (fun o a => dout o + a) 0 os.
Proof. exact totals_are_sums. Qed.
Print Assumptions totals_independent_of_call_pattern.

Example vli_split_example :
  vli_run (fst (vli_run (VGo 0 0) [0x80; 0x81])) [0x02; 7] = (VDone (2 * 16384 + 128), [7]).
Proof. vm_compute. reflexivity. Qed.

(** Encoder side: rc_shift_low may stop in the middle of its loop when the
    output buffer is full and is resumed by the next call.  For every state,
    every sequence of buffer sizes (zero included): once a call completes, the
    state - bytes written included - is that of the unbounded function, i.e. the
    range encoder's output does not depend on how the output space is sliced.
    (Tied to range_encoder.h by the white-box runs of C01 with 0..4-byte buffers.) *)
From XZ Require Import Lzma RcAbs RcDec RcEnc RcSlice.
Theorem range_encoder_is_independent_of_output_slicing : forall grants c c',
  (1 <= ecs c)%nat -> run_r grants c = Some c' -> c' = shift_low c.
Proof. exact shift_low_resumable. Qed.
Print Assumptions range_encoder_is_independent_of_output_slicing.

Example resumable_example :
  run_r [0; 1; 0; 0; 2; 5]%nat {| elow := 4294967296 + 5; ecs := 4; erange := 1; ecache := 17; eor := [9] |}
  = Some (shift_low {| elow := 4294967296 + 5; ecs := 4; erange := 1; ecache := 17; eor := [9] |}).
Proof. vm_compute. reflexivity. Qed.
