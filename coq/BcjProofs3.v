(** Round trips of the ARM-Thumb and ARM64 branch filters. *)
From XZ Require Import Base Bcj BcjProofs BcjProofs2.
Require Import ZifyBool ZifyN.
Local Open Scope N_scope.
Ltac Zify.zify_post_hook ::= Z.div_mod_to_equations.

(** ---------- ARM-Thumb ---------- *)
Definition aligned2 (pos : N) := pos < 4294967296 /\ pos mod 2 = 0.

Lemma aligned2_next2 pos : aligned2 pos -> aligned2 (w32 (pos + 2)).
Proof. unfold aligned2, w32. lia. Qed.
Lemma aligned2_next4 pos : aligned2 pos -> aligned2 (w32 (pos + 4)).
Proof. unfold aligned2, w32. lia. Qed.

Lemma field_rt_2_22 P s : P < 4294967296 -> P mod 2 = 0 -> s < 4194304 ->
  (((2 * ((((P + 2 * s) mod 4294967296) / 2) mod 4194304) + 4294967296 - P mod 4294967296) mod 4294967296) / 2) mod 4194304 = s.
Proof. intros. lia. Qed.

Lemma thumb_go_hit enc pos b0 b1 b2 b3 r : thumb_hit b1 b3 = true ->
  fst (thumb_go enc pos (b0 :: b1 :: b2 :: b3 :: r))
  = thumb_conv enc pos b0 b1 b2 b3 ++ fst (thumb_go enc (w32 (pos + 4)) r).
Proof.
  intro H.
  change (thumb_go enc pos (b0 :: b1 :: b2 :: b3 :: r)) with
    (if thumb_hit b1 b3
     then let '(o, n) := thumb_go enc (w32 (pos + 4)) r in (thumb_conv enc pos b0 b1 b2 b3 ++ o, n + 4)
     else let '(o, n) := thumb_go enc (w32 (pos + 2)) (b2 :: b3 :: r) in (b0 :: b1 :: o, n + 2)).
  rewrite H. destruct (thumb_go enc (w32 (pos + 4)) r). reflexivity.
Qed.

Lemma thumb_go_miss enc pos b0 b1 b2 b3 r : thumb_hit b1 b3 = false ->
  fst (thumb_go enc pos (b0 :: b1 :: b2 :: b3 :: r))
  = b0 :: b1 :: fst (thumb_go enc (w32 (pos + 2)) (b2 :: b3 :: r)).
Proof.
  intro H.
  change (thumb_go enc pos (b0 :: b1 :: b2 :: b3 :: r)) with
    (if thumb_hit b1 b3
     then let '(o, n) := thumb_go enc (w32 (pos + 4)) r in (thumb_conv enc pos b0 b1 b2 b3 ++ o, n + 4)
     else let '(o, n) := thumb_go enc (w32 (pos + 2)) (b2 :: b3 :: r) in (b0 :: b1 :: o, n + 2)).
  rewrite H. destruct (thumb_go enc (w32 (pos + 2)) (b2 :: b3 :: r)). reflexivity.
Qed.

Lemma thumb_go_short enc pos l : (length l < 4)%nat -> fst (thumb_go enc pos l) = l.
Proof.
  intro H. destruct l as [|a [|b [|c [|d r]]]]; try reflexivity. cbn [length] in H. lia.
Qed.

(** the converted word is again a BL pair *)
Lemma thumb_conv_shape enc pos a b c d :
  exists x0 x1 x2 x3, thumb_conv enc pos a b c d = [x0; x1; x2; x3]
    /\ x0 < 256 /\ x1 / 8 = 30 /\ x1 < 256 /\ x2 < 256 /\ x3 / 8 = 31 /\ x3 < 256.
Proof.
  unfold thumb_conv. do 4 eexists. split; [reflexivity|]. lia.
Qed.

Lemma thumb_conv_rt pos a b c d : aligned2 pos -> byte_ok a -> byte_ok b -> byte_ok c -> byte_ok d ->
  thumb_hit b d = true ->
  match thumb_conv true pos a b c d with
  | [x0; x1; x2; x3] => thumb_conv false pos x0 x1 x2 x3
  | _ => []
  end = [a; b; c; d].
Proof.
  unfold aligned2, byte_ok, thumb_hit. intros [Hp Hal] Ha Hb Hc Hd Hh.
  apply andb_prop in Hh. destruct Hh as [Hb8 Hd8]. apply N.eqb_eq in Hb8, Hd8.
  unfold thumb_conv, conv_addr, sub32'.
  set (P := w32 (pos + 4)).
  assert (HP : P < 4294967296 /\ P mod 2 = 0) by (subst P; unfold w32; lia).
  set (s := b mod 8 * 524288 + a * 2048 + d mod 8 * 256 + c).
  assert (Hs : s < 4194304) by (subst s; lia).
  replace (w32 (s * 2)) with (2 * s) by (unfold w32; lia).
  set (D := w32 (P + 2 * s) / 2).
  assert (E : (240 + D / 524288 mod 8) mod 8 * 524288 + D / 2048 mod 256 * 2048
              + (248 + D / 256 mod 8) mod 8 * 256 + D mod 256 = D mod 4194304) by lia.
  rewrite E.
  replace (w32 (D mod 4194304 * 2)) with (2 * (D mod 4194304)) by (unfold w32; lia).
  pose proof (field_rt_2_22 P s (proj1 HP) (proj2 HP) Hs) as F.
  unfold w32 in *. fold D in F.
  set (Y := (2 * (D mod 4194304) + 4294967296 - P mod 4294967296) mod 4294967296) in *.
  clearbody Y D P.
  assert (Q : (Y / 2) / 2048 mod 256 = a /\ 240 + (Y / 2) / 524288 mod 8 = b
              /\ (Y / 2) mod 256 = c /\ 248 + (Y / 2) / 256 mod 8 = d).
  { subst s. clear - F Ha Hb Hc Hd Hb8 Hd8. lia. }
  destruct Q as [Q1 [Q2 [Q3 Q4]]]. rewrite Q1, Q2, Q3, Q4. reflexivity.
Qed.

(** the class (b / 8) of the second byte of what follows is not changed by coding *)
Lemma thumb_go_second enc pos b2 b3 r : exists o2 o3 r',
  fst (thumb_go enc pos (b2 :: b3 :: r)) = o2 :: o3 :: r' /\ o3 / 8 = b3 / 8.
Proof.
  destruct r as [|b4 [|b5 r2]]; try (do 3 eexists; split; reflexivity).
  destruct (thumb_hit b3 b5) eqn:H.
  - rewrite thumb_go_hit by exact H.
    destruct (thumb_conv_shape enc pos b2 b3 b4 b5) as (x0 & x1 & x2 & x3 & E & _ & H1 & _).
    rewrite E. cbn [app]. do 3 eexists. split; [reflexivity|].
    unfold thumb_hit in H. apply andb_prop in H. destruct H as [H _]. apply N.eqb_eq in H. lia.
  - rewrite thumb_go_miss by exact H. do 3 eexists. split; reflexivity.
Qed.

Lemma thumb_go_ok enc : forall n l pos, (length l <= n)%nat -> bytes_ok l ->
  bytes_ok (fst (thumb_go enc pos l)).
Proof.
  induction n as [|n IH]; intros l pos Hn Hl.
  - destruct l; [constructor|cbn [length] in Hn; lia].
  - destruct l as [|b0 [|b1 [|b2 [|b3 r]]]]; try exact Hl.
    inversion Hl as [|? ? H0 Hl1]; subst. inversion Hl1 as [|? ? H1 Hl2]; subst.
    inversion Hl2 as [|? ? H2 Hl3]; subst. inversion Hl3 as [|? ? H3 Hr]; subst.
    cbn [length] in Hn.
    destruct (thumb_hit b1 b3) eqn:H.
    + rewrite thumb_go_hit by exact H.
      destruct (thumb_conv_shape enc pos b0 b1 b2 b3) as (x0 & x1 & x2 & x3 & E & A0 & _ & A1 & A2 & _ & A3).
      rewrite E. cbn [app]. repeat constructor; try assumption.
      apply IH; [lia|exact Hr].
    + rewrite thumb_go_miss by exact H. constructor; [exact H0|]. constructor; [exact H1|].
      apply IH; [cbn [length]; lia|exact Hl2].
Qed.

Lemma thumb_go_rt : forall n l pos, (length l <= n)%nat -> aligned2 pos -> bytes_ok l ->
  fst (thumb_go false pos (fst (thumb_go true pos l))) = l.
Proof.
  induction n as [|n IH]; intros l pos Hn Hp Hl.
  - destruct l; [reflexivity|cbn [length] in Hn; lia].
  - destruct l as [|b0 [|b1 [|b2 [|b3 r]]]]; try reflexivity.
    inversion Hl as [|? ? H0 Hl1]; subst. inversion Hl1 as [|? ? H1 Hl2]; subst.
    inversion Hl2 as [|? ? H2 Hl3]; subst. inversion Hl3 as [|? ? H3 Hr]; subst.
    cbn [length] in Hn.
    destruct (thumb_hit b1 b3) eqn:H.
    + rewrite thumb_go_hit by exact H.
      pose proof (thumb_conv_rt pos b0 b1 b2 b3 Hp H0 H1 H2 H3 H) as RT.
      destruct (thumb_conv_shape true pos b0 b1 b2 b3) as (x0 & x1 & x2 & x3 & E & _ & A1 & _ & _ & A3 & _).
      rewrite E in RT |- *. cbn [app].
      assert (Hx : thumb_hit x1 x3 = true).
      { unfold thumb_hit. rewrite A1, A3. reflexivity. }
      rewrite thumb_go_hit by exact Hx. rewrite RT.
      rewrite IH; [reflexivity|lia|apply aligned2_next4; exact Hp|exact Hr].
    + rewrite thumb_go_miss by exact H.
      destruct (thumb_go_second true (w32 (pos + 2)) b2 b3 r) as (o2 & o3 & r' & E & C).
      assert (Hx : thumb_hit b1 o3 = false).
      { unfold thumb_hit in *. rewrite C. exact H. }
      pose proof (IH (b2 :: b3 :: r) (w32 (pos + 2))) as IH2.
      rewrite E in IH2 |- *.
      rewrite thumb_go_miss by exact Hx. rewrite IH2; [reflexivity|cbn [length]; lia|apply aligned2_next2; exact Hp|exact Hl2].
Qed.

Lemma thumb_go_length enc : forall n l pos, (length l <= n)%nat ->
  length (fst (thumb_go enc pos l)) = length l.
Proof.
  induction n as [|n IH]; intros l pos Hle.
  - destruct l; [reflexivity|cbn [length] in Hle; lia].
  - destruct l as [|b0 [|b1 [|b2 [|b3 r]]]]; try reflexivity.
    cbn [length] in Hle.
    destruct (thumb_hit b1 b3) eqn:H.
    + rewrite thumb_go_hit by exact H.
      destruct (thumb_conv_shape enc pos b0 b1 b2 b3) as (x0 & x1 & x2 & x3 & E & _).
      rewrite E. cbn [app length]. rewrite IH by lia. reflexivity.
    + rewrite thumb_go_miss by exact H. cbn [length]. rewrite IH by (cbn [length]; lia). reflexivity.
Qed.

Theorem armthumb_length enc start l : length (fst (armthumb_code enc start l)) = length l.
Proof.
  unfold armthumb_code. destruct (lenN l <? 4); [reflexivity|].
  apply thumb_go_length with (n := length l). lia.
Qed.

Theorem armthumb_roundtrip start l : aligned2 (w32 start) -> bytes_ok l ->
  fst (armthumb_code false start (fst (armthumb_code true start l))) = l.
Proof.
  intros Hs Hl. unfold armthumb_code.
  destruct (lenN l <? 4) eqn:E.
  - cbn [fst]. rewrite E. reflexivity.
  - assert (L : lenN (fst (thumb_go true (w32 start) l)) = lenN l).
    { unfold lenN. f_equal. apply thumb_go_length with (n := length l). lia. }
    rewrite L, E. apply thumb_go_rt with (n := length l); auto.
Qed.

(** ---------- ARM64 ---------- *)
Lemma put32le_le32 a b c d : byte_ok a -> byte_ok b -> byte_ok c -> byte_ok d ->
  put32le (le32 a b c d) = [a; b; c; d].
Proof.
  unfold byte_ok, put32le, le32. intros.
  replace ((a + 256 * b + 65536 * c + 16777216 * d) mod 256) with a by lia.
  replace ((a + 256 * b + 65536 * c + 16777216 * d) / 256 mod 256) with b by lia.
  replace ((a + 256 * b + 65536 * c + 16777216 * d) / 65536 mod 256) with c by lia.
  replace ((a + 256 * b + 65536 * c + 16777216 * d) / 16777216 mod 256) with d by lia.
  reflexivity.
Qed.

Lemma le32_put32le v : v < 4294967296 ->
  le32 (v mod 256) (v / 256 mod 256) (v / 65536 mod 256) (v / 16777216 mod 256) = v.
Proof. unfold le32. intros. lia. Qed.

Definition adrp_sext (d : N) : N := d mod 262144 + (if d / 131072 mod 2 =? 1 then 1835008 else 0).
Definition adrp_pack (rd d : N) : N :=
  2415919104 + rd + d mod 4 * 536870912 + d / 4 mod 65536 * 32 + (if d / 131072 mod 2 =? 1 then 14680064 else 0).
Definition adrp_src (instr : N) : N := instr / 536870912 mod 4 + instr / 32 mod 524288 * 4.

Lemma adrp_pack_props rd d : rd < 32 ->
  adrp_pack rd d < 4294967296 /\ adrp_pack rd d / 67108864 <> 37 /\ adrp_pack rd d / 2147483648 = 1
  /\ adrp_pack rd d / 16777216 mod 32 = 16 /\ adrp_pack rd d mod 32 = rd
  /\ adrp_src (adrp_pack rd d) = adrp_sext d.
Proof.
  intro Hr. unfold adrp_pack, adrp_src, adrp_sext.
  set (lo := d mod 4). set (mid := d / 4 mod 65536).
  assert (Hlo : lo < 4) by (subst lo; lia). assert (Hmid : mid < 65536) by (subst mid; lia).
  assert (E : d mod 262144 = lo + 4 * mid) by (subst lo mid; lia).
  rewrite E. clearbody lo mid.
  destruct (d / 131072 mod 2 =? 1); clear E; lia.
Qed.

Lemma adrp_sext_range d : (adrp_sext d + 131072) / 262144 mod 8 = 0 /\ adrp_sext d < 2097152.
Proof. unfold adrp_sext. destruct (d / 131072 mod 2 =? 1) eqn:E; lia. Qed.

Lemma adrp_sext_id s : s < 2097152 -> (s + 131072) / 262144 mod 8 = 0 -> adrp_sext s = s.
Proof. unfold adrp_sext. intros. destruct (s / 131072 mod 2 =? 1) eqn:E; lia. Qed.

Lemma adrp_sext_cong a b : a mod 262144 = b mod 262144 -> adrp_sext a = adrp_sext b.
Proof.
  unfold adrp_sext. intro H.
  assert (E : a / 131072 mod 2 = b / 131072 mod 2) by lia.
  rewrite E, H. reflexivity.
Qed.

Lemma adrp_pack_cong rd a b : a mod 262144 = b mod 262144 -> adrp_pack rd a = adrp_pack rd b.
Proof.
  unfold adrp_pack. intro H.
  assert (E : a / 131072 mod 2 = b / 131072 mod 2) by lia.
  assert (E1 : a mod 4 = b mod 4) by lia.
  assert (E2 : a / 4 mod 65536 = b / 4 mod 65536) by lia.
  rewrite E, E1, E2. reflexivity.
Qed.

Lemma adrp_unpack instr : instr < 4294967296 -> instr / 2147483648 = 1 -> instr / 16777216 mod 32 = 16 ->
  (adrp_src instr + 131072) / 262144 mod 8 = 0 ->
  adrp_pack (instr mod 32) (adrp_src instr) = instr.
Proof.
  intros H1 H2 H3. unfold adrp_src, adrp_pack.
  set (lo := instr / 536870912 mod 4). set (hi := instr / 32 mod 524288). set (rd := instr mod 32).
  assert (Hlo : lo < 4) by (subst lo; lia). assert (Hhi : hi < 524288) by (subst hi; lia).
  assert (Hrd : rd < 32) by (subst rd; lia).
  assert (E : instr = rd + 32 * hi + 268435456 + 536870912 * lo + 2147483648) by (subst lo hi rd; lia).
  clearbody lo hi rd. intro R.
  replace ((lo + hi * 4) mod 4) with lo by lia.
  replace ((lo + hi * 4) / 4 mod 65536) with (hi mod 65536) by lia.
  replace ((lo + hi * 4) / 131072 mod 2) with (hi / 32768 mod 2) by lia.
  destruct (hi / 32768 mod 2 =? 1) eqn:B; lia.
Qed.

Lemma adrp_back pc src : pc < 4294967296 -> src < 2097152 ->
  ((adrp_sext ((src + pc) mod 4294967296) + (4294967296 - pc mod 4294967296) mod 4294967296) mod 4294967296) mod 262144
  = src mod 262144.
Proof.
  intros Hp Hs. unfold adrp_sext.
  set (d := (src + pc) mod 4294967296).
  assert (Hd : d < 4294967296) by (subst d; lia).
  assert (E : (d + 4294967296 - pc) mod 262144 = src mod 262144) by (subst d; lia).
  clearbody d.
  destruct (d / 131072 mod 2 =? 1); lia.
Qed.

Lemma arm64_word_len' enc pos a b c d : length (arm64_word enc pos a b c d) = 4%nat.
Proof. apply arm64_word_len. Qed.

Lemma arm64_word_rt pos a b c d : aligned4 pos -> byte_ok a -> byte_ok b -> byte_ok c -> byte_ok d ->
  app4 (arm64_word false) pos (arm64_word true pos a b c d) = [a; b; c; d].
Proof.
  intros [Hp Hal] Ha Hb Hc Hd.
  pose proof (put32le_le32 a b c d Ha Hb Hc Hd) as PL.
  assert (Hi : le32 a b c d < 4294967296) by (unfold le32, byte_ok in *; lia).
  unfold arm64_word at 2. cbv zeta.
  set (instr := le32 a b c d) in *.
  destruct (instr / 67108864 =? 37) eqn:EBL.
  - (* BL *)
    set (I' := 2483027968 + w32 (instr + pos / 4) mod 67108864).
    assert (HI' : I' < 4294967296) by (subst I'; lia).
    unfold put32le. cbn [app4]. unfold arm64_word. cbv zeta.
    rewrite (le32_put32le I' HI').
    assert (E1 : I' / 67108864 =? 37 = true) by (subst I'; lia).
    rewrite E1.
    assert (E2 : 2483027968 + w32 (I' + neg32 (pos / 4)) mod 67108864 = instr).
    { subst I'. unfold neg32, w32. clear - EBL Hi Hp. lia. }
    rewrite E2. exact PL.
  - destruct ((instr / 2147483648 =? 1) && (instr / 16777216 mod 32 =? 16)) eqn:EC.
    + fold (adrp_src instr).
      destruct (negb ((adrp_src instr + 131072) / 262144 mod 8 =? 0)) eqn:ER.
      * cbn [app4]. unfold arm64_word. cbv zeta. fold instr. rewrite EBL, EC.
        fold (adrp_src instr). rewrite ER. reflexivity.
      * assert (H31 : instr / 2147483648 = 1 /\ instr / 16777216 mod 32 = 16) by (clear - EC; lia).
        assert (HR : (adrp_src instr + 131072) / 262144 mod 8 = 0) by (clear - ER; lia).
        assert (Hsrc : adrp_src instr < 2097152) by (clear; unfold adrp_src; lia).
        assert (Hpc : pos / 4096 < 4294967296) by (clear - Hp; lia).
        set (dest := w32 (adrp_src instr + pos / 4096)).
        fold (adrp_pack (instr mod 32) dest).
        assert (Hrd : instr mod 32 < 32) by (clear; lia).
        destruct (adrp_pack_props (instr mod 32) dest Hrd) as (P1 & P2 & P3 & P4 & P5 & P6).
        set (I' := adrp_pack (instr mod 32) dest) in *.
        unfold put32le. cbn [app4]. unfold arm64_word. cbv zeta.
        rewrite (le32_put32le I' P1).
        assert (E1 : I' / 67108864 =? 37 = false) by (clear - P2; lia). rewrite E1.
        assert (E2 : (I' / 2147483648 =? 1) && (I' / 16777216 mod 32 =? 16) = true) by (clear - P3 P4; lia). rewrite E2.
        fold (adrp_src I'). rewrite P6.
        destruct (adrp_sext_range dest) as [R1 R2].
        assert (E3 : negb ((adrp_sext dest + 131072) / 262144 mod 8 =? 0) = false) by (clear - R1; lia). rewrite E3.
        set (dest' := w32 (adrp_sext dest + neg32 (pos / 4096))).
        fold (adrp_pack (I' mod 32) dest'). rewrite P5.
        pose proof (adrp_back (pos / 4096) (adrp_src instr) Hpc Hsrc) as BK.
        assert (EQ : adrp_pack (instr mod 32) dest' = instr).
        { rewrite (adrp_pack_cong _ dest' (adrp_src instr)).
          - apply adrp_unpack; [exact Hi|exact (proj1 H31)|exact (proj2 H31)|exact HR].
          - subst dest' dest. unfold neg32, w32. exact BK. }
        rewrite EQ. exact PL.
    + cbn [app4]. unfold arm64_word. cbv zeta. fold instr. rewrite EBL, EC. reflexivity.
Qed.

Lemma arm64_word_ok enc pos a b c d : byte_ok a -> byte_ok b -> byte_ok c -> byte_ok d ->
  bytes_ok (arm64_word enc pos a b c d).
Proof.
  intros Ha Hb Hc Hd. unfold arm64_word. cbv zeta.
  assert (PO : forall v, bytes_ok (put32le v)).
  { intro v. unfold put32le, bytes_ok, byte_ok. repeat constructor; lia. }
  assert (ID : bytes_ok [a; b; c; d]) by (repeat constructor; assumption).
  destruct (_ =? 37); [apply PO|].
  destruct (_ && _); [|exact ID].
  destruct (negb _); [exact ID|apply PO].
Qed.

Theorem arm64_roundtrip start l : aligned4 (w32 start) -> bytes_ok l ->
  fst (arm64_code false start (fst (arm64_code true start l))) = l.
Proof.
  intros Hs Hl. unfold arm64_code. cbn [fst].
  apply stride4_roundtrip; auto using arm64_word_len, arm64_word_rt, arm64_word_ok.
Qed.
