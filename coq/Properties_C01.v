(** C01 — compression is lossless.  PARTIAL.  The encoder's search
    (match finders, optimum parser) only chooses WHICH valid symbols to emit;
    losslessness of a produced stream is decided per run by decoding it with
    the Coq specification decoder and the library decoder.  Proved here are
    the exact inverse theorems of the filter/integer layers (all inputs);
    and of the range coder (RcAbs/RcDec/RcEnc/RcRoundtrip.v): every bit
    sequence, under every context-selection program, with the adaptive
    probabilities, survives encode-then-decode. *)
From XZ Require Import Base Bcj BcjInst BcjProofs BcjProofs2 BcjProofs3 BcjProofs4 BcjProofs5 Xz VliProofs Bound Lzma RcAbs RcDec RcEnc RcRoundtrip RcCodes LzmaEnc LzmaSym LzmaRun.
Local Open Scope N_scope.

Theorem delta_filter_lossless : forall dist l, bytes_ok l -> delta_decode dist (delta_encode dist l) = l.
Proof. exact delta_roundtrip. Qed.
Print Assumptions delta_filter_lossless.

Theorem arm_filter_lossless : forall start l, aligned4 (w32 start) -> bytes_ok l ->
  fst (arm_code false start (fst (arm_code true start l))) = l.
Proof. exact arm_roundtrip. Qed.
Print Assumptions arm_filter_lossless.

Theorem powerpc_filter_lossless : forall start l, aligned4 (w32 start) -> bytes_ok l ->
  fst (powerpc_code false start (fst (powerpc_code true start l))) = l.
Proof. exact powerpc_roundtrip. Qed.
Print Assumptions powerpc_filter_lossless.

Theorem sparc_filter_lossless : forall start l, aligned4 (w32 start) -> bytes_ok l ->
  fst (sparc_code false start (fst (sparc_code true start l))) = l.
Proof. exact sparc_roundtrip. Qed.
Print Assumptions sparc_filter_lossless.

Theorem arm64_filter_lossless : forall start l, aligned4 (w32 start) -> bytes_ok l ->
  fst (arm64_code false start (fst (arm64_code true start l))) = l.
Proof. exact arm64_roundtrip. Qed.
Print Assumptions arm64_filter_lossless.

Theorem armthumb_filter_lossless : forall start l, aligned2 (w32 start) -> bytes_ok l ->
  fst (armthumb_code false start (fst (armthumb_code true start l))) = l.
Proof. exact armthumb_roundtrip. Qed.
Print Assumptions armthumb_filter_lossless.

Theorem ia64_filter_lossless : forall start l, aligned16 (w32 start) -> bytes_ok l ->
  fst (ia64_code_g false start (fst (ia64_code_g true start l))) = l.
Proof. intros start l. unfold ia64_code_g. apply ia64_roundtrip. Qed.
Print Assumptions ia64_filter_lossless.

Theorem x86_filter_lossless : forall start pp l, bytes_ok l -> pp < 4294967296 -> 5 + lenN l < 4294967296 ->
  xo (x86_code_g false 0 pp start (xo (x86_code_g true 0 pp start l))) = l.
Proof. exact x86_roundtrip. Qed.
Print Assumptions x86_filter_lossless.

Theorem integer_fields_lossless : forall v rest, v <= VLI_MAX -> vli_decode (vli_encode v ++ rest) = Some (v, rest).
Proof. exact vli_decode_encode. Qed.
Print Assumptions integer_fields_lossless.

Theorem filters_preserve_length : forall enc start l,
  length (fst (arm_code enc start l)) = length l /\
  length (fst (powerpc_code enc start l)) = length l /\
  length (fst (sparc_code enc start l)) = length l /\
  length (fst (arm64_code enc start l)) = length l.
Proof.
  intros. split; [apply arm_length|]. apply stride_filters_length.
Qed.
Print Assumptions filters_preserve_length.

(** Range coder.  [encode] is the transcription of rc_reset / rc_shift_low /
    rc_encode / rc_flush (uint64 low, uint32 range, uint8 cache, pending-byte
    counter; carry propagation), [dec_adaptive] the decoder side as Lzma.v
    uses it (rc_init, rc_bit with the shared probability table, rc_direct1).
    No hypothesis: adaptive probabilities stay inside [31, 2017] by themselves. *)
Theorem range_coder_lossless : forall (sel : sel_t) (bs : list bool) (rest : list N),
  let out := encode (enc_trace (adaptive sel) [] bs) in
  exists r0 r' ps',
    rc_init (out ++ rest) = Some r0 /\
    dec_adaptive sel [] (length bs) r0 (PM.empty N) = (bs, r', ps') /\
    rfail r' = false /\
    let rz := rc_normalize r' in
    rcode rz = 0 /\ rin rz = rest /\ rfail rz = false /\ rused rz = N.of_nat (length out).
Proof. exact rc_roundtrip_adaptive. Qed.
Print Assumptions range_coder_lossless.

(** the same for arbitrary (non-adaptive) probabilities inside the legal range *)
Theorem range_coder_lossless_any_probabilities : forall strat bs rest,
  let ds := enc_trace strat [] bs in
  Forall dec_ok ds ->
  exists r0 r',
    rc_init (encode ds ++ rest) = Some r0 /\
    dec_run strat [] (length bs) r0 = (bs, r') /\
    rfail r' = false /\
    let rz := rc_normalize r' in
    rcode rz = 0 /\ rin rz = rest /\ rfail rz = false /\ rused rz = N.of_nat (length (encode ds)).
Proof. exact rc_roundtrip. Qed.
Print Assumptions range_coder_lossless_any_probabilities.

(** what the encoder writes: the big-endian digits of the exact (unbounded)
    low value, first byte zero, one byte per normalisation plus five *)
Theorem range_encoder_output : forall ds, Forall dec_ok ds ->
  let f := afinal ds in encode ds = be_bytes (N.to_nat (aJ f) + 5) (aL f).
Proof. exact encode_is_final_low. Qed.
Print Assumptions range_encoder_output.

Theorem probabilities_stay_in_range : forall p b, prob_ok p -> prob_ok (prob_update p b).
Proof. exact prob_update_ok. Qed.
Print Assumptions probabilities_stay_in_range.

(* non-vacuity: a concrete run *)
Example range_coder_example :
  encode [DBit 1024 true; DBit 992 false; DDirect true; DBit 31 true; DBit 2017 false; DBit 1024 true]
  = [0; 174; 128; 228; 0].
Proof. vm_compute. reflexivity. Qed.

(** LZMA.  [enc_run] serialises a sequence of LZMA symbols (literal, match,
    short rep, long rep 0..3) into range-coder decisions exactly as the
    bit-level part of lzma_encoder.c does (contexts, matched literals, length
    and distance coders, state machine), [enc_eopm] is the end marker,
    [encode] the range encoder.  [lz_run] is the LZMA decoder specification
    (the one the library decoder is checked against in C03).  For EVERY symbol
    sequence that is valid in its state (distances inside the history and
    the dictionary, lengths 2..273), every lc/lp/pb, every starting state:
    the decoder stops with Finished, has rebuilt exactly the LZ77 expansion of
    the symbols (history and output of the encoder-side run), and has consumed
    exactly the encoder's bytes.  Which symbols the real encoder chooses
    (match finder, optimiser) is outside the theorem; that its bytes are this
    serialisation of the symbols they decode to is checked per run. *)
Theorem lzma_symbol_coding_lossless :
  forall (pr : props) (dict_size : N) (allow_eopm : bool)
         (ps0 : probs) (st0 r0 r1 r2 r3 : N) (h0 : hist), all_ok ps0 ->
  forall syms rest fuel,
  let z0 := z_start ps0 st0 r0 r1 r2 r3 h0 None in
  valid_run pr dict_size z0 syms ->
  (length syms < Pos.to_nat fuel)%nat ->
  let er := enc_run pr z0 syms in
  let ds := fst er ++ fst (enc_eopm pr (snd er) (zps (snd er))) in
  exists zs,
    lz_start (encode ds ++ rest) ps0 st0 r0 r1 r2 r3 h0 None = inl zs /\
    let zr := lz_run pr dict_size allow_eopm fuel zs in
    zstatus zr = Finished /\ zout zr = zout (snd er) /\ zhist zr = zhist (snd er) /\
    rin (zrc zr) = rest /\ rused (zrc zr) = N.of_nat (length (encode ds)).
Proof. exact lzma_roundtrip_eopm. Qed.
Print Assumptions lzma_symbol_coding_lossless.

Theorem lzma_symbol_coding_lossless_known_size :
  forall (pr : props) (dict_size : N) (allow_eopm : bool)
         (ps0 : probs) (st0 r0 r1 r2 r3 : N) (h0 : hist), all_ok ps0 ->
  forall syms n rest fuel,
  let z0 := z_start ps0 st0 r0 r1 r2 r3 h0 (Some n) in
  valid_run pr dict_size z0 syms ->
  (length syms < Pos.to_nat fuel)%nat ->
  let er := enc_run pr z0 syms in
  zleft (snd er) = Some 0 ->
  let ds := fst er in
  exists zs,
    lz_start (encode ds ++ rest) ps0 st0 r0 r1 r2 r3 h0 (Some n) = inl zs /\
    let zr := lz_run pr dict_size allow_eopm fuel zs in
    same (with_status (snd er) Finished) zr /\
    zstatus zr = Finished /\ zout zr = zout (snd er) /\ zhist zr = zhist (snd er) /\
    rin (zrc zr) = rest /\ rused (zrc zr) = N.of_nat (length (encode ds)).
Proof. exact lzma_roundtrip_known_size. Qed.
Print Assumptions lzma_symbol_coding_lossless_known_size.

(* non-vacuity: a concrete symbol sequence meets the hypotheses and decodes as claimed *)
Definition ex_pr : props := {| lc := 3; lp := 0; pb := 2 |}.
Definition ex_syms : list lsym :=
  [SLit 97; SLit 98; SLit 99; SMatch 2 5; SShortRep; SLit 100; SLongRep 0 3; SMatch 0 2; SLongRep 1 4; SLit 0].
Example lzma_example_valid : valid_run ex_pr 4096 (z_init None) ex_syms.
Proof. vm_compute. repeat split; try reflexivity; try (intro H; discriminate H); try (left; reflexivity); auto. Qed.
Example lzma_example_decodes :
  let er := enc_run ex_pr (z_init None) ex_syms in
  let bytes := encode (fst er ++ fst (enc_eopm ex_pr (snd er) (zps (snd er)))) in
  match lz_start (bytes ++ [1; 2; 3]) (PM.empty N) 0 0 0 0 0 hist_empty None with
  | inl zs => let zr := lz_run ex_pr 4096 false 64 zs in
              (zstatus zr, rev (zout zr), rin (zrc zr))
  | inr _ => (DataError, [], [])
  end = (Finished, [97; 98; 99; 97; 98; 99; 97; 98; 99; 100; 98; 99; 100; 100; 100; 100; 100; 100; 100; 0], [1; 2; 3]).
Proof. vm_compute. reflexivity. Qed.

(** LZMA2.  [chunks_bytes] frames LZMA-coded and stored chunks as lzma2_encoder.c
    does (control byte with reset level and size bits, sizes minus one, optional
    properties byte), [l2_run] is the LZMA2 decoder specification.  For every
    chunk sequence that is encodable in its state (sizes within the format
    limits, properties/dictionary resets where the decoder needs them, valid
    symbols), followed by the end byte: Finished, output = the expansions in
    order, exactly the encoder's bytes consumed. *)
From XZ Require Import Lzma2 Lzma2Enc.
Theorem lzma2_stream_lossless : forall dict_size fuel cs (s : l2) rest,
  l2status s = Running ->
  chunks_ok dict_size fuel (norm s) cs ->
  l2in s = chunks_bytes (norm s) cs ++ 0 :: rest ->
  (length cs < Pos.to_nat fuel)%nat ->
  let r := l2_run dict_size fuel s in
  l2status r = Finished /\ l2in r = rest /\
  l2out r = l2out (chunks_final (norm s) cs) /\
  l2used r = l2used s + lenN (chunks_bytes (norm s) cs) + 1.
Proof. exact lzma2_stream_roundtrip. Qed.
Print Assumptions lzma2_stream_lossless.

(* non-vacuity: an LZMA chunk with dictionary reset, a stored chunk, an LZMA chunk continuing the state *)
Definition ex_chunks : list l2chunk :=
  [KL 3 93 [SLit 97; SLit 98; SLit 99; SMatch 2 5; SShortRep];
   KU false [1; 2; 3; 4];
   KL 0 0 [SLit 100; SLongRep 0 3; SMatch 0 2]].
Ltac comp_goal := vm_compute; repeat split; try reflexivity; try (let H := fresh in intro H; discriminate H); try (left; reflexivity); auto.
Lemma ex_ps_ok s p z syms : all_ok (zps z) -> valid_run p 4096 z syms -> l2ps s = zps (snd (enc_run p z syms)) -> all_ok (l2ps s).
Proof. intros H V E. rewrite E. exact (proj2 (enc_run_ok p 4096 syms z H V)). Qed.

Example lzma2_example_ok : chunks_ok 4096 64 (norm (l2_init [] [])) ex_chunks.
Proof.
  set (s0 := norm (l2_init [] [])).
  assert (C1 : chunk_ok 4096 64 s0 (KL 3 93 [SLit 97; SLit 98; SLit 99; SMatch 2 5; SShortRep])).
  { cbn [chunk_ok]. replace (kl_props s0 3 93) with (Some ex_pr) by (vm_compute; reflexivity).
    constructor; [lia|vm_compute; reflexivity|intro H; lia|intro H; lia|apply all_ok_empty| | | | |];
      [vm_compute; split; intro H; discriminate H|comp_goal|vm_compute; reflexivity|vm_compute; split; intro H; discriminate H|vm_compute; lia]. }
  cbn [chunks_ok ex_chunks]. split; [exact C1|].
  set (s1 := norm (chunk_after s0 (KL 3 93 [SLit 97; SLit 98; SLit 99; SMatch 2 5; SShortRep]) [])).
  split; [split; [vm_compute; split; intro H; discriminate H|intro; reflexivity]|].
  set (s2 := norm (chunk_after s1 (KU false [1; 2; 3; 4]) [])).
  split; [|exact I].
  cbn [chunk_ok]. replace (kl_props s2 0 0) with (Some ex_pr) by (vm_compute; reflexivity).
  constructor; [lia|vm_compute; reflexivity|intro H; reflexivity|intro H; reflexivity| | | | | |].
  - apply (ex_ps_ok s2 ex_pr (kl_start s0 3 9) [SLit 97; SLit 98; SLit 99; SMatch 2 5; SShortRep]).
    + apply all_ok_empty.
    + comp_goal.
    + vm_compute. reflexivity.
  - vm_compute; split; intro H; discriminate H.
  - comp_goal.
  - vm_compute; reflexivity.
  - vm_compute; split; intro H; discriminate H.
  - vm_compute; lia.
Qed.

Example lzma2_example_decodes :
  lzma2_decode 4096 64 (chunks_bytes (norm (l2_init [] [])) ex_chunks ++ [0; 77]) =
  (Finished, [97; 98; 99; 97; 98; 99; 97; 98; 99; 1; 2; 3; 4; 100; 3; 4; 100; 100; 100],
   lenN (chunks_bytes (norm (l2_init [] [])) ex_chunks) + 1).
Proof. vm_compute. reflexivity. Qed.
