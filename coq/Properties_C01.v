(** C01 — compression is lossless.  PARTIAL.  The encoder's search
    (match finders, optimum parser) only chooses WHICH valid symbols to emit;
    losslessness of a produced stream is decided per run by decoding it with
    the Coq specification decoder and the library decoder.  Proved here are
    the exact inverse theorems of the filter/integer layers (all inputs);
    the range-coder theorems are in Properties_C01 as they are completed
    (see RangeCoder.v). *)
From XZ Require Import Base Bcj BcjProofs Xz VliProofs Bound.
Local Open Scope N_scope.

Theorem delta_filter_lossless : forall dist l, bytes_ok l -> delta_decode dist (delta_encode dist l) = l.
Proof. exact delta_roundtrip. Qed.
Print Assumptions delta_filter_lossless.

Theorem arm_filter_lossless : forall start l, aligned4 (w32 start) -> bytes_ok l ->
  fst (arm_code false start (fst (arm_code true start l))) = l.
Proof. exact arm_roundtrip. Qed.
Print Assumptions arm_filter_lossless.

Theorem integer_fields_lossless : forall v rest, v <= VLI_MAX -> vli_decode (vli_encode v ++ rest) = Some (v, rest).
Proof. exact vli_decode_encode. Qed.
Print Assumptions integer_fields_lossless.

Theorem filters_preserve_length : forall enc start l,
  length (fst (arm_code enc start l)) = length l /\
  length (fst (powerpc_code enc start l)) = length l /\
  length (fst (sparc_code enc start l)) = length l /\
  length (fst (arm64_code enc start l)) = length l.
Proof.
  intros. split; [apply arm_length|]. apply stride_filters_length.
Qed.
Print Assumptions filters_preserve_length.
