(** The pieces of xzgrep.in the ShQuote model was transcribed from, as reviewed
    literals; Gen/Scripts.v is regenerated from the current script on every
    run and must be identical, otherwise the model no longer speaks about
    the script. *)
From XZ Require Import Base ShQuote ShQuoteProofs.
From XZ.Gen Require Import Scripts.
Local Open Scope N_scope.

(* the sed program named escape: substitute every single quote by quote-backslash-quote-quote,
   then turn the X on the last line into a quote *)
Definition expected_escape_program : list N :=
 [32; 32; 115; 47; 39; 92; 39; 39; 47; 39; 92; 39; 39; 92; 92; 39; 92; 39; 39; 39; 92; 39; 39; 47; 103; 10; 32; 32; 36; 115; 47; 88; 36; 47; 39; 92; 39; 39; 47].

(* the per-file status accumulation block (comments and indentation removed) *)
Definition expected_status_block : list N :=
 [114; 61; 36; 63; 10; 116; 101; 115; 116; 32; 34; 36; 114; 34; 32; 45; 103; 101; 32; 49; 50; 56; 32; 38; 38; 32; 101; 120; 105; 116; 32; 34; 36; 114; 34; 10; 105; 102; 32; 116; 101; 115; 116; 32; 45; 122; 32; 34; 36; 120; 122; 95; 115; 116; 97; 116; 117; 115; 34; 59; 32; 116; 104; 101; 110; 10; 101; 120; 105; 116; 32; 50; 10; 101; 108; 105; 102; 32; 116; 101; 115; 116; 32; 34; 36; 120; 122; 95; 115; 116; 97; 116; 117; 115; 34; 32; 45; 103; 101; 32; 49; 50; 56; 59; 32; 116; 104; 101; 110; 10; 116; 101; 115; 116; 32; 34; 36; 40; 107; 105; 108; 108; 32; 45; 108; 32; 34; 36; 120; 122; 95; 115; 116; 97; 116; 117; 115; 34; 32; 50; 62; 32; 47; 100; 101; 118; 47; 110; 117; 108; 108; 41; 34; 32; 33; 61; 32; 34; 80; 73; 80; 69; 34; 32; 38; 38; 32; 101; 120; 105; 116; 32; 34; 36; 120; 122; 95; 115; 116; 97; 116; 117; 115; 34; 10; 101; 108; 105; 102; 32; 116; 101; 115; 116; 32; 34; 36; 120; 122; 95; 115; 116; 97; 116; 117; 115; 34; 32; 45; 103; 116; 32; 48; 59; 32; 116; 104; 101; 110; 10; 116; 101; 115; 116; 32; 34; 36; 114; 34; 32; 45; 108; 116; 32; 50; 32; 38; 38; 32; 114; 61; 50; 10; 102; 105; 10; 105; 102; 32; 116; 101; 115; 116; 32; 34; 36; 114; 34; 32; 45; 103; 101; 32; 50; 59; 32; 116; 104; 101; 110; 10; 116; 101; 115; 116; 32; 34; 36; 114; 101; 115; 34; 32; 45; 108; 116; 32; 34; 36; 114; 34; 32; 38; 38; 32; 114; 101; 115; 61; 36; 114; 10; 101; 108; 105; 102; 32; 116; 101; 115; 116; 32; 34; 36; 114; 34; 32; 45; 101; 113; 32; 48; 59; 32; 116; 104; 101; 110; 10; 116; 101; 115; 116; 32; 34; 36; 114; 101; 115; 34; 32; 45; 101; 113; 32; 49; 32; 38; 38; 32; 114; 101; 115; 61; 48; 10; 102; 105; 10; 100; 111; 110; 101].

Lemma script_text_is_the_modelled_one :
  xzgrep_escape_program = expected_escape_program /\ xzgrep_status_block = expected_status_block.
Proof. split; vm_compute; reflexivity. Qed.
