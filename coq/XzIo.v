(** Ordering logic of xz's io_close (src/xz/file_io.c) when a file is
    replaced: every step's outcome is supplied by an arbitrary fault oracle.
    Steps in program order: pending sparse tail (seek + 1-byte write),
    [copy attributes: warnings only], fsync(file), fsync(dir), close(dest)
    (on failure or !success: unlink dest), close(src), unlink(src) iff
    success and not --keep. *)
From XZ Require Import Base.

Record faults := {
  coding_ok : bool;       (* the coder finished successfully and all data was written *)
  has_tail : bool;        (* a sparse hole is pending at the end *)
  tail_seek_ok : bool; tail_write_ok : bool;
  sync_enabled : bool; fsync_file_ok : bool; fsync_dir_ok : bool;
  close_dest_ok : bool;
  keep : bool
}.

Record result := {
  dest_complete : bool;      (* all bytes incl. the tail are in the file *)
  dest_synced : bool;
  dest_closed_ok : bool;
  dest_unlinked : bool;
  src_unlinked : bool;
  failure_reported : bool
}.

Definition io_close_model (f : faults) : result :=
  let success0 := coding_ok f in
  (* sparse tail *)
  let tail_ok := if success0 && has_tail f then tail_seek_ok f && tail_write_ok f else true in
  let success1 := success0 && tail_ok in
  (* attributes: warnings only; then synchronise *)
  let sync_ok := if success1 && sync_enabled f then fsync_file_ok f && fsync_dir_ok f else true in
  let success2 := success1 && sync_ok in
  (* close the destination first *)
  let close_failed := negb (close_dest_ok f) in
  let dest_unl := close_failed || negb success2 in
  let success3 := success2 && negb close_failed in
  {| dest_complete := success1;
     dest_synced := success1 && sync_enabled f && sync_ok;
     dest_closed_ok := close_dest_ok f;
     dest_unlinked := dest_unl;
     src_unlinked := success3 && negb (keep f);
     failure_reported := negb success3 |}.
