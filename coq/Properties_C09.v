(** C09 — memory limits are honoured and memory estimates are upper bounds.
    PARTIAL: proved is the arithmetic that makes the decoder's real dictionary
    allocation (at least 4096 bytes, rounded up to 16, plus the repeat area)
    exceed the reported usage by less than the fixed allowance
    LZMA_MEMUSAGE_BASE, with all constants regenerated from the source.  The
    limit protocol (MEMLIMIT_ERROR before allocating, usage reported, continue
    after raising with identical result) and "estimate >= measured peak" are
    decided with a counting allocator on the real library. *)
From XZ Require Import Base Lzma2 VliProofs Resource.
From XZ.Gen Require Import Consts.
Local Open Scope N_scope.

Theorem dictionary_allocation_within_reported_usage_plus_allowance : forall d,
  lz_alloc d <= lz_reported d + 4111 /\ 4111 < c_LZMA_MEMUSAGE_BASE /\ lz_reported d <= lz_alloc d.
Proof. exact dict_alloc_within_allowance. Qed.
Print Assumptions dictionary_allocation_within_reported_usage_plus_allowance.

Theorem effective_dictionary_bounds : forall d,
  d <= eff_dict d /\ 4096 <= eff_dict d /\ eff_dict d mod 16 = 0 /\ eff_dict d < N.max d 4096 + 16.
Proof. exact eff_dict_bounds. Qed.
Print Assumptions effective_dictionary_bounds.
