From XZ Require Import Base XzSparse.
Local Open Scope nat_scope.

Lemma zeros_length n : length (zeros n) = n.
Proof. unfold zeros. induction n; cbn; auto. Qed.
Lemma zeros_app a b : zeros (a + b) = zeros a ++ zeros b.
Proof. unfold zeros. induction a; cbn; [reflexivity|]. rewrite IHa. reflexivity. Qed.
Lemma all_zero_is_zeros l : all_zero l = true -> l = zeros (length l).
Proof.
  induction l as [|x l IH]; cbn; [reflexivity|]. intro H. apply andb_true_iff in H as [A B].
  apply N.eqb_eq in A. subst x. unfold zeros in *. cbn. f_equal. apply IH. exact B.
Qed.

(** writing at (or beyond) the end of the file appends, with the gap read as zeros *)
Lemma write_at_end f gap bs : fpos f = length (fdata f) + gap ->
  f_write f bs = {| fdata := fdata f ++ zeros gap ++ bs; fpos := length (fdata f) + gap + length bs; pending := pending f |}.
Proof.
  intro H. unfold f_write. rewrite H.
  replace (length (fdata f) + gap - length (fdata f)) with gap by lia.
  assert (L : length (fdata f ++ zeros gap) = length (fdata f) + gap) by (rewrite app_length, zeros_length; reflexivity).
  rewrite firstn_all2 by lia. rewrite skipn_all2 by lia. rewrite app_nil_r, <- app_assoc. reflexivity.
Qed.

Section P.
Variables BUF pending_max : nat.

(** invariant: what has been "written" so far, holes included, is data ++ zeros pending, and the position is the end *)
Definition inv (f : fstate) (virt : list N) : Prop :=
  fpos f = length (fdata f) /\ virt = fdata f ++ zeros (pending f).

Lemma io_write_inv f virt buf : inv f virt -> inv (io_write BUF pending_max f buf) (virt ++ buf).
Proof.
  intros [Hp Hv]. unfold io_write.
  destruct ((length buf =? BUF) && all_zero buf && (pending f <? pending_max)) eqn:E.
  - apply andb_true_iff in E as [E _]. apply andb_true_iff in E as [_ Z].
    split; cbn [fpos fdata pending]; [exact Hp|].
    rewrite Hv, zeros_app, <- app_assoc. f_equal. f_equal. apply all_zero_is_zeros. exact Z.
  - destruct (negb (length buf =? BUF) && (length buf =? 0)) eqn:E0.
    + apply andb_true_iff in E0 as [_ Z]. apply Nat.eqb_eq in Z. destruct buf; [|discriminate].
      rewrite app_nil_r. split; assumption.
    + destruct (0 <? pending f) eqn:Ep.
      * rewrite (write_at_end _ (pending f)) by (cbn [fpos fdata]; lia).
        cbn [fdata pending]. split; cbn [fpos fdata pending].
        -- rewrite !app_length, zeros_length. lia.
        -- rewrite Hv. cbn [zeros repeatN]. rewrite app_nil_r, <- !app_assoc. reflexivity.
      * apply Nat.ltb_ge in Ep. assert (pending f = 0) by lia.
        rewrite (write_at_end _ 0) by lia. cbn [zeros repeatN app]. split; cbn [fpos fdata pending].
        -- rewrite app_length. lia.
        -- rewrite Hv, H. cbn [zeros repeatN]. rewrite !app_nil_r. reflexivity.
Qed.

Lemma fold_inv bufs : forall f virt, inv f virt -> inv (fold_left (io_write BUF pending_max) bufs f) (virt ++ concat bufs).
Proof.
  induction bufs as [|b bs IH]; intros f virt H; cbn [fold_left concat].
  - rewrite app_nil_r. exact H.
  - rewrite app_assoc. apply IH. apply io_write_inv. exact H.
Qed.

(** Whatever the buffers contain (leading, trailing, all-zero data; any sizes), starting at the end of a
    regular file the final content is exactly the initial content followed by all the buffers, and the
    final size is exact. *)
Theorem sparse_write_exact initial bufs :
  let f0 := {| fdata := initial; fpos := length initial; pending := 0 |} in
  let f := run BUF pending_max f0 bufs in
  fdata f = initial ++ concat bufs /\ fpos f = length (initial ++ concat bufs) /\ pending f = 0.
Proof.
  cbv zeta. unfold run.
  assert (I0 : inv {| fdata := initial; fpos := length initial; pending := 0 |} initial).
  { split; cbn; [reflexivity|]. rewrite app_nil_r. reflexivity. }
  pose proof (fold_inv bufs _ _ I0) as [Hp Hv].
  set (f := fold_left (io_write BUF pending_max) bufs _) in *.
  unfold io_close. destruct (0 <? pending f) eqn:E.
  - apply Nat.ltb_lt in E.
    rewrite (write_at_end _ (pending f - 1)) by (cbn [fpos fdata]; lia).
    cbn [fdata fpos pending]. rewrite Hv.
    replace (zeros (pending f)) with (zeros (pending f - 1) ++ [0%N]).
    2:{ replace (pending f) with ((pending f - 1) + 1) at 2 by lia. rewrite zeros_app. reflexivity. }
    split; [reflexivity|]. split; [|reflexivity].
    rewrite !app_length, zeros_length. cbn [length]. lia.
  - apply Nat.ltb_ge in E. assert (P0 : pending f = 0) by lia.
    assert (Hd : fdata f = initial ++ concat bufs).
    { rewrite Hv, P0. cbn [zeros repeatN]. rewrite app_nil_r. reflexivity. }
    split; [exact Hd|]. split; [rewrite Hp, Hd; reflexivity|exact P0].
Qed.
End P.
