(** Index arithmetic of the LZ decoder's circular dictionary
    (src/liblzma/lz/lz_decoder.h: dict_get, dict_put, dict_repeat incl. the
    32-byte-at-a-time copy; lz_decoder.c: the wrap step of decode_buffer).
    Positions only; the contents are covered by the specification's history.
    Every index read or written is shown to stay inside the allocation
    (size + LZ_DICT_EXTRA) for all distances the decoder lets through. *)
From XZ Require Import Base.
From XZ.Gen Require Import Consts.
Require Import ZifyBool ZifyN.
Local Open Scope N_scope.
Ltac Zify.zify_post_hook ::= Z.div_mod_to_equations.

Definition RM := c_LZ_DICT_REPEAT_MAX.   (* 288 *)
Definition INIT_POS := c_LZ_DICT_INIT_POS.
Definition EXTRA := c_LZ_DICT_EXTRA.

Lemma dict_constants : RM = 288 /\ INIT_POS = 2 * RM /\ EXTRA = 32 /\ RM mod 32 = 0 /\ c_MATCH_LEN_MAX <= RM.
Proof. vm_compute. repeat split; try reflexivity; discriminate. Qed.

Record dict := { pos : N; full : N; limit : N; size : N; wrapped : bool }.

(** invariant maintained by lz_decoder_reset / decode_buffer / dict_put / dict_repeat *)
Definition dict_inv (d : dict) : Prop :=
  INIT_POS + 16 <= size d /\ RM <= pos d /\ pos d <= limit d /\ limit d <= size d /\
  (if wrapped d then full d = size d - INIT_POS else (INIT_POS <= pos d /\ full d = pos d - INIT_POS)).

(** read index of dict_get / start index of dict_repeat *)
Definition back_index (d : dict) (distance : N) : N :=
  if distance <? pos d then pos d - distance - 1 else pos d + (size d - RM) - distance - 1.

(** number of bytes the copy loop really touches: exact, or rounded up to 32 by the SIMD copy *)
Definition copied (left : N) (simd : bool) : N := if simd then ((left + 31) / 32) * 32 else left.

Theorem dict_repeat_in_bounds d distance len simd :
  forall left, left = N.min (limit d - pos d) len ->
  dict_inv d -> distance < full d -> 0 < len -> len <= c_MATCH_LEN_MAX ->
  (* the SIMD variant is only used when distance >= left *)
  (simd = true -> left <= distance) ->
  (* subtraction in back_index never wraps *)
  (distance <? pos d = false -> distance + 1 <= pos d + (size d - RM)) /\
  (* every read and every write stays inside the allocation *)
  back_index d distance + copied left simd <= size d + EXTRA /\
  pos d + copied left simd <= size d + EXTRA /\
  (* and the non-SIMD paths stay inside [0, size) *)
  back_index d distance + left <= size d /\ pos d + left <= limit d.
Proof.
  destruct dict_constants as [HRM [HIP [HEX _]]].
  unfold dict_inv, back_index, copied. intros left Hleft [Hs [Hp [Hl [Hls Hf]]]] Hd Hlen Hmax Hsimd.
  assert (Hmm : c_MATCH_LEN_MAX = 273) by reflexivity.
  rewrite HIP, HRM in *. rewrite HEX.
  subst left.
  destruct (wrapped d); destruct (distance <? pos d) eqn:E; destruct simd;
    try (specialize (Hsimd eq_refl)); repeat split; try discriminate; intros; lia.
Qed.

(** dict_put / dict_get(0): one byte *)
Theorem dict_put_in_bounds d : dict_inv d -> pos d < limit d -> pos d < size d /\ 1 <= pos d.
Proof. destruct dict_constants as [HRM _]. unfold dict_inv. rewrite HRM. intros [Hs [Hp [Hl [Hls Hf]]]] H. lia. Qed.

(** the wrap step keeps the invariant: pos := REPEAT_MAX, has_wrapped := true *)
Definition wrap (d : dict) : dict :=
  {| pos := RM; full := size d - INIT_POS; limit := RM; size := size d; wrapped := true |}.
Theorem wrap_keeps_invariant d : dict_inv d -> pos d = size d -> dict_inv (wrap d).
Proof.
  destruct dict_constants as [HRM [HIP _]].
  unfold dict_inv, wrap. cbn [pos full limit size wrapped]. rewrite HIP, HRM in *.
  intros [Hs [Hp [Hl [Hls Hf]]]] He. repeat split; lia.
Qed.

(** full never exceeds the dictionary size proper *)
Theorem full_le_dict_size d : dict_inv d -> full d <= size d - INIT_POS.
Proof.
  destruct dict_constants as [HRM [HIP _]]. unfold dict_inv. rewrite HIP, HRM in *.
  intros [Hs [Hp [Hl [Hls Hf]]]]. destruct (wrapped d); lia.
Qed.
