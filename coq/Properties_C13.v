(** C13 — the Index and file-info APIs describe files exactly; random access
    is correct.  The property's own oracle, the list-of-records model, is
    IndexModel.v; the real API is compared with it on every run.  Proved
    here (for every index value of the model): refused operations change
    nothing, accepted appends respect the format limits, concatenation is
    list concatenation with additive totals, iteration visits every Block
    exactly once in order, and locate is sound and complete.
    PARTIAL: the AVL-tree/group implementation and the file_info state
    machine are tied to the model only by the correspondence runs. *)
From XZ Require Import Base Xz IndexModel IndexProofs.
Local Open Scope N_scope.

Theorem refused_operations_change_nothing :
  (forall i u v, fst (m_append i u v) <> 0 -> snd (m_append i u v) = i) /\
  (forall i p, fst (m_stream_padding i p) <> 0 -> snd (m_stream_padding i p) = i) /\
  (forall i c, fst (m_stream_flags i c) <> 0 -> snd (m_stream_flags i c) = i) /\
  (forall a b, fst (m_cat a b) <> 0 -> snd (m_cat a b) = a).
Proof.
  repeat split; [exact append_refused_unchanged|exact padding_refused_unchanged|exact flags_refused_unchanged|exact cat_refused_unchanged].
Qed.
Print Assumptions refused_operations_change_nothing.

Theorem accepted_append_respects_limits : forall i u v, fst (m_append i u v) = 0 ->
  5 <= u <= UNPADDED_MAX /\ v <= VLI_MAX /\
  uncompressed_size i + v <= VLI_MAX /\
  blocks_size (recs (last_stream i)) + u <= UNPADDED_MAX.
Proof. exact append_ok_limits. Qed.
Print Assumptions accepted_append_respects_limits.

Theorem concatenation_is_list_append_with_additive_totals :
  (forall a b, fst (m_cat a b) = 0 -> snd (m_cat a b) = a ++ b) /\
  (forall a b, block_count (a ++ b) = block_count a + block_count b /\
               stream_count (a ++ b) = stream_count a + stream_count b /\
               uncompressed_size (a ++ b) = uncompressed_size a + uncompressed_size b /\
               total_size (a ++ b) = total_size a + total_size b /\
               file_size (a ++ b) = file_size a + file_size b).
Proof. split; [exact cat_ok_is_concatenation|exact cat_totals]. Qed.
Print Assumptions concatenation_is_list_append_with_additive_totals.

Theorem iteration_visits_each_block_once_in_order : forall i,
  lenN (all_blocks i) = block_count i /\
  map (fun b => (b_unpadded b, b_uncomp b)) (all_blocks i) = all_recs i.
Proof. intro i. split; [apply iteration_visits_every_block_once|apply iteration_yields_the_records_in_order]. Qed.
Print Assumptions iteration_visits_each_block_once_in_order.

Theorem locate_returns_a_nonempty_block_containing_the_offset : forall i t b, locate i t = Some b ->
  In b (all_blocks i) /\ b_uncomp_file_off b <= t < b_uncomp_file_off b + b_uncomp b /\ 0 < b_uncomp b.
Proof. exact locate_sound. Qed.
Print Assumptions locate_returns_a_nonempty_block_containing_the_offset.

Theorem locate_finds_every_offset_below_the_size : forall i t,
  t < uncompressed_size i -> exists b, locate i t = Some b.
Proof. exact locate_complete. Qed.
Print Assumptions locate_finds_every_offset_below_the_size.

Example locate_example :
  let i := snd (m_append (snd (m_append (snd (m_append m_init 100 1000)) 5 0)) 77 50) in
  option_map b_in_file (locate i 1000) = Some 3 /\ locate i 1050 = None /\ file_size i = 228.
Proof. vm_compute. repeat split; reflexivity. Qed.

(** every index that can be built with the API has a total uncompressed size that is a valid VLI
    (what lzma_index_cat's limit check relies on; false for the pinned lzma_index_append, see known_findings) *)
Theorem total_uncompressed_size_stays_a_vli : forall i, reachable i -> uncompressed_size i <= VLI_MAX.
Proof. intros i H. exact (proj2 (reachable_total_is_vli i H)). Qed.
Print Assumptions total_uncompressed_size_stays_a_vli.
