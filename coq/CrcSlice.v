(** Model of lzma_crc32_generic (slice-by-8) and lzma_crc64_generic
    (slice-by-4) of crc32_fast.c / crc64_fast.c, little-endian: alignment
    prologue, word loop, byte tail; and the proof that for every data and
    every misalignment they equal the bit-at-a-time definition, given that
    every table entry equals its definition (discharged for the tables
    generated from the source in Properties_C14). *)
From XZ Require Import Base Crc CrcProofs.
Local Open Scope N_scope.

(** ---- word-size bounds ---- *)
Lemma lt_pow2_land x n : x < 2 ^ n <-> N.land x (N.ones n) = x.
Proof.
  rewrite N.land_ones. split; intro H.
  - apply N.mod_small; exact H.
  - rewrite <- H. apply N.mod_lt. apply N.pow_nonzero. lia.
Qed.

Lemma lxor_lt a b n : a < 2 ^ n -> b < 2 ^ n -> N.lxor a b < 2 ^ n.
Proof.
  rewrite !lt_pow2_land. intros Ha Hb.
  apply N.bits_inj; intro i.
  assert (Ha' := f_equal (fun x => N.testbit x i) Ha).
  assert (Hb' := f_equal (fun x => N.testbit x i) Hb).
  cbn beta in Ha', Hb'. rewrite N.land_spec in Ha', Hb'.
  rewrite N.land_spec, !N.lxor_spec.
  destruct (N.testbit a i), (N.testbit b i), (N.testbit (N.ones n) i); cbn in *; congruence.
Qed.

Lemma shiftr_lt a k n : a < 2 ^ n -> N.shiftr a k < 2 ^ n.
Proof.
  intro H. rewrite N.shiftr_div_pow2.
  eapply N.le_lt_trans; [|exact H]. apply N.div_le_upper_bound; [apply N.pow_nonzero; lia|].
  rewrite <- (N.mul_1_l a) at 1. apply N.mul_le_mono_r.
  pose proof (N.pow_nonzero 2 k). lia.
Qed.

Lemma shiftl_lt a k n m : a < 2 ^ n -> n + k <= m -> N.shiftl a k < 2 ^ m.
Proof.
  intros H L. rewrite N.shiftl_mul_pow2.
  apply N.lt_le_trans with (2 ^ n * 2 ^ k).
  - apply N.mul_lt_mono_pos_r; [|exact H]. pose proof (N.pow_nonzero 2 k); lia.
  - rewrite <- N.pow_add_r. apply N.pow_le_mono_r; lia.
Qed.


Section S.
Variable poly : N.
Variable T : list (list N).
Notation steps := (steps poly).

Definition tab (s : nat) (i : N) : N := nth (N.to_nat i) (nth s T []) 0.
Definition bA x := N.land x 255.
Definition bB x := N.land (N.shiftr x 8) 255.
Definition bC x := N.land (N.shiftr x 16) 255.
Definition bD x := N.shiftr x 24.

(** byte loop: crc = table[0][*buf++ ^ A(crc)] ^ S8(crc) *)
Definition byte_tab (c b : N) : N := N.lxor (tab 0 (N.lxor b (bA c))) (N.shiftr c 8).
Definition bytes_tab (c : N) (d : list N) : N := fold_left byte_tab d c.

Definition lookup4 (base : nat) (x : N) : N :=
  N.lxor (N.lxor (N.lxor (tab (base + 3) (bA x)) (tab (base + 2) (bB x)))
                 (tab (base + 1) (bC x))) (tab base (bD x)).

(** aligned_read32ne on a little-endian machine *)
Definition rd32 (b0 b1 b2 b3 : N) : N :=
  N.lxor (N.lxor (N.lxor b0 (N.shiftl b1 8)) (N.shiftl b2 16)) (N.shiftl b3 24).

(** crc32 slice-by-8 word loop over groups of 8 bytes *)
Fixpoint slice8 (c : N) (d : list N) : N :=
  match d with
  | b0 :: b1 :: b2 :: b3 :: b4 :: b5 :: b6 :: b7 :: r =>
      let c1 := N.lxor c (rd32 b0 b1 b2 b3) in
      let tmp := rd32 b4 b5 b6 b7 in
      slice8 (N.lxor (lookup4 4 c1) (lookup4 0 tmp)) r
  | _ => c
  end.

(** crc64 slice-by-4 word loop *)
Fixpoint slice4 (c : N) (d : list N) : N :=
  match d with
  | b0 :: b1 :: b2 :: b3 :: r =>
      let tmp := N.lxor (N.land c 4294967295) (rd32 b0 b1 b2 b3) in
      slice4 (N.lxor (lookup4 0 tmp) (N.shiftr c 32)) r
  | _ => c
  end.

(** [mis] = number of bytes before the buffer address is aligned
    ((8 - addr mod 8) mod 8 resp. (4 - addr mod 4) mod 4). *)
Definition generic32 (mis : nat) (d : list N) (c : N) : N :=
  if (8 <? length d)%nat then
    let pre := firstn mis d in
    let rest := skipn mis d in
    let nmid := (8 * (length rest / 8))%nat in
    bytes_tab (slice8 (bytes_tab c pre) (firstn nmid rest)) (skipn nmid rest)
  else bytes_tab c d.

Definition generic64 (mis : nat) (d : list N) (c : N) : N :=
  if (4 <? length d)%nat then
    let pre := firstn mis d in
    let rest := skipn mis d in
    let nmid := (4 * (length rest / 4))%nat in
    bytes_tab (slice4 (bytes_tab c pre) (firstn nmid rest)) (skipn nmid rest)
  else bytes_tab c d.

(** ---------------- proofs ---------------- *)
Variable nt : nat.
Hypothesis nt4 : (4 <= nt)%nat.
Hypothesis tab_ok : forall s b, (s < nt)%nat -> b < 256 ->
  tab s b = steps (8 * (s + 1)) b.

Lemma steps_add a b x : steps (a + b) x = steps a (steps b x).
Proof. induction a as [|a IH]; [reflexivity|]. change (S a + b)%nat with (S (a + b)). rewrite !(steps_Sr poly), IH. reflexivity. Qed.

Lemma steps_shiftl' k h n : n = N.of_nat k -> steps k (N.shiftl h n) = h.
Proof. intros ->. apply steps_shiftl. Qed.

Lemma byte_tab_eq c b : b < 256 -> byte_tab c b = crc_byte poly c b.
Proof.
  intro Hb. unfold byte_tab, crc_byte. rewrite (steps8_split poly (N.lxor c b)).
  assert (E : N.lxor b (bA c) = N.land (N.lxor c b) 255).
  { unfold bA. replace b with (N.land b 255) at 1.
    2:{ change 255 with (N.ones 8). rewrite N.land_ones. apply N.mod_small. exact Hb. }
    apply N.bits_inj; intro i. rewrite !N.lxor_spec, !N.land_spec, N.lxor_spec.
    destruct (N.testbit b i), (N.testbit c i), (N.testbit 255 i); reflexivity. }
  rewrite E. rewrite tab_ok; [|lia|apply land255_lt]. cbn [Nat.mul Nat.add].
  f_equal. rewrite N.shiftr_lxor.
  replace (N.shiftr b 8) with 0; [symmetry; apply N.lxor_0_r|].
  symmetry. rewrite N.shiftr_div_pow2. apply N.div_small. exact Hb.
Qed.

Lemma bytes_tab_eq d : bytes_ok d -> forall c, bytes_tab c d = crc_update poly c d.
Proof.
  induction 1 as [|b l Hb Hl IH]; intro c; [reflexivity|].
  unfold bytes_tab, crc_update in *. cbn [fold_left]. rewrite byte_tab_eq by exact Hb. apply IH.
Qed.

(** xor-positional value of a byte list (little-endian) *)
Fixpoint xval (d : list N) : N :=
  match d with [] => 0 | b :: r => N.lxor b (N.shiftl (xval r) 8) end.

Lemma crc_update_steps d : forall c,
  crc_update poly c d = steps (8 * length d) (N.lxor c (xval d)).
Proof.
  induction d as [|b r IH]; intro c.
  - cbn. rewrite N.lxor_0_r. reflexivity.
  - unfold crc_update in *. cbn [fold_left]. rewrite IH. unfold crc_byte.
    cbn [length xval].
    replace (8 * S (length r))%nat with (8 * length r + 8)%nat by lia.
    rewrite steps_add. f_equal.
    rewrite <- N.lxor_assoc. rewrite (steps_lxor poly 8 (N.lxor c b)).
    f_equal. symmetry. apply (steps_shiftl poly 8).
Qed.

Lemma split4 x :
  x = N.lxor (N.lxor (N.lxor (bA x) (N.shiftl (bB x) 8)) (N.shiftl (bC x) 16)) (N.shiftl (bD x) 24).
Proof.
  unfold bA, bB, bC, bD.
  rewrite (split_byte x) at 1.
  rewrite (split_byte (N.shiftr x 8)) at 1.
  rewrite (split_byte (N.shiftr (N.shiftr x 8) 8)) at 1.
  rewrite !N.shiftr_shiftr. cbn [N.add Pos.add Pos.succ].
  rewrite !N.shiftl_lxor, !N.shiftl_shiftl. cbn [N.add Pos.add Pos.succ].
  rewrite !N.lxor_assoc. reflexivity.
Qed.

Lemma bD_lt x : x < 4294967296 -> bD x < 256.
Proof.
  intro H. unfold bD. rewrite N.shiftr_div_pow2.
  apply N.div_lt_upper_bound; [cbn; lia|]. exact H.
Qed.

Lemma lookup4_eq base x : (base + 3 < nt)%nat -> x < 4294967296 ->
  lookup4 base x = steps (32 + 8 * base) x.
Proof.
  intros Hb Hx. unfold lookup4.
  rewrite !tab_ok; try lia; try apply land255_lt; try (apply bD_lt; exact Hx).
  rewrite (split4 x) at 5. rewrite !steps_lxor.
  f_equal; [f_equal; [f_equal|]|].
  - f_equal. lia.
  - replace (32 + 8 * base)%nat with (8 * (base + 2 + 1) + 8)%nat by lia.
    rewrite steps_add. f_equal. symmetry. apply (steps_shiftl poly 8).
  - replace (32 + 8 * base)%nat with (8 * (base + 1 + 1) + 16)%nat by lia.
    rewrite steps_add. f_equal. symmetry. apply (steps_shiftl poly 16).
  - replace (32 + 8 * base)%nat with (8 * (base + 1) + 24)%nat by lia.
    rewrite steps_add. f_equal. symmetry. apply (steps_shiftl poly 24).
Qed.


Section W.
Variable n : N.
Hypothesis poly_lt : poly < 2 ^ n.

Lemma step_lt c : c < 2 ^ n -> crc_step poly c < 2 ^ n.
Proof.
  intro H. unfold crc_step. destruct (N.odd c).
  - apply lxor_lt; [apply shiftr_lt; exact H|exact poly_lt].
  - apply shiftr_lt; exact H.
Qed.
Lemma steps_lt k c : c < 2 ^ n -> steps k c < 2 ^ n.
Proof. induction k as [|k IH]; intro H; [exact H|]. rewrite (steps_Sr poly). apply step_lt. apply IH. exact H. Qed.
Lemma crc_update_lt d : forall c, 8 <= n -> bytes_ok d -> c < 2 ^ n -> crc_update poly c d < 2 ^ n.
Proof.
  induction d as [|b r IH]; intros c Hn Hd Hc; [exact Hc|].
  inversion Hd; subst. unfold crc_update in *. cbn [fold_left]. apply IH; auto.
  unfold crc_byte. apply steps_lt. apply lxor_lt; [exact Hc|].
  eapply N.lt_le_trans; [exact H1|]. change 256 with (2 ^ 8). apply N.pow_le_mono_r; lia.
Qed.
End W.

Lemma rd32_lt b0 b1 b2 b3 : b0 < 256 -> b1 < 256 -> b2 < 256 -> b3 < 256 ->
  rd32 b0 b1 b2 b3 < 2 ^ 32.
Proof.
  intros. unfold rd32. change 256 with (2 ^ 8) in *.
  repeat apply lxor_lt.
  - eapply N.lt_le_trans; [eassumption|]. apply N.pow_le_mono_r; lia.
  - eapply shiftl_lt; [eassumption|lia].
  - eapply shiftl_lt; [eassumption|lia].
  - eapply shiftl_lt; [eassumption|lia].
Qed.

Lemma xval4 b0 b1 b2 b3 r :
  xval (b0 :: b1 :: b2 :: b3 :: r) = N.lxor (rd32 b0 b1 b2 b3) (N.shiftl (xval r) 32).
Proof.
  cbn [xval]. unfold rd32.
  rewrite !N.shiftl_lxor, !N.shiftl_shiftl. cbn [N.add Pos.add Pos.succ].
  rewrite !N.lxor_assoc. reflexivity.
Qed.

Ltac peel d H := destruct d as [|?b d]; [cbn [length] in H; lia|].

Lemma slice8_eq : (8 <= nt)%nat -> forall k d c, length d = (8 * k)%nat -> bytes_ok d -> poly < 2 ^ 32 -> c < 2 ^ 32 ->
  slice8 c d = crc_update poly c d.
Proof.
  intro nt8. induction k as [|k IH]; intros d c Hl Hd Hp Hc.
  - destruct d; [reflexivity|cbn in Hl; lia].
  - do 8 peel d Hl.
    unfold bytes_ok in Hd. repeat match goal with H : Forall _ (_ :: _) |- _ => inversion H; clear H; subst end.
    unfold byte_ok in *.
    cbn [slice8].
    assert (Hstep : N.lxor (lookup4 4 (N.lxor c (rd32 b b0 b1 b2))) (lookup4 0 (rd32 b3 b4 b5 b6))
                    = crc_update poly c [b; b0; b1; b2; b3; b4; b5; b6]).
    { change (2 ^ 32) with 4294967296 in *.
      set (w1 := rd32 b b0 b1 b2). set (w2 := rd32 b3 b4 b5 b6).
      assert (Hw1 : w1 < 4294967296) by (apply rd32_lt; auto).
      assert (Hw2 : w2 < 4294967296) by (apply rd32_lt; auto).
      assert (Hc1 : N.lxor c w1 < 4294967296) by (apply (lxor_lt _ _ 32); auto).
      rewrite (lookup4_eq 4 (N.lxor c w1)) by (lia || exact Hc1).
      rewrite (lookup4_eq 0 w2) by (lia || exact Hw2).
      rewrite crc_update_steps.
      replace (N.lxor c (xval [b; b0; b1; b2; b3; b4; b5; b6]))
        with (N.lxor (N.lxor c w1) (N.shiftl w2 32)).
      2:{ rewrite xval4, xval4. cbn [xval]. rewrite N.shiftl_0_l, N.lxor_0_r, N.lxor_assoc. reflexivity. }
      change (8 * length [b; b0; b1; b2; b3; b4; b5; b6])%nat with (32 + 32)%nat.
      change (32 + 8 * 4)%nat with (32 + 32)%nat. change (32 + 8 * 0)%nat with 32%nat.
      rewrite (steps_lxor poly (32 + 32) (N.lxor c w1) (N.shiftl w2 32)). f_equal. rewrite steps_add. f_equal.
      symmetry. apply steps_shiftl'. reflexivity. }
    rewrite Hstep.
    rewrite IH; [| cbn [length] in Hl; lia | assumption | assumption | ].
    + change (b :: b0 :: b1 :: b2 :: b3 :: b4 :: b5 :: b6 :: d) with ([b; b0; b1; b2; b3; b4; b5; b6] ++ d).
      rewrite crc_update_app. reflexivity.
    + apply (crc_update_lt 32 Hp); [lia| |exact Hc].
      repeat constructor; assumption.
Qed.

Lemma split_hi32 c : c = N.lxor (N.land c 4294967295) (N.shiftl (N.shiftr c 32) 32).
Proof.
  apply N.bits_inj; intro i. rewrite N.lxor_spec, N.land_spec.
  change 4294967295 with (N.ones 32).
  destruct (N.ltb_spec i 32) as [Hi|Hi].
  - rewrite N.shiftl_spec_low, N.ones_spec_low by assumption.
    rewrite andb_true_r, xorb_false_r. reflexivity.
  - rewrite N.shiftl_spec_high' by assumption. rewrite N.shiftr_spec'.
    rewrite N.ones_spec_high by assumption.
    rewrite andb_false_r, xorb_false_l. f_equal. lia.
Qed.

Lemma slice4_eq : forall k d c, length d = (4 * k)%nat -> bytes_ok d ->
  slice4 c d = crc_update poly c d.
Proof.
  induction k as [|k IH]; intros d c Hl Hd.
  - destruct d; [reflexivity|cbn in Hl; lia].
  - do 4 peel d Hl.
    unfold bytes_ok in Hd. repeat match goal with H : Forall _ (_ :: _) |- _ => inversion H; clear H; subst end.
    unfold byte_ok in *.
    cbn [slice4].
    assert (Hstep : N.lxor (lookup4 0 (N.lxor (N.land c 4294967295) (rd32 b b0 b1 b2))) (N.shiftr c 32)
                    = crc_update poly c [b; b0; b1; b2]).
    { set (w := rd32 b b0 b1 b2).
      assert (Hw : w < 4294967296) by (apply rd32_lt; auto).
      set (lo := N.land c 4294967295).
      assert (Hlo : lo < 4294967296).
      { subst lo. change 4294967295 with (N.ones 32). rewrite N.land_ones. apply N.mod_lt. cbn; lia. }
      assert (Ht : N.lxor lo w < 4294967296) by (apply (lxor_lt _ _ 32); auto).
      rewrite (lookup4_eq 0 (N.lxor lo w)) by (lia || exact Ht).
      rewrite crc_update_steps.
      replace (N.lxor c (xval [b; b0; b1; b2]))
        with (N.lxor (N.lxor lo w) (N.shiftl (N.shiftr c 32) 32)).
      2:{ rewrite xval4. cbn [xval]. rewrite N.shiftl_0_l, N.lxor_0_r.
          rewrite (split_hi32 c) at 2. fold lo.
          rewrite !N.lxor_assoc. f_equal. apply N.lxor_comm. }
      change (8 * length [b; b0; b1; b2])%nat with 32%nat.
      change (32 + 8 * 0)%nat with 32%nat.
      rewrite (steps_lxor poly 32 (N.lxor lo w) (N.shiftl (N.shiftr c 32) 32)). f_equal.
      symmetry. apply steps_shiftl'. reflexivity. }
    rewrite Hstep.
    rewrite IH; [| cbn [length] in Hl; lia | assumption].
    change (b :: b0 :: b1 :: b2 :: d) with ([b; b0; b1; b2] ++ d).
    rewrite crc_update_app. reflexivity.
Qed.

Lemma In_firstn' {A} k (d : list A) x : In x (firstn k d) -> In x d.
Proof. revert d; induction k; intros d H; [destruct H|]. destruct d; [exact H|]. destruct H; [left; auto|right; auto]. Qed.
Lemma bytes_ok_firstn k d : bytes_ok d -> bytes_ok (firstn k d).
Proof. unfold bytes_ok. rewrite !Forall_forall. intros H x Hx. apply H. eapply In_firstn'; eauto.
Qed.
Lemma In_skipn {A} k (d : list A) x : In x (skipn k d) -> In x d.
Proof. revert d; induction k; intros d H; [exact H|]. destruct d; [exact H|]. right. apply IHk. exact H. Qed.
Lemma bytes_ok_skipn k d : bytes_ok d -> bytes_ok (skipn k d).
Proof. unfold bytes_ok. rewrite !Forall_forall. intros H x Hx. apply H. eapply In_skipn; eauto. Qed.

(** lzma_crc32_generic = the bitwise definition, every data, every alignment *)
Theorem generic32_eq mis d c : (8 <= nt)%nat -> bytes_ok d -> poly < 2 ^ 32 -> c < 2 ^ 32 ->
  generic32 mis d c = crc_update poly c d.
Proof.
  intros nt8 Hd Hp Hc. unfold generic32.
  destruct (Nat.ltb 8 (length d)); [|apply bytes_tab_eq; exact Hd].
  set (pre := firstn mis d). set (rest := skipn mis d).
  set (nmid := (8 * (length rest / 8))%nat).
  assert (Hpre : bytes_ok pre) by (apply bytes_ok_firstn; exact Hd).
  assert (Hrest : bytes_ok rest) by (apply bytes_ok_skipn; exact Hd).
  rewrite (bytes_tab_eq pre Hpre).
  rewrite (slice8_eq nt8 (length rest / 8)).
  - rewrite bytes_tab_eq by (apply bytes_ok_skipn; exact Hrest).
    rewrite <- !crc_update_app. rewrite firstn_skipn. unfold pre, rest. rewrite firstn_skipn. reflexivity.
  - rewrite firstn_length. subst nmid.
    pose proof (Nat.div_mod (length rest) 8). lia.
  - apply bytes_ok_firstn; exact Hrest.
  - exact Hp.
  - apply (crc_update_lt 32 Hp); [lia|exact Hpre|exact Hc].
Qed.

Theorem generic64_eq mis d c : bytes_ok d ->
  generic64 mis d c = crc_update poly c d.
Proof.
  intros Hd. unfold generic64.
  destruct (Nat.ltb 4 (length d)); [|apply bytes_tab_eq; exact Hd].
  set (pre := firstn mis d). set (rest := skipn mis d).
  set (nmid := (4 * (length rest / 4))%nat).
  assert (Hpre : bytes_ok pre) by (apply bytes_ok_firstn; exact Hd).
  assert (Hrest : bytes_ok rest) by (apply bytes_ok_skipn; exact Hd).
  rewrite (bytes_tab_eq pre Hpre).
  rewrite (slice4_eq (length rest / 4)).
  - rewrite bytes_tab_eq by (apply bytes_ok_skipn; exact Hrest).
    rewrite <- !crc_update_app. rewrite firstn_skipn. unfold pre, rest. rewrite firstn_skipn. reflexivity.
  - rewrite firstn_length. subst nmid.
    pose proof (Nat.div_mod (length rest) 4). lia.
  - apply bytes_ok_firstn; exact Hrest.
Qed.

End S.
