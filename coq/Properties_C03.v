(** C03 — decoders accept exactly the valid streams and decode them as
    specified.  The specification itself is Lzma.v/Lzma2.v/Xz.v (executable,
    tied to the C decoders by the correspondence runs).  Proved here: the
    parts of "accepted = valid" that are closed-form — integer encodings are
    accepted iff canonical and round-trip; the property-byte and dictionary
    byte decoders accept exactly the defined sets; the constants and the
    LZMA state machine of the specification are those of the current source.
    PARTIAL: no theorem relates the resumable C state machines (23 suspension
    points of lzma_decoder.c etc.) to the one-shot specification; that is
    decided by the slicing/correspondence runs only. *)
From XZ Require Import Base Lzma Lzma2 Xz VliProofs SpecConsts Bcj.
From XZ.Gen Require Import Consts.
Local Open Scope N_scope.

Theorem vli_roundtrip : forall v rest, v <= VLI_MAX -> vli_decode (vli_encode v ++ rest) = Some (v, rest).
Proof. exact vli_decode_encode. Qed.
Print Assumptions vli_roundtrip.

Theorem vli_accepted_only_canonical : forall l v rest, bytes_ok l ->
  vli_decode l = Some (v, rest) -> l = vli_encode v ++ rest /\ v <= VLI_MAX.
Proof. exact vli_accepted_is_canonical. Qed.
Print Assumptions vli_accepted_only_canonical.

Theorem lclppb_byte_roundtrip :
  forallb (fun b => match lclppb_decode (N.of_nat b) with
                    | Some p => (lclppb_encode p =? N.of_nat b) && props_ok p
                    | None => true end) (seq 0 256) = true.
Proof. exact lclppb_roundtrip_all. Qed.
Print Assumptions lclppb_byte_roundtrip.

Theorem lclppb_byte_accepted_set :
  forallb (fun b => let n := N.of_nat b in
     Bool.eqb (match lclppb_decode n with Some _ => true | None => false end)
              ((n <=? 224) && ((n mod 9) + ((n / 9) mod 5) <=? 4))) (seq 0 256) = true.
Proof. exact lclppb_accepts_exactly. Qed.
Print Assumptions lclppb_byte_accepted_set.

Theorem lzma2_dict_byte_table :
  forallb (fun b => let n := N.of_nat b in
    match lzma2_dict_of_byte n with
    | Some d => (n <=? 40) && (4096 <=? d) && (d <=? 4294967295)
                && (if n =? 40 then true else d =? (2 + n mod 2) * 2 ^ (n / 2 + 11))
                && (match lzma2_dict_of_byte (n + 1) with Some d' => d <? d' | None => n =? 40 end)
    | None => 40 <? n
    end) (seq 0 256) = true.
Proof. exact lzma2_dict_bytes. Qed.
Print Assumptions lzma2_dict_byte_table.

(** documented relaxation: the decoder honours at least 4096 bytes rounded up to 16 *)
Theorem relaxed_dictionary_is_superset : forall d,
  d <= eff_dict d /\ 4096 <= eff_dict d /\ eff_dict d mod 16 = 0 /\ eff_dict d < N.max d 4096 + 16.
Proof. exact eff_dict_bounds. Qed.
Print Assumptions relaxed_dictionary_is_superset.

Theorem spec_state_machine_is_the_sources :
  map st_literal states = c_update_literal /\
  map st_match states = c_update_match /\
  map st_longrep states = c_update_long_rep /\
  map st_shortrep states = c_update_short_rep /\
  map (fun s => if is_lit_state s then 1 else 0) states = c_is_literal_state /\
  map dist_state [2;3;4;5;6;7;8;9;10] = c_get_dist_state /\
  c_STATES = 12 /\ c_LIT_STATES = 7.
Proof. exact state_machine_matches_source. Qed.
Print Assumptions spec_state_machine_is_the_sources.

Theorem spec_range_coder_constants_are_the_sources :
  TOP = c_RC_TOP_VALUE /\ BITMODEL_TOTAL = c_RC_BIT_MODEL_TOTAL /\ 2 ^ c_RC_MOVE_BITS = 32 /\
  c_RC_SHIFT_BITS = 8 /\ PROB_INIT * 2 = c_RC_BIT_MODEL_TOTAL.
Proof. exact rc_constants_match_source. Qed.
Print Assumptions spec_range_coder_constants_are_the_sources.

Theorem spec_lzma_constants_are_the_sources :
  c_MATCH_LEN_MIN = 2 /\ c_MATCH_LEN_MAX = 273 /\ c_LEN_LOW_BITS = 3 /\ c_LEN_MID_BITS = 3 /\ c_LEN_HIGH_BITS = 8 /\
  c_DIST_STATES = 4 /\ c_DIST_SLOT_BITS = 6 /\ c_DIST_MODEL_START = 4 /\ c_DIST_MODEL_END = 14 /\
  c_FULL_DISTANCES = 128 /\ c_ALIGN_BITS = 4 /\ c_LZMA_LCLP_MAX = 4 /\ c_LZMA_PB_MAX = 4 /\
  c_LITERAL_CODER_SIZE = 768 /\
  c_LZMA2_CHUNK_MAX = 65536 /\ c_LZMA2_UNCOMPRESSED_MAX = 2097152.
Proof. exact lzma_constants_match_source. Qed.
Print Assumptions spec_lzma_constants_are_the_sources.

Theorem spec_container_constants_are_the_sources :
  VLI_MAX = c_LZMA_VLI_MAX /\ c_LZMA_VLI_BYTES_MAX = 9 /\ UNPADDED_MAX = c_UNPADDED_SIZE_MAX /\ c_UNPADDED_SIZE_MIN = 5 /\
  c_LZMA_BLOCK_HEADER_SIZE_MIN = 8 /\ c_LZMA_BLOCK_HEADER_SIZE_MAX = 1024 /\ c_LZMA_STREAM_HEADER_SIZE = 12 /\
  c_INDEX_INDICATOR = 0 /\ c_LZMA_FILTERS_MAX = 4 /\
  map (fun i => check_size (N.of_nat i)) (seq 0 16) = c_check_size /\
  map (fun i => if check_supported (N.of_nat i) then 1 else 0) (seq 0 16) = c_check_supported /\
  c_LZMA_FILTER_LZMA2 = 0x21 /\ c_LZMA_FILTER_DELTA = 3 /\
  map bcj_arch_of_id [c_LZMA_FILTER_X86; c_LZMA_FILTER_ARM; c_LZMA_FILTER_ARMTHUMB; c_LZMA_FILTER_ARM64;
                      c_LZMA_FILTER_POWERPC; c_LZMA_FILTER_IA64; c_LZMA_FILTER_SPARC; c_LZMA_FILTER_RISCV]
    = map Some [0; 1; 2; 3; 4; 5; 6; 7] /\
  c_LZMA_FILTER_RESERVED_START = 4611686018427387904 /\
  c_LZMA_DELTA_DIST_MIN = 1 /\ c_LZMA_DELTA_DIST_MAX = 256 /\ c_LZMA_DICT_SIZE_MIN = 4096 /\
  map vli_size [0; 127; 128; 16383; 16384; VLI_MAX] = c_vli_size.
Proof. exact container_constants_match_source. Qed.
Print Assumptions spec_container_constants_are_the_sources.

(** non-vacuity: the specification decodes a real file (tests/files/good-1-check-crc32.xz) *)
Example spec_decodes_a_real_file :
  xz_decode_single 1000%positive false
    [253;55;122;88;90;0;0;1;105;34;222;54;2;0;33;1;8;0;0;0;216;15;35;19;1;0;5;72;101;108;108;111;10;2;0;6;87;111;114;108;100;33;10;0;67;163;162;21;0;1;36;13;48;40;223;175;144;66;153;13;1;0;0;0;0;1;89;90]
  = (Finished, [72;101;108;108;111;10;87;111;114;108;100;33;10], 68).
Proof. vm_compute. reflexivity. Qed.
