From XZ Require Import Base CodeWrap CodeWrapProofs.
From XZ.Gen Require Import CodeWrapTab.
Local Open Scope N_scope.

Lemma code_table_ok : forallb row_ok code_table = true.
Proof. vm_compute. reflexivity. Qed.

Lemma code_table_rows : (20000 <? lenN code_table) = true /\ code_table_ptr_mismatches = 0.
Proof. split; vm_compute; reflexivity. Qed.

(** documented supported actions: RUN SYNC_FLUSH FULL_FLUSH FINISH FULL_BARRIER, preceded by the init return code *)
Definition supported_expected : list (list N) :=
  [ [0;1;1;1;1;1];  (* easy_encoder *)
    [0;1;1;1;1;1];  (* stream_encoder *)
    [0;1;0;1;1;1];  (* stream_encoder_mt: no SYNC_FLUSH *)
    [0;1;0;0;1;0];  (* alone_encoder *)
    [0;1;1;0;1;0];  (* raw_encoder *)
    [0;1;1;0;1;0];  (* block_encoder *)
    [0;0;0;0;1;0];  (* microlzma_encoder: FINISH only *)
    [0;1;0;0;1;0];  (* index_encoder *)
    [0;1;0;0;1;0]; [0;1;0;0;1;0]; [0;1;0;0;1;0]; [0;1;0;0;1;0]; [0;1;0;0;1;0];
    [0;1;0;0;1;0]; [0;1;0;0;1;0]; [0;1;0;0;1;0]; [0;1;0;0;1;0]; [0;1;0;0;1;0] ].

Lemma supported_ok : supported_table = supported_expected.
Proof. vm_compute. reflexivity. Qed.
