(** C16 — legacy .lzma, foreign .lz and auto-detection follow their format
    rules.  The specifications are Formats.alone_decode / lzip_decode /
    auto_decode (executable; tied to the C decoders by the correspondence).
    Proved: closed-form facts about the header rules and the detection. *)
From XZ Require Import Base Lzma Lzma2 Xz Formats VliProofs.
Local Open Scope N_scope.

(** the first bytes that select the .xz and .lz decoders can never start a
    .lzma file that liblzma accepts: no ambiguity in auto-detection *)
Theorem detection_bytes_are_not_lzma_props :
  lclppb_decode 0xFD = None /\ lclppb_decode 0x4C = None.
Proof. split; vm_compute; reflexivity. Qed.
Print Assumptions detection_bytes_are_not_lzma_props.

(** auto-detection dispatches on the first byte and otherwise behaves as the specific decoder *)
Theorem auto_is_xz_on_FD : forall fuel inp r, inp = 0xFD :: r ->
  auto_decode fuel false inp = xz_decode_single fuel false inp /\
  auto_decode fuel true inp = xz_decode_concat fuel false inp.
Proof. intros fuel inp r ->. split; reflexivity. Qed.
Print Assumptions auto_is_xz_on_FD.

Theorem auto_is_lzip_on_4C : forall fuel concatenated inp r, inp = 0x4C :: r ->
  auto_decode fuel concatenated inp = lzip_decode fuel concatenated inp.
Proof.
  intros fuel c inp r ->. unfold auto_decode. cbn [N.eqb Pos.eqb]. reflexivity.
Qed.
Print Assumptions auto_is_lzip_on_4C.

Theorem auto_is_picky_lzma_otherwise : forall fuel inp b r, inp = b :: r -> b <> 0xFD -> b <> 0x4C ->
  auto_decode fuel false inp = alone_decode fuel true inp.
Proof.
  intros fuel inp b r -> H1 H2. unfold auto_decode.
  apply N.eqb_neq in H1, H2. rewrite H1, H2.
  destruct (alone_decode fuel true (b :: r)) as [[st out] used]. destruct st; reflexivity.
Qed.
Print Assumptions auto_is_picky_lzma_otherwise.

(** with LZMA_CONCATENATED a .lzma stream followed by anything is an error *)
Theorem lzma_followed_by_anything_is_error : forall fuel inp b r out used,
  inp = b :: r -> b <> 0xFD -> b <> 0x4C ->
  alone_decode fuel true inp = (Finished, out, used) -> used < lenN inp ->
  auto_decode fuel true inp = (DataError, out, used).
Proof.
  intros fuel inp b r out used -> H1 H2 H Hl. unfold auto_decode.
  apply N.eqb_neq in H1, H2. rewrite H1, H2. rewrite H.
  apply N.ltb_lt in Hl. rewrite Hl. reflexivity.
Qed.
Print Assumptions lzma_followed_by_anything_is_error.

(** lzip dictionary size codes: exactly b2log in 12..29, fraction 0 for 12; size = 2^b - frac*2^(b-4) in [4 KiB, 512 MiB] *)
Definition lzip_dict_ok (ds : N) : bool :=
  let b := ds mod 32 in let f := ds / 32 in negb ((b <? 12) || (29 <? b) || ((b =? 12) && (0 <? f))).
Theorem lzip_dict_code_table :
  forallb (fun i => let ds := N.of_nat i in
     if lzip_dict_ok ds then
       let d := 2 ^ (ds mod 32) - (ds / 32) * 2 ^ (ds mod 32 - 4) in (4096 <=? d) && (d <=? 536870912)
     else true) (seq 0 256) = true.
Proof. vm_compute. reflexivity. Qed.
Print Assumptions lzip_dict_code_table.

(** picky .lzma dictionary test accepts 2^n and 2^n + 2^(n-1) (n = 1..31 resp. 2..31) and 2^32-1,
    and rejects their neighbours *)
Theorem picky_dict_accepts_documented_sizes :
  forallb (fun n => picky_dict_ok (2 ^ N.of_nat n)) (seq 1 31) = true /\
  forallb (fun n => picky_dict_ok (2 ^ N.of_nat n + 2 ^ (N.of_nat n - 1))) (seq 2 30) = true /\
  picky_dict_ok 4294967295 = true /\
  forallb (fun n => negb (picky_dict_ok (2 ^ N.of_nat n + 1))) (seq 2 29) = true /\
  forallb (fun n => negb (picky_dict_ok (2 ^ N.of_nat n - 1))) (seq 3 29) = true.
Proof. vm_compute. repeat split; reflexivity. Qed.
Print Assumptions picky_dict_accepts_documented_sizes.
