(** Round trips of the PowerPC and SPARC branch filters (same lifting as ARM). *)
From XZ Require Import Base Bcj BcjProofs.
Require Import ZifyBool ZifyN.
Local Open Scope N_scope.
Ltac Zify.zify_post_hook ::= Z.div_mod_to_equations.

(** disjoint bits: or = plus *)
Lemma lor_low2 a y : a < 4 -> y < 256 -> y mod 4 = 0 -> N.lor a y = a + y.
Proof.
  intros Ha Hy Hm.
  assert (H : forallb (fun a => forallb (fun q => N.lor a (4 * q) =? a + 4 * q) (map N.of_nat (seq 0 64))) (map N.of_nat (seq 0 4)) = true)
    by (vm_compute; reflexivity).
  rewrite forallb_forall in H.
  assert (Ia : In a (map N.of_nat (seq 0 4))).
  { apply in_map_iff. exists (N.to_nat a). split; [lia|apply in_seq; lia]. }
  specialize (H a Ia). rewrite forallb_forall in H.
  assert (Iq : In (y / 4) (map N.of_nat (seq 0 64))).
  { apply in_map_iff. exists (N.to_nat (y / 4)). split; [lia|apply in_seq; lia]. }
  specialize (H (y / 4) Iq). apply N.eqb_eq in H.
  replace (4 * (y / 4)) with y in H by lia. exact H.
Qed.

Lemma bytes4 x : x < 4294967296 ->
  x = x mod 256 + 256 * ((x / 256) mod 256) + 65536 * ((x / 65536) mod 256) + 16777216 * (x / 16777216) /\
  x / 16777216 < 256.
Proof. intro H. lia. Qed.

(** ---------- PowerPC ---------- *)
Lemma ppc_word_ok enc pos a b c d : byte_ok a -> byte_ok b -> byte_ok c -> byte_ok d ->
  bytes_ok (ppc_word enc pos a b c d).
Proof.
  unfold byte_ok, bytes_ok, ppc_word. intros Ha Hb Hc Hd.
  destruct ((a / 4 =? 18) && (d mod 4 =? 1)) eqn:E; [|repeat constructor; assumption].
  apply andb_true_iff in E. destruct E as [E1 E2]. apply N.eqb_eq in E1. apply N.eqb_eq in E2.
  set (dest := conv_addr enc pos (a mod 4 * 16777216 + b * 65536 + c * 256 + (d - d mod 4))).
  repeat constructor; unfold byte_ok; try lia.
  (* the low byte: or of disjoint fields stays a byte *)
  destruct (N.lt_ge_cases (N.lor (d mod 4) (dest mod 256)) 256) as [H|H]; [exact H|].
  exfalso.
  assert (L : N.log2 (N.lor (d mod 4) (dest mod 256)) = N.max (N.log2 (d mod 4)) (N.log2 (dest mod 256))) by apply N.log2_lor.
  assert (B1 : N.log2 (d mod 4) < 8) by (rewrite E2; cbn; lia).
  assert (B2 : N.log2 (dest mod 256) < 8).
  { destruct (N.eq_dec (dest mod 256) 0) as [Z|Z]; [rewrite Z; cbn; lia|].
    apply N.log2_lt_pow2; [lia|]. change (2 ^ 8) with 256. lia. }
  assert (8 <= N.log2 (N.lor (d mod 4) (dest mod 256))).
  { apply N.log2_le_pow2; [lia|]. change (2 ^ 8) with 256. exact H. }
  lia.
Qed.

Lemma ppc_word_rt pos a b c d : aligned4 pos -> byte_ok a -> byte_ok b -> byte_ok c -> byte_ok d ->
  app4 (ppc_word false) pos (ppc_word true pos a b c d) = [a; b; c; d].
Proof.
  unfold aligned4, byte_ok. intros [Hp Hal] Ha Hb Hc Hd. unfold ppc_word.
  destruct ((a / 4 =? 18) && (d mod 4 =? 1)) eqn:E; cbn [app4]; [|rewrite E; reflexivity].
  apply andb_true_iff in E. destruct E as [E1 E2]. apply N.eqb_eq in E1. apply N.eqb_eq in E2.
  set (src := a mod 4 * 16777216 + b * 65536 + c * 256 + (d - d mod 4)).
  assert (Hsrc : src < 67108864 /\ src mod 4 = 0) by (unfold src; lia).
  unfold conv_addr. set (dest := w32 (pos + src)).
  assert (Hdest : dest < 4294967296 /\ dest mod 4 = 0) by (unfold dest, w32; lia).
  assert (EL : N.lor (d mod 4) (dest mod 256) = d mod 4 + dest mod 256) by (apply lor_low2; lia).
  rewrite EL.
  (* bytes of dest *)
  destruct (bytes4 dest (proj1 Hdest)) as [BD BD3].
  set (D0 := dest mod 256) in *. set (D1 := (dest / 256) mod 256) in *.
  set (D2 := (dest / 65536) mod 256) in *. set (D3 := dest / 16777216) in *.
  assert (HD0 : D0 < 256 /\ D0 mod 4 = 0) by (unfold D0; lia).
  assert (HD1 : D1 < 256) by (unfold D1; lia). assert (HD2 : D2 < 256) by (unfold D2; lia).
  assert (EDm : dest mod 67108864 = D0 + 256 * D1 + 65536 * D2 + 16777216 * (D3 mod 4)).
  { rewrite BD at 1. clearbody D0 D1 D2 D3. clear - HD0 HD1 HD2 BD3. lia. }
  (* the encoded word is again a branch *)
  assert (C1 : (72 + D3 mod 4) / 4 = 18) by (clear; lia).
  assert (C2 : (d mod 4 + D0) mod 4 = 1) by (clear - E2 HD0; lia).
  rewrite C1, C2. cbn [N.eqb Pos.eqb andb].
  assert (Es : (72 + D3 mod 4) mod 4 * 16777216 + D2 * 65536 + D1 * 256 + (d mod 4 + D0 - 1) = dest mod 67108864).
  { rewrite EDm. clear - E2. lia. }
  unfold sub32'. rewrite Es.
  set (back := w32 (dest mod 67108864 + 4294967296 - w32 pos)).
  assert (Hback : back < 4294967296) by (unfold back, w32; lia).
  assert (Eb : back mod 67108864 = src).
  { unfold back, w32. unfold dest, w32. clear - Hp Hsrc. lia. }
  destruct (bytes4 back Hback) as [BB BB3].
  set (B0 := back mod 256) in *. set (B1 := (back / 256) mod 256) in *.
  set (B2 := (back / 65536) mod 256) in *. set (B3 := back / 16777216) in *.
  assert (HB0 : B0 < 256) by (unfold B0; lia). assert (HB1 : B1 < 256) by (unfold B1; lia).
  assert (HB2 : B2 < 256) by (unfold B2; lia).
  assert (EBm : back mod 67108864 = B0 + 256 * B1 + 65536 * B2 + 16777216 * (B3 mod 4)).
  { rewrite BB at 1. clearbody B0 B1 B2 B3. clear - HB0 HB1 HB2 BB3. lia. }
  rewrite EBm in Eb. unfold src in Eb.
  assert (Ha4 : a = 72 + a mod 4) by (clear - E1 Ha; lia).
  assert (Q : B0 = d - 1 /\ B1 = c /\ B2 = b /\ B3 mod 4 = a mod 4).
  { clearbody B0 B1 B2 B3. clear - Eb HB0 HB1 HB2 Ha Hb Hc Hd E2. lia. }
  destruct Q as [Q0 [Q1 [Q2 Q3]]].
  assert (EL2 : N.lor 1 B0 = 1 + B0).
  { apply lor_low2; [lia|exact HB0|]. rewrite Q0. clear - E2 Hd. lia. }
  rewrite EL2, Q3, Q2, Q1, Q0, <- Ha4.
  replace (1 + (d - 1)) with d by (clear - E2; lia). reflexivity.
Qed.

Theorem powerpc_roundtrip start l : aligned4 (w32 start) -> bytes_ok l ->
  fst (powerpc_code false start (fst (powerpc_code true start l))) = l.
Proof.
  intros Hs Hl. unfold powerpc_code. cbn [fst].
  apply stride4_roundtrip; auto using ppc_word_len, ppc_word_rt.
Qed.

(** ---------- SPARC ---------- *)
Definition sparc_cond (a b : N) : bool := ((a =? 64) && (b / 64 =? 0)) || ((a =? 127) && (b / 64 =? 3)).

(** a CALL word: 01, then the sign bit S repeated over bits 29..22, then 22 bits *)
Lemma sparc_cond_shape a b c d : a < 256 -> b < 256 -> c < 256 -> d < 256 -> sparc_cond a b = true ->
  exists S v, S <= 1 /\ v < 4194304 /\
    a * 16777216 + b * 65536 + c * 256 + d = 1073741824 + S * 1069547520 + v.
Proof.
  intros Ha Hb Hc Hd H. unfold sparc_cond in H. apply orb_true_iff in H.
  destruct H as [H|H]; apply andb_true_iff in H; destruct H as [H1 H2]; apply N.eqb_eq in H1; apply N.eqb_eq in H2.
  - exists 0, (b * 65536 + c * 256 + d). lia.
  - exists 1, ((b - 192) * 65536 + c * 256 + d). lia.
Qed.

Lemma sparc_bytes S v : S <= 1 -> v < 4194304 ->
  let W := 1073741824 + S * 1069547520 + v in
  sparc_cond ((W / 16777216) mod 256) ((W / 65536) mod 256) = true /\
  (W / 16777216) mod 256 * 16777216 + (W / 65536) mod 256 * 65536 + (W / 256) mod 256 * 256 + W mod 256 = W.
Proof.
  intros HS Hv W. unfold sparc_cond.
  assert (S = 0 \/ S = 1) as [E|E] by lia; subst S; unfold W.
  - split; [|lia].
    replace ((1073741824 + 0 * 1069547520 + v) / 16777216 mod 256) with 64 by lia.
    replace (((1073741824 + 0 * 1069547520 + v) / 65536 mod 256) / 64) with 0 by lia. reflexivity.
  - split; [|lia].
    replace ((1073741824 + 1 * 1069547520 + v) / 16777216 mod 256) with 127 by lia.
    replace (((1073741824 + 1 * 1069547520 + v) / 65536 mod 256) / 64) with 3 by lia.
    reflexivity.
Qed.

(** the encoded 30-bit displacement as a CALL word *)
Definition sparc_pack (d : N) : N :=
  (if (d / 4194304) mod 2 =? 1 then 1069547520 else 0) + d mod 4194304 + 1073741824.

Lemma sparc_pack_shape d : exists S v, S <= 1 /\ v < 4194304 /\
  sparc_pack d = 1073741824 + S * 1069547520 + v /\ d mod 8388608 = S * 4194304 + v.
Proof.
  unfold sparc_pack. destruct (N.eqb_spec ((d / 4194304) mod 2) 1) as [E|E].
  - exists 1, (d mod 4194304). lia.
  - exists 0, (d mod 4194304). lia.
Qed.

Lemma sparc_word_rt pos a b c d : aligned4 pos -> byte_ok a -> byte_ok b -> byte_ok c -> byte_ok d ->
  app4 (sparc_word false) pos (sparc_word true pos a b c d) = [a; b; c; d].
Proof.
  unfold aligned4, byte_ok. intros [Hp Hal] Ha Hb Hc Hd. unfold sparc_word.
  fold (sparc_cond a b). destruct (sparc_cond a b) eqn:E; cbn [app4]; [|fold (sparc_cond a b); rewrite E; reflexivity].
  destruct (sparc_cond_shape a b c d Ha Hb Hc Hd E) as [S [v [HS [Hv EW]]]].
  rewrite EW. unfold conv_addr.
  fold (sparc_pack (w32 (pos + w32 ((1073741824 + S * 1069547520 + v) * 4)) / 4)).
  set (X := w32 (pos + w32 ((1073741824 + S * 1069547520 + v) * 4))).
  destruct (sparc_pack_shape (X / 4)) as [S1 [v1 [HS1 [Hv1 [EP ED]]]]].
  rewrite EP.
  destruct (sparc_bytes S1 v1 HS1 Hv1) as [C1 C2]. cbv zeta in C1, C2.
  set (W1 := 1073741824 + S1 * 1069547520 + v1) in *.
  fold (sparc_cond ((W1 / 16777216) mod 256) ((W1 / 65536) mod 256)). rewrite C1, C2.
  unfold sub32'.
  fold (sparc_pack (w32 (w32 (W1 * 4) + 4294967296 - w32 pos) / 4)).
  set (Y := w32 (w32 (W1 * 4) + 4294967296 - w32 pos)).
  (* the key congruence modulo 2^25 *)
  assert (KX : X mod 4 = 0 /\ X mod 33554432 = (pos + S * 16777216 + 4 * v) mod 33554432).
  { unfold X, w32. clear - Hal HS Hv. assert (S = 0 \/ S = 1) as [Q|Q] by lia; subst S; lia. }
  assert (KD : 4 * ((X / 4) mod 8388608) = X mod 33554432) by (clear - KX; lia).
  assert (KY : Y mod 4 = 0 /\ Y mod 33554432 = S * 16777216 + 4 * v).
  { unfold Y, W1, w32. rewrite ED in KD.
    clear - KD KX Hp Hal HS Hv HS1 Hv1.
    assert (S = 0 \/ S = 1) as [Q|Q] by lia; assert (S1 = 0 \/ S1 = 1) as [Q1|Q1] by lia; subst S S1; lia. }
  destruct (sparc_pack_shape (Y / 4)) as [S2 [v2 [HS2 [Hv2 [EP2 ED2]]]]].
  assert (ES : S2 = S /\ v2 = v).
  { assert (4 * ((Y / 4) mod 8388608) = Y mod 33554432) by (clear - KY; lia).
    rewrite ED2 in H. clear - H KY HS Hv HS2 Hv2. lia. }
  destruct ES; subst S2 v2. rewrite EP2.
  rewrite <- EW.
  assert (R : forall W, W = a * 16777216 + b * 65536 + c * 256 + d ->
              [(W / 16777216) mod 256; (W / 65536) mod 256; (W / 256) mod 256; W mod 256] = [a; b; c; d]).
  { intros W HW. clear - HW Ha Hb Hc Hd.
    assert ((W / 16777216) mod 256 = a) by lia. assert ((W / 65536) mod 256 = b) by lia.
    assert ((W / 256) mod 256 = c) by lia. assert (W mod 256 = d) by lia. congruence. }
  apply R. reflexivity.
Qed.

Theorem sparc_roundtrip start l : aligned4 (w32 start) -> bytes_ok l ->
  fst (sparc_code false start (fst (sparc_code true start l))) = l.
Proof.
  intros Hs Hl. unfold sparc_code. cbn [fst].
  apply stride4_roundtrip; auto using sparc_word_len, sparc_word_rt.
Qed.
