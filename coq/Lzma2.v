(** LZMA2 chunk layer (spec, one-shot), from src/liblzma/lzma/lzma2_decoder.c. *)
From XZ Require Import Base Lzma.
Local Open Scope N_scope.

(** dictionary size actually honoured by the decoder: at least 4096, rounded up to 16 *)
Definition eff_dict (d : N) : N := let d := if d <? 4096 then 4096 else d in ((d + 15) / 16) * 16.

(** LZMA2 dictionary-size property byte *)
Definition lzma2_dict_of_byte (b : N) : option N :=
  if 40 <? b then None
  else if b =? 40 then Some 4294967295
  else Some ((2 + b mod 2) * 2 ^ (b / 2 + 11)).

Record l2 := {
  l2in : list N; l2used : N;
  need_props : bool; need_dict_reset : bool;
  l2props : props; l2ps : probs; l2state : N; l2r0 : N; l2r1 : N; l2r2 : N; l2r3 : N;
  l2hist : hist; l2out : list N (* newest first *);
  l2status : status
}.

Definition l2_set_status (s : l2) (st : status) : l2 :=
  {| l2in := l2in s; l2used := l2used s; need_props := need_props s; need_dict_reset := need_dict_reset s;
     l2props := l2props s; l2ps := l2ps s; l2state := l2state s; l2r0 := l2r0 s; l2r1 := l2r1 s; l2r2 := l2r2 s;
     l2r3 := l2r3 s; l2hist := l2hist s; l2out := l2out s; l2status := st |}.

Fixpoint push_bytes (l : list N) (h : hist) (out : list N) : hist * list N :=
  match l with [] => (h, out) | b :: r => push_bytes r (hput h b) (b :: out) end.

Section L2.
Variable dict_size : N.   (* effective *)
Variable fuel : positive.

Definition l2_chunk (s : l2) : l2 :=
  match l2in s with
  | [] => l2_set_status s Truncated
  | control :: rest =>
    if control =? 0 then
      {| l2in := rest; l2used := l2used s + 1; need_props := need_props s; need_dict_reset := need_dict_reset s;
         l2props := l2props s; l2ps := l2ps s; l2state := l2state s; l2r0 := l2r0 s; l2r1 := l2r1 s;
         l2r2 := l2r2 s; l2r3 := l2r3 s; l2hist := l2hist s; l2out := l2out s; l2status := Finished |}
    else
    let dr := (0xE0 <=? control) || (control =? 1) in
    let np := if dr then true else need_props s in
    let ndr := if dr then true else need_dict_reset s in
    if negb dr && need_dict_reset s then l2_set_status s DataError
    else if 0x80 <=? control then
      (* LZMA chunk *)
      if (control <? 0xC0) && np then l2_set_status s DataError
      else
      match rest with
      | u1 :: u2 :: c1 :: c2 :: rest2 =>
        let usize := (control mod 32) * 65536 + u1 * 256 + u2 + 1 in
        let csize := c1 * 256 + c2 + 1 in
        let hdr := 5 in
        (* properties *)
        let pr_rest : option (props * list N * N * bool) :=
          if 0xC0 <=? control then
            match rest2 with
            | pbyte :: rest3 =>
              match lclppb_decode pbyte with
              | Some p => Some (p, rest3, 6, true)
              | None => None
              end
            | [] => None
            end
          else Some (l2props s, rest2, hdr, 0xA0 <=? control) in
        match pr_rest with
        | None =>
          (match rest2 with [] => l2_set_status s Truncated | _ => l2_set_status s DataError end)
        | Some (p, data, hlen_, reset) =>
          let h := if ndr then hist_empty else l2hist s in
          let ps := if reset then PM.empty N else l2ps s in
          let st0 := if reset then 0 else l2state s in
          let '(a, b, c, d) := if reset then (0, 0, 0, 0) else (l2r0 s, l2r1 s, l2r2 s, l2r3 s) in
          let chunk := firstn (N.to_nat csize) data in
          let after := skipn (N.to_nat csize) data in
          let complete := (lenN chunk =? csize) in
          match lz_start chunk ps st0 a b c d h (Some usize) with
          | inr e =>
            (* rc init failed: first byte non-zero => data error; too short => truncated *)
            let e := match e with Truncated => if complete then DataError else Truncated | x => x end in
            {| l2in := data; l2used := l2used s + hlen_; need_props := false; need_dict_reset := false;
               l2props := p; l2ps := ps; l2state := st0; l2r0 := a; l2r1 := b; l2r2 := c; l2r3 := d;
               l2hist := h; l2out := l2out s; l2status := e |}
          | inl z0 =>
            let z := lz_run p dict_size false fuel z0 in
            let out := zout z ++ l2out s in
            let mk (stt : status) (inp : list N) (used : N) :=
              {| l2in := inp; l2used := used; need_props := false; need_dict_reset := false;
                 l2props := p; l2ps := zps z; l2state := zstate z; l2r0 := rep0 z; l2r1 := rep1 z;
                 l2r2 := rep2 z; l2r3 := rep3 z; l2hist := zhist z; l2out := out; l2status := stt |} in
            match zstatus z with
            | Finished =>
              if rused (zrc z) =? csize then mk Running after (l2used s + hlen_ + csize)
              else mk DataError (rin (zrc z) ++ after) (l2used s + hlen_ + rused (zrc z))
            | Truncated =>
              if complete then
                (match after with [] => mk Truncated [] (l2used s + hlen_ + csize)
                            | _ => mk DataError after (l2used s + hlen_ + csize) end)
              else mk Truncated [] (l2used s + hlen_ + lenN chunk)
            | stt => mk stt (rin (zrc z) ++ after) (l2used s + hlen_ + rused (zrc z))
            end
          end
        end
      | _ => l2_set_status s Truncated
      end
    else if 2 <? control then l2_set_status s DataError
    else
      (* uncompressed chunk *)
      match rest with
      | c1 :: c2 :: data =>
        let csize := c1 * 256 + c2 + 1 in
        let h := if ndr then hist_empty else l2hist s in
        let chunk := firstn (N.to_nat csize) data in
        let after := skipn (N.to_nat csize) data in
        let '(h', out') := push_bytes chunk h (l2out s) in
        {| l2in := after; l2used := l2used s + 3 + lenN chunk; need_props := np; need_dict_reset := false;
           l2props := l2props s; l2ps := l2ps s; l2state := l2state s; l2r0 := l2r0 s; l2r1 := l2r1 s;
           l2r2 := l2r2 s; l2r3 := l2r3 s; l2hist := h'; l2out := out';
           l2status := if lenN chunk =? csize then Running else Truncated |}
      | _ => l2_set_status s Truncated
      end
  end.

Definition l2_done (s : l2) : bool := match l2status s with Running => false | _ => true end.
Definition l2_run (s : l2) : l2 :=
  let s := ploop l2_done l2_chunk fuel s in
  match l2status s with Running => l2_set_status s OutOfFuel | _ => s end.
End L2.

Definition l2_init (inp : list N) (preset : list N) : l2 :=
  {| l2in := inp; l2used := 0; need_props := true;
     need_dict_reset := match preset with [] => true | _ => false end;
     l2props := {| lc := 3; lp := 0; pb := 2 |}; l2ps := PM.empty N; l2state := 0;
     l2r0 := 0; l2r1 := 0; l2r2 := 0; l2r3 := 0;
     l2hist := hist_of_list preset hist_empty; l2out := []; l2status := Running |}.

(** raw LZMA2 decode: (status, output, bytes consumed) *)
Definition lzma2_decode (dict_size : N) (fuel : positive) (inp : list N) : status * list N * N :=
  let s := l2_run (eff_dict dict_size) fuel (l2_init inp []) in
  (l2status s, rev_append (l2out s) [], l2used s).
