From XZ Require Import Base XzNames.
Local Open Scope N_scope.

Lemma firstn_app_exact {A} (a b : list A) : firstn (length (a ++ b) - length b) (a ++ b) = a.
Proof. rewrite app_length. replace (length a + length b - length b)%nat with (length a) by lia.
  rewrite firstn_app, Nat.sub_diag, firstn_all. cbn. apply app_nil_r. Qed.
Lemma skipn_app_exact {A} (a b : list A) : skipn (length (a ++ b) - length b) (a ++ b) = b.
Proof. rewrite app_length. replace (length a + length b - length b)%nat with (length a) by lia.
  rewrite skipn_app, Nat.sub_diag, skipn_all. reflexivity. Qed.

Lemma nth_last (p : list N) : p <> [] -> nth (length p - 1) p 0 = last p 0.
Proof.
  induction p as [|x r IH]; [congruence|]. intros _.
  destruct r as [|y r']; [reflexivity|].
  replace (length (x :: y :: r') - 1)%nat with (S (length (y :: r') - 1)) by (cbn [length]; lia).
  change (nth (S (length (y :: r') - 1)) (x :: y :: r') 0) with (nth (length (y :: r') - 1) (y :: r') 0).
  rewrite IH by discriminate. reflexivity.
Qed.

(** appending a suffix to a proper file name is always recognised again *)
Lemma test_suffix_app p s : p <> [] -> last p 0 <> SLASH -> s <> [] -> test_suffix s (p ++ s) = Some p.
Proof.
  intros Hp Hl Hs. unfold test_suffix.
  assert (Hlen : (length (p ++ s) <=? length s)%nat = false).
  { apply Nat.leb_gt. rewrite app_length. destruct p; [congruence|cbn; lia]. }
  rewrite Hlen. rewrite firstn_app_exact, skipn_app_exact.
  assert (Hn : nth (length (p ++ s) - length s - 1) (p ++ s) 0 = last p 0).
  { rewrite app_length. replace (length p + length s - length s - 1)%nat with (length p - 1)%nat by lia.
    rewrite app_nth1 by (destruct p; [congruence|cbn; lia]).
    apply nth_last. exact Hp. }
  rewrite Hn. apply N.eqb_neq in Hl. rewrite Hl.
  rewrite (proj2 (list_eqb_eq s s) eq_refl). reflexivity.
Qed.

Definition proper (n : list N) : Prop := n <> [] /\ last n 0 <> SLASH.

Definition no_builtin_match (t : list N) : Prop :=
  test_suffix S_XZ t = None /\ test_suffix S_TXZ t = None /\ test_suffix S_LZMA t = None /\
  test_suffix S_TLZ t = None /\ test_suffix S_LZ t = None.

(** default suffixes: compress then decompress gives the original name back *)
Theorem default_names_invertible_xz n t : proper n ->
  compressed_name F_XZ None n = Some t -> uncompressed_name false None t = Some n.
Proof.
  intros [Hn Hl] H. unfold compressed_name in H.
  destruct (existsb _ (format_suffixes F_XZ)); [discriminate|]. cbn in H. inversion H; subst t.
  unfold uncompressed_name. rewrite test_suffix_app by (auto; discriminate). rewrite app_nil_r. reflexivity.
Qed.

Theorem default_names_invertible_lzma n t : proper n ->
  compressed_name F_LZMA None n = Some t -> uncompressed_name false None t = Some n.
Proof.
  intros [Hn Hl] H. unfold compressed_name in H.
  destruct (existsb _ (format_suffixes F_LZMA)); [discriminate|]. cbn in H. inversion H; subst t.
  unfold uncompressed_name.
  (* .xz and .txz cannot match a name ending in ".lzma": their last byte differs *)
  assert (X1 : test_suffix S_XZ (n ++ S_LZMA) = None).
  { unfold test_suffix. destruct (_ <=? _)%nat; [reflexivity|]. destruct (_ =? SLASH); [reflexivity|].
    replace (skipn (length (n ++ S_LZMA) - length S_XZ) (n ++ S_LZMA)) with [122; 109; 97]; [reflexivity|].
    rewrite app_length. cbn [length S_LZMA S_XZ]. replace (length n + 5 - 3)%nat with (length n + 2)%nat by lia.
    rewrite skipn_app. rewrite skipn_all2 by lia. replace (length n + 2 - length n)%nat with 2%nat by lia. reflexivity. }
  assert (X2 : test_suffix S_TXZ (n ++ S_LZMA) = None).
  { unfold test_suffix. destruct (_ <=? _)%nat; [reflexivity|]. destruct (_ =? SLASH); [reflexivity|].
    replace (skipn (length (n ++ S_LZMA) - length S_TXZ) (n ++ S_LZMA)) with [108; 122; 109; 97]; [reflexivity|].
    rewrite app_length. cbn [length S_LZMA S_TXZ]. replace (length n + 5 - 4)%nat with (length n + 1)%nat by lia.
    rewrite skipn_app. rewrite skipn_all2 by lia. replace (length n + 1 - length n)%nat with 1%nat by lia. reflexivity. }
  rewrite X1, X2. rewrite test_suffix_app by (auto; discriminate). rewrite app_nil_r. reflexivity.
Qed.

(** custom suffix: invertible unless the result also spells a built-in suffix (documented exception) *)
Theorem custom_names_invertible f s n t : proper n -> s <> [] ->
  compressed_name f (Some s) n = Some t -> no_builtin_match t ->
  uncompressed_name false (Some s) t = Some n /\ uncompressed_name true (Some s) t = Some n.
Proof.
  intros [Hn Hl] Hs H [B1 [B2 [B3 [B4 B5]]]]. unfold compressed_name in H.
  destruct (existsb _ (format_suffixes f)); [discriminate|].
  destruct (test_suffix s n); [discriminate|]. inversion H; subst t.
  unfold uncompressed_name. rewrite B1, B2, B3, B4, B5.
  rewrite test_suffix_app by auto. split; reflexivity.
Qed.

(** a name that already carries the target suffix is skipped *)
Theorem already_suffixed_is_skipped f custom n s :
  (In s (format_suffixes f) \/ custom = Some s) -> test_suffix s n <> None -> compressed_name f custom n = None.
Proof.
  intros Hin Ht. unfold compressed_name.
  destruct (existsb _ (format_suffixes f)) eqn:E; [reflexivity|].
  destruct Hin as [Hin| ->].
  - exfalso. assert (X : existsb (fun s0 => match test_suffix s0 n with Some _ => true | None => false end) (format_suffixes f) = true).
    { apply existsb_exists. exists s. split; [exact Hin|]. destruct (test_suffix s n); [reflexivity|congruence]. }
    congruence.
  - destruct (test_suffix s n); [reflexivity|congruence].
Qed.

(** whatever is accepted for decompression keeps at least one character that is not a directory separator *)
Lemma test_suffix_some s name p : test_suffix s name = Some p -> p <> [] /\ name = p ++ s.
Proof.
  unfold test_suffix. destruct (length name <=? length s)%nat eqn:E; [discriminate|].
  destruct (_ =? SLASH); [discriminate|]. destruct (list_eqb _ s) eqn:E2; [|discriminate].
  intro H; inversion H; subst p. apply Nat.leb_gt in E. apply list_eqb_eq in E2. split.
  - intro Z. apply (f_equal (@length N)) in Z. rewrite firstn_length in Z. cbn in Z. lia.
  - rewrite <- E2 at 2. symmetry. apply firstn_skipn.
Qed.

(** permission bits: never broader than the source, never setuid/setgid/sticky (all 4096 modes) *)
Theorem dest_mode_never_broader :
  forallb (fun m => let m := N.of_nat m in
     forallb (fun g => let d := dest_mode m g in
        (N.land d (N.lnot (N.land m 511) 12) =? 0) && (d <? 512)
        && (if g then d =? N.land m 511 else true)) [true; false]) (seq 0 4096) = true.
Proof. vm_compute. reflexivity. Qed.

(** exit status is the documented lattice: 1 if any error, else 2 if any warning (0 with --no-warn), else 0 *)
Theorem exit_status_lattice events no_warn : Forall (fun e => e = 1 \/ e = 2) events ->
  final_status events no_warn =
    if existsb (N.eqb 1) events then 1
    else if existsb (N.eqb 2) events then (if no_warn then 0 else 2) else 0.
Proof.
  intro H. unfold final_status.
  assert (G : forall cur, (cur = 0 \/ cur = 1 \/ cur = 2) ->
    fold_left set_exit_status events cur =
      if (cur =? 1) || existsb (N.eqb 1) events then 1
      else if existsb (N.eqb 2) events then 2 else cur).
  { induction H as [|e l He Hl IH]; intros cur Hc.
    - cbn. destruct Hc as [-> | [-> | ->]]; reflexivity.
    - cbn [fold_left existsb]. rewrite IH.
      + unfold set_exit_status. destruct Hc as [-> | [-> | ->]]; destruct He as [-> | ->]; cbn;
          destruct (existsb (N.eqb 1) l), (existsb (N.eqb 2) l); reflexivity.
      + unfold set_exit_status. destruct Hc as [-> | [-> | ->]]; destruct He as [-> | ->]; cbn; auto. }
  rewrite (G 0) by auto. cbn [N.eqb orb].
  destruct (existsb (N.eqb 1) events); [destruct no_warn; reflexivity|].
  destruct (existsb (N.eqb 2) events); destruct no_warn; reflexivity.
Qed.
