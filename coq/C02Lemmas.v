From XZ Require Import Base Xz Bound.
From XZ.Gen Require Import Bounds Consts.
Local Open Scope N_scope.

(** the model of the bound functions reproduces the library on every probed n
    (around every branch, thresholds found by bisection on the real functions) *)
Lemma bound_table_ok :
  forallb (fun r => let '(n, b, s) := r in (block_bound n =? b) && (stream_bound n =? s)) bound_table = true.
Proof. vm_compute. reflexivity. Qed.

Lemma bound_consts_ok : COMPRESSED_SIZE_MAX = c_COMPRESSED_SIZE_MAX /\ c_LZMA2_CHUNK_MAX = 65536
  /\ c_LZMA2_HEADER_UNCOMPRESSED = 3 /\ c_LZMA_CHECK_SIZE_MAX = 64 /\ c_LZMA_VLI_BYTES_MAX = 9
  /\ (20 <? lenN bound_table) = true.
Proof. vm_compute. repeat split; reflexivity. Qed.
