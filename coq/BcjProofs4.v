(** Round trip of the IA-64 branch filter (any branch table). *)
From XZ Require Import Base Bcj BcjProofs.
Require Import ZifyBool ZifyN ZifyNat.
Local Open Scope N_scope.
Ltac Zify.zify_post_hook ::= Z.div_mod_to_equations.

(** ---------- little-endian values of list pieces ---------- *)
Lemma le_val_app l1 l2 : le_val (l1 ++ l2) = le_val l1 + 256 ^ N.of_nat (length l1) * le_val l2.
Proof.
  induction l1 as [|b l1 IH]; cbn [app le_val length].
  - change (256 ^ N.of_nat 0) with 1. lia.
  - rewrite IH. rewrite Nat2N.inj_succ, N.pow_succ_r by lia. lia.
Qed.

Lemma le_val_bound l : bytes_ok l -> le_val l < 256 ^ N.of_nat (length l).
Proof.
  induction 1 as [|b l Hb Hl IH]; cbn [le_val length].
  - change (256 ^ N.of_nat 0) with 1. lia.
  - rewrite Nat2N.inj_succ, N.pow_succ_r by lia. unfold byte_ok in Hb. lia.
Qed.

Lemma bytes_ok_app l1 l2 : bytes_ok l1 -> bytes_ok l2 -> bytes_ok (l1 ++ l2).
Proof. unfold bytes_ok. intros. apply Forall_app. split; assumption. Qed.
Lemma bytes_ok_firstn n l : bytes_ok l -> bytes_ok (firstn n l).
Proof.
  unfold bytes_ok. intro H. revert n. induction H as [|b l Hb Hl IH]; intro n; destruct n; cbn [firstn]; constructor; auto.
Qed.
Lemma bytes_ok_skipn n l : bytes_ok l -> bytes_ok (skipn n l).
Proof.
  unfold bytes_ok. intro H. revert n. induction H as [|b l Hb Hl IH]; intro n; destruct n; cbn [skipn]; try constructor; auto.
Qed.

Lemma skipn_skipn' {A} (a b : nat) (l : list A) : skipn a (skipn b l) = skipn (b + a) l.
Proof.
  revert l. induction b as [|b IH]; intro l; [reflexivity|].
  destruct l as [|x l]; cbn [skipn Nat.add]; [destruct a; reflexivity|apply IH].
Qed.

(** a 6-byte window at byte offset k of a list: the list is  A ++ W ++ C *)
Lemma window_split (l : list N) (k : nat) : (k + 6 <= length l)%nat ->
  l = firstn k l ++ firstn 6 (skipn k l) ++ skipn (k + 6) l
  /\ length (firstn k l) = k /\ length (firstn 6 (skipn k l)) = 6%nat.
Proof.
  intro H. split; [|split].
  - rewrite <- (firstn_skipn k l) at 1. f_equal.
    rewrite <- (firstn_skipn 6 (skipn k l)) at 1. f_equal.
    rewrite skipn_skipn'. reflexivity.
  - rewrite firstn_length. lia.
  - rewrite firstn_length, skipn_length. lia.
Qed.

(** ---------- the instruction slot as a number ---------- *)
Definition ia_cond (n : N) : bool := ((n / 2 ^ 37) mod 16 =? 5) && ((n / 512) mod 8 =? 0).
Definition ia_f (enc : bool) (pos n : N) : N :=
  let src := w32 (((n / 8192) mod 1048576 + ((n / 2 ^ 36) mod 2) * 1048576) * 16) in
  let dest := conv_addr enc pos src / 16 in
  let cleared := n mod 8192 + ((n / 2 ^ 33) mod 8) * 2 ^ 33 + (n / 2 ^ 37) * 2 ^ 37 in
  cleared + (dest mod 1048576) * 8192 + ((dest / 1048576) mod 2) * 2 ^ 36.
Definition ia_win (enc : bool) (pos W r : N) : N :=
  if ia_cond (W / 2 ^ r) then W mod 2 ^ r + ia_f enc pos (W / 2 ^ r) * 2 ^ r else W.

Definition aligned16 (pos : N) := pos < 4294967296 /\ pos mod 16 = 0.
Lemma aligned16_next pos : aligned16 pos -> aligned16 (w32 (pos + 16)).
Proof. unfold aligned16, w32. lia. Qed.

(** the 21-bit field (20 bits at 13..32 and the sign at 36) as one number *)
Definition ia_field (n : N) : N := (n / 8192) mod 1048576 + ((n / 68719476736) mod 2) * 1048576.

Lemma ia_f_shape enc pos n : exists d, d < 2097152 /\
  ia_f enc pos n = n mod 8192 + ((n / 8589934592) mod 8) * 8589934592 + (n / 137438953472) * 137438953472
                   + (d mod 1048576) * 8192 + (d / 1048576) * 68719476736.
Proof.
  unfold ia_f. cbv zeta.
  change (2 ^ 33) with 8589934592. change (2 ^ 37) with 137438953472. change (2 ^ 36) with 68719476736.
  set (dest := conv_addr enc pos _ / 16).
  exists (dest mod 2097152). split; [lia|].
  replace (dest mod 2097152 mod 1048576) with (dest mod 1048576) by lia.
  replace (dest mod 2097152 / 1048576) with (dest / 1048576 mod 2) by lia.
  reflexivity.
Qed.

Lemma ia_pack_field n d : d < 2097152 ->
  let n' := n mod 8192 + ((n / 8589934592) mod 8) * 8589934592 + (n / 137438953472) * 137438953472
            + (d mod 1048576) * 8192 + (d / 1048576) * 68719476736 in
  ia_field n' = d /\ n' / 137438953472 = n / 137438953472 /\ n' mod 8192 = n mod 8192
  /\ (n' / 8589934592) mod 8 = (n / 8589934592) mod 8.
Proof.
  intros Hd. cbv zeta. unfold ia_field.
  set (lo := n mod 8192). set (mid := n / 8589934592 mod 8). set (hi := n / 137438953472).
  set (d0 := d mod 1048576). set (d1 := d / 1048576).
  assert (B : lo < 8192 /\ mid < 8 /\ d0 < 1048576 /\ d1 < 2 /\ d = d0 + 1048576 * d1) by (subst lo mid d0 d1; lia).
  clearbody lo mid hi d0 d1. destruct B as (B1 & B2 & B3 & B4 & B5). subst d. clear Hd.
  repeat split; lia.
Qed.

Lemma ia_cond_f enc pos n : ia_cond (ia_f enc pos n) = ia_cond n.
Proof.
  destruct (ia_f_shape enc pos n) as (d & Hd & E). rewrite E.
  destruct (ia_pack_field n d Hd) as (_ & H1 & H2 & _). cbv zeta in H1, H2.
  set (n' := n mod 8192 + _ + _ + _ + _) in *. clearbody n'.
  unfold ia_cond. change (2 ^ 37) with 137438953472. rewrite H1.
  replace (n' / 512 mod 8) with (n / 512 mod 8) by (clear - H2; lia). reflexivity.
Qed.

Lemma field_rt_16_21 P s : P < 4294967296 -> P mod 16 = 0 -> s < 2097152 ->
  (((16 * ((((P + 16 * s) mod 4294967296) / 16) mod 2097152) + 4294967296 - P mod 4294967296) mod 4294967296) / 16) mod 2097152 = s.
Proof. intros. lia. Qed.

Lemma ia_field_lt n : ia_field n < 2097152.
Proof. unfold ia_field. lia. Qed.

Lemma ia_rebuild n :
  n mod 8192 + ((n / 8589934592) mod 8) * 8589934592 + (n / 137438953472) * 137438953472
  + (ia_field n mod 1048576) * 8192 + (ia_field n / 1048576) * 68719476736 = n.
Proof. unfold ia_field. lia. Qed.

(** ia_f written with the field *)
Lemma ia_f_field enc pos n :
  let d := (conv_addr enc pos (16 * ia_field n) / 16) mod 2097152 in
  ia_f enc pos n = n mod 8192 + ((n / 8589934592) mod 8) * 8589934592 + (n / 137438953472) * 137438953472
                   + (d mod 1048576) * 8192 + (d / 1048576) * 68719476736.
Proof.
  cbv zeta. unfold ia_f. cbv zeta.
  change (2 ^ 33) with 8589934592. change (2 ^ 37) with 137438953472. change (2 ^ 36) with 68719476736.
  fold (ia_field n).
  pose proof (ia_field_lt n) as Hf.
  replace (w32 (ia_field n * 16)) with (16 * ia_field n) by (unfold w32; lia).
  set (dest := conv_addr enc pos _ / 16).
  replace (dest mod 2097152 mod 1048576) with (dest mod 1048576) by lia.
  replace (dest mod 2097152 / 1048576) with (dest / 1048576 mod 2) by lia.
  reflexivity.
Qed.

Lemma ia_conv_rt pos s : aligned16 pos -> s < 2097152 ->
  (conv_addr false pos (16 * ((conv_addr true pos (16 * s) / 16) mod 2097152)) / 16) mod 2097152 = s.
Proof.
  intros [Hp Ha] Hs. unfold conv_addr, sub32', w32.
  pose proof (field_rt_16_21 pos s Hp Ha Hs) as R.
  set (X := (pos + 16 * s) mod 4294967296 / 16 mod 2097152) in *.
  assert (HX : X < 2097152) by (subst X; clear; lia).
  clearbody X.
  replace ((16 * X) mod 4294967296) with (16 * X) by (clear - HX; lia).
  exact R.
Qed.

Lemma ia_f_rt pos n : aligned16 pos -> ia_f false pos (ia_f true pos n) = n.
Proof.
  intros Hal.
  pose proof (ia_f_field true pos n) as E1. cbv zeta in E1.
  set (d := (conv_addr true pos (16 * ia_field n) / 16) mod 2097152) in *.
  assert (Hd : d < 2097152) by (subst d; clear; lia).
  destruct (ia_pack_field n d Hd) as (F & H1 & H2 & H3). cbv zeta in F, H1, H2, H3.
  rewrite <- E1 in F, H1, H2, H3.
  pose proof (ia_f_field false pos (ia_f true pos n)) as E2. cbv zeta in E2.
  rewrite F, H1, H2, H3 in E2.
  assert (D : (conv_addr false pos (16 * d) / 16) mod 2097152 = ia_field n).
  { subst d. apply ia_conv_rt; [exact Hal|apply ia_field_lt]. }
  rewrite D in E2. rewrite E2. apply ia_rebuild.
Qed.

(** bits above the 41-bit slot ride along unchanged *)
Lemma ia_f_lt enc pos n : ia_f enc pos n < (n / 137438953472 + 1) * 137438953472.
Proof.
  destruct (ia_f_shape enc pos n) as (d & Hd & E). rewrite E. clear E. lia.
Qed.

Lemma ia_field_high x h : x < 2199023255552 -> ia_field (x + 2199023255552 * h) = ia_field x.
Proof. intro Hx. unfold ia_field. lia. Qed.

Lemma ia_rest_high x h : x < 2199023255552 ->
  (x + 2199023255552 * h) mod 8192 + ((x + 2199023255552 * h) / 8589934592 mod 8) * 8589934592
    + (x + 2199023255552 * h) / 137438953472 * 137438953472
  = x mod 8192 + (x / 8589934592 mod 8) * 8589934592 + x / 137438953472 * 137438953472 + 2199023255552 * h.
Proof. intro Hx. lia. Qed.

Lemma ia_f_high enc pos x h : x < 2199023255552 -> ia_f enc pos (x + 2199023255552 * h) = ia_f enc pos x + 2199023255552 * h.
Proof.
  intro Hx.
  pose proof (ia_f_field enc pos (x + 2199023255552 * h)) as E1. cbv zeta in E1.
  pose proof (ia_f_field enc pos x) as E2. cbv zeta in E2.
  rewrite (ia_field_high x h Hx) in E1. rewrite E1, E2, (ia_rest_high x h Hx).
  set (d := conv_addr enc pos (16 * ia_field x) / 16 mod 2097152). clearbody d. clear. lia.
Qed.

Lemma ia_cond_high x h : x < 2199023255552 -> ia_cond (x + 2199023255552 * h) = ia_cond x.
Proof.
  intro Hx. unfold ia_cond. change (2 ^ 37) with 137438953472.
  replace ((x + 2199023255552 * h) / 137438953472 mod 16) with (x / 137438953472 mod 16) by lia.
  replace ((x + 2199023255552 * h) / 512 mod 8) with (x / 512 mod 8) by lia.
  reflexivity.
Qed.

Lemma ia_f_slot_lt enc pos x : x < 2199023255552 -> ia_f enc pos x < 2199023255552.
Proof. intro Hx. pose proof (ia_f_lt enc pos x). lia. Qed.

Lemma ia_win_lt enc pos W r : W < 281474976710656 -> (r = 5 \/ r = 6 \/ r = 7) ->
  ia_win enc pos W r < 281474976710656.
Proof.
  intros HW Hr. unfold ia_win. destruct (ia_cond (W / 2 ^ r)); [|exact HW].
  pose proof (ia_f_lt enc pos (W / 2 ^ r)) as L.
  destruct Hr as [-> | [-> | ->]].
  - change (2 ^ 5) with 32 in *. set (y := ia_f enc pos (W / 32)) in *. clearbody y. lia.
  - change (2 ^ 6) with 64 in *. set (y := ia_f enc pos (W / 64)) in *. clearbody y. lia.
  - change (2 ^ 7) with 128 in *. set (y := ia_f enc pos (W / 128)) in *. clearbody y. lia.
Qed.

(** ---------- one slot on a 16-byte bundle, as arithmetic on its little-endian value ---------- *)
Lemma ia64_slot_generic enc pos b (k : nat) (r slot : N) :
  bytes_ok b -> length b = 16%nat ->
  N.to_nat ((5 + 41 * slot) / 8) = k -> (5 + 41 * slot) mod 8 = r -> (k + 6 <= 16)%nat -> (r = 5 \/ r = 6 \/ r = 7) ->
  let A := le_val (firstn k b) in let W := le_val (firstn 6 (skipn k b)) in let C := le_val (skipn (k + 6) b) in
  let b' := ia64_slot enc pos b slot in
  bytes_ok b' /\ length b' = 16%nat
  /\ le_val b' = A + 256 ^ N.of_nat k * (ia_win enc pos W r + 281474976710656 * C)
  /\ le_val b = A + 256 ^ N.of_nat k * (W + 281474976710656 * C)
  /\ A < 256 ^ N.of_nat k /\ W < 281474976710656 /\ C < 256 ^ N.of_nat (10 - k).
Proof.
  intros Hb Hl Hk Hr Hk6 Hr3. cbv zeta.
  assert (Hk6' : (k + 6 <= length b)%nat) by lia.
  destruct (window_split b k Hk6') as (S & LA & LW).
  set (Al := firstn k b) in *. set (Wl := firstn 6 (skipn k b)) in *. set (Cl := skipn (k + 6) b) in *.
  assert (OA : bytes_ok Al) by (apply bytes_ok_firstn; exact Hb).
  assert (OW : bytes_ok Wl) by (apply bytes_ok_firstn, bytes_ok_skipn; exact Hb).
  assert (OC : bytes_ok Cl) by (apply bytes_ok_skipn; exact Hb).
  assert (LC : length Cl = (10 - k)%nat) by (subst Cl; rewrite skipn_length; lia).
  pose proof (le_val_bound Al OA) as BA. rewrite LA in BA.
  pose proof (le_val_bound Wl OW) as BW. rewrite LW in BW. change (256 ^ N.of_nat 6) with 281474976710656 in BW.
  pose proof (le_val_bound Cl OC) as BC. rewrite LC in BC.
  assert (VB : le_val b = le_val Al + 256 ^ N.of_nat k * (le_val Wl + 281474976710656 * le_val Cl)).
  { rewrite S at 1. rewrite !le_val_app, LA, LW. reflexivity. }
  unfold ia64_slot. cbv zeta. rewrite Hk, Hr. fold Wl.
  fold (ia_cond (le_val Wl / 2 ^ r)).
  destruct (ia_cond (le_val Wl / 2 ^ r)) eqn:EC.
  - fold (ia_f enc pos (le_val Wl / 2 ^ r)).
    assert (EW : ia_win enc pos (le_val Wl) r = le_val Wl mod 2 ^ r + ia_f enc pos (le_val Wl / 2 ^ r) * 2 ^ r)
      by (unfold ia_win; rewrite EC; reflexivity).
    rewrite <- EW.
    pose proof (ia_win_lt enc pos (le_val Wl) r BW Hr3) as LT.
    set (w' := ia_win enc pos (le_val Wl) r) in *.
    unfold splice. rewrite le_bytes_length. fold Al Cl.
    assert (O' : bytes_ok (Al ++ le_bytes 6 w' ++ Cl)) by (repeat apply bytes_ok_app; auto using le_bytes_ok).
    repeat split; try assumption.
    + rewrite !app_length, le_bytes_length, LA, LC. lia.
    + rewrite !le_val_app, LA, le_bytes_length, le_val_le_bytes by exact LT. reflexivity.
  - assert (EW : ia_win enc pos (le_val Wl) r = le_val Wl) by (unfold ia_win; rewrite EC; reflexivity).
    rewrite EW. repeat split; assumption.
Qed.

(** a bundle = 5 template bits and three 41-bit slots *)
Definition mk (t x0 x1 x2 : N) : N := t + 32 * x0 + 70368744177664 * x1 + 154742504910672534362390528 * x2.
Definition ia_g (enc : bool) (pos x : N) : N := if ia_cond x then ia_f enc pos x else x.

Ltac slot_tac enc pos x h :=
  unfold ia_win;
  match goal with HQ : _ / _ = x + 2199023255552 * h |- _ => rewrite HQ end;
  rewrite ia_cond_high, ia_f_high by assumption; unfold ia_g;
  destruct (ia_cond x);
  [ let y := fresh "y" in set (y := ia_f enc pos x); clearbody y | ].

Lemma ia64_slot0 enc pos b t x0 x1 x2 : bytes_ok b -> length b = 16%nat ->
  t < 32 -> x0 < 2199023255552 -> x1 < 2199023255552 -> x2 < 2199023255552 -> le_val b = mk t x0 x1 x2 ->
  let b' := ia64_slot enc pos b 0 in
  bytes_ok b' /\ length b' = 16%nat /\ le_val b' = mk t (ia_g enc pos x0) x1 x2.
Proof.
  intros Hb Hl Ht H0 H1 H2 E. cbv zeta.
  destruct (ia64_slot_generic enc pos b 0 5 0 Hb Hl) as (O & L & V & VB & BA & BW & BC); try reflexivity; try lia.
  split; [exact O|]. split; [exact L|]. rewrite V. clear V O L.
  set (A := le_val (firstn 0 b)) in *. set (W := le_val (firstn 6 (skipn 0 b))) in *. set (C := le_val (skipn (0 + 6) b)) in *.
  change (256 ^ N.of_nat 0) with 1 in *. change (256 ^ N.of_nat (10 - 0)) with 1208925819614629174706176 in BC.
  rewrite E in VB. unfold mk in *. clearbody A W C. clear E Hb Hl b.
  assert (HQ : W / 2 ^ 5 = x0 + 2199023255552 * (x1 mod 4)) by (change (2 ^ 5) with 32; lia).
  assert (HM : W mod 2 ^ 5 = t) by (change (2 ^ 5) with 32; lia).
  slot_tac enc pos x0 (x1 mod 4); change (2 ^ 5) with 32 in *; lia.
Qed.

Lemma ia64_slot1 enc pos b t x0 x1 x2 : bytes_ok b -> length b = 16%nat ->
  t < 32 -> x0 < 2199023255552 -> x1 < 2199023255552 -> x2 < 2199023255552 -> le_val b = mk t x0 x1 x2 ->
  let b' := ia64_slot enc pos b 1 in
  bytes_ok b' /\ length b' = 16%nat /\ le_val b' = mk t x0 (ia_g enc pos x1) x2.
Proof.
  intros Hb Hl Ht H0 H1 H2 E. cbv zeta.
  destruct (ia64_slot_generic enc pos b 5 6 1 Hb Hl) as (O & L & V & VB & BA & BW & BC); try reflexivity; try lia.
  split; [exact O|]. split; [exact L|]. rewrite V. clear V O L.
  set (A := le_val (firstn 5 b)) in *. set (W := le_val (firstn 6 (skipn 5 b))) in *. set (C := le_val (skipn (5 + 6) b)) in *.
  change (256 ^ N.of_nat 5) with 1099511627776 in *. change (256 ^ N.of_nat (10 - 5)) with 1099511627776 in BC.
  rewrite E in VB. unfold mk in *. clearbody A W C. clear E Hb Hl b.
  assert (HQ : W / 2 ^ 6 = x1 + 2199023255552 * (x2 mod 2)) by (change (2 ^ 6) with 64; lia).
  slot_tac enc pos x1 (x2 mod 2); change (2 ^ 6) with 64 in *; lia.
Qed.

Lemma ia64_slot2 enc pos b t x0 x1 x2 : bytes_ok b -> length b = 16%nat ->
  t < 32 -> x0 < 2199023255552 -> x1 < 2199023255552 -> x2 < 2199023255552 -> le_val b = mk t x0 x1 x2 ->
  let b' := ia64_slot enc pos b 2 in
  bytes_ok b' /\ length b' = 16%nat /\ le_val b' = mk t x0 x1 (ia_g enc pos x2).
Proof.
  intros Hb Hl Ht H0 H1 H2 E. cbv zeta.
  destruct (ia64_slot_generic enc pos b 10 7 2 Hb Hl) as (O & L & V & VB & BA & BW & BC); try reflexivity; try lia.
  split; [exact O|]. split; [exact L|]. rewrite V. clear V O L.
  set (A := le_val (firstn 10 b)) in *. set (W := le_val (firstn 6 (skipn 10 b))) in *. set (C := le_val (skipn (10 + 6) b)) in *.
  change (256 ^ N.of_nat 10) with 1208925819614629174706176 in *. change (256 ^ N.of_nat (10 - 10)) with 1 in BC.
  rewrite E in VB. unfold mk in *. clearbody A W C. clear E Hb Hl b.
  assert (HQ : W / 2 ^ 7 = x2 + 2199023255552 * 0) by (change (2 ^ 7) with 128; lia).
  slot_tac enc pos x2 0; change (2 ^ 7) with 128 in *; lia.
Qed.

Lemma ia_g_lt enc pos x : x < 2199023255552 -> ia_g enc pos x < 2199023255552.
Proof. intro H. unfold ia_g. destruct (ia_cond x); [apply ia_f_slot_lt|]; exact H. Qed.

Lemma ia_g_rt pos x : aligned16 pos -> ia_g false pos (ia_g true pos x) = x.
Proof.
  intro Ha. unfold ia_g. destruct (ia_cond x) eqn:E.
  - rewrite ia_cond_f, E. apply ia_f_rt. exact Ha.
  - rewrite E. reflexivity.
Qed.

Lemma bundle_components b : bytes_ok b -> length b = 16%nat ->
  exists t x0 x1 x2, t < 32 /\ x0 < 2199023255552 /\ x1 < 2199023255552 /\ x2 < 2199023255552
    /\ le_val b = mk t x0 x1 x2 /\ nth 0 b 0 mod 32 = t.
Proof.
  intros Hb Hl. pose proof (le_val_bound b Hb) as B. rewrite Hl in B.
  change (256 ^ N.of_nat 16) with 340282366920938463463374607431768211456 in B.
  exists (le_val b mod 32), (le_val b / 32 mod 2199023255552), (le_val b / 70368744177664 mod 2199023255552),
         (le_val b / 154742504910672534362390528).
  assert (N0 : nth 0 b 0 mod 32 = le_val b mod 32).
  { destruct b as [|b0 r]; [discriminate Hl|]. cbn [nth le_val]. lia. }
  unfold mk. set (V := le_val b) in *. clearbody V. repeat split; try lia.
Qed.

Lemma le_val_inj16 a b : bytes_ok a -> bytes_ok b -> length a = 16%nat -> length b = 16%nat ->
  le_val a = le_val b -> a = b.
Proof.
  intros Ha Hb La Lb E. rewrite <- (le_bytes_le_val a Ha), <- (le_bytes_le_val b Hb), La, Lb, E. reflexivity.
Qed.

Section IA64RT.
Variable bt : list N.

Definition sel (m s : N) (enc : bool) (pos x : N) : N := if (m / 2 ^ s) mod 2 =? 1 then ia_g enc pos x else x.

Lemma ia64_bundle_mk enc pos b t x0 x1 x2 : bytes_ok b -> length b = 16%nat ->
  t < 32 -> x0 < 2199023255552 -> x1 < 2199023255552 -> x2 < 2199023255552 ->
  le_val b = mk t x0 x1 x2 -> nth 0 b 0 mod 32 = t ->
  let m := nth (N.to_nat t) bt 0 in
  let b' := ia64_bundle bt enc pos b in
  bytes_ok b' /\ length b' = 16%nat /\ le_val b' = mk t (sel m 0 enc pos x0) (sel m 1 enc pos x1) (sel m 2 enc pos x2).
Proof.
  intros Hb Hl Ht H0 H1 H2 E Et. cbv zeta. unfold ia64_bundle. rewrite Et.
  set (m := nth (N.to_nat t) bt 0). cbn [fold_left]. unfold sel.
  set (c0 := (m / 2 ^ 0) mod 2 =? 1). set (c1 := (m / 2 ^ 1) mod 2 =? 1). set (c2 := (m / 2 ^ 2) mod 2 =? 1).
  clearbody c0 c1 c2.
  (* slot 0 *)
  assert (S0 : let b0 := (if c0 then ia64_slot enc pos b 0 else b) in
               bytes_ok b0 /\ length b0 = 16%nat /\ le_val b0 = mk t (if c0 then ia_g enc pos x0 else x0) x1 x2).
  { cbv zeta. destruct c0; [apply ia64_slot0; assumption|auto]. }
  cbv zeta in S0. set (b0 := if c0 then ia64_slot enc pos b 0 else b) in *.
  set (y0 := if c0 then ia_g enc pos x0 else x0) in *.
  assert (Y0 : y0 < 2199023255552) by (subst y0; destruct c0; [apply ia_g_lt|]; assumption).
  clearbody b0 y0. destruct S0 as (O0 & L0 & V0).
  assert (S1 : let b1 := (if c1 then ia64_slot enc pos b0 1 else b0) in
               bytes_ok b1 /\ length b1 = 16%nat /\ le_val b1 = mk t y0 (if c1 then ia_g enc pos x1 else x1) x2).
  { cbv zeta. destruct c1; [apply ia64_slot1; assumption|auto]. }
  cbv zeta in S1. set (b1 := if c1 then ia64_slot enc pos b0 1 else b0) in *.
  set (y1 := if c1 then ia_g enc pos x1 else x1) in *.
  assert (Y1 : y1 < 2199023255552) by (subst y1; destruct c1; [apply ia_g_lt|]; assumption).
  clearbody b1 y1. destruct S1 as (O1 & L1 & V1).
  destruct c2; [apply ia64_slot2; assumption|auto].
Qed.

Lemma ia64_bundle_rt pos b : aligned16 pos -> bytes_ok b -> length b = 16%nat ->
  ia64_bundle bt false pos (ia64_bundle bt true pos b) = b
  /\ length (ia64_bundle bt true pos b) = 16%nat /\ bytes_ok (ia64_bundle bt true pos b).
Proof.
  intros Ha Hb Hl.
  destruct (bundle_components b Hb Hl) as (t & x0 & x1 & x2 & Ht & H0 & H1 & H2 & E & Et).
  destruct (ia64_bundle_mk true pos b t x0 x1 x2 Hb Hl Ht H0 H1 H2 E Et) as (O1 & L1 & V1).
  set (b1 := ia64_bundle bt true pos b) in *. set (m := nth (N.to_nat t) bt 0) in *.
  assert (Et1 : nth 0 b1 0 mod 32 = t).
  { destruct b1 as [|c r]; [discriminate L1|]. cbn [nth]. cbn [le_val] in V1. unfold mk in V1.
    set (u := le_val r) in *. clearbody u. clear - V1 Ht. lia. }
  assert (Y : forall s x, x < 2199023255552 -> sel m s true pos x < 2199023255552).
  { intros s x Hx. unfold sel. destruct ((m / 2 ^ s) mod 2 =? 1); [apply ia_g_lt|]; exact Hx. }
  destruct (ia64_bundle_mk false pos b1 t _ _ _ O1 L1 Ht (Y 0 x0 H0) (Y 1 x1 H1) (Y 2 x2 H2) V1 Et1) as (O2 & L2 & V2).
  fold m in V2.
  assert (R : forall s x, sel m s false pos (sel m s true pos x) = x).
  { intros s x. unfold sel. destruct ((m / 2 ^ s) mod 2 =? 1); [apply ia_g_rt; exact Ha|reflexivity]. }
  rewrite !R in V2. split; [|split; assumption].
  apply le_val_inj16; try assumption. rewrite V2, E. reflexivity.
Qed.

Lemma ia64_bundle_len enc pos b : bytes_ok b -> length b = 16%nat ->
  length (ia64_bundle bt enc pos b) = 16%nat /\ bytes_ok (ia64_bundle bt enc pos b).
Proof.
  intros Hb Hl.
  destruct (bundle_components b Hb Hl) as (t & x0 & x1 & x2 & Ht & H0 & H1 & H2 & E & Et).
  destruct (ia64_bundle_mk enc pos b t x0 x1 x2 Hb Hl Ht H0 H1 H2 E Et) as (O1 & L1 & V1). split; assumption.
Qed.

Lemma lenN_lt16 (l : list N) : (lenN l <? 16) = false -> (16 <= length l)%nat.
Proof. unfold lenN. intro H. lia. Qed.

Lemma ia64_go_len enc : forall f l pos, bytes_ok l ->
  length (ia64_go bt enc f pos l) = length l /\ bytes_ok (ia64_go bt enc f pos l).
Proof.
  induction f as [|f IH]; intros l pos Hl; cbn [ia64_go]; [auto|].
  destruct (lenN l <? 16) eqn:E; [auto|].
  apply lenN_lt16 in E.
  assert (L16 : length (firstn 16 l) = 16%nat) by (rewrite firstn_length; lia).
  destruct (ia64_bundle_len enc pos (firstn 16 l) (bytes_ok_firstn 16 l Hl) L16) as [LB OB].
  destruct (IH (skipn 16 l) (w32 (pos + 16)) (bytes_ok_skipn 16 l Hl)) as [LR OR].
  split.
  - rewrite app_length, LB, LR, skipn_length. lia.
  - apply bytes_ok_app; assumption.
Qed.

Lemma ia64_go_rt : forall f l pos, aligned16 pos -> bytes_ok l ->
  ia64_go bt false f pos (ia64_go bt true f pos l) = l.
Proof.
  induction f as [|f IH]; intros l pos Ha Hl; cbn [ia64_go]; [reflexivity|].
  destruct (lenN l <? 16) eqn:E.
  - cbn [ia64_go]. rewrite E. reflexivity.
  - pose proof (lenN_lt16 l E) as E16.
    assert (L16 : length (firstn 16 l) = 16%nat) by (rewrite firstn_length; lia).
    destruct (ia64_bundle_rt pos (firstn 16 l) Ha (bytes_ok_firstn 16 l Hl) L16) as (RT & LB & OB).
    set (B1 := ia64_bundle bt true pos (firstn 16 l)) in *.
    set (R1 := ia64_go bt true f (w32 (pos + 16)) (skipn 16 l)).
    assert (EL : (lenN (B1 ++ R1) <? 16) = false).
    { unfold lenN. rewrite app_length, LB. lia. }
    rewrite EL.
    assert (F16 : firstn 16 (B1 ++ R1) = B1).
    { rewrite <- LB at 1. rewrite firstn_app, firstn_all, Nat.sub_diag. cbn [firstn]. apply app_nil_r. }
    assert (S16 : skipn 16 (B1 ++ R1) = R1).
    { rewrite <- LB at 1. rewrite skipn_app, skipn_all, Nat.sub_diag. reflexivity. }
    rewrite F16, S16, RT. subst R1.
    rewrite IH; [apply firstn_skipn|apply aligned16_next; exact Ha|apply bytes_ok_skipn; exact Hl].
Qed.

Theorem ia64_roundtrip start l : aligned16 (w32 start) -> bytes_ok l ->
  fst (ia64_code bt false start (fst (ia64_code bt true start l))) = l.
Proof.
  intros Ha Hl. unfold ia64_code. cbn [fst].
  destruct (ia64_go_len true (length l) l (w32 start) Hl) as [L _]. rewrite L.
  apply ia64_go_rt; assumption.
Qed.

Theorem ia64_length enc start l : bytes_ok l -> length (fst (ia64_code bt enc start l)) = length l.
Proof. intro Hl. unfold ia64_code. cbn [fst]. apply ia64_go_len. exact Hl. Qed.
End IA64RT.
