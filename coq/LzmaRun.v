(** Runs of symbols: the LZMA decoder specification, started on the bytes
    written by the range encoder for the decisions of the symbol encoder,
    reconstructs exactly the LZ77 expansion of the symbol sequence, stops
    with [Finished] and has consumed exactly the encoder's bytes. *)
From XZ Require Import Base Lzma RcAbs RcDec RcEnc RcRoundtrip RcCodes LzmaEnc LzmaSym.
Require Import ZifyBool ZifyN ZifyNat.
Local Open Scope N_scope.

(** ---------- fuel ---------- *)
Section NLoop.
Context {S : Type} (done : S -> bool) (step : S -> S).
Fixpoint nloop (n : nat) (s : S) : S :=
  match n with O => s | Datatypes.S k => if done s then s else nloop k (step s) end.

Lemma nloop_done n s : done s = true -> nloop n s = s.
Proof. destruct n; cbn [nloop]; intro H; [reflexivity|rewrite H; reflexivity]. Qed.

Lemma nloop_add a : forall b s, nloop (a + b) s = nloop b (nloop a s).
Proof.
  induction a as [|a IH]; intros b s; cbn [nloop plus]; [reflexivity|].
  destruct (done s) eqn:E; [|apply IH].
  symmetry. apply nloop_done. exact E.
Qed.

Lemma ploop_nloop p : forall s, ploop done step p s = nloop (Pos.to_nat p) s.
Proof.
  induction p as [q IH|q IH|]; intro s; cbn [ploop].
  - rewrite Pos2Nat.inj_xI. cbn [nloop]. destruct (done s) eqn:E; [reflexivity|].
    rewrite !IH. replace (2 * Pos.to_nat q)%nat with (Pos.to_nat q + Pos.to_nat q)%nat by lia.
    rewrite nloop_add. reflexivity.
  - rewrite Pos2Nat.inj_xO. destruct (done s) eqn:E.
    + symmetry. apply nloop_done. exact E.
    + rewrite !IH. replace (2 * Pos.to_nat q)%nat with (Pos.to_nat q + Pos.to_nat q)%nat by lia.
      rewrite nloop_add. reflexivity.
  - change (Pos.to_nat 1) with 1%nat. cbn [nloop]. destruct (done s); reflexivity.
Qed.
End NLoop.

(** ---------- states that differ only in the range decoder ---------- *)
Record same (a b : lz) : Prop := {
  sm_ps : zps a = zps b; sm_st : zstate a = zstate b;
  sm_r0 : rep0 a = rep0 b; sm_r1 : rep1 a = rep1 b; sm_r2 : rep2 a = rep2 b; sm_r3 : rep3 a = rep3 b;
  sm_h : zhist a = zhist b; sm_o : zout a = zout b; sm_on : zoutn a = zoutn b;
  sm_l : zleft a = zleft b; sm_s : zstatus a = zstatus b }.

Lemma same_refl a : same a a.
Proof. constructor; reflexivity. Qed.

Lemma same_emit a b x r1 r2 ps st : same a b -> same (emit a x r1 ps st) (emit b x r2 ps st).
Proof.
  intros [H1 H2 H3 H4 H5 H6 H7 H8 H9 H10 H11]. constructor; cbn; rewrite ?H1, ?H2, ?H3, ?H4, ?H5, ?H6, ?H7, ?H8, ?H9, ?H10, ?H11; reflexivity.
Qed.

Lemma same_set_reps a b r1 r2 ps st w x y v : same a b -> same (set_reps a r1 ps st w x y v) (set_reps b r2 ps st w x y v).
Proof.
  intros [H1 H2 H3 H4 H5 H6 H7 H8 H9 H10 H11]. constructor; cbn; rewrite ?H1, ?H2, ?H3, ?H4, ?H5, ?H6, ?H7, ?H8, ?H9, ?H10, ?H11; reflexivity.
Qed.

Lemma same_with_status a b st : same a b -> same (with_status a st) (with_status b st).
Proof.
  intros [H1 H2 H3 H4 H5 H6 H7 H8 H9 H10 H11]. constructor; cbn; rewrite ?H1, ?H2, ?H3, ?H4, ?H5, ?H6, ?H7, ?H8, ?H9, ?H10, ?H11; reflexivity.
Qed.

Lemma same_set_reps_id a b r : same a b ->
  same a (set_reps b r (zps b) (zstate b) (rep0 b) (rep1 b) (rep2 b) (rep3 b)).
Proof. intros [H1 H2 H3 H4 H5 H6 H7 H8 H9 H10 H11]. constructor; cbn; assumption. Qed.

Lemma same_copy_match n : forall a b, same a b -> same (copy_match n a) (copy_match n b).
Proof.
  induction n as [|k IH]; intros a b H; cbn [copy_match]; [exact H|].
  pose proof H as [H1 H2 H3 H4 H5 H6 H7 H8 H9 H10 H11].
  assert (R : room a = room b) by (unfold room; rewrite H10; reflexivity).
  rewrite R. destruct (room b).
  - apply IH. rewrite H7, H3, H1, H2. apply same_emit. exact H.
  - apply same_with_status. exact H.
Qed.

Lemma same_after_sym a b sym r1 r2 ps : same a b -> same (after_sym a sym r1 ps) (after_sym b sym r2 ps).
Proof.
  intro H. pose proof H as [H1 H2 H3 H4 H5 H6 H7 H8 H9 H10 H11].
  destruct sym as [x|d len| |idx len]; unfold after_sym.
  - rewrite H2. apply same_emit. exact H.
  - rewrite H2, H3, H4, H5. apply same_copy_match. apply same_set_reps. exact H.
  - rewrite H2, H3, H4, H5, H6. apply same_copy_match. apply same_set_reps. exact H.
  - rewrite H2, H3, H4, H5, H6. apply same_copy_match.
    destruct (idx =? 0); [|destruct (idx =? 1); [|destruct (idx =? 2)]]; apply same_set_reps; exact H.
Qed.

Lemma same_enc_sym pr a b sym : same a b -> enc_sym pr a sym = enc_sym pr b sym.
Proof.
  intros [H1 H2 H3 H4 H5 H6 H7 H8 H9 H10 H11]. unfold enc_sym, enc_literal. rewrite H7, H2, H3. reflexivity.
Qed.

Lemma same_enc_eopm pr a b : same a b -> enc_eopm pr a = enc_eopm pr b.
Proof. intros [H1 H2 H3 H4 H5 H6 H7 H8 H9 H10 H11]. unfold enc_eopm. rewrite H7, H2. reflexivity. Qed.

Lemma same_valid ds a b sym : same a b -> sym_valid ds a sym -> sym_valid ds b sym.
Proof.
  intros [H1 H2 H3 H4 H5 H6 H7 H8 H9 H10 H11] [V1 V2]. split.
  - unfold not_at_end in *. rewrite <- H10. exact V1.
  - destruct sym; rewrite <- ?H7, <- ?H4, <- ?H5, <- ?H6; exact V2.
Qed.

(** ---------- the encoder over a symbol list ---------- *)
Definition rc0 : rc := {| rrange := 0; rcode := 0; rin := []; rused := 0; rfail := false |}.

Fixpoint enc_run (pr : props) (z : lz) (syms : list lsym) : list decision * lz :=
  match syms with
  | [] => ([], z)
  | sym :: tl =>
      let e := enc_sym pr z sym (zps z) in
      let r := enc_run pr (after_sym z sym rc0 (snd e)) tl in
      (fst e ++ fst r, snd r)
  end.

Fixpoint valid_run (pr : props) (dict_size : N) (z : lz) (syms : list lsym) : Prop :=
  match syms with
  | [] => True
  | sym :: tl =>
      sym_valid dict_size z sym /\
      let z' := after_sym z sym rc0 (snd (enc_sym pr z sym (zps z))) in
      zstatus z' = Running /\ valid_run pr dict_size z' tl
  end.

(** decisions are always legal: probabilities stay in range *)
Definition enc_ok (e : encoder) : Prop :=
  forall ps, all_ok ps -> all_ok (snd (e ps)) /\ Forall dec_ok (fst (e ps)).

Lemma Codes_enc_ok {A} D e (a : A) : Codes a0 [] D e a -> enc_ok e.
Proof. intros H ps Hok. destruct (H ps Hok) as [H1 [H2 _]]. split; assumption. Qed.

Lemma enc_ok_seq2 e1 e2 : enc_ok e1 -> enc_ok e2 -> enc_ok (seq2 e1 e2).
Proof.
  intros H1 H2 ps Hok. unfold seq2. cbn [fst snd].
  destruct (H1 ps Hok) as [A1 B1]. destruct (H2 _ A1) as [A2 B2].
  split; [exact A2|apply Forall_app; split; assumption].
Qed.

Lemma a0_pos : 0 < aR a0.
Proof. cbn. lia. Qed.

Lemma enc_ok_bit i b : enc_ok (enc_bit i b).
Proof. apply (Codes_enc_ok _ _ _ (Codes_bit a0 [] a0_pos i b)). Qed.

Lemma enc_ok_len base ps_ len : 2 <= len <= 273 -> enc_ok (enc_len base ps_ len).
Proof. intro H. apply (Codes_enc_ok _ _ _ (Codes_len a0 [] a0_pos base ps_ len H)). Qed.

Lemma enc_ok_dist len d : d < 4294967296 -> enc_ok (enc_dist len d).
Proof. intro H. apply (Codes_enc_ok _ _ _ (Codes_dist a0 [] a0_pos len d H)). Qed.

Lemma enc_ok_literal pr z b : enc_ok (enc_literal pr z b).
Proof.
  unfold enc_literal. cbv zeta. destruct (is_lit_state (zstate z)).
  - apply (Codes_enc_ok _ _ _ (Codes_tree a0 [] a0_pos 8 _ 1 b)).
  - apply (Codes_enc_ok _ _ _ (Codes_lit_matched a0 [] a0_pos 8 _ _ 1 b true)).
Qed.

Lemma enc_ok_sym pr ds z sym : sym_valid ds z sym -> enc_ok (enc_sym pr z sym).
Proof.
  intros [_ Hv]. destruct sym as [b|d len| |idx len]; unfold enc_sym; cbv zeta.
  - apply enc_ok_seq2; [apply enc_ok_bit|apply enc_ok_literal].
  - destruct Hv as [Hl [_ [_ Hd]]].
    apply enc_ok_seq2; [apply enc_ok_bit|]. apply enc_ok_seq2; [apply enc_ok_bit|].
    apply enc_ok_seq2; [apply enc_ok_len; exact Hl|apply enc_ok_dist; lia].
  - apply enc_ok_seq2; [apply enc_ok_bit|]. apply enc_ok_seq2; [apply enc_ok_bit|].
    apply enc_ok_seq2; apply enc_ok_bit.
  - destruct Hv as [Hl _].
    apply enc_ok_seq2; [apply enc_ok_bit|]. apply enc_ok_seq2; [apply enc_ok_bit|].
    destruct (idx =? 0); [|destruct (idx =? 1)].
    + apply enc_ok_seq2; [apply enc_ok_bit|]. apply enc_ok_seq2; [apply enc_ok_bit|apply enc_ok_len; exact Hl].
    + apply enc_ok_seq2; [apply enc_ok_bit|]. apply enc_ok_seq2; [apply enc_ok_bit|apply enc_ok_len; exact Hl].
    + apply enc_ok_seq2; [apply enc_ok_bit|]. apply enc_ok_seq2; [apply enc_ok_bit|].
      apply enc_ok_seq2; [apply enc_ok_bit|apply enc_ok_len; exact Hl].
Qed.

Lemma enc_ok_eopm pr z : enc_ok (enc_eopm pr z).
Proof.
  unfold enc_eopm. cbv zeta.
  apply enc_ok_seq2; [apply enc_ok_bit|]. apply enc_ok_seq2; [apply enc_ok_bit|].
  apply enc_ok_seq2; [apply enc_ok_len; lia|apply enc_ok_dist; lia].
Qed.

(** ---------- facts about [after_sym] ---------- *)
Lemma copy_match_rc n : forall z, zrc (copy_match n z) = zrc z /\ zps (copy_match n z) = zps z.
Proof.
  induction n as [|k IH]; intro z; cbn [copy_match]; [split; reflexivity|].
  destruct (room z).
  - destruct (IH (emit z (hget (zhist z) (rep0 z)) (zrc z) (zps z) (zstate z))) as [A B].
    rewrite A, B. split; reflexivity.
  - split; reflexivity.
Qed.

Lemma after_sym_rc z sym r ps : zrc (after_sym z sym r ps) = r /\ zps (after_sym z sym r ps) = ps.
Proof.
  destruct sym as [b|d len| |idx len]; unfold after_sym.
  - split; reflexivity.
  - destruct (copy_match_rc (N.to_nat len) (set_reps z r ps (st_match (zstate z)) d (rep0 z) (rep1 z) (rep2 z))) as [A B].
    rewrite A, B. split; reflexivity.
  - destruct (copy_match_rc 1 (set_reps z r ps (st_shortrep (zstate z)) (rep0 z) (rep1 z) (rep2 z) (rep3 z))) as [A B].
    rewrite A, B. split; reflexivity.
  - destruct (idx =? 0); [|destruct (idx =? 1); [|destruct (idx =? 2)]];
      match goal with |- zrc (copy_match ?n ?z') = _ /\ _ => destruct (copy_match_rc n z') as [A B]; rewrite A, B; split; reflexivity end.
Qed.

Lemma copy_match_left_none n : forall z, zleft z = None -> zleft (copy_match n z) = None.
Proof.
  induction n as [|k IH]; intros z H; cbn [copy_match]; [exact H|].
  unfold room. rewrite H. apply IH. cbn. rewrite H. reflexivity.
Qed.

Lemma after_sym_left_none z sym r ps : zleft z = None -> zleft (after_sym z sym r ps) = None.
Proof.
  intro H. destruct sym as [b|d len| |idx len]; unfold after_sym.
  - cbn. rewrite H. reflexivity.
  - apply copy_match_left_none. exact H.
  - apply copy_match_left_none. exact H.
  - destruct (idx =? 0); [|destruct (idx =? 1); [|destruct (idx =? 2)]]; apply copy_match_left_none; exact H.
Qed.

Lemma enc_run_left_none pr syms : forall z, zleft z = None -> zleft (snd (enc_run pr z syms)) = None.
Proof.
  induction syms as [|sym tl IH]; intros z H; cbn [enc_run snd]; [exact H|].
  apply IH. apply after_sym_left_none. exact H.
Qed.

Lemma enc_run_ok pr dict_size syms : forall z,
  all_ok (zps z) -> valid_run pr dict_size z syms ->
  Forall dec_ok (fst (enc_run pr z syms)) /\ all_ok (zps (snd (enc_run pr z syms))).
Proof.
  induction syms as [|sym tl IH]; intros z Hok Hv; cbn [enc_run fst snd].
  - split; [constructor|exact Hok].
  - destruct Hv as [Hv [_ Hv']]. cbv zeta in Hv'.
    destruct (enc_ok_sym pr dict_size z sym Hv (zps z) Hok) as [A B].
    destruct (IH (after_sym z sym rc0 (snd (enc_sym pr z sym (zps z))))) as [C D].
    + destruct (after_sym_rc z sym rc0 (snd (enc_sym pr z sym (zps z)))) as [_ E]. rewrite E. exact A.
    + exact Hv'.
    + split; [apply Forall_app; split; assumption|exact D].
Qed.

Section Run.
Variable f : astate.
Variable rest : list N.
Hypothesis Rf : 0 < aR f.
Variable pr : props.
Variable dict_size : N.
Variable allow_eopm : bool.

Lemma run_syms : forall syms zd ze s more,
  same ze zd -> zstatus zd = Running -> valid_run pr dict_size ze syms ->
  ctx f rest s (zrc zd) (zps zd) (fst (enc_run pr ze syms) ++ more) ->
  exists zd', nloop lz_done (symbol pr dict_size allow_eopm) (length syms) zd = zd' /\
     same (snd (enc_run pr ze syms)) zd' /\ zstatus zd' = Running /\
     ctx f rest (arun s (fst (enc_run pr ze syms))) (zrc zd') (zps zd') more.
Proof.
  induction syms as [|sym tl IH]; intros zd ze s more Hsame Hrun Hv Hc; cbn [enc_run fst snd length nloop] in *.
  - exists zd. split; [reflexivity|]. split; [exact Hsame|]. split; [exact Hrun|exact Hc].
  - destruct Hv as [Hv [Hst Hv']]. cbv zeta in Hst, Hv'.
    pose proof (sm_ps _ _ Hsame) as Eps.
    rewrite (same_enc_sym pr ze zd sym Hsame), Eps in *.
    set (e := enc_sym pr zd sym (zps zd)) in *.
    rewrite <- app_assoc in Hc.
    destruct (symbol_any f rest Rf pr dict_size allow_eopm zd sym s _ (same_valid _ _ _ _ Hsame Hv) Hc) as [r' [Esym C1]].
    fold e in Esym, C1.
    unfold lz_done at 1. rewrite Hrun. rewrite Esym.
    pose proof (same_after_sym ze zd sym rc0 r' (snd e) Hsame) as Hsame1.
    destruct (after_sym_rc zd sym r' (snd e)) as [Erc Eps1].
    assert (Hrun1 : zstatus (after_sym zd sym r' (snd e)) = Running) by (rewrite <- (sm_s _ _ Hsame1); exact Hst).
    assert (C1' : ctx f rest (arun s (fst e)) (zrc (after_sym zd sym r' (snd e))) (zps (after_sym zd sym r' (snd e)))
                      (fst (enc_run pr (after_sym ze sym rc0 (snd e)) tl) ++ more)) by (rewrite Erc, Eps1; exact C1).
    destruct (IH _ _ _ more Hsame1 Hrun1 Hv' C1') as [zd' [E1 [S1 [R1 K1]]]].
    exists zd'. split; [exact E1|]. split; [exact S1|]. split; [exact R1|].
    rewrite arun_app. exact K1.
Qed.

End Run.

(** start of a range-coded segment in an arbitrary LZMA state (LZMA2 chunks continue the previous chunk's state) *)
Definition z_start (ps : probs) (st a b c d : N) (h : hist) (left : option N) : lz :=
  {| zrc := rc0; zps := ps; zstate := st; rep0 := a; rep1 := b; rep2 := c; rep3 := d;
     zhist := h; zout := []; zoutn := 0; zleft := left; zstatus := Running |}.
Definition z_init (left : option N) : lz := z_start (PM.empty N) 0 0 0 0 0 hist_empty left.

Lemma all_ok_empty : all_ok (PM.empty N).
Proof. intro i. rewrite pget_empty. exact prob_init_ok. Qed.

Section Final.
Variables (pr : props) (dict_size : N) (allow_eopm : bool).
Variables (ps0 : probs) (st0 a0_ b0_ c0_ d0_ : N) (h0 : hist).
Hypothesis Hps0 : all_ok ps0.

(** common part: the decoder follows the encoder through all symbols *)
Lemma follow syms left tail_ds rest :
  let z0 := z_start ps0 st0 a0_ b0_ c0_ d0_ h0 left in
  valid_run pr dict_size z0 syms ->
  let er := enc_run pr z0 syms in
  let ds := fst er ++ tail_ds in
  Forall dec_ok tail_ds ->
  let f := afinal ds in
  0 < aR f /\
  exists zs zd,
    lz_start (encode ds ++ rest) ps0 st0 a0_ b0_ c0_ d0_ h0 left = inl zs /\
    nloop lz_done (symbol pr dict_size allow_eopm) (length syms) zs = zd /\
    same (snd er) zd /\ zstatus zd = Running /\
    ctx f rest (arun a0 (fst er)) (zrc zd) (zps zd) tail_ds /\
    length (encode ds) = (N.to_nat (aJ f) + 5)%nat.
Proof.
  intros z0 Hv er ds Hd2 f.
  destruct (enc_run_ok pr dict_size syms z0 Hps0 Hv) as [Hd1 Hok1]. fold er in Hd1, Hok1.
  assert (Hd : Forall dec_ok ds) by (apply Forall_app; split; assumption).
  pose proof (encode_is_final_low ds Hd) as EE. cbv zeta in EE. fold f in EE.
  destruct (afinal_bound ds Hd) as [_ HR]. fold f in HR. cbv zeta in HR.
  assert (Rf : 0 < aR f) by (unfold TOPV in HR; lia).
  split; [exact Rf|].
  destruct (arun_good ds a0 a0_good Hd) as [Hg Hin].
  pose proof (anorm_inside (arun a0 ds)) as Hn. fold (afinal ds) in Hn. fold f in Hn.
  destruct (sync_init f rest Rf (inside_trans _ _ _ Hin Hn)) as [r0 [E0 S0]].
  rewrite EE. unfold lz_start. rewrite E0.
  set (zs := {| zrc := r0; zps := ps0; zstate := st0; rep0 := a0_; rep1 := b0_; rep2 := c0_; rep3 := d0_;
                zhist := h0; zout := []; zoutn := 0; zleft := left; zstatus := Running |}).
  assert (Hsame : same z0 zs) by (constructor; reflexivity).
  assert (C0 : ctx f rest a0 (zrc zs) (zps zs) (fst er ++ tail_ds)).
  { unfold ctx. split; [exact a0_good|]. split; [exact S0|]. split; [exact Hps0|]. split; [exact Hd|exact Hn]. }
  destruct (run_syms f rest Rf pr dict_size allow_eopm syms zs z0 a0 _ Hsame eq_refl Hv C0)
    as [zd [E1 [S1 [R1 K1]]]]. fold er in E1, S1, K1.
  exists zs, zd. split; [reflexivity|]. split; [exact E1|]. split; [exact S1|]. split; [exact R1|].
  split; [exact K1|apply be_bytes_length].
Qed.

(** LZMA stream terminated by the end marker (the .lzma files xz writes, raw LZMA1) *)
Theorem lzma_roundtrip_eopm syms rest fuel :
  let z0 := z_start ps0 st0 a0_ b0_ c0_ d0_ h0 None in
  valid_run pr dict_size z0 syms ->
  (length syms < Pos.to_nat fuel)%nat ->
  let er := enc_run pr z0 syms in
  let ds := fst er ++ fst (enc_eopm pr (snd er) (zps (snd er))) in
  exists zs,
    lz_start (encode ds ++ rest) ps0 st0 a0_ b0_ c0_ d0_ h0 None = inl zs /\
    let zr := lz_run pr dict_size allow_eopm fuel zs in
    zstatus zr = Finished /\ zout zr = zout (snd er) /\ zhist zr = zhist (snd er) /\
    rin (zrc zr) = rest /\ rused (zrc zr) = N.of_nat (length (encode ds)).
Proof.
  intros z0 Hv Hfuel er ds.
  destruct (enc_run_ok pr dict_size syms z0 Hps0 Hv) as [_ Hok1]. fold er in Hok1.
  destruct (enc_ok_eopm pr (snd er) (zps (snd er)) Hok1) as [_ Hd2].
  destruct (follow syms None _ rest Hv Hd2) as [Rf [zs [zd [E0 [E1 [S1 [R1 [K1 EL]]]]]]]].
  fold z0 in E0, E1, S1, K1, EL, Rf. fold er in E0, E1, S1, K1, EL, Rf. fold ds in E0, K1, EL, Rf.
  set (f := afinal ds) in *.
  exists zs. split; [exact E0|].
  assert (Hleft : zleft zd = None).
  { rewrite <- (sm_l _ _ S1). apply enc_run_left_none. reflexivity. }
  rewrite (same_enc_eopm pr _ _ S1), (sm_ps _ _ S1) in K1.
  rewrite <- (app_nil_r (fst (enc_eopm pr zd (zps zd)))) in K1.
  assert (Hf : f = anorm (arun (arun a0 (fst er)) (fst (enc_eopm pr zd (zps zd))))).
  { unfold f, afinal, ds. rewrite arun_app, (same_enc_eopm pr _ _ S1), (sm_ps _ _ S1). reflexivity. }
  pose proof (symbol_eopm f rest Rf pr dict_size allow_eopm zd _ Hleft K1 Hf) as F. cbv zeta in F.
  destruct F as [F1 [F2 [F3 [F4 [F5 F6]]]]].
  assert (ER : lz_run pr dict_size allow_eopm fuel zs = symbol pr dict_size allow_eopm zd).
  { unfold lz_run. rewrite ploop_nloop.
    replace (Pos.to_nat fuel) with (length syms + S (Pos.to_nat fuel - length syms - 1))%nat by lia.
    rewrite nloop_add, E1. cbn [nloop].
    assert (D0 : lz_done zd = false) by (unfold lz_done; rewrite R1; reflexivity).
    rewrite D0.
    rewrite nloop_done by (unfold lz_done; rewrite F1; reflexivity).
    rewrite F1. reflexivity. }
  cbv zeta. rewrite ER.
  rewrite F1. repeat split.
  - rewrite F2. symmetry. apply (sm_o _ _ S1).
  - rewrite F4. symmetry. apply (sm_h _ _ S1).
  - exact F5.
  - rewrite F6, EL. lia.
Qed.

(** known uncompressed size (LZMA2 chunks; .lzma with a size field): no end marker *)
Theorem lzma_roundtrip_known_size syms n rest fuel :
  let z0 := z_start ps0 st0 a0_ b0_ c0_ d0_ h0 (Some n) in
  valid_run pr dict_size z0 syms ->
  (length syms < Pos.to_nat fuel)%nat ->
  let er := enc_run pr z0 syms in
  zleft (snd er) = Some 0 ->
  let ds := fst er in
  exists zs,
    lz_start (encode ds ++ rest) ps0 st0 a0_ b0_ c0_ d0_ h0 (Some n) = inl zs /\
    let zr := lz_run pr dict_size allow_eopm fuel zs in
    same (with_status (snd er) Finished) zr /\
    zstatus zr = Finished /\ zout zr = zout (snd er) /\ zhist zr = zhist (snd er) /\
    rin (zrc zr) = rest /\ rused (zrc zr) = N.of_nat (length (encode ds)).
Proof.
  intros z0 Hv Hfuel er Hl0 ds.
  destruct (follow syms (Some n) [] rest Hv (Forall_nil _)) as [Rf [zs [zd [E0 [E1 [S1 [R1 [K1 EL]]]]]]]].
  fold z0 in E0, E1, S1, K1, EL, Rf. fold er in E0, E1, S1, K1, EL, Rf.
  rewrite app_nil_r in E0, K1, EL, Rf. fold ds in E0, K1, EL, Rf.
  set (f := afinal ds) in *.
  exists zs. split; [exact E0|].
  assert (Hleft : zleft zd = Some 0) by (rewrite <- (sm_l _ _ S1); exact Hl0).
  assert (Hf : f = anorm (arun a0 (fst er))) by reflexivity.
  pose proof (symbol_known_end f rest Rf pr dict_size allow_eopm zd _ Hleft K1 Hf) as F. cbv zeta in F.
  destruct F as [F0 [F1 [F2 [F3 [F4 [F5 F6]]]]]].
  assert (ER : lz_run pr dict_size allow_eopm fuel zs = symbol pr dict_size allow_eopm zd).
  { unfold lz_run. rewrite ploop_nloop.
    replace (Pos.to_nat fuel) with (length syms + S (Pos.to_nat fuel - length syms - 1))%nat by lia.
    rewrite nloop_add, E1. cbn [nloop].
    assert (D0 : lz_done zd = false) by (unfold lz_done; rewrite R1; reflexivity).
    rewrite D0.
    rewrite nloop_done by (unfold lz_done; rewrite F1; reflexivity).
    rewrite F1. reflexivity. }
  cbv zeta. rewrite ER.
  split.
  - rewrite F0. apply same_with_status. apply same_set_reps_id. exact S1.
  - rewrite F1. repeat split.
    + rewrite F2. symmetry. apply (sm_o _ _ S1).
    + rewrite F4. symmetry. apply (sm_h _ _ S1).
    + exact F5.
    + rewrite F6, EL. lia.
Qed.

End Final.
