(** Model of lzma_code() (src/liblzma/common/common.c) over an arbitrary
    inner coder, and a monitor that recognises exactly the observable call
    logs the model can produce. *)
From XZ Require Import Base.
Local Open Scope N_scope.

(** lzma_ret *)
Definition R_OK := 0. Definition R_STREAM_END := 1. Definition R_NO_CHECK := 2.
Definition R_UNSUPPORTED_CHECK := 3. Definition R_GET_CHECK := 4. Definition R_MEM_ERROR := 5.
Definition R_MEMLIMIT_ERROR := 6. Definition R_FORMAT_ERROR := 7. Definition R_OPTIONS_ERROR := 8.
Definition R_DATA_ERROR := 9. Definition R_BUF_ERROR := 10. Definition R_PROG_ERROR := 11.
Definition R_SEEK_NEEDED := 12. Definition R_TIMED_OUT := 101.

(** lzma_action *)
Definition A_RUN := 0. Definition A_SYNC_FLUSH := 1. Definition A_FULL_FLUSH := 2.
Definition A_FINISH := 3. Definition A_FULL_BARRIER := 4.
Definition ACTION_MAX := 4.

(** internal sequence *)
Definition ISEQ_RUN := 0. Definition ISEQ_SYNC_FLUSH := 1. Definition ISEQ_FULL_FLUSH := 2.
Definition ISEQ_FINISH := 3. Definition ISEQ_FULL_BARRIER := 4. Definition ISEQ_END := 5.
Definition ISEQ_ERROR := 6.

Record cstate := {
  sq : N;
  saved_avail_in : N;
  supported : list bool;          (* supported_actions[0..4] *)
  allow_buf_error : bool;
  total_in : N; total_out : N
}.

(** what the caller presents on one call *)
Record call := {
  action : N;
  avail_in : N; avail_out : N;
  in_null : bool; out_null : bool;     (* next_in / next_out == NULL *)
  reserved_bad : bool;                 (* some reserved field is set *)
  initialised : bool                   (* internal != NULL && next.code != NULL *)
}.

(** result of the inner coder's code() *)
Record inner_res := { iret : N; iin : N; iout : N }.

Record outcome := {
  ret : N; st : cstate;
  called : bool;       (* was the inner coder invoked *)
  din : N; dout : N    (* bytes by which next/avail/total moved *)
}.

Definition supp (s : cstate) (a : N) : bool := nth (N.to_nat a) (supported s) false.
Definition nochange (s : cstate) (r : N) : outcome :=
  {| ret := r; st := s; called := false; din := 0; dout := 0 |}.

Definition with_seq (s : cstate) (q : N) : cstate :=
  {| sq := q; saved_avail_in := saved_avail_in s; supported := supported s;
     allow_buf_error := allow_buf_error s; total_in := total_in s; total_out := total_out s |}.

(** the switch on sequence before the call: Some new-sequence or an early return *)
Definition pre_switch (s : cstate) (c : call) : N + N (* inl seq' | inr early ret *) :=
  let q := sq s in
  if q =? ISEQ_RUN then
    inl (if action c =? A_SYNC_FLUSH then ISEQ_SYNC_FLUSH
         else if action c =? A_FULL_FLUSH then ISEQ_FULL_FLUSH
         else if action c =? A_FINISH then ISEQ_FINISH
         else if action c =? A_FULL_BARRIER then ISEQ_FULL_BARRIER
         else ISEQ_RUN)
  else if (q =? ISEQ_SYNC_FLUSH) || (q =? ISEQ_FULL_FLUSH) || (q =? ISEQ_FINISH) || (q =? ISEQ_FULL_BARRIER) then
    (* ISEQ_x pairs with action x: both are numbered 1..4 identically *)
    if negb (action c =? q) || negb (saved_avail_in s =? avail_in c) then inr R_PROG_ERROR else inl q
  else if q =? ISEQ_END then inr R_STREAM_END
  else inr R_PROG_ERROR.

(** what happens after the inner coder returned [r], with sequence [q] *)
Definition post (s : cstate) (q : N) (c : call) (r : inner_res) : outcome :=
  let progress := negb ((iin r =? 0) && (iout r =? 0)) in
  let fin (rr : N) (q' : N) (abe : bool) :=
    {| ret := rr;
       st := {| sq := q'; saved_avail_in := avail_in c - iin r; supported := supported s;
                allow_buf_error := abe; total_in := total_in s + iin r; total_out := total_out s + iout r |};
       called := true; din := iin r; dout := iout r |} in
  let x := iret r in
  if x =? R_OK then
    if progress then fin R_OK q false
    else if allow_buf_error s then fin R_BUF_ERROR q true else fin R_OK q true
  else if x =? R_TIMED_OUT then fin R_OK q false
  else if x =? R_SEEK_NEEDED then fin x (if q =? ISEQ_FINISH then ISEQ_RUN else q) false
  else if x =? R_STREAM_END then
    fin x (if (q =? ISEQ_SYNC_FLUSH) || (q =? ISEQ_FULL_FLUSH) || (q =? ISEQ_FULL_BARRIER) then ISEQ_RUN else ISEQ_END) false
  else if (x =? R_NO_CHECK) || (x =? R_UNSUPPORTED_CHECK) || (x =? R_GET_CHECK) || (x =? R_MEMLIMIT_ERROR) then
    fin x q false
  else fin x ISEQ_ERROR (allow_buf_error s).

Definition rejected (s : cstate) (c : call) : bool :=
  (in_null c && negb (avail_in c =? 0)) || (out_null c && negb (avail_out c =? 0))
  || negb (initialised c) || (ACTION_MAX <? action c) || negb (supp s (action c)).

Definition code_step (inner : call -> inner_res) (s : cstate) (c : call) : outcome :=
  if rejected s c then nochange s R_PROG_ERROR
  else if reserved_bad c then nochange s R_OPTIONS_ERROR
  else match pre_switch s c with
  | inr r => nochange s r
  | inl q => post s q c (inner c)
  end.

(** lzma_strm_init + the initialiser's supported_actions *)
Definition strm_init (sup : list bool) : cstate :=
  {| sq := ISEQ_RUN; saved_avail_in := 0; supported := sup; allow_buf_error := false;
     total_in := 0; total_out := 0 |}.

(** run a whole history of calls against an inner coder given as a function
    of the call index *)
Fixpoint run (inner : nat -> call -> inner_res) (k : nat) (s : cstate) (cs : list call) : list outcome :=
  match cs with
  | [] => []
  | c :: r => let o := code_step (inner k) s c in o :: run inner (S k) (st o) r
  end.

(** ---- table row interface for the exhaustive translator check ----
    row = [seq; action; saved_avail_in; inner_ret; in_used; out_used; allow; supported;
           in_null; out_null; reserved_bad; initialised; avail_in; avail_out;   (14 inputs)
           ret'; seq'; allow'; called; saved_avail_in'; total_in'; total_out'; avail_in'; avail_out']
    with total_in = 100 and total_out = 200 before the call *)
Definition row_model (r : list N) : list N :=
  match r with
  | q :: a :: sv :: ir :: iu :: ou :: al :: su :: inn :: outn :: rb :: ini :: ain :: aout :: _ =>
    let s := {| sq := q; saved_avail_in := sv;
                supported := map (fun i => (N.of_nat i =? a) && (su =? 1)) (List.seq 0 5);
                allow_buf_error := al =? 1; total_in := 100; total_out := 200 |} in
    let c := {| action := a; avail_in := ain; avail_out := aout; in_null := inn =? 1; out_null := outn =? 1;
                reserved_bad := rb =? 1; initialised := ini =? 1 |} in
    let o := code_step (fun _ => {| iret := ir; iin := iu; iout := ou |}) s c in
    [ret o; sq (st o); if allow_buf_error (st o) then 1 else 0; if called o then 1 else 0;
     saved_avail_in (st o); total_in (st o); total_out (st o); ain - din o; aout - dout o]
  | _ => []
  end.
Definition row_ok (r : list N) : bool := list_eqb (row_model r) (skipn 14 r).
