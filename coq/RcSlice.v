(** Suspension and resumption of rc_shift_low: the C function returns [true]
    in the middle of its do-while loop when the output buffer is full and is
    called again later.  Whatever the sequence of buffer sizes, the bytes
    written and the final state are those of the unbounded [shift_low] of
    RcEnc.v (the encoder's output does not depend on output slicing). *)
From XZ Require Import Base Lzma RcAbs RcDec RcEnc.
Require Import ZifyBool ZifyN ZifyNat.
Local Open Scope N_scope.

Definition sl_cond (c : enc) : bool :=
  (elow c mod U32 <? 4278190080) || negb ((elow c / U32) mod U32 =? 0).
Definition sl_carry (c : enc) : N := (elow c / U32) mod 256.

(** one iteration of the do-while body: write cache + carry, cache becomes 0xFF, one pending byte less *)
Definition emit1 (c : enc) : enc :=
  {| elow := elow c; ecs := (ecs c - 1)%nat; erange := erange c; ecache := 255;
     eor := ((ecache c + sl_carry c) mod 256) :: eor c |}.

Fixpoint emit_u (n : nat) (c : enc) : enc :=
  match n with O => c | S k => emit_u k (emit1 c) end.

(** after the loop: new cache byte, one pending byte, low shifted *)
Definition sl_finish (c : enc) (emitted : bool) : enc :=
  {| elow := ((elow c mod 16777216) * 256) mod U64;
     ecs := S (ecs c); erange := erange c;
     ecache := if emitted then (elow c / 16777216) mod 256 else ecache c;
     eor := eor c |}.

Lemma emit1_low c : elow (emit1 c) = elow c.
Proof. reflexivity. Qed.
Lemma emit_u_low n : forall c, elow (emit_u n c) = elow c.
Proof. induction n as [|k IH]; intro c; cbn [emit_u]; [reflexivity|rewrite IH; reflexivity]. Qed.

Lemma emit_u_add a : forall b c, emit_u (a + b) c = emit_u b (emit_u a c).
Proof. induction a as [|a IH]; intros b c; cbn [emit_u plus]; [reflexivity|apply IH]. Qed.

(** the unbounded function of RcEnc.v, restated through the byte-wise loop *)
Lemma emit_u_shape n : forall c, (1 <= n)%nat ->
  eor (emit_u n c) = repeat ((255 + sl_carry c) mod 256) (n - 1) ++ ((ecache c + sl_carry c) mod 256) :: eor c /\
  ecs (emit_u n c) = (ecs c - n)%nat /\ ecache (emit_u n c) = 255 /\ erange (emit_u n c) = erange c.
Proof.
  induction n as [|k IH]; intros c Hn; [lia|].
  cbn [emit_u]. destruct k as [|k'].
  - cbn [emit_u emit1 eor ecs ecache erange repeat app Nat.sub]. repeat split; lia.
  - destruct (IH (emit1 c) ltac:(lia)) as [E1 [E2 [E3 E4]]].
    rewrite E1, E2, E3, E4. cbn [emit1 eor ecs ecache erange].
    assert (SC : sl_carry (emit1 c) = sl_carry c) by reflexivity. rewrite SC.
    repeat split; try lia.
    replace (S (S k') - 1)%nat with (S k') by lia. replace (S k' - 1)%nat with k' by lia.
    change (repeat ((255 + sl_carry c) mod 256) (S k')) with ((255 + sl_carry c) mod 256 :: repeat ((255 + sl_carry c) mod 256) k').
    rewrite repeat_cons, <- app_assoc. reflexivity.
Qed.

Lemma shift_low_as_loop c : (1 <= ecs c)%nat ->
  shift_low c = if sl_cond c then
                  let c1 := emit_u (ecs c) c in
                  {| elow := ((elow c mod 16777216) * 256) mod U64; ecs := 1; erange := erange c;
                     ecache := (elow c / 16777216) mod 256; eor := eor c1 |}
                else sl_finish c false.
Proof.
  intro H. unfold shift_low, sl_cond, sl_finish. destruct (_ || _); [|reflexivity].
  destruct (emit_u_shape (ecs c) c H) as [E _]. cbv zeta. rewrite E. reflexivity.
Qed.

(** ---------- the resumable function ---------- *)
(** [space] bytes of output space; returns the new state, the space left and whether it had to stop *)
Fixpoint emit_r (n : nat) (c : enc) (space : nat) : enc * nat * bool :=
  match n with
  | O => (c, space, false)
  | S k =>
    match space with
    | O => (c, O, true)
    | S sp => emit_r k (emit1 c) sp
    end
  end.

Definition shift_low_r (c : enc) (space : nat) : enc * nat * bool :=
  if sl_cond c then
    let '(c1, sp, stopped) := emit_r (ecs c) c space in
    if stopped then (c1, sp, true)
    else ({| elow := ((elow c1 mod 16777216) * 256) mod U64; ecs := 1; erange := erange c1;
             ecache := (elow c1 / 16777216) mod 256; eor := eor c1 |}, sp, false)
  else (sl_finish c false, space, false).

Lemma emit_r_spec n : forall c space,
  emit_r n c space = (emit_u (Nat.min n space) c, (space - Nat.min n space)%nat, (space <? n)%nat).
Proof.
  induction n as [|k IH]; intros c space; cbn [emit_r].
  - cbn [Nat.min emit_u]. rewrite Nat.sub_0_r. reflexivity.
  - destruct space as [|sp].
    + reflexivity.
    + rewrite IH. cbn [Nat.min emit_u]. reflexivity.
Qed.

(** calling again and again with fresh buffers until the call completes *)
Fixpoint run_r (grants : list nat) (c : enc) : option enc :=
  match grants with
  | [] => None
  | s :: rest => let '(c1, _, stopped) := shift_low_r c s in if stopped then run_r rest c1 else Some c1
  end.

Lemma emit_u_ecs n c : (n <= ecs c)%nat -> ecs (emit_u n c) = (ecs c - n)%nat.
Proof.
  revert c. induction n as [|k IH]; intros c H; cbn [emit_u]; [lia|].
  rewrite IH; cbn [emit1 ecs]; lia.
Qed.

Lemma sl_cond_emit n c : sl_cond (emit_u n c) = sl_cond c.
Proof. unfold sl_cond. rewrite emit_u_low. reflexivity. Qed.

(** generalised: a state that is [j] bytes into the loop of the call started in [c0] *)
Lemma run_r_from grants : forall c0 j c,
  (1 <= ecs c0)%nat -> sl_cond c0 = true -> (j < ecs c0)%nat -> c = emit_u j c0 ->
  forall c', run_r grants c = Some c' -> c' = shift_low c0.
Proof.
  induction grants as [|s rest IH]; intros c0 j c Hcs Hcond Hj Hc c' Hrun; [discriminate Hrun|].
  cbn [run_r] in Hrun. unfold shift_low_r in Hrun.
  assert (Hcc : sl_cond c = true) by (rewrite Hc, sl_cond_emit; exact Hcond).
  rewrite Hcc in Hrun.
  assert (Ecs : ecs c = (ecs c0 - j)%nat) by (rewrite Hc; apply emit_u_ecs; lia).
  rewrite emit_r_spec in Hrun. rewrite Ecs in Hrun.
  destruct (s <? ecs c0 - j)%nat eqn:Es.
  - (* stopped again: j + s bytes done *)
    apply Nat.ltb_lt in Es.
    apply (IH c0 (j + s)%nat (emit_u (Nat.min (ecs c0 - j) s) c) Hcs Hcond ltac:(lia)); [|exact Hrun].
    rewrite Hc, <- emit_u_add. f_equal. lia.
  - apply Nat.ltb_ge in Es. injection Hrun as Hrun. subst c'.
    rewrite (shift_low_as_loop c0 Hcs), Hcond. cbv zeta.
    replace (Nat.min (ecs c0 - j) s) with (ecs c0 - j)%nat by lia.
    rewrite Hc, <- emit_u_add. replace (j + (ecs c0 - j))%nat with (ecs c0) by lia.
    destruct (emit_u_shape (ecs c0) c0 Hcs) as [_ [_ [_ E4]]].
    rewrite !emit_u_low, E4. reflexivity.
Qed.

Theorem shift_low_resumable grants c c' :
  (1 <= ecs c)%nat -> run_r grants c = Some c' -> c' = shift_low c.
Proof.
  intros Hcs Hrun. destruct (sl_cond c) eqn:Hcond.
  - apply (run_r_from grants c 0%nat c Hcs Hcond ltac:(lia) eq_refl c' Hrun).
  - destruct grants as [|s rest]; [discriminate Hrun|].
    cbn [run_r] in Hrun. unfold shift_low_r in Hrun. rewrite Hcond in Hrun. injection Hrun as <-.
    rewrite (shift_low_as_loop c Hcs), Hcond. reflexivity.
Qed.
