(** C11 — the lzma_code calling protocol is enforced and accounted exactly. *)
From XZ Require Import Base CodeWrap CodeWrapProofs C11Lemmas.
From XZ.Gen Require Import CodeWrapTab.
Local Open Scope N_scope.

(** TIE (translator, exhaustive): every row obtained by running the real
    lzma_code() of the current source against a scripted inner coder — all
    sequences x actions 0..6 x avail_in changed? x 14 inner return codes x
    progress x flag x supported x null/reserved/uninitialised combinations —
    is reproduced by the model's step function. *)
Theorem model_reproduces_whole_transition_table : forallb row_ok code_table = true.
Proof. exact code_table_ok. Qed.
Print Assumptions model_reproduces_whole_transition_table.

Theorem table_is_complete_and_pointers_move_with_counts :
  (20000 <? lenN code_table) = true /\ code_table_ptr_mismatches = 0.
Proof. exact code_table_rows. Qed.
Print Assumptions table_is_complete_and_pointers_move_with_counts.

Theorem supported_actions_as_documented : supported_table = supported_expected.
Proof. exact supported_ok. Qed.
Print Assumptions supported_actions_as_documented.

(** programming errors are refused without acting *)
Theorem action_out_of_range_refused : forall inner s c,
  ACTION_MAX < action c -> code_step inner s c = nochange s R_PROG_ERROR.
Proof. exact prog_error_action_out_of_range. Qed.
Print Assumptions action_out_of_range_refused.

Theorem unsupported_action_refused : forall inner s c,
  supp s (action c) = false -> code_step inner s c = nochange s R_PROG_ERROR.
Proof. exact prog_error_unsupported_action. Qed.
Print Assumptions unsupported_action_refused.

Theorem null_input_with_length_refused : forall inner s c,
  in_null c = true -> avail_in c <> 0 -> code_step inner s c = nochange s R_PROG_ERROR.
Proof. exact prog_error_null_in. Qed.
Print Assumptions null_input_with_length_refused.

Theorem null_output_with_length_refused : forall inner s c,
  out_null c = true -> avail_out c <> 0 -> code_step inner s c = nochange s R_PROG_ERROR.
Proof. exact prog_error_null_out. Qed.
Print Assumptions null_output_with_length_refused.

Theorem uninitialised_refused : forall inner s c,
  initialised c = false -> code_step inner s c = nochange s R_PROG_ERROR.
Proof. exact prog_error_uninitialised. Qed.
Print Assumptions uninitialised_refused.

Theorem change_after_flush_started_refused : forall inner s c,
  rejected s c = false -> reserved_bad c = false -> flushing (sq s) = true ->
  (action c <> sq s \/ saved_avail_in s <> avail_in c) ->
  code_step inner s c = nochange s R_PROG_ERROR.
Proof. exact prog_error_change_after_flush_started. Qed.
Print Assumptions change_after_flush_started_refused.

Theorem fatal_error_is_sticky : forall inner k s cs, sq s = ISEQ_ERROR ->
  Forall (fun o => called o = false /\ (ret o = R_PROG_ERROR \/ ret o = R_OPTIONS_ERROR)) (run inner k s cs).
Proof. exact error_is_sticky. Qed.
Print Assumptions fatal_error_is_sticky.

Theorem fatal_return_enters_error_state : forall inner s c,
  called (code_step inner s c) = true -> nonfatal (iret (inner c)) = false ->
  sq (st (code_step inner s c)) = ISEQ_ERROR /\ ret (code_step inner s c) = iret (inner c).
Proof. exact fatal_makes_error_state. Qed.
Print Assumptions fatal_return_enters_error_state.

Theorem stream_end_is_sticky : forall inner k s cs, sq s = ISEQ_END ->
  Forall (fun o => called o = false /\ st o = s) (run inner k s cs).
Proof. exact end_is_sticky. Qed.
Print Assumptions stream_end_is_sticky.

Theorem after_end_reports_end : forall inner s c,
  sq s = ISEQ_END -> rejected s c = false -> reserved_bad c = false ->
  code_step inner s c = nochange s R_STREAM_END.
Proof. exact sticky_end. Qed.
Print Assumptions after_end_reports_end.

Theorem finished_flush_returns_to_run : forall inner s c,
  called (code_step inner s c) = true -> iret (inner c) = R_STREAM_END ->
  (action c = A_SYNC_FLUSH \/ action c = A_FULL_FLUSH \/ action c = A_FULL_BARRIER) ->
  ret (code_step inner s c) = R_STREAM_END /\ sq (st (code_step inner s c)) = ISEQ_RUN.
Proof. exact flush_end_returns_to_run. Qed.
Print Assumptions finished_flush_returns_to_run.

(** the no-progress error: only on the second consecutive stalled invocation, never fatal *)
Theorem buf_error_second_stall_only : forall inner sup cs c,
  let os := run inner 0 (strm_init sup) cs in
  let s := final_state (strm_init sup) os in
  let o := code_step (inner (length cs)) s c in
  ret o = R_BUF_ERROR -> iret (inner (length cs) c) <> R_BUF_ERROR ->
  (exists p, last_called os = Some p /\ din p = 0 /\ dout p = 0 /\ (ret p = R_OK \/ ret p = R_BUF_ERROR))
  /\ din o = 0 /\ dout o = 0 /\ sq (st o) <> ISEQ_ERROR.
Proof. exact buf_error_only_second_noprogress. Qed.
Print Assumptions buf_error_second_stall_only.

Theorem progress_resumes_after_buf_error : forall inner s c,
  called (code_step inner s c) = true ->
  (iin (inner c) <> 0 \/ iout (inner c) <> 0) -> iret (inner c) = R_OK ->
  allow_buf_error (st (code_step inner s c)) = false /\ ret (code_step inner s c) = R_OK.
Proof. exact progress_clears_flag. Qed.
Print Assumptions progress_resumes_after_buf_error.

Theorem timed_out_never_surfaces : forall inner s c,
  called (code_step inner s c) = true -> iret (inner c) = R_TIMED_OUT ->
  ret (code_step inner s c) = R_OK /\ allow_buf_error (st (code_step inner s c)) = false.
Proof. exact timed_out_is_ok. Qed.
Print Assumptions timed_out_never_surfaces.

(** exact accounting *)
Theorem every_call_accounts_exactly : forall inner s c,
  called (code_step inner s c) = true ->
  let o := code_step inner s c in let r := inner c in
  din o = iin r /\ dout o = iout r /\
  total_in (st o) = total_in s + iin r /\ total_out (st o) = total_out s + iout r /\
  saved_avail_in (st o) = avail_in c - iin r /\ supported (st o) = supported s.
Proof. exact accounting_exact. Qed.
Print Assumptions every_call_accounts_exactly.

Theorem refused_call_changes_nothing : forall inner s c,
  called (code_step inner s c) = false ->
  st (code_step inner s c) = s /\ din (code_step inner s c) = 0 /\ dout (code_step inner s c) = 0.
Proof. exact not_called_unchanged. Qed.
Print Assumptions refused_call_changes_nothing.

Theorem totals_are_exact_sums : forall inner k s cs,
  let os := run inner k s cs in
  total_in (final_state s os) = total_in s + fold_right (fun o a => din o + a) 0 os /\
  total_out (final_state s os) = total_out s + fold_right (fun o a => dout o + a) 0 os.
Proof. exact totals_are_sums. Qed.
Print Assumptions totals_are_exact_sums.

(** non-vacuity: a history that reaches BUF_ERROR and then continues *)
Example buf_error_history :
  let inner := fun k (_ : call) => {| iret := R_OK; iin := (if (k =? 2)%nat then 1 else 0); iout := 0 |} in
  let c := {| action := A_RUN; avail_in := 1; avail_out := 0; in_null := false; out_null := true;
              reserved_bad := false; initialised := true |} in
  map ret (run inner 0 (strm_init [true; false; false; true; false]) [c; c; c; c]) = [R_OK; R_BUF_ERROR; R_OK; R_OK].
Proof. vm_compute. reflexivity. Qed.
