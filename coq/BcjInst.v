(** BCJ models instantiated with the tables taken from the source. *)
From XZ Require Import Base Bcj.
From XZ.Gen Require Import BcjTables.
Local Open Scope N_scope.

Definition x86_code_g := x86_code x86_mask_to_bit_number.
Definition ia64_code_g := ia64_code ia64_branch_table.

(** uniform interface: arch index as in the driver; returns (out, processed, pm, pp) *)
Definition bcj_code (arch : N) (enc : bool) (now_pos pm pp : N) (l : list N) : list N * N * N * N :=
  match arch with
  | 0 => let r := x86_code_g enc pm pp now_pos l in (xo r, xn r, xpm r, xpp r)
  | 1 => let '(o, n) := arm_code enc now_pos l in (o, n, pm, pp)
  | 2 => let '(o, n) := armthumb_code enc now_pos l in (o, n, pm, pp)
  | 3 => let '(o, n) := arm64_code enc now_pos l in (o, n, pm, pp)
  | 4 => let '(o, n) := powerpc_code enc now_pos l in (o, n, pm, pp)
  | 5 => let '(o, n) := ia64_code_g enc now_pos l in (o, n, pm, pp)
  | 6 => let '(o, n) := sparc_code enc now_pos l in (o, n, pm, pp)
  | _ => let '(o, n) := riscv_code enc now_pos l in (o, n, pm, pp)
  end.

(** whole-data filter as the streaming coder delivers it: one call on the
    whole data with fresh state (x86: prev_mask = 0, prev_pos = -5) *)
Definition bcj_whole (arch : N) (enc : bool) (start : N) (l : list N) : list N :=
  fst (fst (fst (bcj_code arch enc start 0 (sub32' 0 5) l))).
