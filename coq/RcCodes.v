(** Compositional form of "the decoder follows the encoder": a decoder piece
    [D : rc -> probs -> A * rc * probs] CODES value [a] with decisions [ds]
    when, started in sync with the abstract encoder, it returns [a], ends in
    sync after [ds], and leaves the probability table the encoder computed.
    Pieces compose with [codes_bind]; the bit-tree, reverse bit-tree and
    direct-bit coders of range_decoder.h / range_encoder.h are instances. *)
From XZ Require Import Base Lzma RcAbs RcDec RcRoundtrip.
Require Import ZifyBool ZifyN ZifyNat.
Local Open Scope N_scope.

Section Codes.
Variable f : astate.
Variable rest : list N.
Hypothesis Rf : 0 < aR f.

Definition codes {A} (D : rc -> probs -> A * rc * probs) (ps : probs) (a : A)
           (ds : list decision) (ps' : probs) : Prop :=
  all_ok ps ->
  all_ok ps' /\ Forall dec_ok ds /\
  forall s r, rgood s -> inside (arun s ds) f -> sync f rest s r ->
    exists r', D r ps = (a, r', ps') /\ sync f rest (arun s ds) r'.

Lemma codes_ret {A} (a : A) ps : codes (fun r ps => (a, r, ps)) ps a [] ps.
Proof.
  intro Hok. split; [exact Hok|]. split; [constructor|].
  intros s r _ _ Hs. exists r. split; [reflexivity|exact Hs].
Qed.

Lemma all_ok_pset ps i v : all_ok ps -> prob_ok v -> all_ok (pset ps i v).
Proof.
  intros H Hv j. destruct (N.eq_dec i j) as [->|Hne].
  - rewrite pget_pset_same. exact Hv.
  - rewrite pget_pset_other by exact Hne. apply H.
Qed.

Lemma codes_bit ps i b :
  codes (fun r ps => rc_bit r ps i) ps b [DBit (pget ps i) b] (pset ps i (prob_update (pget ps i) b)).
Proof.
  intro Hok. split; [apply all_ok_pset; [exact Hok|apply prob_update_ok; apply Hok]|].
  split; [constructor; [apply Hok|constructor]|].
  intros s r Hg Hin Hs. cbn [arun fold_left] in *.
  destruct (sync_bit f rest Rf s r (pget ps i) b Hg (Hok i) Hin Hs) as [r' [E S']].
  exists r'. split; [|exact S']. unfold rc_bit. rewrite E. reflexivity.
Qed.

Lemma codes_direct ps b :
  codes (fun r ps => let '(x, r) := rc_direct1 r in (x, r, ps)) ps b [DDirect b] ps.
Proof.
  intro Hok. split; [exact Hok|]. split; [constructor; [exact I|constructor]|].
  intros s r Hg Hin Hs. cbn [arun fold_left] in *.
  destruct (sync_direct f rest Rf s r b Hg Hin Hs) as [r' [E S']].
  exists r'. rewrite E. split; [reflexivity|exact S'].
Qed.

Lemma arun_app s ds1 ds2 : arun s (ds1 ++ ds2) = arun (arun s ds1) ds2.
Proof. unfold arun. apply fold_left_app. Qed.

Lemma codes_bind {A B} (D1 : rc -> probs -> A * rc * probs) (D2 : A -> rc -> probs -> B * rc * probs)
      ps a ds1 ps1 b ds2 ps2 :
  codes D1 ps a ds1 ps1 -> codes (D2 a) ps1 b ds2 ps2 ->
  codes (fun r ps => let '(x, r, ps) := D1 r ps in D2 x r ps) ps b (ds1 ++ ds2) ps2.
Proof.
  intros H1 H2 Hok.
  destruct (H1 Hok) as [Hok1 [Hd1 K1]]. destruct (H2 Hok1) as [Hok2 [Hd2 K2]].
  split; [exact Hok2|]. split; [apply Forall_app; split; assumption|].
  intros s r Hg Hin Hs. rewrite arun_app in *.
  destruct (arun_good ds1 s Hg Hd1) as [Hg1 _].
  destruct (arun_good ds2 (arun s ds1) Hg1 Hd2) as [_ Hin2].
  destruct (K1 s r Hg (inside_trans _ _ _ Hin2 Hin) Hs) as [r1 [E1 S1]].
  destruct (K2 (arun s ds1) r1 Hg1 Hin S1) as [r2 [E2 S2]].
  exists r2. rewrite E1. split; [exact E2|exact S2].
Qed.

Lemma codes_ext {A} (D D' : rc -> probs -> A * rc * probs) ps a ds ps' :
  (forall r, D' r ps = D r ps) -> codes D ps a ds ps' -> codes D' ps a ds ps'.
Proof.
  intros E H Hok. destruct (H Hok) as [H1 [H2 K]]. split; [exact H1|]. split; [exact H2|].
  intros s r Hg Hin Hs. destruct (K s r Hg Hin Hs) as [r' [E' S']]. exists r'. rewrite E. split; assumption.
Qed.

(** map the result *)
Lemma codes_map {A B} (g : A -> B) (D : rc -> probs -> A * rc * probs) ps a ds ps' :
  codes D ps a ds ps' ->
  codes (fun r ps => let '(x, r, ps) := D r ps in (g x, r, ps)) ps (g a) ds ps'.
Proof.
  intro H. pose proof (codes_bind D (fun x r ps => (g x, r, ps)) ps a ds ps' (g a) [] ps' H (codes_ret (g a) ps')) as K.
  rewrite app_nil_r in K. exact K.
Qed.

(** ---------- bit tree (MSB first) ---------- *)
Definition bit_of (v : N) (k : nat) : bool := N.testbit v (N.of_nat k).
Definition b2n (b : bool) : N := if b then 1 else 0.

Fixpoint enc_bittree (n : nat) (ps : probs) (base sym v : N) : list decision * probs :=
  match n with
  | O => ([], ps)
  | S k => let b := bit_of v k in
           let p := pget ps (base + sym) in
           let '(ds, ps') := enc_bittree k (pset ps (base + sym) (prob_update p b)) base (2 * sym + b2n b) v in
           (DBit p b :: ds, ps')
  end.

(** the low [n] bits of [v], MSB first, appended to [sym] *)
Fixpoint tree_val (n : nat) (sym v : N) : N :=
  match n with O => sym | S k => tree_val k (2 * sym + b2n (bit_of v k)) v end.

Lemma codes_bittree n : forall ps base sym v,
  codes (fun r ps => bittree n r ps base sym) ps (tree_val n sym v)
        (fst (enc_bittree n ps base sym v)) (snd (enc_bittree n ps base sym v)).
Proof.
  induction n as [|k IH]; intros ps base sym v; cbn [bittree enc_bittree tree_val].
  - apply codes_ret.
  - set (b := bit_of v k). set (p := pget ps (base + sym)).
    specialize (IH (pset ps (base + sym) (prob_update p b)) base (2 * sym + b2n b) v).
    destruct (enc_bittree k (pset ps (base + sym) (prob_update p b)) base (2 * sym + b2n b) v) as [ds ps'] eqn:E.
    cbn [fst snd] in *.
    change (DBit p b :: ds) with ([DBit p b] ++ ds).
    apply (codes_bind (fun r ps => rc_bit r ps (base + sym))
                      (fun x r ps => bittree k r ps base (2 * sym + (if x then 1 else 0)))
                      ps b [DBit p b] (pset ps (base + sym) (prob_update p b)) (tree_val k (2 * sym + b2n b) v) ds ps').
    + apply codes_bit.
    + exact IH.
Qed.

Lemma tree_val_spec n : forall sym v, tree_val n sym v = sym * 2 ^ N.of_nat n + v mod 2 ^ N.of_nat n.
Proof.
  clear Rf. induction n as [|k IH]; intros sym v; cbn [tree_val].
  - change (N.of_nat 0) with 0. rewrite N.pow_0_r, N.mod_1_r. lia.
  - rewrite IH, Nat2N.inj_succ, N.pow_succ_r'.
    assert (E : v mod (2 * 2 ^ N.of_nat k) = b2n (bit_of v k) * 2 ^ N.of_nat k + v mod 2 ^ N.of_nat k).
    { unfold bit_of, b2n. fold (N.b2n (N.testbit v (N.of_nat k))). rewrite N.testbit_spec' by lia.
      rewrite (N.mul_comm 2), N.mod_mul_r by (try apply N.pow_nonzero; lia).
      set (P := 2 ^ N.of_nat k). set (x := (v / P) mod 2). set (y := v mod P). clearbody P x y. lia. }
    rewrite E. set (P := 2 ^ N.of_nat k). set (y := v mod P). set (bb := b2n (bit_of v k)). clearbody P y bb. lia.
Qed.

(** ---------- reverse bit tree (LSB first) ---------- *)
Fixpoint enc_bittree_rev (n : nat) (ps : probs) (base sym v : N) : list decision * probs :=
  match n with
  | O => ([], ps)
  | S k => let b := N.odd v in
           let p := pget ps (base + sym) in
           let '(ds, ps') := enc_bittree_rev k (pset ps (base + sym) (prob_update p b)) base (2 * sym + b2n b) (v / 2) in
           (DBit p b :: ds, ps')
  end.

Lemma codes_bittree_rev n : forall ps base sym v w acc,
  codes (fun r ps => bittree_rev n r ps base sym w acc) ps (acc + w * (v mod 2 ^ N.of_nat n))
        (fst (enc_bittree_rev n ps base sym v)) (snd (enc_bittree_rev n ps base sym v)).
Proof.
  induction n as [|k IH]; intros ps base sym v w acc; cbn [bittree_rev enc_bittree_rev].
  - change (N.of_nat 0) with 0. rewrite N.pow_0_r, N.mod_1_r, N.mul_0_r, N.add_0_r. apply codes_ret.
  - set (b := N.odd v). set (p := pget ps (base + sym)).
    specialize (IH (pset ps (base + sym) (prob_update p b)) base (2 * sym + b2n b) (v / 2) (2 * w)
                   (if b then acc + w else acc)).
    destruct (enc_bittree_rev k (pset ps (base + sym) (prob_update p b)) base (2 * sym + b2n b) (v / 2)) as [ds ps'] eqn:E.
    cbn [fst snd] in *.
    assert (EV : acc + w * (v mod 2 ^ N.of_nat (S k)) = (if b then acc + w else acc) + 2 * w * ((v / 2) mod 2 ^ N.of_nat k)).
    { rewrite Nat2N.inj_succ, N.pow_succ_r', N.mod_mul_r by (try apply N.pow_nonzero; lia).
      assert (M2 : v mod 2 = N.b2n b) by (unfold b; rewrite <- N.bit0_odd; symmetry; apply N.bit0_mod).
      rewrite M2. set (P := 2 ^ N.of_nat k). set (y := (v / 2) mod P). clearbody P y.
      destruct b; cbn [N.b2n]; lia. }
    rewrite EV.
    change (DBit p b :: ds) with ([DBit p b] ++ ds).
    apply (codes_bind (fun r ps => rc_bit r ps (base + sym))
                      (fun x r ps => bittree_rev k r ps base (2 * sym + (if x then 1 else 0)) (2 * w) (if x then acc + w else acc))
                      ps b [DBit p b] (pset ps (base + sym) (prob_update p b))
                      ((if b then acc + w else acc) + 2 * w * ((v / 2) mod 2 ^ N.of_nat k)) ds ps').
    + apply codes_bit.
    + exact IH.
Qed.

(** ---------- direct bits (MSB first) ---------- *)
Fixpoint enc_direct (n : nat) (v : N) : list decision :=
  match n with O => [] | S k => DDirect (bit_of v k) :: enc_direct k v end.

Lemma codes_direct_bits n : forall ps acc v,
  codes (fun r ps => let '(x, r) := direct_bits n r acc in (x, r, ps)) ps (tree_val n acc v) (enc_direct n v) ps.
Proof.
  induction n as [|k IH]; intros ps acc v; cbn [direct_bits enc_direct tree_val].
  - apply codes_ret.
  - set (b := bit_of v k).
    change (DDirect b :: enc_direct k v) with ([DDirect b] ++ enc_direct k v).
    eapply codes_ext; [|apply (codes_bind (fun r ps => let '(x, r) := rc_direct1 r in (x, r, ps))
                      (fun x r ps => let '(y, r) := direct_bits k r (2 * acc + (if x then 1 else 0)) in (y, r, ps))
                      ps b [DDirect b] ps (tree_val k (2 * acc + b2n b) v) (enc_direct k v) ps (codes_direct ps b) (IH ps (2 * acc + b2n b) v))].
    intro r. cbv beta. destruct (rc_direct1 r) as [x r1]. reflexivity.
Qed.

End Codes.
