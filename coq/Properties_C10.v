(** C10 — allocation failure at any point is reported cleanly, nothing leaks.
    PARTIAL: proved on an abstract heap with an arbitrary failure oracle for
    every init program (list of allocations): a failed initialisation leaves
    the heap exactly as before, a successful one followed by end returns every
    block.  That each concrete coder's init/end functions follow this
    discipline is decided by exhaustive k-th-allocation failure injection
    with a counting allocator (see evidence). *)
From XZ Require Import Base Resource.

Theorem failed_init_leaves_nothing_allocated_and_end_frees_everything :
  forall fails h prog, wf h ->
  let '(ok, fields, h') := strm_init_coder fails h prog in
  (ok = false -> live h' = live h /\ fields = []) /\
  (ok = true -> live (free_all h' fields) = live h).
Proof. exact failed_init_leaves_heap_unchanged. Qed.
Print Assumptions failed_init_leaves_nothing_allocated_and_end_frees_everything.

Example init_failure_example :
  let fails := fun k => Nat.eqb k 2 in
  let '(ok, fields, h') := strm_init_coder fails heap0 [100; 200; 300; 400]%N in
  ok = false /\ live h' = [] /\ counter h' = 3%nat.
Proof. vm_compute. repeat split; reflexivity. Qed.
