(** C15 — BCJ and delta filters are exact inverses, size-preserving, stable.
    Proved here: delta (all distances); ARM, PowerPC, SPARC, ARM64 (all data,
    all 4-aligned offsets) and ARM-Thumb (all data, all 2-aligned offsets)
    round trips; IA-64 (all data, all 16-aligned offsets, ANY branch table -
    in particular the one regenerated from ia64.c); length preservation.
    x86 (`x86_decode_encode`: one call from the fresh filter state, data
    shorter than 4 GiB, any start offset; the prev_mask / inner-loop design
    argument made formal in BcjProofs5.v).  NOT proved (explored and tied
    by correspondence only; see evidence assumptions): the RISC-V round
    trip; x86 across several calls with carried state; the simple_coder
    buffering protocol. *)
From XZ Require Import Base Bcj BcjInst BcjProofs BcjProofs2 BcjProofs3 BcjProofs4 BcjProofs5.
Local Open Scope N_scope.

Theorem delta_decode_encode : forall dist l, bytes_ok l -> delta_decode dist (delta_encode dist l) = l.
Proof. exact delta_roundtrip. Qed.
Print Assumptions delta_decode_encode.

Theorem delta_preserves_length : forall dist l,
  length (delta_encode dist l) = length l /\ length (delta_decode dist l) = length l.
Proof. exact delta_length. Qed.
Print Assumptions delta_preserves_length.

Theorem arm_decode_encode : forall start l, aligned4 (w32 start) -> bytes_ok l ->
  fst (arm_code false start (fst (arm_code true start l))) = l.
Proof. exact arm_roundtrip. Qed.
Print Assumptions arm_decode_encode.

Theorem arm_preserves_length : forall enc start l, length (fst (arm_code enc start l)) = length l.
Proof. exact arm_length. Qed.
Print Assumptions arm_preserves_length.

Theorem stride4_filters_preserve_length : forall enc start l,
  length (fst (powerpc_code enc start l)) = length l /\
  length (fst (sparc_code enc start l)) = length l /\
  length (fst (arm64_code enc start l)) = length l.
Proof. exact stride_filters_length. Qed.
Print Assumptions stride4_filters_preserve_length.

Theorem arm_alignment_is_needed :
  exists start l, w32 start mod 4 <> 0 /\ bytes_ok l /\
    fst (arm_code false start (fst (arm_code true start l))) <> l.
Proof. exact arm_unaligned_breaks. Qed.
Print Assumptions arm_alignment_is_needed.

(** non-vacuity: a BL instruction really is converted and restored *)
Example arm_converts : fst (arm_code true 4096 [1;0;0;235]) = [3;4;0;235]
  /\ fst (arm_code false 4096 [3;4;0;235]) = [1;0;0;235].
Proof. vm_compute. split; reflexivity. Qed.

Theorem powerpc_decode_encode : forall start l, aligned4 (w32 start) -> bytes_ok l ->
  fst (powerpc_code false start (fst (powerpc_code true start l))) = l.
Proof. exact powerpc_roundtrip. Qed.
Print Assumptions powerpc_decode_encode.

Theorem sparc_decode_encode : forall start l, aligned4 (w32 start) -> bytes_ok l ->
  fst (sparc_code false start (fst (sparc_code true start l))) = l.
Proof. exact sparc_roundtrip. Qed.
Print Assumptions sparc_decode_encode.

Theorem arm64_decode_encode : forall start l, aligned4 (w32 start) -> bytes_ok l ->
  fst (arm64_code false start (fst (arm64_code true start l))) = l.
Proof. exact arm64_roundtrip. Qed.
Print Assumptions arm64_decode_encode.

(** ARM-Thumb: the 2-byte stride with a 4-byte step after a converted BL pair *)
Theorem armthumb_decode_encode : forall start l, aligned2 (w32 start) -> bytes_ok l ->
  fst (armthumb_code false start (fst (armthumb_code true start l))) = l.
Proof. exact armthumb_roundtrip. Qed.
Print Assumptions armthumb_decode_encode.

Theorem armthumb_preserves_length : forall enc start l, length (fst (armthumb_code enc start l)) = length l.
Proof. exact armthumb_length. Qed.
Print Assumptions armthumb_preserves_length.

(** the hypotheses are satisfiable and the filters do change data *)
Example armthumb_changes_something :
  aligned2 (w32 6) /\ fst (armthumb_code true 6 [0; 240; 1; 248; 9; 9]) <> [0; 240; 1; 248; 9; 9].
Proof. split; [unfold aligned2, w32; lia|vm_compute; discriminate]. Qed.
Example arm64_changes_something :
  aligned4 (w32 4096) /\ fst (arm64_code true 4096 [1; 0; 0; 148; 7; 7]) <> [1; 0; 0; 148; 7; 7].
Proof. split; [unfold aligned4, w32; lia|vm_compute; discriminate]. Qed.

(** IA-64: 16-byte bundles, up to three 41-bit slots selected by the template through the branch table *)
Theorem ia64_decode_encode : forall start l, aligned16 (w32 start) -> bytes_ok l ->
  fst (ia64_code_g false start (fst (ia64_code_g true start l))) = l.
Proof. intros start l. unfold ia64_code_g. apply ia64_roundtrip. Qed.
Print Assumptions ia64_decode_encode.

Theorem ia64_preserves_length : forall enc start l, bytes_ok l -> length (fst (ia64_code_g enc start l)) = length l.
Proof. intros enc start l. unfold ia64_code_g. apply ia64_length. Qed.
Print Assumptions ia64_preserves_length.

Example ia64_changes_something :
  aligned16 (w32 32) /\ fst (ia64_code_g true 32 [16; 0; 0; 0; 0; 0; 0; 0; 0; 0; 0; 0; 0; 0; 0; 80])
                        <> [16; 0; 0; 0; 0; 0; 0; 0; 0; 0; 0; 0; 0; 0; 0; 80].
Proof. split; [unfold aligned16, w32; lia|vm_compute; discriminate]. Qed.

(** x86: E8/E9 candidates, the mask of recent unconverted candidates, the correction loop that keeps the byte an earlier
    candidate looked at away from 00/FF - decoding undoes encoding *)
Theorem x86_decode_encode : forall start pp l, bytes_ok l -> pp < 4294967296 -> 5 + lenN l < 4294967296 ->
  xo (x86_code_g false 0 pp start (xo (x86_code_g true 0 pp start l))) = l.
Proof. exact x86_roundtrip. Qed.
Print Assumptions x86_decode_encode.

Theorem x86_preserves_length : forall enc start pp l, bytes_ok l -> pp < 4294967296 -> 5 + lenN l < 4294967296 ->
  length (xo (x86_code_g enc 0 pp start l)) = length l.
Proof. exact x86_length. Qed.
Print Assumptions x86_preserves_length.

Example x86_changes_something :
  xo (x86_code_g true 0 4294967291 0 [232; 1; 2; 3; 0; 144; 144; 144; 144; 144]) <> [232; 1; 2; 3; 0; 144; 144; 144; 144; 144].
Proof. vm_compute. discriminate. Qed.

(** x86, continued: the same from ANY filter state whose mask - brought forward to the current position - agrees with the
    bytes ahead (what a later call of the streaming coder starts from); [eff], [WF] and [Cons] are defined in BcjProofs5.v *)
Theorem x86_decode_encode_from_consistent_state : forall pm pp pos l,
  bytes_ok l -> pm < 256 -> pos < 4294967296 -> pp < 4294967296 -> sub32' pos pp + lenN l < 4294967296 ->
  WF (eff pm (sub32' pos pp)) = true -> Cons (eff pm (sub32' pos pp)) l ->
  xo (x86_go tb false pm pp pos (xo (x86_go tb true pm pp pos l))) = l.
Proof. exact x86_go_roundtrip_consistent. Qed.
Print Assumptions x86_decode_encode_from_consistent_state.

Example consistent_state_exists : WF (eff 1 1) = true /\ Cons (eff 1 1) [144; 144; 144; 7; 144; 144] /\ eff 1 1 <> 0.
Proof. vm_compute. repeat split; discriminate. Qed.
