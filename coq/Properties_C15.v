(** C15 — BCJ and delta filters are exact inverses, size-preserving, stable.
    Proved here: delta (all distances), ARM (all data, all aligned offsets),
    length preservation of the stride-4 filters.  NOT proved (explored and
    tied by correspondence only; see evidence assumptions): round trips of
    x86, ARM-Thumb, ARM64, PowerPC, SPARC, IA-64, RISC-V; the simple_coder
    buffering protocol. *)
From XZ Require Import Base Bcj BcjInst BcjProofs BcjProofs2.
Local Open Scope N_scope.

Theorem delta_decode_encode : forall dist l, bytes_ok l -> delta_decode dist (delta_encode dist l) = l.
Proof. exact delta_roundtrip. Qed.
Print Assumptions delta_decode_encode.

Theorem delta_preserves_length : forall dist l,
  length (delta_encode dist l) = length l /\ length (delta_decode dist l) = length l.
Proof. exact delta_length. Qed.
Print Assumptions delta_preserves_length.

Theorem arm_decode_encode : forall start l, aligned4 (w32 start) -> bytes_ok l ->
  fst (arm_code false start (fst (arm_code true start l))) = l.
Proof. exact arm_roundtrip. Qed.
Print Assumptions arm_decode_encode.

Theorem arm_preserves_length : forall enc start l, length (fst (arm_code enc start l)) = length l.
Proof. exact arm_length. Qed.
Print Assumptions arm_preserves_length.

Theorem stride4_filters_preserve_length : forall enc start l,
  length (fst (powerpc_code enc start l)) = length l /\
  length (fst (sparc_code enc start l)) = length l /\
  length (fst (arm64_code enc start l)) = length l.
Proof. exact stride_filters_length. Qed.
Print Assumptions stride4_filters_preserve_length.

Theorem arm_alignment_is_needed :
  exists start l, w32 start mod 4 <> 0 /\ bytes_ok l /\
    fst (arm_code false start (fst (arm_code true start l))) <> l.
Proof. exact arm_unaligned_breaks. Qed.
Print Assumptions arm_alignment_is_needed.

(** non-vacuity: a BL instruction really is converted and restored *)
Example arm_converts : fst (arm_code true 4096 [1;0;0;235]) = [3;4;0;235]
  /\ fst (arm_code false 4096 [3;4;0;235]) = [1;0;0;235].
Proof. vm_compute. split; reflexivity. Qed.

Theorem powerpc_decode_encode : forall start l, aligned4 (w32 start) -> bytes_ok l ->
  fst (powerpc_code false start (fst (powerpc_code true start l))) = l.
Proof. exact powerpc_roundtrip. Qed.
Print Assumptions powerpc_decode_encode.

Theorem sparc_decode_encode : forall start l, aligned4 (w32 start) -> bytes_ok l ->
  fst (sparc_code false start (fst (sparc_code true start l))) = l.
Proof. exact sparc_roundtrip. Qed.
Print Assumptions sparc_decode_encode.
