(** C15 — BCJ and delta filters are exact inverses, size-preserving, stable.
    Proved here: delta (all distances); ARM, PowerPC, SPARC, ARM64 (all data,
    all 4-aligned offsets) and ARM-Thumb (all data, all 2-aligned offsets)
    round trips; IA-64 (all data, all 16-aligned offsets, ANY branch table -
    in particular the one regenerated from ia64.c); length preservation.
    NOT proved (explored and tied by correspondence only; see evidence
    assumptions): round trips of x86 and RISC-V; the simple_coder
    buffering protocol. *)
From XZ Require Import Base Bcj BcjInst BcjProofs BcjProofs2 BcjProofs3 BcjProofs4.
Local Open Scope N_scope.

Theorem delta_decode_encode : forall dist l, bytes_ok l -> delta_decode dist (delta_encode dist l) = l.
Proof. exact delta_roundtrip. Qed.
Print Assumptions delta_decode_encode.

Theorem delta_preserves_length : forall dist l,
  length (delta_encode dist l) = length l /\ length (delta_decode dist l) = length l.
Proof. exact delta_length. Qed.
Print Assumptions delta_preserves_length.

Theorem arm_decode_encode : forall start l, aligned4 (w32 start) -> bytes_ok l ->
  fst (arm_code false start (fst (arm_code true start l))) = l.
Proof. exact arm_roundtrip. Qed.
Print Assumptions arm_decode_encode.

Theorem arm_preserves_length : forall enc start l, length (fst (arm_code enc start l)) = length l.
Proof. exact arm_length. Qed.
Print Assumptions arm_preserves_length.

Theorem stride4_filters_preserve_length : forall enc start l,
  length (fst (powerpc_code enc start l)) = length l /\
  length (fst (sparc_code enc start l)) = length l /\
  length (fst (arm64_code enc start l)) = length l.
Proof. exact stride_filters_length. Qed.
Print Assumptions stride4_filters_preserve_length.

Theorem arm_alignment_is_needed :
  exists start l, w32 start mod 4 <> 0 /\ bytes_ok l /\
    fst (arm_code false start (fst (arm_code true start l))) <> l.
Proof. exact arm_unaligned_breaks. Qed.
Print Assumptions arm_alignment_is_needed.

(** non-vacuity: a BL instruction really is converted and restored *)
Example arm_converts : fst (arm_code true 4096 [1;0;0;235]) = [3;4;0;235]
  /\ fst (arm_code false 4096 [3;4;0;235]) = [1;0;0;235].
Proof. vm_compute. split; reflexivity. Qed.

Theorem powerpc_decode_encode : forall start l, aligned4 (w32 start) -> bytes_ok l ->
  fst (powerpc_code false start (fst (powerpc_code true start l))) = l.
Proof. exact powerpc_roundtrip. Qed.
Print Assumptions powerpc_decode_encode.

Theorem sparc_decode_encode : forall start l, aligned4 (w32 start) -> bytes_ok l ->
  fst (sparc_code false start (fst (sparc_code true start l))) = l.
Proof. exact sparc_roundtrip. Qed.
Print Assumptions sparc_decode_encode.

Theorem arm64_decode_encode : forall start l, aligned4 (w32 start) -> bytes_ok l ->
  fst (arm64_code false start (fst (arm64_code true start l))) = l.
Proof. exact arm64_roundtrip. Qed.
Print Assumptions arm64_decode_encode.

(** ARM-Thumb: the 2-byte stride with a 4-byte step after a converted BL pair *)
Theorem armthumb_decode_encode : forall start l, aligned2 (w32 start) -> bytes_ok l ->
  fst (armthumb_code false start (fst (armthumb_code true start l))) = l.
Proof. exact armthumb_roundtrip. Qed.
Print Assumptions armthumb_decode_encode.

Theorem armthumb_preserves_length : forall enc start l, length (fst (armthumb_code enc start l)) = length l.
Proof. exact armthumb_length. Qed.
Print Assumptions armthumb_preserves_length.

(** the hypotheses are satisfiable and the filters do change data *)
Example armthumb_changes_something :
  aligned2 (w32 6) /\ fst (armthumb_code true 6 [0; 240; 1; 248; 9; 9]) <> [0; 240; 1; 248; 9; 9].
Proof. split; [unfold aligned2, w32; lia|vm_compute; discriminate]. Qed.
Example arm64_changes_something :
  aligned4 (w32 4096) /\ fst (arm64_code true 4096 [1; 0; 0; 148; 7; 7]) <> [1; 0; 0; 148; 7; 7].
Proof. split; [unfold aligned4, w32; lia|vm_compute; discriminate]. Qed.

(** IA-64: 16-byte bundles, up to three 41-bit slots selected by the template through the branch table *)
Theorem ia64_decode_encode : forall start l, aligned16 (w32 start) -> bytes_ok l ->
  fst (ia64_code_g false start (fst (ia64_code_g true start l))) = l.
Proof. intros start l. unfold ia64_code_g. apply ia64_roundtrip. Qed.
Print Assumptions ia64_decode_encode.

Theorem ia64_preserves_length : forall enc start l, bytes_ok l -> length (fst (ia64_code_g enc start l)) = length l.
Proof. intros enc start l. unfold ia64_code_g. apply ia64_length. Qed.
Print Assumptions ia64_preserves_length.

Example ia64_changes_something :
  aligned16 (w32 32) /\ fst (ia64_code_g true 32 [16; 0; 0; 0; 0; 0; 0; 0; 0; 0; 0; 0; 0; 0; 0; 80])
                        <> [16; 0; 0; 0; 0; 0; 0; 0; 0; 0; 0; 0; 0; 0; 0; 80].
Proof. split; [unfold aligned16, w32; lia|vm_compute; discriminate]. Qed.
