(** Instantiation of the CRC/SHA theory with the tables and constants
    generated from /repo's source. *)
From XZ Require Import Base Crc CrcProofs CrcSlice Sha256 Sha256Proofs.
From XZ.Gen Require Import CrcTables Sha256Consts.
Local Open Scope N_scope.

Definition table_entries_ok (poly : N) (T : list (list N)) (nt : nat) : bool :=
  (length T =? nt)%nat &&
  forallb (fun s =>
    (length (nth s T []) =? 256)%nat &&
    forallb (fun b => tab T s (N.of_nat b) =? steps poly (8 * (s + 1)) (N.of_nat b)) (seq 0 256))
    (seq 0 nt).

Lemma table_entries_ok_spec poly T nt :
  table_entries_ok poly T nt = true ->
  forall s b, (s < nt)%nat -> b < 256 -> tab T s b = steps poly (8 * (s + 1)) b.
Proof.
  unfold table_entries_ok. intros H s b Hs Hb.
  apply andb_true_iff in H as [_ H]. rewrite forallb_forall in H.
  specialize (H s). rewrite in_seq in H. specialize (H ltac:(lia)).
  apply andb_true_iff in H as [_ H]. rewrite forallb_forall in H.
  specialize (H (N.to_nat b)). rewrite in_seq in H. specialize (H ltac:(lia)).
  rewrite N2Nat.id in H. apply N.eqb_eq in H. exact H.
Qed.

Lemma crc32_table_ok : table_entries_ok poly32 crc32_table 8 = true.
Proof. vm_compute. reflexivity. Qed.
Lemma crc64_table_ok : table_entries_ok poly64 crc64_table 4 = true.
Proof. vm_compute. reflexivity. Qed.

Lemma not32_lt x : x < 2 ^ 32 -> not32 x < 2 ^ 32.
Proof. intro H. unfold not32. apply lxor_lt; [exact H|]. vm_compute; reflexivity. Qed.

Lemma crc32_generic_ok mis data init :
  bytes_ok data -> init < 2 ^ 32 ->
  not32 (generic32 crc32_table mis data (not32 init)) = crc32 data init.
Proof.
  intros Hd Hi. unfold crc32. f_equal.
  apply (generic32_eq poly32 crc32_table 8).
  - lia.
  - apply (table_entries_ok_spec _ _ 8 crc32_table_ok).
  - lia.
  - exact Hd.
  - vm_compute; reflexivity.
  - apply not32_lt; exact Hi.
Qed.

Lemma crc64_generic_ok mis data init :
  bytes_ok data ->
  not64 (generic64 crc64_table mis data (not64 init)) = crc64 data init.
Proof.
  intros Hd. unfold crc64. f_equal.
  apply (generic64_eq poly64 crc64_table 4).
  - lia.
  - apply (table_entries_ok_spec _ _ 4 crc64_table_ok).
  - exact Hd.
Qed.

Lemma sha_consts_ok : sha256_K = K_spec /\ sha256_H0 = H0_spec.
Proof. split; vm_compute; reflexivity. Qed.

Lemma tablegen_poly_ok : tablegen_poly32 = poly32 /\ tablegen_poly64 = poly64.
Proof. split; reflexivity. Qed.

Lemma sha_stream_ok chunks :
  sha_finish sha256_K (fold_left (sha_update sha256_K) chunks (sha_init sha256_H0))
  = sha256 (concat chunks).
Proof.
  destruct sha_consts_ok as [-> ->]. apply sha_stream_eq_spec.
Qed.

