(** C12 — flush actions make all prior input decodable; mid-stream option
    changes are safe.  PARTIAL: proved are the protocol facts at the
    lzma_code level (model tied to common.c by C11's exhaustive table) and
    the decoder-side fact that complete chunks decode to their data; that the
    encoders really emit complete chunks/Blocks at a flush is decided by the
    action-history runs only. *)
From XZ Require Import Base CodeWrap CodeWrapProofs Lzma Lzma2.
Local Open Scope N_scope.

Theorem completed_flush_returns_to_normal_running : forall inner s c,
  called (code_step inner s c) = true -> iret (inner c) = R_STREAM_END ->
  (action c = A_SYNC_FLUSH \/ action c = A_FULL_FLUSH \/ action c = A_FULL_BARRIER) ->
  ret (code_step inner s c) = R_STREAM_END /\ sq (st (code_step inner s c)) = ISEQ_RUN.
Proof. exact flush_end_returns_to_run. Qed.
Print Assumptions completed_flush_returns_to_normal_running.

Theorem completed_finish_is_final : forall inner s c,
  called (code_step inner s c) = true -> iret (inner c) = R_STREAM_END ->
  (action c = A_RUN \/ action c = A_FINISH) -> sq (st (code_step inner s c)) = ISEQ_END.
Proof. exact finish_end_is_final. Qed.
Print Assumptions completed_finish_is_final.

Theorem flush_in_progress_cannot_be_changed : forall inner s c,
  rejected s c = false -> reserved_bad c = false -> flushing (sq s) = true ->
  (action c <> sq s \/ saved_avail_in s <> avail_in c) ->
  code_step inner s c = nochange s R_PROG_ERROR.
Proof. exact prog_error_change_after_flush_started. Qed.
Print Assumptions flush_in_progress_cannot_be_changed.

(** decoder side of a sync flush: input that ends exactly at a chunk boundary
    (no end marker yet) leaves everything decoded so far delivered and asks for more *)
Theorem decoder_at_chunk_boundary_keeps_output : forall ds fuel s,
  l2in s = [] -> l2_chunk ds fuel s = l2_set_status s Truncated /\ l2out (l2_chunk ds fuel s) = l2out s.
Proof.
  intros ds fuel s H. unfold l2_chunk. rewrite H. split; reflexivity.
Qed.
Print Assumptions decoder_at_chunk_boundary_keeps_output.
