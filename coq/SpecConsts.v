(** The constants and small decision tables the specification uses are those
    of the current source (Gen/Consts.v is regenerated on every run). *)
From XZ Require Import Base Lzma Lzma2 Xz VliProofs Bcj.
From XZ.Gen Require Import Consts.
Local Open Scope N_scope.

Definition states : list N := map N.of_nat (seq 0 12).

Lemma state_machine_matches_source :
  map st_literal states = c_update_literal /\
  map st_match states = c_update_match /\
  map st_longrep states = c_update_long_rep /\
  map st_shortrep states = c_update_short_rep /\
  map (fun s => if is_lit_state s then 1 else 0) states = c_is_literal_state /\
  map dist_state [2;3;4;5;6;7;8;9;10] = c_get_dist_state /\
  c_STATES = 12 /\ c_LIT_STATES = 7.
Proof. vm_compute. repeat split; reflexivity. Qed.

Lemma rc_constants_match_source :
  TOP = c_RC_TOP_VALUE /\ BITMODEL_TOTAL = c_RC_BIT_MODEL_TOTAL /\ 2 ^ c_RC_MOVE_BITS = 32 /\
  c_RC_SHIFT_BITS = 8 /\ PROB_INIT * 2 = c_RC_BIT_MODEL_TOTAL.
Proof. vm_compute. repeat split; reflexivity. Qed.

Lemma lzma_constants_match_source :
  c_MATCH_LEN_MIN = 2 /\ c_MATCH_LEN_MAX = 273 /\ c_LEN_LOW_BITS = 3 /\ c_LEN_MID_BITS = 3 /\ c_LEN_HIGH_BITS = 8 /\
  c_DIST_STATES = 4 /\ c_DIST_SLOT_BITS = 6 /\ c_DIST_MODEL_START = 4 /\ c_DIST_MODEL_END = 14 /\
  c_FULL_DISTANCES = 128 /\ c_ALIGN_BITS = 4 /\ c_LZMA_LCLP_MAX = 4 /\ c_LZMA_PB_MAX = 4 /\
  c_LITERAL_CODER_SIZE = 768 /\
  c_LZMA2_CHUNK_MAX = 65536 /\ c_LZMA2_UNCOMPRESSED_MAX = 2097152.
Proof. vm_compute. repeat split; reflexivity. Qed.

Lemma container_constants_match_source :
  VLI_MAX = c_LZMA_VLI_MAX /\ c_LZMA_VLI_BYTES_MAX = 9 /\ UNPADDED_MAX = c_UNPADDED_SIZE_MAX /\ c_UNPADDED_SIZE_MIN = 5 /\
  c_LZMA_BLOCK_HEADER_SIZE_MIN = 8 /\ c_LZMA_BLOCK_HEADER_SIZE_MAX = 1024 /\ c_LZMA_STREAM_HEADER_SIZE = 12 /\
  c_INDEX_INDICATOR = 0 /\ c_LZMA_FILTERS_MAX = 4 /\
  map (fun i => check_size (N.of_nat i)) (seq 0 16) = c_check_size /\
  map (fun i => if check_supported (N.of_nat i) then 1 else 0) (seq 0 16) = c_check_supported /\
  c_LZMA_FILTER_LZMA2 = 0x21 /\ c_LZMA_FILTER_DELTA = 3 /\
  map bcj_arch_of_id [c_LZMA_FILTER_X86; c_LZMA_FILTER_ARM; c_LZMA_FILTER_ARMTHUMB; c_LZMA_FILTER_ARM64;
                      c_LZMA_FILTER_POWERPC; c_LZMA_FILTER_IA64; c_LZMA_FILTER_SPARC; c_LZMA_FILTER_RISCV]
    = map Some [0; 1; 2; 3; 4; 5; 6; 7] /\
  c_LZMA_FILTER_RESERVED_START = 4611686018427387904 /\
  c_LZMA_DELTA_DIST_MIN = 1 /\ c_LZMA_DELTA_DIST_MAX = 256 /\ c_LZMA_DICT_SIZE_MIN = 4096 /\
  map vli_size [0; 127; 128; 16383; 16384; VLI_MAX] = c_vli_size.
Proof. vm_compute. repeat split; reflexivity. Qed.
