(** Resource models: (1) the arithmetic that makes the decoder's real
    dictionary allocation fit the reported memory usage plus the fixed
    allowance; (2) the ownership protocol of lzma_next_coder under allocation
    failure, as an abstract heap with a failure oracle. *)
From XZ Require Import Base Lzma2 VliProofs.
From XZ.Gen Require Import Consts.
Require Import ZifyBool ZifyN.
Local Open Scope N_scope.

(** ---- (1) dictionary allocation vs lzma_lz_decoder_memusage ---- *)
Definition lz_alloc (d : N) : N := eff_dict d + 2 * c_LZ_DICT_REPEAT_MAX + c_LZ_DICT_EXTRA.       (* lz_decoder.c: alloc_size + EXTRA *)
Definition lz_reported (d : N) : N := d + 2 * c_LZ_DICT_REPEAT_MAX + c_LZ_DICT_EXTRA.          (* lzma_lz_decoder_memusage minus sizeof(coder) *)

Theorem dict_alloc_within_allowance d :
  lz_alloc d <= lz_reported d + 4111 /\ 4111 < c_LZMA_MEMUSAGE_BASE /\ lz_reported d <= lz_alloc d.
Proof.
  unfold lz_alloc, lz_reported.
  pose proof (eff_dict_bounds d) as [A [B [C D]]].
  assert (c_LZMA_MEMUSAGE_BASE = 32768) by reflexivity.
  repeat split; try lia.
Qed.

(** ---- (2) ownership protocol under allocation failure ----
    A coder kind is described by the list of allocations its init performs
    (in order).  [alloc] consults the failure oracle on a global counter. *)
Record heap := { live : list (nat * N) (* id, size *); next_id : nat; counter : nat }.
Definition heap0 : heap := {| live := []; next_id := 0; counter := 0 |}.

Definition alloc (fails : nat -> bool) (h : heap) (sz : N) : option nat * heap :=
  if fails (counter h) then (None, {| live := live h; next_id := next_id h; counter := S (counter h) |})
  else (Some (next_id h), {| live := (next_id h, sz) :: live h; next_id := S (next_id h); counter := S (counter h) |}).

Definition free_id (h : heap) (i : nat) : heap :=
  {| live := List.filter (fun p => negb (Nat.eqb (fst p) i)) (live h); next_id := next_id h; counter := counter h |}.
Definition free_all (h : heap) (ids : list nat) : heap := fold_left free_id ids h.

(** init program: allocate each size in turn; stop at the first failure.
    Returns the ids obtained (the coder's fields), success flag, heap. *)
Fixpoint run_init (fails : nat -> bool) (h : heap) (prog : list N) (got : list nat) : list nat * bool * heap :=
  match prog with
  | [] => (got, true, h)
  | sz :: r => match alloc fails h sz with
               | (Some i, h') => run_init fails h' r (i :: got)
               | (None, h') => (got, false, h')
               end
  end.

(** lzma_next_strm_init: init; on failure lzma_end (the coder's end function frees every field it owns) *)
Definition strm_init_coder (fails : nat -> bool) (h : heap) (prog : list N) : bool * list nat * heap :=
  let '(got, ok, h') := run_init fails h prog [] in
  if ok then (true, got, h') else (false, [], free_all h' got).

Definition ids_of (h : heap) : list nat := map fst (live h).

Lemma free_id_live h i : live (free_id h i) = List.filter (fun p => negb (Nat.eqb (fst p) i)) (live h).
Proof. reflexivity. Qed.

Lemma free_fresh h i : (forall p, In p (live h) -> fst p <> i) -> live (free_id h i) = live h.
Proof.
  intro H. rewrite free_id_live. induction (live h) as [|p l IH]; [reflexivity|].
  cbn [List.filter]. destruct (Nat.eqb_spec (fst p) i) as [E|E].
  - exfalso. apply (H p); [left; reflexivity|exact E].
  - cbn [negb]. f_equal. apply IH. intros q Hq. apply H. right. exact Hq.
Qed.

(** invariant: ids in the heap are below next_id *)
Definition wf (h : heap) : Prop := forall p, In p (live h) -> (fst p < next_id h)%nat.

Lemma run_init_spec fails : forall prog h got,
  wf h ->
  let '(got', ok, h') := run_init fails h prog got in
  wf h' /\ (next_id h <= next_id h')%nat /\
  exists new, got' = new ++ got /\
    (forall i, In i new -> (next_id h <= i < next_id h')%nat) /\
    free_all h' new = {| live := live h; next_id := next_id h'; counter := counter h' |}.
Proof.
  induction prog as [|sz r IH]; intros h got Hwf.
  - cbn. split; [exact Hwf|]. split; [lia|]. exists []. split; [reflexivity|]. split; [intros ? []|destruct h; reflexivity].
  - cbn [run_init]. unfold alloc. destruct (fails (counter h)).
    + split; [exact Hwf|]. split; [cbn; lia|]. exists []. split; [reflexivity|]. split; [intros ? []|reflexivity].
    + set (h1 := {| live := (next_id h, sz) :: live h; next_id := S (next_id h); counter := S (counter h) |}).
      assert (Hwf1 : wf h1).
      { intros p [Hp|Hp]; subst; cbn; [lia|]. specialize (Hwf p Hp). lia. }
      specialize (IH h1 (next_id h :: got) Hwf1).
      destruct (run_init fails h1 r (next_id h :: got)) as [[got' ok] h'].
      destruct IH as [W [Hn [new [Hg [Hr Hf]]]]].
      split; [exact W|]. split; [cbn in Hn; lia|].
      exists (new ++ [next_id h]). split; [rewrite Hg, <- app_assoc; reflexivity|]. split.
      * intros i Hi. apply in_app_or in Hi as [Hi|[Hi|[]]]; [specialize (Hr i Hi); cbn in Hr; lia|subst; cbn in Hn; lia].
      * unfold free_all in *. rewrite fold_left_app, Hf. cbn [fold_left]. unfold free_id. cbn [live next_id counter].
        f_equal. subst h1. cbn [live List.filter fst]. rewrite Nat.eqb_refl. cbn [negb].
        change (List.filter (fun p => negb (Nat.eqb (fst p) (next_id h))) (live h)) with (live (free_id h (next_id h))).
        apply free_fresh. intros p Hp. specialize (Hwf p Hp). lia.
Qed.

(** a failed initialisation leaves nothing allocated; a successful one followed by end frees everything *)
Theorem failed_init_leaves_heap_unchanged fails h prog : wf h ->
  let '(ok, fields, h') := strm_init_coder fails h prog in
  (ok = false -> live h' = live h /\ fields = []) /\
  (ok = true -> live (free_all h' fields) = live h).
Proof.
  intro Hwf. unfold strm_init_coder.
  pose proof (run_init_spec fails prog h [] Hwf) as S.
  destruct (run_init fails h prog []) as [[got ok] h1].
  destruct S as [W [Hn [new [Hg [Hr Hf]]]]]. rewrite app_nil_r in Hg. subst got.
  destruct ok; split; intro E; try discriminate.
  - rewrite Hf. reflexivity.
  - rewrite Hf. split; reflexivity.
Qed.
