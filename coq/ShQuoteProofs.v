From XZ Require Import Base ShQuote.
Local Open Scope N_scope.

(** the four characters that replace a single quote put one quote character into the word *)
Lemma four_chars ws w m :
  fold_left pstep [SQ; BS; SQ; SQ] {| words := ws; cur := Some w; meta_seen := m; st := InSQ |}
  = {| words := ws; cur := Some (SQ :: w); meta_seen := m; st := InSQ |}.
Proof. reflexivity. Qed.

Lemma plain_char ws w m c : (c =? SQ) = false ->
  pstep {| words := ws; cur := Some w; meta_seen := m; st := InSQ |} c
  = {| words := ws; cur := Some (c :: w); meta_seen := m; st := InSQ |}.
Proof. intro E. unfold pstep. cbn [st]. rewrite E. reflexivity. Qed.

(** feeding the body of a quoted string from inside single quotes *)
Lemma body_parses : forall s ws w m,
  fold_left pstep (flat_map (fun c => if c =? SQ then [SQ; BS; SQ; SQ] else [c]) s)
    {| words := ws; cur := Some w; meta_seen := m; st := InSQ |}
  = {| words := ws; cur := Some (rev s ++ w); meta_seen := m; st := InSQ |}.
Proof.
  induction s as [|c s IH]; intros ws w m; [reflexivity|].
  cbn [flat_map]. rewrite fold_left_app.
  destruct (c =? SQ) eqn:E.
  - apply N.eqb_eq in E. subst c. rewrite four_chars, IH. cbn [rev]. rewrite <- app_assoc. reflexivity.
  - cbn [fold_left]. rewrite plain_char by exact E. rewrite IH. cbn [rev]. rewrite <- app_assoc. reflexivity.
Qed.

(** every string (quotes, newlines incl. trailing ones, backslashes, dollars, backquotes, semicolons ...) comes back as
    exactly one word equal to itself, and nothing is left unquoted for eval to interpret *)
Theorem quote_roundtrip s : parse (quote s) = (Some [s], false).
Proof.
  unfold parse, quote.
  change (SQ :: flat_map (fun c => if c =? SQ then [SQ; BS; SQ; SQ] else [c]) s ++ [SQ])
    with ([SQ] ++ flat_map (fun c => if c =? SQ then [SQ; BS; SQ; SQ] else [c]) s ++ [SQ]).
  rewrite !fold_left_app.
  change (fold_left pstep [SQ] {| words := []; cur := None; meta_seen := false; st := Unq |})
    with {| words := []; cur := Some []; meta_seen := false; st := InSQ |}.
  rewrite body_parses. rewrite app_nil_r.
  change (fold_left pstep [SQ] {| words := []; cur := Some (rev s); meta_seen := false; st := InSQ |})
    with {| words := []; cur := Some (rev s); meta_seen := false; st := Unq |}.
  cbn [st cur words meta_seen rev app]. rewrite rev_involutive. reflexivity.
Qed.

(** exit status rule over all files *)
Definition is_err (rx : N * N) : bool := 2 <=? file_status (fst rx) (snd rx).
Definition is_match (rx : N * N) : bool := file_status (fst rx) (snd rx) =? 0.

Lemma res_step_cases res rx :
  let r := file_status (fst rx) (snd rx) in
  (2 <= r /\ res_step res rx = N.max res r) \/
  (r = 0 /\ res_step res rx = (if res =? 1 then 0 else res)) \/
  (r = 1 /\ res_step res rx = res).
Proof.
  cbv zeta. unfold res_step. set (r := file_status (fst rx) (snd rx)).
  destruct (N.leb_spec 2 r) as [H|H].
  - left. split; [exact H|]. destruct (N.ltb_spec res r); lia.
  - destruct (N.eqb_spec r 0) as [E|E]; [right; left; auto|right; right; split; [lia|reflexivity]].
Qed.

(** >= 2 exactly when some file had an error *)
Lemma fold_err : forall l res, 2 <= fold_left res_step l res <-> (2 <= res \/ existsb is_err l = true).
Proof.
  induction l as [|rx l IH]; intro res; cbn [fold_left existsb].
  - split; [auto|intros [H|H]; [exact H|discriminate]].
  - rewrite IH. change (is_err rx) with (2 <=? file_status (fst rx) (snd rx)).
    destruct (res_step_cases res rx) as [[H E]|[[H E]|[H E]]]; rewrite E; cbv zeta in H.
    + assert (X : (2 <=? file_status (fst rx) (snd rx)) = true) by (apply N.leb_le; exact H). rewrite X. cbn [orb].
      split; intros _; [right; reflexivity|left; lia].
    + assert (X : (2 <=? file_status (fst rx) (snd rx)) = false) by (apply N.leb_gt; lia). rewrite X. cbn [orb].
      destruct (res =? 1) eqn:E1; [apply N.eqb_eq in E1|]; split; intros [A|A]; auto; lia.
    + assert (X : (2 <=? file_status (fst rx) (snd rx)) = false) by (apply N.leb_gt; lia). rewrite X. cbn [orb]. reflexivity.
Qed.

(** without errors: 0 as soon as one file matched, else the initial 1 *)
Lemma fold_noerr : forall l res, (res = 0 \/ res = 1) -> existsb is_err l = false ->
  fold_left res_step l res = if (res =? 0) || existsb is_match l then 0 else 1.
Proof.
  induction l as [|rx l IH]; intros res Hres He; cbn [fold_left existsb] in *.
  - destruct Hres as [-> | ->]; reflexivity.
  - apply orb_false_iff in He as [He1 He2]. unfold is_err in He1. apply N.leb_gt in He1.
    change (is_match rx) with (file_status (fst rx) (snd rx) =? 0).
    destruct (res_step_cases res rx) as [[H E]|[[H E]|[H E]]]; cbv zeta in H; [lia| |]; rewrite E.
    + rewrite H. cbn [N.eqb orb]. rewrite orb_true_r.
      destruct Hres as [-> | ->]; cbn [N.eqb]; rewrite IH by auto; reflexivity.
    + rewrite H. cbn [N.eqb orb]. apply IH; assumption.
Qed.

Theorem status_rule l :
  let res := final_res l in
  (2 <= res <-> existsb is_err l = true) /\
  (existsb is_err l = false -> res = if existsb is_match l then 0 else 1).
Proof.
  cbv zeta. unfold final_res. split.
  - rewrite fold_err. split; [intros [H|H]; [lia|exact H]|auto].
  - intro H. rewrite fold_noerr by auto. reflexivity.
Qed.
