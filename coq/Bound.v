(** Output-size bound functions (block_buffer_encoder.c, stream_buffer_encoder.c)
    with the 64-bit arithmetic explicit, and their soundness. *)
From XZ Require Import Base Xz.
Require Import ZifyBool ZifyN.
Local Open Scope N_scope.
Ltac Zify.zify_post_hook ::= Z.div_mod_to_equations.

Definition COMPRESSED_SIZE_MAX : N := 9223372036854774716.   (* tied to Gen.Consts in SpecConsts *)
Definition BLOCK_HEADERS_BOUND : N := 92.
Definition STREAM_HEADERS_BOUND : N := 48.    (* 2 * 12 + INDEX_BOUND(24) *)

Definition lzma2_bound (n : N) : N :=
  if COMPRESSED_SIZE_MAX <? n then 0 else
  let overhead := ((n + 65536 - 1) / 65536) * 3 + 1 in
  if COMPRESSED_SIZE_MAX - overhead <? n then 0 else n + overhead.
Definition ceil4 (x : N) : N := ((x + 3) / 4) * 4.
Definition block_bound (n : N) : N :=
  let l := lzma2_bound n in if l =? 0 then 0 else BLOCK_HEADERS_BOUND + ceil4 l.
Definition stream_bound (n : N) : N :=
  let b := block_bound n in
  if b =? 0 then 0 else if VLI_MAX - b <? STREAM_HEADERS_BOUND then 0 else b + STREAM_HEADERS_BOUND.

(** size of the all-uncompressed-chunks LZMA2 encoding that block_encode_uncompressed writes *)
Fixpoint uncomp_size (fuel : nat) (n : N) : N :=
  match fuel with
  | O => 1
  | S f => if n =? 0 then 1 else
           let c := N.min n 65536 in 3 + c + uncomp_size f (n - c)
  end.

Lemma uncomp_size_closed : forall fuel n, n <= 65536 * N.of_nat fuel ->
  uncomp_size fuel n = n + 3 * ((n + 65535) / 65536) + 1.
Proof.
  induction fuel as [|fuel IH]; intros n H.
  - cbn in H. assert (n = 0) by lia. subst. reflexivity.
  - cbn [uncomp_size]. destruct (n =? 0) eqn:E.
    + apply N.eqb_eq in E. subst. reflexivity.
    + apply N.eqb_neq in E. rewrite IH by lia.
      destruct (N.le_gt_cases n 65536) as [L|L].
      * rewrite N.min_l by exact L. replace (n - n) with 0 by lia.
        change ((0 + 65535) / 65536) with 0.
        replace ((n + 65535) / 65536) with 1; [lia|].
        apply N.div_unique with (r := n - 1); lia.
      * rewrite N.min_r by lia.
        replace ((n + 65535) / 65536) with ((n - 65536 + 65535) / 65536 + 1); [lia|].
        replace (n + 65535) with ((n - 65536 + 65535) + 1 * 65536) by lia.
        rewrite N.div_add by lia. reflexivity.
Qed.

Theorem lzma2_bound_exact n : lzma2_bound n <> 0 ->
  lzma2_bound n = n + 3 * ((n + 65535) / 65536) + 1 /\ lzma2_bound n <= COMPRESSED_SIZE_MAX.
Proof.
  unfold lzma2_bound. destruct (COMPRESSED_SIZE_MAX <? n) eqn:E1; [intro H; exfalso; apply H; reflexivity|].
  cbv zeta. destruct (COMPRESSED_SIZE_MAX - ((n + 65536 - 1) / 65536 * 3 + 1) <? n) eqn:E2; [intro H; exfalso; apply H; reflexivity|].
  intros _. unfold COMPRESSED_SIZE_MAX in *. lia.
Qed.

(** a Block made of header (<= 28 incl. padding), the uncompressed-chunk LZMA2 data,
    Block Padding and a Check (<= 64) always fits in block_bound *)
Theorem block_bound_sound n hs cs : block_bound n <> 0 -> hs <= 28 -> cs <= 64 ->
  hs + ceil4 (n + 3 * ((n + 65535) / 65536) + 1) + cs <= block_bound n.
Proof.
  unfold block_bound. destruct (lzma2_bound n =? 0) eqn:E; [intro H; exfalso; apply H; reflexivity|].
  apply N.eqb_neq in E. destruct (lzma2_bound_exact n E) as [-> _].
  intros _ H1 H2. unfold BLOCK_HEADERS_BOUND. lia.
Qed.

(** ... and the whole single-Block Stream (12 + Block + Index <= 24 + 12) fits in stream_bound *)
Theorem stream_bound_sound n hs cs isz : stream_bound n <> 0 -> hs <= 28 -> cs <= 64 -> isz <= 24 ->
  12 + (hs + ceil4 (n + 3 * ((n + 65535) / 65536) + 1) + cs) + isz + 12 <= stream_bound n
  /\ stream_bound n <= VLI_MAX.
Proof.
  unfold stream_bound. destruct (block_bound n =? 0) eqn:E; [intro H; exfalso; apply H; reflexivity|].
  destruct (_ <? STREAM_HEADERS_BOUND) eqn:E2; [intro H; exfalso; apply H; reflexivity|].
  intros _ H1 H2 H3. apply N.eqb_neq in E. pose proof (block_bound_sound n hs cs E H1 H2).
  apply N.ltb_ge in E2. unfold STREAM_HEADERS_BOUND, VLI_MAX in *. lia.
Qed.

(** the bounds never wrap 64-bit arithmetic and are 0 exactly when the size cannot be represented *)
Theorem bounds_no_wrap n : n < 2 ^ 64 ->
  lzma2_bound n < 2 ^ 63 /\ block_bound n < 2 ^ 63 /\ stream_bound n < 2 ^ 63 /\ n + 65536 - 1 < 2 ^ 64 + 65536.
Proof.
  intro H. unfold stream_bound, block_bound.
  assert (L : lzma2_bound n < 2 ^ 63 - 200).
  { destruct (N.eq_dec (lzma2_bound n) 0) as [->|Z]; [cbn; lia|].
    destruct (lzma2_bound_exact n Z) as [_ B]. unfold COMPRESSED_SIZE_MAX in B. cbn. lia. }
  change (2 ^ 63) with 9223372036854775808 in *. change (2 ^ 64) with 18446744073709551616 in *.
  unfold ceil4, BLOCK_HEADERS_BOUND, STREAM_HEADERS_BOUND, VLI_MAX.
  repeat match goal with |- context [if ?b then _ else _] => destruct b eqn:? end; lia.
Qed.
