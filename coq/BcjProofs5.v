(** Round trip of the x86 branch filter (one call from any consistent state, in particular the initial one).
    The filter keeps a mask of recent E8/E9 bytes that were not converted; the proof follows the design argument:
    (1) the inner correction loop runs at most once more and leaves a byte that is neither 00 nor FF where the
    earlier candidate looked for its most significant byte, (2) therefore the decoder, reading converted data,
    takes the same decisions as the encoder, (3) and its own inner loop undoes the encoder's, modulo 2^25. *)
From XZ Require Import Base Bcj BcjInst BcjProofs.
From XZ.Gen Require Import BcjTables.
Require Import ZifyBool ZifyN ZifyNat.
Local Open Scope N_scope.
Ltac Zify.zify_post_hook ::= Z.div_mod_to_equations.

(** ---------- xor with a block of low ones ---------- *)
Lemma lxor_ones_split v k : N.lxor v (N.ones k) = (v / 2 ^ k) * 2 ^ k + (N.ones k - v mod 2 ^ k).
Proof.
  set (X := N.lxor v (N.ones k)).
  assert (Hhi : X / 2 ^ k = v / 2 ^ k).
  { subst X. rewrite <- !N.shiftr_div_pow2, N.shiftr_lxor.
    replace (N.shiftr (N.ones k) k) with 0; [apply N.lxor_0_r|].
    rewrite N.shiftr_div_pow2, N.ones_equiv. symmetry. apply N.div_small.
    pose proof (N.pow_nonzero 2 k). lia. }
  assert (Hlo : X mod 2 ^ k = N.ones k - v mod 2 ^ k).
  { subst X. rewrite <- N.land_ones.
    assert (L : N.log2 (v mod 2 ^ k) < k \/ k = 0).
    { destruct (N.eq_dec k 0) as [->|Hk]; [right; reflexivity|left].
      destruct (N.eq_dec (v mod 2 ^ k) 0) as [E|E]; [rewrite E; cbn; lia|].
      apply N.log2_lt_pow2; [lia|]. apply N.mod_lt. apply N.pow_nonzero. lia. }
    destruct L as [L | ->].
    - rewrite <- (N.lnot_sub_low _ _ L). unfold N.lnot.
      apply N.bits_inj. intro n.
      rewrite N.land_spec, !N.lxor_spec.
      destruct (N.lt_ge_cases n k) as [Hn|Hn].
      + rewrite N.ones_spec_low by exact Hn. rewrite N.mod_pow2_bits_low by exact Hn.
        rewrite Bool.andb_true_r. reflexivity.
      + rewrite N.ones_spec_high by exact Hn. rewrite N.mod_pow2_bits_high by exact Hn.
        rewrite Bool.andb_false_r. reflexivity.
    - cbn. rewrite N.land_0_r. reflexivity. }
  rewrite <- Hhi, <- Hlo. rewrite (N.div_mod X (2 ^ k)) at 1 by (apply N.pow_nonzero; lia). lia.
Qed.

Lemma lxor_low8 v : N.lxor v 255 = (v / 256) * 256 + (255 - v mod 256).
Proof. exact (lxor_ones_split v 8). Qed.
Lemma lxor_low16 v : N.lxor v 65535 = (v / 65536) * 65536 + (65535 - v mod 65536).
Proof. exact (lxor_ones_split v 16). Qed.
Lemma lxor_low24 v : N.lxor v 16777215 = (v / 16777216) * 16777216 + (16777215 - v mod 16777216).
Proof. exact (lxor_ones_split v 24). Qed.

(** ---------- the inner correction loop ---------- *)
Definition tb := x86_mask_to_bit_number.
Lemma tb_value : tb = [0; 1; 2; 2; 3].
Proof. reflexivity. Qed.

Lemma x86_inner_S f enc pm pc src :
  x86_inner tb (S f) enc pm pc src =
  (let dest := if enc then w32 (src + pc) else sub32' src pc in
   if pm =? 0 then dest else
   let i := nth (N.to_nat (pm / 2)) tb 0 in
   let b := (dest / 2 ^ (24 - i * 8)) mod 256 in
   if negb (test86 b) then dest else x86_inner tb f enc pm pc (N.lxor dest (2 ^ (32 - i * 8) - 1))).
Proof. reflexivity. Qed.

Lemma x86_inner_0 f enc pc src : x86_inner tb f enc 0 pc src = if enc then w32 (src + pc) else sub32' src pc.
Proof. destruct f; reflexivity. Qed.

Definition flipk (K v : N) : N := (v / K) * K + (K - 1 - v mod K).
Definition bytek (S v : N) : N := (v / S) mod 256.

(** arithmetic of one correction step, for the three block sizes K = 2^24, 2^16, 2^8 (S = K / 256) *)
Lemma step_arith_24 s pc : s < 4294967296 -> pc < 4294967296 ->
  let d0 := (s + pc) mod 4294967296 in let d1 := (flipk 16777216 d0 + pc) mod 4294967296 in
  bytek 65536 d1 = 255 - bytek 65536 s /\ bytek 65536 (flipk 16777216 d0) = 255 - bytek 65536 d0.
Proof. intros Hs Hp. cbv zeta. unfold flipk, bytek. split; lia. Qed.
Lemma step_arith_16 s pc : s < 4294967296 -> pc < 4294967296 ->
  let d0 := (s + pc) mod 4294967296 in let d1 := (flipk 65536 d0 + pc) mod 4294967296 in
  bytek 256 d1 = 255 - bytek 256 s /\ bytek 256 (flipk 65536 d0) = 255 - bytek 256 d0.
Proof. intros Hs Hp. cbv zeta. unfold flipk, bytek. split; lia. Qed.
Lemma step_arith_8 s pc : s < 4294967296 -> pc < 4294967296 ->
  let d0 := (s + pc) mod 4294967296 in let d1 := (flipk 256 d0 + pc) mod 4294967296 in
  bytek 1 d1 = 255 - bytek 1 s /\ bytek 1 (flipk 256 d0) = 255 - bytek 1 d0.
Proof. intros Hs Hp. cbv zeta. unfold flipk, bytek. split; lia. Qed.

(** the decoder's view, modulo 2^25 (the stored value keeps 25 bits of the result) *)
Lemma undo_plain s pc x : s < 4294967296 -> pc < 4294967296 -> x < 4294967296 ->
  x mod 33554432 = ((s + pc) mod 4294967296) mod 33554432 ->
  ((x + 4294967296 - pc mod 4294967296) mod 4294967296) mod 33554432 = s mod 33554432.
Proof. intros. lia. Qed.

Lemma flipk_lt K v : (K = 16777216 \/ K = 65536 \/ K = 256) -> v < 4294967296 -> flipk K v < 4294967296.
Proof. intros HK Hv. unfold flipk. destruct HK as [-> | [-> | ->]]; lia. Qed.

Lemma flip_flip_mod K a b : (K = 16777216 \/ K = 65536 \/ K = 256) ->
  a mod 33554432 = (flipk K b) mod 33554432 -> (flipk K a) mod 33554432 = b mod 33554432.
Proof.
  intros HK. unfold flipk.
  destruct HK as [-> | [-> | ->]].
  - set (q := b / 16777216). set (r := b mod 16777216). assert (b = 16777216 * q + r /\ r < 16777216) by (subst q r; lia).
    clearbody q r. intro E. lia.
  - set (q := b / 65536). set (r := b mod 65536). assert (b = 65536 * q + r /\ r < 65536) by (subst q r; lia).
    clearbody q r. intro E. lia.
  - set (q := b / 256). set (r := b mod 256). assert (b = 256 * q + r /\ r < 256) by (subst q r; lia).
    clearbody q r. intro E. lia.
Qed.

Lemma undo_flip K s pc x : (K = 16777216 \/ K = 65536 \/ K = 256) ->
  s < 4294967296 -> pc < 4294967296 -> x < 4294967296 ->
  let d0 := (s + pc) mod 4294967296 in let d1 := (flipk K d0 + pc) mod 4294967296 in
  x mod 33554432 = d1 mod 33554432 ->
  let e0 := (x + 4294967296 - pc mod 4294967296) mod 4294967296 in
  e0 mod 33554432 = (flipk K d0) mod 33554432
  /\ ((flipk K e0 + 4294967296 - pc mod 4294967296) mod 4294967296) mod 33554432 = s mod 33554432.
Proof.
  intros HK Hs Hp Hx. cbv zeta. intro E.
  set (d0 := (s + pc) mod 4294967296) in *.
  assert (Hd0 : d0 < 4294967296) by (subst d0; lia).
  pose proof (flipk_lt K d0 HK Hd0) as HF.
  assert (E0 : ((x + 4294967296 - pc mod 4294967296) mod 4294967296) mod 33554432 = flipk K d0 mod 33554432).
  { apply undo_plain; assumption. }
  split; [exact E0|].
  set (e0 := (x + 4294967296 - pc mod 4294967296) mod 4294967296) in *.
  assert (He0 : e0 < 4294967296) by (subst e0; lia).
  pose proof (flip_flip_mod K e0 d0 HK E0) as E1.
  apply undo_plain; [exact Hs|exact Hp|apply flipk_lt; assumption|].
  rewrite E1. reflexivity.
Qed.

Lemma bytek_mod25 S a b : (S = 65536 \/ S = 256 \/ S = 1) -> a mod 33554432 = b mod 33554432 -> bytek S a = bytek S b.
Proof. intros HS E. unfold bytek. destruct HS as [-> | [-> | ->]]; lia. Qed.

Definition mparams (pm K S : N) : Prop :=
  (pm = 2 /\ K = 16777216 /\ S = 65536) \/ (pm = 4 /\ K = 65536 /\ S = 256) \/ (pm = 8 /\ K = 256 /\ S = 1).

Lemma mparams_K pm K S : mparams pm K S -> K = 16777216 \/ K = 65536 \/ K = 256.
Proof. unfold mparams. intuition. Qed.
Lemma mparams_S pm K S : mparams pm K S -> S = 65536 \/ S = 256 \/ S = 1.
Proof. unfold mparams. intuition. Qed.

Lemma inner_unfold pm K S f enc pc src : mparams pm K S ->
  x86_inner tb (Datatypes.S f) enc pm pc src =
  (let dest := if enc then w32 (src + pc) else sub32' src pc in
   if test86 (bytek S dest) then x86_inner tb f enc pm pc (flipk K dest) else dest).
Proof.
  intro H. rewrite x86_inner_S. cbv zeta. unfold bytek, flipk.
  destruct H as [(-> & -> & ->) | [(-> & -> & ->) | (-> & -> & ->)]].
  - change (2 =? 0) with false. cbv iota.
    change (nth (N.to_nat (2 / 2)) tb 0) with 1. change (2 ^ (24 - 1 * 8)) with 65536. change (2 ^ (32 - 1 * 8) - 1) with 16777215.
    rewrite lxor_low24. change (16777216 - 1) with 16777215. destruct (test86 _); reflexivity.
  - change (4 =? 0) with false. cbv iota.
    change (nth (N.to_nat (4 / 2)) tb 0) with 2. change (2 ^ (24 - 2 * 8)) with 256. change (2 ^ (32 - 2 * 8) - 1) with 65535.
    rewrite lxor_low16. change (65536 - 1) with 65535. destruct (test86 _); reflexivity.
  - change (8 =? 0) with false. cbv iota.
    change (nth (N.to_nat (8 / 2)) tb 0) with 3. change (2 ^ (24 - 3 * 8)) with 1. change (2 ^ (32 - 3 * 8) - 1) with 255.
    rewrite lxor_low8. change (256 - 1) with 255. destruct (test86 _); reflexivity.
Qed.

Lemma test86_compl y : y < 256 -> test86 (255 - y) = test86 y.
Proof. intro H. unfold test86. lia. Qed.
Lemma bytek_lt S v : bytek S v < 256.
Proof. unfold bytek. lia. Qed.

Lemma step_arith pm K S s pc : mparams pm K S -> s < 4294967296 -> pc < 4294967296 ->
  let d0 := w32 (s + pc) in let d1 := w32 (flipk K d0 + pc) in
  bytek S d1 = 255 - bytek S s /\ bytek S (flipk K d0) = 255 - bytek S d0.
Proof.
  intros H Hs Hp. unfold w32.
  destruct H as [(-> & -> & ->) | [(-> & -> & ->) | (-> & -> & ->)]].
  - apply step_arith_24; assumption.
  - apply step_arith_16; assumption.
  - apply step_arith_8; assumption.
Qed.

Definition enc_result (K S s pc r : N) : Prop :=
  (test86 (bytek S (w32 (s + pc))) = false /\ r = w32 (s + pc))
  \/ (test86 (bytek S (w32 (s + pc))) = true /\ r = w32 (flipk K (w32 (s + pc)) + pc)).

Lemma inner_enc pm K S s pc : mparams pm K S -> s < 4294967296 -> pc < 4294967296 -> test86 (bytek S s) = false ->
  let r := x86_inner tb 16 true pm pc s in
  test86 (bytek S r) = false /\ r < 4294967296 /\ enc_result K S s pc r.
Proof.
  intros H Hs Hp HT. cbv zeta.
  rewrite (inner_unfold pm K S 15 true pc s H). cbv zeta.
  destruct (test86 (bytek S (w32 (s + pc)))) eqn:E0.
  - rewrite (inner_unfold pm K S 14 true pc _ H). cbv zeta.
    destruct (step_arith pm K S s pc H Hs Hp) as [A1 _]. cbv zeta in A1.
    assert (E1 : test86 (bytek S (w32 (flipk K (w32 (s + pc)) + pc))) = false).
    { rewrite A1, test86_compl by apply bytek_lt. exact HT. }
    rewrite E1. split; [exact E1|]. split; [unfold w32; lia|]. right. split; [exact E0|reflexivity].
  - split; [exact E0|]. split; [unfold w32; lia|]. left. split; [exact E0|reflexivity].
Qed.

Lemma inner_dec pm K S s pc r x : mparams pm K S -> s < 4294967296 -> pc < 4294967296 -> x < 4294967296 ->
  test86 (bytek S s) = false -> enc_result K S s pc r -> x mod 33554432 = r mod 33554432 ->
  (x86_inner tb 16 false pm pc x) mod 33554432 = s mod 33554432.
Proof.
  intros H Hs Hp Hx HT R E.
  pose proof (mparams_K _ _ _ H) as HK. pose proof (mparams_S _ _ _ H) as HS.
  rewrite (inner_unfold pm K S 15 false pc x H). cbv zeta.
  destruct R as [[T0 ->] | [T0 ->]].
  - assert (E0 : (sub32' x pc) mod 33554432 = s mod 33554432).
    { unfold sub32', w32 in *. apply undo_plain; assumption. }
    rewrite (bytek_mod25 S _ _ HS E0), HT. exact E0.
  - destruct (undo_flip K s pc x HK Hs Hp Hx) as [E0 E1]; [unfold w32 in E; exact E|]. cbv zeta in E0, E1.
    fold (w32 (s + pc)) in E0. change ((x + 4294967296 - pc mod 4294967296) mod 4294967296) with (sub32' x pc) in E0, E1.
    destruct (step_arith pm K S s pc H Hs Hp) as [_ A2]. cbv zeta in A2.
    assert (T1 : test86 (bytek S (sub32' x pc)) = true).
    { rewrite (bytek_mod25 S _ _ HS E0), A2, test86_compl by apply bytek_lt. exact T0. }
    rewrite T1. rewrite (inner_unfold pm K S 14 false pc _ H). cbv zeta.
    assert (E2 : (sub32' (flipk K (sub32' x pc)) pc) mod 33554432 = s mod 33554432) by exact E1.
    rewrite (bytek_mod25 S _ _ HS E2), HT. exact E2.
Qed.

(** ---------- the scan, with the mask brought forward to the current position ---------- *)
Definition stepm (m : N) : N := w32 (N.land m 0x77 * 2).
Definition is_cand (b : N) : bool := (b =? 0xE8) || (b =? 0xE9).
Definition conv_ok (m b4 : N) : bool := test86 b4 && (m / 2 <=? 4) && negb (m / 2 =? 3).
Definition x86_out (dest : N) : list N :=
  [dest mod 256; (dest / 256) mod 256; (dest / 65536) mod 256; if (dest / 16777216) mod 2 =? 1 then 255 else 0].
Definition x86_src (b1 b2 b3 b4 : N) : N := b4 * 16777216 + b3 * 65536 + b2 * 256 + b1.
Definition flagof (t : bool) : N := if t then 0x10 else 0.

Fixpoint go' (enc : bool) (m pos : N) (l : list N) {struct l} : list N :=
  match l with
  | b :: rest =>
    match rest with
    | b1 :: b2 :: b3 :: b4 :: r =>
      if negb (is_cand b) then b :: go' enc (stepm m) (w32 (pos + 1)) rest
      else if conv_ok m b4 then
        b :: x86_out (x86_inner tb 16 enc m (w32 (pos + 5)) (x86_src b1 b2 b3 b4)) ++ go' enc 0 (w32 (pos + 5)) r
      else b :: go' enc (stepm (N.lor (N.lor m 1) (flagof (test86 b4)))) (w32 (pos + 1)) rest
    | _ => l
    end
  | [] => []
  end.

Definition eff (pm d : N) : N := if 5 <? d then 0 else shift_mask (N.to_nat d) pm.

Definition upto (n : nat) : list N := map N.of_nat (seq 0 n).
Lemma in_upto n x : x < N.of_nat n -> In x (upto n).
Proof. intro H. unfold upto. apply in_map_iff. exists (N.to_nat x). split; [lia|apply in_seq; lia]. Qed.

Lemma eff_facts : forall pm d, pm < 256 -> d <= 5 ->
  eff pm d < 256 /\ eff pm (d + 1) = stepm (eff pm d).
Proof.
  assert (H : forallb (fun pm => forallb (fun d => (eff pm d <? 256) && (eff pm (d + 1) =? stepm (eff pm d))) (upto 6)) (upto 256) = true)
    by (vm_compute; reflexivity).
  intros pm d Hp Hd. rewrite forallb_forall in H. specialize (H pm (in_upto 256 pm Hp)).
  rewrite forallb_forall in H. specialize (H d (in_upto 6 d ltac:(lia))). lia.
Qed.

Lemma eff_succ pm d : pm < 256 -> eff pm (d + 1) = stepm (eff pm d).
Proof.
  intro Hp. destruct (N.le_gt_cases d 5) as [H|H]; [apply eff_facts; assumption|].
  unfold eff. replace (5 <? d + 1) with true by lia. replace (5 <? d) with true by lia. reflexivity.
Qed.
Lemma eff_lt pm d : pm < 256 -> eff pm d < 256.
Proof.
  intro Hp. destruct (N.le_gt_cases d 5) as [H|H]; [apply eff_facts; assumption|].
  unfold eff. replace (5 <? d) with true by lia. lia.
Qed.
Lemma eff_0 d : eff 0 d = 0.
Proof.
  unfold eff. destruct (5 <? d) eqn:E; [reflexivity|].
  assert (H : forallb (fun d => shift_mask (N.to_nat d) 0 =? 0) (upto 6) = true) by (vm_compute; reflexivity).
  rewrite forallb_forall in H. specialize (H d (in_upto 6 d ltac:(lia))). lia.
Qed.
Lemma eff_1 pm : eff pm 1 = stepm pm.
Proof. reflexivity. Qed.

Lemma lor_flags_lt m t : m < 256 -> N.lor (N.lor m 1) (flagof t) < 256.
Proof.
  intro H.
  assert (S : forallb (fun m => (N.lor (N.lor m 1) 16 <? 256) && (N.lor (N.lor m 1) 0 <? 256)) (upto 256) = true) by (vm_compute; reflexivity).
  rewrite forallb_forall in S. specialize (S m (in_upto 256 m H)). destruct t; cbn [flagof]; lia.
Qed.

Lemma x86_go_unfold enc pm pp pos b b1 b2 b3 b4 r :
  x86_go tb enc pm pp pos (b :: b1 :: b2 :: b3 :: b4 :: r) =
  (let rest := b1 :: b2 :: b3 :: b4 :: r in
   if negb ((b =? 0xE8) || (b =? 0xE9)) then
     let x := x86_go tb enc pm pp (w32 (pos + 1)) rest in
     {| xo := b :: xo x; xpm := xpm x; xpp := xpp x; xn := xn x + 1 |}
   else
     let offset := sub32' pos pp in
     let pp := pos in
     let pm := if 5 <? offset then 0 else shift_mask (N.to_nat offset) pm in
     if test86 b4 && (pm / 2 <=? 4) && negb (pm / 2 =? 3) then
       let src := b4 * 16777216 + b3 * 65536 + b2 * 256 + b1 in
       let dest := x86_inner tb 16 enc pm (w32 (pos + 5)) src in
       let x := x86_go tb enc 0 pp (w32 (pos + 5)) r in
       {| xo := b :: dest mod 256 :: (dest / 256) mod 256 :: (dest / 65536) mod 256
                :: (if (dest / 16777216) mod 2 =? 1 then 255 else 0) :: xo x;
          xpm := xpm x; xpp := xpp x; xn := xn x + 5 |}
     else
       let pm := N.lor pm 1 in
       let pm := if test86 b4 then N.lor pm 0x10 else pm in
       let x := x86_go tb enc pm pp (w32 (pos + 1)) rest in
       {| xo := b :: xo x; xpm := xpm x; xpp := xpp x; xn := xn x + 1 |}).
Proof. reflexivity. Qed.

Lemma go'_unfold enc m pos b b1 b2 b3 b4 r :
  go' enc m pos (b :: b1 :: b2 :: b3 :: b4 :: r) =
  (let rest := b1 :: b2 :: b3 :: b4 :: r in
   if negb (is_cand b) then b :: go' enc (stepm m) (w32 (pos + 1)) rest
   else if conv_ok m b4 then
     b :: x86_out (x86_inner tb 16 enc m (w32 (pos + 5)) (x86_src b1 b2 b3 b4)) ++ go' enc 0 (w32 (pos + 5)) r
   else b :: go' enc (stepm (N.lor (N.lor m 1) (flagof (test86 b4)))) (w32 (pos + 1)) rest).
Proof. reflexivity. Qed.

Lemma go'_short enc m pos l : (length l < 5)%nat -> go' enc m pos l = l.
Proof. intro H. destruct l as [|a [|b [|c [|d [|e r]]]]]; try reflexivity. cbn [length] in H. lia. Qed.
Lemma x86_go_short enc pm pp pos l : (length l < 5)%nat -> xo (x86_go tb enc pm pp pos l) = l.
Proof. intro H. destruct l as [|a [|b [|c [|d [|e r]]]]]; try reflexivity. cbn [length] in H. lia. Qed.

(** x86_go and the scan with the mask brought forward agree as long as positions do not wrap *)
Lemma go_eq enc : forall n l pm pp pos d, (length l <= n)%nat ->
  pm < 256 -> pos < 4294967296 -> pp < 4294967296 -> sub32' pos pp = d -> d + lenN l < 4294967296 ->
  xo (x86_go tb enc pm pp pos l) = go' enc (eff pm d) pos l.
Proof.
  induction n as [|n IH]; intros l pm pp pos d Hn Hpm Hpos Hpp Hd Hlen.
  - destruct l; [reflexivity|cbn [length] in Hn; lia].
  - destruct l as [|b [|b1 [|b2 [|b3 [|b4 r]]]]]; try reflexivity.
    rewrite x86_go_unfold, go'_unfold. cbv zeta.
    fold (is_cand b).
    assert (LR : lenN (b :: b1 :: b2 :: b3 :: b4 :: r) = lenN r + 5) by (unfold lenN; cbn [length]; lia).
    assert (L4 : lenN (b1 :: b2 :: b3 :: b4 :: r) = lenN r + 4) by (unfold lenN; cbn [length]; lia).
    cbn [length] in Hn.
    destruct (is_cand b) eqn:EC; cbn [negb].
    + rewrite Hd. fold (eff pm d). fold (conv_ok (eff pm d) b4).
      destruct (conv_ok (eff pm d) b4) eqn:EK.
      * cbn [xo]. fold (x86_src b1 b2 b3 b4). unfold x86_out. cbn [app]. do 5 f_equal.
        rewrite (IH r 0 pos (w32 (pos + 5)) 5); [rewrite eff_0; reflexivity|lia|lia|unfold w32; lia|exact Hpos| |lia].
        unfold sub32', w32. lia.
      * cbn [xo]. f_equal.
        assert (EP : (if test86 b4 then N.lor (N.lor (eff pm d) 1) 16 else N.lor (eff pm d) 1) = N.lor (N.lor (eff pm d) 1) (flagof (test86 b4))).
        { destruct (test86 b4); cbn [flagof]; [reflexivity|rewrite N.lor_0_r; reflexivity]. }
        rewrite EP.
        rewrite (IH _ _ pos (w32 (pos + 1)) 1); [rewrite eff_1; reflexivity|cbn [length]; lia|apply lor_flags_lt, eff_lt; exact Hpm|unfold w32; lia|exact Hpos| |lia].
        unfold sub32', w32. lia.
    + cbn [xo]. f_equal.
      rewrite (IH _ pm pp (w32 (pos + 1)) (d + 1)); [rewrite eff_succ by exact Hpm; reflexivity|cbn [length]; lia|exact Hpm|unfold w32; lia|exact Hpp| |lia].
      subst d. unfold sub32', w32 in *. lia.
Qed.

(** ---------- what the mask knows about the bytes ahead ---------- *)
Definition bit (m d : N) : bool := (m / 2 ^ d) mod 2 =? 1.
Definition WF (m : N) : bool := (m <? 256) && (m mod 2 =? 0) && negb (bit m 4).
Definition consb (m : N) (c1 c2 c3 : bool) : bool :=
  implb (bit m 1) (Bool.eqb (bit m 5) c3) && implb (bit m 2) (Bool.eqb (bit m 6) c2) && implb (bit m 3) (Bool.eqb (bit m 7) c1).
Definition Cons (m : N) (l : list N) : Prop :=
  consb m (test86 (nth 1 l 0)) (test86 (nth 2 l 0)) (test86 (nth 3 l 0)) = true.
Definition m2 (m : N) (t : bool) : N := stepm (N.lor (N.lor m 1) (flagof t)).

Lemma sweep256 (P : N -> bool) : forallb P (upto 256) = true -> forall m, m < 256 -> P m = true.
Proof. intros H m Hm. rewrite forallb_forall in H. apply H, in_upto. exact Hm. Qed.
Definition allb (f : bool -> bool) : bool := f true && f false.
Lemma allb_spec f : allb f = true -> forall b, f b = true.
Proof. unfold allb. intros H b. apply andb_prop in H. destruct b; tauto. Qed.

Lemma WF_lt m : WF m = true -> m < 256.
Proof. unfold WF. lia. Qed.

Lemma mask_facts : forall m, m < 256 ->
  WF (stepm m) = true /\ (forall t, WF (m2 m t) = true)
  /\ (forall c1 c2 c3 c4, WF m = true -> consb m c1 c2 c3 = true -> consb (stepm m) c2 c3 c4 = true)
  /\ (forall c1 c2 c3 c4, WF m = true -> consb m c1 c2 c3 = true -> consb (m2 m c4) c2 c3 c4 = true)
  /\ (bit m 1 = true -> bit (stepm m) 2 = true) /\ (bit m 2 = true -> bit (stepm m) 3 = true)
  /\ (forall t, bit m 1 = true -> bit (m2 m t) 2 = true) /\ (forall t, bit m 2 = true -> bit (m2 m t) 3 = true)
  /\ (forall t, bit (m2 m t) 1 = true)
  /\ (forall b4, WF m = true -> conv_ok m b4 = true -> m = 0 \/ m = 2 \/ m = 4 \/ m = 8).
Proof.
  intros m Hm.
  pose (P := fun m =>
    WF (stepm m) && allb (fun t => WF (m2 m t))
    && allb (fun c1 => allb (fun c2 => allb (fun c3 => allb (fun c4 => implb (WF m && consb m c1 c2 c3) (consb (stepm m) c2 c3 c4)))))
    && allb (fun c1 => allb (fun c2 => allb (fun c3 => allb (fun c4 => implb (WF m && consb m c1 c2 c3) (consb (m2 m c4) c2 c3 c4)))))
    && implb (bit m 1) (bit (stepm m) 2) && implb (bit m 2) (bit (stepm m) 3)
    && allb (fun t => implb (bit m 1) (bit (m2 m t) 2)) && allb (fun t => implb (bit m 2) (bit (m2 m t) 3))
    && allb (fun t => bit (m2 m t) 1)
    && implb (WF m && (m / 2 <=? 4) && negb (m / 2 =? 3)) ((m =? 0) || (m =? 2) || (m =? 4) || (m =? 8))).
  assert (S : forallb P (upto 256) = true) by (vm_compute; reflexivity).
  pose proof (sweep256 P S m Hm) as H. unfold P in H. clear S P.
  do 9 (apply andb_prop in H; destruct H as [H ?]).
  repeat split.
  - exact H.
  - intro t. match goal with A : allb (fun t => WF _) = true |- _ => exact (allb_spec _ A t) end.
  - intros c1 c2 c3 c4 W C.
    match goal with A : allb (fun c1 => allb (fun c2 => allb (fun c3 => allb (fun c4 => implb (WF m && _) (consb (stepm m) _ _ _))))) = true |- _ =>
      pose proof (allb_spec _ (allb_spec _ (allb_spec _ (allb_spec _ A c1) c2) c3) c4) as Q end.
    cbv beta in Q. rewrite W, C in Q. exact Q.
  - intros c1 c2 c3 c4 W C.
    match goal with A : allb (fun c1 => allb (fun c2 => allb (fun c3 => allb (fun c4 => implb (WF m && _) (consb (m2 m _) _ _ _))))) = true |- _ =>
      pose proof (allb_spec _ (allb_spec _ (allb_spec _ (allb_spec _ A c1) c2) c3) c4) as Q end.
    cbv beta in Q. rewrite W, C in Q. exact Q.
  - intro B. match goal with A : implb (bit m 1) (bit (stepm m) 2) = true |- _ => rewrite B in A; exact A end.
  - intro B. match goal with A : implb (bit m 2) (bit (stepm m) 3) = true |- _ => rewrite B in A; exact A end.
  - intros t B. match goal with A : allb (fun t => implb (bit m 1) _) = true |- _ => pose proof (allb_spec _ A t) as Q end. cbv beta in Q. rewrite B in Q. exact Q.
  - intros t B. match goal with A : allb (fun t => implb (bit m 2) _) = true |- _ => pose proof (allb_spec _ A t) as Q end. cbv beta in Q. rewrite B in Q. exact Q.
  - intro t. match goal with A : allb (fun t => bit (m2 m t) 1) = true |- _ => exact (allb_spec _ A t) end.
  - intros b4 W CK. unfold conv_ok in CK.
    match goal with A : implb (WF m && _ && _) _ = true |- _ => rename A into Q end.
    rewrite W in Q. apply andb_prop in CK. destruct CK as [CK C3]. apply andb_prop in CK. destruct CK as [_ C2].
    rewrite C2, C3 in Q. cbn [andb implb] in Q. lia.
Qed.

Lemma x86_out_ok d : bytes_ok (x86_out d).
Proof. unfold x86_out, bytes_ok, byte_ok. repeat constructor; try lia. destruct (_ =? 1); lia. Qed.

Lemma go'_props enc : forall n l m pos, (length l <= n)%nat -> bytes_ok l ->
  let o := go' enc m pos l in length o = length l /\ bytes_ok o /\ nth 0 o 0 = nth 0 l 0.
Proof.
  induction n as [|n IH]; intros l m pos Hn Hl; cbv zeta.
  - destruct l; [split; [reflexivity|split; [exact Hl|reflexivity]]|cbn [length] in Hn; lia].
  - destruct l as [|b [|b1 [|b2 [|b3 [|b4 r]]]]]; try (split; [reflexivity|split; [exact Hl|reflexivity]]).
    rewrite go'_unfold. cbv zeta. cbn [length] in Hn.
    inversion Hl as [|? ? Hb Hl1]; subst.
    assert (Hr : bytes_ok r) by (do 4 (inversion Hl1 as [|? ? ? Hl1']; subst; clear Hl1; rename Hl1' into Hl1); exact Hl1).
    destruct (negb (is_cand b)).
    + destruct (IH (b1 :: b2 :: b3 :: b4 :: r) (stepm m) (w32 (pos + 1)) ltac:(cbn [length]; lia) Hl1) as (L & O & _).
      split; [cbn [length] in *; lia|split; [constructor; assumption|reflexivity]].
    + destruct (conv_ok m b4).
      * destruct (IH r 0 (w32 (pos + 5)) ltac:(lia) Hr) as (L & O & _).
        split; [cbn [length app x86_out]; rewrite L; reflexivity|split; [|reflexivity]].
        constructor; [exact Hb|]. apply Forall_app. split; [apply x86_out_ok|exact O].
      * destruct (IH (b1 :: b2 :: b3 :: b4 :: r) (m2 m (test86 b4)) (w32 (pos + 1)) ltac:(cbn [length]; lia) Hl1) as (L & O & _).
        unfold m2 in L, O.
        split; [cbn [length] in *; lia|split; [constructor; assumption|reflexivity]].
Qed.

Lemma Cons_step m b rest : WF m = true -> Cons m (b :: rest) -> Cons (stepm m) rest.
Proof.
  intros W C. unfold Cons in *. cbn [nth] in C.
  destruct (mask_facts m (WF_lt m W)) as (_ & _ & F2 & _).
  exact (F2 _ _ _ (test86 (nth 3 rest 0)) W C).
Qed.
Lemma Cons_m2 m b rest : WF m = true -> Cons m (b :: rest) -> Cons (m2 m (test86 (nth 3 rest 0))) rest.
Proof.
  intros W C. unfold Cons in *. cbn [nth] in C.
  destruct (mask_facts m (WF_lt m W)) as (_ & _ & _ & F3 & _).
  exact (F3 _ _ _ (test86 (nth 3 rest 0)) W C).
Qed.
Lemma Cons_0 l : Cons 0 l.
Proof. unfold Cons. reflexivity. Qed.
Lemma Cons_2 l : Cons 2 l -> test86 (nth 3 l 0) = false.
Proof. unfold Cons. destruct (test86 (nth 3 l 0)); [intro H; vm_compute in H; discriminate|reflexivity]. Qed.
Lemma Cons_4 l : Cons 4 l -> test86 (nth 2 l 0) = false.
Proof. unfold Cons. destruct (test86 (nth 2 l 0)); [intro H; vm_compute in H; destruct (test86 (nth 3 l 0)); discriminate|reflexivity]. Qed.
Lemma Cons_8 l : Cons 8 l -> test86 (nth 1 l 0) = false.
Proof. unfold Cons. destruct (test86 (nth 1 l 0)); [intro H; vm_compute in H; destruct (test86 (nth 3 l 0)); destruct (test86 (nth 2 l 0)); discriminate|reflexivity]. Qed.

Lemma src_bytes b1 b2 b3 b4 : byte_ok b1 -> byte_ok b2 -> byte_ok b3 -> byte_ok b4 ->
  bytek 65536 (x86_src b1 b2 b3 b4) = b3 /\ bytek 256 (x86_src b1 b2 b3 b4) = b2 /\ bytek 1 (x86_src b1 b2 b3 b4) = b1
  /\ x86_src b1 b2 b3 b4 < 4294967296.
Proof. unfold byte_ok, bytek, x86_src. intros. lia. Qed.

Lemma mparams_of m : m = 2 \/ m = 4 \/ m = 8 -> exists K S, mparams m K S.
Proof. intros [-> | [-> | ->]]; [exists 16777216, 65536|exists 65536, 256|exists 256, 1]; unfold mparams; tauto. Qed.

(** (K) what the mask says about the bytes ahead stays true in the encoder's output *)
Lemma class_kept : forall n l m pos, (length l <= n)%nat -> WF m = true -> Cons m l -> bytes_ok l -> pos < 4294967296 ->
  let o := go' true m pos l in
  (bit m 1 = true -> test86 (nth 3 o 0) = test86 (nth 3 l 0))
  /\ (bit m 2 = true -> test86 (nth 2 o 0) = test86 (nth 2 l 0))
  /\ (bit m 3 = true -> test86 (nth 1 o 0) = test86 (nth 1 l 0)).
Proof.
  induction n as [|n IH]; intros l m pos Hn W C Hl Hpos; cbv zeta.
  - destruct l; [repeat split; reflexivity|cbn [length] in Hn; lia].
  - destruct l as [|b [|b1 [|b2 [|b3 [|b4 r]]]]]; try (repeat split; reflexivity).
    rewrite go'_unfold. cbv zeta. cbn [length] in Hn.
    set (rest := b1 :: b2 :: b3 :: b4 :: r) in *.
    assert (Hrest : bytes_ok rest) by (inversion Hl; assumption).
    assert (Hp1 : w32 (pos + 1) < 4294967296) by (unfold w32; lia).
    destruct (mask_facts m (WF_lt m W)) as (W1 & W2 & _ & _ & B12 & B23 & B12' & B23' & B1' & CV).
    assert (STEP : forall m', WF m' = true -> Cons m' rest ->
              (bit m 1 = true -> bit m' 2 = true) -> (bit m 2 = true -> bit m' 3 = true) ->
              let o' := go' true m' (w32 (pos + 1)) rest in
              (bit m 1 = true -> test86 (nth 3 (b :: o') 0) = test86 (nth 3 (b :: rest) 0))
              /\ (bit m 2 = true -> test86 (nth 2 (b :: o') 0) = test86 (nth 2 (b :: rest) 0))
              /\ (bit m 3 = true -> test86 (nth 1 (b :: o') 0) = test86 (nth 1 (b :: rest) 0))).
    { intros m' W' C' I12 I23. cbv zeta.
      destruct (IH rest m' (w32 (pos + 1)) ltac:(subst rest; cbn [length]; lia) W' C' Hrest Hp1) as (_ & K2 & K3).
      destruct (go'_props true (length rest) rest m' (w32 (pos + 1)) (le_n _) Hrest) as (_ & _ & H0).
      cbv zeta in K2, K3, H0. cbn [nth].
      repeat split.
      - intro B. apply K2, I12, B.
      - intro B. apply K3, I23, B.
      - intro B. rewrite H0. reflexivity. }
    destruct (negb (is_cand b)).
    + apply STEP; [exact W1|apply (Cons_step m b rest W C)|exact B12|exact B23].
    + destruct (conv_ok m b4) eqn:CK.
      * (* converted: at most one pending candidate, and it saw a byte that is neither 00 nor FF *)
        assert (Hb : byte_ok b1 /\ byte_ok b2 /\ byte_ok b3 /\ byte_ok b4).
        { subst rest. inversion Hrest as [|? ? X1 R1]; subst. inversion R1 as [|? ? X2 R2]; subst.
          inversion R2 as [|? ? X3 R3]; subst. inversion R3 as [|? ? X4 R4]; subst. tauto. }
        destruct Hb as (X1 & X2 & X3 & X4).
        destruct (src_bytes b1 b2 b3 b4 X1 X2 X3 X4) as (S3 & S2 & S1 & SL).
        assert (Hpc : w32 (pos + 5) < 4294967296) by (unfold w32; lia).
        set (src := x86_src b1 b2 b3 b4) in *. set (pc := w32 (pos + 5)) in *.
        destruct (CV b4 W CK) as [-> | [-> | [-> | ->]]].
        -- repeat split; intro B; vm_compute in B; discriminate.
        -- pose proof (Cons_2 _ C) as T. cbn [nth] in T.
           assert (MP : mparams 2 16777216 65536) by (unfold mparams; tauto).
           destruct (inner_enc 2 16777216 65536 src pc MP SL Hpc ltac:(rewrite S3; exact T)) as (R & _ & _).
           repeat split; intro B; try (vm_compute in B; discriminate).
           cbn [nth x86_out app]. cbn [nth] in T. rewrite T. exact R.
        -- pose proof (Cons_4 _ C) as T. cbn [nth] in T.
           assert (MP : mparams 4 65536 256) by (unfold mparams; tauto).
           destruct (inner_enc 4 65536 256 src pc MP SL Hpc ltac:(rewrite S2; exact T)) as (R & _ & _).
           repeat split; intro B; try (vm_compute in B; discriminate).
           cbn [nth x86_out app]. rewrite T. exact R.
        -- pose proof (Cons_8 _ C) as T. cbn [nth] in T.
           assert (MP : mparams 8 256 1) by (unfold mparams; tauto).
           destruct (inner_enc 8 256 1 src pc MP SL Hpc ltac:(rewrite S1; exact T)) as (R & _ & _).
           repeat split; intro B; try (vm_compute in B; discriminate).
           cbn [nth x86_out app]. rewrite T. unfold bytek in R. rewrite N.div_1_r in R. exact R.
      * fold (m2 m (test86 b4)).
        apply STEP; [apply W2|exact (Cons_m2 m b rest W C)|apply B12'|apply B23'].
Qed.

(** the decoder finds, in the encoder's output, the same picture of the bytes ahead *)
Lemma consb_cong m c1 c2 c3 e1 e2 e3 :
  (bit m 1 = true -> e3 = c3) -> (bit m 2 = true -> e2 = c2) -> (bit m 3 = true -> e1 = c1) ->
  consb m e1 e2 e3 = consb m c1 c2 c3.
Proof.
  intros H3 H2 H1. unfold consb.
  destruct (bit m 1) eqn:B1; destruct (bit m 2) eqn:B2; destruct (bit m 3) eqn:B3;
    try rewrite (H3 eq_refl); try rewrite (H2 eq_refl); try rewrite (H1 eq_refl); reflexivity.
Qed.

Lemma Cons_out n l m pos : (length l <= n)%nat -> WF m = true -> Cons m l -> bytes_ok l -> pos < 4294967296 ->
  Cons m (go' true m pos l).
Proof.
  intros Hn W C Hl Hp. destruct (class_kept n l m pos Hn W C Hl Hp) as (K1 & K2 & K3). cbv zeta in K1, K2, K3.
  unfold Cons in *. rewrite (consb_cong m _ _ _ _ _ _ K1 K2 K3). exact C.
Qed.

Lemma out_mod25 d : d < 4294967296 ->
  match x86_out d with
  | [x1; x2; x3; x4] => x86_src x1 x2 x3 x4 mod 33554432 = d mod 33554432 /\ x86_src x1 x2 x3 x4 < 4294967296 /\ test86 x4 = true
                        /\ byte_ok x1 /\ byte_ok x2 /\ byte_ok x3 /\ byte_ok x4
  | _ => False
  end.
Proof.
  intro H. unfold x86_out, x86_src, byte_ok, test86. destruct (d / 16777216 mod 2 =? 1) eqn:E; repeat split; try lia.
Qed.

Lemma out_of_mod25 D b1 b2 b3 b4 : byte_ok b1 -> byte_ok b2 -> byte_ok b3 -> test86 b4 = true ->
  D mod 33554432 = x86_src b1 b2 b3 b4 mod 33554432 -> x86_out D = [b1; b2; b3; b4].
Proof.
  unfold byte_ok, test86, x86_src, x86_out. intros H1 H2 H3 H4 E.
  assert (B4 : b4 = 0 \/ b4 = 255) by lia.
  assert (Q1 : D mod 256 = b1) by (destruct B4 as [-> | ->]; lia).
  assert (Q2 : D / 256 mod 256 = b2) by (destruct B4 as [-> | ->]; lia).
  assert (Q3 : D / 65536 mod 256 = b3) by (destruct B4 as [-> | ->]; lia).
  assert (Q4 : (if D / 16777216 mod 2 =? 1 then 255 else 0) = b4) by (destruct B4 as [-> | ->]; destruct (D / 16777216 mod 2 =? 1) eqn:E4; lia).
  rewrite Q1, Q2, Q3, Q4. reflexivity.
Qed.

Lemma conv_ok_class m a b : test86 a = test86 b -> conv_ok m a = conv_ok m b.
Proof. intro H. unfold conv_ok. rewrite H. reflexivity. Qed.

Lemma four_more (o rest : list N) : length o = length rest -> (4 <= length rest)%nat ->
  exists o1 o2 o3 o4 r', o = o1 :: o2 :: o3 :: o4 :: r'.
Proof.
  intros L H. destruct o as [|o1 [|o2 [|o3 [|o4 r']]]]; cbn [length] in L; try lia.
  do 5 eexists. reflexivity.
Qed.

(** (R) the decoder undoes the encoder *)
Lemma go'_rt : forall n l m pos, (length l <= n)%nat -> WF m = true -> Cons m l -> bytes_ok l -> pos < 4294967296 ->
  go' false m pos (go' true m pos l) = l.
Proof.
  induction n as [|n IH]; intros l m pos Hn W C Hl Hpos.
  - destruct l; [reflexivity|cbn [length] in Hn; lia].
  - destruct l as [|b [|b1 [|b2 [|b3 [|b4 r]]]]]; try reflexivity.
    rewrite (go'_unfold true). cbv zeta. cbn [length] in Hn.
    set (rest := b1 :: b2 :: b3 :: b4 :: r) in *.
    assert (Hrest : bytes_ok rest) by (inversion Hl; assumption).
    assert (Lrest : (4 <= length rest)%nat) by (subst rest; cbn [length]; lia).
    assert (Hp1 : w32 (pos + 1) < 4294967296) by (unfold w32; lia).
    assert (Hp5 : w32 (pos + 5) < 4294967296) by (unfold w32; lia).
    destruct (mask_facts m (WF_lt m W)) as (W1 & W2 & _ & _ & _ & _ & _ & _ & B1' & CV).
    assert (STEP : forall m', WF m' = true -> Cons m' rest ->
              forall o', o' = go' true m' (w32 (pos + 1)) rest ->
              go' false m' (w32 (pos + 1)) o' = rest).
    { intros m' W' C' o' ->. apply IH; [subst rest; cbn [length]; lia|exact W'|exact C'|exact Hrest|exact Hp1]. }
    destruct (is_cand b) eqn:EC; cbn [negb].
    + destruct (conv_ok m b4) eqn:CK.
      * (* converted *)
        assert (Hb : byte_ok b1 /\ byte_ok b2 /\ byte_ok b3 /\ byte_ok b4 /\ bytes_ok r).
        { subst rest. inversion Hrest as [|? ? X1 R1]; subst. inversion R1 as [|? ? X2 R2]; subst.
          inversion R2 as [|? ? X3 R3]; subst. inversion R3 as [|? ? X4 R4]; subst. tauto. }
        destruct Hb as (X1 & X2 & X3 & X4 & Hr).
        destruct (src_bytes b1 b2 b3 b4 X1 X2 X3 X4) as (S3 & S2 & S1 & SL).
        set (src := x86_src b1 b2 b3 b4) in *. set (pc := w32 (pos + 5)) in *.
        set (R := x86_inner tb 16 true m pc src).
        assert (T4 : test86 b4 = true) by (unfold conv_ok in CK; destruct (test86 b4); [reflexivity|discriminate]).
        assert (MC : forall y, test86 y = true -> conv_ok m y = true).
        { intros y Ty. rewrite (conv_ok_class m y b4) by (rewrite Ty, T4; reflexivity). exact CK. }
        (* the encoder's result, its range, and what the decoder makes of it modulo 2^25 *)
        assert (RD : R < 4294967296 /\ forall x, x < 4294967296 -> x mod 33554432 = R mod 33554432 ->
                       (x86_inner tb 16 false m pc x) mod 33554432 = src mod 33554432).
        { destruct (CV b4 W CK) as [E | [E | [E | E]]]; subst m.
          - subst R. rewrite x86_inner_0. split; [unfold w32; lia|]. intros x Hx Ex. rewrite x86_inner_0.
            unfold sub32', w32 in *. apply undo_plain; assumption.
          - pose proof (Cons_2 _ C) as T. cbn [nth] in T.
            assert (MP : mparams 2 16777216 65536) by (unfold mparams; tauto).
            destruct (inner_enc 2 16777216 65536 src pc MP SL Hp5 ltac:(rewrite S3; exact T)) as (_ & RL & ER).
            split; [exact RL|]. intros x Hx Ex. apply (inner_dec 2 16777216 65536 src pc R x MP SL Hp5 Hx); [rewrite S3; exact T|exact ER|exact Ex].
          - pose proof (Cons_4 _ C) as T. cbn [nth] in T.
            assert (MP : mparams 4 65536 256) by (unfold mparams; tauto).
            destruct (inner_enc 4 65536 256 src pc MP SL Hp5 ltac:(rewrite S2; exact T)) as (_ & RL & ER).
            split; [exact RL|]. intros x Hx Ex. apply (inner_dec 4 65536 256 src pc R x MP SL Hp5 Hx); [rewrite S2; exact T|exact ER|exact Ex].
          - pose proof (Cons_8 _ C) as T. cbn [nth] in T.
            assert (MP : mparams 8 256 1) by (unfold mparams; tauto).
            destruct (inner_enc 8 256 1 src pc MP SL Hp5 ltac:(rewrite S1; exact T)) as (_ & RL & ER).
            split; [exact RL|]. intros x Hx Ex. apply (inner_dec 8 256 1 src pc R x MP SL Hp5 Hx); [rewrite S1; exact T|exact ER|exact Ex]. }
        destruct RD as [RL RD].
        pose proof (out_mod25 R RL) as OM.
        destruct (x86_out R) as [|x1 [|x2 [|x3 [|x4 [|? ?]]]]] eqn:EO; try contradiction.
        destruct OM as (OE & OL & OT & _).
        cbn [app]. rewrite go'_unfold. cbv zeta. rewrite EC. cbn [negb]. rewrite (MC x4 OT).
        fold pc. rewrite (out_of_mod25 _ b1 b2 b3 b4 X1 X2 X3 T4 (RD _ OL OE)).
        cbn [app]. subst rest. do 5 f_equal.
        apply IH; [lia|reflexivity|apply Cons_0|exact Hr|exact Hp5].
      * (* candidate left alone: the decoder must see a byte of the same class four positions ahead *)
        fold (m2 m (test86 b4)).
        set (m' := m2 m (test86 b4)).
        assert (W' : WF m' = true) by apply W2.
        assert (C' : Cons m' rest) by (exact (Cons_m2 m b rest W C)).
        destruct (go'_props true (length rest) rest m' (w32 (pos + 1)) (le_n _) Hrest) as (L & _ & _). cbv zeta in L.
        destruct (class_kept (length rest) rest m' (w32 (pos + 1)) (le_n _) W' C' Hrest Hp1) as (K1 & _ & _). cbv zeta in K1.
        specialize (K1 (B1' (test86 b4))).
        pose proof (STEP m' W' C' _ eq_refl) as ST.
        destruct (four_more _ _ L Lrest) as (o1 & o2 & o3 & o4 & r' & EO).
        rewrite EO in K1, ST |- *. cbn [nth] in K1. subst rest. cbn [nth] in K1.
        rewrite go'_unfold. cbv zeta. rewrite EC. cbn [negb].
        rewrite (conv_ok_class m o4 b4 K1), CK, K1. fold (m2 m (test86 b4)). fold m'.
        rewrite ST. reflexivity.
    + (* an ordinary byte *)
      assert (C' : Cons (stepm m) rest) by (exact (Cons_step m b rest W C)).
      destruct (go'_props true (length rest) rest (stepm m) (w32 (pos + 1)) (le_n _) Hrest) as (L & _ & _). cbv zeta in L.
      pose proof (STEP (stepm m) W1 C' _ eq_refl) as ST.
      destruct (four_more _ _ L Lrest) as (o1 & o2 & o3 & o4 & r' & EO).
      rewrite EO in ST |- *.
      rewrite go'_unfold. cbv zeta. rewrite EC. cbn [negb]. rewrite ST. reflexivity.
Qed.

(** ---------- the filter function itself, one call from the fresh state (prev_mask = 0) ---------- *)
Lemma x86_code_go' enc pp start l : bytes_ok l -> pp < 4294967296 -> 5 + lenN l < 4294967296 ->
  xo (x86_code tb enc 0 pp start l) = go' enc 0 (w32 start) l.
Proof.
  intros Hl Hpp Hlen. unfold x86_code.
  destruct (lenN l <? 5) eqn:E.
  - cbn [xo]. symmetry. apply go'_short. unfold lenN in E. lia.
  - cbv zeta.
    set (now := w32 start). assert (Hnow : now < 4294967296) by (subst now; unfold w32; lia).
    set (pp' := if 5 <? sub32' now pp then sub32' now 5 else pp).
    assert (Hpp' : pp' < 4294967296) by (subst pp'; destruct (5 <? sub32' now pp); [unfold sub32', w32; lia|exact Hpp]).
    assert (Hd : sub32' now pp' <= 5).
    { subst pp'. destruct (5 <? sub32' now pp) eqn:E5; [unfold sub32', w32 in *; lia|lia]. }
    rewrite (go_eq enc (length l) l 0 pp' now (sub32' now pp') (le_n _)); [rewrite eff_0; reflexivity|lia|exact Hnow|exact Hpp'|reflexivity|lia].
Qed.

Theorem x86_roundtrip start pp l : bytes_ok l -> pp < 4294967296 -> 5 + lenN l < 4294967296 ->
  xo (x86_code tb false 0 pp start (xo (x86_code tb true 0 pp start l))) = l.
Proof.
  intros Hl Hpp Hlen.
  rewrite (x86_code_go' true pp start l Hl Hpp Hlen).
  destruct (go'_props true (length l) l 0 (w32 start) (le_n _) Hl) as (L & O & _). cbv zeta in L, O.
  rewrite (x86_code_go' false pp start _ O Hpp) by (unfold lenN in *; rewrite L; exact Hlen).
  apply go'_rt with (n := length l); [lia|reflexivity|apply Cons_0|exact Hl|unfold w32; lia].
Qed.

Theorem x86_length enc start pp l : bytes_ok l -> pp < 4294967296 -> 5 + lenN l < 4294967296 ->
  length (xo (x86_code tb enc 0 pp start l)) = length l.
Proof.
  intros Hl Hpp Hlen. rewrite (x86_code_go' enc pp start l Hl Hpp Hlen).
  apply (go'_props enc (length l) l 0 (w32 start) (le_n _) Hl).
Qed.

(** the same from any filter state (prev_mask, prev_pos) whose mask, brought forward to the current position, is
    consistent with the bytes ahead - the situation of a later call that continues where an earlier one stopped *)
Theorem x86_go_roundtrip_consistent pm pp pos l : bytes_ok l -> pm < 256 -> pos < 4294967296 -> pp < 4294967296 ->
  sub32' pos pp + lenN l < 4294967296 ->
  WF (eff pm (sub32' pos pp)) = true -> Cons (eff pm (sub32' pos pp)) l ->
  xo (x86_go tb false pm pp pos (xo (x86_go tb true pm pp pos l))) = l.
Proof.
  intros Hl Hpm Hpos Hpp Hlen W C.
  rewrite (go_eq true (length l) l pm pp pos (sub32' pos pp) (le_n _) Hpm Hpos Hpp eq_refl Hlen).
  destruct (go'_props true (length l) l (eff pm (sub32' pos pp)) pos (le_n _) Hl) as (L & O & _). cbv zeta in L, O.
  rewrite (go_eq false (length l) _ pm pp pos (sub32' pos pp)); [|rewrite L; apply le_n|exact Hpm|exact Hpos|exact Hpp|reflexivity|unfold lenN in *; rewrite L; exact Hlen].
  apply go'_rt with (n := length l); [lia|exact W|exact C|exact Hl|exact Hpos].
Qed.
