(** C19 — xz naming, overwrite protection and metadata handling.  The
    naming rules, the permission computation and the exit-status lattice are
    modelled (XzNames.v) and tied to the xz binary by CLI runs in scratch
    directories.  Proved for all names / modes / event sequences of the model. *)
From XZ Require Import Base XzNames XzNamesProofs.
Local Open Scope N_scope.

Theorem names_invertible_default_xz : forall n t, proper n ->
  compressed_name F_XZ None n = Some t -> uncompressed_name false None t = Some n.
Proof. exact default_names_invertible_xz. Qed.
Print Assumptions names_invertible_default_xz.

Theorem names_invertible_default_lzma : forall n t, proper n ->
  compressed_name F_LZMA None n = Some t -> uncompressed_name false None t = Some n.
Proof. exact default_names_invertible_lzma. Qed.
Print Assumptions names_invertible_default_lzma.

Theorem names_invertible_custom_suffix : forall f s n t, proper n -> s <> [] ->
  compressed_name f (Some s) n = Some t -> no_builtin_match t ->
  uncompressed_name false (Some s) t = Some n /\ uncompressed_name true (Some s) t = Some n.
Proof. exact custom_names_invertible. Qed.
Print Assumptions names_invertible_custom_suffix.

Theorem already_suffixed_names_are_skipped : forall f custom n s,
  (In s (format_suffixes f) \/ custom = Some s) -> test_suffix s n <> None -> compressed_name f custom n = None.
Proof. exact already_suffixed_is_skipped. Qed.
Print Assumptions already_suffixed_names_are_skipped.

Theorem stripped_name_is_never_empty : forall s name p, test_suffix s name = Some p -> p <> [] /\ name = p ++ s.
Proof. exact test_suffix_some. Qed.
Print Assumptions stripped_name_is_never_empty.

Theorem target_mode_never_broader_than_source :
  forallb (fun m => let m := N.of_nat m in
     forallb (fun g => let d := dest_mode m g in
        (N.land d (N.lnot (N.land m 511) 12) =? 0) && (d <? 512)
        && (if g then d =? N.land m 511 else true)) [true; false]) (seq 0 4096) = true.
Proof. exact dest_mode_never_broader. Qed.
Print Assumptions target_mode_never_broader_than_source.

Theorem exit_status_is_the_documented_lattice : forall events no_warn, Forall (fun e => e = 1 \/ e = 2) events ->
  final_status events no_warn =
    if existsb (N.eqb 1) events then 1
    else if existsb (N.eqb 2) events then (if no_warn then 0 else 2) else 0.
Proof. exact exit_status_lattice. Qed.
Print Assumptions exit_status_is_the_documented_lattice.

(** the documented exception is real: a dot-less custom suffix can spell a built-in one *)
Example custom_suffix_exception :
  compressed_name F_XZ (Some [120; 122]) [97; 46] = Some [97; 46; 120; 122] /\
  uncompressed_name false (Some [120; 122]) [97; 46; 120; 122] = Some [97].
Proof. vm_compute. split; reflexivity. Qed.
