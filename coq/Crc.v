(** CRC32 / CRC64: the bit-at-a-time reflected definition (the standard),
    the table construction, the byte-table update, and the algebra
    (GF(2)-linearity) that relates them.  Anchors: src/liblzma/check/
    crc32_fast.c, crc64_fast.c, crc32_tablegen.c, crc_common.h. *)
From XZ Require Import Base.
Local Open Scope N_scope.

Definition poly32 : N := 0xEDB88320.
Definition poly64 : N := 0xC96C5795D7870F42.

Section CRC.
Variable poly : N.

(** one bit: the standard reflected LFSR step *)
Definition crc_step (c : N) : N :=
  if N.odd c then N.lxor (N.shiftr c 1) poly else N.shiftr c 1.

Definition steps (k : nat) (c : N) : N := Nat.iter k crc_step c.

(** absorb one message byte into the register *)
Definition crc_byte (c b : N) : N := steps 8 (N.lxor c b).

Definition crc_update (c : N) (data : list N) : N := fold_left crc_byte data c.

(** Table generation as in crc32_tablegen.c: T[0][b] = 8 steps of b;
    T[s][b] = (T[s-1][b] >> 8) xor T[0][T[s-1][b] & 0xFF]. *)
Definition table0 : list N := map (fun b => steps 8 (N.of_nat b)) (seq 0 256).
Definition t0 (i : N) : N := nth (N.to_nat i) table0 0.
Definition next_table (prev : list N) : list N :=
  map (fun v => N.lxor (N.shiftr v 8) (t0 (N.land v 255))) prev.
Fixpoint tables_from (prev : list N) (n : nat) : list (list N) :=
  match n with O => [] | S k => prev :: tables_from (next_table prev) k end.
Definition crc_tables (n : nat) := tables_from table0 n.

(** byte-at-a-time table update, as every table-driven loop does it *)
Definition crc_byte_tab (c b : N) : N :=
  N.lxor (t0 (N.land (N.lxor c b) 255)) (N.shiftr c 8).

Definition crc_update_tab (c : N) (data : list N) : N := fold_left crc_byte_tab data c.

End CRC.

(** The public functions: pre- and post-inversion, chaining through the
    [init] argument exactly as lzma_crc32(buf, size, crc). *)
Definition crc32 (data : list N) (init : N) : N :=
  not32 (crc_update poly32 (not32 init) data).
Definition crc64 (data : list N) (init : N) : N :=
  not64 (crc_update poly64 (not64 init) data).
Definition crc32_tab (data : list N) (init : N) : N :=
  not32 (crc_update_tab poly32 (not32 init) data).
Definition crc64_tab (data : list N) (init : N) : N :=
  not64 (crc_update_tab poly64 (not64 init) data).
