(** .xz container encoder (model of stream_encoder.c / block_encoder.c /
    block_header_encoder.c / index_encoder.c / stream_flags_encoder.c for the
    plain LZMA2 chain) and the proof that the container specification (Xz.v)
    decodes what it writes. *)
From XZ Require Import Base Crc Sha256 Bcj Lzma Lzma2 Xz VliProofs C05Lemmas LzmaRun Lzma2Enc.
Require Import ZifyBool ZifyN ZifyNat.
Local Open Scope N_scope.

(** ---------- little helpers ---------- *)
Lemma le_val_le_bytes n : forall v, v < 256 ^ N.of_nat n -> le_val (le_bytes n v) = v.
Proof.
  induction n as [|n IH]; intros v Hv; cbn [le_bytes le_val].
  - change (N.of_nat 0) with 0 in Hv. rewrite N.pow_0_r in Hv. lia.
  - rewrite Nat2N.inj_succ, N.pow_succ_r' in Hv.
    rewrite IH by (apply N.div_lt_upper_bound; lia).
    pose proof (N.div_mod v 256 ltac:(lia)). lia.
Qed.

Lemma le_bytes_ok n : forall v, bytes_ok (le_bytes n v).
Proof.
  induction n as [|n IH]; intro v; cbn [le_bytes]; constructor; [|apply IH].
  unfold byte_ok. apply N.mod_lt. lia.
Qed.

Lemma le_bytes_length n : forall v, length (le_bytes n v) = n.
Proof. induction n as [|n IH]; intro v; cbn [le_bytes length]; [reflexivity|rewrite IH; reflexivity]. Qed.

Definition crc_field (l : list N) : list N := le_bytes 4 (crc32 l 0).

Lemma crc_field_ok l : bytes_ok l -> le_val (crc_field l) = crc32 l 0.
Proof.
  intro H. unfold crc_field. apply le_val_le_bytes.
  change (256 ^ N.of_nat 4) with (2 ^ 32). apply crc32_lt; [exact H|cbn; lia].
Qed.

Lemma list_eqb_refl l : list_eqb l l = true.
Proof. induction l as [|a l IH]; cbn [list_eqb]; [reflexivity|rewrite N.eqb_refl, IH; reflexivity]. Qed.

(** ---------- Stream Header / Block Header (single LZMA2 filter, no size fields) ---------- *)
Definition stream_header_bytes (check : N) : list N :=
  HEADER_MAGIC ++ [0; check] ++ crc_field [0; check].

(** [dl] = Some (distance - 1): a Delta filter in front of LZMA2 *)
Definition block_header_body (dl : option N) (db : N) : list N :=
  match dl with
  | None => [2; 0; 0x21; 1; db; 0; 0; 0]
  | Some dm1 => [2; 1; 3; 1; dm1; 0x21; 1; db]
  end.
Definition block_header_bytes (dl : option N) (db : N) : list N :=
  block_header_body dl db ++ crc_field (block_header_body dl db).
Definition chain_of (dl : option N) (d : N) : list filter :=
  match dl with None => [F_LZMA2 d] | Some dm1 => [F_DELTA (dm1 + 1); F_LZMA2 d] end.
Definition dl_ok (dl : option N) : Prop := match dl with None => True | Some dm1 => dm1 <= 255 end.
Definition check4 : list N := [0; 1; 4; 10].

Definition hdr_good (c : N) (dl : option N) (b : N) : bool :=
  match lzma2_dict_of_byte b, block_header_decode c (block_header_bytes dl b) with
  | Some d, Ok bh => (bh_size bh =? 12) && (match bh_comp bh with None => true | _ => false end)
                     && (match bh_uncomp bh with None => true | _ => false end)
                     && (match dl, bh_filters bh with
                         | None, [F_LZMA2 d'] => d' =? d
                         | Some dm1, [F_DELTA dist; F_LZMA2 d'] => (d' =? d) && (dist =? dm1 + 1)
                         | _, _ => false
                         end)
  | _, _ => false
  end.

(** every dictionary-size byte 0..40, every Delta distance, the four Check IDs: the header decodes to the chain *)
Lemma block_header_roundtrip check dl db : In check check4 -> dl_ok dl -> db <= 40 ->
  exists d, lzma2_dict_of_byte db = Some d /\
    block_header_decode check (block_header_bytes dl db) =
    Ok {| bh_size := 12; bh_comp := None; bh_uncomp := None; bh_filters := chain_of dl d |}.
Proof.
  intros Hc Hdl Hd.
  assert (H : forallb (fun c => forallb (fun b =>
                hdr_good c None b && forallb (fun m => hdr_good c (Some m) b) (map N.of_nat (seq 0 256)))
              (map N.of_nat (seq 0 41))) check4 = true) by (vm_compute; reflexivity).
  rewrite forallb_forall in H. specialize (H check Hc). rewrite forallb_forall in H.
  assert (Ib : In db (map N.of_nat (seq 0 41))).
  { apply in_map_iff. exists (N.to_nat db). split; [lia|apply in_seq; lia]. }
  specialize (H db Ib). apply andb_true_iff in H. destruct H as [HN HS].
  assert (G : hdr_good check dl db = true).
  { destruct dl as [m|]; [|exact HN]. rewrite forallb_forall in HS. apply HS.
    apply in_map_iff. exists (N.to_nat m). cbn in Hdl. split; [lia|apply in_seq; lia]. }
  unfold hdr_good in G.
  destruct (lzma2_dict_of_byte db) as [d|]; [|discriminate G].
  destruct (block_header_decode check (block_header_bytes dl db)) as [bh|e]; [|discriminate G].
  exists d. split; [reflexivity|].
  destruct bh as [sz co un fs]. cbn [bh_size bh_comp bh_uncomp bh_filters] in G.
  apply andb_true_iff in G. destruct G as [G G4]. apply andb_true_iff in G. destruct G as [G G3].
  apply andb_true_iff in G. destruct G as [G1 G2]. apply N.eqb_eq in G1.
  destruct co; [discriminate G2|]. destruct un; [discriminate G3|].
  destruct dl as [m|]; cbn [chain_of].
  - destruct fs as [|[?|dist|? ?] [|[d'|?|? ?] [|? ?]]]; try discriminate G4.
    apply andb_true_iff in G4. destruct G4 as [A B]. apply N.eqb_eq in A. apply N.eqb_eq in B. subst. reflexivity.
  - destruct fs as [|[d'| |] [|? ?]]; try discriminate G4. apply N.eqb_eq in G4. subst. reflexivity.
Qed.

(** ---------- Blocks ---------- *)
Definition pad4 (n : N) : list N := repeat 0 (N.to_nat ((4 - n mod 4) mod 4)).

Lemma all_zero_repeat k : all_zero (repeat 0 k) = true.
Proof. induction k as [|k IH]; [reflexivity|]. cbn [repeat all_zero forallb]. exact IH. Qed.

Lemma take_app (a r : list N) n : lenN a = n -> take n (a ++ r) = Some (a, r).
Proof.
  intro H. unfold take. unfold lenN in *. rewrite app_length.
  replace (N.of_nat (length a + length r) <? n) with false by (symmetry; apply N.ltb_ge; lia).
  subst n. rewrite Nat2N.id, firstn_app_exact, skipn_app_exact. reflexivity.
Qed.

(** a SHA-256 value has 32 bytes *)
Lemma transform_len K h b : length h = 8%nat -> length (transform K h b) = 8%nat.
Proof. intro H. unfold transform. rewrite map_length, combine_length, H. reflexivity. Qed.
Lemma blocks_len K fuel : forall h bs, length h = 8%nat -> length (blocks K fuel h bs) = 8%nat.
Proof.
  induction fuel as [|f IH]; intros h bs H; cbn [blocks]; [exact H|].
  destruct bs; [exact H|]. apply IH. apply transform_len. exact H.
Qed.
Lemma flat_be4_len (l : list N) : length (flat_map (Base.be_bytes 4) l) = (4 * length l)%nat.
Proof.
  induction l as [|a l IH]; [reflexivity|]. cbn [flat_map]. rewrite app_length, IH.
  unfold Base.be_bytes. rewrite rev_length, le_bytes_length. cbn [length]. lia.
Qed.
Lemma sha256_length msg : length (sha256 msg) = 32%nat.
Proof.
  unfold sha256, sha256_from. rewrite flat_be4_len, blocks_len; [reflexivity|reflexivity].
Qed.

Definition check_ok (check : N) : Prop := check = 0 \/ check = 1 \/ check = 4 \/ check = 10.
Lemma check_ok_in check : check_ok check -> In check check4.
Proof. intros [H|[H|[H|H]]]; subst; cbn; auto. Qed.

Lemma check_value_length check data : check_ok check -> lenN (check_value check data) = check_size check.
Proof.
  intros [H|[H|[H|H]]]; subst check; unfold check_value, check_size, lenN; cbn [N.eqb Pos.eqb N.leb N.compare Pos.compare Pos.compare_cont];
    rewrite ?le_bytes_length, ?sha256_length; reflexivity.
Qed.

Lemma check_ok_supported check : check_ok check -> check_supported check = true /\ check < 16.
Proof. intros [H|[H|[H|H]]]; subst check; split; try reflexivity; lia. Qed.

Record blockspec := { b_delta : option N; b_db : N; b_chunks : list l2chunk }.
Definition s_init : l2 := norm (l2_init [] []).
Definition b_payload (b : blockspec) : list N := chunks_bytes s_init (b_chunks b) ++ [0].
Definition b_raw (b : blockspec) : list N := rev_append (l2out (chunks_final s_init (b_chunks b))) [].
(** what the Block holds: the LZMA2 expansion, through the Delta decoder if there is one *)
Definition b_data (b : blockspec) : list N :=
  match b_delta b with None => b_raw b | Some dm1 => delta_decode (dm1 + 1) (b_raw b) end.
Definition block_bytes (check : N) (b : blockspec) : list N :=
  block_header_bytes (b_delta b) (b_db b) ++ b_payload b ++ pad4 (lenN (b_payload b)) ++ check_value check (b_data b).
Definition block_unpadded (check : N) (b : blockspec) : N := 12 + lenN (b_payload b) + check_size check.

Section Blocks.
Variable fuel : positive.
Variable strict : bool.

Definition block_ok (b : blockspec) : Prop :=
  b_db b <= 40 /\ dl_ok (b_delta b) /\
  (forall d, lzma2_dict_of_byte (b_db b) = Some d ->
     chunks_ok (if strict then d else eff_dict d) fuel s_init (b_chunks b)) /\
  (length (b_chunks b) < Pos.to_nat fuel)%nat.

Lemma block_decode_encoded (x : xz) check b rest :
  check_ok check -> xcheck x = check -> block_ok b ->
  xin x = block_bytes check b ++ rest ->
  block_decode fuel strict x =
  {| xin := rest; xused := xused x + lenN (block_bytes check b);
     xout := b_data b :: xout x;
     xrecords := (block_unpadded check b, lenN (b_data b)) :: xrecords x;
     xcheck := check; xstatus := Running; xpartial := [] |}.
Proof.
  intros Hck Hxc [Hdb [Hdl [Hchunks Hfuel]]] Hin.
  destruct (check_ok_supported check Hck) as [Hsup Hc16].
  destruct (block_header_roundtrip check (b_delta b) (b_db b) (check_ok_in check Hck) Hdl Hdb) as [d [Ed Ehdr]].
  specialize (Hchunks d Ed).
  assert (Hfirst : exists t, block_bytes check b = 2 :: t).
  { unfold block_bytes, block_header_bytes, block_header_body. destruct (b_delta b); cbn [app]; eauto. }
  destruct Hfirst as [t0 Et0].
  unfold block_decode. rewrite Hin. rewrite Et0. cbn [app]. change (2 :: t0 ++ rest) with ((2 :: t0) ++ rest). rewrite <- Et0. change ((2 + 1) * 4) with 12.
  (* the header *)
  set (tail := b_payload b ++ pad4 (lenN (b_payload b)) ++ check_value check (b_data b)).
  assert (Etake : take 12 (block_bytes check b ++ rest) = Some (block_header_bytes (b_delta b) (b_db b), tail ++ rest)).
  { unfold block_bytes. fold tail. rewrite <- app_assoc.
    apply take_app. unfold block_header_bytes, block_header_body, crc_field, lenN. rewrite app_length, le_bytes_length.
    destruct (b_delta b); reflexivity. }
  rewrite Etake. rewrite Hxc, Ehdr. cbn [bh_filters bh_comp bh_uncomp].
  assert (Ecd : chain_dict (chain_of (b_delta b) d) = d) by (destruct (b_delta b); reflexivity).
  rewrite Ecd.
  (* the LZMA2 payload *)
  set (dictv := if strict then d else eff_dict d) in *.
  set (s0 := l2_init (tail ++ rest) []).
  assert (Hl2in : l2in s0 = chunks_bytes (norm s0) (b_chunks b) ++ 0 :: (pad4 (lenN (b_payload b)) ++ check_value check (b_data b) ++ rest)).
  { unfold s0. cbn [l2in l2_init]. unfold tail, b_payload. change (norm (l2_init (_ ++ rest) [])) with s_init.
    rewrite <- !app_assoc. reflexivity. }
  pose proof (lzma2_stream_roundtrip dictv fuel (b_chunks b) s0 _ eq_refl Hchunks Hl2in Hfuel) as RT.
  cbv zeta in RT. destruct RT as [R1 [R2 [R3 R4]]].
  change (norm s0) with s_init in R3, R4.
  set (r := l2_run dictv fuel s0) in *.
  rewrite R1. cbn [andb negb].
  assert (Eused : l2used r = lenN (b_payload b)).
  { rewrite R4. unfold s0, b_payload, lenN. cbn [l2used l2_init]. rewrite app_length. cbn [length]. lia. }
  rewrite R2, Eused.
  assert (Epad : take ((4 - lenN (b_payload b) mod 4) mod 4) (pad4 (lenN (b_payload b)) ++ check_value check (b_data b) ++ rest)
                 = Some (pad4 (lenN (b_payload b)), check_value check (b_data b) ++ rest)).
  { apply take_app. unfold pad4, lenN. rewrite repeat_length. lia. }
  rewrite Epad. unfold pad4 at 1. rewrite all_zero_repeat. cbn [negb].
  assert (Eout : unfilter (chain_of (b_delta b) d) (rev_append (l2out r) []) = b_data b).
  { unfold b_data, b_raw. rewrite R3. destruct (b_delta b); reflexivity. }
  rewrite Eout.
  rewrite (take_app _ rest _ (check_value_length check (b_data b) Hck)).
  rewrite Hsup, list_eqb_refl. cbn [andb negb].
  f_equal.
  - unfold block_bytes, block_header_bytes, crc_field, pad4, lenN.
    rewrite !app_length, le_bytes_length, repeat_length.
    pose proof (check_value_length check (b_data b) Hck) as CL. unfold lenN in CL.
    assert (length (block_header_body (b_delta b) (b_db b)) = 8%nat) by (unfold block_header_body; destruct (b_delta b); reflexivity).
    lia.
Qed.

End Blocks.

(** ---------- VLI facts needed for the Index ---------- *)
Lemma vli_encode_go_ok fuel : forall v, bytes_ok (vli_encode_go fuel v) /\ (0 < fuel -> vli_encode_go fuel v <> [])%nat.
Proof.
  induction fuel as [|fuel IH]; intro v; cbn [vli_encode_go].
  - split; [constructor|intro H; lia].
  - destruct (v <? 128) eqn:E.
    + apply N.ltb_lt in E. split; [repeat constructor; unfold byte_ok; lia|intros _; discriminate].
    + split; [|intros _; discriminate].
      constructor; [unfold byte_ok; pose proof (N.mod_lt v 128 ltac:(lia)); lia|apply IH].
Qed.
Lemma vli_encode_ok v : bytes_ok (vli_encode v).
Proof. apply vli_encode_go_ok. Qed.
Lemma vli_encode_nonempty v r : vli_encode v ++ r <> [].
Proof.
  destruct (vli_encode v) as [|a l] eqn:E; [|discriminate].
  exfalso. apply (proj2 (vli_encode_go_ok 9 v)); [lia|exact E].
Qed.

Lemma match_nonempty {A B} (l : list A) (a b : B) : l <> [] -> match l with [] => a | _ :: _ => b end = b.
Proof. destruct l; [intro H; contradiction|reflexivity]. Qed.

Definition rec_bytes (r : N * N) : list N := vli_encode (fst r) ++ vli_encode (snd r).
Definition rec_ok (r : N * N) : Prop := 5 <= fst r <= UNPADDED_MAX /\ snd r <= VLI_MAX.

Lemma records_decode_encoded recs : forall acc tail,
  Forall rec_ok recs ->
  records_decode (length recs) (flat_map rec_bytes recs ++ tail) acc = Ok (rev_append acc [] ++ recs, tail).
Proof.
  induction recs as [|[u v] recs IH]; intros acc tail Hok; cbn [length records_decode flat_map app].
  - rewrite app_nil_r. reflexivity.
  - inversion Hok as [|? ? [Hu Hv] Hrest]; subst. cbn [fst snd] in Hu, Hv.
    change (rec_bytes (u, v)) with (vli_encode u ++ vli_encode v). rewrite <- !app_assoc.
    rewrite (match_nonempty _ _ _ (vli_encode_nonempty u _)).
    rewrite vli_decode_encode by (unfold UNPADDED_MAX, VLI_MAX in *; lia).
    replace ((u <? 5) || (UNPADDED_MAX <? u)) with false
      by (symmetry; apply orb_false_iff; split; [apply N.ltb_ge|apply N.ltb_ge]; lia).
    rewrite (match_nonempty _ _ _ (vli_encode_nonempty v _)).
    rewrite vli_decode_encode by exact Hv.
    rewrite IH by exact Hrest. cbn [rev_append].
    f_equal. f_equal. rewrite !rev_append_rev. cbn [rev]. rewrite <- !app_assoc. reflexivity.
Qed.

Lemma records_eqb_refl l : records_eqb l l = true.
Proof. induction l as [|[a b] l IH]; cbn [records_eqb]; [reflexivity|rewrite !N.eqb_refl, IH; reflexivity]. Qed.

Lemma rec_bytes_ok recs : bytes_ok (flat_map rec_bytes recs).
Proof.
  induction recs as [|r recs IH]; cbn [flat_map]; [constructor|].
  unfold bytes_ok in *. apply Forall_app. split; [|exact IH].
  unfold rec_bytes. apply Forall_app. split; apply vli_encode_ok.
Qed.

(** ---------- Index, Stream Footer, whole Stream ---------- *)
Definition index_body (recs : list (N * N)) : list N :=
  0 :: vli_encode (lenN recs) ++ flat_map rec_bytes recs.
Definition index_padded (recs : list (N * N)) : list N :=
  index_body recs ++ pad4 (lenN (index_body recs)).
Definition index_bytes (recs : list (N * N)) : list N :=
  index_padded recs ++ crc_field (index_padded recs).
Definition footer_body (check isize : N) : list N := le_bytes 4 (isize / 4 - 1) ++ [0; check].
Definition footer_bytes (check isize : N) : list N :=
  crc_field (footer_body check isize) ++ footer_body check isize ++ FOOTER_MAGIC.

Lemma pad4_ok n : bytes_ok (pad4 n).
Proof. unfold pad4, bytes_ok. apply Forall_forall. intros x H. apply repeat_spec in H. subst. unfold byte_ok. lia. Qed.

Lemma index_padded_ok recs : bytes_ok (index_padded recs).
Proof.
  unfold index_padded, index_body, bytes_ok. apply Forall_app. split; [|apply pad4_ok].
  constructor; [unfold byte_ok; lia|]. apply Forall_app. split; [apply vli_encode_ok|apply rec_bytes_ok].
Qed.

Lemma pad4_len n : lenN (pad4 n) = (4 - n mod 4) mod 4.
Proof. unfold pad4, lenN. rewrite repeat_length. lia. Qed.

Lemma lenN_app {A} (a b : list A) : lenN (a ++ b) = lenN a + lenN b.
Proof. unfold lenN. rewrite app_length. lia. Qed.

Lemma index_footer_decode_encoded (x : xz) check recs rest :
  check < 16 -> xcheck x = check ->
  xrecords x = rev recs -> Forall rec_ok recs -> lenN recs <= VLI_MAX ->
  lenN (index_bytes recs) <= 17179869184 ->
  xin x = index_bytes recs ++ footer_bytes check (lenN (index_bytes recs)) ++ rest ->
  index_footer_decode x =
  {| xin := rest; xused := xused x + lenN (index_bytes recs) + 12; xout := xout x; xrecords := [];
     xcheck := check; xstatus := Finished; xpartial := [] |}.
Proof.
  intros Hc16 Hxc Hrecs Hok Hcnt Hsz Hin.
  unfold index_footer_decode. rewrite Hrecs, rev_append_rev, rev_involutive, app_nil_r.
  rewrite Hin. unfold index_bytes at 1, index_padded at 1, index_body at 1.
  cbn [app]. cbn [N.eqb negb].
  set (tail0 := pad4 (lenN (index_body recs)) ++ crc_field (index_padded recs)
                ++ footer_bytes check (lenN (index_bytes recs)) ++ rest).
  rewrite <- !app_assoc. fold tail0.
  rewrite (match_nonempty _ _ _ (vli_encode_nonempty (lenN recs) _)).
  rewrite vli_decode_encode by exact Hcnt.
  rewrite N.eqb_refl. cbn [negb].
  unfold lenN at 1. rewrite Nat2N.id.
  rewrite (records_decode_encoded recs [] tail0 Hok). cbn [rev_append app].
  (* sizes *)
  assert (Eisz : lenN (index_bytes recs ++ footer_bytes check (lenN (index_bytes recs)) ++ rest) - lenN tail0 = lenN (index_body recs)).
  { unfold tail0, index_bytes, index_padded. rewrite !lenN_app. lia. }
  rewrite Eisz.
  set (nb := lenN (index_body recs)) in *.
  assert (Epad : take ((4 - nb mod 4) mod 4) tail0 = Some (pad4 nb, crc_field (index_padded recs) ++ footer_bytes check (lenN (index_bytes recs)) ++ rest)).
  { unfold tail0. apply take_app. apply pad4_len. }
  rewrite Epad. rewrite records_eqb_refl. cbn [negb]. unfold pad4 at 1. rewrite all_zero_repeat. cbn [negb].
  assert (Eidx : firstn (N.to_nat (nb + (4 - nb mod 4) mod 4)) (index_bytes recs ++ footer_bytes check (lenN (index_bytes recs)) ++ rest)
                 = index_padded recs).
  { unfold index_bytes at 1. rewrite <- app_assoc.
    replace (N.to_nat (nb + (4 - nb mod 4) mod 4)) with (length (index_padded recs)).
    - apply firstn_app_exact.
    - unfold index_padded. rewrite app_length. fold nb.
      pose proof (pad4_len nb) as PL. unfold lenN in PL. unfold nb, lenN in *. lia. }
  rewrite Eidx.
  rewrite (take_app (crc_field (index_padded recs)) _ 4) by (unfold crc_field, lenN; rewrite le_bytes_length; reflexivity).
  rewrite (crc_field_ok _ (index_padded_ok recs)), N.eqb_refl. cbn [negb].
  (* footer *)
  set (isize := lenN (index_bytes recs)) in *.
  assert (Eis : nb + (4 - nb mod 4) mod 4 + 4 = isize).
  { unfold isize, index_bytes. rewrite lenN_app. unfold index_padded at 1. rewrite lenN_app, pad4_len. fold nb.
    unfold crc_field, lenN. rewrite le_bytes_length. lia. }
  rewrite Eis.
  (* the twelve footer bytes, spelled out *)
  destruct (le_bytes 4 (isize / 4 - 1)) as [|f0 [|f1 [|f2 [|f3 [|? ?]]]]] eqn:Ebs;
    try (apply (f_equal (@length N)) in Ebs; rewrite le_bytes_length in Ebs; discriminate Ebs).
  destruct (le_bytes 4 (crc32 [f0; f1; f2; f3; 0; check] 0)) as [|c0 [|c1 [|c2 [|c3 [|? ?]]]]] eqn:Ecs;
    try (apply (f_equal (@length N)) in Ecs; rewrite le_bytes_length in Ecs; discriminate Ecs).
  assert (Efoot : footer_bytes check isize = [c0; c1; c2; c3; f0; f1; f2; f3; 0; check; 89; 90]).
  { unfold footer_bytes, footer_body, crc_field. rewrite Ebs. cbn [app]. rewrite Ecs. reflexivity. }
  rewrite Efoot.
  assert (Hft : take 12 ([c0; c1; c2; c3; f0; f1; f2; f3; 0; check; 89; 90] ++ rest)
                = Some ([c0; c1; c2; c3; f0; f1; f2; f3; 0; check; 89; 90], rest)) by (apply take_app; reflexivity).
  rewrite Hft. cbn [firstn skipn nth].
  change (list_eqb [89; 90] FOOTER_MAGIC) with true. cbn [negb].
  assert (Hfbok : bytes_ok [f0; f1; f2; f3; 0; check]).
  { pose proof (le_bytes_ok 4 (isize / 4 - 1)) as K. rewrite Ebs in K. unfold bytes_ok in *.
    inversion K as [|? ? K0 Ka]; subst. inversion Ka as [|? ? K1 Kb]; subst. inversion Kb as [|? ? K2 Kc]; subst.
    inversion Kc as [|? ? K3 _]; subst. repeat constructor; try assumption; unfold byte_ok; lia. }
  assert (Ecv : le_val [c0; c1; c2; c3] = crc32 [f0; f1; f2; f3; 0; check] 0).
  { rewrite <- Ecs. apply (crc_field_ok _ Hfbok). }
  rewrite Ecv, N.eqb_refl. cbn [negb].
  assert (Ebv : le_val [f0; f1; f2; f3] = isize / 4 - 1).
  { rewrite <- Ebs. apply le_val_le_bytes. change (256 ^ N.of_nat 4) with 4294967296.
    assert (isize / 4 <= 4294967296) by (apply N.div_le_upper_bound; lia). lia. }
  rewrite Ebv.
  assert (Hmod : isize mod 4 = 0) by (rewrite <- Eis; lia).
  assert (Hge : 4 <= isize) by lia.
  replace ((isize / 4 - 1 + 1) * 4) with isize.
  2:{ pose proof (N.div_mod isize 4 ltac:(lia)). assert (1 <= isize / 4) by (apply N.div_le_lower_bound; lia). lia. }
  rewrite !N.eqb_refl. cbn [negb orb].
  replace (check / 16 =? 0) with true by (symmetry; apply N.eqb_eq; apply N.div_small; exact Hc16).
  cbn [negb orb]. rewrite Hxc, N.eqb_refl. cbn [negb].
  reflexivity.
Qed.

(** ---------- the whole Stream ---------- *)
Section Stream.
Variable fuel : positive.
Variable strict : bool.
Variable check : N.
Hypothesis Hck : check_ok check.

Definition blocks_bytes (bs : list blockspec) : list N := flat_map (block_bytes check) bs.
Definition recs_of (bs : list blockspec) : list (N * N) :=
  map (fun b => (block_unpadded check b, lenN (b_data b))) bs.
Definition stream_bytes (bs : list blockspec) : list N :=
  stream_header_bytes check ++ blocks_bytes bs ++ index_bytes (recs_of bs)
  ++ footer_bytes check (lenN (index_bytes (recs_of bs))).

Lemma block_bytes_first b : exists t, block_bytes check b = 2 :: t.
Proof. unfold block_bytes, block_header_bytes, block_header_body. destruct (b_delta b); cbn [app]; eauto. Qed.

Lemma blocks_loop : forall bs x rest,
  xstatus x = Running -> xcheck x = check -> xpartial x = [] -> Forall (block_ok fuel strict) bs ->
  xin x = blocks_bytes bs ++ rest ->
  nloop blocks_done (block_decode fuel strict) (length bs) x =
  {| xin := rest; xused := xused x + lenN (blocks_bytes bs);
     xout := rev (map b_data bs) ++ xout x; xrecords := rev (recs_of bs) ++ xrecords x;
     xcheck := check; xstatus := Running; xpartial := [] |}.
Proof.
  induction bs as [|b bs IH]; intros x rest Hrun Hxc Hxp Hok Hin.
  - destruct x as [xi xu xo xr xc xs xp]. cbn in *. subst. unfold lenN. cbn. rewrite N.add_0_r. reflexivity.
  - cbn [length nloop].
    inversion Hok as [|? ? Hb Hrest]; subst.
    destruct (block_bytes_first b) as [t Et].
    assert (Hnd : blocks_done x = false).
    { unfold blocks_done. rewrite Hrun, Hin. unfold blocks_bytes. cbn [flat_map]. rewrite Et. reflexivity. }
    rewrite Hnd. unfold blocks_bytes in Hin. cbn [flat_map] in Hin. rewrite <- app_assoc in Hin.
    rewrite (block_decode_encoded fuel strict x check b _ Hck Hxc Hb Hin).
    match goal with |- nloop _ _ _ ?y = _ => rewrite (IH y rest eq_refl eq_refl eq_refl Hrest eq_refl) end.
    cbn [xused xout xrecords]. unfold blocks_bytes, recs_of. cbn [flat_map map rev].
    rewrite lenN_app, <- !app_assoc. cbn [app]. f_equal. lia.
Qed.

Theorem stream_decode_encoded bs rest :
  Forall (block_ok fuel strict) bs ->
  Forall rec_ok (recs_of bs) -> lenN (recs_of bs) <= VLI_MAX ->
  lenN (index_bytes (recs_of bs)) <= 17179869184 ->
  (length bs < Pos.to_nat fuel)%nat ->
  let x := stream_decode fuel strict true (xz_init (stream_bytes bs ++ rest)) in
  xstatus x = Finished /\ xin x = rest /\ xused x = lenN (stream_bytes bs) /\
  xz_output x = concat (map b_data bs).
Proof.
  intros Hok Hrecs Hcnt Hisz Hfuel.
  destruct (check_ok_supported check Hck) as [_ Hc16].
  cbv zeta. unfold stream_decode, xz_init. cbn [xin].
  unfold stream_bytes, stream_header_bytes. rewrite <- !app_assoc.
  set (tail := blocks_bytes bs ++ index_bytes (recs_of bs) ++ footer_bytes check (lenN (index_bytes (recs_of bs))) ++ rest).
  destruct (le_bytes 4 (crc32 [0; check] 0)) as [|c0 [|c1 [|c2 [|c3 [|? ?]]]]] eqn:Ecs;
    try (apply (f_equal (@length N)) in Ecs; rewrite le_bytes_length in Ecs; discriminate Ecs).
  assert (Ehdr : HEADER_MAGIC ++ [0; check] ++ crc_field [0; check] ++ tail
                 = [253; 55; 122; 88; 90; 0; 0; check; c0; c1; c2; c3] ++ tail).
  { unfold crc_field. rewrite Ecs. reflexivity. }
  rewrite Ehdr. rewrite (take_app [253; 55; 122; 88; 90; 0; 0; check; c0; c1; c2; c3] tail 12 eq_refl). cbn [firstn skipn nth].
  change (list_eqb [253; 55; 122; 88; 90; 0] HEADER_MAGIC) with true. cbn [negb].
  assert (Hb2 : bytes_ok [0; check]) by (repeat constructor; unfold byte_ok; lia).
  assert (Ecv : le_val [c0; c1; c2; c3] = crc32 [0; check] 0) by (rewrite <- Ecs; apply (crc_field_ok _ Hb2)).
  rewrite Ecv, N.eqb_refl. cbn [negb N.eqb orb].
  replace (check / 16 =? 0) with true by (symmetry; apply N.eqb_eq; apply N.div_small; exact Hc16).
  cbn [negb orb xused xout].
  set (x1 := {| xin := tail; xused := 0 + 12; xout := []; xrecords := []; xcheck := check; xstatus := Running; xpartial := [] |}).
  rewrite ploop_nloop.
  replace (Pos.to_nat fuel) with (length bs + (Pos.to_nat fuel - length bs))%nat by lia.
  rewrite nloop_add.
  assert (Eloop : nloop blocks_done (block_decode fuel strict) (length bs) x1 =
                  {| xin := index_bytes (recs_of bs) ++ footer_bytes check (lenN (index_bytes (recs_of bs))) ++ rest;
                     xused := 12 + lenN (blocks_bytes bs); xout := rev (map b_data bs); xrecords := rev (recs_of bs);
                     xcheck := check; xstatus := Running; xpartial := [] |}).
  { rewrite (blocks_loop bs x1 _ eq_refl eq_refl eq_refl Hok eq_refl). unfold x1. cbn [xused xout xrecords].
    rewrite !app_nil_r. reflexivity. }
  rewrite Eloop.
  set (x2 := {| xin := index_bytes (recs_of bs) ++ footer_bytes check (lenN (index_bytes (recs_of bs))) ++ rest;
                xused := 12 + lenN (blocks_bytes bs); xout := rev (map b_data bs); xrecords := rev (recs_of bs);
                xcheck := check; xstatus := Running; xpartial := [] |}).
  assert (Hd2 : blocks_done x2 = true).
  { unfold blocks_done, x2, index_bytes, index_padded, index_body. cbn [xstatus xin app]. reflexivity. }
  rewrite (nloop_done _ _ _ _ Hd2).
  assert (Hne : xin x2 <> []) by (unfold x2, index_bytes, index_padded, index_body; cbn [xin app]; discriminate).
  change (xstatus x2) with Running. cbv iota.
  rewrite (match_nonempty (xin x2) _ _ Hne).
  rewrite (index_footer_decode_encoded x2 check (recs_of bs) rest Hc16 eq_refl eq_refl Hrecs Hcnt Hisz eq_refl).
  cbn [xstatus xin xused xout xz_output xpartial x2].
  split; [reflexivity|]. split; [reflexivity|]. split.
  - unfold lenN. rewrite !app_length. cbn [length]. unfold crc_field. rewrite le_bytes_length.
    unfold footer_bytes, footer_body, crc_field. rewrite !app_length, !le_bytes_length.
    change (length HEADER_MAGIC) with 6%nat. change (length FOOTER_MAGIC) with 2%nat. cbn [length]. lia.
  - unfold xz_output. cbn [xout xpartial]. rewrite rev_append_rev, rev_involutive, concat_app. cbn [concat]. rewrite !app_nil_r. reflexivity.
Qed.

End Stream.
