"""Structure-aware generator of .xz/.lzma/.lz files (valid, exotic-but-valid,
and field-level malformed), independent of the encoder under test: LZMA2
payloads come from the system's released liblzma (python lzma) and from
hand-assembled chunks; containers are assembled here from the format spec."""
import lzma, zlib, hashlib, struct, random

def vli(n):
    out = bytearray()
    while n >= 0x80:
        out.append((n & 0x7F) | 0x80); n >>= 7
    out.append(n)
    return bytes(out)

def crc64(data, crc=0):
    poly = 0xC96C5795D7870F42
    c = crc ^ 0xFFFFFFFFFFFFFFFF
    for b in data:
        c ^= b
        for _ in range(8):
            c = (c >> 1) ^ (poly if c & 1 else 0)
    return c ^ 0xFFFFFFFFFFFFFFFF

CHECK_SIZE = [0, 4, 4, 4, 8, 8, 8, 16, 16, 16, 32, 32, 32, 64, 64, 64]
def check_bytes(cid, data, rng):
    if cid == 0: return b''
    if cid == 1: return struct.pack('<I', zlib.crc32(data))
    if cid == 4: return struct.pack('<Q', crc64(data))
    if cid == 10: return hashlib.sha256(data).digest()
    return bytes(rng.getrandbits(8) for _ in range(CHECK_SIZE[cid]))   # unsupported ids: anything

MAGIC = b'\xfd7zXZ\x00'
def stream_header(cid):
    fl = bytes([0, cid]); return MAGIC + fl + struct.pack('<I', zlib.crc32(fl))
def stream_footer(cid, index_size):
    body = struct.pack('<I', index_size // 4 - 1) + bytes([0, cid])
    return struct.pack('<I', zlib.crc32(body)) + body + b'YZ'

BCJ_ID = {'x86': 4, 'powerpc': 5, 'ia64': 6, 'arm': 7, 'armthumb': 8, 'sparc': 9}  # python's lzma refuses arm64/riscv ids
BCJ_ALIGN = {'x86': 1, 'powerpc': 4, 'ia64': 16, 'arm': 4, 'armthumb': 2, 'sparc': 4, 'arm64': 4}

def dict_byte(d):
    """smallest LZMA2 dict-size byte whose size >= d"""
    for b in range(41):
        sz = 0xFFFFFFFF if b == 40 else (2 | (b & 1)) << (b // 2 + 11)
        if sz >= d: return b
    return 40

def filter_flags(f):
    kind = f['id']
    if kind == 'lzma2': return vli(0x21) + vli(1) + bytes([f.get('dict_byte', dict_byte(f['dict_size']))])
    if kind == 'delta': return vli(3) + vli(1) + bytes([f['dist'] - 1])
    st = f.get('start_offset', 0)
    if st == 0 and not f.get('explicit_zero'): return vli(BCJ_ID[kind]) + vli(0)
    return vli(BCJ_ID[kind]) + vli(4) + struct.pack('<I', st)

def py_filters(chain):
    out = []
    for f in chain:
        if f['id'] == 'lzma2':
            d = {'id': lzma.FILTER_LZMA2, 'dict_size': f['dict_size'], 'lc': f.get('lc', 3), 'lp': f.get('lp', 0), 'pb': f.get('pb', 2),
                 'mode': f.get('mode', lzma.MODE_NORMAL), 'nice_len': f.get('nice_len', 64), 'mf': f.get('mf', lzma.MF_BT4), 'depth': f.get('depth', 0)}
            out.append(d)
        elif f['id'] == 'delta':
            out.append({'id': lzma.FILTER_DELTA, 'dist': f['dist']})
        else:
            out.append({'id': BCJ_ID[f['id']], 'start_offset': f.get('start_offset', 0)})
    return out

def lzma2_payload(data, chain):
    """raw LZMA2 (with end marker) of data pushed through the chain, by released liblzma"""
    return lzma.compress(data, format=lzma.FORMAT_RAW, filters=py_filters(chain))

def lzma2_uncompressed(data, rng, reset_first=True):
    """LZMA2 made only of uncompressed chunks of random sizes"""
    out = bytearray(); pos = 0; first = True
    while pos < len(data):
        n = min(len(data) - pos, rng.choice([1, 2, 100, 65536, rng.randrange(1, 65537)]))
        out += bytes([1 if (first and reset_first) or (not first and rng.random() < 0.1) else 2]) + struct.pack('>H', n - 1) + data[pos:pos + n]
        pos += n; first = False
    out.append(0)
    return bytes(out)

def split_lzma2(p):
    """list of chunks (bytes incl. header) of a raw LZMA2 stream, without the end marker"""
    ch = []; i = 0
    while i < len(p) and p[i] != 0:
        c = p[i]
        if c >= 0x80:
            cs = ((p[i + 3] << 8) | p[i + 4]) + 1
            h = 6 if c >= 0xC0 else 5
            ch.append(p[i:i + h + cs]); i += h + cs
        else:
            cs = ((p[i + 1] << 8) | p[i + 2]) + 1
            ch.append(p[i:i + 3 + cs]); i += 3 + cs
    return ch

def block(data, chain, cid, rng, comp_present=None, uncomp_present=None, hdr_pad=0, payload=None, tweak=None):
    """returns (block bytes, unpadded_size, uncompressed_size)"""
    if payload is None: payload = lzma2_payload(data, chain)
    if comp_present is None: comp_present = rng.random() < 0.5
    if uncomp_present is None: uncomp_present = rng.random() < 0.5
    flags = (len(chain) - 1) | (0x40 if comp_present else 0) | (0x80 if uncomp_present else 0)
    body = bytes([flags])
    if comp_present: body += vli(len(payload))
    if uncomp_present: body += vli(len(data))
    for f in chain: body += filter_flags(f)
    body += bytes(hdr_pad)
    while (1 + len(body) + 4) % 4: body += b'\0'
    hsize = 1 + len(body) + 4
    hdr = bytes([hsize // 4 - 1]) + body
    if tweak: hdr = tweak(hdr)
    hdr += struct.pack('<I', zlib.crc32(hdr))
    pad = bytes((4 - len(payload) % 4) % 4)
    return hdr + payload + pad + check_bytes(cid, data, rng), len(hdr) + len(payload) + CHECK_SIZE[cid], len(data)

def index(records, pad_extra=0):
    body = b'\0' + vli(len(records)) + b''.join(vli(u) + vli(v) for u, v in records)
    while len(body) % 4: body += b'\0'
    return body + struct.pack('<I', zlib.crc32(body))

def stream(blocks_spec, cid, rng):
    """blocks_spec: list of (data, chain, kwargs)"""
    out = stream_header(cid); recs = []
    for data, chain, kw in blocks_spec:
        b, unp, unc = block(data, chain, cid, rng, **kw)
        out += b; recs.append((unp, unc))
    idx = index(recs)
    return out + idx + stream_footer(cid, len(idx))

# ---------------------------------------------------------------- data
def gen_data(rng, n):
    k = rng.random()
    if k < 0.2: return bytes(rng.getrandbits(8) for _ in range(n))
    if k < 0.4:
        words = [bytes(rng.getrandbits(8) for _ in range(rng.randrange(1, 9))) for _ in range(8)]
        out = bytearray()
        while len(out) < n: out += rng.choice(words)
        return bytes(out[:n])
    if k < 0.55: return bytes([rng.getrandbits(8)]) * n
    if k < 0.7:
        period = rng.choice([1, 2, 3, 4, 7, 255, 256, 4095, 4096, 4097])
        base = bytes(rng.getrandbits(8) for _ in range(period))
        return (base * (n // period + 1))[:n]
    out = bytearray()
    while len(out) < n:
        if out and rng.random() < 0.6:
            d = rng.randrange(1, min(len(out), 5000) + 1); l = rng.randrange(2, 300)
            for _ in range(l): out.append(out[-d])
        else:
            out += bytes(rng.getrandbits(8) for _ in range(rng.randrange(1, 20)))
    return bytes(out[:n])

def gen_chain(rng, nfilters=None):
    n = nfilters or rng.choice([1, 1, 1, 2, 2, 3, 4])
    chain = []
    for _ in range(n - 1):
        if rng.random() < 0.4: chain.append({'id': 'delta', 'dist': rng.choice([1, 2, 3, 4, 16, 255, 256, rng.randrange(1, 257)])})
        else:
            a = rng.choice(list(BCJ_ID))
            chain.append({'id': a, 'start_offset': rng.choice([0, 0, BCJ_ALIGN[a] * rng.randrange(1 << 16)])})
    lc = rng.randrange(0, 5); lp = rng.randrange(0, 5 - lc); pb = rng.randrange(0, 5)
    chain.append({'id': 'lzma2', 'dict_size': rng.choice([4096, 4096, 8192, 65536, 1 << 20, 4097, 12288]), 'lc': lc, 'lp': lp, 'pb': pb,
                  'mode': rng.choice([lzma.MODE_FAST, lzma.MODE_NORMAL]), 'nice_len': rng.choice([2, 8, 32, 64, 273]),
                  'mf': rng.choice([lzma.MF_HC3, lzma.MF_HC4, lzma.MF_BT2, lzma.MF_BT3, lzma.MF_BT4])})
    return chain

def gen_payload_exotic(rng, data, chain):
    """LZMA2 payload for `data` using features the encoder rarely emits: concatenation of independently
    encoded parts (dictionary reset + new properties mid-stream), uncompressed chunks, chunk-level state resets."""
    if len(chain) != 1 or len(data) < 2:
        return lzma2_payload(data, chain)
    parts = []; pos = 0; out = bytearray()
    k = rng.randrange(1, 4)
    cuts = sorted(rng.randrange(0, len(data) + 1) for _ in range(k - 1)) + [len(data)]
    for c in cuts:
        seg = data[pos:c]; pos = c
        if not seg: continue
        if rng.random() < 0.3:
            p = lzma2_uncompressed(seg, rng, reset_first=True)
        else:
            f = dict(chain[0]); lc = rng.randrange(0, 5); f['lc'] = lc; f['lp'] = rng.randrange(0, 5 - lc); f['pb'] = rng.randrange(0, 5)
            p = lzma2_payload(seg, [f])
        out += p[:-1]      # drop end marker; the next part starts with a dictionary reset
    out.append(0)
    return bytes(out)

def gen_valid_xz(rng, max_size=3000):
    """(file bytes, expected output, description)"""
    nstreams = rng.choice([1, 1, 1, 2, 3])
    out = bytearray(); exp = bytearray(); desc = []
    for si in range(nstreams):
        cid = rng.choice([0, 1, 4, 10, 1, 4, 10, rng.randrange(16)])
        nb = rng.choice([0, 1, 1, 1, 2, 3])
        spec = []
        for _ in range(nb):
            data = gen_data(rng, rng.choice([0, 1, 2, 100, rng.randrange(max_size)]))
            chain = gen_chain(rng)
            kw = {'hdr_pad': rng.choice([0, 0, 4, 8, 40])}
            if rng.random() < 0.35:
                kw['payload'] = gen_payload_exotic(rng, data, chain)
            spec.append((data, chain, kw)); exp += data
            desc.append('b%d:%s:%d' % (len(data), '+'.join(f['id'] for f in chain), cid))
        out += stream(spec, cid, rng)
        if si + 1 < nstreams or rng.random() < 0.3:
            out += bytes(4 * rng.choice([0, 1, 2, 5]))
    return bytes(out), bytes(exp), ' '.join(desc)

def gen_wrap_reset_xz(rng):
    """dictionary wraps (output > window) and is then reset mid-stream, followed by matches"""
    cid = rng.choice([1, 4, 10])
    n = rng.randrange(5200, 14000)
    data = bytearray()
    while len(data) < n:
        if len(data) > 10 and rng.random() < 0.7:
            d = rng.randrange(1, min(len(data), 4000) + 1)
            for _ in range(rng.randrange(2, 200)): data.append(data[-d])
        else: data += bytes(rng.getrandbits(8) for _ in range(rng.randrange(1, 30)))
    data = bytes(data[:n])
    chain = [{'id': 'lzma2', 'dict_size': 4096, 'lc': 3, 'lp': 0, 'pb': 2, 'mode': lzma.MODE_NORMAL, 'nice_len': 32, 'mf': lzma.MF_BT4}]
    cut = rng.randrange(4800, n - 200)
    parts = [data[:cut], data[cut:]]
    out = bytearray()
    for i, seg in enumerate(parts):
        p = lzma2_payload(seg, chain) if (i == 1 or rng.random() < 0.8) else lzma2_uncompressed(seg, rng)
        out += p[:-1]
    out.append(0)
    f = stream([(data, chain, {'payload': bytes(out)})], cid, rng)
    return f, data, 'wrap-reset b%d cut%d' % (n, cut)

def gen_mt_xz(rng, nblocks=3, bsize=(300, 2500), cid=None):
    """multi-Block file as the threaded encoder writes it (both sizes in every Block Header), so that the
    threaded decoder really decodes Blocks in parallel"""
    cid = cid if cid is not None else rng.choice([1, 4, 10])
    spec = []; exp = bytearray(); bounds = []
    for _ in range(nblocks):
        data = gen_data(rng, rng.randrange(*bsize))
        chain = [{'id': 'lzma2', 'dict_size': 4096, 'lc': 3, 'lp': 0, 'pb': 2, 'mode': lzma.MODE_FAST, 'nice_len': 32, 'mf': lzma.MF_HC4}]
        spec.append((data, chain, {'comp_present': True, 'uncomp_present': True})); exp += data
    f = stream(spec, cid, rng)
    # block start offsets
    pos = 12
    for data, chain, kw in spec:
        b, unp, unc = block(data, chain, cid, rng, **kw)
        bounds.append((pos, pos + len(b))); pos += len(b)
    return f, bytes(exp), bounds

def gen_many_blocks(rng, nblocks, cid=None):
    """a Stream with many tiny Blocks: the Index has a multi-byte Number of Records and is long"""
    cid = cid if cid is not None else rng.choice([0, 1, 4])
    chain = [{'id': 'lzma2', 'dict_size': 4096, 'lc': 3, 'lp': 0, 'pb': 2, 'mode': lzma.MODE_FAST, 'nice_len': 32, 'mf': lzma.MF_HC4}]
    out = bytearray(stream_header(cid)); recs = []; exp = bytearray()
    cache = {}
    for i in range(nblocks):
        data = bytes([65 + (i * 7 + rng.randrange(3)) % 26]) * rng.choice([1, 1, 2, 3])
        if data not in cache: cache[data] = block(data, chain, cid, rng)
        b, unp, unc = cache[data]
        out += b; recs.append((unp, unc)); exp += data
    idx = index(recs)
    return bytes(out + idx + stream_footer(cid, len(idx))), bytes(exp), len(idx)

# ---------------------------------------------------------------- malformed
def mutate(rng, f):
    """field-aware-ish and blind mutations of a valid file"""
    b = bytearray(f); n = len(b)
    k = rng.random()
    if n == 0: return bytes(b), 'empty'
    if k < 0.3:
        i = rng.randrange(n); b[i] ^= 1 << rng.randrange(8); return bytes(b), 'bitflip@%d' % i
    if k < 0.45:
        i = rng.randrange(n); return bytes(b[:i]), 'truncate@%d' % i
    if k < 0.55:
        i = rng.randrange(n); b[i] = rng.getrandbits(8); return bytes(b), 'byte@%d' % i
    if k < 0.65:
        i = rng.randrange(n + 1); b[i:i] = bytes(rng.getrandbits(8) for _ in range(rng.randrange(1, 5))); return bytes(b), 'insert@%d' % i
    if k < 0.75:
        i = rng.randrange(n); j = min(n, i + rng.randrange(1, 5)); del b[i:j]; return bytes(b), 'delete@%d' % i
    if k < 0.85:
        i = rng.randrange(n); b[i] = (b[i] + rng.choice([1, 255])) & 255; return bytes(b), 'plusminus@%d' % i
    if k < 0.93:
        b += bytes(rng.choice([1, 2, 3, 4, 5, 8])); return bytes(b), 'zero-pad'
    b += bytes(rng.getrandbits(8) for _ in range(rng.randrange(1, 16))); return bytes(b), 'garbage-tail'


def mutate_chunk(rng, f):
    """damage inside the first LZMA2 chunk of the first Block (headers and their CRCs stay valid): the LZMA data then
    asks for more bytes than the chunk has, or ends early, or decodes to something else"""
    b = bytearray(f)
    try:
        hs = (b[12] + 1) * 4; p = 12 + hs
        if b[p] < 0x80: return mutate(rng, f)
        start = p + (6 if b[p] >= 0xC0 else 5)
        csize = ((b[p + 3] << 8) | b[p + 4]) + 1
        k = rng.random()
        if k < 0.12:
            b[start] = rng.randrange(1, 256); return bytes(b), 'chunk-rc-first-byte'      # the range coder's first byte must be 0x00
        if k < 0.5 and csize > 6:
            i = start + rng.randrange(5, csize); b[i] ^= 1 << rng.randrange(8); return bytes(b), 'chunk-bitflip@%d' % i
        if k < 0.75 and csize > 8:
            d = rng.randrange(1, min(csize - 6, 12)); c = csize - 1 - d; b[p + 3] = c >> 8; b[p + 4] = c & 255; return bytes(b), 'chunk-csize-%d' % d
        if k < 0.9:
            u = (((b[p] & 0x1F) << 16) | (b[p + 1] << 8) | b[p + 2]) + rng.choice([1, 2, 300]); u &= 0x1FFFFF
            b[p] = (b[p] & 0xE0) | (u >> 16); b[p + 1] = (u >> 8) & 255; b[p + 2] = u & 255; return bytes(b), 'chunk-usize+'
        i = start + rng.randrange(1, max(2, csize)); del b[i:i + 1]; return bytes(b), 'chunk-delete@%d' % i
    except Exception:
        return mutate(rng, f)


def gen_symbols(rng, n, p_bad=0.15):
    """LZMA symbol tokens for the model encoder (oracle command lzmaenc): mostly valid w.r.t. the history built so far,
    sometimes a distance / rep that reaches outside it (then the stream is invalid from that symbol on)"""
    toks = []; hist = 0; reps = [0, 0, 0, 0]; bad = False; have_match = False
    for _ in range(n):
        k = rng.random()
        wrong = (not bad) and rng.random() < p_bad / max(1, n / 6)
        if k < 0.45 or (hist == 0 and not wrong):
            toks.append('L%d' % rng.choice([0, 255, rng.getrandbits(8), 97, 98])); hist += 1
        elif k < 0.75:
            ln = rng.choice([2, 3, 4, 9, 10, 17, 18, 100, 273, rng.randrange(2, 274)])
            d = rng.randrange(hist, hist + 4) if wrong else rng.choice([0, 1, 2, 3, 4, rng.randrange(0, hist), hist - 1])
            d = max(0, d)
            if wrong: bad = True
            toks.append('M%d,%d' % (d, ln)); reps = [d] + reps[:3]; hist += ln; have_match = True
        elif k < 0.85:
            if hist == 0 or reps[0] >= hist: bad = True
            toks.append('S'); hist += 1
        else:
            idx = rng.randrange(4); ln = rng.choice([2, 5, 18, 273, rng.randrange(2, 274)])
            if hist == 0 or reps[idx] >= hist: bad = True
            toks.append('R%d,%d' % (idx, ln)); r = reps.pop(idx); reps = [r] + reps; hist += ln
    return toks

def alone_wrap(raw, lc, lp, pb, dict_size=4096, size=None):
    return bytes([(pb * 5 + lp) * 9 + lc]) + struct.pack('<I', dict_size) + (b'\xff' * 8 if size is None else struct.pack('<Q', size)) + raw


def gen_runs(rng, n):
    """short runs over a 2-3 symbol alphabet mixed with copies of earlier parts: many positions share long common
    prefixes (stresses the binary-tree match finders, e.g. across flush points)"""
    alpha = 2 + rng.randrange(2); out = bytearray()
    while len(out) < n:
        if len(out) > 50 and rng.randrange(4) == 0:
            src = rng.randrange(len(out) - 20); l = 5 + rng.randrange(60); out += out[src:src + l]
        else:
            out += bytes([97 + rng.randrange(alpha)]) * (1 + rng.randrange(8))
    return bytes(out[:n])
