"""Shared by C01/C02/C12: configurations and inputs for the encoders of the tree under test."""
import itertools
from common import *
from decode_common import *
import xzgen

LCLPPB = [(lc, lp, pb) for lc in range(5) for lp in range(5 - lc) for pb in range(5)]   # 75 legal triples

def gen_chain_strings(rng, n):
    out = []
    for i in range(n):
        lc, lp, pb = LCLPPB[(i * 7 + rng.randrange(75)) % 75]
        dict_ = rng.choice(['4KiB', '4KiB', '8KiB', '64KiB', '65535', '1MiB', '4097', '12KiB'])
        mf = rng.choice(['hc3', 'hc4', 'bt2', 'bt3', 'bt4'])
        mode = rng.choice(['fast', 'normal'])
        nice = rng.choice([2, 3, 4, 32, 64, 272, 273]) if mf not in ('hc4', 'bt4') else rng.choice([4, 32, 64, 272, 273])
        if mf in ('hc3', 'bt3'): nice = max(nice, 3)
        depth = rng.choice([0, 0, 1, 4, 1000])
        l2 = 'lzma2:dict=%s,lc=%d,lp=%d,pb=%d,mf=%s,mode=%s,nice=%d,depth=%d' % (dict_, lc, lp, pb, mf, mode, nice, depth)
        pre = []
        for _ in range(rng.choice([0, 0, 1, 1, 2, 3])):
            k = rng.random()
            if k < 0.4: pre.append('delta:dist=%d' % rng.choice([1, 2, 3, 4, 255, 256, rng.randrange(1, 257)]))
            else:
                a = rng.choice(['x86', 'arm', 'armthumb', 'arm64', 'powerpc', 'ia64', 'sparc', 'riscv'])
                al = {'x86': 1, 'arm': 4, 'armthumb': 2, 'arm64': 4, 'powerpc': 4, 'ia64': 16, 'sparc': 4, 'riscv': 2}[a]
                st = rng.choice([0, 0, al * rng.randrange(1 << 20)])
                pre.append(a + (':start=%d' % st if st else ''))
        out.append(('+'.join(pre + [l2]), int({'4KiB': 4096, '8KiB': 8192, '64KiB': 65536, '65535': 65535, '1MiB': 1 << 20, '4097': 4097, '12KiB': 12288}[dict_])))
    return out

def gen_inputs(rng, quick):
    sizes = [0, 1, 2, 17, 300, 4095, 4096, 4097, 9000, 70000] if quick else [0, 1, 2, 3, 17, 300, 4095, 4096, 4097, 9000, 65535, 65536, 65537, 70000, 200000, 1 << 20, (1 << 21) + 5]
    out = []
    for n in sizes:
        out.append(xzgen.gen_data(rng, n))
    for _ in range(4 if quick else 40):
        out.append(xzgen.gen_data(rng, rng.randrange(100, 30000)))
    # x86-like and other code-like data for the BCJ filters
    from props.c15 import gen_code
    for a in ('x86', 'arm64', 'riscv', 'ia64'):
        out.append(gen_code(rng, a, rng.randrange(500, 4000)))
    return out

def special_inputs(rng):
    """inputs that need something specific: near-identical short records > 4 MiB (chunk limits with pending
    symbols in normal mode), and an incompressible stretch longer than a small window (uncompressed LZMA2 chunks
    while the window slides)"""
    recs = bytearray()
    i = 0
    while len(recs) < (4 << 20) + 300000:
        recs += (b'record %09d: status=OK value=0000 flags=---- checksum=abcdef012345 \n' % i)[:60]; i += 1
    inc = xzgen.gen_data(rng, 3000) + bytes(rng.getrandbits(8) for _ in range(700000)) + xzgen.gen_data(rng, 3000)
    return bytes(recs), inc
