#!/usr/bin/env python3
"""Print the prompt given to a mutation-seeding sub-agent for property <id>.
The prompt contains only the property text and a scratch worktree path."""
import json, sys
pid = sys.argv[1]
n = sys.argv[2] if len(sys.argv) > 2 else ""
for l in open('/verif/properties.jsonl'):
    p = json.loads(l)
    if p['id'] == pid:
        break
else:
    sys.exit("no such property")
wt = f"/tmp/seed/{pid}{n}"
print(f"""You are helping to test a verification effort for XZ Utils (tukaani-project/xz; liblzma + xz tools).
You have your own scratch git worktree of the repository at {wt} (detached HEAD of the pinned commit). Work ONLY inside {wt}. Do NOT read or touch /verif or /repo, and do not look at any other directory under /tmp/seed.

The property (a semantic property that users rely on):

  Title: {p['title']}
  Statement: {p['statement']}
  Quantifier: {p['quantifier']['text']}
  Code it is anchored in: {', '.join(p['anchors']['files'])}

Your task: produce ONE realistic source change to the repository (the kind of bug a maintainer could plausibly introduce in a refactor, optimisation or feature patch: an off-by-one in a boundary condition, a state variable not saved across a suspension point, a missed wake-up, a wrong constant in a rarely used branch, a check dropped on one path, two sites that each look fine alone, ...) that BREAKS the property while the tree still compiles and the existing test suite still passes completely. The change must need something specific to manifest (a particular interleaving, a fault at a particular point, a multi-step sequence of operations, an unusual input or option combination, a particular buffer split) - NOT something ordinary use would expose at once. Keep the patch small (typically 1-15 changed lines in src/). Do not touch tests/. {('This is a second, different change for the same property: make it different in kind and location from a simple boundary tweak - prefer a different file of the anchored list.' if n else '')}

Build and test like this (offline; 16 cores are shared, use -j6):
  cd {wt} && cmake -G Ninja -B _b -DCMAKE_BUILD_TYPE=RelWithDebInfo -DCMAKE_C_FLAGS=-Wno-error >/dev/null && cmake --build _b -j6 >/dev/null && ctest --test-dir _b -j6 --timeout 900
All 19 tests must pass with your change applied.

Then write a demonstration: a small C program linked against {wt}/_b/liblzma.a (include path {wt}/src/liblzma/api), or a shell script using the built tools in {wt}/_b, that exits 0 on the unmodified tree and exits non-zero (printing what went wrong) with your change applied. Verify both directions yourself (use `git stash` / `git stash pop` or `git diff > patch; git checkout -- .; ...; git apply patch`, rebuilding each time).

Deliverables, all placed in {wt}/OUT/ :
  patch.diff   - `git diff` of your change against the pinned commit (must apply with `git apply` at the repo root)
  demo.c or demo.sh  - the demonstration, plus build.sh that compiles/runs it given the environment variable B=<build dir> and S=<source dir> (exit status = demo verdict)
  meta.json    - {{"property": "{pid}", "summary": "...what was changed...", "needs": "...what is needed for the bug to manifest...", "ran": "...commands you ran and their results: tests pass with change, demo fails with change, demo passes without..."}}
Leave the worktree itself with your change reverted (clean `git status` apart from OUT/ and _b/). Remove large build directories other than _b when finished. Your final message should be a 3-line summary.""")
