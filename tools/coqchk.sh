#!/bin/sh
# Independent re-check of every compiled Properties module and all it depends on (takes ~15 minutes):
#   prints coqchk's context summary (axioms, type-in-type, unsafe fixpoints, assumed positivity)
cd "$(dirname "$0")/../coq" || exit 2
make -j16 >/dev/null 2>&1
exec coqchk -o -silent -Q . XZ $(ls Properties_C*.v | sed 's/\.v$//; s/^/XZ./')
