#!/usr/bin/env python3
"""setup_cmd: regenerate the translated parts of the model from /repo, build the
whole Coq development (full .vo) and the oracle, offline.

The exit status reflects only what does not depend on /repo's content (lint,
oracle build): a proof that no longer checks against the regenerated files is
the business of the property check that owns it, which rebuilds its own
Properties_Cxx.vo and reports the violation with a replay."""
import os, subprocess, sys
sys.path.insert(0, os.path.dirname(os.path.abspath(__file__)))
import common, gen
for g in (gen.gen_crc, gen.gen_sha, gen.gen_bcj, gen.gen_codewrap, gen.gen_consts,
          gen.gen_bounds, gen.gen_scripts):
    try:
        g()
    except Exception as e:          # the owning check regenerates again and reports
        print('setup: %s failed: %s' % (g.__name__, str(e)[:300]))
common.coq_makefile()
r = subprocess.run(['make', '-k', '-j', str(common.NCPU)], cwd=common.COQ)
if r.returncode != 0:
    print('setup: some .vo did not build; the owning property checks will report them')
bad = common.coq_lint()
if bad:
    print('\n'.join(bad)); sys.exit(1)
print(common.oracle())
