#!/usr/bin/env python3
"""setup_cmd: build the whole Coq development (full .vo) and the oracle, offline."""
import os, subprocess, sys
sys.path.insert(0, os.path.dirname(os.path.abspath(__file__)))
import common
common.coq_makefile()
r = subprocess.run(['make', '-j', str(common.NCPU)], cwd=common.COQ)
if r.returncode != 0:
    sys.exit(1)
bad = common.coq_lint()
if bad:
    print('\n'.join(bad)); sys.exit(1)
print(common.oracle())
