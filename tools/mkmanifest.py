#!/usr/bin/env python3
"""Regenerate MANIFEST.json from the table below (kept valid at all times)."""
import json, os
V = os.path.dirname(os.path.dirname(os.path.abspath(__file__)))
CLAIMED = {
 'C14': dict(
   text='Coq theorems (no axioms): every entry of the CRC32/CRC64 tables compiled from the current source equals the bit-at-a-time definition; the slice-by-8/slice-by-4 models of lzma_crc32_generic/lzma_crc64_generic equal the reflected IEEE/ECMA CRC for all data, alignments and initial values; chaining over pieces = whole; SHA256_K/H0 in the source equal the FIPS constants; the streaming SHA-256 model equals FIPS 180-4 for every chunking. Tables and constants are regenerated from /repo on every run; the hand models are tied by differential runs of generic/CLMUL/public CRC and the check interface against the extracted definitions.',
   note='Trusted: Coq kernel+vm_compute, tools/gen.py, extraction (ExtrOcamlBasic) + oracle/driver.ml, the hand transcription of crc*_fast.c / sha256.c into Gallina (validated by ~17k differential calls per run). CLMUL path not modelled (explored only).',
   technique='Coq proof over generated tables + GF(2) linearity; differential correspondence with extracted OCaml oracle', ref='§6 C14'),
}
CLAIMED['C15'] = dict(
   text='Coq theorems (no axioms): delta decode(encode)=id for every data and distance, length preserved; ARM BCJ decode(encode)=id for every data and every 4-aligned start offset (unaligned offsets provably break it), length preservation of the stride-4 filters. All eight BCJ filters and delta are transcribed to Gallina (Bcj.v, x86/IA-64 tables regenerated from source) and tied to the code by white-box differential runs of the static *_code functions, the streaming simple_coder under random slicing, the one-shot API, plus implementation-only round trips; the Coq reference itself is validated against released liblzma 5.4.1.',
   note='Partial: x86, ARM-Thumb, ARM64, PowerPC, SPARC, IA-64, RISC-V round trips and the simple_coder buffering protocol are explored + tied by correspondence, not proved. Trusted: Coq kernel, gen_bcj regex translator, extraction, driver glue, hand transcription.',
   technique='Coq proof (modular arithmetic + stride lifting) + white-box differential correspondence', ref='§6 C15')
CLAIMED['C11'] = dict(
   text='Coq theorems (no axioms) for arbitrary inner coders and arbitrary call histories: every programming-error clause refuses without acting, sticky error / sticky end, a finished flush returns to RUN, BUF_ERROR only on the second consecutive stalled invocation and never fatal, TIMED_OUT never surfaces, exact accounting of avail/total fields, totals are exact sums. The model step function is checked (vm_compute) against the COMPLETE transition table obtained on every run by executing the real lzma_code() of the current tree against a scripted inner coder (27k rows), and against supported_actions of all 18 public initialisers.',
   note='Trusted: Coq kernel+vm_compute, drv_code.c/gen.py translator, extraction + driver glue for history replay. Memory outside the buffers: guard bytes + ASan on explored histories only. Inner coders abstract.',
   technique='Coq proof over model + exhaustive translator-generated transition table (vm_compute) + history replay', ref='§6 C11')
CLAIMED['C03'] = dict(
   text='Executable Coq specification of the .xz container, LZMA2 and LZMA (range decoder, probability model, all symbol kinds, dictionary as history) written from the format documents; Coq theorems (no axioms): VLI decode/encode round trip and accepted-only-if-canonical for all values, property-byte and dictionary-byte decoders accept exactly the defined sets (finite), documented dictionary relaxation bounds, and the specification\'s constants and LZMA state machine equal those regenerated from the current source. The C decoders are tied to the specification by differential runs (verdict, output, bytes consumed) on generated valid files using every format feature (1-4 filters, all lc/lp/pb, dictionary/state/property resets, uncompressed chunks, sizes present/absent, header padding, all check ids, multi-Block, multi-Stream + padding), field-level and blind mutants, and tests/files, one-shot and randomly sliced.',
   note='PARTIAL: no theorem relates the resumable C state machines to the one-shot specification (decided by correspondence only); SHA-256 collision freedom assumed for the Index hash. Trusted: Coq kernel, tools/gen.py, extraction, generator (payloads by released liblzma 5.4.1), driver glue.',
   technique='Coq executable specification + theorems on codecs/constants; differential correspondence vs extracted spec', ref='§6 C03')
CLAIMED['C06'] = dict(
   text='Coq theorems (no axioms): any split of the input gives the same result for the resumable VLI decoder model (and it equals the one-shot decoder), the delta coder, CRC32/CRC64 and the streaming SHA-256; total_in/total_out are exact sums over any call pattern. For the remaining coders the property is decided by differential runs on the real library: every two-piece split of small valid/invalid .xz, .lzma, .lz files, 1-byte input, 1-byte output, random chunks with empty calls (status, bytes consumed, output), and encoder output compared byte for byte across slicings, thread counts 1-4, timeouts, block sizes and textual vs preset filter chains.',
   note='PARTIAL: slicing independence of the LZMA1/LZMA2/Block/Stream/simple_coder state machines and encoder determinism are explored, not proved. A genuine defect found by this check (known-size .lzma with end marker split inside the marker) was repaired in /repo (fix: commit) and is listed under fixed in known_findings.json.',
   technique='Coq proof for simple resumable machines + exhaustive two-piece-split differential runs', ref='§6 C06')
CLAIMED['C05'] = dict(
   text='Coq theorems (no axioms): CRC32 / CRC64 never collide on two equal-length messages that differ by a burst of at most 32 / 64 bits (GF(2) linearity + injectivity of the register step), and, on the container specification, any damage to the Stream Flags with the stored CRC32 intact is rejected. The remaining clauses are decided by exhaustive fault enumeration against the real decoders: every single-bit flip and every truncation length of generated .xz (each supported check, multi-Block, multi-Stream with padding), .lz and .lzma files, Stream Padding of every invalid length under many slicings (single- and multi-threaded), and random overwrite/insert/delete; the property predicates are evaluated on the implementation alone and the verdicts compared with the Coq specification.',
   note='PARTIAL: for arbitrary (non-burst) damage no theorem can exclude check collisions; truncation clause explored exhaustively per file, not proved for all files. lzip trailing-data semantics (a damaged later member becomes ignored trailing data) is exempted as the format defines it.',
   technique='Coq proof (CRC burst detection) + exhaustive single-fault enumeration', ref='§6 C05')
CLAIMED['C16'] = dict(
   text='Executable Coq specifications of .lzma (all four size/end-marker cases, picky mode), .lz (v0/v1, dictionary codes, CRC32/size/member-size, member loop, trailing data) and auto-detection, with Coq theorems (no axioms): the detection bytes 0xFD/0x4C are never valid .lzma property bytes, auto = the specific decoder selected by the first byte, .lzma followed by anything is an error under CONCATENATED, the lzip dictionary code table and the picky dictionary-size rule. Tied to the C decoders by differential runs (status, content, input position just past the end) on generated files of every flavour, one-shot and sliced.',
   note='PARTIAL: the LZMA1 core is shared with C03 (resumable decoder explored, not proved). .lz files are assembled by the harness (no encoder exists); end-marker-less .lzma streams come from the MicroLZMA encoder of the tree under test.',
   technique='Coq executable specification + theorems; differential correspondence', ref='§6 C16')
CLAIMED['C01'] = dict(
   text='Every encoder entry point (easy, stream with generated chains covering all 75 lc/lp/pb triples, dictionary sizes, five match finders, nice/depth, delta/BCJ prefixes, raw, .lzma, multithreaded, MicroLZMA with output limits, single-call) is run on inputs aimed at the code\'s boundaries (4 KiB/64 KiB/2 MiB limits, >4 MiB near-identical records, incompressible stretch with a small window, match-finder normalisation forced by a guarded hook) and every output is decoded both by the library and by the independent Coq specification decoder; output-limited MicroLZMA must yield exactly the reported prefix within the limit. Coq theorems (no axioms) give exact inverses for the delta filter, the ARM BCJ filter and the integer encoding for all inputs.',
   note='PARTIAL: match finders / optimum parser are not modelled (losslessness of the chosen symbols is certified per run by decoding); the range-coder round-trip theorem is work in progress and listed in Properties_C01 only once proved. Hook: TUKAANI_PROJECT_XZ_VERIF in lz_encoder.c.',
   technique='Coq inverse theorems for filter layers + round trip through an extracted Coq specification decoder', ref='§6 C01')
CLAIMED['C02'] = dict(
   text='Every encoder output is fed to the independent decoder written in Coq from the format documents, in strict mode (match distances below the declared dictionary size); it recomputes all size fields, CRC32s, Check, padding, Index and Backward Size, so acceptance with the exact input recovered and every byte consumed means the metadata is truthful. Coq theorems (no axioms): integer encoding canonical; the output-size bound functions are sufficient for the uncompressed-chunk fallback and wrap-free for every n; their model is checked against a table regenerated from the library on every run (thresholds by bisection). Single-call encoders are run with exactly bound(n) bytes on incompressible data around every 64 KiB boundary; multi-MiB outputs are walked chunk by chunk.',
   note='PARTIAL: that every real encoder output is accepted is explored, not proved. Trusted: Coq kernel+vm_compute, gen_bounds translator, extraction, driver glue.',
   technique='Coq proof of bound arithmetic + independent Coq specification decoder as validity oracle', ref='§6 C02')
CLAIMED['C13'] = dict(
   text='The list-of-records model named by the property is written in Coq (IndexModel.v) with theorems (no axioms) for every model value: refused operations change nothing, accepted appends respect the format limits, concatenation = list append with additive totals, iteration visits every Block exactly once in order, locate is sound and complete. The real lzma_index API is run against the extracted model on random operation histories (sizes from the whole VLI range, overflow attempts, stream flags/padding, cat, dup, prealloc 1-3 with 511/512/513/1025 records to force many tree groups, all queries, iteration in four modes, locate at every boundary +-1, encode/decode); lzma_file_info_decoder is run on generated multi-Stream padded files under five read-chunk policies, its index compared with the ground truth, every Block decoded at the offsets it gives, seeks bounded by the file size; xz --list totals compared.',
   note='PARTIAL: the AVL tree / record groups and the file_info state machine are not modelled (tied by observable results only). A genuine defect found here (lzma_index_dup lost the check mask) was repaired with a fix: commit.',
   technique='Coq list model + theorems; differential history correspondence against the extracted model', ref='§6 C13')
CLAIMED['C04'] = dict(
   text='Coq theorems (no axioms): every index read or written by the decoder\'s circular dictionary (literal write, match copy incl. the 32-byte SIMD over-copy, wrap step) stays inside the allocation for every distance the decoder lets through, with REPEAT_MAX/INIT_POS/EXTRA/MATCH_LEN_MAX regenerated from the source; a stalled caller is told on the second call and internal codes never surface (lzma_code model, tied by C11\'s exhaustive table). Memory safety, UB, assertions, leaks, hangs of the C text are explored: ASan+UBSan build with assertions enabled over every decoding/parsing entry point (stream, threaded stream incl. input ending mid-Block with slow/fast consumers, auto, .lzma, .lz, raw, stream_buffer, Block Header, Stream Header/Footer, filter flags, properties, Index, VLI, filter strings, file_info) on valid/mutated/truncated/random inputs x flags x slicings x memory limits, LeakSanitizer, watchdog, idle-call counter, documented-return-code check.',
   note='PARTIAL by nature: out-of-bounds/uninitialised/UB/leak/deadlock freedom of the C text cannot be proved with a Gallina model; only the index arithmetic and the calling protocol are. A genuine defect found (assertion in lzma_stream_buffer_decode on truncated input) was repaired with a fix: commit.',
   technique='Coq proof of dictionary index bounds + sanitizer exploration of all entry points', ref='§6 C04')
REASONS_PENDING = 'not yet built in this round (work in progress; see DESIGN.md §10 order of work)'
props = [json.loads(l) for l in open(os.path.join(V, 'properties.jsonl'))]
checks, na = [], []
for p in props:
    i = p['id']
    if i in CLAIMED:
        c = CLAIMED[i]
        checks.append(dict(property_id=i, quick_cmd='./check %s --tier quick' % i, thorough_cmd='./check %s --tier thorough' % i,
                           evidence_file='/verif/evidence/%s.json' % i, replay_cmd_template='./check %s --replay {path}' % i,
                           engine='coq-model+correspondence',
                           level_claimed=dict(category='proof', text=c['text'], design_ref=c['ref']),
                           level_note=c['note'], technique=c['technique']))
    else:
        na.append(dict(property_id=i, reason=REASONS_PENDING))
m = dict(version=1,
         setup_cmd='python3 tools/setup.py',
         hooks=dict(guard='TUKAANI_PROJECT_XZ_VERIF', enable='cmake -DCMAKE_C_FLAGS="... -DTUKAANI_PROJECT_XZ_VERIF" (variants san/hook in tools/common.py)',
                    baseline_off_cmd='cmake -G Ninja -S /repo -B /repo/_build && cmake --build /repo/_build && ctest --test-dir /repo/_build -j8 --timeout 900',
                    source_commits=[], add_only=True),
         engines=[dict(name='coq-model+correspondence', path='/verif/check', serves_properties=sorted(CLAIMED),
                       kind_free_text='Coq 8.16 theorems over hand-written Gallina models + tables regenerated from source (tools/gen.py); extracted OCaml oracle vs C drivers linked against the current tree')],
         checks=checks, not_applicable=na,
         notes='See DESIGN.md. Evidence written by ./check on every run.')
json.dump(m, open(os.path.join(V, 'MANIFEST.json'), 'w'), indent=1)
print('claimed', sorted(CLAIMED))
