#!/bin/sh
# usage: tools/try_seed_copy.sh <seed-dir-name> <check-id> [tier]
#  like try_seed.sh but leaves /repo and /verif alone: the patch is applied to the seed's scratch
#  worktree /tmp/seed/<name> and the check runs from a scratch copy of /verif with VERIF_REPO set.
name=$1; id=$2; tier=${3:-quick}
wt=/tmp/seed/$name; cp=/tmp/vs-$name-$id
[ -d $wt ] || git -C /repo worktree add --detach $wt HEAD >/dev/null 2>&1
git -C $wt checkout -- . ; git -C $wt apply /verif/seeded/$name/patch.diff || exit 2
rm -rf $cp; mkdir -p $cp
rsync -a --exclude _work --exclude .git --exclude seeded /verif/ $cp/
cd $cp
VERIF_REPO=$wt ./check $id --tier $tier > /verif/_work/seedcp_$name.$id.$tier.log 2>&1
rc=$?
git -C $wt checkout -- .
cp $cp/evidence/replays/$id-0.json /verif/_work/seedcp_$name.$id.replay.json 2>/dev/null
rm -rf $cp
grep -E "^VIOLATION|OK \(" /verif/_work/seedcp_$name.$id.$tier.log | head -3
echo "seed=$name check=$id tier=$tier rc=$rc"
