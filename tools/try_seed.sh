#!/bin/sh
# usage: tools/try_seed.sh <seed-dir-name> <check-id> [tier]
#  applies seeded/<name>/patch.diff to /repo, runs the check, reverts; the evidence file written by the
#  seeded run is moved aside (evidence/ must only ever hold records of runs on /repo itself)
name=$1; id=$2; tier=${3:-quick}
cd /verif
cp evidence/$id.json _work/evidence_$id.keep 2>/dev/null
git -C /repo apply /verif/seeded/$name/patch.diff || exit 2
./check $id --tier $tier > _work/seed_$name.$id.log 2>&1
rc=$?
git -C /repo checkout -- .
cp evidence/$id.json _work/seed_$name.$id.evidence.json 2>/dev/null
[ -f _work/evidence_$id.keep ] && mv _work/evidence_$id.keep evidence/$id.json
grep -E "^VIOLATION|^KNOWN|OK \(" _work/seed_$name.$id.log | head -5
echo "seed=$name check=$id rc=$rc"
