#!/bin/sh
# usage: tools/try_seed.sh <seed-dir-name> <check-id> [tier]   -- apply seeded/<name>/patch.diff to /repo, run check, revert
name=$1; id=$2; tier=${3:-quick}
cd /verif
git -C /repo apply /verif/seeded/$name/patch.diff || exit 2
./check $id --tier $tier > _work/seed_$name.$id.log 2>&1
rc=$?
git -C /repo checkout -- .
grep -E "^VIOLATION|^KNOWN|OK \(" _work/seed_$name.$id.log | head -5
echo "seed=$name check=$id rc=$rc"
