"""Shared machinery for the /verif checks: builds of /repo's working tree,
Coq re-check, oracle build, evidence, violation reporting."""
import fcntl, hashlib, json, os, random, re, shutil, subprocess, sys, time

VERIF = os.path.dirname(os.path.dirname(os.path.abspath(__file__)))
REPO = os.environ.get('VERIF_REPO', '/repo')
WORK = os.path.join(VERIF, '_work')
COQ = os.path.join(VERIF, 'coq')
GUARD = 'TUKAANI_PROJECT_XZ_VERIF'
NCPU = os.cpu_count() or 4

VARIANTS = {
    # CLI behaviour, speed, NDEBUG like a release build; guard OFF
    'plain': dict(btype='RelWithDebInfo', cflags='-Wno-error'),
    # ASan+UBSan, assertions enabled, hooks ON
    'san': dict(btype='None', cflags='-Wno-error -O1 -g -fsanitize=address,undefined '
                '-fno-sanitize-recover=all -fno-omit-frame-pointer -UNDEBUG -D' + GUARD),
    # plain optimisation but hooks ON and assertions enabled (fast white-box drivers)
    'hook': dict(btype='None', cflags='-Wno-error -O2 -g -UNDEBUG -D' + GUARD),
    # ThreadSanitizer build (data races in the threaded coders), hooks ON
    'tsan': dict(btype='None', cflags='-Wno-error -O1 -g -fsanitize=thread -fno-omit-frame-pointer -UNDEBUG -D' + GUARD, tools_off=True),
    # as 'hook', with every pthread synchronisation call of mythread.h routed through harness/sched_perturb.c
    'mt': dict(btype='None', cflags='-Wno-error -O2 -g -UNDEBUG -D' + GUARD +
               ' -Dpthread_mutex_lock=verif_mutex_lock -Dpthread_mutex_unlock=verif_mutex_unlock'
               ' -Dpthread_cond_wait=verif_cond_wait -Dpthread_cond_timedwait=verif_cond_timedwait'
               ' -Dpthread_cond_signal=verif_cond_signal', tools_off=True),
}

class Lock:
    def __init__(self, name):
        os.makedirs(WORK, exist_ok=True)
        self.path = os.path.join(WORK, name + '.lock')
    def __enter__(self):
        self.f = open(self.path, 'w')
        fcntl.flock(self.f, fcntl.LOCK_EX)
        return self
    def __exit__(self, *a):
        fcntl.flock(self.f, fcntl.LOCK_UN)
        self.f.close()

def run(cmd, timeout=600, **kw):
    return subprocess.run(cmd, timeout=timeout, stdout=subprocess.PIPE,
                          stderr=subprocess.STDOUT, text=True, **kw)

def build(variant):
    """(Re)build /repo's current working tree; returns the build dir.
    One directory per variant, ninja decides what is stale."""
    v = VARIANTS[variant]
    bdir = os.path.join(WORK, 'build-' + variant)
    with Lock('build-' + variant):
        if not os.path.exists(os.path.join(bdir, 'build.ninja')):
            shutil.rmtree(bdir, ignore_errors=True)
            r = run(['cmake', '-G', 'Ninja', '-S', REPO, '-B', bdir,
                     '-DCMAKE_BUILD_TYPE=' + v['btype'],
                     '-DCMAKE_EXPORT_COMPILE_COMMANDS=ON',
                     '-DCMAKE_C_FLAGS=' + v['cflags'],
                     '-DXZ_NLS=OFF', '-DXZ_DOC=OFF', '-DBUILD_TESTING=OFF', '-DXZ_SANDBOX=no'] +
                    (['-DXZ_TOOL_XZ=OFF', '-DXZ_TOOL_XZDEC=OFF', '-DXZ_TOOL_LZMADEC=OFF', '-DXZ_TOOL_LZMAINFO=OFF', '-DXZ_TOOL_SCRIPTS=OFF'] if v.get('tools_off') else []))
            if r.returncode != 0:
                raise BuildError('cmake configure failed:\n' + r.stdout[-3000:])
        r = run(['cmake', '--build', bdir, '-j', str(NCPU)], timeout=1200)
        if r.returncode != 0:
            raise BuildError('build failed:\n' + r.stdout[-3000:])
    return bdir

class BuildError(Exception):
    pass

def cc_flags(bdir, suffix='src/liblzma/common/index.c'):
    """Compile flags cmake uses for a given source (for white-box drivers)."""
    cc = json.load(open(os.path.join(bdir, 'compile_commands.json')))
    for e in cc:
        if e['file'].endswith(suffix):
            import shlex
            toks = shlex.split(e['command'])
            out = []
            skip = False
            for t in toks[1:]:
                if skip:
                    skip = False; continue
                if t in ('-o', '-c'):
                    skip = True; continue
                if t.startswith('-W') and t != '-Wno-error':
                    continue
                out.append(t)
            return out
    raise BuildError('no compile command for ' + suffix)

def compile_driver(variant, src, out_name, whitebox_of='src/liblzma/common/index.c',
                   extra=(), link_lib=True):
    """Compile harness/<src> against the build of `variant`.  Rebuilt when the
    driver source, the library archive or the flags changed."""
    bdir = build(variant)
    odir = os.path.join(WORK, 'drv-' + variant)
    os.makedirs(odir, exist_ok=True)
    out = os.path.join(odir, out_name)
    srcp = os.path.join(VERIF, 'harness', src)
    flags = cc_flags(bdir, whitebox_of)
    cmd = ['cc'] + flags + ['-w', '-I' + os.path.join(VERIF, 'harness')] + list(extra) + [srcp, '-o', out]
    if link_lib:
        cmd += [os.path.join(bdir, 'liblzma.a')]
    if variant == 'mt':
        pobj = os.path.join(odir, 'sched_perturb.o')
        r0 = run(['cc', '-O1', '-c', os.path.join(VERIF, 'harness', 'sched_perturb.c'), '-o', pobj])
        if r0.returncode != 0:
            raise BuildError('sched_perturb compile failed: ' + r0.stdout[-2000:])
        cmd += [pobj]
    cmd += ['-lpthread']
    with Lock('drv-' + variant + '-' + out_name):
        r = run(cmd, timeout=600)
    if r.returncode != 0:
        raise BuildError('driver compile failed (%s):\n%s' % (src, r.stdout[-4000:]))
    return out

# ---------------------------------------------------------------- Coq

def write_if_changed(path, text):
    try:
        if open(path).read() == text:
            return False
    except FileNotFoundError:
        pass
    os.makedirs(os.path.dirname(path), exist_ok=True)
    tmp = path + '.tmp%d' % os.getpid()
    open(tmp, 'w').write(text)
    os.replace(tmp, path)
    return True

def coq_makefile():
    """_CoqProject lists every .v under coq/ (regenerated when the set changes)."""
    vs = []
    for root, _, files in os.walk(COQ):
        for f in files:
            if f.endswith('.v') and not f.startswith('.'):
                vs.append(os.path.relpath(os.path.join(root, f), COQ))
    vs.sort()
    text = ('-Q . XZ\n-arg -w -arg -notation-overridden,-deprecated-hint-without-locality,'
            '-deprecated-syntactic-definition,-deprecated-instance-without-locality\n' + '\n'.join(vs) + '\n')
    ch = write_if_changed(os.path.join(COQ, '_CoqProject'), text)
    if ch or not os.path.exists(os.path.join(COQ, 'Makefile')):
        run(['coq_makefile', '-f', '_CoqProject', '-o', 'Makefile'], cwd=COQ)

FORBIDDEN = re.compile(r'\b(Admitted|admit|Axiom|Parameter|Conjecture|Unset Guard|bypass_check|type-in-type|impredicative-set|Admit Obligations)\b')

def coq_lint():
    bad = []
    for root, _, files in os.walk(COQ):
        for f in files:
            if f.endswith('.v'):
                p = os.path.join(root, f)
                for i, line in enumerate(open(p), 1):
                    l = re.sub(r'\(\*.*?\*\)', '', line)
                    if FORBIDDEN.search(l):
                        bad.append('%s:%d: %s' % (p, i, line.strip()))
    return bad

def coq_check(prop_file, timeout=1500):
    """Re-check coq/<prop_file>.v and everything it depends on (make decides
    what is stale after Gen/*.v were regenerated).  Returns dict with ok,
    theorems [(name, assumptions)], log."""
    with Lock('coq'):
        coq_makefile()
        vo = prop_file + '.vo'
        try:
            os.remove(os.path.join(COQ, vo))
        except FileNotFoundError:
            pass
        t0 = time.time()
        try:
            r = run(['make', '-k', '-j', str(NCPU), vo], cwd=COQ, timeout=timeout)
            log, rc = r.stdout, r.returncode
        except subprocess.TimeoutExpired as e:
            log, rc = 'TIMEOUT\n' + (e.stdout or ''), 124
    src = open(os.path.join(COQ, prop_file + '.v')).read()
    names = re.findall(r'^\s*Theorem\s+(\w+)', src, re.M)
    # Print Assumptions output: "Closed under the global context" or "Axioms:\n..."
    assum = {}
    blocks = re.split(r'\n(?=Closed under the global context|Axioms:)', log)
    pa = re.findall(r'Print Assumptions\s+(\w+)', src)
    outs = [b for b in blocks if b.startswith('Closed under') or b.startswith('Axioms:')]
    for n, b in zip(pa, outs):
        if b.startswith('Closed'):
            assum[n] = []
        else:
            ax = []
            for line in b.split('\n')[1:]:
                m = re.match(r'^(\S+)\s*:', line)
                if m: ax.append(m.group(1))
                elif not line.startswith(' ') and line.strip() and not re.match(r'^\S+\s*$', line):
                    break
            assum[n] = ax
    ok = (rc == 0 and os.path.exists(os.path.join(COQ, vo)))
    failing = None
    if not ok:
        m = re.search(r'File "([^"]+)", line (\d+)', log)
        failing = (m.group(1) + ':' + m.group(2)) if m else 'unknown'
    return dict(ok=ok, theorems=names, assumptions=assum, log=log, wall=time.time() - t0,
                failing=failing,
                checker_cmd='make -C coq %s (coqc 8.16.1, full .vo build, Print Assumptions per theorem)' % vo)

def oracle():
    """Extracted OCaml oracle binary (rebuilt when Extract.vo changed)."""
    odir = os.path.join(VERIF, 'oracle')
    exe = os.path.join(odir, '_build', 'xzmodel')
    with Lock('coq'):
        coq_makefile()
        r = run(['make', '-j', str(NCPU), 'Extract.vo'], cwd=COQ, timeout=1500)
        if r.returncode != 0:
            raise BuildError('Extract.vo failed:\n' + r.stdout[-3000:])
        ml = os.path.join(COQ, 'xzmodel.ml')
        os.makedirs(os.path.join(odir, '_build'), exist_ok=True)
        stamp = os.path.join(odir, '_build', 'stamp')
        key = hashlib.sha256(open(ml, 'rb').read() + open(os.path.join(odir, 'driver.ml'), 'rb').read()).hexdigest()
        if not os.path.exists(exe) or not os.path.exists(stamp) or open(stamp).read() != key:
            for f in ('xzmodel.ml', 'xzmodel.mli'):
                shutil.copy(os.path.join(COQ, f), os.path.join(odir, '_build', f))
            shutil.copy(os.path.join(odir, 'driver.ml'), os.path.join(odir, '_build', 'driver.ml'))
            r = run(['ocamlfind', 'ocamlopt', '-O3', '-w', '-a', '-package', 'str', '-linkpkg', 'xzmodel.mli', 'xzmodel.ml', 'driver.ml', '-o', 'xzmodel'],
                    cwd=os.path.join(odir, '_build'))
            if r.returncode != 0:
                r = run(['ocamlfind', 'ocamlopt', '-w', '-a', '-package', 'str', '-linkpkg', 'xzmodel.mli', 'xzmodel.ml', 'driver.ml', '-o', 'xzmodel'],
                        cwd=os.path.join(odir, '_build'))
            if r.returncode != 0:
                raise BuildError('oracle build failed:\n' + r.stdout[-3000:])
            open(stamp, 'w').write(key)
    return exe

# ---------------------------------------------------------------- reporting

class Ctx:
    def __init__(self, pid, tier, seed):
        self.pid, self.tier, self.seed = pid, tier, seed
        self.rng = random.Random(seed)
        self.t0 = time.time()
        self.violations = []      # (what, replay_path, found_input)
        self.known = []
        self.cov = dict(evaluations=0, distinct_nontrivial=0, samples=[], rule='')
        self.assumptions = []
        self.kf = load_known()
        os.makedirs(os.path.join(VERIF, 'evidence', 'replays'), exist_ok=True)

    def quick(self):
        return self.tier == 'quick'

    def violation(self, what, replay_obj, found_input=True, key=None):
        """Report a violation unless `key` is listed in known_findings.json."""
        if key is not None:
            for k in self.kf.get('known', []):
                if k['property'] == self.pid and k['key'] == key:
                    msg = 'KNOWN-FINDING: property=%s %s' % (self.pid, k['what'])
                    if msg not in self.known:
                        self.known.append(msg)
                        print(msg, flush=True)
                    return
        n = len(self.violations)
        path = os.path.join(VERIF, 'evidence', 'replays', '%s-%d.json' % (self.pid, n))
        replay_obj = dict(replay_obj)
        replay_obj['what'] = what
        replay_obj['property'] = self.pid
        json.dump(replay_obj, open(path, 'w'), indent=1)
        self.violations.append((what, path, found_input))
        if n < 5:
            print('VIOLATION property=%s replay=%s%s' % (self.pid, path, '' if found_input else ' no-failing-input-found'), flush=True)
            print('  ' + what[:400], flush=True)

    def proof(self, res, trusted):
        self.cov['obligations'] = len(res['theorems'])
        self.cov['discharged'] = len(res['theorems']) if res['ok'] else 0
        self.cov['checker_cmd'] = res['checker_cmd']
        self.cov['theorems'] = res['theorems']
        self.cov['print_assumptions'] = res['assumptions']
        self.cov['trusted_base'] = trusted
        self.cov['coq_wall_s'] = round(res['wall'], 1)

    def finish(self, level='proof'):
        ev = dict(property_id=self.pid, tier=self.tier, seed=self.seed, level=level,
                  coverage=self.cov, assumptions=self.assumptions,
                  wall_s=round(time.time() - self.t0, 2), violations=len(self.violations),
                  known_findings=self.known)
        if not self.cov['samples']:
            self.cov['samples'] = ['(none)']
        json.dump(ev, open(os.path.join(VERIF, 'evidence', self.pid + '.json'), 'w'), indent=1, default=str)
        if self.violations:
            print('%s: %d violation(s)' % (self.pid, len(self.violations)))
            return 1
        print('%s: OK (%d evaluations, %d obligations, %.1fs)' % (
            self.pid, self.cov.get('evaluations', 0), self.cov.get('obligations', 0), time.time() - self.t0))
        return 0

def load_known():
    try:
        return json.load(open(os.path.join(VERIF, 'known_findings.json')))
    except FileNotFoundError:
        return {'known': [], 'fixed': []}

def hexs(b):
    return bytes(b).hex()
