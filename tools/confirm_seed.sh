#!/bin/sh
# usage: tools/confirm_seed.sh <name>   (worktree /tmp/seed/<name>, deliverables in OUT/)
# confirms: demo passes on the clean worktree, fails with the patch; copies to /verif/seeded/<name>
n=$1; wt=/tmp/seed/$n
cd $wt || exit 2
git checkout -- . 2>/dev/null
cmake --build _b -j6 >/dev/null 2>&1
B=$wt/_b S=$wt sh OUT/build.sh >/tmp/seed/$n.clean.log 2>&1; c=$?
git apply OUT/patch.diff || { echo "$n: patch does not apply"; exit 2; }
cmake --build _b -j6 >/dev/null 2>&1
B=$wt/_b S=$wt sh OUT/build.sh >/tmp/seed/$n.patched.log 2>&1; p=$?
git checkout -- .
echo "$n: clean=$c patched=$p"
if [ $c = 0 ] && [ $p != 0 ]; then
  mkdir -p /verif/seeded/$n && cp OUT/* /verif/seeded/$n/ && echo "$n: kept"
fi
