"""Shared helpers: run the Coq oracle and the real decoders on byte strings."""
import subprocess, resource, os
from common import *

RET = {'ok': 1, 'data': 9, 'format': 7, 'options': 8, 'trunc': 10, 'fuel': -1}
def same_verdict(st, ret):
    """specification status vs lzma_ret.  DATA_ERROR and 'needs more input' are one rejection class:
    for invalid input the point at which the real decoders notice the error (before or after running
    out of input) legitimately depends on internal buffering."""
    if st in ('data', 'trunc'): return ret in (9, 10)
    return RET[st] == ret

LZMA_CONCATENATED = 0x08
LZMA_TELL_ANY_CHECK = 0x04

def _unl():
    resource.setrlimit(resource.RLIMIT_STACK, (resource.RLIM_INFINITY, resource.RLIM_INFINITY))

def run_lines(exe, lines, timeout=3000, shards=None, args=()):
    """run a line-protocol binary over `lines` on several processes"""
    if not lines: return [], []
    shards = shards or min(NCPU, max(1, len(lines) // 40))
    chunks = [lines[i::shards] for i in range(shards)]
    procs = []
    for c in chunks:
        p = subprocess.Popen([exe] + list(args), stdin=subprocess.PIPE, stdout=subprocess.PIPE, stderr=subprocess.PIPE, text=True, preexec_fn=_unl)
        procs.append(p)
    import threading
    outs = [None] * shards; errs = [None] * shards
    def work(i):
        o, e = procs[i].communicate('\n'.join(chunks[i]) + '\n', timeout=timeout)
        outs[i] = o; errs[i] = e
    th = [threading.Thread(target=work, args=(i,)) for i in range(shards)]
    for t in th: t.start()
    for t in th: t.join()
    res = [None] * len(lines)
    failures = []
    for i in range(shards):
        o = (outs[i] or '').split('\n')
        if o and o[-1] == '': o.pop()
        if procs[i].returncode != 0 or len(o) != len(chunks[i]):
            # the line after the last answered one is the culprit
            bad = chunks[i][len(o)] if len(o) < len(chunks[i]) else None
            failures.append((bad, (errs[i] or '')[-3000:], procs[i].returncode))
        for j, x in enumerate(o):
            if j < len(chunks[i]): res[i + j * shards] = x
    return res, failures

def oracle_dec(orc, cmd, blobs, timeout=3000):
    """cmd like 'xzdec 1' -> list of (status, used, out bytes)"""
    lines = ['%s %s' % (cmd, b.hex() or '-') for b in blobs]
    res, fails = run_lines(orc, lines, timeout)
    if fails: raise BuildError('oracle failed: %r' % (fails[0],))
    out = []
    for r in res:
        st, used, hx = r.split()
        out.append((st, int(used), bytes.fromhex(hx) if hx != '-' else b''))
    return out

def impl_dec(drv, kind, flags, mode, seed, blobs, memlimit=0, timeout=3000, prior=None):
    """-> (list of (ret, total_in, total_out, calls, out bytes) or None, failures)"""
    lines = ['dec %d %d %d %d %d %s' % (kind, flags, mode if not callable(mode) else mode(i), seed if not callable(seed) else seed(i), memlimit, b.hex() or '-') + (' ' + prior.hex() if prior else '') for i, b in enumerate(blobs)]
    res, fails = run_lines(drv, lines, timeout)
    out = []
    for r in res:
        if r is None: out.append(None); continue
        t = r.split()
        out.append((int(t[0]), int(t[1]), int(t[2]), int(t[3]), bytes.fromhex(t[4]) if t[4] != '-' else b''))
    return out, fails
