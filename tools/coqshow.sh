#!/bin/sh
# usage: coqshow.sh File.v LINE  -- show goal before LINE (replaces that line by Show. then aborts)
f=$1; n=$2
sed "${n}s/.*/  Show. Abort. Goal True. idtac \"STOP\". Abort./" "$f" | head -n $((n)) > /tmp/_D.v
cd "$(dirname "$f")" && timeout 120 coqtop -Q . XZ -batch -l /tmp/_D.v 2>&1 | tail -40
