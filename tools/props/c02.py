"""C02: encoder output is a valid instance of the published file formats."""
from common import *
from decode_common import *
from enc_common import *
import xzgen, gen

TRUSTED = [
 'Coq 8.16.1 kernel; vm_compute for the bound table; no native_compute', 'axioms: none',
 'theorem xz_stream_is_valid_and_lossless: the specification decoder accepts every Stream the container model writes (plain LZMA2 chain, Check None/CRC32/CRC64/SHA-256), consumes exactly its bytes and returns the Block contents; tied to the real encoder by xzsyms: real single-threaded encoder files (multi-Block via full flush) = stream_bytes of their traced structure',
 'independent decoder = the Coq specification (Xz.v etc., strict: match distances must be below the DECLARED dictionary size); it recomputes sizes, CRC32s, Check, padding, Index and Backward Size from the data, so acceptance means truthful metadata',
 'translator: harness/gen_bounds.c prints lzma_block_buffer_bound/lzma_stream_buffer_bound around every branch (thresholds by bisection on the real functions); the Coq model must reproduce the table',
 'match finder / optimum parser not modelled: validity of each produced stream is decided per run by the specification decoder',
]

def run(ctx):
    rng = ctx.rng
    gen.gen_consts(); gen.gen_bounds()
    res = coq_check('Properties_C02')
    ctx.proof(res, TRUSTED)
    orc = oracle()
    enc = compile_driver('hook', 'drv_enc.c', 'drv_enc')
    inputs = [d for d in gen_inputs(rng, True) if len(d) <= (12000 if ctx.quick() else 70000)]
    chains = gen_chain_strings(rng, 8 if ctx.quick() else 100)
    lines, meta = [], []
    for d in inputs:
        def slc(): return rng.choice([0, 3, 2, 2]) if len(d) <= 20000 else rng.choice([0, 3])      # 2 = one output byte per call: a call ends inside every field, header, padding and footer
        for p in ([0, 3, 6] if ctx.quick() else range(10)):
            chk = rng.choice([0, 1, 4, 10]); lines.append('enc 0 %d %d %d - %s' % (p | (chk << 8), slc(), rng.randrange(99999), d.hex() or '-')); meta.append((d, 'easy %d check %d' % (p, chk), 'xz'))
        for fs, dsz in rng.sample(chains, 3):
            chk = rng.choice([0, 1, 4, 10]); lines.append('enc 4 %d %d %d %s %s' % (chk << 8, slc(), rng.randrange(99999), fs, d.hex() or '-')); meta.append((d, 'stream ' + fs, 'xz'))
        th = rng.randrange(4); bs = rng.choice([1, 2, 4])
        lines.append('enc 1 %d %d %d - %s' % (1 | (4 << 8) | (th << 12) | (bs << 20), slc(), rng.randrange(99999), d.hex() or '-')); meta.append((d, 'mt threads %d block %d' % (th + 1, bs * 4096), 'xz'))
        lines.append('enc 2 %d %d %d - %s' % (rng.choice([0, 2, 6]), slc(), rng.randrange(99999), d.hex() or '-')); meta.append((d, 'alone', 'alone'))
        if len(d) <= 20000: lines.append('enc 2 %d 2 0 - %s' % (rng.choice([0, 1]), d.hex() or '-')); meta.append((d, 'alone, one output byte per call', 'alone'))
    # declared dictionary size: sizes that are not of the form 2^n / 3*2^(n-1) must be rounded UP in the LZMA2 properties byte;
    # data that repeats at a distance between the next lower encodable size and the requested size has matches there
    for dsz, per in ((20480, 18000), (4097, 4097), (40000, 36000), (5000, 4600), (98304 + 7, 98304 + 3)):
        if ctx.quick() and dsz > 50000: continue
        blk = bytes(rng.getrandbits(8) for _ in range(per))
        d = blk + blk[:min(per, 3000)]
        for mfm in ('mf=bt4,mode=normal,nice=273', 'mf=hc4,mode=fast,nice=64'):
            lines.append('enc 4 %d 0 %d lzma2:dict=%d,%s %s' % (1 << 8, rng.randrange(99999), dsz, mfm, d.hex())); meta.append((d, 'stream dict=%d, repeat distance %d' % (dsz, per), 'xz'))
    # single-call encoders with exactly bound(n) bytes of output space, incompressible data around chunk boundaries
    for n in [0, 1, 2, 4095, 65535, 65536, 65537, 131071, 131072, 131073] + ([] if ctx.quick() else [200000, 262144, 1 << 20]):
        d = bytes(rng.getrandbits(8) for _ in range(n))
        for k, cfg in ((6, 4 << 8), (7, 0 | (1 << 8)), (7, 6 | (10 << 8))):
            lines.append('enc %d %d 0 0 - %s' % (k, cfg, d.hex() or '-')); meta.append((d, 'single-call kind %d with out_size = bound(%d)' % (k, n), 'xz-bound'))
    # large highly compressible input: chunk-level structural walk (the spec decoder is too slow for 4 MiB)
    recs, inc = special_inputs(rng)
    big = [('enc 0 %d 0 0 - %s' % (6 | (4 << 8), recs.hex()), recs, 'easy preset 6 on 4.3 MiB records'),
           ('enc 4 %d 0 0 lzma2:dict=16KiB,mode=normal,mf=bt4,nice=64 %s' % (1 << 8, inc.hex()), inc, 'small window + incompressible stretch')]
    bouts, bf = run_lines(enc, [b[0] for b in big], shards=2)
    big_viol = []
    for (ln, d, lab), o in zip(big, bouts):
        if o is None or o.split()[0] != '1':
            big_viol.append(dict(why='encoder failed', label=lab, file='')); continue
        b = bytes.fromhex(o.split()[1])
        try:
            hs = (b[12] + 1) * 4
            chunks = xzgen.split_lzma2(b[12 + hs:])
            tot = 0
            for c in chunks:
                if c[0] >= 0x80:
                    us = (((c[0] & 0x1F) << 16) | (c[1] << 8) | c[2]) + 1; cs = ((c[3] << 8) | c[4]) + 1
                    if us > (1 << 21) or cs > (1 << 16): raise ValueError('chunk limits exceeded: %d/%d' % (us, cs))
                    tot += us
                elif c[0] in (1, 2): tot += ((c[1] << 8) | c[2]) + 1
                else: raise ValueError('illegal control byte %d' % c[0])
            if tot != len(d): raise ValueError('LZMA2 chunk sizes sum to %d, input is %d' % (tot, len(d)))
            import lzma as _l
            if _l.decompress(b, format=_l.FORMAT_XZ) != d: raise ValueError('released liblzma decodes it to different data')
        except Exception as ex:
            big_viol.append(dict(why='large output is not a valid stream: %s' % ex, label=lab, file=''))
    # encoder action histories: flushes and mid-stream filter updates (new lc/lp/pb after a sync flush, new chains
    # after a full flush); the stream that comes out must still be a valid, truthful .xz file
    fl = compile_driver('hook', 'drv_flush.c', 'drv_flush')
    flines, fmeta = [], []
    for i in range(40 if ctx.quick() else 600):
        n = rng.choice([300, 2000, rng.randrange(200, 9000)])
        d = (xzgen.gen_data(rng, max(1, n // 6)) * 7)[:n]
        steps = []; left = n
        for j in range(rng.randrange(1, 5)):
            k = rng.randrange(1, max(2, left // 2)); left -= k
            a = rng.choice('SSF')
            steps.append('%s%d' % (a, k))
            lc = rng.randrange(5); lp = rng.randrange(5 - lc); pb = rng.randrange(5)
            if rng.random() < 0.4: steps.append('T%d' % rng.choice([1, 2, 3, 5, 8, 11, 13]))      # a few bytes into whatever comes next (a Block Header after a full flush), then the update request
            if a == 'S': steps.append('Ulzma2:dict=4KiB,lc=%d,lp=%d,pb=%d' % (lc, lp, pb))
            else: steps.append(rng.choice(['Ulzma2:dict=8KiB,lc=%d,lp=%d,pb=%d' % (lc, lp, pb), 'Udelta:dist=%d+lzma2:dict=4KiB' % rng.randrange(1, 257)]))
        steps.append('R%d' % left)
        sc = ';'.join(steps)
        flines.append('flush 4 %d %d lzma2:dict=4KiB %s %s' % (rng.choice([0, 1, 4, 10]) << 8, rng.randrange(1 << 20), sc, d.hex())); fmeta.append((d, 'stream_encoder history ' + sc, 'xz'))
    # directed: a full flush, then a call that leaves the next Block Header partly written (1..13 bytes of output space),
    # then an update request (which must be refused or must not disturb the header already started), then the rest
    for j_ in (1, 2, 3, 5, 8, 11, 13):
        for upd in ('Ulzma2:dict=64KiB', 'Udelta:dist=2+lzma2:dict=4KiB', 'Ulzma2:dict=4KiB,lc=1,lp=1,pb=1'):
            d = (xzgen.gen_data(rng, 200) * 7)[:1200]; k = rng.randrange(1, 600)
            sc = 'F%d;T%d;%s;R%d' % (k, j_, upd, len(d) - k)
            flines.append('flush 4 %d %d lzma2:dict=4KiB %s %s' % (rng.choice([0, 1, 4, 10]) << 8, rng.randrange(1 << 20), sc, d.hex())); fmeta.append((d, 'stream_encoder history ' + sc, 'xz'))
    fouts, ff = run_lines(fl, flines)
    for f in ff: ctx.violation('encoder crashed in a flush history', {'line': (f[0] or '')[:20000], 'stderr': f[1], 'kind': 'crash'})
    hist_out = []
    for (d, lab, kind), o in zip(fmeta, fouts):
        if o is None: continue
        parts = o.split('|')
        if len(parts) == 3 and parts[0].strip() == '0' and parts[1].split() and parts[1].split()[-1].endswith(':1'):
            hist_out.append((d, lab, parts[2].strip()))
    # ---- container model: files written by the single-threaded Stream encoder for the LZMA2 chain with or without a Delta filter (one or several
    # Blocks via LZMA_FULL_FLUSH; Check None/CRC32/CRC64/SHA-256) must be byte for byte the model serialisation stream_bytes (subject
    # of xz_stream_is_valid_and_lossless) of the Blocks, chunks and symbols read from them
    xl, xm = [], []
    for i in range(16 if ctx.quick() else 300):
        n = rng.choice([0, 1, 100, 2500, rng.randrange(0, 8000)])
        d = (xzgen.gen_data(rng, max(1, n // 6)) * 7)[:n] if rng.random() < 0.7 else bytes(rng.getrandbits(8) for _ in range(n))
        steps = []; left = n
        for j in range(rng.randrange(0, 4)):
            k = rng.randrange(0, left + 1); left -= k; steps.append('%s%d' % (rng.choice('FFS'), k))
        steps.append('R%d' % left)
        fs_ = rng.choice(['', '', 'delta:dist=%d+' % rng.choice([1, 2, 4, 255, 256, rng.randrange(1, 257)])]) + 'lzma2:dict=%s,lc=%d,lp=%d,pb=%d,mf=%s' % (rng.choice(['4KiB', '64KiB', '1MiB', '12KiB']), rng.randrange(4), 0, rng.randrange(5), rng.choice(['hc4', 'bt4']))
        xl.append('flush 4 %d %d %s %s %s' % (rng.choice([0, 1, 4, 10]) << 8, rng.randrange(1 << 20), fs_, ';'.join(steps), d.hex() or '-')); xm.append((d, fs_ + ' ' + ';'.join(steps)))
    # SHA-256 Check over every length residue modulo the 64-byte hash block (padding boundaries at 55/56 and 63/64), one and two Blocks
    for n in range(0, 131):
        d = bytes(rng.getrandbits(8) for _ in range(n)); k = rng.randrange(0, n + 1)
        st_ = 'R%d' % n if n % 3 else 'F%d;R%d' % (k, n - k)
        xl.append('flush 4 %d %d lzma2:dict=4KiB,lc=3,lp=0,pb=2,mf=hc4 %s %s' % (10 << 8, rng.randrange(1 << 20), st_, d.hex() or '-')); xm.append((d, 'sha256 length sweep ' + st_))
    xo, xf = run_lines(fl, xl)
    for f in xf: ctx.violation('encoder crashed in a flush history', {'line': (f[0] or '')[:20000], 'stderr': f[1], 'kind': 'crash'})
    xt, xtm = [], []
    for (d, lab), o in zip(xm, xo):
        if o is None: continue
        parts = o.split('|')
        if len(parts) == 3 and parts[0].strip() == '0' and parts[1].split() and parts[1].split()[-1].endswith(':1'):
            xt.append('xzsyms ' + parts[2].strip()); xtm.append((d, lab, parts[2].strip()))
    xto, xtf = run_lines(orc, xt)
    if xtf: raise BuildError('oracle failed %r' % (xtf[0],))
    container_viol = []
    nblocks = 0
    for (d, lab, hx), o in zip(xtm, xto):
        t = o.split()
        if t[0] != 'ok' or (bytes.fromhex(t[3]) if t[3] != '-' else b'') != d:
            container_viol.append(dict(why='the .xz file written by the Stream encoder is not the model serialisation of its own Blocks (%s): the proven container model no longer describes the encoder, or the file does not hold the input' % ' '.join(t[:3]), label=lab, file=d.hex(), stream=hx[:100000]))
        else: nblocks += int(t[2].split(';')[0].split('=')[1])
    outs, fails = run_lines(enc, lines)
    for f in fails: ctx.violation('encoder crashed', {'line': (f[0] or '')[:20000], 'stderr': f[1], 'kind': 'crash'})
    viol = list(big_viol) + container_viol; olines, ometa = [], []
    for (d, lab, kind), o in zip(meta, outs):
        if o is None: continue
        t = o.split()
        ok = '0' if kind == 'xz-bound' else '1'
        if t[0] != ok:
            viol.append(dict(why='encoder failed with %s%s' % (t[0], ' although the output buffer had the size returned by the bound function' if kind == 'xz-bound' else ''), label=lab, file=d.hex())); continue
        b = t[1]
        if kind == 'xz-bound' and len(d) > 70000: continue
        olines.append(('alonedec 0 ' if kind == 'alone' else 'xzdec_strict 0 ') + b); ometa.append((d, lab, b))
    for d, lab, hx in hist_out:
        olines.append('xzdec_strict 0 ' + hx); ometa.append((d, lab, hx))
    oouts, of = run_lines(orc, olines)
    if of: raise BuildError('oracle failed %r' % (of[0],))
    distinct = set()
    for (d, lab, b), o in zip(ometa, oouts):
        st, used, hx = o.split(); got = bytes.fromhex(hx) if hx != '-' else b''
        distinct.add((lab.split(' ')[0], len(d) // 256))
        if st != 'ok' or got != d or used != str(len(b) // 2 if b != '-' else 0):
            viol.append(dict(why='the independent format decoder says %s (consumed %s of %d, %d bytes out, expected %d): output is not a valid/truthful instance of the format' % (st, used, len(b) // 2, len(got), len(d)), label=lab, file=d.hex(), stream=b[:200000]))
    ctx.cov['evaluations'] = len(lines) + len(olines)
    ctx.cov['distinct_nontrivial'] = len(distinct)
    ctx.cov['rule'] = 'outputs of easy/stream/MT/alone/single-call encoders over presets, generated chains and inputs; each output must be accepted by the strict Coq specification decoder with the exact input recovered and every byte consumed; single-call encoders get exactly bound(n) bytes for incompressible n around 64 KiB multiples; distinct = (encoder, size/256)'
    ctx.cov['input_distribution'] = dict(encodes=len(lines), spec_decodes=len(olines), container_traces=len(xt), container_blocks=nblocks)
    ctx.cov['samples'] = [meta[0][1], meta[-1][1]]
    if viol:
        v = min(viol, key=lambda x: len(x['file']))
        ctx.violation('C02 %s [%s]' % (v['why'], v['label']), v)
    if not res['ok'] and not viol:
        ctx.violation('proof obligation of Properties_C02 no longer checks (%s): the model of the bound functions / constants no longer matches the library' % res['failing'],
                      {'theorem_file': 'coq/Properties_C02.v', 'failing': res['failing'], 'log_tail': res['log'][-3000:]}, found_input=False)

def replay(ctx, path):
    import json
    print(json.dumps(json.load(open(path)), indent=1)[:3000]); return 0
