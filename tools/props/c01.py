"""C01: compression is lossless for every input and every accepted configuration."""
from common import *
from decode_common import *
from enc_common import *
import xzgen, gen

TRUSTED = [
 'Coq 8.16.1 kernel; no native_compute', 'axioms: none',
 'theorems (Properties_C01.v): exact round trips of the layers that are proved (delta, ARM BCJ, VLI, LZMA2 uncompressed-chunk bound); range coder: rc_roundtrip_adaptive (concrete encoder model of range_encoder.h, with C integer widths and carry propagation, followed by the decoder model of range_decoder.h returns every bit sequence under every context-selection program, consuming exactly the bytes written, final code 0)',
 'LZMA symbol layer: lzma_symbol_coding_lossless (+ known-size variant): for every valid symbol sequence, lc/lp/pb and start state the decoder specification run on encode(enc_run syms ++ end marker) rebuilds the expansion, stops Finished and consumes exactly those bytes; tied to lzma_encoder.c by re-serialising, with the extracted model encoder, the symbols traced from every real raw-LZMA1 output (must reproduce the bytes exactly)',
 'LZMA2 layer: lzma2_stream_lossless (LZMA chunks with all four reset levels, stored chunks, end byte; decoder specification consumes exactly the bytes and rebuilds the expansions); tied to lzma2_encoder.c by re-serialising the chunks traced from real raw-LZMA2 outputs incl. sync-flush and property-change histories',
 'correspondence for the range coder: harness/drv_rc.c drives the real rc_bit/rc_direct/rc_flush/rc_encode white-box with 0..4-byte output buffers; its bytes must equal RcEnc.encode (extracted) on the same decisions',
 'independent decoder: the Coq specification decoder (Xz.v/Lzma*.v, extracted) decodes the real encoder output back to the input; the library\'s own decoder is run as well',
 'NOT modelled: match finders, optimum parser, price tables (losslessness of the symbol choice is certified per run by decoding); threaded encoder scheduling (C08)',
 'hook TUKAANI_PROJECT_XZ_VERIF (lz_encoder.c): biases the match finder offset so that normalize() runs within kilobytes',
]

def run(ctx):
    rng = ctx.rng
    gen.gen_consts(); gen.gen_bcj()
    res = coq_check('Properties_C01')
    ctx.proof(res, TRUSTED)
    orc = oracle()
    enc = compile_driver('hook', 'drv_enc.c', 'drv_enc')
    dec = compile_driver('hook', 'drv_dec.c', 'drv_dec')
    inputs = gen_inputs(rng, ctx.quick())
    chains = gen_chain_strings(rng, 10 if ctx.quick() else 150)
    jobs = []   # (enc line, decoder spec, data, label, bias line or None)
    def add(kind, cfg, fs, data, label, mode=None, seed=0, bias=None, dec=None):
        m = mode if mode is not None else rng.choice([0, 0, 3, 3, 1, 2]) if len(data) < 20000 else rng.choice([0, 3])
        jobs.append(('enc %d %d %d %d %s %s' % (kind, cfg, m, seed or rng.randrange(1 << 20), fs, data.hex() or '-'), dec, data, label, bias))
    presets = [0, 1, 2, 3, 4, 5, 6] if ctx.quick() else list(range(10))
    for di, d in enumerate(inputs):
        for p in presets:
            if p >= 7 and len(d) > 100000: continue
            chk = rng.choice([0, 1, 4, 10])
            ext = 32 if rng.random() < 0.3 else 0
            add(0, p | ext | (chk << 8), '-', d, 'easy preset %d%s check %d' % (p, 'e' if ext else '', chk), dec=('xz', 0))
        add(2, rng.choice([0, 1, 3, 6]), '-', d, 'alone', dec=('alone', 0))
        add(7, rng.choice(presets[:7]) | (rng.choice([1, 4, 10]) << 8), '-', d, 'easy_buffer_encode', dec=('xz', 0))
        for (fs, dsz) in rng.sample(chains, 3 if ctx.quick() else 10):
            chk = rng.choice([0, 1, 4, 10])
            add(4, chk << 8, fs, d, 'stream ' + fs, dec=('xz', 0))
            if rng.random() < 0.5: add(3, 0, fs, d, 'raw ' + fs, dec=('raw', fs))
            if rng.random() < 0.3: add(6, chk << 8, fs, d, 'stream_buffer ' + fs, dec=('xz', 0))
            if rng.random() < 0.4 and len(d) > 1000:
                k = rng.choice([1, 50, 700, 3000])
                add(4, chk << 8, fs, d, 'stream+mf-offset-bias(k=%d) ' % k + fs, dec=('xz', 0), bias=(1 << 32) - 1 - (dsz + 1) - k)
        th = rng.randrange(0, 4); bs = rng.choice([0, 1, 4, 16])
        add(1, rng.choice([0, 1, 6]) | (rng.choice([1, 4]) << 8) | (th << 12) | (rng.choice([0, 1, 2]) << 16) | (bs << 20), '-', d, 'mt threads=%d bs=%d' % (th + 1, bs * 4096), dec=('xz', 0))
        if d:
            lim = rng.choice([0, 0, 10, 40, 200, 5000])
            add(5, rng.choice([0, 1, 4, 6]), '-', d, 'microlzma limit=%d' % lim, mode=0, seed=lim or 0, dec=('micro', lim))
    if True:
        recs, inc = special_inputs(rng)
        add(0, 6 | (4 << 8), '-', recs, 'easy preset 6 on 4.3 MiB of near-identical records', mode=0, dec=('xz', 0))
        add(4, 1 << 8, 'lzma2:dict=16KiB,mode=normal,mf=bt4,nice=64', inc, 'small window + 700 KB incompressible stretch', mode=0, dec=('xz', 0))
        add(3, 0, 'lzma2:dict=8KiB,mode=fast,mf=hc4,nice=32', inc, 'raw small window + incompressible stretch', mode=3, dec=('raw', 'lzma2:dict=8KiB'))
        # > 2 MiB that compresses better than 32:1 with matches far longer than nice_len: an LZMA2 chunk reaches the
        # 2 MiB uncompressed-size cap before its compressed-size cap (the chunk must be closed with room for one more match)
        zer = bytes((2 << 20) + 300000); per = (bytes(rng.getrandbits(8) for _ in range(rng.choice([3, 10, 37]))) * 900000)[:(2 << 20) + 200000]
        for hd, nm in ((zer, 'zeros'), (per, 'short-period pattern')):
            add(0, 6 | (4 << 8), '-', hd, 'easy preset 6 on 2.3 MiB of ' + nm, mode=0, dec=('xz', 0))
            add(0, 1 | (1 << 8), '-', hd, 'easy preset 1 on 2.3 MiB of ' + nm, mode=3, dec=('xz', 0))
            add(3, 0, 'lzma2:dict=1MiB,mode=fast,mf=hc3,nice=%d' % rng.choice([2, 16, 100]), hd, 'raw nice<273 on 2.3 MiB of ' + nm, mode=0, dec=('raw', 'lzma2:dict=1MiB'))
            add(1, 6 | (1 << 8) | (1 << 12), '-', hd, 'mt preset 6 one Block on 2.3 MiB of ' + nm, mode=0, dec=('xz', 0))
        # data that repeats with a period around the dictionary size: the farthest match a match finder may offer is
        # exactly dict_size back (distance dict_size - 1 in the stream); one more and the decoder must refuse it
        for dsz in (4096, 8192, 12288, 65536):
            for per in (dsz - 1, dsz, dsz + 1, dsz + 2):
                pd = (bytes(rng.getrandbits(8) for _ in range(per)) * 4)[:3 * per + 300]
                for mf in ('hc3', 'hc4', 'bt2', 'bt3', 'bt4'):
                    if ctx.quick() and rng.random() < 0.5 and per != dsz + 1: continue
                    add(3, 0, 'lzma2:dict=%d,mf=%s,mode=%s,nice=%d' % (dsz, mf, rng.choice(['fast', 'normal']), rng.choice([8, 32, 273])), pd, 'raw dict=%d mf=%s on data with period %d' % (dsz, mf, per), mode=rng.choice([0, 3]), dec=('raw', 'lzma2:dict=%d' % dsz))
                if per == dsz + 1:
                    add(4, 1 << 8, 'lzma1:dict=%d,mf=hc4' % dsz if False else 'lzma2:dict=%d,mf=hc4,depth=0' % dsz, pd, 'stream dict=%d hc4 on data with period %d' % (dsz, per), mode=0, dec=('xz', 0))
    # every filter in every position of a chain (first / second / third before LZMA2): a filter that is not first gets its
    # input from another filter's output buffer (in-place paths), a first one straight from the caller
    units = ['delta:dist=1', 'delta:dist=255', 'delta:dist=256', 'x86', 'arm', 'armthumb', 'arm64', 'powerpc', 'ia64', 'sparc', 'riscv']
    pos_data = [d_ for d_ in inputs if 300 <= len(d_) <= 9000][:2] + [inputs[-4]]
    for u in units:
        for posn in (0, 1, 2):
            fill = [rng.choice(['delta:dist=3', 'x86', 'arm64', 'delta:dist=200']) for _k in range(posn)]
            fs = '+'.join(fill + [u, 'lzma2:dict=4KiB'])
            for d_ in (pos_data if not ctx.quick() else pos_data[:2]):
                add(4, rng.choice([0, 1, 4, 10]) << 8, fs, d_, 'stream ' + fs, dec=('xz', 0))
                if posn and rng.random() < 0.5: add(3, 0, fs, d_, 'raw ' + fs, dec=('raw', fs))
    # run encoders: group by bias so that one process handles one bias value
    bygroup = {}
    for j in jobs: bygroup.setdefault(j[4], []).append(j)
    enc_out = {}
    for bias, lst in bygroup.items():
        lines = [j[0] for j in lst]
        if bias is not None:
            # every shard needs the bias line first: run unsharded groups
            r = subprocess.run([enc], input='bias %d\n' % bias + '\n'.join(lines) + '\n', capture_output=True, text=True, timeout=3000)
            outs = r.stdout.split('\n')[1:1 + len(lines)]
            if r.returncode != 0 or len(outs) != len(lines):
                ctx.violation('encoder crashed with mf offset bias', {'stderr': r.stderr[-3000:], 'bias': bias, 'kind': 'crash'}); outs = [None] * len(lines)
        else:
            outs, fails = run_lines(enc, lines)
            for f in fails: ctx.violation('encoder crashed', {'line': (f[0] or '')[:20000], 'stderr': f[1], 'kind': 'crash'})
        for j, o in zip(lst, outs): enc_out[id(j)] = o
    # decode with the library's matching decoder and with the Coq specification
    viol = []; n_eval = 0; distinct = set(); dist = {}
    dlines, dmeta, olines, ometa = [], [], [], []
    for j in jobs:
        line, d, data, label, bias = j
        o = enc_out.get(id(j))
        n_eval += 1
        dist[label.split(' ')[0]] = dist.get(label.split(' ')[0], 0) + 1
        distinct.add((label.split(' ')[0], len(data) // 512, line.split()[3]))
        if o is None: continue
        t = o.split()
        okret = '0' if line.split()[1] in ('6', '7') else '1'
        if t[0] != okret:
            viol.append(dict(why='encoder returned %s instead of success' % t[0], label=label, line=line[:300], file=data.hex())); continue
        if d[0] == 'micro':
            consumed = int(t[1]); b = bytes.fromhex(t[2]) if t[2] != '-' else b''
            if d[1] and len(b) > d[1]:
                viol.append(dict(why='MicroLZMA output %d bytes exceeds the limit %d' % (len(b), d[1]), label=label, file=data.hex())); continue
            if not d[1] and consumed != len(data):
                viol.append(dict(why='MicroLZMA without a tight limit consumed %d of %d' % (consumed, len(data)), label=label, file=data.hex())); continue
            dlines.append('decm %d %d 1 %d 0 0 %s' % (len(b), consumed, 1 << 26, b.hex() or '-')); dmeta.append((j, data[:consumed]))
            continue
        b = bytes.fromhex(t[1]) if t[1] != '-' else b''
        m = rng.choice([0, 3]); sd = rng.randrange(1 << 20)
        if d[0] == 'xz': dlines.append('dec 0 0 %d %d 0 %s' % (m, sd, b.hex() or '-'))
        elif d[0] == 'alone': dlines.append('dec 3 0 %d %d 0 %s' % (m, sd, b.hex() or '-'))
        else: dlines.append('decs %s %d %d %s' % (d[1], m, sd, b.hex() or '-'))
        dmeta.append((j, data))
        if len(data) <= (20000 if ctx.quick() else 70000) and d[0] in ('xz', 'alone'):
            olines.append('%s %s' % ('xzdec_strict 0' if d[0] == 'xz' else 'alonedec 0', b.hex() or '-')); ometa.append((j, data))
    douts, dfails = run_lines(dec, dlines)
    for f in dfails: ctx.violation('decoder crashed on encoder output', {'line': (f[0] or '')[:20000], 'stderr': f[1], 'kind': 'crash'})
    for (j, want), o in zip(dmeta, douts):
        if o is None: continue
        t = o.split(); got = bytes.fromhex(t[4]) if t[4] != '-' else b''
        n_eval += 1
        if t[0] != '1' or got != want:
            viol.append(dict(why='library decoder: status %s, %d bytes, expected the %d input bytes' % (t[0], len(got), len(want)), label=j[3], line=j[0][:300], file=want.hex()))
    # ---- range coder: the concrete encoder model of RcEnc.v (subject of rc_roundtrip) against rc_encode/rc_shift_low ----
    rcd = compile_driver('hook', 'drv_rc.c', 'drv_rc', whitebox_of='src/liblzma/lzma/lzma_encoder.c')
    rlines, rmodel = [], []
    def rc_tokens(n, style):
        toks = []
        for i in range(n):
            if style == 0:    # LZMA-like mix
                x = rng.random()
                toks.append('a%d:%d' % (rng.randrange(8), rng.random() < 0.7) if x < 0.8 else 'd%d' % rng.randrange(2))
            elif style == 1:  # extreme probabilities, unlikely bits: low moves by large steps -> carries into pending bytes
                p = rng.choice([31, 32, 1024, 2016, 2017]); b = rng.random() < (0.9 if p < 1024 else 0.1) if rng.random() < 0.7 else rng.randrange(2)
                toks.append('p%d:%d' % (p, b))
            elif style == 2:  # mostly ones on one adaptive variable (low creeps up to 0xFF.. runs), few zeros
                toks.append('a0:%d' % (rng.random() < 0.97))
            else:             # direct ones: low = ...FFFF
                toks.append('d1' if rng.random() < 0.95 else rng.choice(['d0', 'a3:1', 'p2017:1']))
        return toks
    NR = 400 if ctx.quick() else 12000
    for i in range(NR):
        toks = rc_tokens(rng.choice([0, 1, 5, 40, 300, rng.randrange(0, 3000)]), rng.randrange(4))
        rlines.append('rc %d %s' % (rng.randrange(1 << 30), ' '.join(toks))); rmodel.append('rcenc ' + ' '.join(toks))
    routs, rf = run_lines(rcd, rlines)
    for f in rf: ctx.violation('range encoder driver crashed', {'line': (f[0] or '')[:20000], 'stderr': f[1], 'kind': 'crash'})
    mouts, mf = run_lines(orc, rmodel)
    if mf: raise BuildError('oracle failed %r' % (mf[0],))
    rc_carry = 0
    for l, ro, mo in zip(rlines, routs, mouts):
        if ro is None: continue
        n_eval += 1
        rh = ro.split()[0]; mh, ok = mo.split()
        if 'ff' in rh or '00' in rh[2:]: rc_carry += 1
        if rh != mh or ok != '1':
            # real encoder disagrees with the proven model: does the real decoder side (model decoder = spec) still get the bits back?
            chk = run_lines(orc, ['rcenc ' + l.split(' ', 2)[2] if len(l.split(' ', 2)) > 2 else 'rcenc'])[0][0]
            viol.append(dict(why='range encoder output differs from the proven encoder model (real %s..., model %s...): the bytes written are not the digits of the final low value, so the decoder does not recover the encoded bits' % (rh[:40], mh[:40]),
                             label='rc_encode/rc_shift_low', line=l[:4000], file='00' * (len(l) // 8), real=rh, model=mh))
    dist['rc_sequences'] = len(rlines); dist['rc_outputs_with_ff_or_00'] = rc_carry
    # ---- LZMA symbol layer: the bytes of the real LZMA1 encoder must be exactly the model's serialisation (enc_run / enc_eopm /
    # encode, the subject of lzma_symbol_coding_lossless) of the symbols the specification decoder reads from them
    slines, smeta = [], []
    for i in range(60 if ctx.quick() else 1500):
        n = rng.choice([0, 1, 2, 30, 300, rng.randrange(0, 2500)])
        d = (xzgen.gen_data(rng, max(1, n // 5)) * 6)[:n] if rng.random() < 0.6 else xzgen.gen_data(rng, n)
        lc = rng.randrange(5); lp = rng.randrange(5 - lc); pb = rng.randrange(5)
        fs = 'lzma1:dict=%s,lc=%d,lp=%d,pb=%d,mode=%s,mf=%s,nice=%d' % (rng.choice(['4KiB', '64KiB']), lc, lp, pb, rng.choice(['fast', 'normal']), rng.choice(['hc3', 'hc4', 'bt2', 'bt3', 'bt4']), rng.choice([2, 8, 32, 273]))
        slines.append('enc 3 0 %d %d %s %s' % (rng.choice([0, 3]), rng.randrange(1 << 20), fs, d.hex() or '-')); smeta.append((d, lc, lp, pb, fs))
    souts, sf = run_lines(enc, slines)
    for f in sf: ctx.violation('encoder crashed', {'line': (f[0] or '')[:20000], 'stderr': f[1], 'kind': 'crash'})
    tl, tm = [], []
    for (d, lc, lp, pb, fs), l, o in zip(smeta, slines, souts):
        if o is None: continue
        t = o.split()
        if t[0] != '1': viol.append(dict(why='raw LZMA1 encoder failed with %s' % t[0], label=fs, line=l[:300], file=d.hex())); continue
        tl.append('lzmasyms %d %d %d %s' % (lc, lp, pb, t[1])); tm.append((d, fs, t[1]))
    touts, tf = run_lines(orc, tl)
    if tf: raise BuildError('oracle failed %r' % (tf[0],))
    symstat = {}
    for (d, fs, hx), o in zip(tm, touts):
        n_eval += 1
        t = o.split()
        if t[0] != 'ok' or (bytes.fromhex(t[4]) if t[4] != '-' else b'') != d or int(t[1]) != len(hx) // 2:
            viol.append(dict(why='LZMA1 encoder output is not the model serialisation of its own symbols (%s): the proven symbol/range encoder model no longer describes lzma_encoder.c / range_encoder.h, or the stream does not decode to the input' % ' '.join(t[:4]), label=fs, line=fs, file=d.hex(), stream=hx[:100000]))
        else:
            for kv in t[3].split(','):
                k, v = kv.split('='); symstat[k] = symstat.get(k, 0) + int(v)
    dist['lzma_symbol_traces'] = len(tl); dist['lzma_symbols'] = symstat
    # ---- LZMA2 chunk layer: raw LZMA2 output (one-shot and with sync flushes / property changes between chunks) must be
    # exactly the model's chunk serialisation (chunks_bytes, subject of lzma2_stream_lossless) of the chunks and symbols read from it
    fl2 = compile_driver('hook', 'drv_flush.c', 'drv_flush')
    l2lines, l2meta = [], []
    for i in range(24 if ctx.quick() else 500):
        n = rng.choice([1, 50, 3000, rng.randrange(0, 9000)])
        k = rng.random()
        d = bytes(rng.getrandbits(8) for _ in range(n)) if k < 0.25 else ((xzgen.gen_data(rng, max(1, n // 5)) * 6)[:n] if k < 0.7 else xzgen.gen_data(rng, n))
        lc = rng.randrange(5); lp = rng.randrange(5 - lc); pb = rng.randrange(5)
        fs = 'lzma2:dict=%s,lc=%d,lp=%d,pb=%d,mode=%s,mf=%s,nice=%d' % (rng.choice(['4KiB', '64KiB']), lc, lp, pb, rng.choice(['fast', 'normal']), rng.choice(['hc3', 'hc4', 'bt2', 'bt4']), rng.choice([4, 32, 273]))
        steps = []; left = n
        many = (i % 3 == 0)
        if many:      # many small pieces, each closed by a sync flush, on low-entropy runs
            n = rng.randrange(500, 4000); d = xzgen.gen_runs(rng, n); left = n
            fs = 'lzma2:dict=64KiB,mode=%s,mf=%s,nice=%d' % (rng.choice(['fast', 'normal']), rng.choice(['bt2', 'bt3', 'bt4', 'hc4']), 32 + rng.randrange(200))
        for _j in range(rng.randrange(0, 4) if not many else 60):
            kk = rng.randrange(0, left + 1) if not many else min(left, 1 + rng.randrange(200)); left -= kk; steps.append('S%d' % kk)
            if many and left == 0: break
            if not many and rng.random() < 0.5:
                lc2 = rng.randrange(5); lp2 = rng.randrange(5 - lc2); steps.append('Ulzma2:dict=%s,lc=%d,lp=%d,pb=%d' % (fs.split('dict=')[1].split(',')[0], lc2, lp2, rng.randrange(5)))
        steps.append('R%d' % left)
        l2lines.append('flush 3 0 %d %s %s %s' % (rng.randrange(1 << 20), fs, ';'.join(steps), d.hex() or '-')); l2meta.append((d, fs + ' ' + ';'.join(steps)))
    l2outs, l2f = run_lines(fl2, l2lines)
    for f in l2f: ctx.violation('raw LZMA2 encoder crashed', {'line': (f[0] or '')[:20000], 'stderr': f[1], 'kind': 'crash'})
    tl2, tm2 = [], []
    for (d, lab), l, o in zip(l2meta, l2lines, l2outs):
        if o is None: continue
        parts = o.split('|')
        if len(parts) != 3 or parts[0].strip() != '0' or not parts[1].split() or not parts[1].split()[-1].endswith(':1'): continue
        hx = parts[2].strip()
        if hx != '-': tl2.append('lzma2syms ' + hx); tm2.append((d, lab, hx))
    t2o, t2f = run_lines(orc, tl2)
    if t2f: raise BuildError('oracle failed %r' % (t2f[0],))
    l2stat = {}
    for (d, lab, hx), o in zip(tm2, t2o):
        n_eval += 1
        t = o.split()
        if t[0] != 'ok' or (bytes.fromhex(t[3]) if t[3] != '-' else b'') != d:
            viol.append(dict(why='raw LZMA2 encoder output is not the model chunk serialisation of its own chunks (%s): the proven LZMA2 encoder model no longer describes lzma2_encoder.c, or the stream does not decode to the input' % ' '.join(t[:3]), label=lab, line=lab, file=d.hex(), stream=hx[:100000]))
        else:
            for kv in t[2].split(','):
                k_, v_ = kv.split('='); l2stat[k_] = l2stat.get(k_, 0) + int(v_)
    dist['lzma2_chunk_traces'] = len(tl2); dist['lzma2_chunks_symbols'] = l2stat
    oouts, ofails = run_lines(orc, olines)
    if ofails: raise BuildError('oracle failed %r' % (ofails[0],))
    for (j, want), o in zip(ometa, oouts):
        st, used, hx = o.split(); got = bytes.fromhex(hx) if hx != '-' else b''
        n_eval += 1
        if st != 'ok' or got != want:
            viol.append(dict(why='independent (Coq specification) decoder: %s, %d bytes, expected %d' % (st, len(got), len(want)), label=j[3], line=j[0][:300], file=want.hex()))
    ctx.cov['evaluations'] = n_eval
    ctx.cov['distinct_nontrivial'] = len(distinct)
    ctx.cov['rule'] = ('encoders: easy (presets, extreme, checks), stream from generated chains (all 75 lc/lp/pb round-robin, dict sizes incl. 4097/65535, 5 match finders, nice 2..273, depth, delta/BCJ prefixes), raw, alone, MT, MicroLZMA with output limits, single-call encoders; '
                       'inputs: sizes around 4096/64Ki/2Mi boundaries, runs, periodic, random, code-like, >4 MiB near-identical records, incompressible stretch with small window; match-finder offset bias hook; '
                       'every output decoded by the library decoder (random slicing) and, up to the size cap, by the extracted Coq specification (strict dictionary); distinct = (encoder, size/512, slicing mode)')
    ctx.cov['input_distribution'] = dict(encodes=len(jobs), per_encoder=dist, lib_decodes=len(dlines), spec_decodes=len(olines))
    ctx.cov['samples'] = [jobs[0][3], jobs[len(jobs) // 2][3], jobs[-1][3]]
    if viol:
        v = min(viol, key=lambda x: len(x['file']))
        v = dict(v); v['file'] = v['file'][:400000]
        ctx.violation('C01 %s [%s]' % (v['why'], v['label']), v)
    if not res['ok'] and not viol:
        ctx.violation('proof obligation of Properties_C01 no longer checks (%s)' % res['failing'],
                      {'theorem_file': 'coq/Properties_C01.v', 'failing': res['failing'], 'log_tail': res['log'][-3000:]}, found_input=False)

def replay(ctx, path):
    import json
    print(json.dumps(json.load(open(path)), indent=1)[:3000]); return 0
