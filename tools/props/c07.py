"""C07: threaded decompression is equivalent to single-threaded under every schedule."""
import lzma
from common import *
from decode_common import *
import xzgen

TRUSTED = [
 'Coq 8.16.1 kernel; no native_compute', 'axioms: none',
 'theorems: output-queue model (Outq.v, transcribed from outqueue.c): delivery order = Block order for every interleaving of writes/finishes/reads; tied by a white-box differential run of the real lzma_outq against the extracted model',
 'NOT proved: the thread protocol of stream_decoder_mt.c (locks, condition variables, wake-ups, time-outs, memory accounting), deadlock freedom, data-race and use-after-free freedom. Explored: liblzma built with every pthread synchronisation call routed through a seeded yield/sleep perturbation (harness/sched_perturb.c); many schedules x thread counts 1-6 x time-outs x slicings x memory limits x valid/corrupt/truncated multi-Block files, outcome compared with lzma_stream_decoder; watchdog for deadlock / lost wake-up; early lzma_end',
]

def outq_correspondence(rng, n, odrv, orc):
    """random operation histories on the real lzma_outq (white-box driver) vs the extracted Outq model; -> (violations, evaluations)"""
    viol = []; n_eval = 0
    # ---- outq model vs real outqueue.c
    hists = []
    for _ in range(n):
        toks = []; live = 0
        for _k in range(rng.randrange(3, 60)):
            r = rng.random()
            if r < 0.2 or live == 0: toks.append('G' + rng.choice(['', '', '64', '100', '200', '4000', '65', '63999'])); live += 1      # sizes vary: a cached buffer of another size must not be handed out
            elif r < 0.55: toks.append('W%d,%s' % (rng.randrange(live + 1), bytes(rng.getrandbits(8) for _ in range(rng.randrange(1, 9))).hex()))
            elif r < 0.7: toks.append('F%d' % rng.randrange(live + 1))
            elif r < 0.74: toks.append('I'); live = 0
            else: toks.append('R%d' % rng.choice([0, 1, 2, 5, 100]))
        hists.append(' '.join(toks))
    a, af = run_lines(odrv, hists); b, bf = run_lines(orc, ['outqhist ' + h for h in hists])
    for x in af: viol.append(dict(why='outqueue.c driver crashed / sanitizer', line=(x[0] or '')[:2000], stderr=x[1][-1500:]))
    for h, x, y in zip(hists, a, b):
        n_eval += 1
        if x is not None and x != y: viol.append(dict(why='lzma_outq delivered %s, the queue model %s' % (x[:80], y[:80]), line=h))
    return viol, n_eval

def run(ctx):
    rng = ctx.rng
    res = coq_check('Properties_C07')
    ctx.proof(res, TRUSTED)
    orc = oracle()
    odrv = compile_driver('san', 'drv_outq.c', 'drv_outq', whitebox_of='src/liblzma/common/outqueue.c')
    drv = compile_driver('mt', 'drv_dec.c', 'drv_dec')
    st = compile_driver('hook', 'drv_dec.c', 'drv_dec')
    viol = []; n_eval = 0; distinct = set()
    ov, oe = outq_correspondence(rng, 300 if ctx.quick() else 5000, odrv, orc); viol += ov; n_eval += oe
    # ---- threaded vs single-threaded decoder under perturbed schedules
    files = []
    for _ in range(6 if ctx.quick() else 80):
        f, e, bounds = xzgen.gen_mt_xz(rng, rng.choice([2, 3, 5]), bsize=rng.choice([(300, 2500), (20000, 60000)]))
        files.append(f)
        files.append(xzgen.mutate(rng, f)[0])
        a_, b_ = rng.choice(bounds[1:]); files.append(f[:rng.randrange(a_, b_)])          # input ends inside a later Block
        g = bytearray(f); g[rng.randrange(bounds[0][0] + 12, bounds[0][1] - 8)] ^= 0x40; files.append(bytes(g))   # error in an early Block while others decode
    # a long-running Block while later, short ones start, finish and hand their worker on; the input ends inside the last Block
    # (a reused worker must not carry anything over from the Block it decoded before)
    import lzma as _lz0
    def blk_(n_):
        dd_ = (xzgen.gen_runs(rng, 3000) * (n_ // 3000 + 1))[:n_] if n_ > 100000 else xzgen.gen_data(rng, n_)
        return (dd_, [{'id': 'lzma2', 'dict_size': 65536, 'lc': 3, 'lp': 0, 'pb': 2, 'mode': _lz0.MODE_FAST, 'nice_len': 32, 'mf': _lz0.MF_HC4}], {'comp_present': True, 'uncomp_present': True})
    for shape in ([(4000, 2 << 20, 4000), (2 << 20, 3000, 3000, 5000), (6 << 20, 3000)] if ctx.quick() else [(4000, 2 << 20, 4000), (2 << 20, 3000, 3000, 5000), (3000, 3000, 3 << 20, 3000, 9000), (1 << 20, 1 << 20, 4000), (4000, 1 << 21, 1 << 20)]):
        spec_ = [blk_(n_) for n_ in shape]
        parts = [xzgen.block(d_, ch_, 1, rng, **kw_) for d_, ch_, kw_ in spec_]
        body = b''.join(p_[0] for p_ in parts); ix = xzgen.index([(p_[1], p_[2]) for p_ in parts])
        fb = xzgen.stream_header(1) + body + ix + xzgen.stream_footer(1, len(ix))
        last_off = 12 + sum(len(p_[0]) for p_ in parts[:-1])
        files.append(fb[:last_off + len(parts[-1][0]) // 2]); files.append(fb[:last_off + 14]); files.append(fb)
    f2, e2, _ = xzgen.gen_valid_xz(rng, 3000); files.append(f2)        # Blocks without size fields: direct mode
    files.append(files[0] + bytes(8) + files[0])
    ref, rf = impl_dec(st, 0, LZMA_CONCATENATED, 0, 0, files)
    lines, meta = [], []
    for fi, f in enumerate(files):
        for sd in range(1, (7 if ctx.quick() else 40)):
            seed = rng.randrange(1 << 20) * 8 + sd          # seed%4 -> threads, (seed/4)%2 -> timeout
            big_out = ref[fi] is not None and ref[fi][2] > 200000      # byte-wise modes only for small outputs
            mode = rng.choice([0, 2, 3, 3, 1, 7]) if (len(f) < 8000 and not big_out) else rng.choice([0, 3, 7])
            ml = rng.choice([0, 0, 0, 1 << 20, 200000, 1])
            flags = LZMA_CONCATENATED | rng.choice([0, 0, 0x20])      # FAIL_FAST sometimes
            lines.append('dec 1 %d %d %d %d %s' % (flags, mode, seed, ml, f.hex())); meta.append((fi, flags, seed, mode, ml))
        if ref[fi] is not None and ref[fi][2] > 200000:
            # 1 ms time-outs while a worker is busy with a long Block and no input is left: many calls return without progress
            # (LZMA_OK after a time-out, never LZMA_BUF_ERROR while a worker is still running)
            for sd in range(6 if ctx.quick() else 20):
                seed = rng.randrange(1 << 16) * 16 + 8 + rng.choice([1, 2, 3])
                lines.append('dec 1 %d %d %d 0 %s' % (LZMA_CONCATENATED, rng.choice([0, 0, 7, 3]), seed, f.hex())); meta.append((fi, LZMA_CONCATENATED, seed, 0, 0))
        if ref[fi] is not None and ref[fi][2] > 200000 and ref[fi][0] != 1:
            # long-running Block + truncated input: more schedules, with fewer threads than Blocks
            for sd in range(10 if ctx.quick() else 40):
                seed = rng.randrange(1 << 20) * 8 + rng.choice([1, 1, 2, 5, 6])
                lines.append('dec 1 %d %d %d 0 %s' % (LZMA_CONCATENATED, rng.choice([0, 3, 7]), seed, f.hex())); meta.append((fi, LZMA_CONCATENATED, seed, 0, 0))
        # the same after the handle was used for part of this file and re-initialised without lzma_end
        for sd in range(1, (4 if ctx.quick() else 20)):
            seed = rng.randrange(1 << 20) * 8 + sd
            mode = rng.choice([0, 2, 3, 3]) if (len(f) < 8000 and not big_out) else rng.choice([0, 3])
            lines.append('dec 1 %d %d %d 0 %s' % (LZMA_CONCATENATED, mode + 16, seed, f.hex())); meta.append((fi, LZMA_CONCATENATED, seed, mode + 16, 0))
    # memory limits: Blocks with growing dictionaries and a limit that a later Block exceeds; the threaded decoder (both of its
    # limits set to it) must deliver what the single-threaded decoder with the same limit delivers, and the same status
    import lzma as _lz
    mfiles = []
    for _ in range(3 if ctx.quick() else 30):
        dicts = rng.choice([[4096, 4096, 1 << 20, 4096], [65536, 1 << 22], [4096, 1 << 16, 1 << 20, 1 << 22], [1 << 20, 4096, 4096]])
        spec = []
        for dsz in dicts:
            data = xzgen.gen_data(rng, rng.randrange(300, 6000))
            chain = [{'id': 'lzma2', 'dict_size': dsz, 'lc': 3, 'lp': 0, 'pb': 2, 'mode': _lz.MODE_FAST, 'nice_len': 32, 'mf': _lz.MF_HC4}]
            spec.append((data, chain, {'comp_present': True, 'uncomp_present': True}))
        mf = xzgen.stream(spec, rng.choice([1, 4]), rng)
        for ml in (1, 30000, 100000, 300000, 1500000, 3000000, 6000000):
            mfiles.append((mf, ml))
    # a long first Block (a worker is busy with it for a while) followed by a Block that exceeds the limit
    for _ in range(1 if ctx.quick() else 6):
        big = (xzgen.gen_runs(rng, 3000) * 700)[:rng.choice([1 << 21, 3 << 20])]
        spec = [(big, [{'id': 'lzma2', 'dict_size': 65536, 'lc': 3, 'lp': 0, 'pb': 2, 'mode': _lz.MODE_FAST, 'nice_len': 32, 'mf': _lz.MF_HC4}], {'comp_present': True, 'uncomp_present': True}),
                (xzgen.gen_data(rng, 500), [{'id': 'lzma2', 'dict_size': 1 << 24, 'lc': 3, 'lp': 0, 'pb': 2, 'mode': _lz.MODE_FAST, 'nice_len': 32, 'mf': _lz.MF_HC4}], {'comp_present': True, 'uncomp_present': True}),
                (xzgen.gen_data(rng, 500), [{'id': 'lzma2', 'dict_size': 4096, 'lc': 3, 'lp': 0, 'pb': 2, 'mode': _lz.MODE_FAST, 'nice_len': 32, 'mf': _lz.MF_HC4}], {'comp_present': True, 'uncomp_present': True})]
        mf = xzgen.stream(spec, 1, rng)
        mfiles.append((mf, 12 << 20)); mfiles.append((mf, 64 << 20))
    mref_l = ['dec 0 %d 0 0 %d %s' % (LZMA_CONCATENATED, ml, mf.hex()) for mf, ml in mfiles]
    mref, mrf = run_lines(st, mref_l)
    mbase = len(lines)
    for (mf, ml) in mfiles:
        for sd in range(1, (5 if ctx.quick() else 16)):
            seed = rng.randrange(1 << 20) * 8 + sd
            lines.append('dec 1 %d %d %d %d %s' % (LZMA_CONCATENATED, rng.choice([0, 3, 3, 7, 7, 1]) if len(mf) < 30000 else rng.choice([0, 3, 7, 7]), seed, ml, mf.hex())); meta.append(('ml', 0, seed, 0, ml))
    outs = [None] * len(lines); fails = []
    # several scheduler seeds: one process group per seed
    for ss in range(1, 5):
        idx = [i for i in range(len(lines)) if i % 4 == ss - 1]
        env_key = 'VERIF_SCHED_SEED'; os.environ[env_key] = str(rng.randrange(1, 1 << 30))
        o, fl = run_lines(drv, [lines[i] for i in idx])
        for i, x in zip(idx, o): outs[i] = x
        fails += fl
    os.environ.pop('VERIF_SCHED_SEED', None)
    # ---- freeing the threaded decoder while workers are inside their Blocks (AddressSanitizer build)
    sdrv = compile_driver('san', 'drv_dec.c', 'drv_dec')
    elines = []
    for fi, f in enumerate(files):
        if len(f) < 200: continue
        for _k in range(3 if ctx.quick() else 25):
            elines.append('dec 1 %d 6 %d 0 %s' % (LZMA_CONCATENATED, rng.randrange(1 << 20) * 8 + rng.randrange(8), f.hex()))
    eo, ef = run_lines(sdrv, elines)
    n_eval += len(elines)
    for x in ef: viol.append(dict(why='threaded decoder freed early (lzma_end while workers run): crash / sanitizer report, rc %s' % x[2], line=(x[0] or '')[:300000], stderr=x[1][-2500:]))
    for x in fails: viol.append(dict(why='threaded decoder: crash / assertion / watchdog (deadlock or lost wake-up), rc %s' % x[2], line=(x[0] or '')[:300000], stderr=x[1][-1500:]))
    for li, ((fi, flags, seed, mode, ml), l, o) in enumerate(zip(meta, lines, outs)):
        if fi == 'ml':
            r0 = mref[(li - mbase) // (4 if ctx.quick() else 15)]
            if o is None or r0 is None: continue
            n_eval += 1; t = o.split(); t0 = r0.split(); distinct.add(('ml', seed % 4, t[0], ml))
            if t[0] == '94': viol.append(dict(why='threads=%d memlimit=%d: LZMA_BUF_ERROR although unconsumed input and output space were both available (the single-threaded decoder: status %s after %d bytes)' % (1 + seed % 4, ml, t0[0], len(t0[4]) // 2 if t0[4] != '-' else 0), line=l[:300000]))
            elif t[0] == '98': viol.append(dict(why='threads=%d memlimit=%d: no progress and no LZMA_BUF_ERROR on 150 consecutive calls' % (1 + seed % 4, ml), line=l[:300000]))
            elif (t[0], t[4]) != (t0[0], t0[4]):
                viol.append(dict(why='threads=%d timeout=%s memlimit=%d (Blocks with growing dictionaries): status %s after %d output bytes, the single-threaded decoder with the same limit gives %s after %d bytes' % (1 + seed % 4, 'no' if (seed // 4) % 2 else '3ms', ml, t[0], len(t[4]) // 2 if t[4] != '-' else 0, t0[0], len(t0[4]) // 2 if t0[4] != '-' else 0), line=l[:300000]))
            continue
        if o is None or ref[fi] is None: continue
        n_eval += 1
        t = o.split(); ret = int(t[0]); out = bytes.fromhex(t[4]) if t[4] != '-' else b''
        rret, rtin, rtout, rcalls, rout = ref[fi]
        distinct.add((fi % 4, seed % 4, mode, ret, bool(flags & 0x20), ml))
        why = None
        if ret == 94: why = 'LZMA_BUF_ERROR although unconsumed input and output space were both available (single-threaded decoder: %d)' % rret
        elif ret == 98: why = 'no progress and no LZMA_BUF_ERROR on 150 consecutive calls (single-threaded decoder: %d)' % rret
        elif ret == 6 and ml: continue     # memlimit_stop reached: allowed
        elif flags & 0x20:
            if not rout.startswith(out): why = 'FAIL_FAST: output is not a prefix of the single-threaded output'
        else:
            if ret != rret: why = 'status %d, single-threaded decoder gives %d' % (ret, rret)
            elif out != rout and (ret == 1): why = 'output differs from the single-threaded decoder'
            elif len(out) != len(rout): why = 'output length %d, single-threaded %d' % (len(out), len(rout))
        if why: viol.append(dict(why='threads=%d timeout=%s mode=%d memlimit=%d: %s' % (1 + seed % 4, 'no' if (seed // 4) % 2 else '3ms', mode, ml, why), line=l[:300000]))
    ctx.cov['evaluations'] = n_eval
    ctx.cov['distinct_nontrivial'] = len(distinct)
    ctx.cov['rule'] = 'outq histories vs model; threaded decoder under seeded schedule perturbation: multi-Block files (valid, bit-flipped in an early Block, truncated inside a later Block, random mutants, Blocks without sizes, concatenated Streams) x threads 1-4 x time-out on/off x 5 slicings x memory limits x FAIL_FAST, compared with lzma_stream_decoder; distinct = (file class, threads, slicing, status, fail-fast, memlimit)'
    ctx.cov['input_distribution'] = dict(outq_histories=oe, mt_runs=len(lines), files=len(files))
    ctx.cov['samples'] = ['outq: G W0,ab F0 R5', lines[0][:80]]
    ctx.cov['traces_validated_against_impl'] = oe
    if viol:
        v = min(viol, key=lambda x: len(x['line']))
        ctx.violation('C07 ' + v['why'], v)
    if not res['ok'] and not viol:
        ctx.violation('proof obligation of Properties_C07 no longer checks (%s)' % res['failing'],
                      {'theorem_file': 'coq/Properties_C07.v', 'failing': res['failing'], 'log_tail': res['log'][-3000:]}, found_input=False)

def replay(ctx, path):
    import json
    print(json.dumps(json.load(open(path)), indent=1)[:3000]); return 0
