"""C08: threaded compression is correct, ordered and live under every schedule."""
import struct
from common import *
from decode_common import *
import xzgen
from props.c12 import parse_index

TRUSTED = [
 'Coq 8.16.1 kernel; no native_compute', 'axioms: none',
 'theorems: output-queue model (Outq.v): Blocks are delivered in the order they were started for every interleaving of worker writes/finishes and reads; a drained queue has delivered everything in order (tied to outqueue.c by the differential run in C07)',
 'NOT proved: the worker protocol of stream_encoder_mt.c, deadlock/race freedom, progress accounting. Explored under seeded schedule perturbation around every pthread call: threads 1-6 x time-outs x block sizes x slicings x inputs shorter/longer than block_size x threads, empty, incompressible; output must be one valid Stream decoding to the input with Blocks cut at multiples of block_size in input order and be byte-identical across schedules and thread counts; lzma_get_progress sampled after every call; full flush / barrier histories; lzma_end at random moments under a watchdog',
]

def run(ctx):
    rng = ctx.rng
    res = coq_check('Properties_C08')
    ctx.proof(res, TRUSTED)
    enc = compile_driver('mt', 'drv_enc.c', 'drv_enc')
    fl = compile_driver('mt', 'drv_flush.c', 'drv_flush')
    dec = compile_driver('hook', 'drv_dec.c', 'drv_dec')
    viol = []; n_eval = 0; distinct = set()
    datas = [b'', b'x', xzgen.gen_data(rng, 5000), xzgen.gen_data(rng, 40000), bytes(rng.getrandbits(8) for _ in range(30000)), (xzgen.gen_data(rng, 3000) * 40)[:100000]]
    if not ctx.quick(): datas += [xzgen.gen_data(rng, rng.randrange(1, 300000)) for _ in range(20)]
    lines, meta = [], []
    for di, d in enumerate(datas):
        for bs in (1, 2, 8):
            for rep in range(6 if ctx.quick() else 30):
                th = rng.randrange(0, 6); to = rng.choice([0, 1, 2])
                cfg = rng.choice([0, 1, 6]) | (rng.choice([1, 4]) << 8) | (th << 12) | (to << 16) | (bs << 20)
                mode = rng.choice([0, 3, 3, 2]) if len(d) < 50000 else rng.choice([0, 3])
                lines.append('enc 1 %d %d %d - %s' % (cfg, mode, rng.randrange(1 << 20), d.hex() or '-')); meta.append((di, bs, cfg & 0xFFF, 'run'))
        # re-initialisation on the same lzma_stream after a partial use (cfg bit 29): same bytes as a fresh encoder, no hang
        for bs in (1, 8):
            for rep in range(6 if ctx.quick() else 40):
                th = rng.randrange(0, 4); to = rng.choice([0, 1, 2])
                cfg = rng.choice([0, 1, 6]) | (rng.choice([1, 4]) << 8) | (th << 12) | (to << 16) | (bs << 20) | (1 << 29)
                mode = rng.choice([0, 3, 3, 2]) if len(d) < 50000 else rng.choice([0, 3])
                lines.append('enc 1 %d %d %d - %s' % (cfg, mode, rng.randrange(1 << 20), d.hex() or '-')); meta.append((di, bs, cfg & 0xFFF, 'run'))
        for rep in range(8 if ctx.quick() else 60):
            cfg = 1 | (1 << 8) | (rng.randrange(1, 6) << 12) | (rng.choice([0, 1]) << 16) | (rng.choice([1, 4]) << 20) | (1 << 28)
            lines.append('enc 1 %d %d %d - %s' % (cfg, rng.choice([1, 2, 3]), rng.randrange(1 << 20), d.hex() or '-')); meta.append((di, 0, 0, 'abort'))
    # lzma_end right after the first lzma_code(LZMA_FINISH) call, while the workers are still inside their last chunk
    for n_ in (100, 5000, 16384, 20000, 40000, 70000):
        d_ = xzgen.gen_data(rng, n_); datas.append(d_)
        for rep in range(6 if ctx.quick() else 40):
            cfg = 6 | (1 << 8) | (rng.randrange(1, 4) << 12) | (rng.choice([0, 1]) << 16) | (rng.choice([4, 16]) << 20) | (1 << 28)
            lines.append('enc 1 %d 2 %d - %s' % (cfg, 23 * rng.randrange(1, 1000), d_.hex())); meta.append((len(datas) - 1, 0, 0, 'abort'))
    # a worker that fails (a chain the Block encoder refuses: LZMA1 is not allowed in .xz, but passes the initial validation)
    # while the main thread has handed everything over and waits: the error must come back, not a hang
    for d_ in (datas[2] if len(datas) > 2 else b'x' * 3000, b'y' * 20000):
        for th in (0, 1, 3):
            for to in (0, 0, 1):
              for rep in range(4 if ctx.quick() else 30):      # whether the main thread is already waiting when the worker fails is a matter of timing
                cfg = 0 | (1 << 8) | (th << 12) | (to << 16) | (rng.choice([1, 2, 8]) << 20)
                lines.append('enc 1 %d %d %d lzma1:dict=4KiB %s' % (cfg, rng.choice([0, 0, 3]), rng.randrange(1 << 20), d_.hex())); meta.append((0, 0, 0, 'mustfail'))
    outs = [None] * len(lines); fails = []
    for ss in range(4):
        idx = [i for i in range(len(lines)) if i % 4 == ss]
        os.environ['VERIF_SCHED_SEED'] = str(rng.randrange(1, 1 << 30))
        o, f_ = run_lines(enc, [lines[i] for i in idx]); fails += f_
        for i, x in zip(idx, o): outs[i] = x
    os.environ.pop('VERIF_SCHED_SEED', None)
    for x in fails: viol.append(dict(why='threaded encoder: crash / assertion / watchdog (deadlock, e.g. in lzma_end), rc %s' % x[2], line=(x[0] or ''), stderr=x[1][-1500:]))
    groups = {}; dlines, dmeta = [], []
    for (di, bs, pc, kind), l, o in zip(meta, lines, outs):
        if o is None: continue
        n_eval += 1
        t = o.split()
        if kind == 'abort':
            distinct.add(('abort', t[0])); continue
        if kind == 'mustfail':
            distinct.add(('mustfail', t[0]))
            if t[0] in ('0', '1'): viol.append(dict(why='threaded encoder accepted a filter chain that is not valid in .xz (LZMA1) and returned %s' % t[0], line=l[:300]))
            continue
        if t[0] != '1': viol.append(dict(why='threaded encoder returned %s' % t[0], line=l[:300])); continue
        if t[-1] != 'P1': viol.append(dict(why='lzma_get_progress exceeded the true totals, went backwards, or did not equal them at the end', line=l[:300]))
        b = bytes.fromhex(t[1]) if t[1] != '-' else b''
        groups.setdefault((di, bs, pc), []).append((l, b))
        distinct.add((di, bs, (int(l.split()[2]) >> 12) & 7, (int(l.split()[2]) >> 16) & 3))
    for (di, bs, pc), lst in groups.items():
        ref = lst[0][1]
        for l, b in lst[1:]:
            if b != ref: viol.append(dict(why='same data, preset and block size but different bytes for another thread count / time-out / schedule / slicing', line=l[:300])); break
        d = datas[di]
        dlines.append('dec 0 0 3 5 0 %s' % (ref.hex() or '-')); dmeta.append((lst[0][0], d))
        if ref:
            try:
                recs = parse_index(ref); block = bs * 4096
                sizes = [v for u, v in recs]
                exp = [block] * (len(d) // block) + ([len(d) % block] if len(d) % block else [])
                if sizes != exp: viol.append(dict(why='Blocks are not the input cut at multiples of block_size in order: %s vs %s' % (sizes[:6], exp[:6]), line=lst[0][0][:300]))
            except Exception as ex:
                viol.append(dict(why='output has no parsable Index: %s' % ex, line=lst[0][0][:300]))
    douts, df = run_lines(dec, dlines)
    for (l, d), o in zip(dmeta, douts):
        if o is None: continue
        n_eval += 1
        t = o.split(); got = bytes.fromhex(t[4]) if t[4] != '-' else b''
        if t[0] != '1' or got != d: viol.append(dict(why='threaded encoder output does not decode to the input (status %s, %d bytes)' % (t[0], len(got)), line=l[:300]))
    # ---- ThreadSanitizer build: runs, early lzma_end and re-initialisation histories must be free of data races
    ts = compile_driver('tsan', 'drv_enc.c', 'drv_enc')
    tl = []
    for _ in range(60 if ctx.quick() else 1500):
        d = xzgen.gen_data(rng, rng.choice([1, 100, 5000, 20000, 70000]))
        cfg = rng.choice([0, 1]) | (1 << 8) | (rng.randrange(0, 4) << 12) | (rng.choice([0, 1, 2]) << 16) | (rng.choice([1, 2, 8]) << 20) | (rng.choice([0, 1 << 28, 1 << 29, 1 << 29]))
        tl.append('enc 1 %d %d %d - %s' % (cfg, rng.choice([0, 2, 3]), rng.randrange(1 << 20), d.hex()))
    os.environ['TSAN_OPTIONS'] = 'halt_on_error=1 exitcode=66'
    touts, tf = run_lines(ts, tl)
    os.environ.pop('TSAN_OPTIONS', None)
    n_eval += len(tl)
    for x in tf: viol.append(dict(why='threaded encoder under ThreadSanitizer: %s' % ('data race' if x[2] == 66 else 'crash / watchdog, rc %s' % x[2]), line=(x[0] or ''), stderr=x[1][-2500:]))
    # ---- AddressSanitizer build: re-initialisation with changed options (block size, preset) and early lzma_end
    sa = compile_driver('san', 'drv_enc.c', 'drv_enc')
    al = []
    for _ in range(40 if ctx.quick() else 800):
        d = bytes(rng.getrandbits(8) for _ in range(rng.choice([100, 9000, 20000, 40000])))
        cfg = rng.choice([0, 1]) | (1 << 8) | (rng.randrange(0, 3) << 12) | (rng.choice([0, 1]) << 16) | (rng.choice([1, 2, 4, 8]) << 20) | rng.choice([1 << 29, 1 << 29, 1 << 28])
        al.append('enc 1 %d %d %d - %s' % (cfg, rng.choice([0, 3]), rng.randrange(1 << 20), d.hex()))
    aouts, af = run_lines(sa, al)
    n_eval += len(al)
    for x in af: viol.append(dict(why='threaded encoder under AddressSanitizer (re-initialisation / early end): crash or memory error, rc %s' % x[2], line=(x[0] or '')[:300000], stderr=x[1][-2500:]))
    # ---- flush / barrier histories on the threaded encoder under perturbation
    flines, fmeta = [], []
    for _ in range(40 if ctx.quick() else 800):
        d = xzgen.gen_data(rng, rng.randrange(1, 30000))
        steps = []; left = len(d)
        for _k in range(rng.randrange(1, 6)):
            a = rng.choice('RRFFB'); k = min(left, rng.choice([0, 1, 100, 5000, rng.randrange(0, left + 1)])); left -= k; steps.append('%s%d' % (a, k))
        cfg = 1 | (4 << 8) | (rng.randrange(0, 4) << 12) | (rng.randrange(2) << 16) | (rng.choice([1, 2]) << 20)
        flines.append('flush 1 %d %d - %s %s' % (cfg, rng.randrange(1 << 20), ';'.join(steps), d.hex())); fmeta.append(d)
    # barrier / full flush requested in a call of its own (no new input with it) after the data went in with LZMA_RUN
    for th in range(4):
        for act in 'BF':
            d = xzgen.gen_data(rng, rng.choice([3000, 20000])); a_ = rng.randrange(1, len(d) // 2); b_ = rng.randrange(1, len(d) // 3)
            cfg = 1 | (4 << 8) | (th << 12) | (rng.randrange(2) << 16) | (rng.choice([1, 2, 16]) << 20)
            flines.append('flush 1 %d %d - R%d;%s0;R%d;%s0;%s0;R%d %s' % (cfg, rng.randrange(1 << 20), a_, act, b_, act, rng.choice('BF'), len(d) - a_ - b_, d.hex())); fmeta.append(d)
    os.environ['VERIF_SCHED_SEED'] = str(rng.randrange(1, 1 << 30))
    fouts, ff = run_lines(fl, flines)
    os.environ.pop('VERIF_SCHED_SEED', None)
    for x in ff: viol.append(dict(why='threaded encoder flush history: crash / watchdog', line=(x[0] or ''), stderr=x[1][-1500:]))
    pl, pm = [], []
    for d, l, o in zip(fmeta, flines, fouts):
        if o is None: continue
        parts = o.split('|')
        if len(parts) != 3 or parts[0].strip() != '0': continue
        outb = bytes.fromhex(parts[2].strip()) if parts[2].strip() != '-' else b''
        bounds = []
        for s_ in parts[1].split():
            _, a, itot, otot, ret = s_.split(':'); itot = int(itot); otot = int(otot); n_eval += 1
            if ret not in ('0', '1'): viol.append(dict(why='action %s failed with %s' % (a, ret), line=l[:300])); break
            if a == 'F' and ret == '1': pl.append('dec 0 0 0 0 0 %s' % (outb[:otot].hex() or '-')); pm.append((l, d[:itot], otot, 'F'))
            if a in 'FB' and ret == '1' and itot: bounds.append(itot)
            if a == 'E' and ret == '1': pl.append('dec 0 0 0 0 0 %s' % (outb.hex() or '-')); pm.append((l, d, len(outb), 'E'))
        if outb and bounds:
            try:
                cum = set(); t_ = 0
                for u, v in parse_index(outb): t_ += v; cum.add(t_)
                for b_ in bounds:
                    if b_ not in cum: viol.append(dict(why='barrier/full flush at input offset %d did not end a Block there' % b_, line=l[:300]))
            except Exception: pass
    po, pf = run_lines(dec, pl)
    for (l, want, plen, a), o in zip(pm, po):
        if o is None: continue
        t = o.split(); got = bytes.fromhex(t[4]) if t[4] != '-' else b''
        if got != want or (a == 'E' and t[0] != '1'): viol.append(dict(why='after %s the output so far decodes to %d bytes, %d were supplied (status %s)' % ('FULL_FLUSH' if a == 'F' else 'FINISH', len(got), len(want), t[0]), line=l[:300]))
    ctx.cov['evaluations'] = n_eval
    ctx.cov['distinct_nontrivial'] = len(distinct)
    ctx.cov['rule'] = 'threaded encoder under seeded schedule perturbation: inputs (empty, 1 byte, shorter/longer than block_size x threads, incompressible, repetitive) x block sizes x threads 1-6 x time-outs x slicings; byte-identical across schedules; Blocks = input cut at block_size in order; decodes to input; progress sampled every call; FULL_FLUSH/FULL_BARRIER histories; lzma_end after a random number of calls under a watchdog'
    ctx.cov['input_distribution'] = dict(runs=len(lines), flush_histories=len(flines))
    ctx.cov['samples'] = [lines[0][:80], flines[0][:120]]
    if viol:
        v = min(viol, key=lambda x: len(x['line']))
        ctx.violation('C08 ' + v['why'], v)
    if not res['ok'] and not viol:
        ctx.violation('proof obligation of Properties_C08 no longer checks (%s)' % res['failing'],
                      {'theorem_file': 'coq/Properties_C08.v', 'failing': res['failing'], 'log_tail': res['log'][-3000:]}, found_input=False)

def replay(ctx, path):
    import json
    print(json.dumps(json.load(open(path)), indent=1)[:3000]); return 0
