"""C14: CRC32/CRC64/SHA-256 equal their standard definitions."""
import subprocess, zlib, hashlib
from common import *
import gen

TRUSTED = [
 'Coq 8.16.1 kernel + vm_compute (table and constant proofs are finite vm_compute checks over the generated tables); no native_compute',
 'axioms: none (Print Assumptions: Closed under the global context for every theorem)',
 'translator tools/gen.py: prints lzma_crc32_table/lzma_crc64_table from a TU that #includes crc32_fast.c/crc64_fast.c of the current tree, SHA256_K and the init state from sha256.c',
 'extraction: ExtrOcamlBasic only; oracle/driver.ml hex glue',
 'modelled not verified: the C text of crc32_fast.c/crc64_fast.c/sha256.c is represented by CrcSlice.generic32/generic64 and Sha256.sha_* (hand transcription, tied by the differential runs); the CLMUL path (crc_x86_clmul.h) is NOT modelled: it is only compared against the standard definition on the explored inputs',
]

def batch(exe, lines, timeout=600):
    r = subprocess.run([exe], input='\n'.join(lines) + '\n', capture_output=True, text=True, timeout=timeout)
    out = r.stdout.split('\n')
    if out and out[-1] == '':
        out.pop()
    if r.returncode != 0 or len(out) != len(lines):
        e = BuildError('driver %s failed rc=%s got %d/%d lines: %s' % (exe, r.returncode, len(out), len(lines), r.stderr[-1500:]))
        e.culprit = lines[len(out)] if len(out) < len(lines) else None   # the first line that was not answered
        e.rc = r.returncode
        raise e
    return out

def py_crc64(data, init=0):
    poly = 0xC96C5795D7870F42
    c = init ^ 0xFFFFFFFFFFFFFFFF
    for b in data:
        c ^= b
        for _ in range(8):
            c = (c >> 1) ^ (poly if c & 1 else 0)
    return c ^ 0xFFFFFFFFFFFFFFFF

def gen_buffers(ctx):
    rng = ctx.rng
    L = 300 if ctx.quick() else 700
    bufs = []
    for n in range(0, L):
        kind = rng.choice(['rand', 'rand', 'rand', 'zero', 'ff', 'bit'])
        if kind == 'rand': d = bytes(rng.getrandbits(8) for _ in range(n))
        elif kind == 'zero': d = bytes(n)
        elif kind == 'ff': d = b'\xff' * n
        else:
            d = bytearray(n)
            if n: d[rng.randrange(n)] = 1 << rng.randrange(8)
            d = bytes(d)
        bufs.append(d)
    # a few long buffers (vectorised implementations switch strategy above some size, e.g. align the pointer first): all 16 alignments
    for n in ([4096, 4097, 4111, 4160, 4199, 16383, 16400, 16447, 33000] if ctx.quick() else list(range(4090, 4230)) + [16383, 16384, 16385, 16400, 16415, 16447, 20011, 32768, 33000, 65536, 65539, 100001, 262147]):
        bufs.append(bytes(rng.getrandbits(8) for _ in range(n)))
    return bufs

def run(ctx):
    c1 = gen.gen_crc(); c2 = gen.gen_sha()
    res = coq_check('Properties_C14')
    ctx.proof(res, TRUSTED)
    ctx.cov['gen_changed'] = bool(c1 or c2)
    orc = oracle()
    drv = {w: compile_driver('hook', 'drv_crc.c', 'drv_crc' + w, whitebox_of='src/liblzma/check/crc%s_fast.c' % w, extra=['-DW=' + w]) for w in ('32', '64')}
    drvc = compile_driver('san', 'drv_check.c', 'drv_check', whitebox_of='src/liblzma/check/check.c')
    bufs = gen_buffers(ctx)
    rng = ctx.rng
    mism = []
    n_eval = 0
    distinct = set()
    stats = {'len_max': 0, 'impls': {}, 'aligns': set()}
    for w in ('32', '64'):
        mask = (1 << int(w)) - 1
        # spec side, once per (data, init)
        keys = []
        for i, d in enumerate(bufs):
            inits = [0, mask, rng.getrandbits(int(w))] if i % 3 == 0 else [0, rng.getrandbits(int(w))]
            for init in inits:
                keys.append((d, init))
        olines = ['crc%s %x %s' % (w, init, d.hex() or '-') for d, init in keys if len(d) <= 5000]
        oout = batch(orc, olines, timeout=1800)
        spec = {}
        k = 0
        for d, init in keys:
            if len(d) <= 5000:
                spec[(d, init)] = int(oout[k], 16); k += 1
            else:  # very long: spec by chaining the oracle-validated python definition
                spec[(d, init)] = zlib.crc32(d, init) if w == '32' else py_crc64(d, init)
        # validate the Coq definition itself against independent implementations
        for (d, init), v in list(spec.items())[:400]:
            ref = zlib.crc32(d, init) if w == '32' else py_crc64(d, init)
            if ref != v:
                ctx.violation('Coq CRC%s definition disagrees with reference implementation (spec validation)' % w,
                              {'data': d.hex(), 'init': init, 'coq': v, 'ref': ref}, found_input=False)
                return
        lines, meta = [], []
        for (d, init) in keys:
            n = len(d)
            aligns = set(range(16)) | {rng.randrange(64)} if n >= 16000 else {rng.randrange(64), (n * 7) % 64} if n > 40 else set(range(0, 16)) if n % 4 == 0 else {rng.randrange(64), 0, 1 + rng.randrange(7)}
            for impl in 'gap':
                for al in aligns:
                    lines.append('%s %d %x %s' % (impl, al, init, d.hex() or '-'))
                    meta.append((impl, al, init, d))
        out = batch(drv[w], lines)
        for (impl, al, init, d), o in zip(meta, out):
            n_eval += 1
            stats['impls'][impl + w] = stats['impls'].get(impl + w, 0) + 1
            stats['aligns'].add(al); stats['len_max'] = max(stats['len_max'], len(d))
            if len(d) > 0: distinct.add((w, impl, al, len(d), init & 0xff))
            if int(o, 16) != spec[(d, init)]:
                mism.append(dict(kind='crc' + w, impl=impl, align=al, init=init, data=d.hex(), got=o, want='%x' % spec[(d, init)]))
        # piecewise through the public function: all split points for short buffers
        plines, pmeta = [], []
        for d in bufs[:120 if ctx.quick() else 300]:
            for sp in range(0, len(d) + 1, 1 if len(d) < 40 else 7):
                plines.append('p %d 0 %s' % (rng.randrange(8), d[:sp].hex() or '-'))
                pmeta.append((d, sp))
        pout = batch(drv[w], plines)
        plines2 = ['p %d %s %s' % (rng.randrange(8), o, d[sp:].hex() or '-') for (d, sp), o in zip(pmeta, pout)]
        pout2 = batch(drv[w], plines2)
        for (d, sp), o in zip(pmeta, pout2):
            n_eval += 1
            want = zlib.crc32(d) if w == '32' else py_crc64(d)
            if int(o, 16) != want:
                mism.append(dict(kind='crc%s-split' % w, split=sp, data=d.hex(), got=o, want='%x' % want))
    # integrity-check interface: crc32(1) crc64(4) sha256(10), arbitrary chunking
    lines, meta = [], []
    shabufs = bufs[:200] + bufs[-3:]
    for d in shabufs:
        n = len(d)
        splitsets = [[]]
        if n:
            splitsets.append(sorted(rng.randrange(n + 1) for _ in range(rng.randrange(1, 5))))
            splitsets.append([min(n, 1), min(n, 64)])
            splitsets.append([min(n, 63), min(n, 64), min(n, 128)])
            splitsets.append(sorted({rng.randrange(1, 64), 64} | {min(n, 64 * k) for k in range(1, 4)}))
        for t in (1, 4, 10):
            for ss in splitsets:
                lines.append('%d %s %s' % (t, d.hex() or '-', ','.join(map(str, ss)) or '-'))
                meta.append((t, d, ss))
    out = batch(drvc, lines)
    sha_spec = {}
    sl = [d for d in shabufs if len(d) <= 400]
    so = batch(orc, ['sha256 %s' % (d.hex() or '-') for d in sl], timeout=1800)
    for d, o in zip(sl, so):
        sha_spec[d] = o if o != '-' else ''
        if o != hashlib.sha256(d).hexdigest():
            ctx.violation('Coq SHA-256 definition disagrees with hashlib (spec validation)', {'data': d.hex(), 'coq': o}, found_input=False)
            return
    for (t, d, ss), o in zip(meta, out):
        n_eval += 1
        distinct.add(('chk', t, len(d), tuple(ss)))
        if t == 1: want = zlib.crc32(d).to_bytes(4, 'little').hex()
        elif t == 4: want = py_crc64(d).to_bytes(8, 'little').hex()
        else: want = sha_spec.get(d) or hashlib.sha256(d).hexdigest()
        if o != want:
            mism.append(dict(kind='check-api', type=t, splits=ss, data=d.hex(), got=o, want=want))
    # ---- long messages: the bit-length field of SHA-256 and the CRCs across 2^32 bits (512 MiB); generated inside the driver,
    # reference = hashlib / zlib over the same generated bytes (the Coq theorems cover every length; this ties the C arithmetic)
    hdrv = compile_driver('hook', 'drv_check.c', 'drv_check', whitebox_of='src/liblzma/check/check.c')
    bigs = [(10, (1 << 29) + 4097, 65536, 7)] if ctx.quick() else [(10, (1 << 29) - 1, 1 << 20, 1), (10, 1 << 29, 4096, 2), (10, (1 << 29) + 4097, 65536, 7), (10, (1 << 30) + 5, 1 << 20, 3), (1, (1 << 29) + 9, 1 << 20, 4), (4, (1 << 29) + 9, 1 << 20, 5)]
    bo, bf = __import__('decode_common').run_lines(hdrv, ['big %d %d %d %d' % b for b in bigs], shards=len(bigs))
    for x in bf: mism.append(dict(kind='long message: check driver crashed', got='-', want='-', data='', stderr=x[1][-500:]))
    for (t_, total, piece, sd), o in zip(bigs, bo):
        if o is None: continue
        n_eval += 1
        pat = bytes(((i * 131 + sd) & 255) for i in range(1 << 20))
        if t_ == 10:
            h = hashlib.sha256(); full, rem = divmod(total, 1 << 20)
            for _ in range(full): h.update(pat)
            h.update(pat[:rem]); want = h.hexdigest()
        elif t_ == 1:
            c = 0; full, rem = divmod(total, 1 << 20)
            for _ in range(full): c = zlib.crc32(pat, c)
            c = zlib.crc32(pat[:rem], c); want = c.to_bytes(4, 'little').hex()
        else:
            want = None
        if want is not None and o.strip() != want:
            mism.append(dict(kind='check type %d over a generated %d-byte message (byte i = (i*131+%d)&255 per MiB, pieces of %d)' % (t_, total, sd, piece), got=o.strip(), want=want, data='', line='big %d %d %d %d' % (t_, total, piece, sd)))
    ctx.cov['evaluations'] = n_eval
    ctx.cov['distinct_nontrivial'] = len(distinct)
    ctx.cov['rule'] = ('every length 0..%d (+ a few > 4096), contents random/zero/ff/single-bit, pointer alignments, initial values {0, ~0, random}; '
                       'implementations g=lzma_crcNN_generic a=crcNN_arch_optimized (CLMUL) p=public; all split points of short buffers; '
                       'check interface with chunkings aimed at the 64-byte SHA buffer boundary; distinct = distinct (impl, align, length, init-low-byte) / (type, length, split set); non-trivial = length > 0' % (len(bufs) - 5))
    ctx.cov['input_distribution'] = dict(len_max=stats['len_max'], per_impl=stats['impls'], alignments=len(stats['aligns']))
    ctx.cov['samples'] = [lines[5], lines[len(lines) // 2][:200]]
    ctx.cov['correspondence_mismatches'] = len(mism)
    ctx.assumptions += ['CLMUL path not modelled in Coq (compared with the standard definition on explored inputs only)',
                        'arch dispatch (cpuid) not modelled; both implementations are called directly']
    if mism:
        m = min(mism, key=lambda x: len(x['data']))
        ctx.violation('%s: implementation result %s != standard definition %s (len %d)' % (m['kind'], m['got'], m['want'], len(m['data']) // 2), m)
    if not res['ok']:
        if not mism:
            ctx.violation('proof obligation of Properties_C14 no longer checks (%s); no failing input found in %d runs' % (res['failing'], n_eval),
                          {'theorem_file': 'coq/Properties_C14.v', 'failing': res['failing'], 'log_tail': res['log'][-3000:]}, found_input=False)

def replay(ctx, path):
    import json
    m = json.load(open(path))
    print(json.dumps(m, indent=1)[:3000])
    return 0
