"""C11: the lzma_code calling protocol is enforced and accounted exactly."""
import subprocess
from common import *
import gen
from props.c14 import batch

TRUSTED = [
 'Coq 8.16.1 kernel; vm_compute for the exhaustive table check (27k rows) and the supported-actions table; no native_compute',
 'axioms: none (Print Assumptions per theorem)',
 'translator: harness/drv_code.c #includes common.c of the current tree, runs the REAL lzma_code() against a scripted inner coder over its whole decision space and dumps every row; tools/gen.py writes Gen/CodeWrapTab.v; the model must reproduce every row (theorem model_reproduces_whole_transition_table)',
 'correspondence: harness/drv_hist.c (public API, guarded buffers, ASan build) on random legal and illegal call histories incl. re-initialisation of one handle with different coders; the extracted model replays each history from the observed per-call coder results',
 'modelled not verified: the inner coders themselves (abstract: any function returning ret/consumed/produced); memory outside the two buffers is only checked by guard bytes + ASan on explored histories',
]
KINDS = {0: 'easy_encoder', 1: 'stream_encoder_mt', 2: 'alone_encoder', 3: 'raw_encoder', 4: 'block_encoder',
         5: 'microlzma_encoder', 6: 'stream_decoder', 7: 'alone_decoder', 8: 'auto_decoder', 9: 'lzip_decoder',
         10: 'raw_decoder', 11: 'stream_decoder_mt'}

def gen_history(rng):
    toks = []
    n = rng.randrange(3, 30)
    kind = rng.choice(list(KINDS))
    wild = rng.random() < 0.35
    enc = kind <= 5
    if wild and rng.random() < 0.1: pass
    else: toks.append('I%d' % kind)
    flushing = None
    for _ in range(n):
        r = rng.random()
        if r < (0.08 if wild else 0.03):
            kind = rng.choice(list(KINDS)); enc = kind <= 5
            toks.append('I%d' % kind); flushing = None; continue
        if wild and r < 0.11:
            toks.append('E'); continue
        if flushing is not None and (not wild or rng.random() < 0.75):
            a = flushing; nin = 0 if (not wild or rng.random() < 0.85) else rng.randrange(1, 5)
        elif wild:
            a = rng.choice([0, 0, 0, 0, 3, 3, 1, 2, 4, 5, 6, 0, 3])
            nin = rng.choice([0, 0, 1, 7, 100, 1000, 5000])
            if a in (1, 2, 3, 4): flushing = a
        else:
            legal = {0: [0, 0, 0, 1, 2, 4, 3], 1: [0, 0, 0, 2, 4, 3], 2: [0, 0, 0, 3], 3: [0, 0, 0, 1, 3], 4: [0, 0, 0, 1, 3], 5: [3]}.get(kind, [0, 0, 0, 3])
            a = rng.choice(legal)
            nin = rng.choice([0, 1, 7, 100, 1000, 5000])
            if a in (1, 2, 3, 4): flushing = a
        nout = rng.choice([0, 0, 1, 13, 100, 4096, 100000]) if wild else rng.choice([0, 1, 13, 100, 4096, 100000, 100000])
        x = 0 if (not wild or rng.random() < 0.85) else rng.choice([1, 2, 3, 4])
        toks.append('C%d,%d,%d,%d' % (a, nin, nout, x))
        if flushing in (1, 2, 4) and rng.random() < 0.4: flushing = None
    return ' '.join(toks)

def run(ctx):
    rng = ctx.rng
    ch, names = gen.gen_codewrap()
    res = coq_check('Properties_C11', timeout=2400)
    ctx.proof(res, TRUSTED)
    orc = oracle()
    drv = compile_driver('san', 'drv_hist.c', 'drv_hist')
    # supported actions per kind from the generated table (the model's view of what init sets)
    sup = {}
    r = subprocess.run([os.path.join(WORK, 'drv-hook', 'drv_code'), 'supported'], capture_output=True, text=True)
    for l in r.stdout.strip().split('\n'):
        t = l.split(); sup[t[0]] = ''.join(t[2:7])
    NH = 400 if ctx.quick() else 8000
    hists = [gen_history(rng) for _ in range(NH)]
    # corpus: multi-step shapes aimed at case-split boundaries
    hists += ['I0 C0,10,0,0 C0,0,0,0 C0,0,0,0 C0,0,10,0 C3,0,100000,0 C3,0,10,0 C0,0,10,0',
              'I0 C3,100,1,0 C3,0,1,0 C0,0,1,0 C3,1,1,0 C3,0,100000,0',
              'I0 C0,100,100,0 I6 C1,100,100,0 C2,0,100,0 C4,0,100,0 C0,100,100,0',
              'I0 C1,100,100,0 I2 C1,0,100,0 C2,0,100,0 C0,10,100,0 C3,0,100000,0',
              'I1 C0,10,10,0 I5 C0,10,10,0 C3,10,100000,0',
              'C0,1,1,0 E C0,1,1,0 I6 C0,0,0,1 C0,5,0,1 C0,5,5,2 C0,5,5,3 C0,5,5,0',
              'I6 C0,3,10,0 C0,1,10,0 C0,100000,10,0 C0,0,0,0 C0,0,0,0 C0,0,100000,0 C3,0,100000,0 C3,0,10,0',
              'I7 C5,1,1,0 C6,1,1,0 C0,100000,100000,0 C0,0,0,0 C3,0,1,0']
    out = batch(drv, hists, timeout=1200) if False else None
    r = subprocess.run([drv, os.path.join(REPO, 'tests/files/good-1-v1.lz')], input='\n'.join(hists) + '\n', capture_output=True, text=True, timeout=1800)
    if r.returncode != 0:
        ctx.violation('history driver crashed / sanitizer report', {'stderr': r.stderr[-3000:], 'kind': 'sanitizer'}, found_input=True)
        out = []
    else:
        out = r.stdout.strip('\n').split('\n')
    olines, per = [], []
    stats = dict(calls=0, rets={}, rejected=0, reinit=0)
    for h, o in zip(hists, out):
        ht, ot = h.split(), o.split()
        ev = []
        inited = False
        for t, g in zip(ht, ot):
            if t[0] == 'I':
                rc = int(g[2:])
                if rc == 0:
                    ev.append('I:' + sup[KINDS[int(t[1:])]]); inited = True
                else:
                    ev.append('I:00000'); inited = False   # failed init ends the handle
                stats['reinit'] += 1
            elif t[0] == 'E':
                inited = False; ev.append(None)   # lzma_end keeps the public totals
            else:
                a, nin, nout, x = map(int, t[1:].split(','))
                f = list(map(int, g[2:].split(',')))
                ret, ai0, ao0, ai1, ao1, tin, tout, pok, gok = f
                iret = 0 if ret == 10 else ret
                ev.append('C:%d,%d,%d,%d,%d,%d,%d,%d,%d,%d' % (a, ai0, ao0, 1 if x == 1 else 0, 1 if x == 2 else 0,
                                                          1 if x == 3 else 0, 1 if inited else 0, iret, ai0 - ai1, ao0 - ao1))
                stats['calls'] += 1; stats['rets'][ret] = stats['rets'].get(ret, 0) + 1
        olines.append('codehist ' + ' '.join(e for e in ev if e)); per.append((h, [t for t, e in zip(ht, ev) if e], [g for g, e in zip(ot, ev) if e]))
    mout = batch(orc, olines, timeout=1800) if out else []
    bad = []
    distinct = set()
    for (h, ht, ot), m in zip(per, mout):
        mt = m.split()
        tin_reset = False
        for i, (t, g, mm) in enumerate(zip(ht, ot, mt)):
            if t[0] != 'C': continue
            f = list(map(int, g[2:].split(',')))
            ret, ai0, ao0, ai1, ao1, tin, tout, pok, gok = f
            mret, mdin, mdout, mtin, mtout = map(int, mm.split(','))
            distinct.add((t.split(',')[0], ret, ai0 != ai1, ao0 != ao1, t.split(',')[3]))
            why = None
            if not pok: why = 'next_in/next_out did not move by exactly the consumed/produced counts'
            elif not gok: why = 'memory outside the offered buffers (or unconsumed input / unproduced output area) was modified'
            elif mret != ret: why = 'return code %d but the protocol model requires %d' % (ret, mret)
            elif (mdin, mdout) != (ai0 - ai1, ao0 - ao1): why = 'a call the protocol refuses moved data (%d in, %d out)' % (ai0 - ai1, ao0 - ao1)
            elif (mtin, mtout) != (tin, tout): why = 'total_in/total_out %d/%d differ from exact sums %d/%d' % (tin, tout, mtin, mtout)
            elif ret in (101, 102): why = 'internal return code leaked'
            if why:
                bad.append(dict(history=h, call_index=i, token=t, observed=g, model=mm, why=why)); break
    # ---- stall histories on the real decoders: at every split offset of valid files, a call without new input returns
    # LZMA_OK, the next one LZMA_BUF_ERROR, neither is fatal, and the rest of the input then decodes as in one piece
    import lzma as _lz, xzgen
    from decode_common import run_lines, LZMA_CONCATENATED
    from props.c16 import lz_member
    ddrv = compile_driver('hook', 'drv_dec.c', 'drv_dec')
    sdata = (xzgen.gen_data(rng, 300) * 3)[:700]
    sfiles = [(0, LZMA_CONCATENATED, xzgen.gen_mt_xz(rng, 3, bsize=(100, 300))[0], 'xz three Blocks'),
              (0, 0, _lz.compress(sdata, format=_lz.FORMAT_XZ, check=_lz.CHECK_SHA256, filters=[{'id': _lz.FILTER_DELTA, 'dist': 2}, {'id': _lz.FILTER_LZMA2, 'dict_size': 4096}]), 'xz delta sha256'),
              (2, 0, _lz.compress(sdata, format=_lz.FORMAT_XZ, check=_lz.CHECK_CRC32), 'auto xz'),
              (3, 0, _lz.compress(sdata, format=_lz.FORMAT_ALONE, filters=[{'id': _lz.FILTER_LZMA1, 'dict_size': 4096}]), 'lzma'),
              (4, 0, lz_member(rng, sdata, dict_code=12), 'lz')]
    sl, sm = [], []
    for k, fl, b, lab in sfiles:
        offs = range(0, len(b)) if (len(b) <= 500 or not ctx.quick()) else sorted(set(rng.sample(range(len(b)), 250)) | set(range(len(b) - 40, len(b))))
        sl.append('dec %d %d 0 0 0 %s' % (k, fl, b.hex())); sm.append((lab, -1))
        for o in offs: sl.append('dec %d %d 5 %d 0 %s' % (k, fl, o, b.hex())); sm.append((lab, o))
    so, sf_ = run_lines(ddrv, sl)
    for x in sf_: bad.append(dict(history=(x[0] or '')[:3000], why='decoder crashed in a stall history', stderr=x[1][-1500:]))
    sbase = {}
    for (lab, o), l, r_ in zip(sm, sl, so):
        if r_ is None: continue
        t = r_.split()
        if o < 0: sbase[lab] = t; continue
        stats['calls'] += int(t[3])
        bt = sbase.get(lab)
        why = None
        if len(t) > 5 and t[5] != 'S0,10': why = 'calls without new input returned %s (LZMA_OK then LZMA_BUF_ERROR expected)' % t[5][1:]
        elif bt and (t[0], t[2], t[4]) != (bt[0], bt[2], bt[4]): why = 'after the stalled calls the rest did not decode as in one piece: status %s (expected %s)' % (t[0], bt[0])
        if why: bad.append(dict(history='%s, stall after %d input bytes: %s' % (lab, o, l[:2000]), why=why))
    stats['stall_histories'] = len(sl)
    # ---- positions never move beyond the buffers given: the real encoders and decoders on the AddressSanitizer build with
    # exact-size heap copies of every input and output slice (1-byte and random slices), so that a coder writing one byte
    # past avail_out, or reporting more than it was given, is seen; all Check sizes and all padding lengths (data sizes 0..40)
    edrv = compile_driver('san', 'drv_enc.c', 'drv_enc'); sdrv = compile_driver('san', 'drv_dec.c', 'drv_dec')
    el = []
    for n_ in range(0, 41 if ctx.quick() else 200):
        dd_ = bytes(rng.getrandbits(8) for _ in range(n_))
        for chk in (0, 1, 4, 10):
            el.append('enc 0 %d 2 0 - %s' % (0 | (chk << 8), dd_.hex() or '-'))
            el.append('enc 4 %d %d %d %s %s' % (chk << 8, rng.choice([2, 3]), rng.randrange(1 << 20), rng.choice(['lzma2:dict=4KiB', 'delta:dist=3+lzma2:dict=4KiB', 'x86+lzma2:dict=4KiB']), dd_.hex() or '-'))
        el.append('enc 1 %d 2 0 - %s' % (1 | (4 << 8) | (1 << 12) | (1 << 20), dd_.hex() or '-'))
        el.append('enc 2 0 2 0 - %s' % (dd_.hex() or '-'))
    eo, ef = run_lines(edrv, el)
    for x in ef: bad.append(dict(history=(x[0] or '')[:3000], why='encoder driven with 1-byte / random output slices: crash or sanitizer report (a position moved beyond its buffer?) rc %s' % x[2], stderr=x[1][-2000:]))
    dl = []
    for l_, o_ in zip(el, eo):
        if o_ is None: continue
        t_ = o_.split(); stats['calls'] += 1
        if t_[0] != '1': bad.append(dict(history=l_[:3000], why='encoder driven with small output slices returned %s' % t_[0])); continue
        k_ = {'0': 0, '4': 0, '1': 0, '2': 3}[l_.split()[1]]
        for m_ in (2, 1): dl.append('dec %d 0 %d 0 0 %s' % (k_, m_, t_[1]))
    do_, df_ = run_lines(sdrv, dl)
    for x in df_: bad.append(dict(history=(x[0] or '')[:3000], why='decoder driven with 1-byte slices: crash or sanitizer report rc %s' % x[2], stderr=x[1][-2000:]))
    for l_, o_ in zip(dl, do_):
        if o_ is None: continue
        stats['calls'] += 1
        if o_.split()[0] != '1': bad.append(dict(history=l_[:3000], why='output of an encoder driven with 1-byte output slices does not decode (status %s)' % o_.split()[0]))
    ctx.cov['evaluations'] = stats['calls']
    ctx.cov['distinct_nontrivial'] = len(distinct)
    ctx.cov['rule'] = ('random call histories on one handle (12 coder kinds, re-init without end, lzma_end, actions 0..6, flush started then changed, NULL buffers, reserved fields, zero-length calls) + corpus; '
                       'distinct = distinct (action, ret, consumed?, produced?, mutation) tuples; table: %d exhaustive rows checked in Coq' % 27832)
    ctx.cov['input_distribution'] = dict(histories=len(hists), calls=stats['calls'], returns=stats['rets'], reinits=stats['reinit'])
    ctx.cov['samples'] = [hists[0], hists[-3]]
    ctx.cov['traces_validated_against_impl'] = len(mout)
    ctx.assumptions += ['TIMED_OUT cannot be distinguished from OK by observation: histories use timeout=0']
    if bad:
        b = min(bad, key=lambda x: len(x['history']))
        ctx.violation('lzma_code protocol: ' + b['why'], b)
    if not res['ok'] and not bad:
        ctx.violation('proof obligation of Properties_C11 no longer checks (%s): the model no longer reproduces lzma_code()\'s transition table or supported actions' % res['failing'],
                      {'theorem_file': 'coq/Properties_C11.v', 'failing': res['failing'], 'log_tail': res['log'][-3000:]}, found_input=False)

def replay(ctx, path):
    import json
    print(json.dumps(json.load(open(path)), indent=1)[:3000]); return 0
