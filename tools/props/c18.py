"""C18: the command-line tools deliver exactly the library's decoding, whatever the sink."""
import subprocess, tempfile, shutil, os, lzma
from common import *
from decode_common import *
import xzgen
from props.c16 import lz_member

TRUSTED = [
 'Coq 8.16.1 kernel; no native_compute', 'axioms: none',
 'theorem: the sparse-output logic (XzSparse.v, transcribed from io_write/io_close) reproduces initial content ++ all buffers with the exact size for every buffer sequence on a POSIX file model (write beyond EOF zero-fills)',
 'differential runs: xz -dc / xz -d / xz -t / xzdec / lzmadec (plain build) vs a direct library decode (harness/drv_dec.c) on valid, corrupt, truncated and concatenated .xz/.lzma/.lz inputs; sinks: new file, pipe, regular file opened for writing at offset 0 and > 0, append, --no-sparse; -T0/-T1/-T4; compress-then-decompress over option combinations',
 'IO_BUFFER_SIZE is regenerated from file_io.h and used to aim the zero-run boundaries',
]

def sh(cmd, **kw):
    return subprocess.run(cmd, capture_output=True, stdin=subprocess.DEVNULL, timeout=120, **kw)

def run(ctx):
    rng = ctx.rng
    res = coq_check('Properties_C18')
    ctx.proof(res, TRUSTED)
    bdir = build('plain')
    drv = compile_driver('hook', 'drv_dec.c', 'drv_dec')
    src = open(os.path.join(REPO, 'src/xz/file_io.h')).read()
    import re
    m = re.search(r'define IO_BUFFER_SIZE (\d+)', src); B = int(m.group(1)) if m else 8192
    xz = os.path.join(bdir, 'xz'); xzdec = os.path.join(bdir, 'xzdec'); lzmadec = os.path.join(bdir, 'lzmadec')
    td = tempfile.mkdtemp(dir=WORK)
    viol = []; n_eval = 0; distinct = set()
    try:
        # ---------- inputs: valid / corrupt / truncated / concatenated
        inputs = []
        for _ in range(12 if ctx.quick() else 200):
            f, e, d = xzgen.gen_valid_xz(rng, 3000); inputs.append((f, 'xz'))
            inputs.append((xzgen.mutate(rng, f)[0], 'xz')); inputs.append((f[:rng.randrange(len(f))], 'xz'))
            data = xzgen.gen_data(rng, rng.randrange(0, 2000))
            al = lzma.compress(data, format=lzma.FORMAT_ALONE, filters=[{'id': lzma.FILTER_LZMA1, 'dict_size': 4096}])
            inputs.append((al, 'lzma')); inputs.append((xzgen.mutate(rng, al)[0], 'lzma')); inputs.append((al + rng.choice([b'\0', b'trailing garbage', al]), 'lzma'))
            lz = lz_member(rng, data); inputs.append((lz, 'lz')); inputs.append((lz + lz_member(rng, data[:50]) + b'trailing', 'lz'))
        # multi-Block files as the threaded encoder writes them (sizes in the Block Headers: the threaded decoder really runs
        # Blocks in parallel), whole, cut inside a later Block, damaged in an early and in a late Block
        for _ in range(3 if ctx.quick() else 40):
            f, e, bounds = xzgen.gen_mt_xz(rng, rng.choice([3, 4, 6]), bsize=rng.choice([(300, 2500), (20000, 50000)]))
            inputs.append((f, 'xz'))
            a_, b_ = rng.choice(bounds[1:]); inputs.append((f[:rng.randrange(a_ + 14, b_)], 'xz'))
            for (a_, b_) in (bounds[0], bounds[-1]):
                g = bytearray(f); g[rng.randrange(a_ + 14, b_ - 6)] ^= 1 << rng.randrange(8); inputs.append((bytes(g), 'xz'))
        # valid files whose integrity check type liblzma cannot verify (a warning, exit status 2, for xz)
        for cid in ((2, 7) if ctx.quick() else (2, 3, 5, 6, 7, 8, 9, 11, 12, 13, 14, 15)):
            inputs.append((xzgen.stream([(xzgen.gen_data(rng, rng.randrange(1, 400)), [{'id': 'lzma2', 'dict_size': 4096}], {})], cid, rng), 'xz'))
        # .lzma streams whose length is an exact multiple of xz's I/O buffer, alone and followed by trailing bytes (the tool
        # probes for trailing data with one extra read exactly at such a boundary)
        def lzma_of_size(target):
            n = target - 30
            for _try in range(400):
                dat = bytes(rng.getrandbits(8) for _ in range(n))
                c = lzma.compress(dat, format=lzma.FORMAT_ALONE, filters=[{'id': lzma.FILTER_LZMA1, 'dict_size': 1 << 16}])
                if len(c) == target: return c
                n += target - len(c)
            return None
        for mult in ((1, 2) if ctx.quick() else (1, 2, 3, 5)):
            c = lzma_of_size(B * mult)
            if c:
                inputs.append((c, 'lzma')); inputs.append((c + b'X', 'lzma')); inputs.append((c + bytes(B), 'lzma')); inputs.append((c + c, 'lzma'))
        # the decoder xz itself selects for each format (coder.c): .lz -> lzma_lzip_decoder, else auto/stream/alone; always CONCATENATED
        lib = [None] * len(inputs); single = {}
        for kind, fm in ((2, ('xz', 'lzma')), (4, ('lz',))):
            idxs = [i for i, (_b, f_) in enumerate(inputs) if f_ in fm]
            res_, lf = impl_dec(drv, kind, LZMA_CONCATENATED, 0, 0, [inputs[i][0] for i in idxs])
            for i, r_ in zip(idxs, res_): lib[i] = r_
        # lzmadec uses the plain .lzma decoder and rejects trailing bytes itself
        alone_idx = [i for i, (_b, f_) in enumerate(inputs) if f_ == 'lzma']
        ares, _ = impl_dec(drv, 3, 0, 0, 0, [inputs[i][0] for i in alone_idx])
        alone = {i: r_ for i, r_ in zip(alone_idx, ares)}
        for i, ((blob, fmt), l) in enumerate(zip(inputs, lib)):
            if l is None: continue
            ret, tin, tout, calls, out = l
            p = os.path.join(td, 'in%d.%s' % (i, fmt)); open(p, 'wb').write(blob)
            runs = [('xz -dc', [xz, '-dc', p]), ('xz -dc -T4', [xz, '-dc', '-T4', p]), ('xz -t', [xz, '-t', p]), ('xz -d', [xz, '-dk', p])]
            if fmt == 'xz': runs.append(('xzdec', [xzdec, p]))
            if fmt == 'lzma': runs.append(('lzmadec', [lzmadec, p]))
            # standard input to standard output without -c (xz then writes to stdout on its own), single- and multi-threaded
            runs += [('xz -d <stdin', [xz, '-d']), ('xz -d -T4 <stdin', [xz, '-d', '-T4']), ('xz -dc -T2 <stdin', [xz, '-dc', '-T2'])]
            for name, cmd in runs:
                if name.endswith('<stdin'): r = subprocess.run(cmd, input=blob, capture_output=True, timeout=120)
                else: r = sh(cmd)
                n_eval += 1
                if name == 'xz -dc': single[i] = (r.stdout, r.returncode, p, fmt)
                if name == 'lzmadec':
                    a_ = alone.get(i)
                    if a_ is None: continue
                    ret, tin, tout, calls, out = a_
                    if ret == 1 and tin != len(blob): ret = 9
                else:
                    ret, tin, tout, calls, out = l
                distinct.add((name, fmt, ret, r.returncode))
                ok_lib = (ret == 1)
                # xz exits 2 for warnings only (e.g. an integrity check type that cannot be verified): not a failure
                tool_ok = r.returncode == 0 or (name.startswith('xz ') and r.returncode == 2 and b'nsupported type of integrity check' in r.stderr)
                if name == 'xz -t':
                    if tool_ok != ok_lib: viol.append(dict(why='%s exit %d but the library decode returns %d' % (name, r.returncode, ret), file=blob.hex()))
                    continue
                if name == 'xz -d':
                    tgt = p[:-len(fmt) - 1]
                    exists = os.path.exists(tgt)
                    if exists != ok_lib: viol.append(dict(why='xz -d: output file %s although the library decode returns %d' % ('created' if exists else 'missing', ret), file=blob.hex()))
                    elif exists and open(tgt, 'rb').read() != out: viol.append(dict(why='xz -d: file content differs from the library decode', file=blob.hex()))
                    if exists: os.remove(tgt)
                    if tool_ok != ok_lib: viol.append(dict(why='xz -d exit %d, library %d' % (r.returncode, ret), file=blob.hex()))
                    continue
                if tool_ok != ok_lib:
                    viol.append(dict(why='%s exit status %d but the library decode returns %d' % (name, r.returncode, ret), file=blob.hex()))
                elif ok_lib and r.stdout != out:
                    viol.append(dict(why='%s wrote %d bytes, the library decodes %d bytes (or different content)' % (name, len(r.stdout), len(out)), file=blob.hex()))
                elif not ok_lib and r.stdout != out and name != 'lzmadec':
                    # everything decodable before the error, nothing after it - with any number of threads
                    viol.append(dict(why='%s wrote %d bytes before reporting the error, the library decodes %d bytes before it%s' % (name, len(r.stdout), len(out), '' if out.startswith(r.stdout) or r.stdout.startswith(out) else ' (and the contents differ)'), file=blob.hex()))
                elif not ok_lib and name == 'lzmadec' and not (out.startswith(r.stdout) or r.stdout.startswith(out)):
                    viol.append(dict(why='%s output before the error is not what the library decoded' % name, file=blob.hex()))
        # ---------- several files in one run: every file is judged as if it were alone (no state may leak from one file to the next)
        keys = sorted(single)
        for _ in range(60 if ctx.quick() else 1500):
            pick = [rng.choice(keys) for _k in range(rng.choice([2, 2, 3]))]
            if rng.random() < 0.4:   # a file of one format right after a file of another one
                fa, fb = rng.sample(['xz', 'lzma', 'lz'], 2)
                ka = [i for i in keys if single[i][3] == fa]; kb = [i for i in keys if single[i][3] == fb]
                if ka and kb: pick = [rng.choice(ka), rng.choice(kb)]
            exp_out = b''.join(single[i][0] for i in pick); rcs = [single[i][1] for i in pick]
            exp_rc = 1 if 1 in rcs else (2 if 2 in rcs else 0)
            for extra in ([], ['-T4']):
                r = sh([xz, '-dc'] + extra + [single[i][2] for i in pick]); n_eval += 1
                if r.returncode != exp_rc or (r.stdout != exp_out and not extra):
                    viol.append(dict(why='xz -dc %s on %s in one run: exit %d / %d bytes, but judged one at a time: exit %d / %d bytes' % (' '.join(extra), '+'.join(single[i][3] for i in pick), r.returncode, len(r.stdout), exp_rc, len(exp_out)),
                                     file=b''.join(open(single[i][2], 'rb').read() for i in pick).hex(), files=[open(single[i][2], 'rb').read().hex() for i in pick]))
            distinct.add(('multi', tuple(single[i][3] for i in pick), exp_rc))
        warn = [i for i in keys if single[i][1] == 2]; errs = [i for i in keys if single[i][1] == 1]; good = [i for i in keys if single[i][1] == 0]
        for _ in range(12 if ctx.quick() else 200):
            if not warn or not errs: break
            pick = [rng.choice(warn), rng.choice(errs)] + ([rng.choice(good)] if good and rng.random() < 0.5 else [])
            rng.shuffle(pick)
            for extra, exp_rc in (([], 1), (['-Q'], 1)):
                r = sh([xz, '-dc'] + extra + [single[i][2] for i in pick]); n_eval += 1
                if r.returncode != exp_rc:
                    viol.append(dict(why='xz -dc %s on files that give exit %s when decoded one at a time: exit %d, expected %d (an error must not be masked by a warning)' % (' '.join(extra), [single[i][1] for i in pick], r.returncode, exp_rc),
                                     file=b''.join(open(single[i][2], 'rb').read() for i in pick).hex(), files=[open(single[i][2], 'rb').read().hex() for i in pick]))
        if warn:
            for extra, exp_rc in (([], 2), (['-Q'], 0)):
                r = sh([xz, '-dc'] + extra + [single[warn[0]][2]]); n_eval += 1
                if r.returncode != exp_rc: viol.append(dict(why='xz -dc %s on a file with an unverifiable check type: exit %d, expected %d' % (' '.join(extra), r.returncode, exp_rc), file=open(single[warn[0]][2], 'rb').read().hex()))
        for i in keys: os.remove(single[i][2])
        # ---------- sparse files: zero runs around the block size, every sink
        plains = []
        for lead in (0, 1, B - 1, B, B + 1, 3 * B):
            for trail in (0, 1, B - 1, B, B + 1, 2 * B):
                mid = rng.choice([b'', b'x', xzgen.gen_data(rng, rng.randrange(1, 300)), bytes(B) + b'y' + bytes(B - 1)])
                plains.append(bytes(lead) + mid + bytes(trail))
        plains += [bytes(5 * B), b'', bytes(B), b'a' * B + bytes(B), bytes(B) + b'a' * B, (b'a' * (B - 1) + b'\0') + bytes(B) * 3]
        if ctx.quick(): plains = rng.sample(plains, 16) + [bytes(5 * B), b'a' * B + bytes(B), bytes(B)]
        for i, pl in enumerate(plains):
            cf = os.path.join(td, 's%d.xz' % i)
            open(cf, 'wb').write(lzma.compress(pl, preset=0))
            for T in ('-T1', '-T4'):
                # new file via -d
                r = sh([xz, '-dk', T, cf]); n_eval += 1
                got = open(cf[:-3], 'rb').read() if os.path.exists(cf[:-3]) else None
                if got != pl: viol.append(dict(why='xz -d %s: output file has %s bytes, expected %d (zero runs lost or size wrong)' % (T, None if got is None else len(got), len(pl)), file=pl[:64].hex(), size=len(pl)))
                if got is not None: os.remove(cf[:-3])
                # stdout is a regular file at offset 0, at offset > 0, append, pipe, --no-sparse
                for sink in ('trunc', 'offset', 'append', 'pipe', 'nosparse'):
                    op = os.path.join(td, 'out'); pre = b'PREFIX' if sink in ('offset', 'append') else b''
                    open(op, 'wb').write(pre)
                    if sink == 'pipe':
                        r = sh([xz, '-dc', T, cf]); got = r.stdout
                    else:
                        fl = os.O_WRONLY | (os.O_APPEND if sink == 'append' else 0)
                        fd = os.open(op, fl)
                        if sink == 'offset': os.lseek(fd, len(pre), os.SEEK_SET)
                        r = subprocess.run([xz, '-dc', T] + (['--no-sparse'] if sink == 'nosparse' else []) + [cf], stdout=fd, stderr=subprocess.PIPE, stdin=subprocess.DEVNULL, timeout=120)
                        os.close(fd); got = open(op, 'rb').read()
                    n_eval += 1; distinct.add((sink, T, len(pl) % B == 0, pl[-1:] == b'\0'))
                    if r.returncode != 0 or got != pre + pl:
                        viol.append(dict(why='xz -dc %s to %s: %d bytes written, expected %d (exit %d)' % (T, sink, len(got), len(pre + pl), r.returncode), file=pl[:64].hex(), size=len(pl)))
            os.remove(cf)
        # ---------- compress then decompress over option combinations
        data = xzgen.gen_data(rng, 50000) + bytes(3 * B)
        src_p = os.path.join(td, 'plain'); open(src_p, 'wb').write(data)
        combos = [['-0'], ['-6e'], ['-T4', '--block-size=8192'], ['--block-list=1000,5000,0'], ['--filters=delta:dist=4 lzma2:dict=64KiB'], ['--format=lzma'], ['-C', 'sha256', '-T2'],
                  ['--x86', '--lzma2=dict=4KiB,lc=0,lp=2,pb=0'], ['-F', 'raw', '--lzma2=dict=8KiB'], ['--flush-timeout=1', '-T1'], ['-T3', '-9', '--memlimit-compress=30MiB']]
        for c in combos:
            r = sh([xz, '-c'] + c + [src_p]); n_eval += 1
            if r.returncode != 0: viol.append(dict(why='xz %s failed: %s' % (' '.join(c), r.stderr.decode()[:200]), file='')); continue
            darg = [a for a in c if a.startswith('--format') or a in ('-F', 'raw') or a.startswith('--lzma2') and ('raw' in c)]
            r2 = subprocess.run([xz, '-dc'] + darg, input=r.stdout, capture_output=True, timeout=120)
            if r2.returncode != 0 or r2.stdout != data: viol.append(dict(why='compress with %s then decompress does not return the original (exit %d, %d bytes)' % (' '.join(c), r2.returncode, len(r2.stdout)), file=''))
    finally:
        shutil.rmtree(td, ignore_errors=True)
    ctx.cov['evaluations'] = n_eval
    ctx.cov['distinct_nontrivial'] = len(distinct)
    ctx.cov['rule'] = 'tools vs library decode on valid/corrupt/truncated/concatenated .xz/.lzma/.lz (stdout bytes, exit status, file created?); plaintexts with zero runs starting/ending at -1/0/+1 around the I/O block size (leading, trailing, all-zero, empty) x sinks {new file, pipe, regular file at offset 0, at offset 6, O_APPEND, --no-sparse} x threads {1,4}; round trips over option combinations'
    ctx.cov['input_distribution'] = dict(decode_inputs=len(inputs), sparse_plaintexts=len(plains), block_size=B)
    ctx.cov['samples'] = ['zero run %d + data + zero run %d' % (B, B + 1), 'xz -dc -T4 > regular file']
    if viol:
        v = min(viol, key=lambda x: len(x.get('file', '')))
        ctx.violation('C18 ' + v['why'], v)
    if not res['ok'] and not viol:
        ctx.violation('proof obligation of Properties_C18 no longer checks (%s)' % res['failing'],
                      {'theorem_file': 'coq/Properties_C18.v', 'failing': res['failing'], 'log_tail': res['log'][-3000:]}, found_input=False)

def replay(ctx, path):
    import json
    print(json.dumps(json.load(open(path)), indent=1)[:3000]); return 0
