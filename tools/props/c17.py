"""C17: xz never loses user data when I/O fails, a signal arrives or the process dies."""
import subprocess, tempfile, shutil, os, lzma, errno, signal
from common import *
import xzgen

TRUSTED = [
 'Coq 8.16.1 kernel; no native_compute', 'axioms: none',
 'theorems: ordering logic of io_close (XzIo.v, transcribed from file_io.c) for every combination of step outcomes: the source is unlinked only after complete write incl. sparse tail, fsync of file and directory (unless disabled), and an error-free close; any failure unlinks the target and keeps the source; --keep never unlinks',
 'fault injection on the real binary: harness/sysfault/sysfault.c (LD_PRELOAD) fails or shortens the k-th write/read/close/fsync/lseek/unlink/open/fchmod/fchown/futimens for EVERY k of a clean run, delivers SIGTERM/SIGINT before it, or _exit()s there; predicates evaluated on the resulting directory: source gone => complete valid target; failure => target gone, source intact, non-zero exit; killed => source intact or complete target present',
 'assumed: POSIX file-system semantics incl. "fsync => durable"; signals are only injected at system-call boundaries; the LD_PRELOAD shim sees libc wrappers only',
]
KINDS = ['write', 'read', 'close', 'fsync', 'lseek', 'unlink', 'open', 'fchmod', 'fchown', 'futimens']

def random_bytes(rng, n):
    return rng.getrandbits(8 * n).to_bytes(n, 'little')

def run(ctx):
    rng = ctx.rng
    res = coq_check('Properties_C17')
    ctx.proof(res, TRUSTED)
    bdir = build('plain'); xz = os.path.join(bdir, 'xz')
    so = os.path.join(WORK, 'sysfault.so')
    r = subprocess.run(['cc', '-shared', '-fPIC', '-O1', '-o', so, os.path.join(VERIF, 'harness/sysfault/sysfault.c'), '-ldl'], capture_output=True, text=True)
    if r.returncode != 0: raise BuildError('sysfault build failed: ' + r.stderr[-2000:])
    td = tempfile.mkdtemp(dir=WORK)
    viol = []; n_eval = 0; distinct = set()
    B = 8192
    plain_sets = {
        'text': xzgen.gen_data(rng, 30000),
        'sparse-tail': xzgen.gen_data(rng, 3 * B)[:3 * B - 5] + b'x' * 5 + bytes(2 * B),      # size multiple of 8192 ending in zero blocks
        'small': b'hello\n',
    }
    scen = []
    for nm, pl in plain_sets.items():
        scen.append(('compress ' + nm, [], pl, False))
        scen.append(('decompress ' + nm, ['-d'], pl, True))
    scen.append(('compress --no-sync text', ['--no-sync'], plain_sets['text'], False))
    scen.append(('decompress -T2 sparse-tail', ['-d', '-T2'], plain_sets['sparse-tail'], True))
    if ctx.quick(): scen = [scen[1], scen[2], scen[3], scen[0] if rng.random() < 0.5 else scen[6]]
    def fresh(d, pl, dec):
        shutil.rmtree(d, ignore_errors=True); os.mkdir(d)
        if dec:
            src = os.path.join(d, 'f.xz'); open(src, 'wb').write(lzma.compress(pl, preset=0)); return src, os.path.join(d, 'f')
        src = os.path.join(d, 'f'); open(src, 'wb').write(pl); return src, os.path.join(d, 'f.xz')
    def target_complete(tgt, pl, dec):
        if not os.path.exists(tgt): return False
        b = open(tgt, 'rb').read()
        if dec: return b == pl
        try: return lzma.decompress(b) == pl
        except Exception: return False
    for label, args, pl, dec in scen:
        d = os.path.join(td, 'w')
        src, tgt = fresh(d, pl, dec)
        src_bytes = open(src, 'rb').read()
        log = os.path.join(td, 'log'); 
        if os.path.exists(log): os.remove(log)
        env = dict(os.environ, LD_PRELOAD=so, VERIF_FAULT_LOG=log)
        r = subprocess.run([xz] + args + [src], env=env, capture_output=True, stdin=subprocess.DEVNULL, timeout=60)
        if r.returncode != 0 or os.path.exists(src) or not target_complete(tgt, pl, dec):
            viol.append(dict(why='clean run of "%s" under the interposer failed (exit %d): %s' % (label, r.returncode, r.stderr.decode()[:200]))); continue
        counts = dict((l.split()[0], int(l.split()[1])) for l in open(log).read().split('\n') if l)
        jobs = []
        for kind in KINDS:
            for k in range(1, counts.get(kind, 0) + 1):
                acts = ['E%d' % errno.EIO, 'K']
                if kind == 'write': acts.append('E%d' % errno.ENOSPC)
                if kind in ('write', 'read'): acts.append('E%d' % errno.EINTR)
                if kind in ('write', 'read'): acts.append('H')
                if kind in ('write', 'close', 'fsync', 'read'): acts.append('S%d' % rng.choice([signal.SIGTERM, signal.SIGINT, signal.SIGHUP, signal.SIGPIPE]))
                for a in acts: jobs.append((kind, k, a))
        if ctx.quick() and len(jobs) > 160:
            # keep every call of the rare kinds and the last writes/closes (where the ordering matters), sample the rest
            keep = [j for j in jobs if j[0] not in ('write', 'read') or j[1] > counts[j[0]] - 3]
            rest = [j for j in jobs if j not in keep]
            jobs = keep + rng.sample(rest, min(len(rest), 60))
        for kind, k, act in jobs:
            src, tgt = fresh(d, pl, dec)
            env = dict(os.environ, LD_PRELOAD=so, VERIF_FAULT='%s:%d:%s' % (kind, k, act))
            try:
                r = subprocess.run([xz] + args + [src], env=env, capture_output=True, stdin=subprocess.DEVNULL, timeout=60)
            except subprocess.TimeoutExpired:
                viol.append(dict(why='%s: xz hung with fault %s:%d:%s' % (label, kind, k, act))); continue
            n_eval += 1
            src_ok = os.path.exists(src) and open(src, 'rb').read() == src_bytes
            tgt_ok = target_complete(tgt, pl, dec)
            tgt_exists = os.path.exists(tgt)
            distinct.add((label, kind, act[0], r.returncode, src_ok, tgt_exists))
            why = None
            if not src_ok and not tgt_ok:
                why = 'USER DATA LOST: source removed/changed and no complete target'
            elif act[0] == 'K' or r.returncode < 0 or r.returncode == 137:
                pass   # killed: only the either-or above is required
            elif r.returncode in (0, 2) and not src_ok and tgt_ok:
                pass   # completed (EINTR and short counts are retried; harmless faults on attribute calls are warnings)
            elif r.returncode in (0, 2) and src_ok and not tgt_exists:
                why = 'exit status %d although nothing was produced' % r.returncode
            elif r.returncode in (0, 2) and src_ok and tgt_exists:
                if not (kind == 'unlink'): why = 'exit %d with both source and target present' % r.returncode
            elif r.returncode == 1:
                if not src_ok: why = 'failure reported but the source is gone'
                elif tgt_exists and kind != 'unlink': why = 'failure reported but the incomplete target was left behind'
            if why: viol.append(dict(why='%s, fault %s #%d %s (exit %d): %s' % (label, kind, k, act, r.returncode, why), stderr=r.stderr.decode(errors='replace')[:300]))
    # ---- several files in one run with a fault in the middle: every file on its own must end either replaced by a complete,
    # correct target or untouched without a target - whatever happened to the file before it
    for margs, mdec in ((['-T1'], False), (['-T1', '--no-sync'], False), (['-d'], True), (['-T2'], False)):
        if ctx.quick() and margs == ['-T2']: continue
        md = os.path.join(td, 'multi')
        def mfresh():
            shutil.rmtree(md, ignore_errors=True); os.mkdir(md); fl_ = []
            for j in range(3):
                # incompressible and large enough that a write happens while the 8 KiB input chunk is only partly consumed
                pl_ = os.urandom(1) * 0 + random_bytes(rng, 260000 + 30000 * j) if j != 1 else xzgen.gen_data(rng, 60000)
                if mdec: sp = os.path.join(md, 'm%d.xz' % j); open(sp, 'wb').write(lzma.compress(pl_, preset=0)); tp = os.path.join(md, 'm%d' % j)
                else: sp = os.path.join(md, 'm%d' % j); open(sp, 'wb').write(pl_); tp = os.path.join(md, 'm%d.xz' % j)
                fl_.append((sp, tp, pl_, open(sp, 'rb').read()))
            return fl_
        rng_state = rng.getstate(); fl_ = mfresh()
        mlog = os.path.join(td, 'mlog')
        if os.path.exists(mlog): os.remove(mlog)
        r = subprocess.run([xz] + margs + [f_[0] for f_ in fl_], env=dict(os.environ, LD_PRELOAD=so, VERIF_FAULT_LOG=mlog), capture_output=True, stdin=subprocess.DEVNULL, timeout=60)
        if r.returncode != 0: viol.append(dict(why='clean multi-file run failed: %s' % r.stderr.decode()[:200])); continue
        mcounts = dict((l.split()[0], int(l.split()[1])) for l in open(mlog).read().split('\n') if l)
        ks = list(range(1, mcounts.get('write', 0) + 1))
        if ctx.quick() and len(ks) > 14: ks = sorted(rng.sample(ks, 14))
        for k in ks:
            for act in ('E%d' % errno.ENOSPC, 'E%d' % errno.EIO):
                rng.setstate(rng_state); fl_ = mfresh()
                r = subprocess.run([xz] + margs + [f_[0] for f_ in fl_], env=dict(os.environ, LD_PRELOAD=so, VERIF_FAULT='write:%d:%s' % (k, act)), capture_output=True, stdin=subprocess.DEVNULL, timeout=60)
                n_eval += 1
                anyfail = False
                for sp, tp, pl_, sb in fl_:
                    src_ok = os.path.exists(sp) and open(sp, 'rb').read() == sb
                    tgt_ok = target_complete(tp, pl_, mdec)
                    if src_ok and not os.path.exists(tp): anyfail = True; continue
                    if not src_ok and tgt_ok: continue
                    viol.append(dict(why='xz %s on three files, write #%d fails with %s: %s ends with source %s and target %s' % (' '.join(margs), k, act, os.path.basename(sp), 'intact' if src_ok else 'GONE/CHANGED', 'complete' if tgt_ok else ('present but WRONG' if os.path.exists(tp) else 'absent')), stderr=r.stderr.decode(errors='replace')[:300])); break
                if anyfail and r.returncode == 0: viol.append(dict(why='xz %s on three files, write #%d %s: a file was not processed but the exit status is 0' % (' '.join(margs), k, act), stderr=''))
                distinct.add(('multi', tuple(margs), act, r.returncode))
    # ---- a termination signal while a later file is being written, after an earlier file of the same run failed (or was
    # fine): xz must stop by the signal, the file in progress keeps its source and loses its partial target - whatever
    # happened before (verbose or not, earlier file rejected at its very start, in its middle, or accepted)
    sig_dir = os.path.join(td, 'sig')
    big_pl = random_bytes(rng, 1500000) + xzgen.gen_data(rng, 200000)
    big_xz = lzma.compress(big_pl, preset=0)
    okx = lzma.compress(xzgen.gen_data(rng, 5000), preset=0)
    firsts = {'accepted': okx, 'cut-after-block-header': okx[:12 + (okx[12] + 1) * 4], 'cut-in-stream-header': okx[:7], 'not-xz': b'this is not an xz file\n' * 3,
              'cut-in-data': okx[:len(okx) // 2], 'bitflip': okx[:40] + bytes([okx[40] ^ 0x20]) + okx[41:]}
    for fname, fbytes in firsts.items():
        for sargs in (['-d', '-v'], ['-d'], ['-d', '-vv', '-T2'], ['-d', '-q']):
            if ctx.quick() and rng.random() < 0.4 and fname not in ('cut-after-block-header',): continue
            def sfresh():
                shutil.rmtree(sig_dir, ignore_errors=True); os.mkdir(sig_dir)
                open(os.path.join(sig_dir, 'a.xz'), 'wb').write(fbytes); open(os.path.join(sig_dir, 'b.xz'), 'wb').write(big_xz)
            sfresh(); slog = os.path.join(td, 'slog')
            if os.path.exists(slog): os.remove(slog)
            cmdl = [xz] + sargs + [os.path.join(sig_dir, 'a.xz'), os.path.join(sig_dir, 'b.xz')]
            r = subprocess.run(cmdl, env=dict(os.environ, LD_PRELOAD=so, VERIF_FAULT_LOG=slog), capture_output=True, stdin=subprocess.DEVNULL, timeout=60)
            W = dict((l.split()[0], int(l.split()[1])) for l in open(slog).read().split('\n') if l).get('write', 0)
            if not os.path.exists(os.path.join(sig_dir, 'b')) or open(os.path.join(sig_dir, 'b'), 'rb').read() != big_pl or W < 150:
                viol.append(dict(why='clean two-file run (%s first) did not decompress the second file (exit %d, %d writes)' % (fname, r.returncode, W), stderr=r.stderr.decode(errors='replace')[:300])); continue
            for sg in ([signal.SIGTERM, signal.SIGINT] if ctx.quick() else [signal.SIGTERM, signal.SIGINT, signal.SIGHUP, signal.SIGPIPE]):
                k = W - rng.randrange(40, 140)      # in the middle of the second file's data writes
                sfresh()
                r = subprocess.run(cmdl, env=dict(os.environ, LD_PRELOAD=so, VERIF_FAULT='write:%d:S%d' % (k, sg)), capture_output=True, stdin=subprocess.DEVNULL, timeout=60)
                n_eval += 1; distinct.add(('signal-later-file', fname, tuple(sargs), r.returncode))
                src_ok = os.path.exists(os.path.join(sig_dir, 'b.xz')) and open(os.path.join(sig_dir, 'b.xz'), 'rb').read() == big_xz
                tgt = os.path.exists(os.path.join(sig_dir, 'b'))
                why = None
                if not src_ok: why = 'the source of the file in progress is gone'
                elif tgt: why = 'a (partial) target was left behind'
                elif r.returncode != -sg and r.returncode not in (1, 128 + sg): why = 'exit status %d' % r.returncode
                if why: viol.append(dict(why='xz %s a.xz(%s) b.xz, signal %d delivered at write #%d of %d (inside b): %s; exit status %d' % (' '.join(sargs), fname, sg, k, W, why, r.returncode), stderr=r.stderr.decode(errors='replace')[-300:]))
    # ---- invalid input (no fault injected): the invalid source stays, no target appears for it, exit status non-zero;
    # valid files named in the same run are still replaced.  Every order and format mix: nothing may leak between files.
    from props.c16 import lz_member
    def mk(kind):
        pl = xzgen.gen_data(rng, rng.randrange(1, 3000))
        if kind == 'xz': return lzma.compress(pl, preset=0), pl, 'xz', True
        if kind == 'lzma': return lzma.compress(pl, format=lzma.FORMAT_ALONE, filters=[{'id': lzma.FILTER_LZMA1, 'dict_size': 4096}]), pl, 'lzma', True
        if kind == 'lz': return lz_member(rng, pl), pl, 'lz', True
        if kind == 'xz-trunc': b = lzma.compress(pl, preset=0); return b[:rng.randrange(1, len(b))], pl, 'xz', False
        if kind == 'xz-bitflip': b = bytearray(lzma.compress(pl + bytes(40), preset=0)); b[rng.randrange(12, len(b) - 12)] ^= 0x10; return bytes(b), pl, 'xz', False
        if kind == 'lzma-trailing': return lzma.compress(pl, format=lzma.FORMAT_ALONE, filters=[{'id': lzma.FILTER_LZMA1, 'dict_size': 4096}]) + rng.choice([b'\0', b'junk after the end']), pl, 'lzma', False
        if kind == 'xz-trailing': return lzma.compress(pl, preset=0) + b'garbage!', pl, 'xz', False
    kinds_ = ['xz', 'lzma', 'lz', 'xz-trunc', 'xz-bitflip', 'lzma-trailing', 'xz-trailing']
    for it in range(40 if ctx.quick() else 600):
        d = os.path.join(td, 'm'); shutil.rmtree(d, ignore_errors=True); os.mkdir(d)
        pick = [rng.choice(kinds_) for _k in range(rng.choice([1, 2, 2, 3]))]
        if it < 12: pick = [['lz', 'xz', 'lzma'][it % 3], kinds_[3 + it // 3]]      # every (valid format, kind of invalid file) order once
        files = []
        for j, kd in enumerate(pick):
            b, pl, ext, good = mk(kd); srcp = os.path.join(d, 'f%d.%s' % (j, ext)); open(srcp, 'wb').write(b)
            files.append((srcp, os.path.join(d, 'f%d' % j), b, pl, good, kd))
        args = rng.choice([['-d'], ['-d', '-T2'], ['-d', '--no-sync']])
        r = subprocess.run([xz] + args + [f_[0] for f_ in files], capture_output=True, stdin=subprocess.DEVNULL, timeout=60); n_eval += 1
        anybad = any(not f_[4] for f_ in files)
        why = None
        for srcp, tgt, b, pl, good, kd in files:
            if good:
                if os.path.exists(srcp) or not os.path.exists(tgt) or open(tgt, 'rb').read() != pl: why = 'valid %s file was not replaced by its content' % kd
            else:
                if not os.path.exists(srcp) or open(srcp, 'rb').read() != b: why = 'invalid source (%s) was removed or changed' % kd
                elif os.path.exists(tgt): why = 'a target file was left for the invalid source (%s)' % kd
        if why is None and (r.returncode == 0) == anybad: why = 'exit status %d with %s' % (r.returncode, 'an invalid file' if anybad else 'only valid files')
        distinct.add(('invalid-input', tuple(pick), r.returncode))
        if why: viol.append(dict(why='xz %s %s: %s' % (' '.join(args), ' '.join(pick), why), stderr=r.stderr.decode(errors='replace')[:300], files=[f_[2].hex()[:4000] for f_ in files]))
    shutil.rmtree(td, ignore_errors=True)
    ctx.cov['evaluations'] = n_eval
    ctx.cov['distinct_nontrivial'] = len(distinct)
    ctx.cov['rule'] = 'per scenario (compress/decompress x text / output ending in zero blocks at a multiple of the I/O block / tiny; --no-sync; -T2) a clean run counts the system calls, then every k-th write/read/close/fsync/lseek/unlink/open/fchmod/fchown/futimens is failed (EIO/ENOSPC/EINTR), shortened, preceded by SIGTERM/SIGINT/SIGHUP/SIGPIPE, or the process _exit()s there; distinct = (scenario, call kind, action, exit status, source intact, target exists)'
    ctx.cov['input_distribution'] = dict(scenarios=[s[0] for s in scen], injected_runs=n_eval)
    ctx.cov['samples'] = ['write:7:E5 during "decompress sparse-tail"', 'close:2:K']
    if viol:
        ctx.violation('C17 ' + viol[0]['why'], viol[0])
    if not res['ok'] and not viol:
        ctx.violation('proof obligation of Properties_C17 no longer checks (%s)' % res['failing'],
                      {'theorem_file': 'coq/Properties_C17.v', 'failing': res['failing'], 'log_tail': res['log'][-3000:]}, found_input=False)

def replay(ctx, path):
    import json
    print(json.dumps(json.load(open(path)), indent=1)[:3000]); return 0
