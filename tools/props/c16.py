"""C16: legacy .lzma, foreign .lz and auto-detection follow their format rules."""
import struct, zlib, lzma, glob
from common import *
from decode_common import *
import xzgen

TRUSTED = [
 'Coq 8.16.1 kernel; no native_compute', 'axioms: none',
 'specifications Formats.alone_decode / lzip_decode / auto_decode written from doc/lzma-file-format.txt, the lzip file format and the decoders; tied to the C code by differential runs (status, output, input position)',
 'generators: .lzma in all four size/end-marker flavours (end-marker-less streams via the MicroLZMA encoder of the tree under test), .lz v0/v1 assembled by the harness (no .lz encoder exists), multi-member, trailing data, truncated magic, mutants',
 'LZMA1 resumable decoder: explored by slicing, not proved',
]

def lz_member(rng, data, version=1, dict_code=None):
    raw = lzma.compress(data, format=lzma.FORMAT_ALONE, filters=[{'id': lzma.FILTER_LZMA1, 'dict_size': 1 << 16, 'lc': 3, 'lp': 0, 'pb': 2}])
    stream = raw[13:]
    dc = dict_code if dict_code is not None else rng.choice([16, 12, 20, 29, 16 | (3 << 5), 13 | (7 << 5), 23 | (1 << 5)])
    body = b'LZIP' + bytes([version, dc]) + stream + struct.pack('<I', zlib.crc32(data)) + struct.pack('<Q', len(data))
    if version >= 1: body += struct.pack('<Q', len(body) + 8)
    return body

def run(ctx):
    rng = ctx.rng
    res = coq_check('Properties_C16')
    ctx.proof(res, TRUSTED)
    orc = oracle()
    drv = compile_driver('hook', 'drv_dec.c', 'drv_dec')
    enc = compile_driver('hook', 'drv_enc.c', 'drv_enc')
    N = 40 if ctx.quick() else 800
    cases = []   # (blob, label, [(kind, flags, oracle cmd)])
    ALONE = [(3, 0, 'alonedec 0'), (2, 0, 'autodec 0'), (2, LZMA_CONCATENATED, 'autodec 1'), (2, 0x05, 'autodec 0')]
    # 0x01 TELL_NO_CHECK, 0x02 TELL_UNSUPPORTED_CHECK, 0x04 TELL_ANY_CHECK: informational returns in the middle of the header; the verdict stays the same
    LZIP = [(4, 0, 'lzipdec 0'), (4, LZMA_CONCATENATED, 'lzipdec 1'), (2, 0, 'autodec 0'), (2, LZMA_CONCATENATED, 'autodec 1'), (4, 0x04, 'lzipdec 0'), (4, LZMA_CONCATENATED | 0x07, 'lzipdec 1'), (2, 0x05, 'autodec 0')]
    XZ = [(0, 0, 'xzdec 0'), (0, LZMA_CONCATENATED, 'xzdec 1'), (2, 0, 'autodec 0'), (2, LZMA_CONCATENATED, 'autodec 1'), (0, 0x07, 'xzdec 0'), (2, LZMA_CONCATENATED | 0x04, 'autodec 1')]
    # .lzma
    micro_lines, micro_meta = [], []
    for i in range(N):
        data = xzgen.gen_data(rng, rng.choice([0, 1, 50, rng.randrange(0, 1500)]))
        lc = rng.randrange(0, 5); lp = rng.randrange(0, 5 - lc); pb = rng.randrange(0, 5)
        ds = rng.choice([4096, 1 << 16, 1 << 20, 3 << 19, 4097, 5000, 0, 1, 0xFFFFFFFF if False else 1 << 12])
        raw = lzma.compress(data, format=lzma.FORMAT_ALONE, filters=[{'id': lzma.FILTER_LZMA1, 'dict_size': max(ds, 4096), 'lc': lc, 'lp': lp, 'pb': pb}])
        raw = raw[:1] + struct.pack('<I', ds) + raw[5:]
        cases.append((raw, 'lzma unknown-size+eopm', ALONE))
        known = raw[:5] + struct.pack('<Q', len(data)) + raw[13:]
        cases.append((known, 'lzma known-size+eopm', ALONE))
        if len(data) > 1:
            cases.append((raw[:5] + struct.pack('<Q', len(data) - 1) + raw[13:], 'lzma size-too-small', ALONE))
            cases.append((raw[:5] + struct.pack('<Q', len(data) + 1) + raw[13:], 'lzma size-too-big', ALONE))
        cases.append((known + bytes([rng.getrandbits(8)]), 'lzma + trailing byte', ALONE))
        # the end marker arrives before the declared size is reached, with plenty of input after it (fast decoding loop)
        if data: cases.append((raw[:5] + struct.pack('<Q', len(data) + rng.choice([1, 7, 1000])) + raw[13:] + rng.choice([bytes(40), bytes(rng.getrandbits(8) for _ in range(64)), raw]), 'lzma size-too-big + eopm + trailing data', ALONE))
        cases.append((known + bytes(rng.getrandbits(8) for _ in range(48)), 'lzma + 48 trailing bytes', ALONE))
        cases.append((bytes([rng.choice([225, 255, 0x4C, 0xFD, 9 * 5 * 5, 8 + 9 * 4])]) + raw[1:], 'lzma bad props', ALONE))
        cases.append((raw[:5] + struct.pack('<Q', rng.choice([1 << 38, (1 << 38) - 1, 1 << 62])) + raw[13:], 'lzma huge size (picky)', ALONE))
        m, how = xzgen.mutate(rng, known); cases.append((m, 'lzma mutant ' + how, ALONE))
        if data:
            micro_lines.append('enc 5 %d 0 0 - %s' % (rng.randrange(0, 4), data.hex())); micro_meta.append(data)
    mo, mf = run_lines(enc, micro_lines)
    for data, o in zip(micro_meta, mo):
        t = o.split()
        if t[0] != '1' or int(t[1]) != len(data): continue
        ml = bytes.fromhex(t[2])
        props = (~ml[0]) & 0xFF
        f = bytes([props]) + struct.pack('<I', 1 << 16) + struct.pack('<Q', len(data)) + b'\0' + ml[1:]
        cases.append((f, 'lzma known-size no-eopm', ALONE))
        cases.append((f[:5] + b'\xff' * 8 + f[13:], 'lzma unknown-size no-eopm (never ends)', ALONE))
        cases.append((f + b'\0\0', 'lzma no-eopm + trailing', ALONE))
    # .lz
    for i in range(N):
        nm = rng.choice([1, 1, 2, 3])
        datas = [xzgen.gen_data(rng, rng.randrange(0, 800)) for _ in range(nm)]
        f = b''.join(lz_member(rng, d, version=rng.choice([0, 1, 1])) for d in datas)
        cases.append((f, 'lz %d members' % nm, LZIP))
        tail = rng.choice([b'', b'L', b'LZ', b'LZI', b'LZIX', b'LZIP', b'\0\0\0', b'garbage', b'LZIP\x02', b'LZIP\x01\x0b'])
        cases.append((f + tail, 'lz + trailing %r' % tail, LZIP))
        cases.append((lz_member(rng, datas[0], dict_code=rng.choice([11, 30, 12 | 32, 31, 0])), 'lz bad dict code', LZIP))
        cases.append((lz_member(rng, datas[0], version=rng.choice([2, 255])), 'lz bad version', LZIP))
        m, how = xzgen.mutate(rng, f); cases.append((m, 'lz mutant ' + how, LZIP))
    # .xz concatenation rules
    for i in range(N // 2):
        a, ea, _ = xzgen.gen_valid_xz(rng, 300); b, eb, _ = xzgen.gen_valid_xz(rng, 300)
        a = a.rstrip(b'\0') if rng.random() < 0.5 else a
        pad = bytes(rng.choice([0, 1, 2, 3, 4, 5, 8, 9]))
        cases.append((a + pad + b, 'xz + pad%d + xz' % len(pad), XZ))
        cases.append((a + pad, 'xz + pad%d' % len(pad), XZ))
        cases.append((a + pad + b'\xfd7zXY\0' + b[6:], 'xz + pad + bad magic', XZ))
    for p in sorted(glob.glob(os.path.join(REPO, 'tests/files/*'))):
        bb = open(p, 'rb').read(); nm = os.path.basename(p)
        if nm.endswith('.lzma') and len(bb) < 100000: cases.append((bb, 'file ' + nm, ALONE))
        if nm.endswith('.lz') and len(bb) < 100000: cases.append((bb, 'file ' + nm, LZIP))
    # run
    by_cmd = {}
    # .lz dictionary size codes with a fraction: members written by the model encoder whose farthest match lies exactly at,
    # one beyond, and well beyond the size the code stands for (2^b - f * 2^(b-4)): valid, invalid, invalid
    edge_l, edge_m = [], []
    for b2 in ((12, 13) if ctx.quick() else (12, 13, 14, 15)):
        for fr in ((1, 7) if ctx.quick() else (1, 2, 3, 5, 7)):
            D = (1 << b2) - fr * (1 << (b2 - 4))
            lits = bytes(rng.getrandbits(8) for _ in range(D + 40))
            for dist in (D, D + 1, D + (fr << (b2 - 5)), D - 1):
                toks = ['L%d' % x for x in lits] + ['M%d,%d' % (dist - 1, 6), 'L33']
                edge_l.append('lzmaenc 3 0 2 ' + ' '.join(toks))
                hist = bytearray(lits)
                for _q in range(6): hist.append(hist[len(hist) - dist])
                hist.append(33)
                edge_m.append((b2 | (fr << 5), bytes(hist), dist, D))
    eo_, ef_ = run_lines(orc, edge_l)
    if ef_: raise BuildError('oracle failed %r' % (ef_[0],))
    for (dc, dat, dist, D), hx in zip(edge_m, eo_):
        stream = bytes.fromhex(hx)
        body = b'LZIP' + bytes([1, dc]) + stream + struct.pack('<I', zlib.crc32(dat)) + struct.pack('<Q', len(dat))
        body += struct.pack('<Q', len(body) + 8)
        cases.append((body, 'lz dict-code-edge code=%d dictionary=%d farthest-match=%d' % (dc, D, dist), LZIP[:2]))
    for ci, (blob, lab, runs) in enumerate(cases):
        for (k, fl, oc) in runs:
            by_cmd.setdefault((k, fl, oc), []).append(ci)
    viol = []; n_eval = 0; distinct = set(); verdicts = {}
    for (k, fl, oc), idxs in by_cmd.items():
        blobs = [cases[i][0] for i in idxs]
        spec = oracle_dec(orc, oc, blobs)
        impl, fails = impl_dec(drv, k, fl, 0, 0, blobs)
        impl3, fails3 = impl_dec(drv, k, fl, 3, lambda i: i * 13 + 5, blobs)
        impl1, fails1 = impl_dec(drv, k, fl, 1, 0, blobs)     # one input byte per call: a call ends exactly at every member / Stream / header boundary
        impl7, fails7 = impl_dec(drv, k, fl, 7, 0, blobs)     # everything offered with LZMA_RUN, LZMA_FINISH only when nothing is left
        # the same inputs on a decoder that decoded another file before and was re-initialised without lzma_end (nothing of the
        # earlier file - sizes, flags, positions - may survive): status, input position and content must be those of a fresh decoder
        import lzma as _lz
        pri_d = xzgen.gen_data(rng, 1003)
        pri_alone = _lz.compress(pri_d, format=_lz.FORMAT_ALONE, filters=[{'id': _lz.FILTER_LZMA1, 'dict_size': 4096}])
        pri_alone = pri_alone[:5] + len(pri_d).to_bytes(8, 'little') + pri_alone[13:]      # known size, end marker still present
        prior = {0: _lz.compress(pri_d, preset=0), 2: pri_alone, 3: pri_alone, 4: lz_member(rng, pri_d)}.get(k)
        implh, failsh = impl_dec(drv, k, fl, 16, lambda i: i * 5 + 3, blobs, prior=prior) if prior else ([None] * len(blobs), [])
        for i_, a_, h_ in zip(idxs, impl, implh):
            if a_ is None or h_ is None: continue
            n_eval += 1
            if (a_[0], a_[1], a_[4]) != (h_[0], h_[1], h_[4]):
                viol.append(dict(coder=k, flags=fl, label=cases[i_][1], why='a decoder re-initialised after decoding another file answers %d (%d bytes in, %d out) where a fresh decoder answers %d (%d in, %d out)' % (h_[0], h_[1], len(h_[4]), a_[0], a_[1], len(a_[4])), file=cases[i_][0].hex(), spec=[], impl=list(a_[:4]), sliced=list(h_[:4])))
        for f in fails + fails3 + fails1 + fails7 + failsh:
            ctx.violation('decoder crashed', {'line': (f[0] or '')[:20000], 'stderr': f[1], 'kind': 'sanitizer'})
        for i, s, a, a3, a1, a7 in zip(idxs, spec, impl, impl3, impl1, impl7):
            if a is None or a3 is None or a1 is None or a7 is None: continue
            n_eval += 4
            st, used, out = s
            verdicts[st] = verdicts.get(st, 0) + 1
            distinct.add((k, fl, cases[i][1].split(' ')[0] + cases[i][1].split(' ')[1][:12], st))
            why = None
            for tag, r in (('one-shot', a), ('sliced', a3), ('byte-wise', a1), ('all input with LZMA_RUN', a7)):
                ret, tin, tout, calls, o = r
                if st == 'fuel': continue
                if not same_verdict(st, ret): why = why or '%s: returned %d, format rules say %s' % (tag, ret, st)
                elif st == 'ok' and o != out: why = why or '%s: content differs from the defined content' % tag
                elif st == 'ok' and tin != used: why = why or '%s: input position after the end is %d, must be %d' % (tag, tin, used)
            if why:
                viol.append(dict(coder=k, flags=fl, label=cases[i][1], why=why, file=cases[i][0].hex(), spec=[st, used, len(out)], impl=list(a[:4]), sliced=list(a3[:4])))
    # ---- the tools that sit on these decoders (src/xz/coder.c, xzdec.c, lzmainfo.c): a .lzma file is accepted exactly when
    # the format rules accept it AND nothing follows it; lzmainfo prints the header fields; incl. streams whose length is
    # an exact multiple of xz's 8 KiB I/O buffer
    import subprocess, tempfile, shutil, re
    bdir = build('plain'); td = tempfile.mkdtemp(dir=WORK)
    try:
        tl = [(b, lab) for (b, lab, runs) in cases if lab.startswith('lzma') and len(b) < 40000][:(40 if ctx.quick() else 600)]
        def lzma_of_size(target):
            n = target - 30
            for _try in range(400):
                dat = bytes(rng.getrandbits(8) for _ in range(n))
                c = lzma.compress(dat, format=lzma.FORMAT_ALONE, filters=[{'id': lzma.FILTER_LZMA1, 'dict_size': 1 << 16}])
                if len(c) == target: return c
                n += target - len(c)
            return None
        for mult in (1, 2):
            c = lzma_of_size(8192 * mult)
            if c: tl += [(c, 'lzma exactly %d bytes' % len(c)), (c + b'X', 'lzma exactly %d bytes + 1 trailing byte' % len(c)), (c + bytes(8192), 'lzma exactly %d bytes + 8192 zero bytes' % len(c))]
        tspec = oracle_dec(orc, 'alonedec 0', [b for b, _l in tl])
        def plausible(b):
            # xz's own test before it treats a file as .lzma (coder.c is_format_lzma): dictionary size 2^n or 2^n + 2^(n-1),
            # uncompressed size unknown or below 256 GiB; files outside it are "format not recognized" for the tool by design
            if len(b) < 13 or b[0] > 224: return False
            dsz = int.from_bytes(b[1:5], 'little'); usz = int.from_bytes(b[5:13], 'little')
            ok_d = dsz != 0 and ((dsz & (dsz - 1)) == 0 or (dsz % 3 == 0 and ((dsz // 3) & (dsz // 3 - 1)) == 0 and dsz // 3 >= 1)) or dsz == 0xFFFFFFFF
            return ok_d and (usz == (1 << 64) - 1 or usz < (1 << 38))
        for (b, lab), (st, used, out) in zip(tl, tspec):
            if st == 'fuel' or not plausible(b): continue
            pth = os.path.join(td, 'f.lzma'); open(pth, 'wb').write(b)
            want_ok = (st == 'ok' and used == len(b))
            for name, cmd in (('xz -dc', [os.path.join(bdir, 'xz'), '-dc', pth]), ('xz -t --format=lzma', [os.path.join(bdir, 'xz'), '-t', '--format=lzma', pth]), ('lzmadec', [os.path.join(bdir, 'lzmadec'), pth])):
                r = subprocess.run(cmd, capture_output=True, stdin=subprocess.DEVNULL, timeout=60); n_eval += 1
                if (r.returncode == 0) != want_ok:
                    viol.append(dict(coder=name, flags=0, label=lab, why='%s exit %d, but the format rules say %s with %d of %d bytes belonging to the stream' % (name, r.returncode, st, used, len(b)), file=b.hex(), spec=[st, used, len(out)], impl=[r.returncode], sliced=[]))
                elif want_ok and name != 'xz -t --format=lzma' and r.stdout != out:
                    viol.append(dict(coder=name, flags=0, label=lab, why='%s output differs from the defined content' % name, file=b.hex(), spec=[st, used, len(out)], impl=[r.returncode], sliced=[]))
            if st == 'ok' and len(b) >= 13:
                r = subprocess.run([os.path.join(bdir, 'lzmainfo'), pth], capture_output=True, stdin=subprocess.DEVNULL, timeout=60); n_eval += 1
                txt = r.stdout.decode(errors='replace')
                pbv = b[0]; lc_ = pbv % 9; lp_ = (pbv // 9) % 5; pb_ = pbv // 45; dsz = int.from_bytes(b[1:5], 'little'); usz = int.from_bytes(b[5:13], 'little')
                m0 = re.search(r'\(([^)]*) bytes\)', txt.split('Dictionary size')[1]) if 'Dictionary size' in txt else None
                class _M:
                    def __init__(self, v): self.v = v
                    def group(self, k): return self.v
                m1 = None
                if m0:
                    try: m1 = _M(sum((1 << int(t.strip()[2:])) if t.strip().startswith('2^') else int(t.strip()) for t in m0.group(1).split('+')))
                    except Exception: m1 = None
                m2 = re.search(r'lc\):\s*(\d+)', txt); m3 = re.search(r'lp\):\s*(\d+)', txt); m4 = re.search(r'pb\):\s*(\d+)', txt)
                got = (int(m1.group(1)) if m1 else None, int(m2.group(1)) if m2 else None, int(m3.group(1)) if m3 else None, int(m4.group(1)) if m4 else None)
                # lzmainfo shows the dictionary size as 2^floor(log2(size)) (and rounded MB): that is its display format
                shown_ok = got[0] is not None and dsz > 0 and got[0] <= dsz < 2 * got[0]
                if r.returncode != 0 or not shown_ok or got[1:] != (lc_, lp_, pb_):
                    viol.append(dict(coder='lzmainfo', flags=0, label=lab, why='lzmainfo prints %s (exit %d), the header says dict %d lc %d lp %d pb %d' % (got, r.returncode, dsz, lc_, lp_, pb_), file=b[:64].hex(), spec=[st, used, len(out)], impl=[r.returncode], sliced=[]))
                if usz != (1 << 64) - 1 and ('%d bytes' % usz) not in txt.replace(',', '').replace('\u202f', ''):
                    viol.append(dict(coder='lzmainfo', flags=0, label=lab, why='lzmainfo does not print the uncompressed size %d of the header' % usz, file=b[:64].hex(), spec=[st, used, len(out)], impl=[r.returncode], sliced=[]))
    finally:
        shutil.rmtree(td, ignore_errors=True)
    ctx.cov['evaluations'] = n_eval
    ctx.cov['distinct_nontrivial'] = len(distinct)
    ctx.cov['rule'] = '.lzma: 4 size/end-marker flavours x all props x dict values x wrong sizes x trailing data x bad props x picky limits; .lz: v0/v1, dict codes, 1-3 members, trailing data incl. partial magic; .xz concatenation with padding 0-9; decoders alone/lzip/stream/auto with and without LZMA_CONCATENATED, one-shot and randomly sliced; distinct = (decoder, flags, case class, verdict)'
    ctx.cov['input_distribution'] = dict(cases=len(cases), verdicts=verdicts)
    ctx.cov['samples'] = [cases[0][1], cases[0][0].hex()[:100], cases[-1][1]]
    if viol:
        v = min(viol, key=lambda x: len(x['file']))
        ctx.violation('C16 %s [%s, decoder %s flags %s]' % (v['why'], v['label'], v['coder'], v['flags']), v)
    if not res['ok'] and not viol:
        ctx.violation('proof obligation of Properties_C16 no longer checks (%s)' % res['failing'],
                      {'theorem_file': 'coq/Properties_C16.v', 'failing': res['failing'], 'log_tail': res['log'][-3000:]}, found_input=False)

def replay(ctx, path):
    import json
    print(json.dumps(json.load(open(path)), indent=1)[:3000]); return 0
