"""C20: xzgrep/xzdiff act as grep/diff on decompressed data; names are data."""
import subprocess, tempfile, shutil, os, lzma, gzip, bz2
from common import *
import gen

TRUSTED = [
 'Coq 8.16.1 kernel; no native_compute', 'axioms: none',
 'translator tools/gen.py gen_scripts: the escape sed program and the status block are cut out of the current src/scripts/xzgrep.in; Properties_C20 proves them identical to the reviewed literals the model was transcribed from',
 'ShQuote.v: model of the quoting (net effect of the sed program inside command substitution) and of POSIX sh word parsing restricted to what eval sees; status accumulation for statuses below 128',
 'grep, diff, cmp, sed and the shell themselves are not modelled: equality with grep/diff output is decided by runs of the built scripts (built xz first in PATH) on hostile file names and patterns, with both label methods (grep --label and the sed fallback forced through a GREP wrapper), a canary file detecting any command execution',
]

HOSTILE = [b'plain.txt', b'-dash', b'sp ace', b'new\nline', b'trail\n', b"quo'te", b'dq"uote', b'semi;colon', b'amp&ersand', b'pi|pe', b'back\\slash', b'$(touch CANARY)', b'`touch CANARY`',
           b'star*', b'a&b|c\\d\ne', b"';touch CANARY;'", b'$HOME', b'x:y', b'\xff\xfe']

def run(ctx):
    rng = ctx.rng
    gen.gen_scripts()
    res = coq_check('Properties_C20')
    ctx.proof(res, TRUSTED)
    bdir = build('plain')
    td = tempfile.mkdtemp(dir=WORK)
    viol = []; n_eval = 0; distinct = set()
    env = dict(os.environ, PATH=bdir + ':' + os.environ['PATH'], LC_ALL='C')
    try:
        # GREP wrapper that rejects --label => forces the sed fallback
        wrap = os.path.join(td, 'grep-nolabel')
        open(wrap, 'w').write('#!/bin/sh\nfor a; do case $a in --label*) exit 2;; esac; done\nexec grep "$@"\n'); os.chmod(wrap, 0o755)
        d = os.path.join(td, 'w'); os.mkdir(d)
        contents = {}
        for i, nm in enumerate(HOSTILE):
            text = b'line one %d\nHello world\nneedle %d here\nlast\n' % (i, i) if i % 3 else b'nothing relevant\nat all\n'
            for suf, comp in ((b'.xz', lzma.compress), (b'', lambda x: x), (b'.gz', gzip.compress), (b'.lzma', lambda x: lzma.compress(x, format=lzma.FORMAT_ALONE)), (b'.bz2', bz2.compress)):
                if (i + len(suf)) % 2 == 0 or suf == b'.xz':
                    fn = nm + suf
                    try:
                        open(os.path.join(d.encode(), fn), 'wb').write(comp(text)); contents[fn] = text
                    except OSError: pass
        open(os.path.join(d, 'bad.xz'), 'wb').write(b'\xfd7zXZ\x00garbage')
        names = sorted(contents)
        def ref_grep(opts, pattern, files):
            """what grep prints on the decompressed contents labelled with the given names"""
            outs = []; status = 1
            for f in files:
                if f not in contents:
                    status = max(status, 2) if status != 0 or True else status; outs.append(None); continue
                r = subprocess.run(['grep'] + opts + ['-e', pattern, '--label=' + os.fsdecode(f), '-'], input=contents[f], capture_output=True, env=env)
                outs.append(r.stdout)
                if r.returncode >= 2: status = max(status, r.returncode)
                elif r.returncode == 0 and status == 1: status = 0
            return outs, status
        tests = []
        for _ in range(60 if ctx.quick() else 1500):
            k = rng.choice([1, 2, 2, 3, 4])
            files = [rng.choice(names) for _ in range(k)]
            if rng.random() < 0.25: files.insert(rng.randrange(len(files) + 1), rng.choice([b'missing-file', b'bad.xz']))
            pat = rng.choice([b'needle', b'Hello', b'nomatch', b'^last$', b"o'ne", b'$(touch CANARY)', b'l.*e'])
            opts = rng.choice([[], ['-H'], ['-h'], ['-n'], ['-i'], ['-c'], ['-l'], ['-L'], ['-q'], ['-H', '-n'], ['-A1'], ['-F'], ['-E']])
            tests.append((opts, pat, files))
        # multi-step status shapes: error first then match, match then error, decompressor error only
        g = [n for n in names if n.endswith(b'.xz') and b'needle' in contents[n]][0]
        tests += [([], b'needle', [b'bad.xz', g]), ([], b'needle', [g, b'bad.xz']), ([], b'needle', [b'missing-file', g]), ([], b'nomatch', [g, g]), ([], b'needle', [b'bad.xz'])]
        for opts, pat, files in tests:
            for grepvar in (None, wrap):
                if grepvar and any(o.startswith('-A') for o in opts): continue   # the sed fallback labels context lines with ':' by design
                e2 = dict(env); 
                if grepvar: e2['GREP'] = grepvar
                r = subprocess.run([os.path.join(bdir, 'xzgrep')] + opts + ['-e', pat, '--'] + files, cwd=d, capture_output=True, env=e2, stdin=subprocess.DEVNULL, timeout=60)
                n_eval += 1
                distinct.add((tuple(opts), pat, len(files), bool(grepvar), r.returncode))
                if os.path.exists(os.path.join(d, 'CANARY')):
                    viol.append(dict(why='a command embedded in a file name or pattern was executed (CANARY created): xzgrep %s -e %r -- %r' % (opts, pat, files))); os.remove(os.path.join(d, 'CANARY')); continue
                bad_file = any(f not in contents for f in files)
                # reference: grep on the decompressed data with the same labels
                multi = len(files) > 1
                ropts = list(opts)
                if multi and '-h' not in opts and '-H' not in ropts: ropts = ropts + ['-H']
                if '-l' in opts or '-L' in opts or '-q' in opts:
                    outs, st = ref_grep([o for o in opts if o not in ('-l', '-L')] + ['-q'] if ('-l' in opts or '-L' in opts) else opts, pat, files)
                    exp = b''
                    for f, o in zip(files, outs):
                        if f not in contents: continue
                        matched = subprocess.run(['grep', '-q'] + [o_ for o_ in opts if o_ not in ('-l', '-L', '-q')] + ['-e', pat], input=contents[f], env=env).returncode == 0
                        if ('-l' in opts and matched) or ('-L' in opts and not matched): exp += f + b'\n'
                    if '-q' in opts: exp = b''
                    if '-L' in opts: st = None
                else:
                    outs, st = ref_grep(ropts if (multi or '-H' in opts) else [o for o in ropts], pat, files)
                    if not multi and '-H' not in opts: outs, st = ref_grep([o for o in opts] + ['-h'], pat, files)
                    exp = b''.join(o for o in outs if o is not None)
                if bad_file:
                    if r.returncode < 2: viol.append(dict(why='missing/undecodable file but exit status %d: xzgrep %s -e %r -- %r (GREP wrapper: %s)' % (r.returncode, opts, pat, files, bool(grepvar))))
                else:
                    if st is not None and r.returncode != st: viol.append(dict(why='exit status %d, grep on the decompressed data gives %d: xzgrep %s -e %r -- %r' % (r.returncode, st, opts, pat, files)))
                if r.stdout != exp and not bad_file:   # with a missing/undecodable file only the status is specified
                    viol.append(dict(why='output differs from grep on the decompressed data with the given labels: xzgrep %s -e %r -- %r (sed fallback: %s)\n got %r\n exp %r' % (opts, pat, files, bool(grepvar), r.stdout[:300], exp[:300])))
        # every way of handing over a pattern (-e PAT, -ePAT, --regexp=PAT, --regexp PAT, first operand), one or two of them,
        # with hostile texts: a quote as the last / first / only character, quote + shell syntax, new lines; the text is data
        hp = [b"x'", b"'", b"a'b", b"'lead", b";touch CANARY;'", b"';touch CANARY;'", b"needle';touch CANARY;echo '", b"$(touch CANARY)", b"`touch CANARY`",
              b"lineX\n'second", b"o'ne\nX", b"needle", b"Hello'", b"-v", b"\\'", b"needle' --version '"]
        def forms(pt):
            return [[b'-e', pt], [b'-e' + pt], [b'--regexp=' + pt], [b'--regexp', pt], [b'-ie' + pt], [b'--regex=' + pt]]
        for it in range(80 if ctx.quick() else 2000):
            pts = [rng.choice(hp) for _k in range(rng.choice([1, 2, 2]))]
            if it < len(hp): pts = [hp[it]] + ([b";touch CANARY;'"] if it % 2 else [])
            args = []
            ci = False
            for pt in pts:
                f_ = rng.choice(forms(pt)); args += f_
                if f_[0].startswith(b'-ie'): ci = True
            positional = len(pts) == 1 and rng.random() < 0.2 and not pts[0].startswith(b'-')
            if positional: args = [pts[0]]; ci = False
            fl_ = [g] if rng.random() < 0.6 else [g, rng.choice(names)]
            for grepvar in (None, wrap):
                e2 = dict(env)
                if grepvar: e2['GREP'] = grepvar
                r = subprocess.run([os.path.join(bdir.encode(), b'xzgrep')] + args + [b'--'] + fl_, cwd=d, capture_output=True, env=e2, stdin=subprocess.DEVNULL, timeout=60)
                n_eval += 1; distinct.add(('patform', tuple(args), len(fl_), bool(grepvar), r.returncode))
                if os.path.exists(os.path.join(d, 'CANARY')):
                    viol.append(dict(why='text given as a pattern was executed as a command (CANARY created): xzgrep %r -- %r' % (args, fl_))); os.remove(os.path.join(d, 'CANARY')); continue
                ropts = ([b'-i'] if ci else []) + [x for pt in pts for x in (b'-e', pt)] + ([b'-H'] if len(fl_) > 1 else [])
                exp = b''; st = 1
                for f in fl_:
                    rr = subprocess.run([b'grep'] + ropts + [b'--label=' + f, b'-'], input=contents[f], capture_output=True, env=env)
                    exp += rr.stdout
                    if rr.returncode >= 2: st = max(st, rr.returncode)
                    elif rr.returncode == 0 and st == 1: st = 0
                if r.returncode != st or r.stdout != exp:
                    viol.append(dict(why='patterns %r handed over as %r: exit status %d / output %r, grep on the decompressed data gives %d / %r (sed fallback: %s)' % (pts, args, r.returncode, r.stdout[:200], st, exp[:200], bool(grepvar))))
        # xzless: less builds the preprocessor command from LESSOPEN, escaping the characters xzless lists in LESSMETACHARS;
        # the file shown must be exactly the named one and nothing in the name may run (with and without $SHELL, which changes
        # how less runs the command)
        import shutil as _sh
        if _sh.which('less'):
            ld = os.path.join(td, 'less'); os.mkdir(ld); lb = os.path.join(td, 'lessbin'); os.mkdir(lb)
            open(os.path.join(lb, 'pwn'), 'w').write('#!/bin/sh\n: > "%s/CANARY"\necho INJECTED\n' % ld); os.chmod(os.path.join(lb, 'pwn'), 0o755)
            lnames = [b'plain.xz', b'a\\b.xz', b'ab.xz', b'x\\;pwn', b'x\\\\;pwn', b'q;pwn', b'q&pwn&.xz', b'q$(pwn)`pwn`.xz', b'q\'"|pwn', b'sp ace\ttab.xz', b'star*?[x].xz', b'hash#%=~^.xz', b'(par)<lt>.xz', b'nl\nline.xz']
            for j, nm in enumerate(lnames):
                open(os.path.join(ld.encode(), nm), 'wb').write(lzma.compress(b'contents of file %d\n' % j))
            for shell in (None, '/bin/sh'):
                e3 = {k_: v_ for k_, v_ in env.items() if k_ not in ('LESSMETACHARS', 'LESSOPEN', 'LESSCLOSE', 'LESS', 'SHELL')}
                e3['PATH'] = bdir + ':' + lb + ':' + e3.get('PATH', '/usr/bin:/bin')
                if shell: e3['SHELL'] = shell
                for j, nm in enumerate(lnames):
                    try: r = subprocess.run([os.path.join(bdir.encode(), b'xzless'), b'--', nm], cwd=ld, capture_output=True, env=e3, stdin=subprocess.DEVNULL, timeout=30, start_new_session=True)
                    except subprocess.TimeoutExpired: viol.append(dict(why='xzless %r did not finish' % nm)); continue
                    n_eval += 1; distinct.add(('xzless', j, bool(shell), r.returncode))
                    if os.path.exists(os.path.join(ld, 'CANARY')):
                        viol.append(dict(why='xzless %r (SHELL %s): a command taken from the file name was executed' % (nm, shell))); os.remove(os.path.join(ld, 'CANARY'))
                    elif r.stdout != b'contents of file %d\n' % j:
                        viol.append(dict(why='xzless %r (SHELL %s) showed %r instead of the decompressed contents of that file' % (nm, shell, r.stdout[:100])))
        # xzdiff / xzcmp
        pairs = [(g, g, 0), (g, names[0], None), (g, b'missing-file', 2), (b'bad.xz', g, 2)]
        for a, b, want in pairs:
            for tool in ('xzdiff', 'xzcmp'):
                r = subprocess.run([os.path.join(bdir, 'xzdiff' if tool == 'xzdiff' else 'xzdiff'), '--', a, b] if tool == 'xzdiff' else [os.path.join(bdir, 'xzdiff'), '--', a, b], cwd=d, capture_output=True, env=env, stdin=subprocess.DEVNULL, timeout=60)
                n_eval += 1
                if want is None:
                    want2 = 0 if contents[a] == contents[b] else 1
                else: want2 = want
                if r.returncode != want2: viol.append(dict(why='%s %r %r: exit %d, expected %d' % (tool, a, b, r.returncode, want2)))
                if os.path.exists(os.path.join(d, 'CANARY')): viol.append(dict(why='xzdiff executed a command from a file name')); os.remove(os.path.join(d, 'CANARY'))
        # xzdiff / xzcmp over every ordered pair of operand formats (uncompressed first or second included), same and
        # different contents: status and text are those of diff / cmp on the decompressed data
        import gzip as _gz, bz2 as _bz
        from props.c16 import lz_member
        dd = os.path.join(td, 'pairs'); os.mkdir(dd)
        cmpl = os.path.join(dd, 'xzcmp'); os.symlink(os.path.join(bdir, 'xzdiff'), cmpl)
        texts = {'A': b'line one\nline two\nneedle here\n' * 3, 'B': b'line one\nline 2\nneedle here\n' * 3}
        fmts = {'plain': lambda t: t, 'x.xz': lambda t: lzma.compress(t), 'x.lzma': lambda t: lzma.compress(t, format=lzma.FORMAT_ALONE),
                'x.lz': lambda t: lz_member(rng, t), 'x-lz': lambda t: lz_member(rng, t), 'x.txz': lambda t: lzma.compress(t), 'x.tlz': lambda t: lzma.compress(t, format=lzma.FORMAT_ALONE),
                'x.gz': lambda t: _gz.compress(t), 'x.bz2': lambda t: _bz.compress(t)}
        for fk, mk in fmts.items():
            for tk, t in texts.items():
                open(os.path.join(dd, tk + '_' + fk), 'wb').write(mk(t))
                open(os.path.join(dd, 'ref' + tk), 'wb').write(t)
        fl = list(fmts)
        combos = [(a, b) for a in fl for b in fl]
        if ctx.quick(): combos = [c for c in combos if 'plain' in c or 'x.lz' in c or 'x-lz' in c] + rng.sample(combos, 12)
        for fa, fb in combos:
            for ta, tb in (('A', 'A'), ('A', 'B')):
                a = ta + '_' + fa; b = tb + '_' + fb
                want = 0 if ta == tb else 1
                refd = subprocess.run(['diff', 'ref' + ta, 'ref' + tb], cwd=dd, capture_output=True, env=env).stdout
                for tool in (os.path.join(bdir, 'xzdiff'), cmpl):
                    r = subprocess.run([tool, a, b], cwd=dd, capture_output=True, env=env, stdin=subprocess.DEVNULL, timeout=60); n_eval += 1
                    distinct.add(('diffpair', fa, fb, want, r.returncode))
                    if r.returncode != want: viol.append(dict(why='%s %s %s: exit %d, the decompressed contents are %s (expected %d)' % (os.path.basename(tool), a, b, r.returncode, 'equal' if want == 0 else 'different', want)))
                    elif tool != cmpl and r.stdout != refd: viol.append(dict(why='xzdiff %s %s: text differs from diff on the decompressed contents' % (a, b)))
    finally:
        shutil.rmtree(td, ignore_errors=True)
    ctx.cov['evaluations'] = n_eval
    ctx.cov['distinct_nontrivial'] = len(distinct)
    ctx.cov['rule'] = 'built xzgrep/xzdiff with the built xz first in PATH; hostile file names (newlines incl. trailing, quotes, ; & | \\ leading dash, $(...), backquotes, globs, non-UTF-8) in .xz/.lzma/.gz/.bz2/plain; patterns incl. quotes and command substitutions; options -H -h -n -i -c -l -L -q -A -E -F; 1-4 files incl. missing and undecodable ones in every order; both label methods; compared with grep on the decompressed contents with the same labels; canary file'
    ctx.cov['input_distribution'] = dict(tests=len(tests) * 2)
    ctx.cov['samples'] = [repr(tests[0]), repr(tests[-1])]
    if viol:
        ctx.violation('C20 ' + viol[0]['why'][:600], viol[0])
    if not res['ok'] and not viol:
        ctx.violation('proof obligation of Properties_C20 no longer checks (%s): the script text differs from the one the quoting/status model was transcribed from' % res['failing'],
                      {'theorem_file': 'coq/Properties_C20.v', 'failing': res['failing'], 'log_tail': res['log'][-3000:]}, found_input=False)

def replay(ctx, path):
    import json
    print(json.dumps(json.load(open(path)), indent=1)[:3000]); return 0
