"""C09: memory limits are honoured and memory estimates are upper bounds."""
import lzma, subprocess, tempfile, shutil
from common import *
from decode_common import *
import xzgen, gen
from props.c16 import lz_member

TRUSTED = [
 'Coq 8.16.1 kernel; no native_compute', 'axioms: none',
 'theorem: the decoder\'s real dictionary allocation (>= 4096, rounded to 16, + repeat area) exceeds the reported usage by less than LZMA_MEMUSAGE_BASE; constants regenerated from the source',
 'measured with a counting lzma_allocator on the real library (ASan build): peak live bytes, MEMLIMIT_ERROR protocol (error before the Block is allocated, lzma_memusage reports the need, after lzma_memlimit_set(need) decoding continues and the result equals the unlimited run), estimate functions vs measured peak for encoders, threaded decoder under memlimit_threading / memlimit_stop on multi-Block files with varying chains, xz --memlimit behaviour',
 'malloc overhead of libc and thread stacks are outside the accounting (as in the property: "plus a small fixed bookkeeping allowance")',
]
ALLOWANCE = 1 << 15   # LZMA_MEMUSAGE_BASE

def run(ctx):
    rng = ctx.rng
    gen.gen_consts()
    res = coq_check('Properties_C09')
    ctx.proof(res, TRUSTED)
    drv = compile_driver('san', 'drv_alloc.c', 'drv_alloc')
    data = (xzgen.gen_data(rng, 5000) * 4)[:18000]
    cases = []   # (scenario, arg, blob, label)
    for ds in (4096, 65536, 1 << 20, 3 << 20):
        cases.append((0, 0, lzma.compress(data, format=lzma.FORMAT_XZ, filters=[{'id': lzma.FILTER_LZMA2, 'dict_size': ds}]), 'xz dict %d' % ds))
        cases.append((2, 0, lzma.compress(data, format=lzma.FORMAT_ALONE, filters=[{'id': lzma.FILTER_LZMA1, 'dict_size': ds}]), 'lzma dict %d' % ds))
        cases.append((4, 0, lzma.compress(data, format=lzma.FORMAT_XZ, filters=[{'id': lzma.FILTER_DELTA, 'dist': 3}, {'id': lzma.FILTER_X86}, {'id': lzma.FILTER_LZMA2, 'dict_size': ds}]), 'auto xz delta+x86 dict %d' % ds))
    cases.append((3, 0, lz_member(rng, data[:3000], dict_code=20), 'lz dict 1MiB'))
    cases.append((3, 0, lz_member(rng, data[:2000], dict_code=12) + lz_member(rng, data[:3000], dict_code=20) + lz_member(rng, data[:1000], dict_code=22), 'lz three members with growing dictionaries'))
    # two Blocks with different needs: the second limit error comes mid-stream
    f2 = xzgen.stream([(data[:4000], [{'id': 'lzma2', 'dict_size': 4096}], {}), (data[4000:9000], [{'id': 'lzma2', 'dict_size': 1 << 20}], {}), (data[9000:], [{'id': 'delta', 'dist': 1}, {'id': 'lzma2', 'dict_size': 1 << 22}], {})], 4, rng)
    cases.append((0, 0, f2, 'xz three Blocks with growing dictionaries'))
    cases.append((5, 0, xzgen.index([(100 + i, 1000 + i) for i in range(3000)]), 'index decoder 3000 records'))
    cases.append((6, 0, f2, 'file_info'))
    # several Streams with long Indexes: the limit is on everything the file-info decoder holds, not on one Index at a time
    ms = b''.join(xzgen.gen_many_blocks(rng, nb, cid=1)[0] for nb in (1500, 2500, 700))
    cases.append((6, 0, ms, 'file_info three Streams with 1500+2500+700 Blocks'))
    ms2 = xzgen.gen_many_blocks(rng, 2000, cid=1)[0] + bytes(8) + xzgen.gen_many_blocks(rng, 2000, cid=4)[0]
    cases.append((6, 0, ms2, 'file_info two Streams with 2000 Blocks each and Stream Padding'))
    base, fails = run_lines(drv, ['mem %d 0 0 %d %s' % (sc, arg, b.hex()) for sc, arg, b, lab in cases])
    viol = []
    for x in fails: viol.append(dict(why='crash in the unlimited run', line=(x[0] or '')[:3000], stderr=x[1][-2000:]))
    # sampled run: input offered 7 bytes per call, lzma_memusage() compared with the bytes live in the allocator after every call
    cases_s = cases + [(5, 0, xzgen.index([(100 + i, 1000 + i) for i in range(rng.choice([9000, 30000]))]), 'index decoder, many records')]
    samp, sf = run_lines(drv, ['memc %d 0 0 %d %s' % (sc, arg, b.hex()) for sc, arg, b, lab in cases_s])
    for x in sf: viol.append(dict(why='crash in the sampled run', line=(x[0] or '')[:3000], stderr=x[1][-2000:]))
    for (sc, arg, b, lab), o in zip(cases_s, samp):
        if o is None: continue
        t = o.split()
        if t[1] != '1': viol.append(dict(why='sampled run of %s failed with %s' % (lab, t[1]), line='', stderr=''))
        elif int(t[13]) > ALLOWANCE: viol.append(dict(why='%s, input offered 7 bytes per call: at some call %s bytes more were allocated than lzma_memusage() reported' % (lab, t[13]), line='memc %d 0 0 %d %s' % (sc, arg, b.hex()[:3000]), stderr=''))
    lines, meta = [], []
    probe, _pf = run_lines(drv, ['mem %d 0 1 %d %s' % (sc, arg, b.hex()) for sc, arg, b, lab in cases])
    for (sc, arg, b, lab), o, pr in zip(cases, base, probe):
        if o is None or pr is None: continue
        # the need = what the decoder reports when it refuses the smallest possible limit
        t = o.split(); need = int(pr.split()[6]); peak = int(t[3])
        if t[1] != '1': viol.append(dict(why='unlimited run of %s failed with %s' % (lab, t[1]), line='', stderr='')); continue
        if len(t) > 13 and int(t[13]) > ALLOWANCE: viol.append(dict(why='%s: %s bytes more were allocated than lzma_memusage() reported at the same moment' % (lab, t[13]), line='', stderr=''))
        if peak > need + ALLOWANCE: viol.append(dict(why='%s: measured peak %d exceeds lzma_memusage() %d + allowance' % (lab, peak, need), line='', stderr=''))
        for lim in sorted({1, need // 2, need - 1, need, need + 1, max(1, need - 70000)}):
            if lim < 1: continue
            lines.append('mem %d 0 %d %d %s' % (sc, lim, arg, b.hex())); meta.append((lab, lim, need, t))
    outs, fails = run_lines(drv, lines)
    for x in fails: viol.append(dict(why='crash with a memory limit', line=(x[0] or '')[:3000], stderr=x[1][-2000:]))
    stat = {}
    for (lab, lim, need, bt), l, o in zip(meta, lines, outs):
        if o is None: continue
        t = o.split(); fr = int(t[1]); peak = int(t[3]); seen = int(t[6]); errs = int(t[7])
        stat[(lim >= need, errs > 0)] = stat.get((lim >= need, errs > 0), 0) + 1
        why = None
        if lim >= need and errs: why = 'limit %d >= need %d but MEMLIMIT_ERROR was returned' % (lim, need)
        elif lim < need and not errs and lab != 'file_info' and peak > lim + ALLOWANCE: why = 'limit %d below the need %d was not enforced: peak %d' % (lim, need, peak)
        elif errs and seen < need and 'three Blocks' not in lab and 'three members' not in lab and lab != 'file_info': why = 'lzma_memusage() after the error reported %d, the decoder needs %d' % (seen, need)
        elif fr != 1 or t[9] != bt[9] or t[8] != bt[8]: why = 'after raising the limit to the reported amount the result differs from the unlimited run (status %d)' % fr
        elif peak > max(lim, seen, need) + ALLOWANCE: why = 'peak %d exceeds limit/reported usage %d + allowance' % (peak, max(lim, seen))
        if why: viol.append(dict(why='%s, limit %d: %s' % (lab, lim, why), line=l[:3000], stderr=''))
    # ---- estimates are upper bounds of what encoders allocate
    elines, emeta = [], []
    for sc in (10, 11, 12, 13, 14, 15):
        for p in ([0, 1, 3, 6] if ctx.quick() else range(10)):
            if p >= 7 and sc == 11: continue
            elines.append('mem %d 0 0 %d %s' % (sc, p, data[:6000].hex())); emeta.append((sc, p))
    eouts, ef = run_lines(drv, elines)
    for x in ef: viol.append(dict(why='encoder crashed under the counting allocator', line=(x[0] or '')[:300], stderr=x[1][-2000:]))
    for (sc, p), l, o in zip(emeta, elines, eouts):
        if o is None: continue
        t = o.split(); peak = int(t[3]); est = int(t[10])
        if t[1] != '1': viol.append(dict(why='encoder scenario %d preset %d failed: %s' % (sc, p, t[1]), line=l[:4000000], stderr=''))
        elif est < peak: viol.append(dict(why='memory estimate %d of encoder scenario %d preset %d is below the measured peak %d' % (est, sc, p, peak), line=l[:4000000], stderr=''))
    # ---- threaded encoder re-initialised with another thread count while output of the earlier use is still queued:
    #      what is allocated during the second use must stay within the estimate for the second set of options
    rel = []
    for (t1, t2) in [(6, 1), (4, 2), (2, 4), (3, 3), (8, 2)]:
        for pr in ((0, 1) if ctx.quick() else (0, 1, 3, 6)):
            for bsz in (65536, 1 << 18):
                dd = bytes(rng.getrandbits(8) for _ in range(1 << 14)) * ((bsz * (t1 + 2)) >> 14)
                rel.append('reenc %d %d %d %d %s' % (t1, t2, pr, bsz, dd.hex()))
    ro, rf = run_lines(drv, rel, shards=8)
    for x in rf: viol.append(dict(why='re-initialised threaded encoder crashed under the counting allocator', line=(x[0] or '')[:300], stderr=x[1][-2000:]))
    for l, o in zip(rel, ro):
        if o is None: continue
        n_re = l.split()[1:5]; t = o.split()
        if t[0] != '0' or t[1] != '1': viol.append(dict(why='re-initialised threaded encoder (threads %s -> %s, preset %s, block size %s) failed: %s %s' % (*n_re, t[0], t[1]), line=l[:4000000], stderr=''))
        elif int(t[2]) < int(t[4]): viol.append(dict(why='threaded encoder re-initialised from %s to %s threads (preset %s, block size %s) while output was queued: %s bytes live right after the re-initialisation, peak %s during the second use, lzma_stream_encoder_mt_memusage() for its options says %s' % (*n_re, t[3], t[4], t[2]), line=l[:4000000], stderr=''))
        elif t[5] != '0' or t[6] != '0': viol.append(dict(why='re-initialised threaded encoder: %s bytes live after lzma_end, %s bad frees' % (t[5], t[6]), line=l[:300], stderr=''))
    # ---- encoders re-initialised with other options (smaller / larger dictionary, other preset) on the same handle: the
    #      memory-usage function for the NEW options must cover what stays allocated
    ol = []
    dd = (xzgen.gen_data(rng, 3000) * 40)[:100000]
    for kd in (0, 1, 2, 3):
        for (pa, da, pb, db) in [(6, 0, 1, 0), (1, 0, 6, 0), (0, 1 << 25, 0, 1 << 16), (0, 1 << 16, 0, 1 << 24), (3, 0, 4, 0), (4, 0, 3, 0), (2, 1 << 22, 5, 1 << 20)]:
            if kd == 1 and ctx.quick() and (pa, pb) in ((3, 4), (4, 3)): continue
            ol.append('reopt %d %d %d %d %d %s' % (kd, pa, da, pb, db, dd.hex()))
    oo, of_ = run_lines(drv, ol, shards=8)
    for x in of_: viol.append(dict(why='re-initialised encoder crashed under the counting allocator', line=(x[0] or '')[:300], stderr=x[1][-2000:]))
    for l, o in zip(ol, oo):
        if o is None: continue
        w = l.split()[1:6]; t = o.split()
        if t[0] != '0' or t[1] != '1': viol.append(dict(why='encoder kind %s re-initialised from preset %s/dict %s to preset %s/dict %s failed: %s %s' % (*w, t[0], t[1]), line=l[:300], stderr=''))
        elif int(t[2]) < int(t[4]) or int(t[2]) < int(t[3]): viol.append(dict(why='encoder kind %s re-initialised from preset %s/dict %s to preset %s/dict %s: %s bytes live right after the re-initialisation, peak %s during the second use, but the memory-usage function for the new options says %s' % (*w, t[3], t[4], t[2]), line=l[:300], stderr=''))
        elif t[5] != '0' or t[6] != '0': viol.append(dict(why='re-initialised encoder: %s bytes live after lzma_end, %s bad frees' % (t[5], t[6]), line=l[:300], stderr=''))
    # ---- small dictionaries: LZMA2 keeps a whole 64 KiB chunk of history whatever the dictionary size
    sd_l = ['reopt %d 0 %d 0 %d %s' % (kd, dsz, dsz, dd[:20000].hex()) for kd in (0, 2) for dsz in (4096, 8192, 16384, 32768, 61440, 65536)]
    sd_o, sd_f = run_lines(drv, sd_l, shards=4)
    small_dict_known = []
    for l, o in zip(sd_l, sd_o):
        if o is None: continue
        w = l.split()[1:6]; t = o.split(); dsz = int(w[2])
        if t[0] != '0' or t[1] != '1': viol.append(dict(why='encoder with a %d-byte dictionary failed: %s %s' % (dsz, t[0], t[1]), line=l[:300], stderr=''))
        elif int(t[2]) < int(t[4]):
            msg = dict(why='LZMA2 encoder (kind %s) with a %d-byte dictionary: %s bytes allocated, the memory-usage function says %s' % (w[0], dsz, t[4], t[2]), line=l[:300], stderr='')
            if dsz < 65536 and int(t[4]) - int(t[2]) <= 98304: small_dict_known.append(msg)
            else: viol.append(msg)
    for msg in small_dict_known[:1]: ctx.violation('C09 ' + msg['why'], msg, key='lzma2-small-dict-memusage')
    # ---- threaded decoder: memlimit_threading / memlimit_stop
    tl, tm = [], []
    # A = large dictionary, little data; B = tiny dictionary, large input/output buffers; C = in between.  Fixed orders (what the
    # next Block needs - filters or buffers - after what the earlier ones left allocated or cached) and shuffled ones
    mll, mlm = [], []
    fixed_orders = ['AAB', 'ABA', 'BAA', 'ACBA', 'BBA', 'AAABB', 'BAB', 'CACB']
    for it in range(len(fixed_orders) + (2 if ctx.quick() else 40)):
        blocks = []
        shape = fixed_orders[it] if it < len(fixed_orders) else 'AAABC'
        for ch in shape:
            ds = {'A': 1 << 22, 'B': 4096, 'C': 1 << 16}[ch]
            n = rng.choice([3000, 9000]) if ds > 4096 else rng.choice([200000, 400000])
            dd = (xzgen.gen_data(rng, 2000) * (n // 2000 + 1))[:n]
            blocks.append((dd, [{'id': 'lzma2', 'dict_size': ds, 'mode': lzma.MODE_FAST, 'mf': lzma.MF_HC3, 'nice_len': 16}], {'comp_present': True, 'uncomp_present': True}))
        if it >= len(fixed_orders): rng.shuffle(blocks)
        f = xzgen.stream(blocks, 1, rng)
        o1, _ = run_lines(drv, ['mem 0 0 1 0 ' + f.hex()], shards=1)
        single = int(o1[0].split()[6])   # the largest need reported while raising the limit step by step
        for lim in (single, single + 200000, single * 2, single * 3 + 400000):
            for th in (2, 4):
                tl.append('mem 1 0 %d %d %s' % (lim, th, f.hex())); tm.append(('threading', lim, single, o1[0].split()))
        for lim in (single - 1, single, single + 1):
            tl.append('mem 7 0 %d 3 %s' % (lim, f.hex())); tm.append(('stop', lim, single, o1[0].split()))
        # the hard limit lowered with lzma_memlimit_set() on a decoder that was created with generous limits
        for th in (2, 4):
            mll.append('mlset %d %d %s' % (th, single + 200000, f.hex())); mlm.append((single + 200000, single, o1[0].split()))
    touts, tf = run_lines(drv, tl)
    mlo, mlf = run_lines(drv, mll)
    for x in mlf: viol.append(dict(why='threaded decoder crashed after lzma_memlimit_set', line=(x[0] or '')[:300], stderr=x[1][-2000:]))
    for (hard, single, bt), l, o in zip(mlm, mll, mlo):
        if o is None: continue
        t = o.split()
        if t[0] != '0': viol.append(dict(why='lzma_memlimit_set(%d) on a fresh threaded decoder returned %s' % (hard, t[0]), line=l[:4000000], stderr=''))
        elif t[1] != '1' or t[4] != bt[9]: viol.append(dict(why='threaded decoder after lzma_memlimit_set(%d): status %s / output differs' % (hard, t[1]), line=l[:4000000], stderr=''))
        elif int(t[2]) > hard + ALLOWANCE + 70000: viol.append(dict(why='threaded decoder allocated %s bytes after the hard limit had been lowered to %d with lzma_memlimit_set() (a single thread needs %d)' % (t[2], hard, single), line=l[:4000000], stderr=''))
    # the same limits on the schedule-perturbed build: a 64 KiB-dictionary Block small enough to run beside a 4 MiB one,
    # so that a second worker can finish between the memory decision and the thread pick
    mdrv = compile_driver('mt', 'drv_alloc.c', 'drv_alloc')
    pl, pm = [], []
    for _ in range(2 if ctx.quick() else 12):
        def blk(ds, n):
            dd = (xzgen.gen_data(rng, 2000) * (n // 2000 + 1))[:n]
            return (dd, [{'id': 'lzma2', 'dict_size': ds, 'mode': lzma.MODE_FAST, 'mf': lzma.MF_HC3, 'nice_len': 16}], {'comp_present': True, 'uncomp_present': True})
        order = [blk(1 << 22, 9000), blk(4096, 300000), blk(1 << 22, 3000), blk(1 << 16, 3000), blk(1 << 22, 9000), blk(1 << 16, 9000), blk(1 << 22, 3000)]
        f = xzgen.stream(order, 1, rng)
        o1, _ = run_lines(drv, ['mem 0 0 1 0 ' + f.hex()], shards=1); single = int(o1[0].split()[6])
        for th in (2, 4):
            pl.append('mem 1 0 %d %d %s' % (single + 200000, th, f.hex())); pm.append((single + 200000, single, o1[0].split()))
    for ss in range(10 if ctx.quick() else 60):
        os.environ['VERIF_SCHED_SEED'] = str(rng.randrange(1, 1 << 30))
        po, pf = run_lines(mdrv, pl, shards=len(pl))
        for x in pf: viol.append(dict(why='threaded decoder crashed / hung under a memory limit (perturbed schedule)', line=(x[0] or '')[:4000000], stderr=x[1][-2000:]))
        for (lim, single, bt), l, o in zip(pm, pl, po):
            if o is None: continue
            t = o.split(); peak = int(t[3])
            if int(t[1]) != 1 or t[9] != bt[9]: viol.append(dict(why='threaded decoder with memlimit_threading %d (perturbed schedule): status %s / output differs' % (lim, t[1]), line=l, stderr=''))
            elif peak > lim + ALLOWANCE + 70000: viol.append(dict(why='threaded decoder allocated %d bytes, memlimit_threading is %d (a single thread needs %d); schedule seed %s' % (peak, lim, single, os.environ['VERIF_SCHED_SEED']), line=l, stderr=''))
    os.environ.pop('VERIF_SCHED_SEED', None)
    for x in tf: viol.append(dict(why='threaded decoder crashed under a memory limit', line=(x[0] or '')[:300], stderr=x[1][-2000:]))
    for (kind, lim, single, bt), l, o in zip(tm, tl, touts):
        if o is None: continue
        t = o.split(); peak = int(t[3]); fr = int(t[1]); errs = int(t[7])
        if kind == 'threading':
            if fr != 1 or t[9] != bt[9]: viol.append(dict(why='threaded decoder with memlimit_threading %d: status %d / output differs' % (lim, fr), line=l[:4000000], stderr=''))
            elif peak > lim + ALLOWANCE + 70000: viol.append(dict(why='threaded decoder allocated %d bytes, memlimit_threading is %d (a single thread needs %d)' % (peak, lim, single), line=l[:4000000], stderr=''))
        else:
            if lim < single and not errs: viol.append(dict(why='memlimit_stop %d below the single-thread need %d was not enforced' % (lim, single), line=l[:4000000], stderr=''))
            if lim >= single and errs: viol.append(dict(why='memlimit_stop %d >= need %d but MEMLIMIT_ERROR' % (lim, single), line=l[:4000000], stderr=''))
    # ---- threaded decoder handle reused: the first file is decoded in direct mode with a large dictionary (no sizes in the
    # Block Header), then the same handle is re-initialised for a file decoded by the workers.  What stays allocated
    # must be covered by lzma_memusage() at every call (sampled with 7-byte input pieces).
    rl, rm = [], []
    for _ in range(3 if ctx.quick() else 30):
        big = lzma.compress((xzgen.gen_data(rng, 3000) * 5)[:12000], format=lzma.FORMAT_XZ, filters=[{'id': lzma.FILTER_LZMA2, 'dict_size': rng.choice([1 << 22, 3 << 20, 1 << 23])}])
        blocks = [((xzgen.gen_data(rng, 2000) * 5)[:rng.choice([3000, 9000])], [{'id': 'lzma2', 'dict_size': rng.choice([4096, 65536])}], {'comp_present': True, 'uncomp_present': True}) for _k in range(rng.randrange(2, 6))]
        small = xzgen.stream(blocks, 1, rng)
        for th in (2, 4):
            for lim in (0, 400000, 3000000):
                rl.append('reuse 1 %d %d %s %s' % (th, lim, big.hex(), small.hex())); rm.append((th, lim, 'direct-mode file then threaded file'))
                rl.append('reuse 1 %d %d %s %s' % (th, lim, small.hex(), big.hex())); rm.append((th, lim, 'threaded file then direct-mode file'))
    routs, rf = run_lines(drv, rl)
    for x in rf: viol.append(dict(why='threaded decoder crashed when its handle was reused', line=(x[0] or '')[:300], stderr=x[1][-2000:]))
    for (th, lim, lab), l, o in zip(rm, rl, routs):
        if o is None: continue
        t = o.split(); excess = int(t[4])
        if t[0] != '1' or t[1] != '1': viol.append(dict(why='reused threaded decoder (%s): status %s/%s' % (lab, t[0], t[1]), line=l[:4000000], stderr=''))
        elif excess > ALLOWANCE: viol.append(dict(why='reused threaded decoder (%s, %d threads, memlimit_threading %d): %d bytes more were allocated than lzma_memusage() reported' % (lab, th, lim, excess), line=l[:4000000], stderr=''))
        elif int(t[7]) != 0: viol.append(dict(why='reused threaded decoder leaked %s bytes' % t[7], line=l[:4000000], stderr=''))
    # ---- xz tool: user-specified limit => stays within it or fails
    bdir = build('plain'); td = tempfile.mkdtemp(dir=WORK)
    try:
        src = os.path.join(td, 'in'); open(src, 'wb').write(data * 20)
        xzf = os.path.join(td, 'in9.xz'); subprocess.run([os.path.join(bdir, 'xz'), '-9', '-k', '-c', src], stdout=open(xzf, 'wb'))
        for args, expect_fail in ((['-d', '-c', '--memlimit-decompress=10MiB', xzf], True), (['-d', '-c', '--memlimit-decompress=80MiB', xzf], False),
                                  (['-9', '-c', '--memlimit-compress=20MiB', '--no-adjust', src], True), (['-9', '-c', '--memlimit-compress=20MiB', src], False)):
            r = subprocess.run([os.path.join(bdir, 'xz')] + args, capture_output=True)
            if expect_fail and r.returncode == 0: viol.append(dict(why='xz %s succeeded although the limit cannot be met' % ' '.join(args[:-1]), line='', stderr=r.stderr.decode()[:300]))
            if not expect_fail and r.returncode != 0: viol.append(dict(why='xz %s failed: %s' % (' '.join(args[:-1]), r.stderr.decode()[:200]), line='', stderr=''))
        # measured: with a compression limit the process really stays below it, whatever thread option was given (xz reduces
        # the number of threads, switches to the single-threaded encoder, then shrinks the dictionary)
        import base64
        big_in = os.path.join(td, 'big'); open(big_in, 'wb').write(base64.b64encode(bytes(rng.getrandbits(8) for _ in range(12000000))))
        lim_mib = 70
        for topt in (['-T1'], ['-T+1'], ['-T2'], ['-T4'], ['-T0']):
            rssf = os.path.join(td, 'rss')
            r = subprocess.run(['/usr/bin/time', '-f', '%M', '-o', rssf, os.path.join(bdir, 'xz')] + topt + ['--memlimit-compress=%dMiB' % lim_mib, '--lzma2=preset=0,dict=8MiB', '-c', big_in], stdout=subprocess.DEVNULL, stderr=subprocess.PIPE)
            try: rss_kib = int(open(rssf).read().split()[-1])
            except Exception: rss_kib = 0
            if r.returncode != 0: viol.append(dict(why='xz %s --memlimit-compress=%dMiB --lzma2=preset=0,dict=8MiB failed although the single-threaded encoder fits: %s' % (topt[0], lim_mib, r.stderr.decode()[:200]), line='', stderr=''))
            elif rss_kib > lim_mib * 1024: viol.append(dict(why='xz %s --memlimit-compress=%dMiB --lzma2=preset=0,dict=8MiB: peak resident memory %d KiB, the limit is %d KiB' % (topt[0], lim_mib, rss_kib, lim_mib * 1024), line='', stderr=''))
    finally:
        shutil.rmtree(td, ignore_errors=True)
    ctx.cov['evaluations'] = len(lines) + len(elines) + len(tl) + len(rl) + len(rel) + len(ol) + len(mll) + len(sd_l) + 4 + len(cases) + len(pl) * (10 if ctx.quick() else 60)
    ctx.cov['distinct_nontrivial'] = len(stat) + len(emeta) + len(set((m[0], m[1] >= m[2]) for m in tm))
    ctx.cov['rule'] = 'decoders (stream, alone, auto, lzip, index, file_info) x dictionary sizes x limits {1, need/2, need-70000, need-1, need, need+1}; encoder estimates vs measured peak for 6 entry points x presets; threaded decoder on multi-Block files with varying chains under memlimit_threading (1x..3x single-thread need) and memlimit_stop (need-1, need, need+1); xz with user limits; distinct = (limit >= need?, error seen?) etc.'
    ctx.cov['input_distribution'] = dict(limited_runs=len(lines), estimate_runs=len(elines), mt_runs=len(tl))
    ctx.cov['samples'] = [lines[0][:100], tl[0][:60]]
    if viol:
        v = min(viol, key=lambda x: len(x['line']))
        ctx.violation('C09 ' + v['why'], v)
    if not res['ok'] and not viol:
        ctx.violation('proof obligation of Properties_C09 no longer checks (%s)' % res['failing'],
                      {'theorem_file': 'coq/Properties_C09.v', 'failing': res['failing'], 'log_tail': res['log'][-3000:]}, found_input=False)

def replay(ctx, path):
    import json
    print(json.dumps(json.load(open(path)), indent=1)[:3000]); return 0
