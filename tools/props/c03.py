"""C03: decoders accept exactly the valid streams and decode them as specified."""
from common import *
from decode_common import *
import xzgen, glob

TRUSTED = [
 'Coq 8.16.1 kernel; no native_compute',
 'axioms: none',
 'specification decoders written from doc/xz-file-format.txt, doc/lzma-file-format.txt and the LZMA SDK reference: coq/Lzma.v, Lzma2.v, Xz.v (one-shot, unbounded N, history as a map); theorems in Properties_C03.v',
 'index-hash collision freedom is assumed (the C code compares SHA-256 of the size pairs, the spec compares the lists)',
 'correspondence: generated valid files (containers assembled by tools/xzgen.py from the format spec with payloads from released liblzma 5.4.1, including features the repo encoder never emits) and malformed variants; verdict and output of lzma_stream_decoder / lzma_stream_buffer_decode / raw LZMA2 vs the extracted spec',
 'extraction ExtrOcamlBasic (+ FMapPositive from the standard library) and oracle/driver.ml',
]

def lambda_mode(bw, m):
    return lambda i: m if bw[i] else 3

def run(ctx):
    rng = ctx.rng
    import gen
    gen.gen_consts(); gen.gen_bcj()
    res = coq_check('Properties_C03')
    ctx.proof(res, TRUSTED)
    orc = oracle()
    drv = compile_driver('san', 'drv_dec.c', 'drv_dec')
    NV = 120 if ctx.quick() else 2500
    valid = [xzgen.gen_valid_xz(rng, 1500 if ctx.quick() else 20000) for _ in range(NV)]
    valid += [xzgen.gen_wrap_reset_xz(rng) for _ in range(6 if ctx.quick() else 60)]
    # instruction-dense data behind each branch/call/jump filter (convertible instructions up to the very end of the data)
    import lzma as _lz
    from props.c15 import gen_code
    BCJF = {'x86': _lz.FILTER_X86, 'arm': _lz.FILTER_ARM, 'armthumb': _lz.FILTER_ARMTHUMB, 'powerpc': _lz.FILTER_POWERPC, 'sparc': _lz.FILTER_SPARC, 'ia64': _lz.FILTER_IA64}
    for arch, fid in BCJF.items():
        for _k in range(2 if ctx.quick() else 30):
            cd = gen_code(rng, arch, rng.choice([37, 300, 3001, rng.randrange(16, 5000)]))
            valid.append((_lz.compress(cd, format=_lz.FORMAT_XZ, check=rng.choice([_lz.CHECK_CRC32, _lz.CHECK_CRC64, _lz.CHECK_NONE]), filters=[{'id': fid}, {'id': _lz.FILTER_LZMA2, 'dict_size': 4096}]), cd, '%s-code' % arch))
    for nb in ([127, 128, 131] if ctx.quick() else [127, 128, 129, 300, 2000, 4000]):   # Number of Records needs 1, 2, 3 bytes
        mb, mexp, _il = xzgen.gen_many_blocks(rng, nb); valid.append((mb, mexp, 'many-blocks:%d' % nb))
    blobs, meta = [], []
    for f, e, d in valid:
        blobs.append(f); meta.append(('valid', d, e))
        for _ in range(2 if ctx.quick() else 4):
            m, how = xzgen.mutate(rng, f)
            blobs.append(m); meta.append(('mutant:' + how, d, None))
        m, how = xzgen.mutate_chunk(rng, f)
        blobs.append(m); meta.append(('mutant:' + how, d, None))
    for p in sorted(glob.glob(os.path.join(REPO, 'tests/files/*.xz'))):
        blobs.append(open(p, 'rb').read()); meta.append(('testfile:' + os.path.basename(p), '', None))
    spec = oracle_dec(orc, 'xzdec 1', blobs)
    impl, fails = impl_dec(drv, 0, LZMA_CONCATENATED, 0, 0, blobs)
    impl3, fails3 = impl_dec(drv, 0, LZMA_CONCATENATED, 3, lambda i: i * 7 + 1, blobs)
    # byte-wise modes cost one call per byte: all small files, every tenth large one (large ones get random slicing twice instead)
    bw = [len(b) <= 4000 or (j % 10 == 0 and len(b) <= 60000) for j, b in enumerate(blobs)]
    impl1, fails1 = impl_dec(drv, 0, LZMA_CONCATENATED, lambda_mode(bw, 1), lambda i: i * 11 + 3, blobs)   # one input byte per call: a call boundary inside every field
    impl2, fails2 = impl_dec(drv, 0, LZMA_CONCATENATED, lambda_mode(bw, 2), lambda i: i * 13 + 5, blobs)   # one output byte per call
    mism = []
    kinds = {}
    for f in fails + fails3 + fails1 + fails2:
        ctx.violation('decoder crashed / sanitizer report on input', {'line': (f[0] or '')[:100000], 'stderr': f[1], 'rc': f[2], 'kind': 'sanitizer'})
    n_eval = 0
    distinct = set()
    for b, (kind, d, e), s, i, i3, i1, i2 in zip(blobs, meta, spec, impl, impl3, impl1, impl2):
        if i is None or i3 is None or i1 is None or i2 is None: continue
        n_eval += 4
        st, used, out = s
        kinds[st] = kinds.get(st, 0) + 1
        distinct.add((kind.split('@')[0], st, len(b) // 64))
        why = None
        # rejected input behind a BCJ filter: the bytes written by the failing call are unspecified
        has_bcj = any(a in d for a in xzgen.BCJ_ID) or kind.startswith('testfile')
        if kind == 'valid' and (st != 'ok' or out != e):
            why = 'SPEC rejects or mis-decodes a file the generator built as valid (spec %s)' % st
        elif st == 'fuel':
            why = 'spec out of fuel'
        for tag, r in (('one-shot', i), ('sliced', i3), ('byte-wise', i1), ('one output byte per call', i2)):
            ret, tin, tout, calls, o = r
            if not same_verdict(st, ret):
                why = why or '%s: lzma_stream_decoder returned %d, the specification says %s' % (tag, ret, st)
            elif st == 'ok' and (o != out or tin != used):
                why = why or '%s: output/consumed differ from the specification (out %d vs %d bytes, in %d vs %d)' % (tag, len(o), len(out), tin, used)
            elif st != 'ok' and not has_bcj and not (out.startswith(o) or o.startswith(out)):
                why = why or '%s: output delivered before the error is not a prefix of the specified decoding' % tag
        if why:
            mism.append(dict(kind=kind, desc=d, why=why, file=b.hex(), spec=[st, used, len(out)], impl=list(i[:4]), impl_sliced=list(i3[:4])))
    # ---- .lzma streams produced by the MODEL encoder from arbitrary symbol sequences (valid, and invalid from some symbol
    # on: distances / reps reaching outside the history, also as the very first symbol); library vs specification,
    # one-shot, byte-wise and randomly sliced
    glines, gm = [], []
    for _ in range(120 if ctx.quick() else 3000):
        lc = rng.randrange(5); lp = rng.randrange(5 - lc); pb = rng.randrange(5)
        toks = xzgen.gen_symbols(rng, rng.choice([1, 2, 3, 8, 30, rng.randrange(1, 120)]), p_bad=rng.choice([0, 0.5, 1.0]))
        glines.append('lzmaenc %d %d %d %s' % (lc, lp, pb, ' '.join(toks))); gm.append((lc, lp, pb, toks))
    gouts, gf = run_lines(orc, glines)
    if gf: raise BuildError('oracle failed %r' % (gf[0],))
    ablobs, ameta = [], []
    for (lc, lp, pb, toks), hx in zip(gm, gouts):
        raw = bytes.fromhex(hx)
        ablobs.append(xzgen.alone_wrap(raw, lc, lp, pb, rng.choice([4096, 65536]))); ameta.append(' '.join(toks)[:300])
        if rng.random() < 0.2:
            r2 = bytearray(raw); r2[0] = rng.randrange(1, 256)
            ablobs.append(xzgen.alone_wrap(bytes(r2), lc, lp, pb)); ameta.append('rc-first-byte-nonzero ' + ' '.join(toks)[:200])
    aspec = oracle_dec(orc, 'alonedec 0', ablobs)
    for mode_, sd in ((0, 0), (1, 0), (3, 11), (3, 12)):
        aimpl, af = impl_dec(drv, 3, 0, mode_, (lambda i: i * 5 + sd) if mode_ == 3 else 0, ablobs)
        for f in af: ctx.violation('alone decoder crashed / sanitizer report on a model-generated stream', {'line': (f[0] or '')[:100000], 'stderr': f[1], 'rc': f[2], 'kind': 'sanitizer'})
        for b, lab, sp, im in zip(ablobs, ameta, aspec, aimpl):
            if im is None: continue
            n_eval += 1
            st, used, out = sp; ret, tin, tout, calls, o = im
            kinds['lzma:' + st] = kinds.get('lzma:' + st, 0) + 1
            why = None
            if not same_verdict(st, ret): why = 'lzma_alone_decoder (mode %d) returned %d, the specification says %s' % (mode_, ret, st)
            elif st == 'ok' and (o != out or tin != used): why = 'lzma_alone_decoder (mode %d): output/consumed differ from the specification (out %d vs %d, in %d vs %d)' % (mode_, len(o), len(out), tin, used)
            elif st != 'ok' and not (out.startswith(o) or o.startswith(out)): why = 'lzma_alone_decoder (mode %d): output before the error is not a prefix of the specified decoding' % mode_
            if why: mism.append(dict(kind='model-generated .lzma', desc=lab, why=why, file=b.hex(), spec=[st, used, len(out)], impl=list(im[:4]), impl_sliced=[]))
    # ---- raw LZMA2 streams framed by the MODEL encoder from arbitrary chunk sequences: every reset level where it is and is
    # not allowed, stored chunks, properties bytes valid and not, symbols valid and not; library (raw decoder) vs specification
    l2g, l2m = [], []
    for _ in range(80 if ctx.quick() else 2500):
        toks = []
        for ci in range(rng.randrange(1, 5)):
            if rng.random() < 0.3:
                toks.append('U%d:%s' % (rng.choice([1, 1, 0]) if ci == 0 else rng.choice([0, 0, 1]), bytes(rng.getrandbits(8) for _ in range(rng.randrange(1, 40))).hex()))
            else:
                m = rng.choice([3, 3, 2, 1, 0]) if ci == 0 else rng.choice([0, 0, 1, 2, 3])
                pbv = rng.choice([93, 0, 44, 224, 225, 255, (rng.randrange(5) * 5 + rng.randrange(5)) * 9 + rng.randrange(9)])
                syms = xzgen.gen_symbols(rng, rng.choice([1, 3, 10, 30]), p_bad=rng.choice([0, 0, 1.0]))
                toks.append('K%d:%d:%s' % (m, pbv, '/'.join(syms)))
        l2g.append('lzma2enc ' + ' '.join(toks)); l2m.append(' '.join(toks)[:300])
    l2o, l2f = run_lines(orc, l2g)
    if l2f: raise BuildError('oracle failed %r' % (l2f[0],))
    l2blobs = [bytes.fromhex(h) for h in l2o]
    l2blobs += [b[:rng.randrange(len(b))] for b in l2blobs[:len(l2blobs) // 4]]; l2m += ['truncated'] * (len(l2blobs) - len(l2m))
    l2spec = oracle_dec(orc, 'lzma2dec 4096', l2blobs)
    for mode_, sd in ((0, 0), (1, 0), (3, 21)):
        l2impl, lf = impl_dec(drv, 5, 4096, mode_, (lambda i: i * 3 + sd) if mode_ == 3 else 0, l2blobs)
        for f in lf: ctx.violation('raw LZMA2 decoder crashed / sanitizer report on a model-generated stream', {'line': (f[0] or '')[:100000], 'stderr': f[1], 'rc': f[2], 'kind': 'sanitizer'})
        for b, lab, sp, im in zip(l2blobs, l2m, l2spec, l2impl):
            if im is None: continue
            n_eval += 1
            st, used, out = sp; ret, tin, tout, calls, o = im
            kinds['lzma2:' + st] = kinds.get('lzma2:' + st, 0) + 1
            why = None
            if not same_verdict(st, ret): why = 'raw LZMA2 decoder (mode %d) returned %d, the specification says %s' % (mode_, ret, st)
            elif st == 'ok' and (o != out or tin != used): why = 'raw LZMA2 decoder (mode %d): output/consumed differ from the specification (out %d vs %d, in %d vs %d)' % (mode_, len(o), len(out), tin, used)
            elif st != 'ok' and not (out.startswith(o) or o.startswith(out)): why = 'raw LZMA2 decoder (mode %d): output before the error is not a prefix of the specified decoding' % mode_
            if why: mism.append(dict(kind='model-generated LZMA2', desc=lab, why=why, file=b.hex(), spec=[st, used, len(out)], impl=list(im[:4]), impl_sliced=[]))
    ctx.cov['evaluations'] = n_eval
    ctx.cov['distinct_nontrivial'] = len(distinct)
    ctx.cov['rule'] = ('valid files: 1-3 Streams with padding, 0-3 Blocks, 1-4 filters (delta, 7 BCJ, LZMA2 with all lc/lp/pb), sizes present/absent, header padding, all 16 check ids, '
                       'payloads incl. mid-stream dictionary reset / property change / uncompressed chunks; mutants: bit flips, truncation, insert/delete, +-1, padding, garbage; tests/files/*.xz; '
                       'each decoded one-shot and with random slicing; distinct = (kind, spec verdict, size bucket)')
    ctx.cov['input_distribution'] = dict(files=len(blobs), spec_verdicts=kinds)
    ctx.cov['samples'] = [meta[0][1], meta[1][0], blobs[0].hex()[:160]]
    ctx.cov['correspondence_mismatches'] = len(mism)
    ctx.assumptions += ['LZMA1 resumable decoder (23 suspension points) is tied by slicing runs, not proved', 'SHA-256 collision freedom for the Index hash']
    if mism:
        m = min(mism, key=lambda x: len(x['file']))
        ctx.violation('C03 ' + m['why'] + ' [' + m['kind'] + ']', m)
    if not res['ok'] and not mism:
        ctx.violation('proof obligation of Properties_C03 no longer checks (%s)' % res['failing'],
                      {'theorem_file': 'coq/Properties_C03.v', 'failing': res['failing'], 'log_tail': res['log'][-3000:]}, found_input=False)

def replay(ctx, path):
    import json
    print(json.dumps(json.load(open(path)), indent=1)[:3000]); return 0
