"""C04: no input can make a decoder or parser misbehave."""
import struct, glob, lzma
from common import *
from decode_common import *
import xzgen, gen
from props.c16 import lz_member

TRUSTED = [
 'Coq 8.16.1 kernel; no native_compute', 'axioms: none',
 'theorems: dictionary index arithmetic in bounds (LzDict.v, constants regenerated from lz_decoder.h), stalled caller told on the second call, TIMED_OUT never surfaces (lzma_code model tied by the exhaustive table of C11)',
 'NOT provable in this setting: memory safety, undefined behaviour, uninitialised reads, leaks, deadlocks of the C text. Explored: ASan+UBSan build with assertions enabled (-UNDEBUG) over every decoding/parsing entry point on valid, mutated, truncated and random inputs x slicings x memory limits, LeakSanitizer at exit, alarm()-based watchdog, idle-call counter',
]
DOCUMENTED = {0, 1, 2, 3, 4, 5, 6, 7, 8, 9, 10, 11, 12}

def run(ctx):
    rng = ctx.rng
    gen.gen_consts()
    res = coq_check('Properties_C04')
    ctx.proof(res, TRUSTED)
    drv = compile_driver('san', 'drv_dec.c', 'drv_dec')
    pdrv = compile_driver('san', 'drv_parse.c', 'drv_parse')
    fdrv = compile_driver('san', 'drv_fileinfo.c', 'drv_fileinfo')
    N = 60 if ctx.quick() else 1500
    blobs = []   # (blob, fmt)
    for _ in range(N):
        f, e, d = xzgen.gen_valid_xz(rng, 600 if ctx.quick() else 8000)
        blobs.append((f, 'xz'))
        for _k in range(3):
            m, how = xzgen.mutate(rng, f); blobs.append((m, 'xz'))
    # files whose dictionary wraps around several times (small dictionaries, data several times their size, matches at
    # every distance incl. the ones that reach across the wrap point and exactly to its edges), plus mutants of them
    import lzma as _lzw
    for _ in range(10 if ctx.quick() else 200):
        f, e, d = xzgen.gen_wrap_reset_xz(rng); blobs.append((f, 'xz')); blobs.append((xzgen.mutate(rng, f)[0], 'xz'))
    for dsz in (4096, 8192):
        for _k in range(3 if ctx.quick() else 40):
            per = rng.choice([1, 2, 7, 255, 256, 289, 1000, dsz - 300, dsz - 1, dsz])
            base_ = bytes(rng.getrandbits(8) for _ in range(per))
            dd_ = bytearray()
            while len(dd_) < 3 * dsz + 500:
                dd_ += base_ if rng.random() < 0.8 else bytes(rng.getrandbits(8) for _ in range(rng.randrange(1, 40)))
            dd_ = bytes(dd_)
            blobs.append((_lzw.compress(dd_, format=_lzw.FORMAT_XZ, filters=[{'id': _lzw.FILTER_LZMA2, 'dict_size': dsz, 'mf': rng.choice([_lzw.MF_HC4, _lzw.MF_BT4]), 'nice_len': rng.choice([8, 64, 273])}]), 'xz'))
            blobs.append((_lzw.compress(dd_, format=_lzw.FORMAT_ALONE, filters=[{'id': _lzw.FILTER_LZMA1, 'dict_size': dsz}]), 'lzma'))
    for _ in range(N // 3):
        data = xzgen.gen_data(rng, rng.randrange(0, 500))
        raw = lzma.compress(data, format=lzma.FORMAT_ALONE, filters=[{'id': lzma.FILTER_LZMA1, 'dict_size': 4096, 'lc': rng.randrange(4), 'lp': 0, 'pb': rng.randrange(5)}])
        blobs.append((raw, 'lzma')); blobs.append((xzgen.mutate(rng, raw)[0], 'lzma'))
        lz = lz_member(rng, data, version=rng.choice([0, 1])); blobs.append((lz, 'lz')); blobs.append((xzgen.mutate(rng, lz)[0], 'lz'))
        blobs.append((bytes(rng.getrandbits(8) for _ in range(rng.randrange(0, 200))), 'rand'))
    for p in sorted(glob.glob(os.path.join(REPO, 'tests/files/*'))):
        b = open(p, 'rb').read()
        if len(b) < 60000: blobs.append((b, 'file'))
    lines = []
    for b, fmt in blobs:
        hx = b.hex() or '-'
        kinds = {'xz': [0, 1, 2, 6], 'lzma': [3, 2], 'lz': [4, 2], 'rand': [0, 2, 3, 4, 5], 'file': [0, 1, 2, 3, 4]}[fmt]
        for k in kinds:
            fl = rng.choice([0, LZMA_CONCATENATED, LZMA_CONCATENATED | 0x01 | 0x02, 0x10 | LZMA_CONCATENATED, 0x20])  # TELL_*, IGNORE_CHECK, FAIL_FAST
            if k == 6: fl &= ~0x04
            if k == 5: fl = 4096
            ml = rng.choice([0, 0, 1, 1 << 15, 1 << 20])
            lines.append('dec %d %d %d %d %d %s' % (k, fl, rng.choice([0, 3, 3, 1, 2]) if len(b) < 3000 else rng.choice([0, 3]), rng.randrange(1 << 16), ml, hx))
    # threaded decoder: input ends in the middle of a later Block, slow and fast output consumers
    for _ in range(4 if ctx.quick() else 60):
        f, e, bounds = xzgen.gen_mt_xz(rng, rng.choice([3, 4]))
        cuts = []
        for (a, b) in bounds[1:]:
            cuts += [a + 1, a + 13, (a + b) // 2, b - 5, b - 1, b]
        for c in cuts:
            for mode in (0, 2, 3):
                for sd in (1 + 4 * rng.randrange(1000), 2 + 4 * rng.randrange(1000), 3, 7):   # threads 2..4, timeout 0 / 3 ms
                    lines.append('dec 1 %d %d %d 0 %s' % (rng.choice([0, LZMA_CONCATENATED]), mode, sd, f[:c].hex()))
    outs, fails = run_lines(drv, lines)
    viol = []
    for f in fails:
        viol.append(dict(why='decoder crashed / sanitizer report / assertion / watchdog (rc %s)' % f[2], line=(f[0] or '')[:200000], stderr=f[1][-2500:]))
    rets = {}
    for l, o in zip(lines, outs):
        if o is None: continue
        r = int(o.split()[0]); rets[r] = rets.get(r, 0) + 1
        if r == 98: viol.append(dict(why='caller offering nothing was never told: LZMA_OK with no progress on 3000 consecutive calls', line=l[:200000], stderr=''))
        elif r == 99: viol.append(dict(why='unbounded loop (80M calls)', line=l[:200000], stderr=''))
        elif r not in DOCUMENTED: viol.append(dict(why='undocumented/internal return code %d' % r, line=l[:200000], stderr=''))
    # parsers
    plines = []
    hdrs = []
    for b, fmt in blobs:
        if fmt == 'xz' and len(b) > 40:
            plines.append('P 1 0 ' + b[:12].hex()); plines.append('P 2 0 ' + b[-12:].hex())
            if b[12] != 0:
                hs = (b[12] + 1) * 4
                plines.append('P 0 %d %s' % (b[7] & 15, b[12:12 + hs].hex())); plines.append('P 6 %d %s' % (b[7] & 15, b[12:].hex()))
                plines.append('P 3 0 ' + b[14:12 + hs].hex())
            # index field
            plines.append('P 5 %d %s' % (rng.choice([0, 1, 100000]), b[-12 - ((int.from_bytes(b[-8:-4], 'little') + 1) * 4) % (len(b) + 1):-12].hex() or '-'))
    for _ in range(200 if ctx.quick() else 5000):
        plines.append('P %d %d %s' % (rng.choice([0, 1, 2, 3, 5, 7, 9]), rng.choice([0, 1, 3, 4, 0x21, 0x4000000000000001, 10]), bytes(rng.getrandbits(8) for _ in range(rng.randrange(0, 64))).hex() or '-'))
    words = ['lzma2', 'lzma1', 'delta', 'x86', 'arm64', 'riscv', 'dict=', 'lc=', 'lp=', 'pb=', 'mode=', 'mf=', 'nice=', 'depth=', 'dist=', 'start=', 'preset=', '4KiB', '1GiB', '4294967295', '-1', '0', '9e', 'bt4', 'hc3', 'fast', 'normal', ':', ',', ' ', '--', '=', 'KiB', 'MiB', 'GiB', '99999999999999999999', '6', '0e', '3', '+']
    for _ in range(300 if ctx.quick() else 8000):
        s = ''.join(rng.choice(words) for _ in range(rng.randrange(1, 10)))
        plines.append('P 4 %d %s' % (rng.choice([0, 1, 0x10, 0x11]), s.encode().hex()))
        plines.append('P 8 %d %s' % (rng.choice([0, 3, 0x21, 99]), bytes([rng.choice([0, 0x10, 0x20, 0x30, 0x40, 0x41])]).hex()))
    # Blocks decoded directly (lzma_block_header_decode + lzma_block_buffer_decode) for every Check ID, supported or not:
    # a valid Block is accepted whatever the ID (an unsupported Check is skipped, not compared)
    okblock = []
    for cid in range(16):
        for _k in range(1 if ctx.quick() else 6):
            sb = xzgen.stream([(xzgen.gen_data(rng, rng.randrange(1, 300)), [{'id': 'lzma2', 'dict_size': 4096}], {})], cid, rng)
            okblock.append(len(plines)); plines.append('P 6 %d %s' % (cid, sb[12:].hex()))
            g = bytearray(sb[12:]); g[(g[0] + 1) * 4 + rng.randrange(1, 6)] ^= 0x04      # damage in the compressed data
            plines.append('P 6 %d %s' % (cid, bytes(g).hex()))
    pouts, pfails = run_lines(pdrv, plines)
    # the same parser calls on the non-ASan build under two heap fill patterns: no verdict may depend on uninitialised memory
    phdrv = compile_driver('hook', 'drv_parse.c', 'drv_parse')
    pu = []
    for fill in ('85', '170'):
        os.environ['MALLOC_PERTURB_'] = fill
        o_, f_ = run_lines(phdrv, plines); pu.append(o_)
    os.environ.pop('MALLOC_PERTURB_', None)
    for l, a, b in zip(plines, pu[0], pu[1]):
        if a is not None and b is not None and a != b:
            viol.append(dict(why='the result of a parser / Block decoder call depends on what happened to be in freshly allocated memory (%s vs %s)' % (a, b), line=l[:20000], stderr=''))
    for i in okblock:
        if pouts[i] is not None and pouts[i].strip() != '0':
            viol.append(dict(why='a valid Block with Check ID %s decoded directly with lzma_block_buffer_decode returned %s' % (plines[i].split()[2], pouts[i]), line=plines[i][:20000], stderr=''))
    for f in pfails:
        viol.append(dict(why='parser crashed / sanitizer report / watchdog (rc %s)' % f[2], line=(f[0] or '')[:20000], stderr=f[1][-2500:]))
    for l, o in zip(plines, pouts):
        if o is None: continue
        r = int(o)
        if r == 77: viol.append(dict(why='lzma_str_from_filters output does not parse back', line=l, stderr=''))
        elif r in (101, 102): viol.append(dict(why='internal return code leaked from a parser', line=l, stderr=''))
    # file_info on mutated files
    flines = ['F %d %d %s' % (rng.choice([0, 1, 7, 8192]), rng.randrange(99999), b.hex() or '-') for b, fmt in blobs if fmt in ('xz', 'file') and len(b) < 5000][:(150 if ctx.quick() else 4000)]
    fouts, ffails = run_lines(fdrv, flines)
    for f in ffails:
        viol.append(dict(why='file_info decoder crashed / sanitizer report (rc %s)' % f[2], line=(f[0] or '')[:20000], stderr=f[1][-2500:]))
    for l, o in zip(flines, fouts):
        if o is None: continue
        t = o.split()
        if t[1] != '1': viol.append(dict(why='file_info requested a seek beyond the file size', line=l[:20000], stderr=''))
        if int(t[0]) in (99, 101, 102): viol.append(dict(why='file_info: loop or internal code %s' % t[0], line=l[:20000], stderr=''))
    # ---- nothing that was never written may reach the output: model-generated LZMA streams (valid, and invalid from some
    # symbol on - matches / reps that reach outside the history, also at the very start) and damaged .xz files are decoded
    # twice with different heap fill patterns (glibc MALLOC_PERTURB_); status and every output byte must agree
    orc = oracle()
    hdrv = compile_driver('hook', 'drv_dec.c', 'drv_dec')
    glines = []
    for _ in range(80 if ctx.quick() else 2500):
        lc = rng.randrange(5); lp = rng.randrange(5 - lc); pb = rng.randrange(5)
        toks = xzgen.gen_symbols(rng, rng.choice([1, 2, 3, 8, 30]), p_bad=rng.choice([0.5, 1.0]))
        glines.append(('lzmaenc %d %d %d %s' % (lc, lp, pb, ' '.join(toks)), lc, lp, pb))
    gouts, gf = run_lines(orc, [g[0] for g in glines])
    if gf: raise BuildError('oracle failed %r' % (gf[0],))
    ulines = []
    for (cmd, lc, lp, pb), hx in zip(glines, gouts):
        b = xzgen.alone_wrap(bytes.fromhex(hx), lc, lp, pb)
        for mode in (0, 1, 3): ulines.append('dec 3 0 %d %d 0 %s' % (mode, rng.randrange(1 << 16), b.hex()))
    for ln in lines[:(60 if ctx.quick() else 1500)]:
        t = ln.split()
        if t[0] == 'dec' and t[1] in ('0', '2', '3', '4'): ulines.append(ln)
    uo = []
    for fill in ('85', '170'):
        os.environ['MALLOC_PERTURB_'] = fill
        o_, f_ = run_lines(hdrv, ulines)
        uo.append(o_)
        for x in f_: viol.append(dict(why='decoder crashed (rc %s) with heap fill %s' % (x[2], fill), line=(x[0] or '')[:20000], stderr=x[1][-1500:]))
    os.environ.pop('MALLOC_PERTURB_', None)
    for l, a, b in zip(ulines, uo[0], uo[1]):
        if a is None or b is None: continue
        ta, tb = a.split(), b.split()
        if (ta[0], ta[1], ta[2], ta[4]) != (tb[0], tb[1], tb[2], tb[4]):
            viol.append(dict(why='the decoder\'s result depends on what happened to be in freshly allocated memory (status %s/%s, %s/%s bytes out): uninitialised memory reaches the output or a decision' % (ta[0], tb[0], ta[2], tb[2]), line=l[:20000], stderr=''))
    ctx.cov['evaluations'] = len(lines) + len(plines) + len(flines) + 2 * len(ulines)
    ctx.cov['distinct_nontrivial'] = len(set((l.split()[1], l.split()[3], o.split()[0] if o else None) for l, o in zip(lines, outs))) + len(set((l.split()[1], o) for l, o in zip(plines, pouts)))
    ctx.cov['rule'] = 'ASan+UBSan+assertions build: stream, stream_mt, auto, alone, lzip, raw, stream_buffer decoders on valid/mutated/truncated/random inputs and tests/files x flags (CONCATENATED, TELL_*, IGNORE_CHECK, FAIL_FAST) x 5 slicings x memory limits {none,1,32Ki,1Mi}; Block Header, Stream Header/Footer, filter flags, properties, Index, VLI, filter-string parsers (to_filters/from_filters round trip, list), file_info; distinct = (entry point, mode, return code)'
    ctx.cov['input_distribution'] = dict(decoder_runs=len(lines), parser_runs=len(plines), fileinfo_runs=len(flines), return_codes=rets)
    ctx.cov['samples'] = [lines[0][:150], plines[-2][:150]]
    if viol:
        v = min(viol, key=lambda x: len(x['line']))
        ctx.violation('C04 ' + v['why'], v)
    if not res['ok'] and not viol:
        ctx.violation('proof obligation of Properties_C04 no longer checks (%s)' % res['failing'],
                      {'theorem_file': 'coq/Properties_C04.v', 'failing': res['failing'], 'log_tail': res['log'][-3000:]}, found_input=False)

def replay(ctx, path):
    import json
    print(json.dumps(json.load(open(path)), indent=1)[:3000]); return 0
