"""C10: allocation failure at any point is reported cleanly and nothing leaks."""
import lzma
from common import *
from decode_common import *
import xzgen
from props.c16 import lz_member

TRUSTED = [
 'Coq 8.16.1 kernel; no native_compute', 'axioms: none',
 'theorem: on an abstract heap with an arbitrary failure oracle, a failed initialisation of any init program leaves the heap unchanged and end frees everything (Resource.v)',
 'fault enumeration on the real library (ASan build): counting allocator that fails the k-th allocation for EVERY k of each scenario (all public initialisers, coding loops, threaded coders, index decoder, file_info), then re-initialises the SAME handle without lzma_end and finally ends it: return codes, live bytes after lzma_end, unknown/double frees, result of the re-initialised run',
 'operations on live objects (drv_allocops.c): every k-th allocation failing inside lzma_filters_update of running single- and multi-threaded encoders (after full flush / barrier / sync flush / at the start / after an earlier update), after which encoding continues and the output must decode to the input; inside lzma_index_append/cat/dup/decode/encode with the index compared before and after; inside lzma_str_to_filters, lzma_filters_copy, lzma_str_from_filters, lzma_block_header_decode, lzma_filter_flags_decode with the caller-owned arrays compared with a sentinel',
]
MEM_ERROR = 5

def run(ctx):
    rng = ctx.rng
    res = coq_check('Properties_C10')
    ctx.proof(res, TRUSTED)
    drv = compile_driver('san', 'drv_alloc.c', 'drv_alloc')
    data = (xzgen.gen_data(rng, 3000) * 3)[:7000]
    xz1 = lzma.compress(data, preset=0)
    f, e, d = xzgen.gen_valid_xz(rng, 800)
    fmt, _, _ = xzgen.gen_mt_xz(rng, 3)
    alone = lzma.compress(data[:2000], format=lzma.FORMAT_ALONE, filters=[{'id': lzma.FILTER_LZMA1, 'dict_size': 4096}])
    lz = lz_member(rng, data[:1000])
    idx = xzgen.index([(100 + i, 1000 + i) for i in range(600)])
    scen = [(0, 0, xz1), (0, 0, f), (1, 2, fmt), (1, 3, xz1), (7, 2, fmt), (2, 0, alone), (3, 0, lz), (4, 0, xz1), (4, 0, alone), (5, 0, idx), (6, 0, f), (6, 0, fmt),
            (10, 0, data), (10, 1, data), (11, 0, data), (12, 0, data[:500]), (13, 0, data), (14, 0, data), (15, 0, data[:300])]
    if not ctx.quick():
        for _ in range(30):
            f2, _, _ = xzgen.gen_valid_xz(rng, 2000); scen.append((0, 0, f2)); scen.append((6, 0, f2)); scen.append((1, 2, f2))
    base_lines = ['mem %d 0 0 %d %s' % (sc, arg, b.hex() or '-') for sc, arg, b in scen]
    base, fails = run_lines(drv, base_lines)
    viol = []
    for x in fails: viol.append(dict(why='crash / sanitizer report in the clean run', line=(x[0] or '')[:3000], stderr=x[1][-2000:]))
    lines, meta = [], []
    for (sc, arg, b), o in zip(scen, base):
        if o is None: continue
        t = o.split(); n = int(t[2])
        if int(t[4]) != 0 or int(t[5]) != 0: viol.append(dict(why='clean run: %s bytes live after lzma_end, %s bad frees' % (t[4], t[5]), line='mem %d 0 0 %d' % (sc, arg), stderr=''))
        for k in range(1, n + 1):
            lines.append('mem %d %d 0 %d %s' % (sc, k, arg, b.hex() or '-')); meta.append((sc, arg, k, n, t))
    outs, fails = run_lines(drv, lines)
    for x in fails: viol.append(dict(why='crash / sanitizer report / hang with an injected allocation failure', line=(x[0] or '')[:3000], stderr=x[1][-2500:]))
    stats = {}
    for (sc, arg, k, n, bt), l, o in zip(meta, lines, outs):
        if o is None: continue
        t = o.split()
        ir, fr, live, bad, rr, crc2 = int(t[0]), int(t[1]), int(t[4]), int(t[5]), int(t[11]), t[12]
        stats[(sc, fr)] = stats.get((sc, fr), 0) + 1
        why = None
        if live != 0: why = '%d bytes still allocated after lzma_end' % live
        elif bad != 0: why = '%d frees of unknown/already freed pointers' % bad
        elif fr != MEM_ERROR and not (fr == int(bt[1]) and t[9] == bt[9]):
            # an allocation the library can do without (e.g. thread-local optimisation) may be survivable; then the result must be the clean one
            why = 'allocation %d of %d failed but the call returned %d (clean run: %s)' % (k, n, fr, bt[1])
        elif rr not in (1, 0) or (sc < 10 and sc not in (5, 6) and crc2 != bt[9]):
            why = 're-initialising the same handle after the failure gave status %d / different output' % rr
        if why: viol.append(dict(why='scenario %d (arg %d), allocation %d of %d failing: %s' % (sc, arg, k, n, why), line=l[:3000], stderr=''))
    # ---- handle reuse: A (clean) ; re-init B with the k-th allocation failing ; re-init A again
    small = {'id': lzma.FILTER_LZMA1, 'dict_size': 4096}; big = {'id': lzma.FILTER_LZMA1, 'dict_size': 1 << 20}
    dd = data[:3000]
    pairs = [(2, lzma.compress(dd, format=lzma.FORMAT_ALONE, filters=[small]), lzma.compress(dd, format=lzma.FORMAT_ALONE, filters=[big])),
             (4, lzma.compress(dd, format=lzma.FORMAT_ALONE, filters=[small]), lzma.compress(dd, format=lzma.FORMAT_ALONE, filters=[big])),
             (0, lzma.compress(dd, format=lzma.FORMAT_XZ, filters=[{'id': lzma.FILTER_LZMA2, 'dict_size': 4096}]), lzma.compress(dd, format=lzma.FORMAT_XZ, filters=[{'id': lzma.FILTER_DELTA, 'dist': 2}, {'id': lzma.FILTER_LZMA2, 'dict_size': 1 << 20}])),
             (4, lzma.compress(dd, format=lzma.FORMAT_XZ, filters=[{'id': lzma.FILTER_LZMA2, 'dict_size': 4096}]), lzma.compress(dd, format=lzma.FORMAT_ALONE, filters=[big])),
             (1, fmt, lzma.compress(dd, format=lzma.FORMAT_XZ, filters=[{'id': lzma.FILTER_X86}, {'id': lzma.FILTER_LZMA2, 'dict_size': 1 << 20}])),
             (3, lz, lz_member(rng, data[:500], dict_code=20))]
    pairs += [(sc, b, a) for sc, a, b in pairs]
    sb, sfail = run_lines(drv, ['seq %d 0 %s %s' % (sc, a.hex(), b.hex()) for sc, a, b in pairs], shards=4)
    slines, smeta = [], []
    for (sc, a, b), o in zip(pairs, sb):
        if o is None: viol.append(dict(why='handle-reuse scenario crashed without any injected failure', line='seq %d' % sc, stderr='')); continue
        t = o.split()
        for k in range(1, int(t[3]) + 1):
            slines.append('seq %d %d %s %s' % (sc, k, a.hex(), b.hex())); smeta.append((sc, k, t))
    so, sf = run_lines(drv, slines)
    for x in sf: viol.append(dict(why='handle reuse after an allocation failure: crash / sanitizer report (one handle: decode A, re-init for B with a failing allocation, re-init for A)', line=(x[0] or '')[:3000], stderr=x[1][-2500:]))
    for (sc, k, bt), l, o in zip(smeta, slines, so):
        if o is None: continue
        t = o.split()
        if t[4] != '0' or t[5] != '0': viol.append(dict(why='handle reuse: %s bytes live after lzma_end, %s bad frees' % (t[4], t[5]), line=l[:3000], stderr=''))
        elif t[2] != bt[2] or t[8] != bt[8]: viol.append(dict(why='handle reuse: third run (same input as the first) gave status %s / crc %s, the clean sequence gives %s / %s' % (t[2], t[8], bt[2], bt[8]), line=l[:3000], stderr=''))
    # ---- failures inside operations on live objects: filter-chain updates of running encoders, index manipulation,
    #      filter-chain helpers; afterwards the objects are used further (drv_allocops.c)
    ops = compile_driver('san', 'drv_allocops.c', 'drv_allocops')
    udata = (xzgen.gen_data(rng, 1500) * 3)[:4000] + bytes(rng.getrandbits(8) for _ in range(200))
    obase = ['upd %d 0 %d %s' % (v, sd, udata.hex()) for v in range(5) for sd in (0, 1)]
    obase += ['idx %d %d 0' % (op, m) for op in range(7) for m in (0, 3, 4, 5, 10, 511, 512, 513, 1024, 1100)]
    fstrs = ['6', '9e', 'lzma2:dict=1MiB', 'x86 delta:dist=4 lzma2:preset=3', 'arm64:start=4096 lzma2:lc=1,lp=2', 'delta:dist=256 riscv powerpc:start=16 lzma2:nice=273,mf=bt2', 'lzma1:pb=0']
    obase += ['flt %d 0 %s' % (op, st) for op in range(5) for st in fstrs if not (op in (3, 4) and 'lzma1' in st)]
    obase += ['buf %d 0 %d %s' % (w, bad, udata[:3000].hex()) for w in range(7) for bad in (0, 1) if not (bad and w >= 3)]      # refused options: lc+lp > 4 matters to encoders only
    ob, of = run_lines(ops, obase, shards=4)
    for x in of: viol.append(dict(why='operation driver crashed without any injected failure', line=(x[0] or '')[:3000], stderr=x[1][-2000:]))
    olines, ometa = [], []
    for l, o in zip(obase, ob):
        if o is None: continue
        t = o.split()
        if not t[0].lstrip('-').isdigit(): viol.append(dict(why='operation driver: setup failed: ' + o, line=l[:3000], stderr='')); continue
        clean_ok = (t[0] == '0' and t[2] == '1' and t[3] == '1' and t[4] == '0' and t[5] == '0') if l.startswith('upd') else (t[0] == '0' and t[2] == '1' and t[3] == '0' and t[4] == '0')
        if l.startswith('buf') and l.split()[3] == '1': clean_ok = (t[0] not in ('0', '1') and t[2] == '1' and t[3] == '0' and t[4] == '0')     # refused options: an error, positions untouched
        if not clean_ok: viol.append(dict(why='operation without injected failure did not behave: ' + o, line=l[:3000], stderr='')); continue
        w = l.split(' ')
        for k in range(1, int(t[1]) + 1):
            if w[0] == 'idx': olines.append('idx %s %s %d' % (w[1], w[2], k))
            elif w[0] == 'buf' and w[3] == '1': continue
            else: olines.append(' '.join([w[0], w[1], str(k)] + w[3:]))
            ometa.append(w[0])
    oo, of = run_lines(ops, olines, shards=8)
    for x in of: viol.append(dict(why='allocation failure inside an operation on a live object: crash / sanitizer report when the object is used afterwards', line=(x[0] or '')[:3000], stderr=x[1][-2500:]))
    for kind, l, o in zip(ometa, olines, oo):
        if o is None: continue
        t = o.split(); why = None
        if kind == 'upd':
            if t[0] not in ('0', '5'): why = 'lzma_filters_update returned %s' % t[0]
            elif t[2] != '1' or t[3] != '1': why = 'after lzma_filters_update returned %s the encoder finished with %s and its output %s' % (t[0], t[2], 'decodes to the input' if t[3] == '1' else 'does not decode to the input')
            elif t[4] != '0' or t[5] != '0': why = '%s bytes live after lzma_end, %s bad frees' % (t[4], t[5])
        else:
            if t[0] not in ('0', '5') and not (kind == 'buf' and t[0] == '10'): why = 'operation returned %s' % t[0]
            elif t[2] != '1': why = 'operation returned %s and the caller\'s objects are not what they must be afterwards' % t[0]
            elif t[3] != '0' or t[4] != '0': why = '%s bytes live after everything was freed, %s bad frees' % (t[3], t[4])
        stats[(kind, int(t[0]))] = stats.get((kind, int(t[0])), 0) + 1
        if why: viol.append(dict(why='allocation failure inside an operation: ' + why, line=l[:3000], stderr=''))
    lines = lines + slines + olines
    ctx.cov['evaluations'] = len(lines) + len(base_lines)
    ctx.cov['distinct_nontrivial'] = len(stats)
    ctx.cov['exhaustive'] = True
    ctx.cov['rule'] = 'for each scenario (stream/stream_mt/alone/lzip/auto/index/file_info decoders, easy/mt/alone/raw/stream/microlzma encoders) the clean run counts N allocations, then EVERY k in 1..N fails; afterwards the same handle is re-initialised without lzma_end, run to completion and ended; distinct = (scenario, resulting status)'
    ctx.cov['input_distribution'] = dict(scenarios=len(scen), injected_runs=len(lines), statuses={'%s:%d' % k: v for k, v in stats.items()})
    ctx.cov['samples'] = [lines[0][:80] if lines else '', base_lines[2][:80]]
    if viol:
        v = min(viol, key=lambda x: len(x['line']))
        ctx.violation('C10 ' + v['why'], v)
    if not res['ok'] and not viol:
        ctx.violation('proof obligation of Properties_C10 no longer checks (%s)' % res['failing'],
                      {'theorem_file': 'coq/Properties_C10.v', 'failing': res['failing'], 'log_tail': res['log'][-3000:]}, found_input=False)

def replay(ctx, path):
    import json
    print(json.dumps(json.load(open(path)), indent=1)[:3000]); return 0
