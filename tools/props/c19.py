"""C19: xz naming, overwrite protection and metadata handling are safe and invertible."""
import subprocess, tempfile, shutil, stat, os
from common import *
from decode_common import run_lines

TRUSTED = [
 'Coq 8.16.1 kernel; vm_compute for the 4096-mode sweep; no native_compute', 'axioms: none',
 'XzNames.v: hand transcription of suffix.c (non-DOS build), the mode computation of io_copy_attrs and set_exit_status; tied to the xz binary (plain build) by runs in scratch directories: target names for compression/decompression over generated names, formats and custom suffixes, skipping rules, --force/--keep/--stdout, symlinks, hard links, setuid/setgid/sticky sources, resulting st_mode as root and as uid 65534 with a foreign group, timestamps, exit status of mixed warning/error runs',
 'kernel/file-system behaviour (O_EXCL, O_NOFOLLOW, fchown rules) is assumed, not modelled',
]

def gen_name(rng):
    k = rng.random()
    base = bytes(rng.choice(b'abcXYZ019._- ~#%+,=@[]{}') for _ in range(rng.randrange(1, 12)))
    if k < 0.2: base += rng.choice([b'.xz', b'.txz', b'.lzma', b'.tlz', b'.lz', b'.tar', b'.XZ', b'xz', b'.x', b'z'])
    elif k < 0.3: base = rng.choice([b'.xz', b'.lzma', b'.txz', b'.tlz', b'.lz', b'-', b'--help', b'-k', b'.', b'..a'])
    elif k < 0.4: base = bytes(rng.choice([0x80, 0xff, 0xc3, 0xa9, 0x0a, 0x09, 0x27, 0x22, 0x5c, 0x24, 0x60]) for _ in range(rng.randrange(1, 6))) + base
    elif k < 0.45: base = base * 15
    if base in (b'.', b'..', b'-'): base = b'x' + base   # '-' means standard input
    return base

def run(ctx):
    rng = ctx.rng
    res = coq_check('Properties_C19')
    ctx.proof(res, TRUSTED)
    orc = oracle()
    bdir = build('plain'); xz = os.path.join(bdir, 'xz')
    td = tempfile.mkdtemp(dir=WORK); os.chmod(td, 0o777)
    viol = []; n_eval = 0; distinct = set()
    try:
        # ---------- naming
        cases = []
        for i in range(150 if ctx.quick() else 3000):
            name = gen_name(rng)
            fmt = rng.choice(['xz', 'xz', 'lzma'])
            custom = rng.choice([None, None, b'.foo', b'xz', b'z', b'.x', b'.xz', b'-s', b'.tlz', b'lz', b'.l'])
            cases.append((name, fmt, custom))
        olines = []
        # every other case is given to xz through a path (sub/NAME): suffix tests look at the character before the suffix
        def arg_of(i, name): return (b'sub/' + name) if i % 2 else name
        for i, (name, fmt, custom) in enumerate(cases):
            olines.append('names c %s %s %s' % (fmt, custom.hex() if custom else '-', arg_of(i, name).hex()))
        oc, _ = run_lines(orc, olines)
        for i, ((name, fmt, custom), m) in enumerate(zip(cases, oc)):
            top = os.path.join(td, 'n%d' % i); os.mkdir(top); d = top
            if i % 2: d = os.path.join(top, 'sub'); os.mkdir(d)
            src = os.path.join(d.encode(), name)
            try:
                open(src, 'wb').write(b'data %d' % i)
            except OSError:
                continue
            args = [xz, '-F', fmt] + (['-S', custom] if custom else []) + ['--', arg_of(i, name)]
            r = subprocess.run(args, cwd=top, capture_output=True, stdin=subprocess.DEVNULL)
            after = set(os.listdir(d.encode()))
            n_eval += 1
            want = None if m == 'none' else bytes.fromhex(m)
            if want is not None and i % 2:
                if not want.startswith(b'sub/'): viol.append(dict(why='naming model moved %r out of its directory: %r' % (name, want), stderr='')); continue
                want = want[4:]
            distinct.add((fmt, custom, want is None, r.returncode))
            if want is None:
                if after != {name} or r.returncode != 2:
                    viol.append(dict(why='name %r (format %s, suffix %r): the naming rules say "skip with a warning", xz exit %d, directory now %r' % (name, fmt, custom, r.returncode, sorted(after)), stderr=r.stderr.decode(errors='replace')[:200]))
                continue
            if after != {want} or r.returncode != 0:
                viol.append(dict(why='name %r (format %s, suffix %r): expected target %r, directory now %r, exit %d' % (name, fmt, custom, want, sorted(after), r.returncode), stderr=r.stderr.decode(errors='replace')[:200])); continue
            # and back
            mo, _ = run_lines(orc, ['names d %s %s %s' % (fmt, custom.hex() if custom else '-', arg_of(i, want).hex())], shards=1)
            back = None if mo[0] == 'none' else bytes.fromhex(mo[0])
            if back is not None and i % 2: back = back[4:]
            r2 = subprocess.run([xz, '-d', '-F', fmt] + (['-S', custom] if custom else []) + ['--', arg_of(i, want)], cwd=top, capture_output=True, stdin=subprocess.DEVNULL)
            after2 = set(os.listdir(d.encode()))
            n_eval += 1
            if back is None:
                if after2 != {want}: viol.append(dict(why='decompressing %r should be skipped (unknown suffix) but directory is %r' % (want, sorted(after2)), stderr=''))
            else:
                if after2 != {back} or r2.returncode != 0:
                    viol.append(dict(why='decompressing %r: expected %r, directory now %r (exit %d)' % (want, back, sorted(after2), r2.returncode), stderr=r2.stderr.decode(errors='replace')[:200]))
                elif open(os.path.join(d.encode(), back), 'rb').read() != b'data %d' % i:
                    viol.append(dict(why='content changed through compress/decompress of %r' % name, stderr=''))
        # ---------- overwrite protection, special sources, keep/stdout
        d = os.path.join(td, 'prot'); os.mkdir(d)
        def w(n, c=b'hello'): open(os.path.join(d, n), 'wb').write(c)
        w('a'); w('a.xz', b'EXISTING')
        r = subprocess.run([xz, 'a'], cwd=d, capture_output=True, stdin=subprocess.DEVNULL); n_eval += 1
        if open(os.path.join(d, 'a.xz'), 'rb').read() != b'EXISTING' or not os.path.exists(os.path.join(d, 'a')) or r.returncode != 1:
            viol.append(dict(why='existing target overwritten or source removed without --force (exit %d)' % r.returncode, stderr=r.stderr.decode()[:200]))
        r = subprocess.run([xz, '-f', 'a'], cwd=d, capture_output=True, stdin=subprocess.DEVNULL); n_eval += 1
        if r.returncode != 0 or os.path.exists(os.path.join(d, 'a')) or open(os.path.join(d, 'a.xz'), 'rb').read()[:6] != b'\xfd7zXZ\x00':
            viol.append(dict(why='--force did not replace the target', stderr=r.stderr.decode()[:200]))
        w('k'); r = subprocess.run([xz, '-k', 'k'], cwd=d, capture_output=True, stdin=subprocess.DEVNULL); n_eval += 1
        if not os.path.exists(os.path.join(d, 'k')) or not os.path.exists(os.path.join(d, 'k.xz')): viol.append(dict(why='--keep removed the source or wrote no target', stderr=''))
        w('c'); r = subprocess.run([xz, '-c', 'c'], cwd=d, capture_output=True, stdin=subprocess.DEVNULL); n_eval += 1
        if not os.path.exists(os.path.join(d, 'c')) or os.path.exists(os.path.join(d, 'c.xz')) or r.stdout[:6] != b'\xfd7zXZ\x00': viol.append(dict(why='--stdout removed the source / created a file', stderr=''))
        w('t'); os.symlink('t', os.path.join(d, 'sl')); r = subprocess.run([xz, 'sl'], cwd=d, capture_output=True, stdin=subprocess.DEVNULL); n_eval += 1
        if os.path.exists(os.path.join(d, 'sl.xz')) or r.returncode != 2: viol.append(dict(why='symbolic link processed without --force/--keep (exit %d)' % r.returncode, stderr=r.stderr.decode()[:200]))
        w('h1'); os.link(os.path.join(d, 'h1'), os.path.join(d, 'h2')); r = subprocess.run([xz, 'h1'], cwd=d, capture_output=True, stdin=subprocess.DEVNULL); n_eval += 1
        if os.path.exists(os.path.join(d, 'h1.xz')) or r.returncode != 2: viol.append(dict(why='file with two hard links processed (exit %d)' % r.returncode, stderr=''))
        for bits, nm in ((0o4644, 'suid'), (0o2644, 'sgid'), (0o1644, 'sticky')):
            w(nm); os.chmod(os.path.join(d, nm), bits); r = subprocess.run([xz, nm], cwd=d, capture_output=True, stdin=subprocess.DEVNULL); n_eval += 1
            if os.path.exists(os.path.join(d, nm + '.xz')) or r.returncode != 2: viol.append(dict(why='%s source processed without --force/--keep (exit %d)' % (nm, r.returncode), stderr=''))
        os.mkdir(os.path.join(d, 'dir')); r = subprocess.run([xz, 'dir'], cwd=d, capture_output=True, stdin=subprocess.DEVNULL); n_eval += 1
        if r.returncode != 2: viol.append(dict(why='directory not skipped with a warning (exit %d)' % r.returncode, stderr=''))
        os.mkfifo(os.path.join(d, 'fifo')); r = subprocess.run([xz, 'fifo'], cwd=d, capture_output=True, stdin=subprocess.DEVNULL, timeout=20); n_eval += 1
        if os.path.exists(os.path.join(d, 'fifo.xz')) or r.returncode != 2: viol.append(dict(why='FIFO source produced a file (exit %d)' % r.returncode, stderr=''))
        # never a file from a non-regular source, whatever other options are given (only --stdout reads such sources)
        for fargs, tname in ((['-k'], 'fifo.xz'), (['-f'], 'fifo.xz'), (['-kf'], 'fifo.xz'), (['-dk', '--suffix=o'], 'fif'), (['-z', '-T2', '-k'], 'fifo.xz'), (['--format=lzma', '-k'], 'fifo.lzma')):
            # a writer stands by so that a tool that does open the FIFO for reading gets data and an end of file instead of blocking
            wr = subprocess.Popen(['sh', '-c', 'exec 2>/dev/null; printf "data from the fifo\\n" > fifo'], cwd=d)
            try: r = subprocess.run([xz] + fargs + ['fifo'], cwd=d, capture_output=True, stdin=subprocess.DEVNULL, timeout=20); rc = r.returncode
            except subprocess.TimeoutExpired: rc = -99
            wr.kill(); wr.wait(); n_eval += 1
            made = [x for x in os.listdir(d) if x not in ('fifo',) and x.startswith('fif')]
            if made or rc != 2 or not os.path.exists(os.path.join(d, 'fifo')):
                viol.append(dict(why='xz %s fifo: exit %d, files created %s, FIFO %s (a non-regular source must be skipped with a warning)' % (' '.join(fargs), rc, made, 'still there' if os.path.exists(os.path.join(d, 'fifo')) else 'REMOVED'), stderr=''))
            for x in made: os.remove(os.path.join(d, x))
            if not os.path.exists(os.path.join(d, 'fifo')): os.mkfifo(os.path.join(d, 'fifo'))
        # ---------- permission bits and timestamps (as root: owner/group can be set)
        modes = [0o000, 0o400, 0o600, 0o640, 0o644, 0o664, 0o666, 0o755, 0o777, 0o705, 0o070, 0o007, 0o750] + [rng.randrange(0o1000) for _ in range(10 if ctx.quick() else 200)]
        dm = os.path.join(td, 'modes'); os.mkdir(dm); os.chmod(dm, 0o777)
        mo, _ = run_lines(orc, ['destmode %d 1' % m for m in modes] + ['destmode %d 0' % m for m in modes], shards=1)
        for i, m in enumerate(modes):
            p = os.path.join(dm, 'r%d' % i); open(p, 'wb').write(b'x' * 100); os.chmod(p, m); os.utime(p, ns=(1234567890123456789, 987654321987654321))
            os.chown(p, 12345, 54321)
            r = subprocess.run([xz, p], capture_output=True, stdin=subprocess.DEVNULL); n_eval += 1
            st = os.stat(p + '.xz') if os.path.exists(p + '.xz') else None
            if st is None: viol.append(dict(why='mode %o: no target (exit %d)' % (m, r.returncode), stderr=r.stderr.decode()[:200])); continue
            if stat.S_IMODE(st.st_mode) != int(mo[i]): viol.append(dict(why='source mode %o: target mode %o, model %o' % (m, stat.S_IMODE(st.st_mode), int(mo[i])), stderr=''))
            if (st.st_uid, st.st_gid) != (12345, 54321): viol.append(dict(why='owner/group not copied as root', stderr=''))
            if st.st_mtime_ns != 987654321987654321 or st.st_atime_ns != 1234567890123456789: viol.append(dict(why='timestamps not copied exactly: %d %d' % (st.st_atime_ns, st.st_mtime_ns), stderr=''))
            distinct.add(('mode', m))
        # the target may be born with another group than the source's (set-group-ID directory): the source's group must be
        # restored on it together with the mode, also when the source's group is the group xz runs with
        if os.geteuid() == 0:
            sg = os.path.join(td, 'sgid'); os.mkdir(sg); os.chown(sg, 0, 54321); os.chmod(sg, 0o2770)
            for j, (gid_, md_, extra) in enumerate([(os.getegid(), 0o640, []), (os.getegid(), 0o660, ['-k']), (4242, 0o640, []), (os.getegid(), 0o664, ['-k', '-S', '.foo'])]):
                p = os.path.join(sg, 'g%d' % j); open(p, 'wb').write(b'secret data\n'); os.chown(p, 0, gid_); os.chmod(p, md_)
                if os.stat(p).st_gid != gid_: continue
                r = subprocess.run([xz] + extra + [p], capture_output=True, stdin=subprocess.DEVNULL); n_eval += 1
                tg = p + ('.foo' if '-S' in extra else '.xz')
                if not os.path.exists(tg): viol.append(dict(why='set-group-ID directory: no target (exit %d)' % r.returncode, stderr=r.stderr.decode()[:200])); continue
                st = os.stat(tg); distinct.add(('sgid', j, st.st_gid == gid_))
                if st.st_gid != gid_ or stat.S_IMODE(st.st_mode) != md_:
                    viol.append(dict(why='source with group %d mode %o in a set-group-ID directory of group 54321: target has group %d mode %o (the directory\'s group gets access the source did not grant)' % (gid_, md_, st.st_gid, stat.S_IMODE(st.st_mode)), stderr=''))
        # unprivileged with a group the user is not in: restricted mode branch
        def drop():
            os.setgroups([]); os.setgid(65534); os.setuid(65534)
        for i, m in enumerate(modes):
            p = os.path.join(dm, 'u%d' % i); open(p, 'wb').write(b'x' * 100); os.chown(p, 65534, 4242); os.chmod(p, m | 0o400)
            r = subprocess.run([xz, p], capture_output=True, stdin=subprocess.DEVNULL, preexec_fn=drop); n_eval += 1
            if not os.path.exists(p + '.xz'): viol.append(dict(why='unprivileged run, mode %o: no target (exit %d): %s' % (m, r.returncode, r.stderr.decode()[:100]), stderr='')); continue
            st = os.stat(p + '.xz')
            exp, _ = run_lines(orc, ['destmode %d 0' % (m | 0o400)], shards=1)
            if stat.S_IMODE(st.st_mode) != int(exp[0]): viol.append(dict(why='unprivileged, foreign group, source mode %o: target mode %o, model %o' % (m | 0o400, stat.S_IMODE(st.st_mode), int(exp[0])), stderr=''))
            if stat.S_IMODE(st.st_mode) & ~(m | 0o400): viol.append(dict(why='target mode %o broader than source %o' % (stat.S_IMODE(st.st_mode), m | 0o400), stderr=''))
        # ---------- exit status of mixed runs
        de = os.path.join(td, 'exit'); os.mkdir(de)
        for n_ in ('ok1', 'ok2'): open(os.path.join(de, n_), 'wb').write(b'hello')
        open(os.path.join(de, 'already.xz'), 'wb').write(subprocess.run([xz, '-c'], input=b'zz', capture_output=True).stdout)
        mixes = [(['ok1'], ''), (['already.xz'], '2'), (['missing'], '1'), (['already.xz', 'missing'], '21'), (['missing', 'already.xz'], '12'), (['already.xz', 'ok2', 'missing', 'already.xz'], '212')]
        for files, ev in mixes:
            for nw in (0, 1):
                r = subprocess.run([xz, '-k'] + (['-Q'] if nw else []) + files, cwd=de, capture_output=True, stdin=subprocess.DEVNULL); n_eval += 1
                mo2, _ = run_lines(orc, ['exitstatus %d %s' % (nw, ev)], shards=1)
                if r.returncode != int(mo2[0]): viol.append(dict(why='xz -k %s%s: exit status %d, the status rule gives %s' % ('-Q ' if nw else '', ' '.join(files), r.returncode, mo2[0]), stderr=r.stderr.decode()[:200]))
                distinct.add(('exit', ev, nw))
                for f_ in ('ok1.xz', 'ok2.xz'):
                    try: os.remove(os.path.join(de, f_))
                    except FileNotFoundError: pass
    finally:
        subprocess.run(['chmod', '-R', 'u+rwx', td]); shutil.rmtree(td, ignore_errors=True)
    ctx.cov['evaluations'] = n_eval
    ctx.cov['distinct_nontrivial'] = len(distinct)
    ctx.cov['rule'] = 'xz binary in scratch directories: generated names (suffix look-alikes, names equal to a suffix, leading dashes/dots, non-UTF-8, newlines, quotes, long), formats xz/lzma, custom suffixes incl. dot-less ones; skip rules; overwrite/--force/--keep/--stdout; symlink, hard link, setuid/setgid/sticky, directory, FIFO sources; st_mode/owner/timestamps as root and as uid 65534 with a foreign group; mixed warning/error exit status with and without -Q'
    ctx.cov['input_distribution'] = dict(names=len(cases))
    ctx.cov['samples'] = [repr(cases[0]), repr(cases[1])]
    if viol:
        ctx.violation('C19 ' + viol[0]['why'], viol[0])
    if not res['ok'] and not viol:
        ctx.violation('proof obligation of Properties_C19 no longer checks (%s)' % res['failing'],
                      {'theorem_file': 'coq/Properties_C19.v', 'failing': res['failing'], 'log_tail': res['log'][-3000:]}, found_input=False)

def replay(ctx, path):
    import json
    print(json.dumps(json.load(open(path)), indent=1)[:3000]); return 0
