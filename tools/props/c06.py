"""C06: results do not depend on buffer slicing; encoder output is deterministic."""
from common import *
from decode_common import *
import xzgen, glob, lzma

TRUSTED = [
 'Coq 8.16.1 kernel; no native_compute', 'axioms: none',
 'theorems: chunking independence of the streaming CRC/SHA-256 interface, of the delta coder, and of the resumable VLI decoder model (any split = one-shot); accounting of lzma_code over any call history (C11)',
 'NOT proved: slicing independence of the resumable LZMA1/LZMA2/Block/Stream/simple_coder state machines and of the encoders - decided here by differential runs only (every two-piece split of small files, 1-byte input, 1-byte output, random chunks with empty calls)',
 'encoder determinism across thread counts/timeouts/scheduling: explored only',
]

def cmp_runs(base, other, has_bcj):
    if base is None or other is None: return 'driver failure'
    if base[0] != other[0]: return 'status %d vs %d' % (base[0], other[0])
    if base[1] != other[1]: return 'input consumed %d vs %d' % (base[1], other[1])
    if (base[0] == 1 or not has_bcj) and base[4] != other[4]: return 'output differs (%d vs %d bytes)' % (len(base[4]), len(other[4]))
    return None

def run(ctx):
    rng = ctx.rng
    res = coq_check('Properties_C06')
    ctx.proof(res, TRUSTED)
    # -O2 build with assertions (ASan makes large-dictionary encoder init pathologically slow; sanitizer runs belong to C04)
    drv = compile_driver('hook', 'drv_dec.c', 'drv_dec')
    enc = compile_driver('hook', 'drv_enc.c', 'drv_enc')
    viol = []
    n_eval = 0
    distinct = set()
    # ---------------- decoders
    inputs = []   # (kind, flags, blob, label, has_bcj)
    tail_of = {}   # input index -> how many trailing bytes get every two-piece split
    head_of = {}   # input index -> offset of the Index field (splits around its first bytes are tried too)
    NV = 25 if ctx.quick() else 400
    for _ in range(NV):
        f, e, d = xzgen.gen_valid_xz(rng, 400 if ctx.quick() else 5000)
        hb = any(a in d for a in xzgen.BCJ_ID)
        inputs.append((0, LZMA_CONCATENATED, f, 'xz:' + d, hb))
        m, how = xzgen.mutate(rng, f)
        inputs.append((0, LZMA_CONCATENATED, m, 'xz-mutant:' + how + ':' + d, hb))
        m, how = xzgen.mutate_chunk(rng, f)
        inputs.append((0, LZMA_CONCATENATED, m, 'xz-mutant:' + how + ':' + d, hb))
        inputs.append((2, LZMA_CONCATENATED, f, 'auto-xz:' + d, hb))
    for p in sorted(glob.glob(os.path.join(REPO, 'tests/files/*'))):
        b = open(p, 'rb').read(); nm = os.path.basename(p)
        if len(b) > (3000 if ctx.quick() else 100000): continue
        if nm.endswith('.xz'): inputs.append((0, LZMA_CONCATENATED, b, 'file:' + nm, True)); inputs.append((2, 0, b, 'auto-file:' + nm, True))
        elif nm.endswith('.lzma'): inputs.append((3, 0, b, 'file:' + nm, False)); inputs.append((2, 0, b, 'auto-file:' + nm, False))
        elif nm.endswith('.lz'): inputs.append((4, LZMA_CONCATENATED, b, 'file:' + nm, False)); inputs.append((4, 0, b, 'file-noconcat:' + nm, False))
    # generated .lzma files: known/unknown size x with/without end marker
    for _ in range(10 if ctx.quick() else 200):
        data = xzgen.gen_data(rng, rng.randrange(0, 600))
        lc = rng.randrange(0, 5); lp = rng.randrange(0, 5 - lc); pb = rng.randrange(0, 5)
        raw = lzma.compress(data, format=lzma.FORMAT_ALONE, filters=[{'id': lzma.FILTER_LZMA1, 'dict_size': 4096, 'lc': lc, 'lp': lp, 'pb': pb}])
        inputs.append((3, 0, raw, 'lzma-eopm-unknown', False))
        known = raw[:5] + len(data).to_bytes(8, 'little') + raw[13:]
        inputs.append((3, 0, known, 'lzma-eopm-known', False))
    # Index fields through lzma_index_decoder (sliced input) and lzma_index_encoder (sliced output); valid and damaged
    for _ in range(12 if ctx.quick() else 300):
        nrec = rng.choice([0, 1, 2, 5, rng.randrange(0, 40)])
        recs = [(rng.choice([5, 6, 7, 8, 100, 1 << 20, rng.randrange(5, 1 << 40)]), rng.choice([0, 1, 300, rng.randrange(0, 1 << 40)])) for _ in range(nrec)]
        ix = xzgen.index(recs)
        inputs.append((7, 0, ix, 'index', False)); inputs.append((10, 0, ix, 'index-encoder', False))
        bad = bytearray(ix); bad[rng.randrange(len(bad))] ^= 1 << rng.randrange(8)
        inputs.append((7, 0, bytes(bad), 'index-damaged', False))
        inputs.append((7, 0, ix[:rng.randrange(len(ix))], 'index-truncated', False))
    # .lzma streams serialised by the model encoder from arbitrary symbol sequences, valid and invalid from some symbol on
    orc = oracle()
    gl = []
    for _ in range(40 if ctx.quick() else 1200):
        lc = rng.randrange(5); lp = rng.randrange(5 - lc); pb = rng.randrange(5)
        toks = xzgen.gen_symbols(rng, rng.choice([1, 2, 3, 8, 30, rng.randrange(1, 100)]), p_bad=rng.choice([0, 0.5, 1.0]))
        gl.append(('lzmaenc %d %d %d %s' % (lc, lp, pb, ' '.join(toks)), lc, lp, pb))
    go, gf = run_lines(orc, [g[0] for g in gl])
    if gf: raise BuildError('oracle failed %r' % (gf[0],))
    for (cmd, lc, lp, pb), hx in zip(gl, go):
        inputs.append((3, 0, xzgen.alone_wrap(bytes.fromhex(hx), lc, lp, pb), 'lzma-model-generated:' + cmd[8:120], False))
    # Streams with many tiny Blocks: multi-byte Number of Records, long Index (every split inside Index and Footer is tried below)
    for nb in ([130, 129] if ctx.quick() else [128, 130, 200, 1000, 16390]):
        mb, mexp, ilen = xzgen.gen_many_blocks(rng, nb)
        inputs.append((0, LZMA_CONCATENATED, mb, 'many-blocks:%d' % nb, False)); inputs.append((2, 0, mb, 'many-blocks-auto:%d' % nb, False))
        if nb <= 200: inputs.append((1, 0, mb, 'many-blocks-mt:%d' % nb, False))
        for q in range(1, 4 if nb <= 200 else 3):
            tail_of[len(inputs) - q] = min(ilen, 700) + 14; head_of[len(inputs) - q] = len(mb) - 12 - ilen
    # corpus of recorded findings (known/): run first, classified by key
    import json as _json
    for kp in sorted(glob.glob(os.path.join(VERIF, 'known', 'C06-*.json'))):
        kd = _json.load(open(kp)); inputs.append((0, kd.get('flags', 8), bytes.fromhex(kd['file']), 'known:' + kd['label'], True))
    jobs = []   # (input index, mode, seed)
    for idx, (k, fl, b, lab, hb) in enumerate(inputs):
        jobs += [(idx, 0, 0), (idx, 1, 0), (idx, 2, 0), (idx, 3, rng.randrange(1 << 20)), (idx, 3, rng.randrange(1 << 20))]
        if k <= 4: jobs += [(idx, 16 + rng.choice([0, 1, 3]), rng.randrange(1 << 20))]      # after partial use and re-initialisation of the same handle
        n = len(b)
        offs = range(1, n) if n <= (260 if ctx.quick() else 1200) else sorted(set(rng.sample(range(1, n), 60)) | set(range(max(1, n - tail_of.get(idx, 40)), n)) | set(range(head_of[idx] - 3, head_of[idx] + 9) if idx in head_of else []))   # + every split in the tail (Index, Footer) and around the start of the Index
        jobs += [(idx, 4, o) for o in offs]
    lines = ['dec %d %d %d %d 0 %s' % (inputs[i][0], inputs[i][1], m, s, inputs[i][2].hex() or '-') for i, m, s in jobs]
    outs, fails = run_lines(drv, lines)
    for f in fails:
        ctx.violation('decoder crashed / sanitizer report', {'line': (f[0] or '')[:20000], 'stderr': f[1], 'kind': 'sanitizer'})
    parsed = []
    for o in outs:
        if o is None: parsed.append(None); continue
        t = o.split(); parsed.append((int(t[0]), int(t[1]), int(t[2]), int(t[3]), t[4]))
    base = {}
    for (i, m, s), r in zip(jobs, parsed):
        if m == 0: base[i] = r
    for (i, m, s), r in zip(jobs, parsed):
        n_eval += 1
        if m == 0: continue
        k, fl, b, lab, hb = inputs[i]
        distinct.add((k, m, lab.split(':')[0], base[i][0] if base[i] else None, min(s, 64) if m == 4 else 0))
        why = cmp_runs(base[i], r, hb)
        if why:
            # recorded finding: rejected input behind a BCJ filter, same status (LZMA_DATA_ERROR) and output, only total_in differs
            kkey = 'bcj-invalid-consumed' if (hb and why.startswith('input consumed') and base[i] and r and base[i][0] == 9 and r[0] == 9 and base[i][2] == r[2]) else None
            viol.append(dict(kind='decoder-slicing', coder=k, flags=fl, label=lab, mode=m, seed=s, why=why, file=b.hex(), key=kkey,
                             oneshot=list(base[i][:4]) if base[i] else None, sliced=list(r[:4]) if r else None))
    # the threaded encoder's bytes depend on the output queue handing out buffers of exactly the size asked for (that is how an
    # incompressible Block is noticed), whatever the queue was used for before: outqueue.c vs the Outq model
    from props.c07 import outq_correspondence
    odrv = compile_driver('san', 'drv_outq.c', 'drv_outq', whitebox_of='src/liblzma/common/outqueue.c')
    ov, oe = outq_correspondence(rng, 200 if ctx.quick() else 3000, odrv, oracle())
    for v_ in ov: viol.append(dict(kind='outq', config='outqueue.c', a='', b='', why=v_['why'], file=v_['line'].encode().hex()))
    n_eval += oe
    # ---------------- encoders
    datas = [xzgen.gen_data(rng, n) for n in ([0, 1, 100, 5000, 70000] if ctx.quick() else [0, 1, 2, 100, 5000, 70000, 300000, 1 << 20])]
    datas += [xzgen.gen_data(rng, rng.randrange(2000, 30000)) for _ in range(3 if ctx.quick() else 30)]
    cfgs = []
    for preset in ([0, 1, 4, 6] if ctx.quick() else [0, 1, 2, 3, 4, 5, 6]):
        cfgs.append((0, preset | (rng.choice([1, 4, 10]) << 8), '-'))
    cfgs.append((0, 2 | 32 | (1 << 8), '-'))
    cfgs.append((2, 1, '-'))
    for fs in ['delta:dist=4+lzma2:dict=4KiB,lc=1,lp=2,pb=0', 'x86+lzma2:dict=64KiB,mode=fast,mf=hc3,nice=8', 'lzma2:dict=8KiB,mf=bt2,nice=273,depth=4',
               'arm64+delta:dist=256+lzma2:dict=1MiB,lc=4,lp=0,pb=4', 'riscv+lzma2:preset=3', 'lzma2:dict=4KiB,mf=hc4,mode=normal,nice=2']:
        cfgs.append((4, rng.choice([0, 1, 4, 10]) << 8, fs)); cfgs.append((3, 0, fs))
    cfgs.append((2, 0, 'lzma1:dict=4KiB,lc=0,lp=4,pb=1'))
    elines, emeta = [], []
    for d in datas:
        for (k, cfg, fs) in cfgs:
            for m, s in [(0, 0), (1, 0), (2, 0), (3, rng.randrange(1 << 20)), (3, rng.randrange(1 << 20))]:
                if (m in (1, 2)) and len(d) > 20000: continue
                elines.append('enc %d %d %d %d %s %s' % (k, cfg, m, s, fs, d.hex() or '-')); emeta.append(((k, cfg, fs, id(d)), m, s, d))
    # low-entropy data with long repeats (long matches end beyond nice_len; the optimiser works in 4096-position windows):
    # many different slicings of the same input through normal-mode encoders
    def long_repeats(n):
        out = bytearray(xzgen.gen_runs(rng, 600))
        while len(out) < n:
            if rng.random() < 0.5:
                src = rng.randrange(len(out)); l = rng.choice([100, 200, 273, 300, 500]); out += (out[src:] + out)[:l]
            else: out += xzgen.gen_runs(rng, rng.randrange(5, 80))
        return bytes(out[:n])
    def junk_with_far_repeats(n):
        # 4-symbol noise (short matches only: the optimal parser runs to its full horizon) with a 300-byte pattern
        # repeated about one horizon (4096 positions) after the end of the previous long match
        out = bytearray(rng.choice(b'acgt') for _ in range(n)); pat = bytes(65 + rng.randrange(26) for _ in range(300))
        p = 300; k = 0
        while p + 300 <= n:
            out[p:p + 300] = pat; p = p + 273 + rng.choice([3950, 3900, 4000, 4096 - 273]) + 20 * k; k += 1
        return bytes(out)
    for _ in range(2 if ctx.quick() else 20):
        d = long_repeats(rng.choice([6000, 9000, 13000])) if _ % 2 else junk_with_far_repeats(rng.choice([14000, 19000]))
        for (k, cfg, fs) in [(0, 6 | (1 << 8), '-'), (4, 1 << 8, 'lzma2:dict=64KiB,mode=normal,mf=bt4,nice=%d' % rng.choice([32, 64, 128])), (3, 0, 'lzma2:dict=64KiB,mode=normal,mf=hc4,nice=48'), (2, 6, '-')]:
            for m, s in [(0, 0), (1, 0)] + [(3, rng.randrange(1 << 20)) for _k in range(6 if ctx.quick() else 25)]:
                elines.append('enc %d %d %d %d %s %s' % (k, cfg, m, s, fs, d.hex())); emeta.append(((k, cfg, fs, id(d)), m, s, d))
    # > 2 MiB of near-identical short records (compresses far better than 32:1, matches mostly shorter than nice_len): LZMA2
    # chunks end at the 2 MiB uncompressed limit, where the pending look-ahead of the optimiser must not decide the cut
    from enc_common import special_inputs
    recs_ = special_inputs(rng)[0][:(2 << 20) + 700000]
    for fs in (['lzma2:dict=1MiB,mode=normal,mf=bt4,nice=273', 'lzma2:dict=64KiB,mode=normal,mf=hc4,nice=200'] if ctx.quick() else ['lzma2:dict=1MiB,mode=normal,mf=bt4,nice=273', 'lzma2:dict=64KiB,mode=normal,mf=hc4,nice=200', 'lzma2:dict=1MiB,mode=normal,mf=bt3,nice=128', 'lzma2:preset=6e']):
        for m, s_ in [(0, 0)] + [(3, rng.randrange(1 << 20)) for _k in range(3 if ctx.quick() else 10)]:
            elines.append('enc 3 0 %d %d %s %s' % (m, s_, fs, recs_.hex())); emeta.append(((3, 0, fs, id(recs_)), m, s_, recs_))
    # threaded encoder: same block size, different thread counts / timeouts / slicings must give the same bytes
    for d in datas:
        if len(d) < 100: continue
        for bs in (1, 4):
          for preset in (1, 6):      # fast and normal mode (normal mode keeps price tables: a worker's 2nd Block must not see the 1st)
            for th in range(0, 4):
                for to in (0, 1, 2):
                    if preset == 6 and to == 2: continue
                    cfg = preset | (4 << 8) | (th << 12) | (to << 16) | (bs << 20)
                    m, s = rng.choice([(0, 0), (3, rng.randrange(1 << 20))])
                    elines.append('enc 1 %d %d %d - %s' % (cfg, m, s, d.hex())); emeta.append((('mt', bs, preset, id(d)), m, (th, to, s), d))
    # a coder that was used before (re-initialised on the same lzma_stream after partial use) writes the same bytes as a fresh one
    for d in datas:
        if len(d) < 100 or len(d) > 100000: continue
        for (k, cfg, fs) in [(0, 6 | (1 << 8), '-'), (0, 4 | (4 << 8), '-'), (1, 6 | (4 << 8) | (1 << 12) | (2 << 20), '-'), (4, 1 << 8, 'lzma2:dict=64KiB,mode=normal,mf=bt4,nice=64'), (4, 4 << 8, 'x86+lzma2:preset=5')]:
            elines.append('enc %d %d 0 0 %s %s' % (k, cfg, fs, d.hex())); emeta.append((('reuse', k, cfg, fs, id(d)), 0, 'fresh', d))
            for _r in range(3):
                elines.append('enc %d %d %d %d %s %s' % (k, cfg | (1 << 29), rng.choice([0, 3]), rng.randrange(1 << 20), fs, d.hex())); emeta.append((('reuse', k, cfg, fs, id(d)), 0, 're-initialised', d))
    # textual vs structural chain
    for d in datas[:4]:
        for p in (0, 3, 6):
            elines.append('enc 0 %d 0 0 - %s' % (p | (4 << 8), d.hex() or '-')); emeta.append((('str', p, id(d)), 0, 'easy', d))
            elines.append('enc 4 %d 0 0 %d %s' % (4 << 8, p, d.hex() or '-')); emeta.append((('str', p, id(d)), 0, 'string', d))
    eouts, efails = run_lines(enc, elines)
    for f in efails:
        ctx.violation('encoder crashed / sanitizer report', {'line': (f[0] or '')[:20000], 'stderr': f[1], 'kind': 'sanitizer'})
    groups = {}
    for (key, m, s, d), o in zip(emeta, eouts):
        n_eval += 1
        groups.setdefault(key, []).append((m, s, o, d))
        distinct.add(('enc', key[0], m, len(d) // 4096))
    for key, lst in groups.items():
        ref = lst[0]
        for x in lst[1:]:
            if x[2] != ref[2]:
                viol.append(dict(kind='encoder-determinism', config=str(key[:3]), a=str(ref[:2]), b=str(x[:2]), why='same data and options, different bytes (or status): %s vs %s' % ((ref[2] or '')[:40], (x[2] or '')[:40]),
                                 file=ref[3].hex()))
                break
        if ref[2] is None or not ref[2].startswith('1 '):
            viol.append(dict(kind='encoder-status', config=str(key[:3]), why='encoder did not end with STREAM_END: %s' % (ref[2] or '')[:30], file=ref[3].hex()))
    ctx.cov['evaluations'] = n_eval
    ctx.cov['distinct_nontrivial'] = len(distinct)
    ctx.cov['rule'] = ('decoders (stream, auto, alone, lzip) on generated valid/mutated .xz, generated .lzma (known/unknown size, end marker), tests/files: one-shot vs 1-byte-in vs 1-byte-out vs random chunks vs EVERY two-piece split (files <= 260 bytes; sampled beyond); '
                       'encoders (easy, stream from filter strings, raw, alone, MT) across slicings, thread counts 1-4, timeouts, textual vs preset chains; distinct = (coder, mode, class, verdict, split bucket)')
    ctx.cov['input_distribution'] = dict(decoder_inputs=len(inputs), decoder_runs=len(jobs), encoder_runs=len(elines))
    ctx.cov['samples'] = [lines[3][:120], elines[2][:120]]
    if viol:
        # one report per class: unclassified violations and each recorded finding (known_findings.json) separately
        byk = {}
        for v in viol:
            byk.setdefault(v.get('key'), []).append(v)
        for kk, vs in byk.items():
            v = min(vs, key=lambda x: len(x['file']))
            ctx.violation('C06 %s: %s [%s]' % (v['kind'], v['why'], v.get('label', v.get('config'))), v, key=kk)
    if not res['ok'] and not viol:
        ctx.violation('proof obligation of Properties_C06 no longer checks (%s)' % res['failing'],
                      {'theorem_file': 'coq/Properties_C06.v', 'failing': res['failing'], 'log_tail': res['log'][-3000:]}, found_input=False)

def replay(ctx, path):
    import json
    print(json.dumps(json.load(open(path)), indent=1)[:3000]); return 0
