"""C15: BCJ and delta filters are exact inverses, size-preserving, stable."""
import subprocess, lzma
from common import *
import gen
from props.c14 import batch

ARCHS = ['x86', 'arm', 'armthumb', 'arm64', 'powerpc', 'ia64', 'sparc', 'riscv']
ALIGN = {'x86': 1, 'arm': 4, 'armthumb': 2, 'arm64': 4, 'powerpc': 4, 'ia64': 16, 'sparc': 4, 'riscv': 2}
PYID = {'x86': lzma.FILTER_X86, 'arm': lzma.FILTER_ARM, 'armthumb': lzma.FILTER_ARMTHUMB, 'arm64': 0x0A,
        'powerpc': lzma.FILTER_POWERPC, 'ia64': lzma.FILTER_IA64, 'sparc': lzma.FILTER_SPARC}

TRUSTED = [
 'Coq 8.16.1 kernel; vm_compute only for finite checks; no native_compute',
 'axioms: none (Print Assumptions per theorem in evidence)',
 'translator tools/gen.py gen_bcj: MASK_TO_BIT_NUMBER (x86.c) and BRANCH_TABLE (ia64.c) by regex from the current source',
 'hand transcription of simple/*.c and delta/*.c into Bcj.v, tied by white-box differential runs of the static *_code functions, the streaming simple_coder (random slicing) and the public one-shot API',
 'extraction ExtrOcamlBasic + oracle/driver.ml',
 'cross-version oracle: system liblzma 5.4.1 through python lzma (validates that the Coq reference is the released transformation; RISC-V not available there)',
]

def rb(rng, n): return bytes(rng.getrandbits(8) for _ in range(n))

def gen_code(rng, arch, n):
    """instruction-dense data so that most words convert"""
    d = bytearray(rb(rng, n))
    if arch == 'x86':
        for i in range(n):
            r = rng.random()
            if r < 0.25: d[i] = rng.choice([0xE8, 0xE9])
            elif r < 0.55: d[i] = rng.choice([0x00, 0xFF])
    elif arch == 'arm':
        for i in range(3, n, 4):
            if rng.random() < 0.6: d[i] = 0xEB
    elif arch == 'armthumb':
        for i in range(1, n, 2):
            r = rng.random()
            if r < 0.35: d[i] = 0xF0 | rng.randrange(8)
            elif r < 0.7: d[i] = 0xF8 | rng.randrange(8)
    elif arch == 'arm64':
        for i in range(3, n, 4):
            r = rng.random()
            if r < 0.3: d[i] = 0x94 | rng.randrange(4)
            elif r < 0.7:
                d[i] = 0x90 | (rng.randrange(4) << 5)
                if rng.random() < 0.7 and i >= 1:  # keep inside the +-512MiB gate
                    s = rng.choice([0x00, 0xFF]); d[i - 1] = s; d[i - 2] = (d[i - 2] & 0x1F) | (s & 0xE0)
    elif arch == 'powerpc':
        for i in range(0, n - 3, 4):
            if rng.random() < 0.6:
                d[i] = 0x48 | rng.randrange(4); d[i + 3] = (d[i + 3] & 0xFC) | 1
    elif arch == 'sparc':
        for i in range(0, n - 1, 4):
            r = rng.random()
            if r < 0.3: d[i] = 0x40; d[i + 1] &= 0x3F
            elif r < 0.6: d[i] = 0x7F; d[i + 1] |= 0xC0
    elif arch == 'ia64':
        for i in range(0, n - 15, 16):
            if rng.random() < 0.8:
                d[i] = (d[i] & 0xE0) | rng.choice([16, 17, 18, 19, 22, 23, 24, 25, 28, 29])
                # make slots look like branches: opcode 5 at bits 37..40, btype 0 at bits 9..11 of the slot
                v = int.from_bytes(d[i:i + 16], 'little')
                for slot in range(3):
                    if rng.random() < 0.7:
                        base = 5 + 41 * slot
                        v &= ~(0xF << (base + 37)); v |= 5 << (base + 37)
                        v &= ~(0x7 << (base + 9))
                d[i:i + 16] = v.to_bytes(16, 'little')
    elif arch == 'riscv':
        i = 0
        while i + 8 <= n:
            r = rng.random()
            if r < 0.25:
                d[i] = 0xEF; d[i + 1] &= 0xF2 if rng.random() < 0.8 else 0xFF; i += 4
            elif r < 0.6:
                rd = rng.choice([1, 2, 3, 5, 6, 10, 0, 31])
                inst = 0x17 | (rd << 7) | (rng.getrandbits(20) << 12)
                d[i:i + 4] = inst.to_bytes(4, 'little')
                if rng.random() < 0.7:
                    op = rng.choice([0x03, 0x13, 0x67, 0x23])
                    inst2 = op | (rng.getrandbits(5) << 7) | (rng.getrandbits(3) << 12) | (rd << 15) | (rng.getrandbits(12) << 20)
                    d[i + 4:i + 8] = inst2.to_bytes(4, 'little')
                i += 8
            else:
                i += 2
    return bytes(d)

def run(ctx):
    rng = ctx.rng
    ch = gen.gen_bcj()
    res = coq_check('Properties_C15')
    ctx.proof(res, TRUSTED)
    orc = oracle()
    drv = compile_driver('san', 'drv_bcj.c', 'drv_bcj', whitebox_of='src/liblzma/simple/x86.c',
                         extra=['-I' + os.path.join(REPO, 'src/liblzma/delta')])
    NB = 60 if ctx.quick() else 600
    mism = []
    n_eval = 0
    distinct = set()
    dist = {}
    # ---------- (1) direct *_code calls: model vs implementation
    lines, olines, meta = [], [], []
    for ai, arch in enumerate(ARCHS):
        al = ALIGN[arch]
        for k in range(NB):
            n = rng.choice([0, 1, 3, 4, 5, 7, 8, 15, 16, 17, 31, 32, 33]) if k % 5 == 0 else rng.randrange(0, 200 if ctx.quick() else 1200)
            d = gen_code(rng, arch, n) if k % 7 else rb(rng, n)
            np_ = rng.choice([0, al * rng.randrange(1 << 20), (1 << 32) - al * rng.randrange(1, 40), al * rng.randrange((1 << 32) // al)])
            if arch == 'x86':
                pm = rng.choice([0, 0, 2, 4, 8, 0x22, 0x12, 6, 0x10 | 2])
                pp = (np_ - rng.choice([5, 1, 2, 3, 4, 6, 100])) % (1 << 32)
            else:
                pm = pp = 0
            for enc in (1, 0):
                lines.append('code %s %d %d %d %d %s' % (arch, enc, np_, pm, pp, d.hex() or '-'))
                olines.append('bcj %d %d %d %d %d %s' % (ai, enc, np_, pm, pp, d.hex() or '-'))
                meta.append((arch, enc, np_, pm, pp, d))
    out = batch(drv, lines); oout = batch(orc, olines, timeout=1800)
    conv_count = 0
    for m, a, b in zip(meta, out, oout):
        n_eval += 1
        arch, enc, np_, pm, pp, d = m
        if arch != 'x86':
            a = ' '.join(a.split()[:2]); b = ' '.join(b.split()[:2])
        oh = a.split()[1]
        if oh != (d.hex() or '-'):
            conv_count += 1
            distinct.add(('code', arch, enc, len(d), np_ & 0xffff))
        dist[arch] = dist.get(arch, 0) + 1
        if a != b:
            mism.append(dict(kind='code', arch=arch, enc=enc, now_pos=np_, pm=pm, pp=pp, data=d.hex(), impl=a, model=b))
    # ---------- (2) streaming coder with random slicing = whole-data model; roundtrip on the implementation
    lines, olines, meta = [], [], []
    for ai, arch in enumerate(ARCHS):
        al = ALIGN[arch]
        for k in range(NB // 2):
            n = rng.randrange(0, 300 if ctx.quick() else 3000)
            d = gen_code(rng, arch, n)
            st = rng.choice([0, al * rng.randrange(1 << 16), (1 << 32) - al * rng.randrange(1, 64)])
            for enc in (1, 0):
                olines.append('bcjwhole %d %d %d %s' % (ai, enc, st, d.hex() or '-'))
                for mode_seed in (rng.randrange(1 << 30) * 4 + 3, rng.randrange(1 << 30) * 4 + rng.randrange(3)):
                    lines.append('stream %s %d %d %d %s' % (arch, enc, st, mode_seed, d.hex() or '-'))
                    meta.append((arch, enc, st, mode_seed, d, len(olines) - 1))
    # reused coders (seed bit 2): short streams with branch opcodes in the first bytes, after an arbitrary earlier stream
    for ai, arch in enumerate(ARCHS):
        for k in range(NB * 4 if arch == 'x86' else NB // 4):
            d = bytes(rng.choice([0xE8, 0xE9, 0x00, 0xFF, 0x10, 0x20, 0x30, 0x90, 0x0F, 0x80, 0xEB, 0x94, 0x4B, 0x7F, rng.getrandbits(8)]) for _ in range(rng.randrange(1, 24)))
            if rng.random() < 0.5: d = bytes([rng.choice([0xE8, 0xE9])]) + d
            st = rng.choice([0, 0, ALIGN[arch] * rng.randrange(1 << 10)])
            for enc in (1, 0):
                olines.append('bcjwhole %d %d %d %s' % (ai, enc, st, d.hex() or '-'))
                for _r in range(3):
                    mode_seed = rng.randrange(1 << 28) * 8 + 4 + rng.choice([0, 0, 3])
                    lines.append('stream %s %d %d %d %s' % (arch, enc, st, mode_seed, d.hex() or '-'))
                    meta.append((arch, enc, st, mode_seed, d, len(olines) - 1))
    try:
        out = batch(drv, lines)
    except BuildError as e:
        if getattr(e, 'culprit', None):
            ctx.violation('BCJ streaming coder crashed or stopped making progress (rc %s)' % e.rc, {'kind': 'crash', 'line': e.culprit[:4000], 'detail': str(e)[-1500:]}, found_input=True)
            ctx.cov['evaluations'] = n_eval; return
        raise
    oout = batch(orc, olines, timeout=1800)
    enc_out = {}
    for m, a in zip(meta, out):
        n_eval += 1
        arch, enc, st, seed, d, oi = m
        ret, oh = a.split()
        want = oout[oi]
        distinct.add(('stream', arch, enc, len(d), seed & 3))
        if ret != '1' or oh != want:
            mism.append(dict(kind='stream', arch=arch, enc=enc, start=st, seed=seed, data=d.hex(), impl=a, model='1 ' + want))
        if enc: enc_out[(arch, st, d)] = oh
    # implementation-only roundtrip: decode(encode(d)) = d through the streaming coder
    lines, meta = [], []
    for (arch, st, d), eh in enc_out.items():
        lines.append('stream %s 0 %d %d %s' % (arch, st, rng.randrange(1 << 30) * 4 + 3, eh))
        meta.append((arch, st, d))
    out = batch(drv, lines)
    for (arch, st, d), a in zip(meta, out):
        n_eval += 1
        ret, oh = a.split()
        if ret != '1' or oh != (d.hex() or '-'):
            mism.append(dict(kind='roundtrip', arch=arch, start=st, data=d.hex(), impl=a, model='1 ' + (d.hex() or '-')))
    # ---------- (3) public one-shot API
    lines, olines, meta = [], [], []
    for arch in ('x86', 'arm64', 'riscv'):
        ai = ARCHS.index(arch); al = ALIGN[arch]
        for k in range(NB // 2):
            d = gen_code(rng, arch, rng.randrange(0, 200))
            st = al * rng.randrange(1 << 20)
            for enc in (1, 0):
                lines.append('oneshot %s %d %d %s' % (arch, enc, st, d.hex() or '-'))
                olines.append('bcj %d %d %d 0 %d %s' % (ai, enc, st, (1 << 32) - 5, d.hex() or '-'))
                meta.append((arch, enc, st, d))
    out = batch(drv, lines); oout = batch(orc, olines)
    for m, a, b in zip(meta, out, oout):
        n_eval += 1
        b = ' '.join(b.split()[:2])
        if a != b:
            mism.append(dict(kind='oneshot', arch=m[0], enc=m[1], start=m[2], data=m[3].hex(), impl=a, model=b))
    # ---------- (4) delta: all distances
    lines, olines, meta = [], [], []
    for distn in range(1, 257):
        if not ctx.quick() or distn % 3 == 1 or distn > 250 or distn < 6:
            d = rb(rng, rng.randrange(0, 700))
            for enc in (1, 0):
                lines.append('delta %d %d %d %s' % (enc, distn, rng.randrange(1 << 30), d.hex() or '-'))
                olines.append('delta %d %d %s' % (enc, distn, d.hex() or '-'))
                meta.append((enc, distn, d))
    out = batch(drv, lines); oout = batch(orc, olines)
    for m, a, b in zip(meta, out, oout):
        n_eval += 1
        distinct.add(('delta', m[0], m[1]))
        if a != b:
            mism.append(dict(kind='delta', enc=m[0], dist=m[1], data=m[2].hex(), impl=a, model=b))
    # ---------- (5) the Coq reference equals the released liblzma (spec validation)
    spec_bad = None
    olines, want = [], []
    for arch, fid in PYID.items():
        ai = ARCHS.index(arch); al = ALIGN[arch]
        for k in range(6 if ctx.quick() else 60):
            d = gen_code(rng, arch, rng.randrange(20, 400))
            st = al * rng.randrange(1 << 12)
            try:
                c = lzma.compress(d, format=lzma.FORMAT_RAW, filters=[{'id': fid, 'start_offset': st}, {'id': lzma.FILTER_LZMA2, 'preset': 0}])
                e = lzma.decompress(c, format=lzma.FORMAT_RAW, filters=[{'id': lzma.FILTER_LZMA2, 'preset': 0}])
            except Exception as ex:
                continue
            olines.append('bcjwhole %d 1 %d %s' % (ai, st, d.hex() or '-')); want.append((arch, st, d, e))
    oout = batch(orc, olines)
    for (arch, st, d, e), o in zip(want, oout):
        n_eval += 1
        if o != (e.hex() or '-'):
            spec_bad = dict(kind='spec-vs-liblzma-5.4.1', arch=arch, start=st, data=d.hex(), released=e.hex(), model=o)
    ctx.cov['evaluations'] = n_eval
    ctx.cov['distinct_nontrivial'] = len(distinct)
    ctx.cov['rule'] = ('per arch: instruction-dense generated code + random bytes, sizes 0..%d incl. every size around the stride, now_pos/start offsets aligned incl. 2^32 wrap, x86 with varied prev_mask/prev_pos; '
                       'direct static *_code calls, streaming simple_coder under 4 slicing modes, one-shot API, delta distances; non-trivial = the filter changed at least one byte (code) / distinct (arch,dir,len,slicing)' % (200 if ctx.quick() else 1200))
    ctx.cov['input_distribution'] = dict(per_arch_code_calls=dist, code_calls_that_converted=conv_count)
    ctx.cov['samples'] = [lines[0][:200], meta[3][2].hex()[:80]]
    ctx.cov['correspondence_mismatches'] = len(mism)
    ctx.assumptions += ['proved in Coq for all data: delta, ARM, ARM-Thumb, ARM64, PowerPC, SPARC, IA-64 round trips (aligned start offsets) and x86 (one call from the fresh filter state, data < 4 GiB); NOT proved (explored + tied by correspondence): the RISC-V round trip, x86 with state carried across several calls',
                        'simple_coder buffering protocol: explored under random slicing, not proved']
    if spec_bad:
        ctx.violation('Coq BCJ reference disagrees with released liblzma (model wrong, not the code)', spec_bad, found_input=False)
    if mism:
        prio = {'roundtrip': 0, 'stream': 1, 'oneshot': 2, 'code': 3, 'delta': 1}
        m = min(mism, key=lambda x: (prio[x['kind']], len(x['data'])))
        ctx.violation('%s %s: implementation %s != reference %s' % (m['kind'], m.get('arch', 'delta'), m['impl'][:80], m['model'][:80]), m)
    if not res['ok'] and not mism:
        ctx.violation('proof obligation of Properties_C15 no longer checks (%s)' % res['failing'],
                      {'theorem_file': 'coq/Properties_C15.v', 'failing': res['failing'], 'log_tail': res['log'][-3000:]}, found_input=False)

def replay(ctx, path):
    import json
    print(json.dumps(json.load(open(path)), indent=1)[:3000]); return 0
