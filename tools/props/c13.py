"""C13: the Index and file-info APIs describe files exactly; random access is correct."""
import zlib, subprocess, tempfile, shutil
from common import *
from decode_common import *
import xzgen

TRUSTED = [
 'Coq 8.16.1 kernel; no native_compute', 'axioms: none',
 'IndexModel.v: the list-of-records model named by the property (every query is a fold over the lists); theorems in Properties_C13.v are about that model',
 'correspondence: random operation histories (append with sizes from the whole VLI range incl. limit overflows, stream flags/padding, cat, dup, prealloc 1-3 to force many tree groups, encode/decode) executed on the real API and on the extracted model; all queries, full iteration in every mode, locate at every boundary +-1, encoded bytes compared',
 'file_info: generated multi-Stream padded files read with chunk sizes {1,7,64,8192,random}; the returned index is compared with the model built from the generator\'s ground truth; each Block is decoded at the offsets the index gives; xz --list --robot totals compared',
 'the balanced-tree implementation (index_tree_append rotations, group binary search) is NOT modelled: tied only through observable results on histories with many groups',
]
VLI_MAX = (1 << 63) - 1

def gen_history(rng):
    toks = ['i0']
    if rng.random() < 0.3: toks.append('e0')      # an Index without Records: encoded, decoded, and the decoded one appended to
    if rng.random() < 0.5: toks.append('r0,%d' % rng.choice([1, 2, 3, 7]))
    live = {0}
    big = rng.random() < 0.15
    for _ in range(rng.randrange(3, 60)):
        k = rng.choice(sorted(live))
        r = rng.random()
        if r < 0.5:
            if big:
                unp = rng.choice([5, 1 << 40, 1 << 62, VLI_MAX - 3, (1 << 63) - 8, rng.randrange(5, 1 << 62)]); unc = rng.choice([0, 1 << 62, VLI_MAX, rng.randrange(0, 1 << 62)])
            else:
                unp = rng.choice([4, 5, 6, 7, 8, 127, 128, 16383, 16384, rng.randrange(5, 100000)]); unc = rng.choice([0, 0, 1, 127, 128, rng.randrange(0, 200000)])
            toks.append('a%d,%d,%d' % (k, unp, unc))
        elif r < 0.58: toks.append('f%d,%d' % (k, rng.choice([0, 1, 4, 10, 15, 16])))
        elif r < 0.66: toks.append('p%d,%d' % (k, rng.choice([0, 4, 8, 3, 400, VLI_MAX - 3, 1 << 62]) if rng.random() < 0.7 else 4 * rng.randrange(100)))
        elif r < 0.74:
            j = rng.choice([x for x in range(4) if x != k])
            if j not in live: toks.append('i%d' % j); live.add(j); toks.append('r%d,%d' % (j, rng.choice([1, 2, 3, 512])))
            else: toks.append('c%d,%d' % (k, j)); live.discard(j)
        elif r < 0.80:
            j = rng.choice([x for x in range(4) if x != k]); toks.append('d%d,%d' % (k, j)); live.add(j)
        elif r < 0.90: toks.append('q%d' % k)
        else: toks.append('t%d' % k)
    for k in sorted(live):
        toks += ['q%d' % k, 't%d' % k, 'e%d' % k]
        toks += ['l%d,%d' % (k, t) for t in [0, 1, 126, 127, 128, 129, 1000, rng.randrange(1 << 20), 1 << 62]]
    return ' '.join(toks)

def many_groups_history(rng):
    """511/512/513 records with prealloc 1..3: many groups, tree rotations; locate every boundary +-1"""
    n = rng.choice([511, 512, 513, 1025, 40])
    toks = ['i0', 'r0,%d' % rng.choice([1, 2, 3])]
    sizes = []
    for _ in range(n):
        unc = rng.choice([0, 1, 2, 5, 100]); sizes.append(unc); toks.append('a0,%d,%d' % (rng.randrange(5, 300), unc))
    toks += ['q0', 't0']
    off = 0
    for u in sizes[:200]:
        for t in (off - 1, off, off + 1): 
            if t >= 0: toks.append('l0,%d' % t)
        off += u
    toks += ['l0,%d' % (sum(sizes) - 1), 'l0,%d' % sum(sizes), 'e0']
    return ' '.join(toks)

def run(ctx):
    rng = ctx.rng
    res = coq_check('Properties_C13')
    ctx.proof(res, TRUSTED)
    orc = oracle()
    drv = compile_driver('san', 'drv_index.c', 'drv_index')
    fdrv = compile_driver('san', 'drv_fileinfo.c', 'drv_fileinfo')
    NH = 300 if ctx.quick() else 6000
    hists = [gen_history(rng) for _ in range(NH)] + [many_groups_history(rng) for _ in range(4 if ctx.quick() else 40)]
    hists += ['i0 a0,5,4611686018427387904 i1 c0,1 a0,5,9223372036854775807 q0 t0 i2 a2,5,4611686018427387904 a2,5,4611686018427387904 c0,2 q0 t0',   # totals over several Streams at the VLI limit
              'i0 a0,100,1000 f0,4 i1 a1,8,8 f1,1 c0,1 d0,2 q2 q0', 'i0 i1 c0,1 q0 t0 e0 d0,3 q3 t3', 'i0 a0,5,0 a0,5,0 a0,5,7 t0 l0,0 l0,6 l0,7']
    impl, fails = run_lines(drv, hists)
    for f in fails: ctx.violation('index driver crashed / sanitizer', {'line': (f[0] or '')[:5000], 'stderr': f[1], 'kind': 'sanitizer'})
    spec, sf = run_lines(orc, ['indexhist ' + h for h in hists])
    if sf: raise BuildError('oracle failed %r' % (sf[0],))
    viol = []; n_eval = 0; distinct = set(); opstats = {}
    for h, a, b in zip(hists, impl, spec):
        if a is None: continue
        ta, tb, th = a.split(), b.split(), h.split()
        for i, (x, y, t) in enumerate(zip(ta, tb, th)):
            n_eval += 1; opstats[t[0]] = opstats.get(t[0], 0) + 1
            distinct.add((t[0], x[:6]))
            if x != y:
                viol.append(dict(why='operation %s: API says %s, the list-of-records model says %s' % (t, x[:200], y[:200]), history=' '.join(th[:i + 1]), index=i)); break
    # ---------------- file_info
    files = []
    for _ in range(25 if ctx.quick() else 400):
        nstreams = rng.choice([1, 1, 2, 3, 4])
        out = bytearray(); hist = []; exp = bytearray(); slot = 0
        for si in range(nstreams):
            cid = rng.choice([0, 1, 4, 10])
            spec_ = []
            k = 0 if si == 0 else 1
            hist.append('i%d' % k)
            for _b in range(rng.choice([0, 1, 1, 2, 5])):
                data = xzgen.gen_data(rng, rng.choice([0, 1, 300, rng.randrange(2000)]))
                chain = xzgen.gen_chain(rng, rng.choice([1, 1, 2]))
                blk, unp, unc = xzgen.block(data, chain, cid, rng)
                spec_.append((data, chain, {})); exp += data
                hist.append('a%d,%d,%d' % (k, unp, unc))
                out_blk = blk
                spec_[-1] = blk
            st = xzgen.stream_header(cid) + b''.join(spec_)
            recs = [tuple(map(int, t.split(',')[1:])) for t in hist if t.startswith('a%d,' % k)] if False else None
            # rebuild index from this stream's appends
            rr = []
            for t in reversed(hist):
                if t.startswith('i%d' % k): break
                if t.startswith('a%d,' % k): rr.append(tuple(map(int, t[1:].split(',')[1:])))
            rr.reverse()
            idx = xzgen.index(rr)
            st += idx + xzgen.stream_footer(cid, len(idx))
            pad = 4 * rng.choice([0, 0, 1, 2, 50, 2100]) if (si + 1 < nstreams or rng.random() < 0.3) else 0
            hist.append('f%d,%d' % (k, cid)); hist.append('p%d,%d' % (k, pad))
            if si > 0: hist.append('c0,1')
            out += st + bytes(pad)
        files.append((bytes(out), ' '.join(hist) + ' q0 t0', bytes(exp)))
    flines, fmeta = [], []
    for f, h, e in files:
        for chunk in (1, 7, 64, 8192, 0):
            if chunk == 1 and len(f) > 6000: continue
            flines.append('F %d %d %s' % (chunk, rng.randrange(1 << 20), f.hex())); fmeta.append((f, h, e, chunk))
    fouts, ff = run_lines(fdrv, flines)
    for x in ff: ctx.violation('file_info driver crashed / sanitizer', {'line': (x[0] or '')[:5000], 'stderr': x[1], 'kind': 'sanitizer'})
    mspec, _ = run_lines(orc, ['indexhist ' + h for f, h, e in files])
    mby = {id(f): m for (f, h, e), m in zip(files, mspec)}
    for (f, h, e, chunk), o in zip(fmeta, fouts):
        if o is None: continue
        n_eval += 1
        t = o.split()
        m = [x for x in mby[id(f)].split()][-2:]
        why = None
        if t[0] != '1': why = 'file_info decoder returned %s on a valid file' % t[0]
        elif t[1] != '1': why = 'seek requested beyond the end of the file'
        else:
            q = t[2][2:]; tb = t[3][2:]; d = t[5][2:]
            mq = ','.join(m[0].split(',')[:8]); mt = m[1].split('|')[4] or '-'
            if q != mq: why = 'index totals %s differ from the concatenation of the real indexes %s' % (q, mq)
            elif tb != mt: why = 'Block list differs from the real indexes'
            else:
                off = 0
                for blk, dd in zip(tb.split(';') if tb != '-' else [], d.split(';') if d != '-' else []):
                    bi = list(map(int, blk.split(','))); br, op, crc = dd.split(',')
                    want = e[bi[4]:bi[4] + bi[6]]
                    if br != '0' or int(op) != len(want) or int(crc, 16) != zlib.crc32(want):
                        why = 'decoding the Block at the offset given by the index does not yield that byte range (ret %s)' % br; break
        distinct.add(('fileinfo', chunk, len(f) // 1000))
        if why: viol.append(dict(why=why, chunk=chunk, file=f.hex(), history=h))
    # ---------------- xz --list
    bdir = build('plain')
    td = tempfile.mkdtemp(dir=WORK)
    try:
        for n_, (f, h, e) in enumerate(files[:10 if ctx.quick() else 80]):
            p = os.path.join(td, 'f%d.xz' % n_); open(p, 'wb').write(f)
            r = subprocess.run([os.path.join(bdir, 'xz'), '--robot', '--list', '-v', p], capture_output=True, text=True)
            n_eval += 1
            m = mby[id(f)].split()[-2].split(',')
            tot = [l for l in r.stdout.split('\n') if l.startswith('file\t')]
            if r.returncode != 0 or not tot: viol.append(dict(why='xz --list failed: %s' % r.stderr[:200], file=f.hex(), history=h)); continue
            c = tot[0].split('\t')   # file, streams, blocks, compressed, uncompressed, ratio, checks, padding
            if [c[1], c[2], c[3], c[4]] != [m[1], m[0], m[5], m[6]]:
                viol.append(dict(why='xz --list totals %s differ from the index model (streams %s blocks %s file %s uncompressed %s)' % (c[1:5], m[1], m[0], m[5], m[6]), file=f.hex(), history=h))
    finally:
        shutil.rmtree(td, ignore_errors=True)
    ctx.cov['evaluations'] = n_eval
    ctx.cov['distinct_nontrivial'] = len(distinct)
    ctx.cov['rule'] = 'operation histories on up to 4 indexes (init/prealloc/append/stream_flags/stream_padding/cat/dup/queries/iteration in 4 modes/locate/encode+decode), sizes from the whole VLI range; many-group histories (511/512/513/1025 records, prealloc 1-3) with locate at every boundary +-1; file_info on generated multi-Stream padded files x 5 read-chunk policies; xz --list; distinct = (operation, result prefix)'
    ctx.cov['input_distribution'] = dict(histories=len(hists), ops=opstats, fileinfo_runs=len(flines))
    ctx.cov['samples'] = [hists[0][:300], files[0][1][:200]]
    if viol:
        v = min(viol, key=lambda x: len(x.get('history', '')) + len(x.get('file', '')))
        ctx.violation('C13 ' + v['why'], v)
    if not res['ok'] and not viol:
        ctx.violation('proof obligation of Properties_C13 no longer checks (%s)' % res['failing'],
                      {'theorem_file': 'coq/Properties_C13.v', 'failing': res['failing'], 'log_tail': res['log'][-3000:]}, found_input=False)

def replay(ctx, path):
    import json
    print(json.dumps(json.load(open(path)), indent=1)[:3000]); return 0
