"""C12: flush actions make all prior input decodable; mid-stream option changes are safe."""
import struct
from common import *
from decode_common import *
import xzgen

TRUSTED = [
 'Coq 8.16.1 kernel; no native_compute', 'axioms: none',
 'theorems: lzma_code level - a completed SYNC_FLUSH/FULL_FLUSH/FULL_BARRIER returns the handle to normal running, a completed FINISH is final, and while a flush is in progress the action and pending input cannot change (model tied to common.c by the exhaustive table of C11); specification level - the LZMA2 decoder fed a sequence of complete chunks without end marker delivers exactly their data and asks for more input',
 'NOT proved: that the encoders really emit complete chunks/Blocks at a flush (match finder pending bytes, LZMA2 chunker, Block/Stream encoder). Explored: random action histories on easy/stream/raw/MT encoders with random output slicing; at every completed flush the output so far is decoded by a fresh decoder and compared with the input so far; Block boundaries read back from the Index; filter updates at legal and illegal points',
]

def parse_index(f):
    """records (unpadded, uncompressed) of a single-Stream .xz file"""
    bs = (int.from_bytes(f[-8:-4], 'little') + 1) * 4
    idx = f[-12 - bs:-12]
    pos = 1
    def vli():
        nonlocal pos
        v = 0; sh = 0
        while True:
            b = idx[pos]; pos += 1; v |= (b & 0x7F) << sh; sh += 7
            if b < 0x80: return v
    n = vli(); return [(vli(), vli()) for _ in range(n)]

UPD = ['Ulzma2:dict=4KiB,lc=%d,lp=%d,pb=%d', 'Udelta:dist=%d+lzma2:dict=8KiB', 'Ux86+lzma2:dict=4KiB', 'Ulzma2:dict=64KiB,mode=fast']
# chains that pass the generic validation but are refused when the filters are initialised (misaligned start offset): the
# update must fail and leave the encoder usable with the chain it had
BAD_UPD = ['Uarm:start=2+lzma2:dict=4KiB', 'Ux86+arm64:start=6+lzma2:dict=4KiB', 'Upowerpc:start=1+lzma2:dict=8KiB', 'Udelta:dist=2+sparc:start=3+lzma2:dict=4KiB']

def gen_script(rng, n, kind):
    steps = []; left = n
    if kind in (0, 4) and rng.random() < 0.25:      # updates as the very first calls, refused and accepted ones back to back
        for _ in range(rng.randrange(1, 4)):
            steps.append(rng.choice(BAD_UPD + ['Ux86+lzma2:dict=4KiB', 'Ulzma2:dict=64KiB,mode=fast']))
    for _ in range(rng.randrange(1, 9)):
        a = rng.choice({0: 'RRRSSFFB', 4: 'RRRSSFFB', 1: 'RRRFFB', 3: 'RRRSS'}[kind])
        k = rng.choice([0, 0, 1, 5, 100, rng.randrange(0, max(1, left + 1))]) if left else 0
        k = min(k, left); left -= k
        steps.append('%s%d' % (a, k))
        if rng.random() < 0.25:
            if kind in (0, 4) and rng.random() < 0.5: steps.append('T%d' % rng.choice([0, 1, 2, 3, 5, 8, 11, 13, 20]))     # leave the encoder somewhere inside a header / a few bytes into a Block, then ask for the update
            lc = rng.randrange(5); lp = rng.randrange(5 - lc); pb = rng.randrange(5)
            steps.append(rng.choice(['Ulzma2:dict=4KiB,lc=%d,lp=%d,pb=%d' % (lc, lp, pb), 'Udelta:dist=%d+lzma2:dict=8KiB' % rng.randrange(1, 257), 'Ux86+lzma2:dict=4KiB', 'Ulzma2:dict=64KiB,mode=fast']))
            # (the threaded encoder validates a new chain only "mostly" and reports the rest from lzma_code later: not used there)
            if kind in (0, 4) and rng.random() < 0.4: steps.append(rng.choice(BAD_UPD))
    return ';'.join(steps)

def run(ctx):
    rng = ctx.rng
    res = coq_check('Properties_C12')
    ctx.proof(res, TRUSTED)
    drv = compile_driver('hook', 'drv_flush.c', 'drv_flush')
    dec = compile_driver('hook', 'drv_dec.c', 'drv_dec')
    NH = 250 if ctx.quick() else 6000
    lines, meta = [], []
    chains = ['lzma2:dict=4KiB', 'lzma2:dict=4KiB,mf=bt4,mode=normal,nice=32', 'lzma2:dict=8KiB,mf=bt2,nice=273', 'lzma2:dict=4KiB,mf=hc3,mode=fast,nice=8',
              'lzma2:dict=64KiB,mf=bt3,mode=normal,nice=64', 'delta:dist=3+lzma2:dict=4KiB,mf=bt4', 'x86+lzma2:dict=4KiB', 'arm64+delta:dist=1+lzma2:dict=4KiB', 'lzma1:dict=4KiB']
    for i in range(NH):
        n = rng.choice([0, 1, 50, 700, rng.randrange(0, 6000)])
        # repetitive data so that the match finders have pending matches at flush time
        d = (xzgen.gen_data(rng, max(1, n // 8)) * 9)[:n] if rng.random() < 0.6 else xzgen.gen_data(rng, n)
        kind = rng.choice([0, 4, 4, 4, 3, 3, 1])
        fs = '-'; cfg = rng.choice([0, 1, 4, 6]) | (rng.choice([0, 1, 4, 10]) << 8)
        if kind in (3, 4): fs = rng.choice(chains if kind == 3 else chains[:-1])
        if kind == 1: cfg |= (rng.randrange(4) << 12) | (rng.randrange(2) << 16) | (rng.choice([0, 1, 2]) << 20)
        sc = gen_script(rng, n, kind)
        lines.append('flush %d %d %d %s %s %s' % (kind, cfg, rng.randrange(1 << 20), fs, sc, d.hex() or '-')); meta.append((kind, fs, sc, d))
    # several Blocks through ONE filter chain instance with a branch/call/jump or delta filter in front (full flush / barrier,
    # threaded workers reused for later Blocks): whatever the filter kept from the end of one Block must not reach the next
    bchains = ['x86+lzma2:dict=4KiB', 'x86+delta:dist=2+lzma2:dict=4KiB,mf=hc3', 'arm64+lzma2:dict=4KiB', 'armthumb+lzma2:dict=4KiB', 'arm+lzma2:dict=8KiB', 'powerpc+lzma2:dict=4KiB',
               'sparc+lzma2:dict=4KiB', 'ia64+lzma2:dict=4KiB', 'riscv+lzma2:dict=4KiB', 'delta:dist=7+lzma2:dict=4KiB', 'x86+arm64+lzma2:dict=4KiB']
    for i in range(300 if ctx.quick() else 6000):
        n = rng.choice([30, 200, 700, rng.randrange(20, 5000)])
        d = xzgen.gen_data(rng, n) if rng.random() < 0.5 else bytes(rng.getrandbits(8) for _ in range(n))
        kind = rng.choice([4, 4, 4, 1]); fs = rng.choice(bchains)
        cfg = rng.choice([0, 1, 4, 10]) << 8
        if kind == 1: cfg |= (rng.randrange(2) << 12) | (rng.randrange(2) << 16) | (1 << 20)
        steps = []; left = n
        for j in range(rng.randrange(1, 6)):
            k = rng.randrange(0, left + 1) if rng.random() < 0.7 else min(left, rng.randrange(0, 9)); left -= k
            steps.append('%s%d' % (rng.choice('FFFB'), k))
        steps.append('R%d' % left)
        sc = ';'.join(steps)
        lines.append('flush %d %d %d %s %s %s' % (kind, cfg, rng.randrange(1 << 20), fs, sc, d.hex() or '-')); meta.append((kind, fs, sc, d))
    # chain updates between Blocks that shrink, grow or reorder the chain around a filter that stays (a coder that is reused for
    # the new chain must drop whatever followed it in the old one); instruction-dense data, so that a filter left over from
    # the old chain would change the bytes
    from props.c15 import gen_code
    variants = ['x86+delta:dist=3+lzma2:dict=4KiB', 'delta:dist=3+lzma2:dict=4KiB', 'lzma2:dict=4KiB', 'delta:dist=3+x86+lzma2:dict=4KiB', 'x86+lzma2:dict=4KiB',
                'arm64+delta:dist=3+lzma2:dict=4KiB', 'delta:dist=3+delta:dist=5+lzma2:dict=4KiB', 'x86+arm64+delta:dist=3+lzma2:dict=4KiB']
    for i in range(40 if ctx.quick() else 800):
        a_, b_, c_ = rng.sample(variants, 3)
        if i < len(variants) - 1: a_, b_ = variants[0], variants[i + 1]
        n = rng.choice([600, 3000]); d = gen_code(rng, rng.choice(['x86', 'arm64']), n)
        k1 = rng.randrange(1, n // 2); k2 = rng.randrange(1, n // 3)
        kind = rng.choice([4, 4, 1]); cfg = rng.choice([0, 1, 4, 10]) << 8
        if kind == 1: cfg |= (rng.randrange(2) << 12) | (rng.randrange(2) << 16) | (1 << 20)
        sc = '%s%d;U%s;%s%d;U%s;R%d' % (rng.choice('FB'), k1, b_, rng.choice('FB'), k2, c_, n - k1 - k2)
        lines.append('flush %d %d %d %s %s %s' % (kind, cfg, rng.randrange(1 << 20), a_, sc, d.hex())); meta.append((kind, a_, sc, d))
    # highly repetitive data (long matches crossing the flush points) through the binary-tree and hash-chain match finders with
    # many sync flushes: what the match finder inserted or skipped near a flush point must not corrupt later matches
    for i in range(40 if ctx.quick() else 800):
        n = rng.choice([2000, 6000, 14000]); d = xzgen.gen_runs(rng, n)
        if rng.random() < 0.5: d = (d[:rng.randrange(50, 400)] * (n // 50))[:n]
        mf = rng.choice(['bt4', 'bt4', 'bt3', 'bt2', 'hc4']); fs = 'lzma2:dict=%s,mf=%s,mode=%s,nice=%d' % (rng.choice(['4KiB', '64KiB']), mf, rng.choice(['normal', 'fast']), rng.choice([8, 32, 64, 273]))
        steps = []; left = n
        while left > 0 and len(steps) < 40:
            k = min(left, rng.choice([1, 3, 17, 100, 273, 500, rng.randrange(1, 1500)])); left -= k; steps.append('%s%d' % (rng.choice('SSSR'), k))
        steps.append('R%d' % left)
        kind = rng.choice([3, 3, 4])
        lines.append('flush %d %d %d %s %s %s' % (kind, rng.choice([0, 1]) << 8, rng.randrange(1 << 20), fs, ';'.join(steps), d.hex())); meta.append((kind, fs, ';'.join(steps), d))
    # corpus: back-to-back sync flushes with little new input on binary-tree match finders, flush as first call, flush without input
    for mf in ('bt2', 'bt3', 'bt4', 'hc4'):
        d = (b'abcdefgh12345678' * 40)[:500] + xzgen.gen_data(rng, 100)
        lines.append('flush 3 0 %d lzma2:dict=4KiB,mf=%s,mode=normal,nice=64 S3;S2;S5;S1;S7;S3;S2;S40;S1;S1;S9 %s' % (rng.randrange(99999), mf, d.hex())); meta.append((3, 'lzma2:dict=4KiB,mf=%s,mode=normal,nice=64' % mf, 'corpus', d))
        lines.append('flush 0 %d %d - S0;F0;S10;S0;F0;B0;S3;S3 %s' % (6 | (1 << 8), rng.randrange(99999), d.hex())); meta.append((0, '-', 'corpus', d))
    outs, fails = run_lines(drv, lines)
    viol = []
    for f in fails: viol.append(dict(why='encoder crashed / hung during a flush history', line=(f[0] or '')[:20000], stderr=f[1][-2000:]))
    dlines, dmeta = [], []
    n_eval = 0; stats = {}; distinct = set()
    for (kind, fs, sc, d), l, o in zip(meta, lines, outs):
        if o is None: continue
        parts = o.split('|')
        if len(parts) != 3: viol.append(dict(why='driver output malformed: ' + o[:100], line=l[:2000])); continue
        init, steps, hx = parts[0].strip(), parts[1].split(), parts[2].strip()
        outb = bytes.fromhex(hx) if hx != '-' else b''
        if init != '0': continue
        acts = [s for s in steps if s.startswith('A:')]
        fatal = False; bounds = []
        ustrs = [x[1:].replace('+', ' ') for x in sc.split(';') if x.startswith('U')]
        cur = fs; ui = 0
        for s in steps:
            if s.startswith('T:'): continue
            if s.startswith('U:'):
                if s == 'U:0' and ui < len(ustrs): cur = ustrs[ui]
                ui += 1; continue
            _, a, itot, otot, ret = s.split(':'); itot = int(itot); otot = int(otot); ret = int(ret)
            n_eval += 1; stats[a + str(ret)] = stats.get(a + str(ret), 0) + 1
            distinct.add((kind, a, ret, fs.split(':')[0]))
            if a in 'SF' and ret == 1:
                pre = outb[:otot]
                if kind in (0, 1, 4): dlines.append('dec 0 0 0 0 0 %s' % (pre.hex() or '-'))
                else: dlines.append('decs %s 0 0 %s' % (fs, pre.hex() or '-'))
                dmeta.append((l, a, d[:itot], kind, len(pre)))
            if a in 'FB' and ret == 1: bounds.append(itot)
            if a == 'S' and ret == 8:
                if not any(x in cur for x in ('x86', 'arm64', 'lzma1')) and kind != 1: viol.append(dict(why='SYNC_FLUSH refused with OPTIONS_ERROR by a chain that can honour it (%s)' % cur, line=l[:2000]))
                fatal = True
            elif ret not in (0, 1): 
                if not (kind == 1 and a == 'S' and ret == 11): viol.append(dict(why='action %s failed with %d' % (a, ret), line=l[:2000]))
                fatal = True
        if fatal or not acts: continue
        if acts[-1].split(':')[1] != 'E' or acts[-1].split(':')[4] != '1':
            viol.append(dict(why='history did not end with STREAM_END: %s' % acts[-1], line=l[:2000])); continue
        # whole stream must decode to the whole input
        if kind in (0, 1, 4): dlines.append('dec 0 0 3 7 0 %s' % (outb.hex() or '-'))
        else: dlines.append('decs %s 3 7 %s' % (fs, outb.hex() or '-'))
        dmeta.append((l, 'E', d, kind, len(outb)))
        if kind in (0, 1, 4) and outb:
            try:
                recs = parse_index(outb)
                cum = set(); t = 0
                for u, v in recs:
                    t += v; cum.add(t)
                    if v == 0: viol.append(dict(why='an empty Block was created', line=l[:2000]))
                for b in bounds:
                    if b != 0 and b not in cum: viol.append(dict(why='full flush/barrier at input offset %d did not end a Block there (Block ends at %s)' % (b, sorted(cum)[:8]), line=l[:2000]))
            except Exception as ex:
                viol.append(dict(why='final stream has no parsable Index: %s' % ex, line=l[:2000]))
    douts, dfails = run_lines(dec, dlines)
    for (l, a, want, kind, plen), o in zip(dmeta, douts):
        if o is None: continue
        n_eval += 1
        t = o.split(); got = bytes.fromhex(t[4]) if t[4] != '-' else b''
        if a == 'E':
            if t[0] != '1' or got != want: viol.append(dict(why='whole stream after flushes/updates decodes to %d bytes (status %s), input was %d bytes' % (len(got), t[0], len(want)), line=l[:2000]))
        else:
            if got != want or t[0] not in ('10', '0', '1'):
                viol.append(dict(why='after a completed %s the output so far (%d bytes) decodes to %d bytes, status %s; the %d input bytes supplied so far must come out' % ({'S': 'SYNC_FLUSH', 'F': 'FULL_FLUSH'}[a], plen, len(got), t[0], len(want)), line=l[:2000]))
            elif a == 'F' and kind in (0, 1, 4) and int(t[1]) != plen:
                viol.append(dict(why='after FULL_FLUSH the output so far does not end at a Block boundary (decoder consumed %s of %d)' % (t[1], plen), line=l[:2000]))
    ctx.cov['evaluations'] = n_eval
    ctx.cov['distinct_nontrivial'] = len(distinct)
    ctx.cov['rule'] = 'random action histories (RUN/SYNC_FLUSH/FULL_FLUSH/FULL_BARRIER/FINISH at arbitrary offsets, flush without new input, back-to-back flushes, flush first, lzma_filters_update at legal and illegal points) x encoders (easy, stream, raw, MT) x chains (LZMA2 with 5 match finders, delta, BCJ, LZMA1) x random slicing; distinct = (encoder, action, return, chain head)'
    ctx.cov['input_distribution'] = dict(histories=len(lines), step_results=stats, prefix_decodes=len(dlines))
    ctx.cov['samples'] = [lines[0][:200], lines[-1][:200]]
    if viol:
        v = min(viol, key=lambda x: len(x['line']))
        ctx.violation('C12 ' + v['why'], v)
    if not res['ok'] and not viol:
        ctx.violation('proof obligation of Properties_C12 no longer checks (%s)' % res['failing'],
                      {'theorem_file': 'coq/Properties_C12.v', 'failing': res['failing'], 'log_tail': res['log'][-3000:]}, found_input=False)

def replay(ctx, path):
    import json
    print(json.dumps(json.load(open(path)), indent=1)[:3000]); return 0
