"""C05: corruption and truncation are never reported as success with different data."""
import struct, zlib, lzma
from common import *
from decode_common import *
import xzgen
from props.c16 import lz_member

TRUSTED = [
 'Coq 8.16.1 kernel; no native_compute', 'axioms: none',
 'theorems: CRC32/CRC64 detect every error burst of at most 32/64 bits in equal-length messages (GF(2) linearity + injectivity of the register step); header CRCs in the specification are these CRCs',
 'fault enumeration on the real decoders: EVERY single-bit flip and EVERY truncation length of small generated files (.xz with each supported check, multi-Block, multi-Stream + padding; .lz v0/v1; .lzma), plus random overwrite/insert/delete; predicates evaluated on the implementation alone and verdicts compared with the Coq specification',
 'no theorem can exclude check collisions for arbitrary damage (stated in the property as "provided the file carries an integrity check"): only bursts are excluded by proof',
]

def xz_with_layout(rng, cid, nblocks, nstreams):
    """(bytes, expected, spans) spans: list of (start, end, kind) for non-payload fields"""
    out = bytearray(); exp = bytearray(); spans = []
    for si in range(nstreams):
        base = len(out)
        out += xzgen.stream_header(cid); spans.append((base, base + 12, 'stream-header'))
        recs = []
        for _ in range(nblocks):
            data = xzgen.gen_data(rng, rng.randrange(1, 60))
            chain = xzgen.gen_chain(rng, rng.choice([1, 1, 2]))
            chain = [f for f in chain if f['id'] in ('lzma2', 'delta')]
            payload = xzgen.lzma2_payload(data, chain)
            b, unp, unc = xzgen.block(data, chain, cid, rng, payload=payload)
            st = len(out); out += b
            hsz = (b[0] + 1) * 4
            spans.append((st, st + hsz, 'block-header'))
            p0 = st + hsz + len(payload); p1 = p0 + (4 - len(payload) % 4) % 4
            if p1 > p0: spans.append((p0, p1, 'block-padding'))
            if xzgen.CHECK_SIZE[cid]: spans.append((p1, p1 + xzgen.CHECK_SIZE[cid], 'check'))
            recs.append((unp, unc)); exp += data
        idx = xzgen.index(recs); st = len(out); out += idx; spans.append((st, st + len(idx), 'index'))
        st = len(out); out += xzgen.stream_footer(cid, len(idx)); spans.append((st, st + 12, 'stream-footer'))
        if si + 1 < nstreams:
            pad = 4 * rng.choice([0, 1, 2]); st = len(out); out += bytes(pad)
            if pad: spans.append((st, st + pad, 'stream-padding'))
    return bytes(out), bytes(exp), spans

def run(ctx):
    rng = ctx.rng
    res = coq_check('Properties_C05')
    ctx.proof(res, TRUSTED)
    orc = oracle()
    drv = compile_driver('hook', 'drv_dec.c', 'drv_dec')
    files = []   # (blob, expected, spans, fmt, has_check)
    nf = 1 if ctx.quick() else 12
    for cid in (1, 4, 10):
        for _ in range(nf):
            f, e, sp = xz_with_layout(rng, cid, rng.choice([1, 2]), rng.choice([1, 1, 2]))
            files.append((f, e, sp, 'xz', True))
    f, e, sp = xz_with_layout(rng, 0, 1, 1); files.append((f, e, sp, 'xz', False))
    # Stream Padding whose length is not a multiple of four, under many slicings, single- and multi-threaded
    padfaults = []
    for _ in range(3 if ctx.quick() else 20):
        f, e, sp = xz_with_layout(rng, rng.choice([1, 4]), 1, 2)
        foot = [e_ for s_, e_, kk in sp if kk == 'stream-footer'][0]
        nxt = [s_ for s_, e_, kk in sp if kk == 'stream-header'][1]
        for k in (1, 2, 3, 5):
            padfaults.append((f[:foot] + bytes(k) + f[nxt:], foot, foot + k, 'between'))
            padfaults.append((f + bytes(k), len(f), len(f) + k, 'trailing'))
    pl, pm = [], []
    for blob, a, b, where in padfaults:
        for k in (0, 1):
            runs = [(0, 0), (1, 0), (2, 0)] + [(3, rng.randrange(1 << 20)) for _ in range(4)] + [(4, o) for o in range(max(1, a - 2), min(len(blob), b + 3))]
            for m, sd in runs:
                pl.append('dec %d %d %d %d 0 %s' % (k, LZMA_CONCATENATED, m, sd, blob.hex())); pm.append((blob, k, m, sd, where))
    pouts, pf = run_lines(drv, pl)
    pad_viol = []
    for (blob, k, m, sd, where), o in zip(pm, pouts):
        if o is None: continue
        if o.split()[0] == '1':
            pad_viol.append(dict(fmt='xz', decoder=k, flags=LZMA_CONCATENATED, fault='stream padding not a multiple of 4 (%s)' % where, pos=sd, mode=m,
                                 why='Stream Padding of invalid length accepted (slicing mode %d, seed/split %d)' % (m, sd), file=blob.hex(), ret=1))
    for _ in range(2 if ctx.quick() else 12):
        datas = [xzgen.gen_data(rng, rng.randrange(1, 40)) for _ in range(rng.choice([1, 2]))]
        files.append((b''.join(lz_member(rng, d, version=rng.choice([0, 1])) for d in datas), b''.join(datas), [], 'lz', True))
    for _ in range(2 if ctx.quick() else 10):
        d = xzgen.gen_data(rng, rng.randrange(1, 60))
        raw = lzma.compress(d, format=lzma.FORMAT_ALONE, filters=[{'id': lzma.FILTER_LZMA1, 'dict_size': 4096}])
        files.append((raw, d, [], 'lzma', False))
        files.append((raw[:5] + struct.pack('<Q', len(d)) + raw[13:], d, [], 'lzma', False))
    DEC = {'xz': [(0, LZMA_CONCATENATED, 'xzdec 1'), (1, LZMA_CONCATENATED, None), (2, LZMA_CONCATENATED, 'autodec 1'), (6, LZMA_CONCATENATED, None)],
           'lz': [(4, LZMA_CONCATENATED, 'lzipdec 1'), (2, 0, 'autodec 0')],
           'lzma': [(3, 0, 'alonedec 0'), (2, 0, 'autodec 0')]}
    viol = list(pad_viol); n_eval = len(pl); kinds = {'padlen': len(pl)}; distinct = set((k, m, w) for (_b, k, m, _s, w) in pm)
    for fi, (f, exp, spans, fmt, has_check) in enumerate(files):
        faults = []   # (blob, kind, pos)
        for i in range(len(f)):
            for bit in range(8):
                b = bytearray(f); b[i] ^= 1 << bit; faults.append((bytes(b), 'flip', i))
        for i in range(len(f)):
            faults.append((f[:i], 'trunc', i))
        for _ in range(60 if ctx.quick() else 300):
            m, how = xzgen.mutate(rng, f)
            if m != f and f.startswith(m): faults.append((m, 'trunc', len(m)))
            elif m != f: faults.append((m, 'rand:' + how.split('@')[0], -1))
        blobs = [x[0] for x in faults]
        for (k, fl, oc) in DEC[fmt]:
            if k == 6: impl, fails = impl_dec(drv, 6, fl, 0, 0, blobs)
            else: impl, fails = impl_dec(drv, k, fl, 0 if k != 1 else 3, lambda i: i, blobs)
            for ff in fails:
                ctx.violation('decoder crashed on damaged file', {'line': (ff[0] or '')[:20000], 'stderr': ff[1], 'kind': 'sanitizer'})
            # piecewise feeding: the same damaged files one input byte per call (a call ends inside every field, also inside
            # Block Padding and Stream Padding); the verdict may not depend on where the calls end
            if k in (0, 2, 3, 4):
                i1, f1 = impl_dec(drv, k, fl, 1, 0, blobs)
                for ff in f1:
                    ctx.violation('decoder crashed on damaged file (byte-wise)', {'line': (ff[0] or '')[:20000], 'stderr': ff[1], 'kind': 'sanitizer'})
                for j, r1 in enumerate(i1):
                    if r1 is None or impl[j] is None: continue
                    n_eval += 1
                    if (r1[0] == 1) != (impl[j][0] == 1) or (r1[0] == 1 and r1[4] != impl[j][4]):
                        viol.append(dict(fmt=fmt, decoder=k, flags=fl, fault=faults[j][1] + ', one input byte per call', pos=faults[j][2], file=blobs[j].hex(), original=f.hex(), ret=r1[0],
                                         why='fed one byte per call the decoder answers %d (%d bytes out), in one call %d (%d bytes out): damage is accepted or rejected depending on where the calls end' % (r1[0], len(r1[4]), impl[j][0], len(impl[j][4]))))
            spec = oracle_dec(orc, oc, blobs) if oc else None
            # the same damaged files on a decoder that was used before: the handle first decodes the undamaged file (all or part
            # of it), is re-initialised without lzma_end, and then gets the damaged file; nothing may be carried over
            if k <= 4:
                sel = [j for j, (b_, kd, ps) in enumerate(faults) if fmt != 'xz' or ps < 24 or ps >= len(f) - 24 or j % 7 == fi % 7]
                himpl, hf = impl_dec(drv, k, fl, 16, lambda i: 7 * i + fi, [blobs[j] for j in sel], prior=f)
                for ff in hf:
                    ctx.violation('decoder crashed on damaged file (reused handle)', {'line': (ff[0] or '')[:20000], 'stderr': ff[1], 'kind': 'sanitizer'})
                for j, hr in zip(sel, himpl):
                    if hr is None or impl[j] is None: continue
                    n_eval += 1
                    if (hr[0], hr[1] if k != 1 else 0, hr[4]) != (impl[j][0], impl[j][1] if k != 1 else 0, impl[j][4]):   # threaded: input position at an error depends on timing
                        viol.append(dict(fmt=fmt, decoder=k, flags=fl, fault=faults[j][1] + ' on a re-initialised handle', pos=faults[j][2], file=blobs[j].hex(), original=f.hex(), ret=hr[0],
                                         why='a decoder re-initialised after decoding the undamaged file answers %d (%d bytes in, %d out) where a fresh decoder answers %d (%d in, %d out)' % (hr[0], hr[1], len(hr[4]), impl[j][0], impl[j][1], len(impl[j][4]))))
            for j, ((blob, kind, pos), r) in enumerate(zip(faults, impl)):
                if r is None: continue
                n_eval += 1
                ret, tin, tout, calls, o = r
                kinds[kind.split(':')[0]] = kinds.get(kind.split(':')[0], 0) + 1
                distinct.add((fmt, k, kind, ret, pos // 8))
                why = None
                lz_trailing = (fmt == 'lz' and exp.startswith(o) and len(o) > 0 and spec is not None and spec[j][0] == 'ok' and spec[j][2] == o)
                if ret == 1 and has_check and o != exp and kind != 'trunc' and not lz_trailing:
                    why = 'reported success but delivered %d bytes that differ from the original %d bytes' % (len(o), len(exp))
                elif ret == 1 and kind == 'flip' and any(s <= pos < e_ for s, e_, _k in spans):
                    fld = [kk for s, e_, kk in spans if s <= pos < e_][0]
                    why = 'bit flip in %s (offset %d) not reported as an error' % (fld, pos)
                elif ret == 1 and kind == 'trunc':
                    # allowed only if the prefix itself is a complete file (ends at a Stream/member boundary, + 4k zero padding)
                    sp_ok = spec[j][0] == 'ok' if spec else None
                    if sp_ok is False or (sp_ok is None and not (any(pos == e_ for s, e_, kk in spans if kk == 'stream-footer') or any(s <= pos <= e_ and (pos - s) % 4 == 0 for s, e_, kk in spans if kk == 'stream-padding'))):
                        why = 'file cut at %d of %d reported as complete' % (pos, len(f))
                    elif not exp.startswith(o):
                        why = 'file cut at a Stream/member boundary decoded to something that is not a prefix of the original'
                if not why and spec is not None and spec[j][0] != 'fuel' and not same_verdict(spec[j][0], ret):
                    why = 'verdict %d differs from the specification (%s)' % (ret, spec[j][0])
                if why:
                    viol.append(dict(fmt=fmt, decoder=k, flags=fl, fault=kind, pos=pos, why=why, file=blob.hex(), original=f.hex(), ret=ret))
    # ---- .lz members whose payload was replaced by another well-formed payload of the same uncompressed length (the stored
    # CRC32 is the only thing that can tell): versions 0 and 1, alone, after an intact member, through the auto decoder
    sw_blobs, sw_meta = [], []
    for ver in (0, 1):
        for n_ in ((1, 7, 60, 300) if ctx.quick() else (1, 2, 7, 60, 300, 5000)):
            for _r in range(2 if ctx.quick() else 8):
                dA = xzgen.gen_data(rng, n_); dB = bytes(rng.getrandbits(8) for _ in range(n_))
                if dA == dB: continue
                mA = lz_member(rng, dA, version=ver, dict_code=16); mB = lz_member(rng, dB, version=ver, dict_code=16)
                fo = 12 if ver == 0 else 20
                sw = mB[:len(mB) - fo] + mA[len(mA) - fo:len(mA) - fo + 4] + mB[len(mB) - fo + 4:]
                good = lz_member(rng, xzgen.gen_data(rng, 20), version=rng.choice([0, 1]))
                sw_blobs += [sw, good + sw]; sw_meta += [(ver, n_, 'alone'), (ver, n_, 'after an intact member')]
    for (k, fl) in ((4, LZMA_CONCATENATED), (4, 0), (2, LZMA_CONCATENATED)):
        for mode in (0, 1):
            r_, f_ = impl_dec(drv, k, fl, mode, 0, sw_blobs)
            for (ver, n_, where), b_, x in zip(sw_meta, sw_blobs, r_):
                if x is None: continue
                n_eval += 1
                if x[0] == 1 and not (fl == 0 and where != 'alone'):
                    viol.append(dict(fmt='lz', decoder=k, flags=fl, fault='payload replaced, CRC32 kept', pos=-1, file=b_.hex(), original='', ret=1,
                                     why='.lz version %d member (%d bytes of data, %s) whose payload was replaced by other data of the same length is reported as success: the stored CRC32 was not verified' % (ver, n_, where)))
    ctx.cov['evaluations'] = n_eval
    ctx.cov['distinct_nontrivial'] = len(distinct)
    ctx.cov['exhaustive'] = True
    ctx.cov['rule'] = 'per generated file: every single-bit flip, every truncation length, random byte overwrite/insert/delete; decoders: stream (+CONCATENATED), stream_mt, stream_buffer_decode, auto, lzip, alone; distinct = (format, decoder, fault kind, return code, byte offset / 8)'
    ctx.cov['input_distribution'] = dict(files=len(files), sizes=[len(f[0]) for f in files], faults=kinds)
    ctx.cov['samples'] = [files[0][0].hex(), 'flip bit 0 of byte 0', 'truncate to 11 bytes']
    if viol:
        v = min(viol, key=lambda x: len(x['file']))
        ctx.violation('C05 %s [%s decoder %d, %s]' % (v['why'], v['fmt'], v['decoder'], v['fault']), v)
    if not res['ok'] and not viol:
        ctx.violation('proof obligation of Properties_C05 no longer checks (%s)' % res['failing'],
                      {'theorem_file': 'coq/Properties_C05.v', 'failing': res['failing'], 'log_tail': res['log'][-3000:]}, found_input=False)

def replay(ctx, path):
    import json
    print(json.dumps(json.load(open(path)), indent=1)[:3000]); return 0
