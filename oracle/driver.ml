(* Trusted glue: line protocol between the Python harness and the extracted
   Coq models.  One request per line, one reply per line. *)
open Xzmodel

let rec pos_of_int (n : int) : positive =
  if n = 1 then XH else if n land 1 = 1 then XI (pos_of_int (n lsr 1)) else XO (pos_of_int (n lsr 1))
let n_of_int (n : int) : n = if n = 0 then N0 else Npos (pos_of_int n)
let rec int_of_pos = function XH -> 1 | XO p -> 2 * int_of_pos p | XI p -> 2 * int_of_pos p + 1
let int_of_n = function N0 -> 0 | Npos p -> int_of_pos p
let rec nat_of_int n = if n = 0 then O else S (nat_of_int (n - 1))
let rec int_of_nat = function O -> 0 | S n -> 1 + int_of_nat n

(* arbitrary-size N <-> hex *)
let n_of_hex (s : string) : n =
  let acc = ref N0 in
  String.iter (fun c ->
    let v = match c with '0'..'9' -> Char.code c - 48 | 'a'..'f' -> Char.code c - 87 | 'A'..'F' -> Char.code c - 55 | _ -> failwith "hex" in
    acc := N.add (N.mul !acc (n_of_int 16)) (n_of_int v)) s;
  !acc
let n_to_hex (x : n) : string =
  let rec bits p acc = match p with XH -> 1 :: acc | XO q -> bits q (0 :: acc) | XI q -> bits q (1 :: acc) in
  match x with N0 -> "0" | Npos p ->
    (* bits p [] gives msb first?  build lsb-first list instead *)
    let rec lsb p = match p with XH -> [1] | XO q -> 0 :: lsb q | XI q -> 1 :: lsb q in
    let l = Array.of_list (lsb p) in
    let n = Array.length l in
    let nd = (n + 3) / 4 in
    let b = Buffer.create nd in
    for d = nd - 1 downto 0 do
      let v = ref 0 in
      for k = 3 downto 0 do
        let i = d * 4 + k in
        v := !v * 2 + (if i < n then l.(i) else 0)
      done;
      Buffer.add_char b "0123456789abcdef".[!v]
    done;
    ignore bits; Buffer.contents b

let bytes_of_hex (s : string) : n list =
  if s = "-" then [] else begin
    let n = String.length s / 2 in
    let rec go i acc = if i < 0 then acc else
      go (i - 1) (n_of_int (int_of_string ("0x" ^ String.sub s (2 * i) 2)) :: acc) in
    go (n - 1) []
  end
let hex_of_bytes (l : n list) : string =
  if l = [] then "-" else begin
    let b = Buffer.create 64 in
    List.iter (fun x -> Buffer.add_string b (Printf.sprintf "%02x" (int_of_n x))) l;
    Buffer.contents b
  end

let handlers : (string, string list -> string) Hashtbl.t = Hashtbl.create 64
let reg name f = Hashtbl.replace handlers name f

let () =
  reg "crc32" (fun a -> match a with [init; d] -> n_to_hex (crc32 (bytes_of_hex d) (n_of_hex init)) | _ -> "ERR");
  reg "crc64" (fun a -> match a with [init; d] -> n_to_hex (crc64 (bytes_of_hex d) (n_of_hex init)) | _ -> "ERR");
  reg "sha256" (fun a -> match a with [d] -> hex_of_bytes (sha256 (bytes_of_hex d)) | _ -> "ERR")

let () =
  let b = function "1" -> true | _ -> false in
  reg "bcj" (fun a -> match a with [arch; enc; np; pm; pp; d] ->
      let (((o, n), pm'), pp') = bcj_code (n_of_int (int_of_string arch)) (b enc) (n_of_int (int_of_string np))
          (n_of_int (int_of_string pm)) (n_of_int (int_of_string pp)) (bytes_of_hex d) in
      Printf.sprintf "%d %s %d %d" (int_of_n n) (hex_of_bytes o) (int_of_n pm') (int_of_n pp')
    | _ -> "ERR");
  reg "bcjwhole" (fun a -> match a with [arch; enc; st; d] ->
      hex_of_bytes (bcj_whole (n_of_int (int_of_string arch)) (b enc) (n_of_int (int_of_string st)) (bytes_of_hex d))
    | _ -> "ERR");
  reg "delta" (fun a -> match a with [enc; dist; d] ->
      hex_of_bytes ((if b enc then delta_encode else delta_decode) (n_of_int (int_of_string dist)) (bytes_of_hex d))
    | _ -> "ERR")

let () =
  (* codehist  I:10011  C:a,ai,ao,inn,outn,rb,ini,iret,iin,iout ... *)
  reg "codehist" (fun toks ->
    let ev t =
      let body = String.sub t 2 (String.length t - 2) in
      if t.[0] = 'I' then EvInit (List.init (String.length body) (fun i -> body.[i] = '1'))
      else match List.map int_of_string (String.split_on_char ',' body) with
        | [a; ai; ao; inn; outn; rb; ini; ir; iu; ou] ->
          EvCall ({ action = n_of_int a; avail_in = n_of_int ai; avail_out = n_of_int ao; in_null = (inn = 1);
                    out_null = (outn = 1); reserved_bad = (rb = 1); initialised = (ini = 1) },
                  { iret = n_of_int ir; iin = n_of_int iu; iout = n_of_int ou })
        | _ -> failwith "codehist token" in
    let outs = hist_run hist_start (List.map ev toks) in
    String.concat " " (List.map (fun l -> if l = [] then "-" else String.concat "," (List.map (fun x -> string_of_int (int_of_n x)) l)) outs))

let status_str = function
  | Running -> "running" | Finished -> "ok" | DataError -> "data" | Truncated -> "trunc"
  | OutOfFuel -> "fuel" | FormatError -> "format" | OptionsError -> "options"
let big_fuel = pos_of_int (1 lsl 40)
let fmt_res ((st, out), used) = Printf.sprintf "%s %d %s" (status_str st) (int_of_n used) (hex_of_bytes out)
let () =
  let b = function "1" -> true | _ -> false in
  reg "xzdec" (fun a -> match a with [c; d] ->
      fmt_res ((if b c then xz_decode_concat else xz_decode_single) big_fuel false (bytes_of_hex d)) | _ -> "ERR");
  reg "xzdec_strict" (fun a -> match a with [c; d] ->
      fmt_res ((if b c then xz_decode_concat else xz_decode_single) big_fuel true (bytes_of_hex d)) | _ -> "ERR");
  reg "alonedec" (fun a -> match a with [p; d] -> fmt_res (alone_decode big_fuel (b p) (bytes_of_hex d)) | _ -> "ERR");
  reg "lzipdec" (fun a -> match a with [c; d] -> fmt_res (lzip_decode big_fuel (b c) (bytes_of_hex d)) | _ -> "ERR");
  reg "autodec" (fun a -> match a with [c; d] -> fmt_res (auto_decode big_fuel (b c) (bytes_of_hex d)) | _ -> "ERR");
  reg "lzma2dec" (fun a -> match a with [dict; d] -> fmt_res (lzma2_decode (n_of_int (int_of_string dict)) big_fuel (bytes_of_hex d)) | _ -> "ERR")

(* index histories: same token language as harness/drv_index.c *)
let n_to_dec (x : n) : string =
  (* decimal via repeated division; values < 2^64 *)
  let rec go x acc = if x = N0 then acc else
      let q = N.div x (n_of_int 10) and r = N.modulo x (n_of_int 10) in go q (string_of_int (int_of_n r) ^ acc) in
  if x = N0 then "0" else go x ""
let n_of_dec (s : string) : n =
  let acc = ref N0 in String.iter (fun c -> acc := N.add (N.mul !acc (n_of_int 10)) (n_of_int (Char.code c - 48))) s; !acc
let blk_str b = String.concat "," (List.map n_to_dec [b.b_stream; b.b_in_stream; b.b_in_file; b.b_comp_file_off; b.b_uncomp_file_off; b.b_unpadded; b.b_uncomp; b.b_total])
let () =
  reg "indexhist" (fun toks ->
    let ix = Array.make 4 None in
    let out = List.map (fun tok ->
      let op = tok.[0] in
      let args = List.map n_of_dec (String.split_on_char ',' (String.sub tok 1 (String.length tok - 1))) in
      let k = int_of_n (List.hd args) in
      let a = match args with _ :: a :: _ -> a | _ -> N0 in
      let b = match args with _ :: _ :: b :: _ -> b | _ -> N0 in
      if op <> 'i' && ix.(k) = None then "-" else
      let cur () = match ix.(k) with Some i -> i | None -> m_init in
      let upd (r, i) = ix.(k) <- Some i; string_of_int (int_of_n r) in
      match op with
      | 'i' -> ix.(k) <- Some m_init; "1"
      | 'r' -> "ok"
      | 'a' -> upd (m_append (cur ()) a b)
      | 'f' -> upd (m_stream_flags (cur ()) a)
      | 'p' -> upd (m_stream_padding (cur ()) a)
      | 'c' -> let j = int_of_n a in
        if j > 3 || j = k || ix.(j) = None then "-" else
        (match ix.(j) with Some src ->
           let (r, i) = m_cat (cur ()) src in ix.(k) <- Some i; if int_of_n r = 0 then ix.(j) <- None; string_of_int (int_of_n r)
         | None -> "-")
      | 'd' -> let j = int_of_n a in if j > 3 || j = k then "-" else (ix.(j) <- ix.(k); "1")
      | 'q' -> let i = cur () in
        String.concat "," (List.map n_to_dec [block_count i; stream_count i; m_index_size i; stream_size i; total_size i; file_size i; uncompressed_size i; checks i]) ^ ",1"
      | 't' -> let i = cur () in let bl = all_blocks i in
        Printf.sprintf "%d|%d|%d|%d|%s" (List.length bl) (List.length (nonempty_blocks i)) (int_of_n (stream_count i))
          (List.length bl + List.length (List.filter (fun s -> s.recs = []) i)) (String.concat ";" (List.map blk_str bl))
      | 'l' -> (match locate (cur ()) a with Some bk -> blk_str bk | None -> "none")
      | 'e' -> let i = cur () in let bytes = index_encode i in
        (* decoding the Index field back = appending every record to a fresh single-Stream index *)
        let (ok, back) = List.fold_left (fun (ok, acc) r -> if not ok then (false, acc) else
            let (rc, acc') = m_append acc (fst r) (snd r) in (int_of_n rc = 0, acc')) (true, m_init) (List.concat_map (fun s -> s.recs) i) in
        let hexs = String.concat "" (List.map (fun x -> Printf.sprintf "%02x" (int_of_n x)) bytes) in
        if ok then Printf.sprintf "0:%s:0:%s:%s" hexs (n_to_dec (block_count back)) (n_to_dec (uncompressed_size back))
        else Printf.sprintf "0:%s:9:0:0" hexs
      | 'z' -> ix.(k) <- None; "ok"
      | _ -> "ERR") toks in
    String.concat " " out)

let () =
  let opt_hex = function "-" -> None | h -> Some (bytes_of_hex h) in
  let show = function None -> "none" | Some l -> hex_of_bytes l in
  reg "names" (fun a -> match a with [mode; fmt; custom; name] ->
      let f = match fmt with "xz" -> F_XZ | "lzma" -> F_LZMA | _ -> F_RAW in
      if mode = "c" then show (compressed_name f (opt_hex custom) (bytes_of_hex name))
      else show (uncompressed_name (fmt = "raw") (opt_hex custom) (bytes_of_hex name))
    | _ -> "ERR");
  reg "destmode" (fun a -> match a with [m; g] -> string_of_int (int_of_n (dest_mode (n_of_int (int_of_string m)) (g = "1"))) | _ -> "ERR");
  reg "exitstatus" (fun a -> match a with [nw; ev] ->
      string_of_int (int_of_n (final_status (List.map (fun c -> n_of_int (Char.code c - 48)) (List.init (String.length ev) (String.get ev))) (nw = "1")))
    | [nw] -> string_of_int (int_of_n (final_status [] (nw = "1"))) | _ -> "ERR")

(* range coder: tokens a<i>:<b> (adaptive variable i), p<prob>:<b> (fixed probability), d<b> (direct) *)
let () =
  reg "rcenc" (fun toks ->
    let ad = Hashtbl.create 64 in
    let getp i = match Hashtbl.find_opt ad i with Some p -> p | None -> n_of_int 1024 in
    let kinds = ref [] in
    let ds = List.map (fun t ->
      let bit s = (s = "1") in
      match t.[0] with
      | 'a' -> (match String.split_on_char ':' (String.sub t 1 (String.length t - 1)) with
                | [i; b] -> let i = int_of_string i land 63 in let p = getp i in
                            Hashtbl.replace ad i (prob_update p (bit b)); kinds := Some p :: !kinds; DBit (p, bit b)
                | _ -> failwith "tok")
      | 'p' -> (match String.split_on_char ':' (String.sub t 1 (String.length t - 1)) with
                | [p; b] -> let p = n_of_int (int_of_string p) in kinds := Some p :: !kinds; DBit (p, bit b)
                | _ -> failwith "tok")
      | 'd' -> kinds := None :: !kinds; DDirect (t.[1] = '1')
      | _ -> failwith "tok") toks in
    let out = encode ds in
    (* decode it back with the model decoder, same probabilities *)
    let ok = match rc_init (out @ [n_of_int 170; n_of_int 85]) with
      | None -> false
      | Some r0 ->
        let r = ref r0 and good = ref true in
        List.iter2 (fun k d ->
          let (b, r') = match k with Some p -> rc_decode_bit !r p | None -> rc_direct1 !r in
          r := r';
          let want = match d with DBit (_, b) -> b | DDirect b -> b in
          if b <> want then good := false) (List.rev !kinds) ds;
        let rz = rc_normalize !r in
        !good && int_of_n rz.rcode = 0 && List.length rz.rin = 2 && not rz.rfail in
    Printf.sprintf "%s %d" (hex_of_bytes out) (if ok then 1 else 0))

(* model encoder as a generator: serialise an arbitrary symbol list (valid or not) as a raw LZMA1 stream with end marker.
   tokens: L<byte>  M<dist>,<len>  S  R<idx>,<len> *)
let () =
  reg "lzmaenc" (fun a -> match a with
    | lc :: lp :: pb :: toks ->
      let pr = { lc = n_of_int (int_of_string lc); lp = n_of_int (int_of_string lp); pb = n_of_int (int_of_string pb) } in
      let two t = match String.split_on_char ',' (String.sub t 1 (String.length t - 1)) with
        | [x; y] -> (n_of_int (int_of_string x), n_of_int (int_of_string y)) | _ -> failwith "tok" in
      let syms = List.map (fun t -> match t.[0] with
        | 'L' -> SLit (n_of_int (int_of_string (String.sub t 1 (String.length t - 1))))
        | 'M' -> let (d, l) = two t in SMatch (d, l)
        | 'S' -> SShortRep
        | 'R' -> let (i, l) = two t in SLongRep (i, l)
        | _ -> failwith "tok") toks in
      let er = enc_run pr (z_init None) syms in
      let zf = snd er in
      let ds = fst er @ fst (enc_eopm pr zf zf.zps) in
      hex_of_bytes (encode ds)
    | _ -> "ERR")

(* model LZMA2 encoder as a generator: chunk tokens  U<0|1>:<hex>   K<mode>:<propsbyte>:<sym>/<sym>/...   (sym as in lzmaenc)
   No validity is required: the framing is produced for whatever is asked (sizes are those of the given symbols). *)
let () =
  reg "lzma2enc" (fun toks ->
    let two t = match String.split_on_char ',' (String.sub t 1 (String.length t - 1)) with
      | [x; y] -> (n_of_int (int_of_string x), n_of_int (int_of_string y)) | _ -> failwith "tok" in
    let sym t = match t.[0] with
      | 'L' -> SLit (n_of_int (int_of_string (String.sub t 1 (String.length t - 1))))
      | 'M' -> let (d, l) = two t in SMatch (d, l)
      | 'S' -> SShortRep
      | 'R' -> let (i, l) = two t in SLongRep (i, l)
      | _ -> failwith "tok" in
    let cs = List.map (fun t -> match String.split_on_char ':' t with
      | [u; hx] when u.[0] = 'U' -> KU (u.[1] = '1', bytes_of_hex hx)
      | [k; pb; syms] when k.[0] = 'K' ->
        KL (n_of_int (Char.code k.[1] - 48), n_of_int (int_of_string pb),
            List.map sym (List.filter (fun x -> x <> "") (String.split_on_char '/' syms)))
      | _ -> failwith "chunk") toks in
    hex_of_bytes (chunks_bytes (norm (l2_init [] [])) cs @ [N0]))

(* LZMA2 chunk trace: parse a raw LZMA2 stream chunk by chunk starting at [start], trace the symbols of every LZMA
   chunk with the specification decoder and rebuild the chunk list.  Returns (error, chunks, position of the end byte,
   final model state, statistics). *)
let trace_lzma2 (inp : int array) (start : int) =
  let n = Array.length inp in
  let dict = n_of_hex "ffffffff" in
  let sub i l = List.init l (fun k -> n_of_int inp.(i + k)) in
  let s = ref (norm (l2_init [] [])) and pos = ref start and chunks = ref [] and err = ref "" in
  let nl = ref 0 and nm = ref 0 and ns = ref 0 and nr = ref 0 and nu = ref 0 and nk = ref 0 in
  (try
    while !err = "" && !pos < n && inp.(!pos) <> 0 do
      let c = inp.(!pos) in
      if c < 0x80 then begin
        if c > 2 then err := "control" else begin
          let sz = inp.(!pos + 1) * 256 + inp.(!pos + 2) + 1 in
          let ch = KU (c = 1, sub (!pos + 3) sz) in
          chunks := ch :: !chunks; s := norm (chunk_after !s ch []); pos := !pos + 3 + sz; incr nu
        end
      end else begin
        let m = (c lsr 5) land 3 in
        let usize = ((c land 31) lsl 16) + inp.(!pos + 1) * 256 + inp.(!pos + 2) + 1 in
        let csize = inp.(!pos + 3) * 256 + inp.(!pos + 4) + 1 in
        let hl = if m >= 2 then 6 else 5 in
        let pbyte = if m >= 2 then inp.(!pos + 5) else 0 in
        (match kl_props !s (n_of_int m) (n_of_int pbyte) with
         | None -> err := "props"
         | Some pr ->
           let z0 = kl_start !s (n_of_int m) (n_of_int usize) in
           let payload = sub (!pos + hl) csize in
           (match lz_start payload z0.zps z0.zstate z0.rep0 z0.rep1 z0.rep2 z0.rep3 z0.zhist z0.zleft with
            | Inr _ -> err := "rcinit"
            | Inl zs ->
              let classify z z' =
                let st = z.zstate in
                let pos_state = N.modulo z.zhist.hlen (N.pow (n_of_int 2) pr.pb) in
                let ((mm, r), ps) = rc_bit z.zrc z.zps (p_IS_MATCH st pos_state) in
                if not mm then SLit (List.hd z'.zout)
                else
                  let ((isrep, r), ps) = rc_bit r ps (p_IS_REP st) in
                  let ln = N.sub z'.zoutn z.zoutn in
                  if not isrep then SMatch (z'.rep0, ln)
                  else
                    let ((b0, r), ps) = rc_bit r ps (p_IS_REP0 st) in
                    if not b0 then
                      (let ((lg, _), _) = rc_bit r ps (p_IS_REP0_LONG st pos_state) in
                       if not lg then SShortRep else SLongRep (N0, ln))
                    else
                      let ((b1, r), ps) = rc_bit r ps (p_IS_REP1 st) in
                      if not b1 then SLongRep (n_of_int 1, ln)
                      else let ((b2, _), _) = rc_bit r ps (p_IS_REP2 st) in
                        SLongRep ((if b2 then n_of_int 3 else n_of_int 2), ln) in
              let syms = ref [] and z = ref zs and fin = ref "" in
              while !fin = "" do
                let z' = symbol pr dict false !z in
                (match z'.zstatus with
                 | Running -> syms := classify !z z' :: !syms; z := z'
                 | Finished -> z := z'; fin := "fin"
                 | _ -> z := z'; fin := "err")
              done;
              if !fin <> "fin" then err := "lzma"
              else begin
                let syms = List.rev !syms in
                List.iter (function SLit _ -> incr nl | SMatch _ -> incr nm | SShortRep -> incr ns | SLongRep _ -> incr nr) syms;
                let ch = KL (n_of_int m, n_of_int pbyte, syms) in
                chunks := ch :: !chunks; s := norm (chunk_after !s ch []); pos := !pos + hl + csize; incr nk
              end))
      end
    done;
    if !err = "" && !pos >= n then err := "noend"
  with Invalid_argument _ -> err := "short");
  (!err, List.rev !chunks, !pos, !s,
   Printf.sprintf "lzma=%d,stored=%d,lit=%d,match=%d,shortrep=%d,longrep=%d" !nk !nu !nl !nm !ns !nr)

let () =
  reg "lzma2syms" (fun a -> match a with
    | [hx] ->
      let inp = Array.of_list (List.map int_of_n (bytes_of_hex hx)) in
      let n = Array.length inp in
      let (err, cs, pos, s, stats) = trace_lzma2 inp 0 in
      if err <> "" then "parsefail " ^ err
      else begin
        let out = chunks_bytes (norm (l2_init [] [])) cs @ [N0] in
        let same = (List.map int_of_n out = Array.to_list (Array.sub inp 0 (min n (pos + 1)))) && pos + 1 = n in
        Printf.sprintf "%s %d %s %s" (if same then "ok" else "diff") (List.length out) stats (hex_of_bytes (List.rev s.l2out))
      end
    | _ -> "ERR")

(* .xz container trace (single Stream, plain LZMA2 chain, Block Headers without size fields): rebuild the block
   specifications from the real file and serialise them with the model encoder (stream_bytes) *)
let () =
  reg "xzsyms" (fun a -> match a with
    | [hx] ->
      let inp = Array.of_list (List.map int_of_n (bytes_of_hex hx)) in
      let n = Array.length inp in
      (try
        let check = inp.(7) in
        let pos = ref 12 and blocks = ref [] and err = ref "" and data = Buffer.create 1024 and stats = ref [] in
        while !err = "" && inp.(!pos) <> 0 do
          let plain = inp.(!pos) = 2 && inp.(!pos + 1) = 0 && inp.(!pos + 2) = 0x21 in
          let delta = inp.(!pos) = 2 && inp.(!pos + 1) = 1 && inp.(!pos + 2) = 3 && inp.(!pos + 5) = 0x21 in
          if not (plain || delta) then err := "header-shape"
          else begin
            let db = if plain then inp.(!pos + 4) else inp.(!pos + 7) in
            let dl = if plain then None else Some (n_of_int inp.(!pos + 4)) in
            let (e, cs, p2, s, st) = trace_lzma2 inp (!pos + 12) in
            if e <> "" then err := "payload " ^ e
            else begin
              blocks := { b_delta = dl; b_db = n_of_int db; b_chunks = cs } :: !blocks; stats := st :: !stats;
              Buffer.add_string data (let h = hex_of_bytes (b_data { b_delta = dl; b_db = n_of_int db; b_chunks = cs }) in if h = "-" then "" else h);
              let plen = p2 + 1 - (!pos + 12) in
              let padn = (4 - plen mod 4) mod 4 in
              let csz = (match check with 0 -> 0 | 1 -> 4 | 4 -> 8 | 10 -> 32 | _ -> 0) in
              pos := p2 + 1 + padn + csz
            end
          end
        done;
        if !err <> "" then "parsefail " ^ !err
        else begin
          let bs = List.rev !blocks in
          let out = stream_bytes (n_of_int check) bs in
          let same = (List.map int_of_n out = Array.to_list inp) in
          Printf.sprintf "%s %d blocks=%d;%s %s" (if same then "ok" else "diff") n (List.length bs)
            (String.concat ";" (List.rev !stats)) (let d = Buffer.contents data in if d = "" then "-" else d)
        end
      with Invalid_argument _ -> "parsefail short")
    | _ -> "ERR")

(* LZMA symbol trace: decode a raw LZMA1 stream (end marker) with the specification decoder one symbol at a time,
   classify every symbol from the bits the decoder read and the state change, then serialise the symbols again with
   the model encoder (enc_run / enc_eopm / encode).  "ok" = the model encoder reproduces the input bytes exactly. *)
let () =
  reg "lzmasyms" (fun a -> match a with
    | [lc; lp; pb; hx] ->
      let pr = { lc = n_of_int (int_of_string lc); lp = n_of_int (int_of_string lp); pb = n_of_int (int_of_string pb) } in
      let inp = bytes_of_hex hx in
      let dict = n_of_hex "ffffffff" in
      (match lz_start inp PM.empty N0 N0 N0 N0 N0 hist_empty None with
       | Inr _ -> "startfail"
       | Inl z0 ->
         let classify z z' =
           let st = z.zstate in
           let pos_state = N.modulo z.zhist.hlen (N.pow (n_of_int 2) pr.pb) in
           let ((m, r), ps) = rc_bit z.zrc z.zps (p_IS_MATCH st pos_state) in
           if not m then SLit (List.hd z'.zout)
           else
             let ((isrep, r), ps) = rc_bit r ps (p_IS_REP st) in
             let n = N.sub z'.zoutn z.zoutn in
             if not isrep then SMatch (z'.rep0, n)
             else
               let ((b0, r), ps) = rc_bit r ps (p_IS_REP0 st) in
               if not b0 then
                 (let ((lg, _), _) = rc_bit r ps (p_IS_REP0_LONG st pos_state) in
                  if not lg then SShortRep else SLongRep (N0, n))
               else
                 let ((b1, r), ps) = rc_bit r ps (p_IS_REP1 st) in
                 if not b1 then SLongRep (n_of_int 1, n)
                 else let ((b2, _), _) = rc_bit r ps (p_IS_REP2 st) in
                   SLongRep ((if b2 then n_of_int 3 else n_of_int 2), n) in
         let syms = ref [] and z = ref z0 and fin = ref "" and guard = ref 0 in
         while !fin = "" do
           let z' = symbol pr dict true !z in
           (match z'.zstatus with
            | Running -> syms := classify !z z' :: !syms; z := z'
            | Finished -> z := z'; fin := "fin"
            | _ -> z := z'; fin := "err");
           incr guard; if !guard > 10000000 then fin := "loop"
         done;
         if !fin <> "fin" then "decodefail " ^ !fin
         else begin
           let syms = List.rev !syms in
           let er = enc_run pr (z_init None) syms in
           let zf = snd er in
           let ds = fst er @ fst (enc_eopm pr zf zf.zps) in
           let out = encode ds in
           let used = int_of_n (!z).zrc.rused in
           let nl = ref 0 and nm = ref 0 and ns = ref 0 and nr = ref 0 in
           List.iter (function SLit _ -> incr nl | SMatch _ -> incr nm | SShortRep -> incr ns | SLongRep _ -> incr nr) syms;
           Printf.sprintf "%s %d %d lit=%d,match=%d,shortrep=%d,longrep=%d %s"
             (if out = inp then "ok" else "diff") used (List.length out) !nl !nm !ns !nr (hex_of_bytes (List.rev (!z).zout))
         end)
    | _ -> "ERR")

let () =
  reg "outqhist" (fun toks ->
    (* the driver refuses G beyond 128 live buffers and W/F on missing indices exactly like the model's upd on short lists *)
    let epochs = Buffer.create 64 in
    let q = List.fold_left (fun q tok ->
      match tok.[0] with
      | 'I' -> Buffer.add_string epochs (let h = hex_of_bytes q.delivered in if h = "-" then "" else h); Buffer.add_char epochs '/'; step q Reinit
      | 'G' -> step q Get
      | 'W' -> (match String.split_on_char ',' (String.sub tok 1 (String.length tok - 1)) with
                | [i; h] -> let cur = (match List.nth_opt q.bufs (int_of_string i) with Some b -> int_of_nat (length b.odata) | None -> 0) in
                  let bs = bytes_of_hex h in
                  let room = 64 - cur in
                  let bs = List.filteri (fun k _ -> k < room) bs in
                  step q (Write (nat_of_int (int_of_string i), bs))
                | _ -> q)
      | 'F' -> step q (Finish (nat_of_int (int_of_string (String.sub tok 1 (String.length tok - 1)))))
      | 'R' -> step q (Read (nat_of_int (min 256 (int_of_string (String.sub tok 1 (String.length tok - 1))))))
      | _ -> q) outq0 toks in
    let last = hex_of_bytes q.delivered in
    let all = Buffer.contents epochs ^ (if last = "-" && Buffer.length epochs > 0 then "" else last) in
    Printf.sprintf "%s %d 1" all (List.length q.bufs))

(* ---- main loop (keep last) ---- *)
let () =
  try
    while true do
      let line = input_line stdin in
      let toks = List.filter (fun s -> s <> "") (String.split_on_char ' ' (String.trim line)) in
      (match toks with
       | [] -> print_string "\n"
       | cmd :: args ->
         let out = try (match Hashtbl.find_opt handlers cmd with
                        | Some f -> f args
                        | None -> "ERR unknown " ^ cmd)
                   with Stack_overflow -> "ERR stack" | Failure m -> "ERR " ^ m | Not_found -> "ERR notfound" in
         print_string out; print_string "\n");
      flush stdout
    done
  with End_of_file -> ()
