// Translator helper: (n, lzma_block_buffer_bound(n), lzma_stream_buffer_bound(n)) for n around every branch
#include "lzma.h"
#include <stdio.h>
#include <stdint.h>
int main(void)
{
	uint64_t pts[] = {0, 1, 2, 3, 4, 5, 100, 65535, 65536, 65537, 131071, 131072, 131073, 1000000, (1ull << 32) - 1, 1ull << 32, (1ull << 32) + 1,
		(1ull << 62), (1ull << 63) - 2000, (1ull << 63) - 1200, 9223372036854774716ull, 9223372036854774717ull,
		9223372036854774716ull - 422212465065984ull, 9223231299366420480ull, 9222809086901354496ull, 9222809086901354496ull + 70000, UINT64_MAX / 2, UINT64_MAX - 1, UINT64_MAX};
	for (unsigned i = 0; i < sizeof pts / sizeof pts[0]; i++)
		for (int d = -3; d <= 3; d++) {
			uint64_t n = pts[i] + (uint64_t)(int64_t)d;
			printf("%llu %llu %llu\n", (unsigned long long)n, (unsigned long long)lzma_block_buffer_bound((size_t)n), (unsigned long long)lzma_stream_buffer_bound((size_t)n));
		}
	// search the exact threshold where the bound becomes 0 by bisection on the real function
	uint64_t lo = 0, hi = UINT64_MAX;
	while (hi - lo > 1) { uint64_t mid = lo + (hi - lo) / 2; if (lzma_block_buffer_bound((size_t)mid) != 0) lo = mid; else hi = mid; }
	for (int d = -3; d <= 3; d++) { uint64_t n = lo + (uint64_t)(int64_t)d; printf("%llu %llu %llu\n", (unsigned long long)n, (unsigned long long)lzma_block_buffer_bound((size_t)n), (unsigned long long)lzma_stream_buffer_bound((size_t)n)); }
	lo = 0; hi = UINT64_MAX;
	while (hi - lo > 1) { uint64_t mid = lo + (hi - lo) / 2; if (lzma_stream_buffer_bound((size_t)mid) != 0) lo = mid; else hi = mid; }
	for (int d = -3; d <= 3; d++) { uint64_t n = lo + (uint64_t)(int64_t)d; printf("%llu %llu %llu\n", (unsigned long long)n, (unsigned long long)lzma_block_buffer_bound((size_t)n), (unsigned long long)lzma_stream_buffer_bound((size_t)n)); }
	return 0;
}
