// LD_PRELOAD interposer for xz: counts selected system calls and can fail /
// shorten the k-th call of a kind, deliver a signal before it, or _exit.
//   VERIF_FAULT="<call>:<k>:<action>"   call in write|close|fsync|lseek|unlink|read|open|fchmod|fchown|futimens
//   action: E<errno>  fail with errno | S<signo> raise signal first | K  _exit(137) | H  short count (half)
//   VERIF_FAULT_LOG=<file>: appends "call count" lines at exit (for the clean counting run)
// Calls on fds 0,1,2 are not counted (messages), except when VERIF_FAULT_STDIO=1.
#define _GNU_SOURCE
#include <dlfcn.h>
#include <errno.h>
#include <signal.h>
#include <stdio.h>
#include <stdlib.h>
#include <string.h>
#include <unistd.h>
#include <sys/types.h>
#include <sys/stat.h>
#include <fcntl.h>
#include <stdarg.h>

enum { C_WRITE, C_CLOSE, C_FSYNC, C_LSEEK, C_UNLINK, C_READ, C_OPEN, C_FCHMOD, C_FCHOWN, C_FUTIMENS, C_N };
static const char *names[C_N] = { "write", "close", "fsync", "lseek", "unlink", "read", "open", "fchmod", "fchown", "futimens" };
static unsigned long counts[C_N];
static int f_call = -1; static unsigned long f_k; static char f_act; static int f_arg; static int inited, stdio_too;

static void init(void)
{
	if (inited) return; inited = 1;
	const char *s = getenv("VERIF_FAULT");
	stdio_too = getenv("VERIF_FAULT_STDIO") != NULL;
	if (s) {
		char nm[32]; unsigned long k; char act; int arg = 0;
		if (sscanf(s, "%31[^:]:%lu:%c%d", nm, &k, &act, &arg) >= 3)
			for (int i = 0; i < C_N; i++) if (!strcmp(nm, names[i])) { f_call = i; f_k = k; f_act = act; f_arg = arg; }
	}
}
static void fini(void) __attribute__((destructor));
static void fini(void)
{
	const char *p = getenv("VERIF_FAULT_LOG");
	if (!p) return;
	int (*ropen)(const char *, int, ...) = dlsym(RTLD_NEXT, "open");
	ssize_t (*rwrite)(int, const void *, size_t) = dlsym(RTLD_NEXT, "write");
	int (*rclose)(int) = dlsym(RTLD_NEXT, "close");
	int fd = ropen(p, O_WRONLY | O_CREAT | O_APPEND, 0644);
	if (fd < 0) return;
	char buf[512]; int n = 0;
	for (int i = 0; i < C_N; i++) n += snprintf(buf + n, sizeof buf - n, "%s %lu\n", names[i], counts[i]);
	rwrite(fd, buf, n); rclose(fd);
}
// returns 1 if the call must fail (errno set), 2 for short count
static int hit(int c)
{
	init();
	unsigned long k = ++counts[c];
	if (c != f_call || k != f_k) return 0;
	switch (f_act) {
	case 'E': errno = f_arg; return 1;
	case 'S': raise(f_arg); return 0;
	case 'K': _exit(137);
	case 'H': return 2;
	}
	return 0;
}
ssize_t write(int fd, const void *b, size_t n)
{
	static ssize_t (*real)(int, const void *, size_t); if (!real) real = dlsym(RTLD_NEXT, "write");
	init(); if (fd <= 2 && !stdio_too) return real(fd, b, n);
	int h = hit(C_WRITE); if (h == 1) return -1; if (h == 2 && n > 1) return real(fd, b, n / 2);
	return real(fd, b, n);
}
ssize_t read(int fd, void *b, size_t n)
{
	static ssize_t (*real)(int, void *, size_t); if (!real) real = dlsym(RTLD_NEXT, "read");
	init(); if (fd <= 2 && !stdio_too) return real(fd, b, n);
	int h = hit(C_READ); if (h == 1) return -1; if (h == 2 && n > 1) return real(fd, b, n / 2);
	return real(fd, b, n);
}
int close(int fd)
{
	static int (*real)(int); if (!real) real = dlsym(RTLD_NEXT, "close");
	init(); if (fd <= 2) return real(fd);
	int h = hit(C_CLOSE); if (h == 1) { int e = errno; real(fd); errno = e; return -1; }
	return real(fd);
}
int fsync(int fd)
{
	static int (*real)(int); if (!real) real = dlsym(RTLD_NEXT, "fsync");
	if (hit(C_FSYNC) == 1) return -1; return real(fd);
}
off_t lseek(int fd, off_t o, int w)
{
	static off_t (*real)(int, off_t, int); if (!real) real = dlsym(RTLD_NEXT, "lseek");
	init(); if (fd <= 2 && !stdio_too) return real(fd, o, w);
	if (hit(C_LSEEK) == 1) return -1; return real(fd, o, w);
}
off_t lseek64(int fd, off_t o, int w) { return lseek(fd, o, w); }
int unlink(const char *p)
{
	static int (*real)(const char *); if (!real) real = dlsym(RTLD_NEXT, "unlink");
	if (hit(C_UNLINK) == 1) return -1; return real(p);
}
int fchmod(int fd, mode_t m)
{
	static int (*real)(int, mode_t); if (!real) real = dlsym(RTLD_NEXT, "fchmod");
	if (hit(C_FCHMOD) == 1) return -1; return real(fd, m);
}
int fchown(int fd, uid_t u, gid_t g)
{
	static int (*real)(int, uid_t, gid_t); if (!real) real = dlsym(RTLD_NEXT, "fchown");
	if (hit(C_FCHOWN) == 1) return -1; return real(fd, u, g);
}
int futimens(int fd, const struct timespec t[2])
{
	static int (*real)(int, const struct timespec *); if (!real) real = dlsym(RTLD_NEXT, "futimens");
	if (hit(C_FUTIMENS) == 1) return -1; return real(fd, t);
}
int open(const char *p, int fl, ...)
{
	static int (*real)(const char *, int, ...); if (!real) real = dlsym(RTLD_NEXT, "open");
	mode_t m = 0; if (fl & O_CREAT) { va_list ap; va_start(ap, fl); m = va_arg(ap, mode_t); va_end(ap); }
	if (hit(C_OPEN) == 1) return -1; return real(p, fl, m);
}
int open64(const char *p, int fl, ...)
{
	mode_t m = 0; if (fl & O_CREAT) { va_list ap; va_start(ap, fl); m = va_arg(ap, mode_t); va_end(ap); }
	return open(p, fl, m);
}
