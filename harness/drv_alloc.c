// Counting / failing allocator driver (C09, C10).
//  mem <scenario> <failk> <memlimit> <arg> <hex>
//  -> "<init_ret> <final_ret> <n_allocs> <peak> <live_after_end> <bad_free> <memusage_seen> <memlimit_errors> <total_out> <out_crc> <est> <reinit_ret> <reinit_crc> <max over calls of live bytes - lzma_memusage()>"
#include "lzma.h"
#include <stdio.h>
#include <stdlib.h>
#include <string.h>
#include <stdint.h>
#include <unistd.h>
#include <pthread.h>
#include <execinfo.h>
#include "watchdog.h"
static int hexv(int c) { return c <= '9' ? c - '0' : (c | 32) - 'a' + 10; }

#define MAXLIVE 65536
static struct { void *p; size_t sz; } live[MAXLIVE];
static size_t nlive, live_bytes, peak_bytes, n_allocs, fail_k, bad_free;
static pthread_mutex_t mu = PTHREAD_MUTEX_INITIALIZER;
static void *my_alloc(void *opaque, size_t nmemb, size_t size)
{
	pthread_mutex_lock(&mu);
	size_t k = ++n_allocs;
	if (fail_k && k == fail_k) { pthread_mutex_unlock(&mu); return NULL; }
	size_t sz = nmemb * size;
	void *p = malloc(sz ? sz : 1);
	if (p && nlive < MAXLIVE) { live[nlive].p = p; live[nlive].sz = sz; nlive++; live_bytes += sz; if (live_bytes > peak_bytes) peak_bytes = live_bytes; }
	{ static int dumped; const char *dl = getenv("VERIF_DUMP_ABOVE");   // debugging aid: where does the excess come from
	  if (dl && !dumped && live_bytes > (size_t)atoll(dl)) { dumped = 1; fprintf(stderr, "LIVE %zu:", live_bytes);
	    for (size_t q = 0; q < nlive; q++) if (live[q].sz > 100000) fprintf(stderr, " %zu", live[q].sz); fprintf(stderr, "\n");
	    void *bt[24]; int nb = backtrace(bt, 24); backtrace_symbols_fd(bt, nb, 2); } }
	pthread_mutex_unlock(&mu);
	return p;
}
static void my_free(void *opaque, void *ptr)
{
	if (!ptr) return;
	pthread_mutex_lock(&mu);
	size_t i; for (i = 0; i < nlive; i++) if (live[i].p == ptr) break;
	if (i == nlive) { bad_free++; pthread_mutex_unlock(&mu); return; }
	live_bytes -= live[i].sz; live[i] = live[--nlive];
	pthread_mutex_unlock(&mu);
	free(ptr);
}
static lzma_allocator al = { my_alloc, my_free, NULL };
static size_t in_chunk;     // 0: offer all input at once; else at most this many new bytes per call
static size_t max_excess;   // max over all calls of (bytes live in the allocator - lzma_memusage())

static lzma_options_lzma ol; static lzma_filter f2[2];
static lzma_mt mtd, mte;
static lzma_index *gidx;

static lzma_ret do_init(lzma_stream *s, unsigned sc, uint64_t memlimit, unsigned arg, size_t n)
{
	switch (sc) {
	case 0: return lzma_stream_decoder(s, memlimit, LZMA_CONCATENATED);
	case 1: mtd = (lzma_mt){ .flags = LZMA_CONCATENATED, .threads = arg ? arg : 2, .timeout = 0, .memlimit_threading = memlimit, .memlimit_stop = UINT64_MAX }; return lzma_stream_decoder_mt(s, &mtd);
	case 2: return lzma_alone_decoder(s, memlimit);
	case 3: return lzma_lzip_decoder(s, memlimit, LZMA_CONCATENATED);
	case 4: return lzma_auto_decoder(s, memlimit, LZMA_CONCATENATED);
	case 5: gidx = NULL; return lzma_index_decoder(s, &gidx, memlimit);
	case 6: gidx = NULL; return lzma_file_info_decoder(s, &gidx, memlimit, n);
	case 7: mtd = (lzma_mt){ .flags = LZMA_CONCATENATED, .threads = arg ? arg : 2, .timeout = 0, .memlimit_threading = UINT64_MAX, .memlimit_stop = memlimit }; return lzma_stream_decoder_mt(s, &mtd);
	case 10: return lzma_easy_encoder(s, arg, LZMA_CHECK_CRC64);
	case 11: mte = (lzma_mt){ .threads = 2, .preset = arg, .check = LZMA_CHECK_CRC32, .block_size = 8192 }; return lzma_stream_encoder_mt(s, &mte);
	case 12: lzma_lzma_preset(&ol, arg); return lzma_alone_encoder(s, &ol);
	case 13: lzma_lzma_preset(&ol, arg); f2[0].id = LZMA_FILTER_LZMA2; f2[0].options = &ol; f2[1].id = LZMA_VLI_UNKNOWN; return lzma_raw_encoder(s, f2);
	case 14: lzma_lzma_preset(&ol, arg); f2[0].id = LZMA_FILTER_LZMA2; f2[0].options = &ol; f2[1].id = LZMA_VLI_UNKNOWN; return lzma_stream_encoder(s, f2, LZMA_CHECK_SHA256);
	case 15: lzma_lzma_preset(&ol, arg); return lzma_microlzma_encoder(s, &ol);
	}
	return LZMA_PROG_ERROR;
}

static lzma_ret run_code(lzma_stream *s, unsigned sc, const uint8_t *in, size_t n, uint64_t *memusage_seen, unsigned *mlerr, uint32_t *crc, uint64_t *tout)
{
	static uint8_t ob[1 << 16];
	size_t pos = 0; lzma_ret r = LZMA_OK; unsigned guard = 0;
	s->next_in = in; s->avail_in = in_chunk && in_chunk < n ? in_chunk : n; size_t offered = s->avail_in;
	while (1) {
		if (in_chunk && s->avail_in == 0 && offered < n && sc != 6) { size_t k = n - offered < in_chunk ? n - offered : in_chunk; s->next_in = in + offered; s->avail_in = k; offered += k; }
		if (sc == 6 && r == LZMA_SEEK_NEEDED) { if (s->seek_pos > n) return (lzma_ret)97; s->next_in = in + s->seek_pos; s->avail_in = n - (size_t)s->seek_pos; }
		s->next_out = ob; s->avail_out = sizeof ob;
		r = lzma_code(s, (in_chunk && offered < n && sc != 6) ? LZMA_RUN : LZMA_FINISH);
		size_t dd = sizeof ob - s->avail_out; *crc = lzma_crc32(ob, dd, *crc); *tout += dd;
		if (sc < 10 && (r == LZMA_OK || r == LZMA_SEEK_NEEDED)) { uint64_t muse = lzma_memusage(s); pthread_mutex_lock(&mu); size_t lb = live_bytes; pthread_mutex_unlock(&mu);
			if (muse && lb > muse && lb - muse > max_excess) max_excess = lb - muse; }
		if (r == LZMA_MEMLIMIT_ERROR) {
			(*mlerr)++; *memusage_seen = lzma_memusage(s);
			if (*mlerr > 8) return r;
			if (lzma_memlimit_set(s, *memusage_seen) != LZMA_OK) return (lzma_ret)96;
			continue;
		}
		if (r == LZMA_SEEK_NEEDED) continue;
		if (r != LZMA_OK) return r;
		if (++guard > 10000000) return (lzma_ret)99;
	}
}

int main(void)
{
	static char line[1 << 24];
	uint8_t *in = malloc(1 << 23);
	while (fgets(line, sizeof line, stdin)) {
		unsigned sc, arg; unsigned long long failk, memlimit; int off = 0;
		if (!strncmp(line, "seq ", 4)) {
			// seq <scenario> <failk> <hexA> <hexB>: one handle, no lzma_end in between:
			//   decode A (clean), re-init + decode B with the k-th allocation failing, re-init + decode A again
			unsigned long long fk; char *hA, *hB; int o2 = 0;
			if (sscanf(line, "seq %u %llu %n", &sc, &fk, &o2) < 2) { printf("ERR\n"); fflush(stdout); continue; }
			hA = line + o2; hB = strchr(hA, ' '); if (!hB) { printf("ERR\n"); fflush(stdout); continue; } *hB++ = 0;
			size_t nA = 0, nB = 0; uint8_t *A = in, *B = in + (1 << 22);
			for (char *h = hA; h[0] && h[1]; h += 2) A[nA++] = (uint8_t)(hexv(h[0]) << 4 | hexv(h[1]));
			for (char *h = hB; h[0] && h[1] && h[0] != '\n'; h += 2) B[nB++] = (uint8_t)(hexv(h[0]) << 4 | hexv(h[1]));
			nlive = 0; live_bytes = peak_bytes = n_allocs = bad_free = 0; fail_k = 0; alarm(60);
			lzma_stream s = LZMA_STREAM_INIT; s.allocator = &al;
			uint64_t m = 0, t1 = 0, t2 = 0, t3 = 0; unsigned e = 0; uint32_t c1 = 0, c2 = 0, c3 = 0;
			lzma_ret r1 = do_init(&s, sc, UINT64_MAX, 0, nA); if (r1 == LZMA_OK) r1 = run_code(&s, sc, A, nA, &m, &e, &c1, &t1);
			size_t base = n_allocs; fail_k = fk ? base + (size_t)fk : 0;
			lzma_ret r2 = do_init(&s, sc, UINT64_MAX, 0, nB); if (r2 == LZMA_OK) r2 = run_code(&s, sc, B, nB, &m, &e, &c2, &t2);
			size_t nB_allocs = n_allocs - base; fail_k = 0;
			lzma_ret r3 = do_init(&s, sc, UINT64_MAX, 0, nA); if (r3 == LZMA_OK) r3 = run_code(&s, sc, A, nA, &m, &e, &c3, &t3);
			lzma_end(&s); alarm(0);
			printf("%d %d %d %zu %zu %zu %08x %08x %08x\n", (int)r1, (int)r2, (int)r3, nB_allocs, live_bytes, bad_free, c1, c2, c3); fflush(stdout);
			continue;
		}
		if (!strncmp(line, "reuse ", 6)) {
			// reuse <scenario> <arg> <memlimit> <hexA> <hexB>: decode A without a limit, re-initialise the same handle
			// with the limit, decode B; report what was live while B was decoded
			unsigned long long ml; char *hA, *hB; int o2 = 0;
			if (sscanf(line, "reuse %u %u %llu %n", &sc, &arg, &ml, &o2) < 3) { printf("ERR\n"); fflush(stdout); continue; }
			hA = line + o2; hB = strchr(hA, ' '); if (!hB) { printf("ERR\n"); fflush(stdout); continue; } *hB++ = 0;
			size_t nA = 0, nB = 0; uint8_t *A = in, *B = in + (1 << 22);
			for (char *h = hA; h[0] && h[1]; h += 2) A[nA++] = (uint8_t)(hexv(h[0]) << 4 | hexv(h[1]));
			for (char *h = hB; h[0] && h[1] && h[0] != '\n'; h += 2) B[nB++] = (uint8_t)(hexv(h[0]) << 4 | hexv(h[1]));
			nlive = 0; live_bytes = peak_bytes = n_allocs = bad_free = 0; fail_k = 0; max_excess = 0; alarm(60);
			lzma_stream s = LZMA_STREAM_INIT; s.allocator = &al;
			uint64_t m = 0, t1 = 0, t2 = 0; unsigned e = 0, e2 = 0; uint32_t c1 = 0, c2 = 0;
			lzma_ret r1 = do_init(&s, sc, UINT64_MAX, arg, nA); if (r1 == LZMA_OK) r1 = run_code(&s, sc, A, nA, &m, &e, &c1, &t1);
			lzma_ret r2 = do_init(&s, sc, ml ? ml : UINT64_MAX, arg, nB);
			pthread_mutex_lock(&mu); peak_bytes = live_bytes; pthread_mutex_unlock(&mu); max_excess = 0; m = 0; in_chunk = 7;
			if (r2 == LZMA_OK) r2 = run_code(&s, sc, B, nB, &m, &e2, &c2, &t2);
			size_t peakB = peak_bytes; uint64_t muB = lzma_memusage(&s); in_chunk = 0;
			lzma_end(&s); alarm(0);
			printf("%d %d %zu %llu %zu %u %08x %zu\n", (int)r1, (int)r2, peakB, (unsigned long long)muB, max_excess, e2, c2, live_bytes); fflush(stdout);
			continue;
		}
		if (!strncmp(line, "reenc ", 6)) {
			// reenc <threads1> <threads2> <preset> <block_size> <hex>: threaded encoder used for a while (output left queued),
			// re-initialised on the same handle with other thread count; what is live during the second use vs the estimate for it
			unsigned t1, t2, pr; unsigned long long bsz; int o2 = 0;
			if (sscanf(line, "reenc %u %u %u %llu %n", &t1, &t2, &pr, &bsz, &o2) < 4) { printf("ERR\n"); fflush(stdout); continue; }
			size_t n = 0; for (char *h = line + o2; h[0] && h[1] && h[0] != '\n'; h += 2) in[n++] = (uint8_t)(hexv(h[0]) << 4 | hexv(h[1]));
			nlive = 0; live_bytes = peak_bytes = n_allocs = bad_free = 0; fail_k = 0; alarm(60);
			lzma_stream s = LZMA_STREAM_INIT; s.allocator = &al; static uint8_t ob[1 << 22]; uint8_t tiny[8];
			lzma_mt m1 = { .threads = t1, .preset = pr, .check = LZMA_CHECK_CRC32, .block_size = bsz }, m2 = m1; m2.threads = t2;
			lzma_ret r1 = lzma_stream_encoder_mt(&s, &m1);
			if (r1 == LZMA_OK) {   // all input in, almost no output space: finished Blocks stay in the output queue
				s.next_in = in; s.avail_in = n;
				for (int c = 0; c < 40 && r1 == LZMA_OK; c++) { s.next_out = tiny; s.avail_out = c < 3 ? sizeof tiny : 0; r1 = lzma_code(&s, LZMA_RUN); if (s.avail_in == 0 && c > 6) break; }
				if (r1 == LZMA_BUF_ERROR) r1 = LZMA_OK;
				usleep(20000);
			}
			lzma_ret r2 = lzma_stream_encoder_mt(&s, &m2);
			uint64_t est2 = lzma_stream_encoder_mt_memusage(&m2);
			pthread_mutex_lock(&mu); size_t live_at_reinit = live_bytes; peak_bytes = live_bytes; pthread_mutex_unlock(&mu);
			if (r2 == LZMA_OK) { s.next_in = in; s.avail_in = n; do { s.next_out = ob; s.avail_out = sizeof ob; r2 = lzma_code(&s, LZMA_FINISH); } while (r2 == LZMA_OK); }
			size_t peak2 = peak_bytes;
			lzma_end(&s); alarm(0);
			printf("%d %d %llu %zu %zu %zu %zu\n", (int)r1, (int)r2, (unsigned long long)est2, live_at_reinit, peak2, live_bytes, bad_free); fflush(stdout);
			continue;
		}
		if (!strncmp(line, "mlset ", 6)) {
			// mlset <threads> <hard> <hex>: threaded decoder created with generous limits, then the hard limit is lowered
			// with lzma_memlimit_set() before any input: the lower limit holds for everything the decoder allocates afterwards
			unsigned th; unsigned long long hard; int o2 = 0;
			if (sscanf(line, "mlset %u %llu %n", &th, &hard, &o2) < 2) { printf("ERR\n"); fflush(stdout); continue; }
			size_t n = 0; for (char *h = line + o2; h[0] && h[1] && h[0] != '\n'; h += 2) in[n++] = (uint8_t)(hexv(h[0]) << 4 | hexv(h[1]));
			nlive = 0; live_bytes = peak_bytes = n_allocs = bad_free = 0; fail_k = 0; max_excess = 0; alarm(60);
			lzma_stream s = LZMA_STREAM_INIT; s.allocator = &al;
			mtd = (lzma_mt){ .flags = LZMA_CONCATENATED, .threads = th, .timeout = 0, .memlimit_threading = 1ULL << 30, .memlimit_stop = 1ULL << 30 };
			lzma_ret r0 = lzma_stream_decoder_mt(&s, &mtd), rs = LZMA_PROG_ERROR, fr = r0;
			uint64_t m = 0, tout = 0; unsigned e = 0; uint32_t crc = 0;
			if (r0 == LZMA_OK) { rs = lzma_memlimit_set(&s, hard); fr = run_code(&s, 1, in, n, &m, &e, &crc, &tout); }
			size_t pk = peak_bytes;
			lzma_end(&s); alarm(0);
			printf("%d %d %zu %u %08x %zu %zu\n", (int)rs, (int)fr, pk, e, crc, live_bytes, bad_free); fflush(stdout);
			continue;
		}
		if (!strncmp(line, "reopt ", 6)) {
			// reopt <kind> <presetA> <dictA> <presetB> <dictB> <hex>: an encoder initialised with options A, used for a while,
			// re-initialised on the same handle with options B (dict 0 = the preset's own); what is live during the second use
			// must be covered by the memory-usage function for B.  kind 0 easy, 1 stream_encoder_mt (2 threads), 2 raw LZMA2, 3 alone
			unsigned kd, pa, pb; unsigned long long da, db; int o2 = 0;
			if (sscanf(line, "reopt %u %u %llu %u %llu %n", &kd, &pa, &da, &pb, &db, &o2) < 5) { printf("ERR\n"); fflush(stdout); continue; }
			size_t n = 0; for (char *h = line + o2; h[0] && h[1] && h[0] != '\n'; h += 2) in[n++] = (uint8_t)(hexv(h[0]) << 4 | hexv(h[1]));
			nlive = 0; live_bytes = peak_bytes = n_allocs = bad_free = 0; fail_k = 0; alarm(120);
			lzma_stream s = LZMA_STREAM_INIT; s.allocator = &al; static uint8_t ob2[1 << 22];
			lzma_ret rr[2] = { LZMA_OK, LZMA_OK }; uint64_t est2 = 0; size_t live_at_reinit = 0, peak2 = 0;
			for (int ph = 0; ph < 2; ph++) {
				lzma_options_lzma o; lzma_lzma_preset(&o, ph ? pb : pa); if (ph ? db : da) o.dict_size = (uint32_t)(ph ? db : da);
				lzma_filter f[2] = { { kd == 3 ? LZMA_FILTER_LZMA1 : LZMA_FILTER_LZMA2, &o }, { LZMA_VLI_UNKNOWN, NULL } };
				lzma_mt m = { .threads = 2, .filters = f, .check = LZMA_CHECK_CRC32, .block_size = 1 << 16 };
				lzma_ret r;
				switch (kd) {
				case 0: r = lzma_stream_encoder(&s, f, LZMA_CHECK_CRC32); if (ph) est2 = lzma_raw_encoder_memusage(f); break;
				case 1: r = lzma_stream_encoder_mt(&s, &m); if (ph) est2 = lzma_stream_encoder_mt_memusage(&m); break;
				case 2: r = lzma_raw_encoder(&s, f); if (ph) est2 = lzma_raw_encoder_memusage(f); break;
				default: r = lzma_alone_encoder(&s, &o); if (ph) est2 = lzma_raw_encoder_memusage(f); break;
				}
				if (ph) { pthread_mutex_lock(&mu); live_at_reinit = live_bytes; peak_bytes = live_bytes; pthread_mutex_unlock(&mu); }
				if (r == LZMA_OK) {
					s.next_in = in; s.avail_in = ph ? n : n / 2;
					do { s.next_out = ob2; s.avail_out = sizeof ob2; r = lzma_code(&s, ph ? LZMA_FINISH : LZMA_RUN); } while (r == LZMA_OK && (ph || s.avail_in));
				}
				rr[ph] = r;
			}
			peak2 = peak_bytes;
			lzma_end(&s); alarm(0);
			printf("%d %d %llu %zu %zu %zu %zu\n", (int)rr[0], (int)rr[1], (unsigned long long)est2, live_at_reinit, peak2, live_bytes, bad_free); fflush(stdout);
			continue;
		}
		// memc = mem with the input offered 7 bytes at a time (lzma_memusage() is sampled after every call that returns LZMA_OK)
		in_chunk = 0; if (!strncmp(line, "memc ", 5)) { in_chunk = (line[5] == '6') ? 0 : 7; memmove(line + 3, line + 4, strlen(line + 4) + 1); }
		if (sscanf(line, "mem %u %llu %llu %u %n", &sc, &failk, &memlimit, &arg, &off) < 4) { printf("ERR\n"); fflush(stdout); continue; }
		char *h = line + off; size_t n = 0;
		if (*h != '-') while (h[0] && h[1] && h[0] != '\n') { in[n++] = (uint8_t)(hexv(h[0]) << 4 | hexv(h[1])); h += 2; }
		nlive = 0; live_bytes = peak_bytes = n_allocs = bad_free = 0; fail_k = (size_t)failk; max_excess = 0; alarm(60);
		if (!memlimit) memlimit = UINT64_MAX;
		uint64_t est = 0;
		if (sc == 10) est = lzma_easy_encoder_memusage(arg);
		if (sc == 11) { mte = (lzma_mt){ .threads = 2, .preset = arg, .check = LZMA_CHECK_CRC32, .block_size = 8192 }; est = lzma_stream_encoder_mt_memusage(&mte); }
		if (sc == 12 || sc == 13 || sc == 14 || sc == 15) { lzma_lzma_preset(&ol, arg); f2[0].id = (sc == 12 || sc == 15) ? LZMA_FILTER_LZMA1 : LZMA_FILTER_LZMA2; f2[0].options = &ol; f2[1].id = LZMA_VLI_UNKNOWN; est = lzma_raw_encoder_memusage(f2); }
		lzma_stream s = LZMA_STREAM_INIT; s.allocator = &al;
		lzma_ret ir = do_init(&s, sc, memlimit, arg, n), fr = ir;
		uint64_t mu_seen = 0, tout = 0; unsigned mlerr = 0; uint32_t crc = 0;
		if (ir == LZMA_OK) fr = run_code(&s, sc, in, n, &mu_seen, &mlerr, &crc, &tout);
		if (ir == LZMA_OK && mu_seen == 0 && sc < 10) mu_seen = lzma_memusage(&s);
		// the handle must remain usable: re-initialise the same handle (no lzma_end in between) with failures switched off
		size_t peak_first = peak_bytes; size_t allocs_first = n_allocs;
		fail_k = 0;
		lzma_ret rr = (lzma_ret)-1; uint32_t crc2 = 0;
		if (failk) {
			if ((sc == 5 || sc == 6) && gidx) { lzma_index_end(gidx, &al); gidx = NULL; }
			uint64_t m2 = 0, t2 = 0; unsigned e2 = 0;
			rr = do_init(&s, sc, UINT64_MAX, arg, n);
			if (rr == LZMA_OK) rr = run_code(&s, sc, in, n, &m2, &e2, &crc2, &t2);
		}
		lzma_end(&s);
		if ((sc == 5 || sc == 6) && gidx) { lzma_index_end(gidx, &al); gidx = NULL; }
		alarm(0);
		printf("%d %d %zu %zu %zu %zu %llu %u %llu %08x %llu %d %08x %zu\n", (int)ir, (int)fr, allocs_first, peak_first, live_bytes, bad_free,
			(unsigned long long)mu_seen, mlerr, (unsigned long long)tout, crc, (unsigned long long)est, (int)rr, crc2, max_excess);
		fflush(stdout);
	}
	free(in); return 0;
}
